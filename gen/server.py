#!/venv/bin/python
"""Regenerate coq/Gen/ParseServer.v from the *source text* of command.parse_server (/repo/vncdotool/command.py, Python ast).

parse_server is a program over strings: startswith, slicing off the first character, partition and split on a
one-character separator, indexing and len of the split, int(), emptiness tests, raise, try/except around
ipaddress.IPv4Address, the statement ipaddress.IPv6Address(host), os.path.exists.  It is translated statement by
statement into a Gallina term of type option (family * text * Z) over Base/Text.v and the library functions of
Model/Server.v that stand for CPython's (py_int = int(), is_ipv4 = "IPv4Address accepts", partition_on, split_on);
os.path.exists and "IPv6Address accepts" are parameters.  raise = None; an if without else continues with the
statements that follow on both paths.  `hasattr(socket, "AF_UNIX")` is taken as True (this platform).
Anything outside this vocabulary raises: fail-closed.
"""
from __future__ import annotations

import ast
import os
import sys

sys.path.insert(0, os.path.dirname(os.path.abspath(__file__)))
from exprs import GenError, function, parse  # noqa: E402

OUT = os.path.join(os.path.dirname(os.path.abspath(__file__)), "..", "coq", "Gen", "ParseServer.v")

FAMILIES = {"socket.AF_INET": "AF_INET", "socket.AF_INET6": "AF_INET6", "socket.AF_UNIX": "AF_UNIX", "socket.AF_UNSPEC": "AF_UNSPEC"}


def one_char(e):
    if isinstance(e, ast.Constant) and isinstance(e.value, str) and len(e.value) == 1:
        return str(ord(e.value))
    raise GenError("expected a one-character string: " + ast.unparse(e))


class Tr:
    def __init__(self):
        self.n = 0

    def fresh(self, base):
        self.n += 1
        return f"{base}{self.n}"

    # ---- expressions -------------------------------------------------------------------------------
    def text(self, e, env):
        """-> Gallina term of type text"""
        if isinstance(e, ast.Name) and env.get(e.id, (None,))[0] == "text":
            return env[e.id][1]
        if isinstance(e, ast.Constant) and isinstance(e.value, str):
            return "[" + "; ".join(str(ord(c)) for c in e.value) + "]"
        if (isinstance(e, ast.Subscript) and isinstance(e.slice, ast.Slice) and e.slice.upper is None and e.slice.step is None
                and isinstance(e.slice.lower, ast.Constant) and isinstance(e.slice.lower.value, int) and e.slice.lower.value >= 0):
            return f"(skipn {e.slice.lower.value} {self.text(e.value, env)})"
        if (isinstance(e, ast.Subscript) and isinstance(e.slice, ast.Constant) and isinstance(e.slice.value, int) and e.slice.value >= 0
                and isinstance(e.value, ast.Name) and env.get(e.value.id, (None,))[0] == "list"):
            # indexing a split: the code only does so under a len() test or at [0] (a split is never empty)
            return f"(nth {e.slice.value} {env[e.value.id][1]} [])"
        raise GenError("unsupported string expression: " + ast.unparse(e))

    def cond(self, e, env):
        if isinstance(e, ast.UnaryOp) and isinstance(e.op, ast.Not):
            return f"(negb {self.cond(e.operand, env)})"
        if isinstance(e, ast.BoolOp):
            vals = [self.cond(v, env) for v in e.values]
            vals = [v for v in vals if v != "true"] or ["true"]
            return "(" + (" && " if isinstance(e.op, ast.And) else " || ").join(vals) + ")"
        if isinstance(e, ast.Call) and isinstance(e.func, ast.Attribute) and e.func.attr == "startswith" and len(e.args) == 1:
            return f"(starts_with {self.text(e.args[0], env)} {self.text(e.func.value, env)})"
        if ast.unparse(e) == "hasattr(socket, 'AF_UNIX')":
            return "true"
        if ast.unparse(e) in getattr(self, "flags", {}):
            if ast.unparse(e).startswith("key.") and env.get("key") != ("text", "key"):
                raise GenError("a method of `key` is called after `key` was reassigned: " + ast.unparse(e))
            return self.flags[ast.unparse(e)]
        if (isinstance(e, ast.Compare) and len(e.ops) == 1 and isinstance(e.ops[0], ast.In)
                and ast.unparse(e.comparators[0]) in getattr(self, "consts", {})):
            # str in str: substring
            return f"(is_substring {self.text(e.left, env)} {self.consts[ast.unparse(e.comparators[0])]})"
        if (isinstance(e, ast.Compare) and len(e.ops) == 1 and isinstance(e.ops[0], ast.Eq) and isinstance(e.left, ast.Call)
                and ast.unparse(e.left.func) == "len" and isinstance(e.left.args[0], ast.Name)
                and env.get(e.left.args[0].id, (None,))[0] == "text" and isinstance(e.comparators[0], ast.Constant)):
            return f"(Nat.eqb (List.length {env[e.left.args[0].id][1]}) {int(e.comparators[0].value)})"
        if isinstance(e, ast.Call) and ast.unparse(e.func) == "os.path.exists" and len(e.args) == 1:
            return f"(exists_ {self.text(e.args[0], env)})"
        if isinstance(e, ast.Name) and env.get(e.id, (None,))[0] == "bool":
            return env[e.id][1]
        if (isinstance(e, ast.Compare) and len(e.ops) == 1 and isinstance(e.ops[0], ast.Eq) and isinstance(e.left, ast.Call)
                and ast.unparse(e.left.func) == "len" and isinstance(e.left.args[0], ast.Name)
                and env.get(e.left.args[0].id, (None,))[0] == "list" and isinstance(e.comparators[0], ast.Constant)):
            return f"(Nat.eqb (List.length {env[e.left.args[0].id][1]}) {int(e.comparators[0].value)})"
        # truthiness of a string: non-empty
        try:
            t = self.text(e, env)
        except GenError:
            raise GenError("unsupported condition: " + ast.unparse(e))
        return f"(negb (is_nil {t}))"

    def with_ints(self, e, env, k):
        """bind every int(<text>) inside the integer expression e (None when it raises), then k(term)"""
        calls = [n for n in ast.walk(e) if isinstance(n, ast.Call) and isinstance(n.func, ast.Name) and n.func.id == "int"]
        names = {}

        def expr(x):
            if isinstance(x, ast.Call) and x in calls:
                return names[id(x)]
            if isinstance(x, ast.Constant) and isinstance(x.value, int) and not isinstance(x.value, bool):
                return str(x.value)
            if isinstance(x, ast.BinOp) and isinstance(x.op, (ast.Add, ast.Sub)):
                return f"({expr(x.left)} {'+' if isinstance(x.op, ast.Add) else '-'} {expr(x.right)})"
            if isinstance(x, ast.Name) and env.get(x.id, (None,))[0] == "int":
                return env[x.id][1]
            raise GenError("unsupported integer expression: " + ast.unparse(x))
        wrap = []
        for c in calls:
            if len(c.args) != 1 or c.keywords:
                raise GenError("int() with a base or keywords: " + ast.unparse(c))
            v = self.fresh("n")
            names[id(c)] = v
            wrap.append((v, self.text(c.args[0], env)))
        inner = k(expr(e))
        for v, t in reversed(wrap):
            inner = f"(match py_int {t} with None => None | Some {v} => {inner} end)"
        return inner

    # ---- statements --------------------------------------------------------------------------------
    def block(self, stmts, env, k):
        if not stmts:
            return k(env)
        st, rest = stmts[0], stmts[1:]

        def cont(env2):
            return self.block(rest, env2, k)
        if isinstance(st, ast.Expr) and isinstance(st.value, ast.Constant):
            return cont(env)
        if isinstance(st, ast.Raise):
            return "None"
        if isinstance(st, ast.Return) and getattr(self, "return_hook", None) is not None:
            return self.return_hook(st, env)
        if isinstance(st, ast.Return):
            if not (isinstance(st.value, ast.Tuple) and len(st.value.elts) == 3):
                raise GenError("expected `return family, host, port`")
            f, h, p = st.value.elts
            if not (isinstance(f, ast.Name) and env.get(f.id, (None,))[0] == "family" and isinstance(p, ast.Name) and env.get(p.id, (None,))[0] == "int"):
                raise GenError("the returned family / port is not bound on this path: " + ast.unparse(st))
            return f"(Some ({env[f.id][1]}, {self.text(h, env)}, {env[p.id][1]}))"
        if isinstance(st, ast.If):
            c = self.cond(st.test, env)
            return f"(if {c} then {self.block(st.body, dict(env), cont)} else {self.block(st.orelse, dict(env), cont)})"
        if isinstance(st, ast.Expr) and isinstance(st.value, ast.Call) and ast.unparse(st.value.func) == "ipaddress.IPv6Address" and len(st.value.args) == 1:
            return f"(if negb (ipv6_ok {self.text(st.value.args[0], env)}) then None else {cont(env)})"
        if isinstance(st, ast.Try):
            if not (len(st.body) == 1 and isinstance(st.body[0], ast.Expr) and isinstance(st.body[0].value, ast.Call)
                    and ast.unparse(st.body[0].value.func) == "ipaddress.IPv4Address" and len(st.body[0].value.args) == 1
                    and len(st.handlers) == 1 and st.handlers[0].type is not None
                    and ast.unparse(st.handlers[0].type) == "ipaddress.AddressValueError" and not st.finalbody):
                raise GenError("unsupported try statement")
            h = self.text(st.body[0].value.args[0], env)
            return f"(if is_ipv4 {h} then {self.block(st.orelse, dict(env), cont)} else {self.block(st.handlers[0].body, dict(env), cont)})"
        if isinstance(st, ast.Assign) and len(st.targets) == 1:
            tgt, val = st.targets[0], st.value
            if isinstance(tgt, ast.Tuple):
                if not (isinstance(val, ast.Call) and isinstance(val.func, ast.Attribute) and val.func.attr == "partition" and len(val.args) == 1
                        and len(tgt.elts) == 3 and all(isinstance(t, ast.Name) for t in tgt.elts)):
                    raise GenError("unsupported tuple assignment: " + ast.unparse(st))
                a, f, b = (self.fresh(t.id) for t in tgt.elts)
                src = self.text(val.func.value, env)
                env2 = dict(env)
                env2[tgt.elts[0].id] = ("text", a)
                env2[tgt.elts[1].id] = ("bool", f)          # the separator found: non-empty, i.e. true
                env2[tgt.elts[2].id] = ("text", b)
                return f"(let '({a}, {f}, {b}) := partition_on {one_char(val.args[0])} {src} in {cont(env2)})"
            if isinstance(tgt, ast.Name):
                env2 = dict(env)
                if (isinstance(val, ast.BinOp) and isinstance(val.op, ast.Mod) and isinstance(val.left, ast.Constant)
                        and isinstance(val.left.value, str) and val.left.value.count("%") == 1 and "%c" in val.left.value):
                    # "...%c..." % t: t must be one character (TypeError otherwise)
                    pre, post = val.left.value.split("%c")
                    lit = lambda z: "[" + "; ".join(str(ord(ch)) for ch in z) + "]"  # noqa: E731
                    v, ch = self.fresh(tgt.id), self.fresh("c")
                    env2[tgt.id] = ("text", v)
                    return (f"(match {self.text(val.right, env)} with [{ch}] => (let {v} := {lit(pre)} ++ [{ch}] ++ {lit(post)} in {cont(env2)}) "
                            f"| _ => None end)")
                if isinstance(val, ast.List) and val.elts:
                    v = self.fresh(tgt.id)
                    env2[tgt.id] = ("list", v)
                    return f"(let {v} := [{'; '.join(self.text(x, env) for x in val.elts)}] in {cont(env2)})"
                if isinstance(val, ast.Call) and isinstance(val.func, ast.Attribute) and val.func.attr == "split" and len(val.args) == 1:
                    v = self.fresh(tgt.id)
                    env2[tgt.id] = ("list", v)
                    return f"(let {v} := split_on {one_char(val.args[0])} {self.text(val.func.value, env)} in {cont(env2)})"
                if ast.unparse(val) in FAMILIES:
                    env2[tgt.id] = ("family", FAMILIES[ast.unparse(val)])
                    return cont(env2)
                if any(isinstance(n, ast.Call) and isinstance(n.func, ast.Name) and n.func.id == "int" for n in ast.walk(val)) or (
                        isinstance(val, ast.Constant) and isinstance(val.value, int)):
                    v = self.fresh(tgt.id)
                    env2[tgt.id] = ("int", v)
                    return self.with_ints(val, env, lambda t: f"(let {v} := {t} in {cont(env2)})")
                t = self.text(val, env)
                v = self.fresh(tgt.id)
                env2[tgt.id] = ("text", v)
                return f"(let {v} := {t} in {cont(env2)})"
        raise GenError("unsupported statement in parse_server: " + ast.unparse(st)[:90])


def main():
    command = parse("command.py")
    fn = function(command, "parse_server")
    if [a.arg for a in fn.args.args] != ["server"]:
        raise GenError("parse_server no longer takes exactly one argument `server`")
    tr = Tr()

    def fell_off(env):
        raise GenError("a path of parse_server ends without return or raise")
    term = tr.block(fn.body, {"server": ("text", "server")}, fell_off)
    out = ["(** GENERATED by gen/server.py from command.parse_server - do not edit. *)",
           "From Coq Require Import ZArith List Bool.", "From VD Require Import Base.Bytes Base.Text Model.Server.",
           "Import ListNotations.", "Open Scope Z_scope.", "",
           "Definition is_nil (t : text) : bool := match t with [] => true | _ => false end.", "",
           "Definition gen_parse_server (exists_ ipv6_ok : text -> bool) (server : text) : option (family * text * Z) :=",
           "  " + term + ".", ""]
    new = "\n".join(out)
    os.makedirs(os.path.dirname(OUT), exist_ok=True)
    if not os.path.exists(OUT) or open(OUT).read() != new:
        open(OUT, "w").write(new)


def decode_key():
    """client.VNCDoToolClient._decodeKey -> Gen/DecodeKey.v"""
    from exprs import method
    client = parse("client.py")
    fn = method(client, "VNCDoToolClient", "_decodeKey")
    if [a.arg for a in fn.args.args] != ["self", "key"]:
        raise GenError("_decodeKey no longer takes (self, key)")
    tr = Tr()
    tr.flags = {"self.factory.force_caps": "force_caps", "key.isupper()": "isupper"}
    tr.consts = {"self.SPECIAL_KEYS_US": "SPECIAL_KEYS_US"}

    def ret(st, env):
        v = st.value
        if not (isinstance(v, ast.ListComp) and len(v.generators) == 1 and not v.generators[0].ifs
                and isinstance(v.generators[0].target, ast.Name) and isinstance(v.generators[0].iter, ast.Name)
                and env.get(v.generators[0].iter.id, (None,))[0] == "list"):
            raise GenError("_decodeKey: expected `return [<code of k> for k in keys]`")
        k = v.generators[0].target.id
        if ast.unparse(v.elt) != f"KEYMAP.get({k}) or ord({k})":
            raise GenError("_decodeKey: the code of a key is no longer `KEYMAP.get(k) or ord(k)`: " + ast.unparse(v.elt))
        return f"(all_some (map gen_key_elt {env[v.generators[0].iter.id][1]}))"
    tr.return_hook = ret

    def fell_off(env):
        raise GenError("a path of _decodeKey ends without return")
    term = tr.block(fn.body, {"key": ("text", "key")}, fell_off)
    if "isupper" in term.split("let key")[-1] and False:
        pass
    out = ["(** GENERATED by gen/server.py from VNCDoToolClient._decodeKey - do not edit. *)",
           "From Coq Require Import ZArith List Bool.", "From VD Require Import Base.Bytes Base.Text Gen.Tables Model.Keys.",
           "Import ListNotations.", "Open Scope Z_scope.", "",
           "(* ord(k): a string of one character *)",
           "Definition py_ord (k : text) : option Z := match k with [c] => Some c | _ => None end.", "",
           "(* KEYMAP.get(k) or ord(k): the table's value unless it is missing or 0 *)",
           "Definition gen_key_elt (k : text) : option Z :=",
           "  match assoc_text k KEYMAP with Some v => if v =? 0 then py_ord k else Some v | None => py_ord k end.", "",
           "(* [isupper] is the value of key.isupper() for the key as passed in (Unicode case tables are not modelled) *)",
           "Definition gen_decode_key (force_caps isupper : bool) (key : text) : option (list Z) :=",
           "  " + term + ".", ""]
    outp = os.path.join(os.path.dirname(OUT), "DecodeKey.v")
    new = "\n".join(out)
    if not os.path.exists(outp) or open(outp).read() != new:
        open(outp, "w").write(new)


if __name__ == "__main__":
    if len(sys.argv) > 1 and sys.argv[1] == "decodekey":
        try:
            decode_key()
        except GenError as e:
            print("gen/server.py decodekey: " + str(e), file=sys.stderr)
            sys.exit(2)
        sys.exit(0)
    try:
        main()
    except GenError as e:
        print("gen/server.py: " + str(e), file=sys.stderr)
        sys.exit(2)
