#!/venv/bin/python
"""Regenerate coq/Gen/ScreenOps.v from the *source text* of VNCDoToolClient.updateRectangle / updateDesktopSize
(/repo/vncdotool/client.py, Python ast).

The two methods are programs over a tiny image vocabulary: Image.new("RGB", (w, h), "black"), X.paste(Y, (a, b)),
assignments between image-valued names, self.screen.size[0] / [1], and tests on integers and on `self.screen` being
there.  They are executed symbolically twice - once assuming there is no screen yet, once with a screen `scr` - and the
value of `self.screen` at the end is written as a Gallina term over Model/Image.v (new_black, paste, iw, ih).
Whatever else appears in them (another call, a cache, an early return) raises: fail-closed.
"""
from __future__ import annotations

import ast
import os
import sys

sys.path.insert(0, os.path.dirname(os.path.abspath(__file__)))
from exprs import GenError, bexpr, zexpr, is_log_call, method, parse  # noqa: E402

OUT = os.path.join(os.path.dirname(os.path.abspath(__file__)), "..", "coq", "Gen", "ScreenOps.v")


class Env:
    def __init__(self, ints, images, has_screen):
        self.ints = dict(ints)          # name -> Gallina Z term
        self.images = dict(images)      # name -> Gallina image term
        self.tuples = {}                # name -> (Z term, Z term)
        self.has_screen = has_screen

    def copy(self):
        e = Env(self.ints, self.images, self.has_screen)
        e.tuples = dict(self.tuples)
        return e

    def zenv(self):
        z = dict(self.ints)
        if self.has_screen:
            z["<screen>"] = self.images["self.screen"]
        return z


def size_sub(e, env: Env):
    """self.screen.size[k] -> iw / ih of the current screen term"""
    if (isinstance(e, ast.Subscript) and ast.unparse(e.value) == "self.screen.size" and isinstance(e.slice, ast.Constant)
            and e.slice.value in (0, 1)):
        if not env.has_screen:
            raise GenError("self.screen.size read on a path where there is no screen")
        return f"({'iw' if e.slice.value == 0 else 'ih'} {env.images['self.screen']})"
    return None


class Sub(ast.NodeTransformer):
    """replace self.screen.size[k] by a fresh name bound in the integer environment"""

    def __init__(self, env):
        self.env = env
        self.extra = {}

    def visit_Subscript(self, node):
        t = size_sub(node, self.env)
        if t is not None:
            name = f"__size{len(self.extra)}"
            self.extra[name] = t
            return ast.copy_location(ast.Name(id=name, ctx=ast.Load()), node)
        return self.generic_visit(node)


def z(e, env: Env) -> str:
    s = Sub(env)
    e2 = s.visit(ast.parse(ast.unparse(e), mode="eval").body)
    return zexpr(e2, {**env.ints, **s.extra})


def b(e, env: Env):
    """-> Gallina bool term, or True/False when decided by the presence of the screen"""
    if isinstance(e, ast.UnaryOp) and isinstance(e.op, ast.Not):
        v = b(e.operand, env)
        return (not v) if isinstance(v, bool) else f"(negb {v})"
    if ast.unparse(e) == "self.screen":
        return env.has_screen
    if isinstance(e, ast.BoolOp):
        vals = [b(v, env) for v in e.values]
        if any(isinstance(v, bool) for v in vals):
            raise GenError("screen presence mixed into a compound test: " + ast.unparse(e))
        return "(" + (" || " if isinstance(e.op, ast.Or) else " && ").join(vals) + ")"
    if isinstance(e, ast.Compare) and len(e.ops) > 1:
        parts = []
        left = e.left
        for op, right in zip(e.ops, e.comparators):
            parts.append(b(ast.Compare(left=left, ops=[op], comparators=[right]), env))
            left = right
        return "(" + " && ".join(parts) + ")"
    s = Sub(env)
    e2 = s.visit(ast.parse(ast.unparse(e), mode="eval").body)
    return bexpr(e2, {**env.ints, **s.extra})


def image_value(e, env: Env) -> str:
    if isinstance(e, ast.Name) and e.id in env.images:
        return env.images[e.id]
    if ast.unparse(e) == "self.screen":
        if not env.has_screen:
            raise GenError("self.screen used as an image on a path where there is none")
        return env.images["self.screen"]
    if isinstance(e, ast.Call) and ast.unparse(e.func) == "Image.new":
        if not (len(e.args) == 3 and not e.keywords and isinstance(e.args[0], ast.Constant) and e.args[0].value == "RGB"
                and isinstance(e.args[2], ast.Constant) and e.args[2].value == "black"):
            raise GenError("Image.new other than Image.new('RGB', size, 'black'): " + ast.unparse(e))
        w, h = pair(e.args[1], env)
        return f"(new_black {w} {h})"
    raise GenError("unsupported image expression: " + ast.unparse(e))


def pair(e, env: Env):
    if isinstance(e, ast.Tuple) and len(e.elts) == 2:
        return z(e.elts[0], env), z(e.elts[1], env)
    if isinstance(e, ast.Name) and e.id in env.tuples:
        return env.tuples[e.id]
    raise GenError("expected a pair of integers: " + ast.unparse(e))


def run(stmts, env: Env, allow_trailing_draw=False):
    """-> env after the statements; `self.screen` may appear/disappear"""
    for idx, st in enumerate(stmts):
        if is_log_call(st) or (isinstance(st, ast.Expr) and isinstance(st.value, ast.Constant)):
            continue
        if isinstance(st, ast.Assign) and len(st.targets) == 1:
            tgt = ast.unparse(st.targets[0])
            if isinstance(st.value, ast.Tuple) and len(st.value.elts) == 2 and isinstance(st.targets[0], ast.Name):
                env.tuples[tgt] = pair(st.value, env)
                continue
            if tgt == "self.screen" or isinstance(st.targets[0], ast.Name):
                try:
                    v = image_value(st.value, env)
                except GenError:
                    if isinstance(st.targets[0], ast.Name):
                        env.ints[tgt] = z(st.value, env)
                        continue
                    raise
                env.images[tgt] = v
                if tgt == "self.screen":
                    env.has_screen = True
                continue
        if (isinstance(st, ast.Expr) and isinstance(st.value, ast.Call) and isinstance(st.value.func, ast.Attribute)
                and st.value.func.attr == "paste" and len(st.value.args) == 2 and not st.value.keywords):
            dst = ast.unparse(st.value.func.value)
            if dst not in env.images or (dst == "self.screen" and not env.has_screen):
                raise GenError("paste into something that is not an image here: " + ast.unparse(st))
            src = image_value(st.value.args[0], env)
            ox, oy = pair(st.value.args[1], env)
            env.images[dst] = f"(paste {env.images[dst]} {src} {ox} {oy})"
            # `new_screen` and `self.screen` may alias after `self.screen = new_screen`: the code never pastes after aliasing
            continue
        if isinstance(st, ast.If):
            c = b(st.test, env)
            if isinstance(c, bool):
                env = run(st.body if c else st.orelse, env)
                continue
            a, bb = run(st.body, env.copy()), run(st.orelse, env.copy())
            if a.has_screen != bb.has_screen:
                raise GenError("the screen exists on one branch only: " + ast.unparse(st.test))
            for k in set(a.images) | set(bb.images):
                va, vb = a.images.get(k), bb.images.get(k)
                if k == "self.screen" or (va is not None and vb is not None):
                    if va is None or vb is None:
                        raise GenError(f"{k} assigned on one branch only")
                    env.images[k] = va if va == vb else f"(if {c} then {va} else {vb})"
            env.has_screen = a.has_screen
            continue
        if (allow_trailing_draw and idx == len(stmts) - 1 and ast.unparse(st) == "self.drawCursor()"):
            continue
        raise GenError("unsupported statement in a screen operation: " + ast.unparse(st)[:90])
    return env


def class_const(mod, cls, name):
    for n in mod.body:
        if isinstance(n, ast.ClassDef) and n.name == cls:
            for m in n.body:
                if (isinstance(m, ast.Assign) and len(m.targets) == 1 and ast.unparse(m.targets[0]) == name
                        and isinstance(m.value, ast.Constant) and isinstance(m.value.value, int)):
                    return m.value.value
    raise GenError(f"{cls}.{name} is not an integer constant")


def main():
    client = parse("client.py")
    out = ["(** GENERATED by gen/screen.py from vncdotool/client.py - do not edit. *)",
           "From Coq Require Import ZArith List Bool.", "From VD Require Import Model.Image.", "Import ListNotations.", "Open Scope Z_scope.", ""]

    # ---- updateRectangle
    m = method(client, "VNCDoToolClient", "updateRectangle")
    body = [s for s in m.body if not (isinstance(s, ast.Expr) and isinstance(s.value, ast.Constant))]
    if not (isinstance(body[0], ast.If) and ast.unparse(body[0].test) == "not data" and len(body[0].body) == 1
            and isinstance(body[0].body[0], ast.Return) and body[0].body[0].value is None and not body[0].orelse):
        raise GenError("updateRectangle: expected `if not data: return` first")
    rest = body[1:]
    fb = [s for s in rest if isinstance(s, ast.Assign) and isinstance(s.value, ast.Call) and ast.unparse(s.value.func) == "Image.frombytes"]
    if len(fb) != 1 or ast.unparse(fb[0].targets[0]) != "update":
        raise GenError("updateRectangle: expected one `update = Image.frombytes(...)`")
    pre = rest[:rest.index(fb[0])]
    env0 = Env({"x": "x", "y": "y", "width": "width", "height": "height"}, {}, False)
    env0 = run(pre, env0)
    a = fb[0].value.args
    if not (len(a) == 5 and isinstance(a[0], ast.Constant) and a[0].value == "RGB" and pair(a[1], env0) == ("width", "height")
            and ast.unparse(a[2]) == "data" and isinstance(a[3], ast.Constant) and a[3].value == "raw" and ast.unparse(a[4]) == "self.image_mode"):
        raise GenError("updateRectangle: the update is no longer Image.frombytes('RGB', (width, height), data, 'raw', self.image_mode)")
    after = rest[rest.index(fb[0]) + 1:]
    params = "(x y width height : Z) (update : image)"
    for has, name, extra in ((False, "gen_update_first", ""), (True, "gen_update_later", "(scr : image) ")):
        env = env0.copy()
        env.images["update"] = "update"
        env.has_screen = has
        if has:
            env.images["self.screen"] = "scr"
        env = run(after, env, allow_trailing_draw=True)
        if not env.has_screen:
            raise GenError("updateRectangle leaves no screen")
        out.append(f"Definition {name} {extra}{params} : image :=\n  {env.images['self.screen']}.\n")
    if ast.unparse(after[-1]) != "self.drawCursor()":
        raise GenError("updateRectangle no longer ends with self.drawCursor()")

    # ---- updateDesktopSize
    m = method(client, "VNCDoToolClient", "updateDesktopSize")
    body = [s for s in m.body if not (isinstance(s, ast.Expr) and isinstance(s.value, ast.Constant))]
    g = body[0]
    if not (isinstance(g, ast.If) and isinstance(g.test, ast.UnaryOp) and isinstance(g.test.op, ast.Not) and len(g.body) == 1
            and isinstance(g.body[0], ast.Raise) and not g.orelse):
        raise GenError("updateDesktopSize: expected `if not (<range check>): raise ...` first")
    maxd = class_const(client, "VNCDoToolClient", "MAX_DESKTOP_SIZE")
    envr = Env({"width": "width", "height": "height", "self.MAX_DESKTOP_SIZE": str(maxd)}, {}, False)
    out.append(f"Definition gen_resize_ok (width height : Z) : bool :=\n  {b(g.test.operand, envr)}.\n")
    for has, name, extra in ((False, "gen_resize_first", ""), (True, "gen_resize_later", "(scr : image) ")):
        env = envr.copy()
        env.has_screen = has
        if has:
            env.images["self.screen"] = "scr"
        env = run(body[1:], env)
        if not env.has_screen:
            raise GenError("updateDesktopSize leaves no screen")
        out.append(f"Definition {name} {extra}(width height : Z) : image :=\n  {env.images['self.screen']}.\n")

    new = "\n".join(out)
    os.makedirs(os.path.dirname(OUT), exist_ok=True)
    if not os.path.exists(OUT) or open(OUT).read() != new:
        open(OUT, "w").write(new)


if __name__ == "__main__":
    try:
        main()
    except GenError as e:
        print("gen/screen.py: " + str(e), file=sys.stderr)
        sys.exit(2)
