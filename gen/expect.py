#!/venv/bin/python
"""Regenerate coq/Gen/ExpectOps.v from the *source text* of VNCDoToolClient._expectCompare (/repo/vncdotool/client.py).

The method is a decision: given whether a screen exists, the histogram of the awaited box and the expected histogram, it
either returns at once (the wait completes) or arms the waiter and writes one update request whose incremental flag it
has computed.  It is executed symbolically (if / assignment / early return), its expressions translated:
len() comparisons and the sum of squared differences over zip() in Z, `math.sqrt(sum_ / len(hist))` and `rms <= maxrms`
in binary64 (PrimFloat: of_uint63, div, sqrt, leb - CPython's float division of two ints below 2^53 and math.sqrt are
correctly rounded, as Coq's primitives).  The crop and the histogram themselves stay parameters (Pillow's).  The tail of
the method is pinned: a fresh Deferred whose callback is _expectCompare with the same box and tolerance, then one
framebufferUpdateRequest(incremental=incremental), then return of the Deferred.  Anything else raises: fail-closed.
"""
from __future__ import annotations

import ast
import os
import sys

sys.path.insert(0, os.path.dirname(os.path.abspath(__file__)))
from exprs import GenError, is_log_call, method, parse  # noqa: E402

OUT = os.path.join(os.path.dirname(os.path.abspath(__file__)), "..", "coq", "Gen", "ExpectOps.v")


def zt(e, env):
    """integer-valued expression"""
    if isinstance(e, ast.Call) and ast.unparse(e.func) == "len" and len(e.args) == 1:
        return f"(len {lt(e.args[0], env)})"
    if isinstance(e, ast.Name) and env.get(e.id, (None,))[0] == "int":
        return env[e.id][1]
    if (isinstance(e, ast.Call) and ast.unparse(e.func) == "sum" and len(e.args) == 1 and isinstance(e.args[0], ast.GeneratorExp)):
        g = e.args[0]
        if len(g.generators) != 1 or g.generators[0].ifs:
            raise GenError("unsupported generator: " + ast.unparse(g))
        gen = g.generators[0]
        if not (isinstance(gen.iter, ast.Call) and ast.unparse(gen.iter.func) == "zip" and len(gen.iter.args) == 2
                and isinstance(gen.target, ast.Tuple) and len(gen.target.elts) == 2 and all(isinstance(t, ast.Name) for t in gen.target.elts)):
            raise GenError("expected a sum over zip(a, b): " + ast.unparse(g))
        a, b = (t.id for t in gen.target.elts)
        body = zexp(g.elt, {a: a + "_", b: b + "_"})
        return (f"(fold_right Z.add 0 (map (fun p_ => let '({a}_, {b}_) := p_ in {body}) "
                f"(combine {lt(gen.iter.args[0], env)} {lt(gen.iter.args[1], env)})))")
    raise GenError("unsupported integer expression: " + ast.unparse(e))


def zexp(e, names):
    if isinstance(e, ast.Name) and e.id in names:
        return names[e.id]
    if isinstance(e, ast.Constant) and isinstance(e.value, int):
        return str(e.value)
    if isinstance(e, ast.BinOp) and isinstance(e.op, (ast.Add, ast.Sub, ast.Mult)):
        op = {ast.Add: "+", ast.Sub: "-", ast.Mult: "*"}[type(e.op)]
        return f"({zexp(e.left, names)} {op} {zexp(e.right, names)})"
    if isinstance(e, ast.BinOp) and isinstance(e.op, ast.Pow) and isinstance(e.right, ast.Constant) and e.right.value == 2:
        x = zexp(e.left, names)
        return f"({x} * {x})"
    raise GenError("unsupported term: " + ast.unparse(e))


def lt(e, env):
    """list-of-integers expression (a histogram)"""
    if isinstance(e, ast.Name) and env.get(e.id, (None,))[0] == "hist":
        return env[e.id][1]
    if ast.unparse(e) == "self.expected":
        return "expected"
    raise GenError("unsupported histogram expression: " + ast.unparse(e))


def ft(e, env):
    """float-valued expression"""
    if isinstance(e, ast.Name) and env.get(e.id, (None,))[0] == "float":
        return env[e.id][1]
    if isinstance(e, ast.Name) and e.id == "maxrms":
        return "maxrms"
    if isinstance(e, ast.Call) and ast.unparse(e.func) == "math.sqrt" and len(e.args) == 1:
        return f"(PrimFloat.sqrt {ft(e.args[0], env)})"
    if isinstance(e, ast.BinOp) and isinstance(e.op, ast.Div):
        # int / int: true division, correctly rounded
        return f"(PrimFloat.div (float_of_Z {zt(e.left, env)}) (float_of_Z {zt(e.right, env)}))"
    raise GenError("unsupported float expression: " + ast.unparse(e))


def cond(e, env):
    if isinstance(e, ast.Compare) and len(e.ops) == 1:
        if isinstance(e.ops[0], ast.Eq):
            return f"({zt(e.left, env)} =? {zt(e.comparators[0], env)})"
        if isinstance(e.ops[0], ast.LtE):
            return f"(PrimFloat.leb {ft(e.left, env)} {ft(e.comparators[0], env)})"
    raise GenError("unsupported condition: " + ast.unparse(e))


def block(stmts, env, k):
    """-> Gallina term of type (bool * bool): (the wait completes now, incremental flag of the request otherwise)"""
    if not stmts:
        return k(env)
    st, rest = stmts[0], stmts[1:]

    def cont(env2):
        return block(rest, env2, k)
    if is_log_call(st):
        return cont(env)
    if isinstance(st, ast.Return):
        if ast.unparse(st.value) != "self":
            raise GenError("an early return of something else than self")
        return "(true, false)"
    if isinstance(st, ast.If):
        if ast.unparse(st.test) == "self.screen":
            c = "has_screen"
        else:
            c = cond(st.test, env)
        return f"(if {c} then {block(st.body, dict(env), cont)} else {block(st.orelse, dict(env), cont)})"
    if isinstance(st, ast.Assign) and len(st.targets) == 1 and isinstance(st.targets[0], ast.Name):
        n = st.targets[0].id
        env2 = dict(env)
        v = st.value
        if isinstance(v, ast.Constant) and isinstance(v.value, bool):
            env2[n] = ("bool", "true" if v.value else "false")
            return cont(env2)
        if ast.unparse(v) == "self.screen.crop(box)":
            env2[n] = ("image", "crop")
            return cont(env2)
        if isinstance(v, ast.Call) and isinstance(v.func, ast.Attribute) and v.func.attr == "histogram" and not v.args \
                and isinstance(v.func.value, ast.Name) and env.get(v.func.value.id, (None,))[0] == "image":
            env2[n] = ("hist", "hist")
            return cont(env2)
        try:
            t = zt(v, env)
            env2[n] = ("int", n + "_v")
            return f"(let {n}_v := {t} in {cont(env2)})"
        except GenError:
            t = ft(v, env)
            env2[n] = ("float", n + "_v")
            return f"(let {n}_v := {t} in {cont(env2)})"
    raise GenError("unsupported statement in _expectCompare: " + ast.unparse(st)[:80])


def main():
    client = parse("client.py")
    m = method(client, "VNCDoToolClient", "_expectCompare")
    if [a.arg for a in m.args.args] != ["self", "data", "box", "maxrms"]:
        raise GenError("_expectCompare: parameters changed")
    body = [s for s in m.body if not (isinstance(s, ast.Expr) and isinstance(s.value, ast.Constant))]
    tail = [ast.unparse(s) for s in body[-4:]]
    want_tail = ["self.deferred = Deferred()", "self.deferred.addCallback(self._expectCompare, box, maxrms)",
                 "self.framebufferUpdateRequest(incremental=incremental)", "return self.deferred"]
    if tail != want_tail:
        raise GenError("_expectCompare no longer ends with: arm a fresh Deferred on itself, one update request, return it: " + "; ".join(tail))

    def at_end(env):
        if env.get("incremental", (None,))[0] != "bool":
            raise GenError("`incremental` is not a boolean constant on this path")
        return f"(false, {env['incremental'][1]})"
    term = block(body[:-4], {}, at_end)
    out = ["(** GENERATED by gen/expect.py from VNCDoToolClient._expectCompare - do not edit. *)",
           "From Coq Require Import ZArith List Bool PrimFloat.", "From VD Require Import Base.Bytes Model.Expect.",
           "Import ListNotations.", "Open Scope Z_scope.", "",
           "(* (the wait completes at once, incremental flag of the update request written otherwise);",
           "   [hist] is the histogram of the crop of the screen to the awaited box (Pillow's), only looked at when a screen exists *)",
           "Definition gen_expect_compare (has_screen : bool) (hist expected : list Z) (maxrms : float) : bool * bool :=",
           "  " + term + ".", ""]
    new = "\n".join(out)
    os.makedirs(os.path.dirname(OUT), exist_ok=True)
    if not os.path.exists(OUT) or open(OUT).read() != new:
        open(OUT, "w").write(new)


if __name__ == "__main__":
    try:
        main()
    except GenError as e:
        print("gen/expect.py: " + str(e), file=sys.stderr)
        sys.exit(2)
