#!/venv/bin/python
"""Regenerate coq/Gen/Exprs.v from the *source text* of /repo/vncdotool/{rfb,client,command}.py (Python ast).

A small fail-closed translator of straight-line integer code (assignments, augmented assignments, if-statements made
of those; + - * // % << >> & |, comparisons, and/or/not, max/min/abs, conditional expressions, sums over a constant
range) into Gallina terms over Z, applied to the arithmetic the theorems rest on:

  * the tile geometry of Hextile and ZRLE (tile size, next tile, end test) and the sub-rectangle geometry of Hextile,
  * the path of mouseDrag (range, intermediate positions, final position, pause per step),
  * the bit reversal and the padding of the VNC-authentication key,
  * the time arithmetic of the command line (pause / warp, delay / 1000, the --timeout timer).

Python's // and % on integers are Coq's Z.div and Z.modulo (both floor, sign of the divisor); >> and << are Z.shiftr and
Z.shiftl, & and | are Z.land and Z.lor (two's complement on both sides).  Whatever has another shape than expected
raises: the check then reports the tie as broken instead of proving theorems about yesterday's code.
"""
from __future__ import annotations

import ast
import os
import sys

REPO = os.environ.get("VERIF_REPO", "/repo")
OUT = os.path.join(os.path.dirname(os.path.abspath(__file__)), "..", "coq", "Gen", "Exprs.v")


class GenError(Exception):
    pass


BIN = {ast.Add: "({} + {})", ast.Sub: "({} - {})", ast.Mult: "({} * {})", ast.FloorDiv: "({} / {})", ast.Mod: "({} mod {})",
       ast.LShift: "(Z.shiftl {} {})", ast.RShift: "(Z.shiftr {} {})", ast.BitAnd: "(Z.land {} {})", ast.BitOr: "(Z.lor {} {})"}
CMP = {ast.Lt: "({} <? {})", ast.LtE: "({} <=? {})", ast.Gt: "({} >? {})", ast.GtE: "({} >=? {})", ast.Eq: "({} =? {})",
       ast.NotEq: "(negb ({} =? {}))"}


def zexpr(e: ast.expr, env: dict) -> str:
    if isinstance(e, ast.Constant) and isinstance(e.value, int) and not isinstance(e.value, bool):
        return str(e.value) if e.value >= 0 else f"({e.value})"
    if isinstance(e, ast.Name):
        if e.id not in env:
            raise GenError(f"name {e.id} is not an input of this fragment")
        return env[e.id]
    if isinstance(e, ast.Attribute) and isinstance(e.value, ast.Name) and e.value.id == "self":
        key = "self." + e.attr
        if key not in env:
            raise GenError(f"{key} is not an input of this fragment")
        return env[key]
    if isinstance(e, ast.BinOp) and type(e.op) in BIN:
        return BIN[type(e.op)].format(zexpr(e.left, env), zexpr(e.right, env))
    if isinstance(e, ast.UnaryOp) and isinstance(e.op, ast.USub):
        return f"(- {zexpr(e.operand, env)})"
    if isinstance(e, ast.UnaryOp) and isinstance(e.op, ast.Invert):
        return f"(Z.lnot {zexpr(e.operand, env)})"
    if isinstance(e, ast.Call) and isinstance(e.func, ast.Name) and not e.keywords:
        if e.func.id in ("max", "min") and len(e.args) == 2:
            return f"(Z.{e.func.id} {zexpr(e.args[0], env)} {zexpr(e.args[1], env)})"
        if e.func.id == "abs" and len(e.args) == 1:
            return f"(Z.abs {zexpr(e.args[0], env)})"
        if e.func.id == "sum" and len(e.args) == 1 and isinstance(e.args[0], ast.GeneratorExp):
            g = e.args[0]
            if len(g.generators) != 1 or g.generators[0].ifs or not isinstance(g.generators[0].target, ast.Name):
                raise GenError("unsupported generator: " + ast.unparse(g))
            rng = const_range(g.generators[0].iter)
            v = g.generators[0].target.id
            inner = dict(env)
            inner[v] = v + "_"
            body = zexpr(g.elt, inner)
            return f"(fold_right Z.add 0 (map (fun {v}_ => {body}) [{'; '.join(str(k) for k in rng)}]))"
    if isinstance(e, ast.IfExp):
        return f"(if {bexpr(e.test, env)} then {zexpr(e.body, env)} else {zexpr(e.orelse, env)})"
    raise GenError("unsupported integer expression: " + ast.unparse(e))


def bexpr(e: ast.expr, env: dict) -> str:
    if isinstance(e, ast.Compare) and len(e.ops) == 1 and type(e.ops[0]) in CMP:
        return CMP[type(e.ops[0])].format(zexpr(e.left, env), zexpr(e.comparators[0], env))
    if isinstance(e, ast.BoolOp):
        parts = [bexpr(v, env) for v in e.values]
        return "(" + (" || " if isinstance(e.op, ast.Or) else " && ").join(parts) + ")"
    if isinstance(e, ast.UnaryOp) and isinstance(e.op, ast.Not):
        return f"(negb {bexpr(e.operand, env)})"
    # truthiness of an integer
    return f"(negb ({zexpr(e, env)} =? 0))"


def const_range(e: ast.expr):
    if (isinstance(e, ast.Call) and isinstance(e.func, ast.Name) and e.func.id == "range" and len(e.args) == 1
            and isinstance(e.args[0], ast.Constant) and isinstance(e.args[0].value, int) and 0 <= e.args[0].value <= 64):
        return list(range(e.args[0].value))
    raise GenError("only range(<small constant>) is supported here: " + ast.unparse(e))


def is_log_call(st: ast.stmt) -> bool:
    return (isinstance(st, ast.Expr) and isinstance(st.value, ast.Call) and isinstance(st.value.func, ast.Attribute)
            and isinstance(st.value.func.value, ast.Name) and st.value.func.value.id == "log")


def target_key(t):
    if isinstance(t, ast.Name):
        return t.id
    if isinstance(t, ast.Attribute) and isinstance(t.value, ast.Name) and t.value.id == "self":
        return "self." + t.attr
    return None


def run_block(stmts, env: dict, opaque_subscripts=False) -> dict:
    """symbolic execution of straight-line code; returns the new environment"""
    env = dict(env)
    for st in stmts:
        if isinstance(st, ast.Assert) or is_log_call(st) or (isinstance(st, ast.Expr) and isinstance(st.value, ast.Constant)):
            continue
        if isinstance(st, ast.Assign):
            if opaque_subscripts and isinstance(st.value, ast.Subscript) and len(st.targets) == 1 and isinstance(st.targets[0], ast.Name):
                env[st.targets[0].id] = st.targets[0].id          # a byte (or a slice) taken from the block: an input named by its target
                continue
            if len(st.targets) == 1 and isinstance(st.targets[0], ast.Tuple):
                if not (isinstance(st.value, ast.Tuple) and len(st.value.elts) == len(st.targets[0].elts)):
                    raise GenError("unsupported tuple assignment: " + ast.unparse(st))
                vals = [zexpr(v, env) for v in st.value.elts]
                for t, v in zip(st.targets[0].elts, vals):
                    if target_key(t) is None:
                        raise GenError("unsupported target: " + ast.unparse(st))
                    env[target_key(t)] = v
                continue
            v = zexpr(st.value, env)
            for t in st.targets:
                if target_key(t) is None:
                    raise GenError("unsupported target: " + ast.unparse(st))
                env[target_key(t)] = v
            continue
        if isinstance(st, ast.AugAssign) and target_key(st.target) is not None and type(st.op) in BIN:
            load = ast.parse(ast.unparse(st.target), mode="eval").body
            env[target_key(st.target)] = BIN[type(st.op)].format(zexpr(load, env), zexpr(st.value, env))
            continue
        if isinstance(st, ast.If):
            c = bexpr(st.test, env)
            a = run_block(st.body, env, opaque_subscripts)
            b = run_block(st.orelse, env, opaque_subscripts)
            for k in set(a) | set(b):
                va, vb = a.get(k), b.get(k)
                if va is None or vb is None:
                    raise GenError(f"{k} is assigned on one path only: " + ast.unparse(st.test))
                env[k] = va if va == vb else f"(if {c} then {va} else {vb})"
            continue
        raise GenError("unsupported statement in an arithmetic fragment: " + ast.unparse(st)[:80])
    return env


def parse(name):
    return ast.parse(open(os.path.join(REPO, "vncdotool", name)).read())


def method(mod, cls, name):
    for n in mod.body:
        if isinstance(n, ast.ClassDef) and n.name == cls:
            for m in n.body:
                if isinstance(m, ast.FunctionDef) and m.name == name:
                    return m
    raise GenError(f"{cls}.{name} not found")


def function(mod, name):
    for n in mod.body:
        if isinstance(n, ast.FunctionDef) and n.name == name:
            return n
    raise GenError(f"{name} not found")


def run_from(body, first_targets):
    """the maximal run of Assign / AugAssign / If statements starting at the assignment to first_targets"""
    for i, st in enumerate(body):
        if isinstance(st, ast.Assign) and [t.id for t in st.targets if isinstance(t, ast.Name)] == first_targets:
            j = i
            while j < len(body) and isinstance(body[j], (ast.Assign, ast.AugAssign, ast.If)) and arithmetic_only(body[j]):
                j += 1
            return body[i:j]
    raise GenError(f"no assignment to {first_targets}")


def arithmetic_only(st) -> bool:
    if isinstance(st, ast.If):
        return all(arithmetic_only(s) for s in st.body + st.orelse)
    if isinstance(st, (ast.Assign, ast.AugAssign)):
        try:
            run_block([st], {n.id: n.id for n in ast.walk(st) if isinstance(n, ast.Name)})
            return True
        except GenError:
            return False
    return False


def ident(names):
    return {n: n for n in names}


def definition(name, params, ty, body, scope="Z"):
    return f"Definition {name} ({' '.join(params)} : {scope}) : {ty} :=\n  {body}.\n"


SECTION_FILES = {"tiles": "ExprsTiles.v", "pointer": "ExprsPointer.v", "keys": "ExprsKeys.v", "requests": "ExprsRequests.v",
                 "auth": "ExprsAuth.v", "time": "ExprsTime.v", "expectbox": "ExprsExpectBox.v", "encodings": "ExprsEncodings.v",
                 "exit": "ExprsExit.v"}
HEADER = ["(** GENERATED by gen/exprs.py from vncdotool/{rfb,client,command}.py - do not edit. *)",
          "From Coq Require Import ZArith QArith List Bool.", "Import ListNotations.", "Open Scope Z_scope.", ""]


class Sections:
    """one output file per area, so that a fragment whose shape changed takes down only the obligations that rest on it"""

    def __init__(self):
        self.lines = {k: list(HEADER) for k in SECTION_FILES}
        self.failed = {}
        self.cur = None

    def __call__(self, name):
        self.cur = name
        return self

    def __enter__(self):
        return self.lines[self.cur]

    def __exit__(self, et, ev, tb):
        if et is not None and issubclass(et, Exception):
            self.failed.setdefault(self.cur, str(ev) if issubclass(et, GenError) else f"{et.__name__}: {ev}")
            return True
        return False

    def finish(self):
        d = os.path.dirname(OUT)
        os.makedirs(d, exist_ok=True)
        for k, fn in SECTION_FILES.items():
            path = os.path.join(d, fn)
            if k in self.failed:
                new = "(* gen/exprs.py[%s] failed closed: %s *)\nDefinition translator_failed_closed : True := 0.\n" % (k, self.failed[k].replace("*)", "* )"))
            else:
                new = "\n".join(self.lines[k])
            if not os.path.exists(path) or open(path).read() != new:
                open(path, "w").write(new)
        for k, msg in self.failed.items():
            print(f"gen/exprs.py[{k}] -> Gen/{SECTION_FILES[k]}: {msg}", file=sys.stderr)
        return 2 if self.failed else 0


def main():
    rfb, client, command = parse("rfb.py"), parse("client.py"), parse("command.py")
    S = Sections()
    from fractions import Fraction
    def shift_guards(stmts):
        """counts of << and >> with a non-constant right operand: Python raises ValueError when one is negative"""
        gs = []
        for n in ast.walk(ast.Module(body=stmts, type_ignores=[])):
            op = getattr(n, "op", None)
            if isinstance(n, (ast.BinOp, ast.AugAssign)) and isinstance(op, (ast.LShift, ast.RShift)):
                right = n.right if isinstance(n, ast.BinOp) else n.value
                if not isinstance(right, ast.Constant):
                    gs.append(right)
        return gs
    def qexpr(e, env):
        if isinstance(e, ast.Constant) and isinstance(e.value, (int, float)) and not isinstance(e.value, bool):
            f = Fraction(str(e.value))
            return f"({f.numerator} # {f.denominator})"
        if isinstance(e, ast.Name) and e.id in env:
            return env[e.id]
        if isinstance(e, ast.Attribute) and ast.unparse(e) in env:
            return env[ast.unparse(e)]
        if isinstance(e, ast.Call) and isinstance(e.func, ast.Name) and e.func.id == "float" and len(e.args) == 1:
            if ast.unparse(e.args[0]) == "args.pop(0)":
                return env["<arg>"]
            return qexpr(e.args[0], env)
        if isinstance(e, ast.BinOp) and type(e.op) in (ast.Add, ast.Sub, ast.Mult, ast.Div):
            op = {ast.Add: "+", ast.Sub: "-", ast.Mult: "*", ast.Div: "/"}[type(e.op)]
            return f"({qexpr(e.left, env)} {op} {qexpr(e.right, env)})"
        raise GenError("unsupported time expression: " + ast.unparse(e))

    with S("tiles") as out:
        # ---- Hextile: tile size (RFBClient._handleDecodeHextile)
        m = method(rfb, "RFBClient", "_handleDecodeHextile")
        env = run_block(run_from(m.body, ["tw", "th"]), ident(["x", "y", "width", "height", "tx", "ty"]))
        out.append(definition("gen_hextile_tile_size", ["x", "y", "width", "height", "tx", "ty"], "Z * Z", f"({env['tw']}, {env['th']})"))


    with S("tiles") as out:
        # ---- Hextile: next tile and end test (RFBClient._doNextHextileSubrect)
        m = method(rfb, "RFBClient", "_doNextHextileSubrect")
        ifs = [s for s in m.body if isinstance(s, ast.If)]
        if len(ifs) != 2 or ast.unparse(ifs[0].test) != "tx is not None":
            raise GenError("_doNextHextileSubrect: expected `if tx is not None:` followed by the end test")
        inputs = ident(["x", "y", "width", "height", "tx", "ty"])
        e1 = run_block(ifs[0].body, inputs)
        e0 = run_block(ifs[0].orelse, inputs)
        out.append(definition("gen_hextile_next", ["x", "y", "width", "height", "tx", "ty"], "Z * Z", f"({e1['tx']}, {e1['ty']})"))
        out.append(definition("gen_hextile_first", ["x", "y", "width", "height", "tx", "ty"], "Z * Z", f"({e0['tx']}, {e0['ty']})"))
        out.append(definition("gen_hextile_done", ["x", "y", "width", "height", "tx", "ty"], "bool", bexpr(ifs[1].test, inputs)))
        if not (len(ifs[1].body) == 1 and ast.unparse(ifs[1].body[0]) == "self._doConnection()"):
            raise GenError("_doNextHextileSubrect: the end test no longer leads to _doConnection()")


    with S("tiles") as out:
        # ---- Hextile: sub-rectangle geometry (both sub-rectangle handlers)
        for hname, gname, with_colour in (("_handleDecodeHextileSubrectsFG", "fg", False), ("_handleDecodeHextileSubrectsColoured", "col", True)):
            m = method(rfb, "RFBClient", hname)
            loops = [s for s in m.body if isinstance(s, ast.While)]
            if len(loops) != 1 or ast.unparse(loops[0].test) != "pos < end":
                raise GenError(hname + ": expected one `while pos < end:` loop")
            pre = run_block([s for s in m.body if isinstance(s, (ast.Assign, ast.AugAssign)) and m.body.index(s) < m.body.index(loops[0])
                             and not (isinstance(s, ast.Assign) and ast.unparse(s.value) == "len(block)")],
                            {"self.bypp": "bypp"}, opaque_subscripts=True)
            body = loops[0].body
            calls = [s for s in body if isinstance(s, ast.Expr) and isinstance(s.value, ast.Call) and ast.unparse(s.value.func) == "self.fillRectangle"]
            if len(calls) != 1 or len(calls[0].value.args) != 5:
                raise GenError(hname + ": expected exactly one self.fillRectangle(x, y, w, h, colour) per sub-rectangle")
            k = body.index(calls[0])
            inputs = {"tx": "tx", "ty": "ty", "self.bypp": "bypp", "pos": "pos", **{kk: vv for kk, vv in pre.items() if kk != "pos"}}
            env = run_block(body[:k], inputs, opaque_subscripts=True)
            a = [zexpr(x_, env) for x_ in calls[0].value.args[:4]]
            out.append(definition(f"gen_hextile_sub_{gname}", ["tx", "ty", "xy", "wh"], "Z * Z * Z * Z", f"({a[0]}, {a[1]}, {a[2]}, {a[3]})"))
            env2 = run_block(body[k + 1:], env, opaque_subscripts=True)
            stride = env2["pos"]
            out.append(definition(f"gen_hextile_sub_{gname}_stride", ["pos", "bypp"], "Z", stride))
            # where the geometry bytes sit inside one sub-rectangle record
            offs = []
            for s in body[:k]:
                if isinstance(s, ast.Assign) and isinstance(s.value, ast.Subscript) and isinstance(s.targets[0], ast.Name) and s.targets[0].id in ("xy", "wh"):
                    if isinstance(s.value.slice, ast.Slice):
                        raise GenError(hname + ": geometry byte read as a slice")
                    offs.append(zexpr(s.value.slice, run_block(body[:body.index(s)], inputs, opaque_subscripts=True)))
            if len(offs) != 2:
                raise GenError(hname + ": expected xy = block[..] and wh = block[..]")
            out.append(definition(f"gen_hextile_sub_{gname}_offsets", ["pos", "bypp"], "Z * Z", f"({offs[0]}, {offs[1]})"))


    with S("tiles") as out:
        # ---- ZRLE: tile size and next tile (RFBClient._handleDecodeZRLEdata)
        m = method(rfb, "RFBClient", "_handleDecodeZRLEdata")
        loops = [s for s in m.body if isinstance(s, ast.For) and ast.unparse(s.target) == "subencoding"]
        if len(loops) != 1:
            raise GenError("_handleDecodeZRLEdata: expected one `for subencoding in it:` loop")
        body = loops[0].body
        inputs = ident(["x", "y", "width", "height", "tx", "ty"])
        env = run_block(run_from(body, ["tw", "th"]), inputs)
        out.append(definition("gen_zrle_tile_size", ["x", "y", "width", "height", "tx", "ty"], "Z * Z", f"({env['tw']}, {env['th']})"))
        tail = []
        for s in reversed(body):
            if isinstance(s, (ast.Assign, ast.AugAssign, ast.If)) and arithmetic_only(s):
                tail.insert(0, s)
            else:
                break
        if not tail:
            raise GenError("_handleDecodeZRLEdata: the tile loop does not end with the move to the next tile")
        env = run_block(tail, inputs)
        out.append(definition("gen_zrle_next", ["x", "y", "width", "height", "tx", "ty"], "Z * Z", f"({env['tx']}, {env['ty']})"))
        pre = run_block([s for s in m.body[:m.body.index(loops[0])] if isinstance(s, ast.Assign) and isinstance(s.targets[0], ast.Name)
                         and s.targets[0].id in ("tx", "ty")], ident(["x", "y"]))
        out.append(definition("gen_zrle_first", ["x", "y"], "Z * Z", f"({pre['tx']}, {pre['ty']})"))


    with S("pointer") as out:
        # ---- mouseDrag (VNCDoToolClient.mouseDrag): the attributes self.x / self.y are the inputs cx / cy
        m = method(client, "VNCDoToolClient", "mouseDrag")
        loops = [s for s in m.body if isinstance(s, ast.For)]
        if len(loops) != 1 or not isinstance(loops[0].target, ast.Name):
            raise GenError("mouseDrag: expected one for-loop over the steps")
        lp = loops[0]
        k = m.body.index(lp)
        inputs = {"x": "x", "y": "y", "step": "step", "self.x": "cx", "self.y": "cy"}
        env = run_block(m.body[:k], inputs)
        it = lp.iter
        if not (isinstance(it, ast.Call) and isinstance(it.func, ast.Name) and it.func.id == "range" and len(it.args) == 3):
            raise GenError("mouseDrag: expected range(start, stop, step)")
        r = [zexpr(a_, env) for a_ in it.args]
        params = ["cx", "cy", "x", "y", "step"]
        out.append(definition("gen_drag_range", params, "Z * Z * Z", f"({r[0]}, {r[1]}, {r[2]})"))

        def move_args(st):
            if (isinstance(st, ast.Expr) and isinstance(st.value, ast.Call) and ast.unparse(st.value.func) == "self.mouseMove"
                    and len(st.value.args) == 2 and not st.value.keywords):
                return st.value.args
            return None
        if len(lp.body) != 2 or move_args(lp.body[0]) is None:
            raise GenError("mouseDrag: the loop body is no longer `self.mouseMove(..); yield self.pause(..)`")
        pz = lp.body[1]
        if not (isinstance(pz, ast.Expr) and isinstance(pz.value, ast.Yield) and isinstance(pz.value.value, ast.Call)
                and ast.unparse(pz.value.value.func) == "self.pause" and len(pz.value.value.args) == 1
                and isinstance(pz.value.value.args[0], ast.Constant)):
            raise GenError("mouseDrag: the loop body is no longer `self.mouseMove(..); yield self.pause(<constant>)`")
        inner = dict(env)
        inner[lp.target.id] = "s"
        mv = [zexpr(a_, inner) for a_ in move_args(lp.body[0])]
        out.append(definition("gen_drag_move", params + ["s"], "Z * Z", f"({mv[0]}, {mv[1]})"))
        rest = [s for s in m.body[k + 1:] if not is_log_call(s)]
        if len(rest) != 2 or move_args(rest[0]) is None or ast.unparse(rest[1]) != "returnValue(self)":
            raise GenError("mouseDrag: after the loop expected `self.mouseMove(x, y); returnValue(self)`")
        last = [zexpr(a_, env) for a_ in move_args(rest[0])]
        out.append(definition("gen_drag_last", params, "Z * Z", f"({last[0]}, {last[1]})"))
        q = Fraction(str(pz.value.value.args[0].value))
        out.append(f"Definition gen_drag_pause : Q := ({q.numerator} # {q.denominator})%Q.\n")


    with S("pointer") as out:
        # ---- pointer operations (VNCDoToolClient.mouseMove / mouseDown / mouseUp): attributes x, y, buttons are cx, cy, cb
        for name, ps in (("mouseMove", ["x", "y"]), ("mouseDown", ["button"]), ("mouseUp", ["button"])):
            m = method(client, "VNCDoToolClient", name)
            body = [s_ for s_ in m.body if not is_log_call(s_) and not (isinstance(s_, ast.Expr) and isinstance(s_.value, ast.Constant))]
            if len(body) < 2 or ast.unparse(body[-1]) != "return self":
                raise GenError(name + ": expected ...; return self")
            evs = [s_ for s_ in body if isinstance(s_, ast.Expr) and isinstance(s_.value, ast.Call) and ast.unparse(s_.value.func) == "self.pointerEvent"]
            if len(evs) != 1:
                raise GenError(name + ": expected exactly one self.pointerEvent(...)")
            ev = evs[0]
            k_ = body.index(ev)
            before, after = body[:k_], body[k_ + 1:-1]
            inputs = {"self.x": "cx", "self.y": "cy", "self.buttons": "cb", **{p_: p_ for p_ in ps}}
            env = run_block(before, inputs)
            args = list(ev.value.args) + [None] * (3 - len(ev.value.args))
            for kw in ev.value.keywords:
                if kw.arg != "buttonmask" or args[2] is not None:
                    raise GenError(name + ": unexpected keyword in pointerEvent")
                args[2] = kw.value
            if any(a_ is None for a_ in args) or len(args) != 3:
                raise GenError(name + ": pointerEvent needs x, y and the button mask")
            evt = [zexpr(a_, env) for a_ in args]
            # does any statement before the event assign an attribute?  (then a raising pointerEvent leaves it changed)
            early = any(target_key(t_) is not None and target_key(t_).startswith("self.")
                        for s_ in before for n_ in ast.walk(s_) if isinstance(n_, (ast.Assign, ast.AugAssign))
                        for t_ in ([n_.target] if isinstance(n_, ast.AugAssign) else [e_ for tt in n_.targets for e_ in (tt.elts if isinstance(tt, ast.Tuple) else [tt])]))
            env = run_block(after, env)
            gs = [f"(0 <=? {zexpr(g_, inputs)})" for g_ in shift_guards(before + after)]
            allp = ["cx", "cy", "cb"] + ps
            out.append(definition("gen_" + name, allp, "(Z * Z * Z) * (Z * Z * Z)",
                                  f"(({env['self.x']}, {env['self.y']}, {env['self.buttons']}), ({evt[0]}, {evt[1]}, {evt[2]}))"))
            out.append(definition("gen_" + name + "_defined", allp, "bool", " && ".join(gs) if gs else "true"))
            out.append(f"Definition gen_{name}_commits_after_event : bool := {'false' if early else 'true'}.\n")
        m = method(client, "VNCDoToolClient", "mousePress")
        body = [ast.unparse(s_) for s_ in m.body if not is_log_call(s_) and not (isinstance(s_, ast.Expr) and isinstance(s_.value, ast.Constant))]
        if body != ["self.mouseDown(button)", "self.mouseUp(button)", "return self"]:
            raise GenError("mousePress is no longer mouseDown(button); mouseUp(button)")


    with S("keys") as out:
        # ---- key operations: which passes over the decoded keys, in which direction, with which down-flag
        rows = []
        for name in ("keyPress", "keyDown", "keyUp"):
            m = method(client, "VNCDoToolClient", name)
            body = [s_ for s_ in m.body if not is_log_call(s_) and not (isinstance(s_, ast.Expr) and isinstance(s_.value, ast.Constant))]
            if len(body) < 3 or ast.unparse(body[0]) != "keys = self._decodeKey(key)" or ast.unparse(body[-1]) != "return self":
                raise GenError(name + ": expected keys = self._decodeKey(key); loops; return self")
            passes = []
            for lp_ in body[1:-1]:
                if not (isinstance(lp_, ast.For) and isinstance(lp_.target, ast.Name) and len(lp_.body) == 1 and not lp_.orelse):
                    raise GenError(name + ": expected for-loops over the keys only")
                it_ = ast.unparse(lp_.iter)
                if it_ not in ("keys", "reversed(keys)"):
                    raise GenError(name + ": loop over " + it_)
                c_ = lp_.body[0]
                if not (isinstance(c_, ast.Expr) and isinstance(c_.value, ast.Call) and ast.unparse(c_.value.func) == "self.keyEvent"
                        and len(c_.value.args) == 1 and ast.unparse(c_.value.args[0]) == lp_.target.id and len(c_.value.keywords) == 1
                        and c_.value.keywords[0].arg == "down" and isinstance(c_.value.keywords[0].value, ast.Constant)
                        and isinstance(c_.value.keywords[0].value.value, bool)):
                    raise GenError(name + ": loop body is not self.keyEvent(k, down=<constant>)")
                passes.append((it_ != "keys", c_.value.keywords[0].value.value))
            rows.append((name, passes))
        out.append("(* per key operation: the passes over the decoded keys as (reversed?, down-flag) *)")
        for name, passes in rows:
            out.append(f"Definition gen_{name}_passes : list (bool * bool) := ["
                       + "; ".join(f"({str(r_).lower()}, {str(d_).lower()})" for r_, d_ in passes) + "].\n")


    with S("requests") as out:
        # ---- framebufferUpdateRequest (RFBClient): defaults of width / height, order of the packed fields
        m = method(rfb, "RFBClient", "framebufferUpdateRequest")
        if [a_.arg for a_ in m.args.args] != ["self", "x", "y", "width", "height", "incremental"]:
            raise GenError("framebufferUpdateRequest: parameters changed")
        dflt = [ast.unparse(d_) for d_ in m.args.defaults]
        if dflt != ["0", "0", "None", "None", "False"]:
            raise GenError("framebufferUpdateRequest: defaults changed: " + str(dflt))
        body = [s_ for s_ in m.body if not (isinstance(s_, ast.Expr) and isinstance(s_.value, ast.Constant))]
        env = {"x": "x", "y": "y", "incremental": "incremental", "self.width": "cw", "self.height": "ch"}
        opt = {"width": "width", "height": "height"}
        for st in body[:-1]:
            if not (isinstance(st, ast.If) and isinstance(st.test, ast.Compare) and len(st.test.ops) == 1 and isinstance(st.test.ops[0], ast.Is)
                    and isinstance(st.test.left, ast.Name) and st.test.left.id in opt and ast.unparse(st.test.comparators[0]) == "None"
                    and len(st.body) == 1 and not st.orelse and isinstance(st.body[0], ast.Assign)
                    and ast.unparse(st.body[0].targets[0]) == st.test.left.id):
                raise GenError("framebufferUpdateRequest: expected `if <arg> is None: <arg> = ...` statements")
            nm = st.test.left.id
            env[nm] = f"(match {opt.pop(nm)} with Some v => v | None => {zexpr(st.body[0].value, env)} end)"
        if opt:
            raise GenError("framebufferUpdateRequest: no default computed for " + ", ".join(opt))
        wr = body[-1]
        if not (isinstance(wr, ast.Expr) and isinstance(wr.value, ast.Call) and ast.unparse(wr.value.func) == "self.transport.write"
                and len(wr.value.args) == 1 and isinstance(wr.value.args[0], ast.Call) and ast.unparse(wr.value.args[0].func) == "pack"):
            raise GenError("framebufferUpdateRequest: expected self.transport.write(pack(...)) last")
        pk = wr.value.args[0].args
        if not (isinstance(pk[0], ast.Constant) and pk[0].value == "!BBHHHH" and len(pk) == 7):
            raise GenError("framebufferUpdateRequest: the message is no longer pack('!BBHHHH', 3, incremental, x, y, width, height)")
        flds = [zexpr(a_, env) for a_ in pk[1:]]
        out.append("Definition gen_fbur_fields (cw ch x y : Z) (width height : option Z) (incremental : Z) : list Z :=\n  ["
                   + "; ".join(flds) + "].\n")


    with S("auth") as out:
        # ---- the VNC-authentication key (rfb._vnc_des)
        m = function(rfb, "_vnc_des")
        stm = [s for s in m.body if not (isinstance(s, ast.Expr) and isinstance(s.value, ast.Constant))]
        if len(stm) != 4 or ast.unparse(stm[3]) != "return key":
            raise GenError("_vnc_des: expected pad, encode, reverse, return")
        pad = stm[0]
        if not (isinstance(pad, ast.Assign) and isinstance(pad.value, ast.JoinedStr) and len(pad.value.values) == 1
                and isinstance(pad.value.values[0], ast.FormattedValue) and ast.unparse(pad.value.values[0].value) == "password"
                and pad.value.values[0].conversion == -1 and isinstance(pad.value.values[0].format_spec, ast.JoinedStr)
                and len(pad.value.values[0].format_spec.values) == 1 and isinstance(pad.value.values[0].format_spec.values[0], ast.Constant)):
            raise GenError("_vnc_des: the padding is no longer one format specification applied to the password")
        spec = pad.value.values[0].format_spec.values[0].value
        # [[fill]align][width][.precision]
        if len(spec) < 4 or spec[1] != "<" or "." not in spec:
            raise GenError(f"_vnc_des: unsupported format specification {spec!r}")
        width, prec = spec[2:].split(".")
        out.append(f"Definition gen_key_fill : Z := {ord(spec[0])}.\nDefinition gen_key_width : nat := {int(width)}%nat.\n"
                   f"Definition gen_key_precision : nat := {int(prec)}%nat.\n")
        enc = stm[1]
        if not (isinstance(enc, ast.Assign) and isinstance(enc.value, ast.Call) and ast.unparse(enc.value.func) == "pw.encode"
                and len(enc.value.args) == 1 and isinstance(enc.value.args[0], ast.Constant) and str(enc.value.args[0].value).upper() == "ASCII"):
            raise GenError("_vnc_des: the key is no longer the ASCII encoding of the padded password")
        rev = stm[2]
        if not (isinstance(rev, ast.Assign) and isinstance(rev.value, ast.Call) and ast.unparse(rev.value.func) == "bytes"
                and len(rev.value.args) == 1 and isinstance(rev.value.args[0], ast.GeneratorExp)):
            raise GenError("_vnc_des: expected bytes(<expression> for k in key)")
        g = rev.value.args[0]
        if len(g.generators) != 1 or g.generators[0].ifs or ast.unparse(g.generators[0].iter) != "key" or not isinstance(g.generators[0].target, ast.Name):
            raise GenError("_vnc_des: expected one `for k in key`")
        out.append(definition("gen_key_byte", ["k"], "Z", zexpr(g.elt, {g.generators[0].target.id: "k"})))


    with S("time") as out:
        # ---- time arithmetic of the command line (command.build_command_list, command.vncdo), over Q
        fn = function(command, "build_command_list")
        stores = [n for n in ast.walk(fn) if isinstance(n, (ast.Assign, ast.AugAssign, ast.AnnAssign, ast.NamedExpr))
                  for t in (n.targets if isinstance(n, ast.Assign) else [n.target]) for nm in ast.walk(t)
                  if isinstance(nm, ast.Name) and nm.id in ("warp", "delay")]
        if len(stores) != 1 or ast.unparse(stores[0]) != "delay = float(delay) / 1000.0":
            raise GenError("build_command_list: warp / delay are reassigned: " + "; ".join(ast.unparse(s) for s in stores))
        out.append("Definition gen_delay_seconds (delay : Q) : Q :=\n  " + qexpr(stores[0].value, {"delay": "delay"}) + "%Q.\n")
        durs = [n for n in ast.walk(fn) if isinstance(n, ast.Assign) and len(n.targets) == 1 and ast.unparse(n.targets[0]) == "duration"]
        if len(durs) != 1:
            raise GenError("build_command_list: expected one assignment to duration")
        uses = [n for n in ast.walk(fn) if isinstance(n, ast.Call) and ast.unparse(n.func) == "factory.deferred.addCallback"
                and n.args and ast.unparse(n.args[0]) == "client.pause"]
        shapes = sorted(set(ast.unparse(n.args[1]) for n in uses if len(n.args) == 2))
        if shapes != ["delay", "duration"] or any(len(n.args) != 2 for n in uses):
            raise GenError(f"build_command_list: client.pause is registered with {shapes}")
        out.append("Definition gen_pause_duration (arg warp : Q) : Q :=\n  " + qexpr(durs[0].value, {"<arg>": "arg", "warp": "warp"}) + "%Q.\n")

    with S("exit") as out:
        fn = function(command, "vncdo")
        later = [n for n in ast.walk(fn) if isinstance(n, ast.Call) and ast.unparse(n.func) == "reactor.callLater"]
        if len(later) != 1 or len(later[0].args) != 3 or ast.unparse(later[0].args[1]) != "factory.error":
            raise GenError("vncdo: expected one reactor.callLater(<delay>, factory.error, failure)")
        out.append("Definition gen_timeout_delay (timeout warp : Q) : Q :=\n  "
                   + qexpr(later[0].args[0], {"options.timeout": "timeout", "options.warp": "warp"}) + "%Q.\n")


    with S("requests") as out:
        # ---- the boxes handed on by the region operations (VNCDoToolClient.captureRegion, _expectFramebuffer, expectScreen)
        m = method(client, "VNCDoToolClient", "captureRegion")
        body = [s_ for s_ in m.body if not is_log_call(s_) and not (isinstance(s_, ast.Expr) and isinstance(s_.value, ast.Constant))]
        if not (len(body) == 1 and isinstance(body[0], ast.Return) and isinstance(body[0].value, ast.Call)
                and ast.unparse(body[0].value.func) == "self._capture" and len(body[0].value.args) == 6
                and [ast.unparse(a_) for a_ in body[0].value.args[:2]] == ["fp", "incremental"] and not body[0].value.keywords):
            raise GenError("captureRegion is no longer `return self._capture(fp, incremental, <box>)`")
        bx = [zexpr(a_, ident(["x", "y", "w", "h"])) for a_ in body[0].value.args[2:]]
        out.append(definition("gen_capture_region_box", ["x", "y", "w", "h"], "Z * Z * Z * Z", f"({bx[0]}, {bx[1]}, {bx[2]}, {bx[3]})"))

    with S("expectbox") as out:
        m = method(client, "VNCDoToolClient", "_expectFramebuffer")
        body = [s_ for s_ in m.body if not is_log_call(s_) and not (isinstance(s_, ast.Expr) and isinstance(s_.value, ast.Constant))]
        if [ast.unparse(s_) for s_ in body[:3]] != ["image = Image.open(filename)", "w, h = image.size", "self.expected = image.histogram()"]:
            raise GenError("_expectFramebuffer no longer opens the file, takes its size and its histogram: " + "; ".join(ast.unparse(s_) for s_ in body[:3]))
        r_ = body[3] if len(body) == 4 else None
        if not (isinstance(r_, ast.Return) and isinstance(r_.value, ast.Call) and ast.unparse(r_.value.func) == "self._expectCompare"
                and len(r_.value.args) == 3 and ast.unparse(r_.value.args[0]) == "None" and isinstance(r_.value.args[1], ast.Tuple)
                and len(r_.value.args[1].elts) == 4 and ast.unparse(r_.value.args[2]) == "maxrms"):
            raise GenError("_expectFramebuffer no longer ends with `return self._expectCompare(None, <box>, maxrms)`")
        bx = [zexpr(a_, ident(["x", "y", "w", "h"])) for a_ in r_.value.args[1].elts]
        out.append(definition("gen_expect_box", ["x", "y", "w", "h"], "Z * Z * Z * Z", f"({bx[0]}, {bx[1]}, {bx[2]}, {bx[3]})"))
        for nm, want in (("expectScreen", "return self._expectFramebuffer(filename, 0, 0, maxrms)"), ("expectRegion", "return self._expectFramebuffer(filename, x, y, maxrms)")):
            m = method(client, "VNCDoToolClient", nm)
            body = [ast.unparse(s_) for s_ in m.body if not is_log_call(s_) and not (isinstance(s_, ast.Expr) and isinstance(s_.value, ast.Constant))]
            if body != [want]:
                raise GenError(f"{nm} is no longer `{want}`")


    with S("encodings") as out:
        # ---- the encodings the client advertises (VNCDoToolClient.vncConnectionMade): a list built by conditional appends
        m = method(client, "VNCDoToolClient", "vncConnectionMade")
        body = [s_ for s_ in m.body if not is_log_call(s_) and not (isinstance(s_, ast.Expr) and isinstance(s_.value, ast.Constant))]
        flags = {"self.factory.pseudocursor": "pseudocursor", "self.factory.nocursor": "nocursor", "self.factory.pseudodesktop": "pseudodesktop",
                 "self.factory.last_rect": "last_rect", "self.factory.qemu_extended_key": "qemu"}
        encname = {"rfb.Encoding.PSEUDO_CURSOR": "ENC_PSEUDO_CURSOR", "rfb.Encoding.PSEUDO_DESKTOP_SIZE": "ENC_PSEUDO_DESKTOP_SIZE",
                   "rfb.Encoding.PSEUDO_LAST_RECT": "ENC_PSEUDO_LAST_RECT",
                   "rfb.Encoding.PSEUDO_QEMU_EXTENDED_KEY_EVENT": "ENC_PSEUDO_QEMU_EXTENDED_KEY_EVENT"}

        def fcond(e):
            if isinstance(e, ast.BoolOp):
                return "(" + (" || " if isinstance(e.op, ast.Or) else " && ").join(fcond(v) for v in e.values) + ")"
            if isinstance(e, ast.UnaryOp) and isinstance(e.op, ast.Not):
                return f"(negb {fcond(e.operand)})"
            if ast.unparse(e) in flags:
                return flags[ast.unparse(e)]
            raise GenError("vncConnectionMade: unsupported condition " + ast.unparse(e))
        if ast.unparse(body[0]) != "self.setImageMode()":
            raise GenError("vncConnectionMade no longer begins with self.setImageMode()")
        if ast.unparse(body[1]) != "encodings = [self.encoding]":
            raise GenError("vncConnectionMade: the list no longer starts as [self.encoding]")
        term = "[encoding]"
        k_ = 2
        while k_ < len(body) and isinstance(body[k_], ast.If):
            st = body[k_]
            if not (len(st.body) == 1 and not st.orelse and isinstance(st.body[0], ast.Expr) and isinstance(st.body[0].value, ast.Call)
                    and ast.unparse(st.body[0].value.func) == "encodings.append" and ast.unparse(st.body[0].value.args[0]) in encname):
                raise GenError("vncConnectionMade: unsupported step " + ast.unparse(st)[:70])
            term = f"({term} ++ (if {fcond(st.test)} then [{encname[ast.unparse(st.body[0].value.args[0])]}] else []))"
            k_ += 1
        if [ast.unparse(s_) for s_ in body[k_:]] != ["self.setEncodings(encodings)", "self.factory.clientConnectionMade(self)"]:
            raise GenError("vncConnectionMade no longer ends with setEncodings(encodings); clientConnectionMade(self): "
                           + "; ".join(ast.unparse(s_) for s_ in body[k_:]))
        out.append("From VD Require Import Gen.Tables.\n")
        out.append("Definition gen_encodings (encoding : Z) (pseudocursor nocursor pseudodesktop last_rect qemu : bool) : list Z :=\n  " + term + ".\n")


    with S("exit") as out:
        # ---- the exit status of vncdo (command.VNCDoCLIFactory): which status each reactor event leaves behind
        cls = next((n for n in command.body if isinstance(n, ast.ClassDef) and n.name == "VNCDoCLIFactory"), None)
        if cls is None:
            raise GenError("VNCDoCLIFactory not found")
        meths = {m_.name: m_ for m_ in cls.body if isinstance(m_, ast.FunctionDef)}
        for need_ in ("clientConnectionLost", "clientConnectionFailed", "error", "done"):
            if need_ not in meths:
                raise GenError("VNCDoCLIFactory." + need_ + " not found")

        def status_cond(e):
            if isinstance(e, ast.BoolOp) and isinstance(e.op, ast.And):
                return "(" + " && ".join(status_cond(v) for v in e.values) + ")"
            t = ast.unparse(e)
            if t == "reason.type == ConnectionDone":
                return "clean"
            if t == "self.completed":
                return "completed"
            raise GenError("unsupported condition in the exit-status code: " + t)

        def status_of(name, depth=0):
            if depth > 4:
                raise GenError("exit-status code recurses")
            body = [s_ for s_ in meths[name].body if not is_log_call(s_) and not (isinstance(s_, ast.Expr) and isinstance(s_.value, ast.Constant))]

            def stmts(b):
                if len(b) != 1:
                    raise GenError(f"VNCDoCLIFactory.{name}: expected one decision, found {len(b)} statements")
                st = b[0]
                if isinstance(st, ast.If):
                    return f"(if {status_cond(st.test)} then {stmts(st.body)} else {stmts(st.orelse)})"
                if isinstance(st, ast.Expr) and isinstance(st.value, ast.Call) and isinstance(st.value.func, ast.Attribute) \
                        and isinstance(st.value.func.value, ast.Name) and st.value.func.value.id == "self":
                    callee = st.value.func.attr
                    if callee == "done":
                        if len(st.value.args) != 1 or not (isinstance(st.value.args[0], ast.Constant) and isinstance(st.value.args[0].value, int)):
                            raise GenError(f"VNCDoCLIFactory.{name}: done() is not called with an integer constant")
                        return str(st.value.args[0].value)
                    if callee in meths:
                        return status_of(callee, depth + 1)
                raise GenError(f"VNCDoCLIFactory.{name}: unsupported statement {ast.unparse(st)[:60]}")
            return stmts(body)
        out.append("Definition gen_status_lost (clean completed : bool) : Z :=\n  " + status_of("clientConnectionLost") + ".\n")
        out.append("Definition gen_status_failed : Z := " + status_of("clientConnectionFailed") + ".\n")
        out.append("Definition gen_status_error : Z := " + status_of("error") + ".\n")
        dn = [ast.unparse(s_) for s_ in meths["done"].body if not (isinstance(s_, ast.Expr) and isinstance(s_.value, ast.Constant))]
        if len(dn) != 2 or dn[0] != "reactor.exit_status = exit_code" or not dn[1].startswith("reactor.callLater(") or not dn[1].endswith(", reactor.stop)"):
            raise GenError("VNCDoCLIFactory.done is no longer `exit_status = exit_code; callLater(<delay>, reactor.stop)`: " + "; ".join(dn))
        fn = function(command, "build_tool")
        init = [n_ for n_ in ast.walk(fn) if isinstance(n_, ast.Assign) and ast.unparse(n_.targets[0]) == "reactor.exit_status"]
        if len(init) != 1 or not (isinstance(init[0].value, ast.Constant) and isinstance(init[0].value.value, int)):
            raise GenError("build_tool no longer sets reactor.exit_status to a constant")
        out.append(f"Definition gen_status_initial : Z := {init[0].value.value}.\n")
        cc = next((n_ for n_ in ast.walk(fn) if isinstance(n_, ast.FunctionDef) and n_.name == "close_connection"), None)
        if cc is None or [ast.unparse(s_) for s_ in cc.body] != ["factory.completed = True", "client.transport.loseConnection()"]:
            raise GenError("build_tool.close_connection is no longer `factory.completed = True; client.transport.loseConnection()`")


    return S.finish()


if __name__ == "__main__":
    sys.exit(main())
