#!/venv/bin/python
"""Regenerate coq/Gen/RecorderOps.v from the *source text* of VNCLoggingServerProxy.handle_keyEvent /
handle_pointerEvent (/repo/vncdotool/loggingproxy.py, Python ast).

The two handlers build a list of words and hand `" ".join(words)` to the recorder.  They are translated statement by
statement into Gallina over Model/Recorder.v's vocabulary: string constants become code-point lists, "%.4f" of a time
difference is fmt4 (time in ticks of 0.1 ms), %d is dec_text, shlex.quote(REVERSE_MAP.get(key, chr(key))) is
quote (key_name key) (None when chr raises), `cmds += a, b` / `cmds.append(e)` extend the list, the if on the
down-flag joins two lists, the loop over range(1, 9) is a flat_map, self.mouse / self.last_event are state.
Anything else raises: fail-closed.
"""
from __future__ import annotations

import ast
import os
import sys

sys.path.insert(0, os.path.dirname(os.path.abspath(__file__)))
from exprs import GenError, bexpr, zexpr, method, parse  # noqa: E402

OUT = os.path.join(os.path.dirname(os.path.abspath(__file__)), "..", "coq", "Gen", "RecorderOps.v")


def lit(s: str) -> str:
    return "[" + "; ".join(str(ord(c)) for c in s) + "]"


class Tr:
    def __init__(self, ints, texts):
        self.ints = dict(ints)       # python expr text -> Gallina Z term
        self.texts = dict(texts)     # python name -> Gallina text term

    def zenv(self):
        return self.ints

    def z(self, e):
        # attributes such as self.last_event are looked up by their text
        class Sub(ast.NodeTransformer):
            def __init__(s2, outer):
                s2.outer = outer
                s2.extra = {}

            def visit_Attribute(s2, node):
                t = ast.unparse(node)
                if t in s2.outer.ints:
                    name = "__a%d" % len(s2.extra)
                    s2.extra[name] = s2.outer.ints[t]
                    return ast.copy_location(ast.Name(id=name, ctx=ast.Load()), node)
                return node
        sub = Sub(self)
        e2 = sub.visit(ast.parse(ast.unparse(e), mode="eval").body)
        return zexpr(e2, {**{k: v for k, v in self.ints.items() if k.isidentifier()}, **sub.extra})

    def word(self, e) -> str:
        """one element of the word list -> Gallina text term"""
        if isinstance(e, ast.Constant) and isinstance(e.value, str):
            return lit(e.value)
        if isinstance(e, ast.Name) and e.id in self.texts:
            return self.texts[e.id]
        if isinstance(e, ast.BinOp) and isinstance(e.op, ast.Mod) and isinstance(e.left, ast.Constant) and isinstance(e.left.value, str):
            fmt = e.left.value
            args = list(e.right.elts) if isinstance(e.right, ast.Tuple) else [e.right]
            if fmt == "%.4f":
                if len(args) != 1:
                    raise GenError("%.4f with several arguments")
                return f"(fmt4 {self.z(args[0])})"
            parts = fmt.split("%d")
            if "%" in "".join(parts) or len(parts) != len(args) + 1:
                raise GenError("unsupported format string: " + repr(fmt))
            out = []
            for i, p in enumerate(parts):
                if p:
                    out.append(lit(p))
                if i < len(args):
                    out.append(f"(dec_text {self.z(args[i])})")
            return "(" + " ++ ".join(out) + ")"
        raise GenError("unsupported word: " + ast.unparse(e))


def translate(stmts, tr: Tr, state: dict, cmds):
    """-> (cmds term, state) after the statements; cmds is a Gallina list-of-text term or None before its creation"""
    for st in stmts:
        if isinstance(st, ast.Assert) or (isinstance(st, ast.Expr) and isinstance(st.value, ast.Constant)):
            continue
        if isinstance(st, ast.Assign) and len(st.targets) == 1:
            tgt = ast.unparse(st.targets[0])
            if tgt == "cmds" and isinstance(st.value, ast.List):
                cmds = "[" + "; ".join(tr.word(x) for x in st.value.elts) + "]"
                continue
            if tgt in state:
                if isinstance(st.value, ast.Tuple) and len(st.value.elts) == 2 and state[tgt][0] == "pair":
                    state[tgt] = ("pair", f"(Some ({tr.z(st.value.elts[0])}, {tr.z(st.value.elts[1])}))")
                elif state[tgt][0] == "int":
                    state[tgt] = ("int", tr.z(st.value))
                    tr.ints[tgt] = state[tgt][1]            # later reads of the attribute see the new value
                else:
                    raise GenError("unsupported state update: " + ast.unparse(st))
                continue
        if isinstance(st, ast.AugAssign) and ast.unparse(st.target) == "cmds" and isinstance(st.op, ast.Add) and isinstance(st.value, (ast.Tuple, ast.List)):
            cmds = f"({cmds} ++ [{'; '.join(tr.word(x) for x in st.value.elts)}])"
            continue
        if (isinstance(st, ast.Expr) and isinstance(st.value, ast.Call) and ast.unparse(st.value.func) == "cmds.append"
                and len(st.value.args) == 1):
            cmds = f"({cmds} ++ [{tr.word(st.value.args[0])}])"
            continue
        if isinstance(st, ast.If):
            c = cond(st.test, tr, state)
            s1, s2 = dict(state), dict(state)
            a, s1 = translate(st.body, tr, s1, cmds)
            b, s2 = translate(st.orelse, tr, s2, cmds)
            cmds = a if a == b else f"(if {c} then {a} else {b})"
            for k in state:
                state[k] = s1[k] if s1[k] == s2[k] else (s1[k][0], f"(if {c} then {s1[k][1]} else {s2[k][1]})")
            continue
        if isinstance(st, ast.For) and isinstance(st.target, ast.Name) and not st.orelse:
            it = st.iter
            if not (isinstance(it, ast.Call) and ast.unparse(it.func) == "range" and len(it.args) == 2
                    and all(isinstance(a_, ast.Constant) and isinstance(a_.value, int) for a_ in it.args) and it.args[1].value - it.args[0].value <= 64):
                raise GenError("unsupported loop: " + ast.unparse(it))
            v = st.target.id
            inner = Tr({**tr.ints, v: v + "_"}, tr.texts)
            body, _ = translate(st.body, inner, dict(state), "ACC")
            # the body may only extend the list: body == ACC or (if c then (ACC ++ [..]) else ACC)
            per = body.replace("(ACC ++ ", "(").replace("ACC", "[]")
            if "ACC" in per:
                raise GenError("unsupported loop body")
            cmds = f"({cmds} ++ flat_map (fun {v}_ => {per}) [{'; '.join(str(k) for k in range(it.args[0].value, it.args[1].value))}])"
            continue
        raise GenError("unsupported statement in a recorder handler: " + ast.unparse(st)[:90])
    return cmds, state


def cond(e, tr: Tr, state):
    if (isinstance(e, ast.Compare) and len(e.ops) == 1 and isinstance(e.ops[0], ast.NotEq) and ast.unparse(e.left) in state
            and state[ast.unparse(e.left)][0] == "pair" and isinstance(e.comparators[0], ast.Tuple) and len(e.comparators[0].elts) == 2):
        a, b = e.comparators[0].elts
        return f"(negb (pair_is {state[ast.unparse(e.left)][1]} {tr.z(a)} {tr.z(b)}))"

    class Sub(ast.NodeTransformer):
        pass
    # integer truthiness / comparisons
    names = {k: v for k, v in tr.ints.items() if k.isidentifier()}
    return bexpr(e, names)


def split_handler(m, first_line, last_line):
    body = [s for s in m.body if not (isinstance(s, ast.Expr) and isinstance(s.value, ast.Constant))]
    if ast.unparse(body[0]) != first_line:
        raise GenError(f"{m.name}: expected `{first_line}` first")
    if ast.unparse(body[-1]) != last_line:
        raise GenError(f"{m.name}: expected `{last_line}` last")
    return body[1:-1]


def main():
    lp = parse("loggingproxy.py")
    out = ["(** GENERATED by gen/recorder.py from vncdotool/loggingproxy.py - do not edit. *)",
           "From Coq Require Import ZArith List Bool.", "From VD Require Import Base.Bytes Base.Text Model.Shlex Model.Recorder.",
           "Import ListNotations.", "Open Scope Z_scope.", "",
           "Definition pair_is (m : option (Z * Z)) (x y : Z) : bool :=",
           "  match m with Some (a, b) => (a =? x) && (b =? y) | None => false end.", ""]

    # ---- handle_keyEvent(self, key, down)
    m = method(lp, "VNCLoggingServerProxy", "handle_keyEvent")
    body = split_handler(m, "now = time.time()", "self.recorder(' '.join(cmds))")
    if ast.unparse(body[0]) != "rev = shlex.quote(REVERSE_MAP.get(key, chr(key)))":
        raise GenError("handle_keyEvent: the name of the key is no longer shlex.quote(REVERSE_MAP.get(key, chr(key)))")
    tr = Tr({"now": "now", "key": "key", "down": "down", "self.last_event": "last"}, {"rev": "(quote name)"})
    state = {"self.last_event": ("int", "last")}
    cmds, state = translate(body[1:], tr, state, None)
    out.append("Definition gen_record_key (last now key down : Z) : option (text * Z) :=\n"
               f"  match key_name key with\n  | None => None\n  | Some name => Some (join_sp {cmds}, {state['self.last_event'][1]})\n  end.\n")

    # ---- handle_pointerEvent(self, x, y, buttonmask)
    m = method(lp, "VNCLoggingServerProxy", "handle_pointerEvent")
    body = split_handler(m, "now = time.time()", "self.recorder(' '.join(cmds))")
    tr = Tr({"now": "now", "x": "x", "y": "y", "buttonmask": "buttonmask", "self.last_event": "last"}, {})
    state = {"self.last_event": ("int", "last"), "self.mouse": ("pair", "mouse")}
    cmds, state = translate(body, tr, state, None)
    out.append("Definition gen_record_pointer (mouse : option (Z * Z)) (last now x y buttonmask : Z) : text * option (Z * Z) * Z :=\n"
               f"  (join_sp {cmds}, {state['self.mouse'][1]}, {state['self.last_event'][1]}).\n")

    new = "\n".join(out)
    os.makedirs(os.path.dirname(OUT), exist_ok=True)
    if not os.path.exists(OUT) or open(OUT).read() != new:
        open(OUT, "w").write(new)


if __name__ == "__main__":
    try:
        main()
    except GenError as e:
        print("gen/recorder.py: " + str(e), file=sys.stderr)
        sys.exit(2)
