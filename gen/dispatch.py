#!/venv/bin/python
"""Regenerate coq/Gen/RecorderDispatch.v from the *source text* of loggingproxy.RFBServer (Python ast).

What the viewer-side parser of vnclog does with each client message, as data:

* PROTOCOL_DISPATCH: per branch of the `if ptype == MsgC2S.X / elif ...` chain of _handle_protocol - the message type
  (by name), the names the unpacked fields are bound to, and what happens: a call of a handle_* callback with its
  arguments given as positions among the unpacked fields, or the next handler with the number of bytes it waits for
  (a constant, or a multiple of an unpacked field), or - for the QEMU message - the sub-type test, or raise.
* HANDLER_STEPS: for the handlers that consume a fixed prefix and always go on to the same handler - bytes consumed,
  next handler, bytes it waits for.
* QEMU_KEY: the field order of the extended key event and the positions handed to handle_keyEvent via
  handle_keyEventExtended.

Proofs/RecorderDispatchTie.v RUNS the model's `handle` on canonical messages for every row.  Fail-closed.
"""
from __future__ import annotations

import ast
import os
import sys

sys.path.insert(0, os.path.dirname(os.path.abspath(__file__)))
from exprs import GenError, is_log_call, method, parse  # noqa: E402

OUT = os.path.join(os.path.dirname(os.path.abspath(__file__)), "..", "coq", "Gen", "RecorderDispatch.v")


def names_of(t):
    if isinstance(t, ast.Tuple):
        return [e.id for e in t.elts if isinstance(e, ast.Name)]
    if isinstance(t, ast.Name):
        return [t.id]
    raise GenError("unsupported unpack target: " + ast.unparse(t))


def handler_assign(st):
    """self._handler = <handler>, <need>  ->  (handler name, partial args, need expr) or None"""
    if not (isinstance(st, ast.Assign) and ast.unparse(st.targets[0]) == "self._handler" and isinstance(st.value, ast.Tuple) and len(st.value.elts) == 2):
        return None
    h, need = st.value.elts
    pargs = []
    if isinstance(h, ast.Call) and ast.unparse(h.func) == "partial":
        pargs = [ast.unparse(a) for a in h.args[1:]]
        h = h.args[0]
    if not (isinstance(h, ast.Attribute) and ast.unparse(h.value) == "self" and h.attr.startswith("_handle_")):
        raise GenError("unsupported handler: " + ast.unparse(st))
    return h.attr[len("_handle_"):], pargs, need


def need_of(need, fields):
    """-> (multiplier, field position or -1 for a constant)"""
    if isinstance(need, ast.Constant) and isinstance(need.value, int):
        return need.value, -1
    if isinstance(need, ast.Name) and need.id in fields:
        return 1, fields.index(need.id)
    if (isinstance(need, ast.BinOp) and isinstance(need.op, ast.Mult) and isinstance(need.left, ast.Constant)
            and isinstance(need.right, ast.Name) and need.right.id in fields):
        return need.left.value, fields.index(need.right.id)
    raise GenError("unsupported byte count: " + ast.unparse(need))


def branch(body):
    """one branch of _handle_protocol -> (fields, Gallina dispatch term)"""
    stmts = [s for s in body if not is_log_call(s)]
    if len(stmts) == 1 and isinstance(stmts[0], ast.Raise):
        return [], "DRaise"
    un = stmts[0]
    if not (isinstance(un, ast.Assign) and isinstance(un.value, ast.Call) and ast.unparse(un.value.func) == "unpack"
            and len(un.value.args) == 2 and ast.unparse(un.value.args[1]) == "block"):
        raise GenError("a branch of _handle_protocol does not begin with unpack(<format>, block): " + ast.unparse(un)[:60])
    fields = names_of(un.targets[0])
    rest = stmts[1:]
    # pixel_fomat = PixelFormat.from_bytes(args); self.handle_setPixelFormat(pixel_fomat)
    if len(rest) == 2 and isinstance(rest[0], ast.Assign) and ast.unparse(rest[0].value) == f"PixelFormat.from_bytes({fields[0]})":
        v = ast.unparse(rest[0].targets[0])
        if ast.unparse(rest[1]) != f"self.handle_setPixelFormat({v})":
            raise GenError("unexpected use of the pixel format: " + ast.unparse(rest[1]))
        return fields, 'DCall "handle_setPixelFormat" [0%nat]'
    if len(rest) == 1:
        st = rest[0]
        ha = handler_assign(st)
        if ha is not None:
            h, pargs, need = ha
            mult, pos = need_of(need, fields)
            if pargs and pargs != [fields[pos]] if pos >= 0 else pargs:
                raise GenError("the partial argument is not the field the byte count is computed from: " + ast.unparse(st))
            return fields, f'DNext "{h}" {mult}%Z {"None" if pos < 0 else "(Some %d%%nat)" % pos}'
        if isinstance(st, ast.Expr) and isinstance(st.value, ast.Call) and ast.unparse(st.value.func).startswith("self.handle_") and not st.value.keywords:
            pos = []
            for a in st.value.args:
                if not (isinstance(a, ast.Name) and a.id in fields):
                    raise GenError("a callback argument is not an unpacked field: " + ast.unparse(st))
                pos.append(fields.index(a.id))
            return fields, f'DCall "{st.value.func.attr}" [{"; ".join("%d%%nat" % p for p in pos)}]'
        if isinstance(st, ast.If):
            t = st.test
            if not (isinstance(t, ast.Compare) and len(t.ops) == 1 and isinstance(t.ops[0], ast.Eq) and isinstance(t.left, ast.Name)
                    and t.left.id in fields and ast.unparse(t.comparators[0]) == "QemuClientMessage.EXTENDED_KEY_EVENT"):
                raise GenError("unsupported nested test: " + ast.unparse(t))
            yes = [s for s in st.body if not is_log_call(s)]
            no = [s for s in st.orelse if not is_log_call(s)]
            ha = handler_assign(yes[0]) if len(yes) == 1 else None
            if ha is None or not (len(no) == 1 and isinstance(no[0], ast.Raise)):
                raise GenError("unsupported QEMU branch")
            mult, pos = need_of(ha[2], fields)
            if pos >= 0:
                raise GenError("the QEMU handler waits for a computed byte count")
            return fields, f'DSubtype {fields.index(t.left.id)}%nat "{ha[0]}" {mult}%Z'
    raise GenError("unsupported branch of _handle_protocol: " + "; ".join(ast.unparse(s)[:50] for s in rest))


def main():
    lp = parse("loggingproxy.py")
    m = method(lp, "RFBServer", "_handle_protocol")
    chain = next((s for s in m.body if isinstance(s, ast.If) and ast.unparse(s.test).startswith("ptype == MsgC2S.")), None)
    if chain is None:
        raise GenError("_handle_protocol: no `if ptype == MsgC2S.X` chain")
    pre = [ast.unparse(s) for s in m.body[:m.body.index(chain)] if not is_log_call(s)]
    want_pre = ["ptype, = unpack_from('!B', self.buffer)", "nbytes = TYPE_LEN.get(ptype, 0)",
                "if len(self.buffer) < nbytes:\n    self._handler = (self._handle_protocol, nbytes)\n    return",
                "self._handler = (self._handle_protocol, 1)", "block = bytes(self.buffer[1:nbytes])", "del self.buffer[:nbytes]"]
    if pre != want_pre:
        raise GenError("_handle_protocol: the framing before the dispatch changed:\n" + "\n".join(pre))
    rows = []
    node = chain
    while True:
        t = node.test
        if not (isinstance(t, ast.Compare) and len(t.ops) == 1 and isinstance(t.ops[0], ast.Eq) and ast.unparse(t.left) == "ptype"
                and ast.unparse(t.comparators[0]).startswith("MsgC2S.")):
            raise GenError("unsupported test in the dispatch chain: " + ast.unparse(t))
        name = ast.unparse(t.comparators[0])[len("MsgC2S."):]
        fields, term = branch(node.body)
        rows.append((name, fields, term))
        if len(node.orelse) == 1 and isinstance(node.orelse[0], ast.If):
            node = node.orelse[0]
            continue
        tail = [s for s in node.orelse if not is_log_call(s)]
        if not (len(tail) == 1 and isinstance(tail[0], ast.Raise)):
            raise GenError("the dispatch chain does not end with raise")
        break

    # handlers that consume a fixed prefix and go on to one handler
    steps = []
    for hname in ("VNCAuthResponse", "clientInit"):
        hm = method(lp, "RFBServer", "_handle_" + hname)
        body = [s for s in hm.body if not is_log_call(s) and not (isinstance(s, ast.Assign) and isinstance(s.value, ast.Subscript))]
        dels = [s for s in body if isinstance(s, ast.Delete)]
        if len(dels) != 1 or not ast.unparse(dels[0]).startswith("del self.buffer[:"):
            raise GenError(f"_handle_{hname}: expected one del self.buffer[:N]")
        n = int(ast.unparse(dels[0])[len("del self.buffer[:"):-1])
        has = [handler_assign(s) for s in body if handler_assign(s) is not None]
        if len(has) != 1 or len(body) != 2:
            raise GenError(f"_handle_{hname}: expected `del self.buffer[:N]; self._handler = ...`")
        mult, pos = need_of(has[0][2], [])
        steps.append((hname, n, has[0][0], mult))
    # the QEMU extended key event
    hm = method(lp, "RFBServer", "_handle_qemuExtendedKeyEvent")
    body = [s for s in hm.body if not is_log_call(s)]
    if not (len(body) == 4 and isinstance(body[0], ast.Assign) and ast.unparse(body[0].value.func) == "unpack_from"
            and ast.unparse(body[1]) == "del self.buffer[:10]" and handler_assign(body[3]) is not None):
        raise GenError("_handle_qemuExtendedKeyEvent changed shape")
    qfields = names_of(body[0].targets[0])
    call = body[2]
    if not (isinstance(call, ast.Expr) and ast.unparse(call.value.func) == "self.handle_keyEventExtended"):
        raise GenError("_handle_qemuExtendedKeyEvent no longer calls handle_keyEventExtended")
    ext_args = [a.id for a in call.value.args]
    ext = method(lp, "RFBServer", "handle_keyEventExtended")
    ext_params = [a.arg for a in ext.args.args][1:]
    eb = [s for s in ext.body if not is_log_call(s)]
    if not (len(eb) == 1 and isinstance(eb[0], ast.Expr) and ast.unparse(eb[0].value.func) == "self.handle_keyEvent" and len(eb[0].value.args) == 2):
        raise GenError("handle_keyEventExtended no longer forwards to handle_keyEvent(key, down)")
    fwd = [a.id for a in eb[0].value.args]
    bind = dict(zip(ext_params, ext_args))          # parameter of handle_keyEventExtended -> unpacked field name
    key_pos, down_pos = (qfields.index(bind[fwd[0]]), qfields.index(bind[fwd[1]]))
    qnext = handler_assign(body[3])
    # the order in which handle_keyEvent takes (key, down) in the recording proxy
    hk = method(lp, "VNCLoggingServerProxy", "handle_keyEvent")
    hp = method(lp, "VNCLoggingServerProxy", "handle_pointerEvent")
    kparams = [a.arg for a in hk.args.args][1:]
    pparams = [a.arg for a in hp.args.args][1:]
    if kparams != ["key", "down"] or pparams != ["x", "y", "buttonmask"]:
        raise GenError(f"handle_keyEvent{kparams} / handle_pointerEvent{pparams}: parameter order changed")

    out = ["(** GENERATED by gen/dispatch.py from vncdotool/loggingproxy.py - do not edit. *)",
           "From Coq Require Import ZArith List String.", "Import ListNotations.", "Open Scope string_scope.", "",
           "Inductive dispatch :=",
           "| DCall (callback : string) (args : list nat)          (* positions of the arguments among the unpacked fields *)",
           "| DNext (handler : string) (mult : Z) (field : option nat)   (* next handler waits for mult [* that field] bytes *)",
           "| DSubtype (field : nat) (handler : string) (need : Z)  (* the QEMU message: extended key event or raise *)",
           "| DRaise.", "",
           "Definition PROTOCOL_DISPATCH : list (string * list string * dispatch) := ["]
    out.append(";\n".join('  ("%s", [%s], %s)' % (n, "; ".join('"%s"' % f for f in fs), t) for n, fs, t in rows))
    out.append("].\n")
    out.append("(* handler, bytes consumed, next handler, bytes it waits for *)")
    out.append("Definition HANDLER_STEPS : list (string * Z * string * Z) := ["
               + "; ".join('("%s", %d%%Z, "%s", %d%%Z)' % s_ for s_ in steps) + "].\n")
    out.append("(* the extended key event: fields as unpacked, positions of (key, down) handed to handle_keyEvent, next handler and its need *)")
    out.append('Definition QEMU_KEY : list string * nat * nat * string * Z := ([%s], %d%%nat, %d%%nat, "%s", %d%%Z).\n'
               % ("; ".join('"%s"' % f for f in qfields), key_pos, down_pos, qnext[0], need_of(qnext[2], [])[0]))
    new = "\n".join(out)
    os.makedirs(os.path.dirname(OUT), exist_ok=True)
    if not os.path.exists(OUT) or open(OUT).read() != new:
        open(OUT, "w").write(new)


if __name__ == "__main__":
    try:
        main()
    except GenError as e:
        print("gen/dispatch.py: " + str(e), file=sys.stderr)
        sys.exit(2)
