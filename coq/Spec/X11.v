(** X11 keysym values (X11/keysymdef.h) of the keys vncdo names, written independently of the
    repository, and the documented vncdo name -> keysym binding. *)
From Coq Require Import ZArith List String.
Import ListNotations.
Open Scope Z_scope.
Local Open Scope string_scope.

Definition XK_BackSpace := 65288.   (* 0xff08 *)
Definition XK_Tab := 65289.         (* 0xff09 *)
Definition XK_Return := 65293.      (* 0xff0d *)
Definition XK_Pause := 65299.       (* 0xff13 *)
Definition XK_Scroll_Lock := 65300. (* 0xff14 *)
Definition XK_Sys_Req := 65301.     (* 0xff15 *)
Definition XK_Escape := 65307.      (* 0xff1b *)
Definition XK_Home := 65360.        (* 0xff50 *)
Definition XK_Left := 65361.
Definition XK_Up := 65362.
Definition XK_Right := 65363.
Definition XK_Down := 65364.
Definition XK_Page_Up := 65365.
Definition XK_Page_Down := 65366.
Definition XK_End := 65367.         (* 0xff57 *)
Definition XK_Insert := 65379.      (* 0xff63 *)
Definition XK_Num_Lock := 65407.    (* 0xff7f *)
Definition XK_KP_Enter := 65421.    (* 0xff8d *)
Definition XK_KP_0 := 65456.        (* 0xffb0 *)
Definition XK_F1 := 65470.          (* 0xffbe *)
Definition XK_Shift_L := 65505.     (* 0xffe1 *)
Definition XK_Shift_R := 65506.
Definition XK_Control_L := 65507.
Definition XK_Control_R := 65508.
Definition XK_Caps_Lock := 65509.
Definition XK_Meta_L := 65511.      (* 0xffe7 *)
Definition XK_Meta_R := 65512.
Definition XK_Alt_L := 65513.
Definition XK_Alt_R := 65514.
Definition XK_Super_L := 65515.
Definition XK_Super_R := 65516.
Definition XK_Hyper_L := 65517.
Definition XK_Hyper_R := 65518.
Definition XK_Delete := 65535.      (* 0xffff *)
Definition XK_space := 32.
Definition XK_slash := 47.
Definition XK_backslash := 92.

(** the documented vncdo key names (docs/commands, KEYMAP) and the key each stands for.
    "slash" is upstream's legacy alias of the backslash key. *)
Definition DOCUMENTED : list (string * Z) := [
  ("bsp", XK_BackSpace); ("tab", XK_Tab); ("return", XK_Return); ("enter", XK_Return);
  ("esc", XK_Escape); ("ins", XK_Insert); ("delete", XK_Delete); ("del", XK_Delete);
  ("home", XK_Home); ("end", XK_End); ("pgup", XK_Page_Up); ("pgdn", XK_Page_Down);
  ("left", XK_Left); ("up", XK_Up); ("right", XK_Right); ("down", XK_Down);
  ("slash", XK_backslash); ("bslash", XK_backslash); ("fslash", XK_slash);
  ("spacebar", XK_space); ("space", XK_space); ("sb", XK_space);
  ("f1", XK_F1); ("f2", XK_F1 + 1); ("f3", XK_F1 + 2); ("f4", XK_F1 + 3); ("f5", XK_F1 + 4);
  ("f6", XK_F1 + 5); ("f7", XK_F1 + 6); ("f8", XK_F1 + 7); ("f9", XK_F1 + 8); ("f10", XK_F1 + 9);
  ("f11", XK_F1 + 10); ("f12", XK_F1 + 11); ("f13", XK_F1 + 12); ("f14", XK_F1 + 13);
  ("f15", XK_F1 + 14); ("f16", XK_F1 + 15); ("f17", XK_F1 + 16); ("f18", XK_F1 + 17);
  ("f19", XK_F1 + 18); ("f20", XK_F1 + 19);
  ("lshift", XK_Shift_L); ("shift", XK_Shift_L); ("rshift", XK_Shift_R);
  ("lctrl", XK_Control_L); ("ctrl", XK_Control_L); ("rctrl", XK_Control_R);
  ("lmeta", XK_Meta_L); ("meta", XK_Meta_L); ("rmeta", XK_Meta_R);
  ("lalt", XK_Alt_L); ("alt", XK_Alt_L); ("ralt", XK_Alt_R);
  ("scrlk", XK_Scroll_Lock); ("sysrq", XK_Sys_Req); ("numlk", XK_Num_Lock);
  ("caplk", XK_Caps_Lock); ("pause", XK_Pause);
  ("lsuper", XK_Super_L); ("super", XK_Super_L); ("rsuper", XK_Super_R);
  ("lhyper", XK_Hyper_L); ("hyper", XK_Hyper_L); ("rhyper", XK_Hyper_R);
  ("kp0", XK_KP_0); ("kp1", XK_KP_0 + 1); ("kp2", XK_KP_0 + 2); ("kp3", XK_KP_0 + 3);
  ("kp4", XK_KP_0 + 4); ("kp5", XK_KP_0 + 5); ("kp6", XK_KP_0 + 6); ("kp7", XK_KP_0 + 7);
  ("kp8", XK_KP_0 + 8); ("kp9", XK_KP_0 + 9); ("kpenter", XK_KP_Enter)
].

Fixpoint lookup (k : string) (m : list (string * Z)) : option Z :=
  match m with
  | [] => None
  | (k', v) :: r => if String.eqb k k' then Some v else lookup k r
  end.

(** both directions: every name of the table is documented with that keysym, and every
    documented name is in the table *)
Definition same_bindings (a b : list (string * Z)) : bool :=
  forallb (fun kv => match lookup (fst kv) b with Some v => Z.eqb v (snd kv) | None => false end) a &&
  forallb (fun kv => match lookup (fst kv) a with Some v => Z.eqb v (snd kv) | None => false end) b.
