(** RFC 6143 §7.5 client-to-server messages: an independent parser used as the
    specification of "well-formed".  Written from the RFC field tables, not from the
    client's serialisers: byte positions are spelled out, nothing is shared with
    Base.Struct or Gen.Formats. *)
From Coq Require Import ZArith List Bool.
From VD Require Import Base.Bytes.
Import ListNotations.
Open Scope Z_scope.

Inductive c2s :=
| MSetPixelFormat (pf : bytes)                 (* 16 bytes *)
| MSetEncodings (encs : list Z)                (* signed 32-bit each *)
| MFbUpdateRequest (inc x y w h : Z)
| MKeyEvent (down key : Z)
| MPointerEvent (mask x y : Z)
| MClientCutText (data : bytes).

Definition u16 (a b : Z) : Z := a * 256 + b.
Definition u32 (a b c d : Z) : Z := ((a * 256 + b) * 256 + c) * 256 + d.
Definition s32 (a b c d : Z) : Z :=
  let v := u32 a b c d in if v <? 2147483648 then v else v - 4294967296.

Fixpoint encs_of (n : nat) (b : bytes) : option (list Z * bytes) :=
  match n with
  | O => Some ([], b)
  | S k => match b with
           | a :: b0 :: c :: d :: r =>
               match encs_of k r with
               | Some (l, rest) => Some (s32 a b0 c d :: l, rest)
               | None => None
               end
           | _ => None
           end
  end.

Definition parse1 (b : bytes) : option (c2s * bytes) :=
  match b with
  | [] => None
  | t :: r =>
      if t =? 0 then
        match r with
        | _ :: _ :: _ :: r' =>
            match take 16 r' with Some (pf, rest) => Some (MSetPixelFormat pf, rest) | None => None end
        | _ => None
        end
      else if t =? 2 then
        match r with
        | _ :: n1 :: n0 :: r' =>
            match encs_of (Z.to_nat (u16 n1 n0)) r' with
            | Some (l, rest) => Some (MSetEncodings l, rest)
            | None => None
            end
        | _ => None
        end
      else if t =? 3 then
        match r with
        | inc :: x1 :: x0 :: y1 :: y0 :: w1 :: w0 :: h1 :: h0 :: rest =>
            Some (MFbUpdateRequest inc (u16 x1 x0) (u16 y1 y0) (u16 w1 w0) (u16 h1 h0), rest)
        | _ => None
        end
      else if t =? 4 then
        match r with
        | down :: _ :: _ :: k3 :: k2 :: k1 :: k0 :: rest => Some (MKeyEvent down (u32 k3 k2 k1 k0), rest)
        | _ => None
        end
      else if t =? 5 then
        match r with
        | mask :: x1 :: x0 :: y1 :: y0 :: rest => Some (MPointerEvent mask (u16 x1 x0) (u16 y1 y0), rest)
        | _ => None
        end
      else if t =? 6 then
        match r with
        | _ :: _ :: _ :: l3 :: l2 :: l1 :: l0 :: r' =>
            match take (u32 l3 l2 l1 l0) r' with
            | Some (d, rest) => Some (MClientCutText d, rest)
            | None => None
            end
        | _ => None
        end
      else None
  end.

(** the whole stream must be a sequence of complete messages; fuel = number of bytes *)
Fixpoint parse_fuel (fuel : nat) (b : bytes) : option (list c2s) :=
  match b with
  | [] => Some []
  | _ :: _ =>
      match fuel with
      | O => None
      | S f => match parse1 b with
               | Some (m, rest) => match parse_fuel f rest with
                                   | Some ms => Some (m :: ms)
                                   | None => None
                                   end
               | None => None
               end
      end
  end.

Definition parse_c2s (b : bytes) : option (list c2s) := parse_fuel (length b) b.
