(** FIPS 46-3 DES, written from the standard (tables and structure), independent of /repo.
    Blocks and keys are lists of bits, most significant bit of the first byte first. *)
From Coq Require Import ZArith List Bool.
Import ListNotations.

Definition bits := list bool.

(* 1-based selection tables *)
Definition permute (tbl : list nat) (l : bits) : bits := map (fun i => nth (i - 1) l false) tbl.

Definition IP : list nat :=
  [58;50;42;34;26;18;10;2; 60;52;44;36;28;20;12;4; 62;54;46;38;30;22;14;6; 64;56;48;40;32;24;16;8;
   57;49;41;33;25;17;9;1; 59;51;43;35;27;19;11;3; 61;53;45;37;29;21;13;5; 63;55;47;39;31;23;15;7]%nat.
Definition FP : list nat :=
  [40;8;48;16;56;24;64;32; 39;7;47;15;55;23;63;31; 38;6;46;14;54;22;62;30; 37;5;45;13;53;21;61;29;
   36;4;44;12;52;20;60;28; 35;3;43;11;51;19;59;27; 34;2;42;10;50;18;58;26; 33;1;41;9;49;17;57;25]%nat.
Definition E : list nat :=
  [32;1;2;3;4;5; 4;5;6;7;8;9; 8;9;10;11;12;13; 12;13;14;15;16;17;
   16;17;18;19;20;21; 20;21;22;23;24;25; 24;25;26;27;28;29; 28;29;30;31;32;1]%nat.
Definition P : list nat :=
  [16;7;20;21;29;12;28;17; 1;15;23;26;5;18;31;10; 2;8;24;14;32;27;3;9; 19;13;30;6;22;11;4;25]%nat.
Definition PC1 : list nat :=
  [57;49;41;33;25;17;9; 1;58;50;42;34;26;18; 10;2;59;51;43;35;27; 19;11;3;60;52;44;36;
   63;55;47;39;31;23;15; 7;62;54;46;38;30;22; 14;6;61;53;45;37;29; 21;13;5;28;20;12;4]%nat.
Definition PC2 : list nat :=
  [14;17;11;24;1;5; 3;28;15;6;21;10; 23;19;12;4;26;8; 16;7;27;20;13;2;
   41;52;31;37;47;55; 30;40;51;45;33;48; 44;49;39;56;34;53; 46;42;50;36;29;32]%nat.
Definition SHIFTS : list nat := [1;1;2;2;2;2;2;2;1;2;2;2;2;2;2;1]%nat.

Definition SBOX : list (list nat) := [
  [14;4;13;1;2;15;11;8;3;10;6;12;5;9;0;7; 0;15;7;4;14;2;13;1;10;6;12;11;9;5;3;8;
   4;1;14;8;13;6;2;11;15;12;9;7;3;10;5;0; 15;12;8;2;4;9;1;7;5;11;3;14;10;0;6;13];
  [15;1;8;14;6;11;3;4;9;7;2;13;12;0;5;10; 3;13;4;7;15;2;8;14;12;0;1;10;6;9;11;5;
   0;14;7;11;10;4;13;1;5;8;12;6;9;3;2;15; 13;8;10;1;3;15;4;2;11;6;7;12;0;5;14;9];
  [10;0;9;14;6;3;15;5;1;13;12;7;11;4;2;8; 13;7;0;9;3;4;6;10;2;8;5;14;12;11;15;1;
   13;6;4;9;8;15;3;0;11;1;2;12;5;10;14;7; 1;10;13;0;6;9;8;7;4;15;14;3;11;5;2;12];
  [7;13;14;3;0;6;9;10;1;2;8;5;11;12;4;15; 13;8;11;5;6;15;0;3;4;7;2;12;1;10;14;9;
   10;6;9;0;12;11;7;13;15;1;3;14;5;2;8;4; 3;15;0;6;10;1;13;8;9;4;5;11;12;7;2;14];
  [2;12;4;1;7;10;11;6;8;5;3;15;13;0;14;9; 14;11;2;12;4;7;13;1;5;0;15;10;3;9;8;6;
   4;2;1;11;10;13;7;8;15;9;12;5;6;3;0;14; 11;8;12;7;1;14;2;13;6;15;0;9;10;4;5;3];
  [12;1;10;15;9;2;6;8;0;13;3;4;14;7;5;11; 10;15;4;2;7;12;9;5;6;1;13;14;0;11;3;8;
   9;14;15;5;2;8;12;3;7;0;4;10;1;13;11;6; 4;3;2;12;9;5;15;10;11;14;1;7;6;0;8;13];
  [4;11;2;14;15;0;8;13;3;12;9;7;5;10;6;1; 13;0;11;7;4;9;1;10;14;3;5;12;2;15;8;6;
   1;4;11;13;12;3;7;14;10;15;6;8;0;5;9;2; 6;11;13;8;1;4;10;7;9;5;0;15;14;2;3;12];
  [13;2;8;4;6;15;11;1;10;9;3;14;5;0;12;7; 1;15;13;8;10;3;7;4;12;5;6;11;0;14;9;2;
   7;11;4;1;9;12;14;2;0;6;10;13;15;3;5;8; 2;1;14;7;4;10;8;13;15;12;9;0;3;5;6;11]]%nat.

Definition xor_bits (a b : bits) : bits := map (fun p => xorb (fst p) (snd p)) (combine a b).

Definition b2n (b : bool) : nat := if b then 1 else 0.
Definition nat4 (n : nat) : bits :=
  [Nat.testbit n 3; Nat.testbit n 2; Nat.testbit n 1; Nat.testbit n 0].

(* one S-box: 6 input bits b1..b6, row = b1 b6, column = b2 b3 b4 b5 *)
Definition sbox1 (box : list nat) (six : bits) : bits :=
  match six with
  | [b1; b2; b3; b4; b5; b6] =>
      let row := (2 * b2n b1 + b2n b6)%nat in
      let col := (8 * b2n b2 + 4 * b2n b3 + 2 * b2n b4 + b2n b5)%nat in
      nat4 (nth (16 * row + col) box 0%nat)
  | _ => [false; false; false; false]
  end.

Fixpoint sboxes (boxes : list (list nat)) (l : bits) : bits :=
  match boxes with
  | [] => []
  | box :: r => sbox1 box (firstn 6 l) ++ sboxes r (skipn 6 l)
  end.

(* the cipher function f(R, K) *)
Definition feistel (r k : bits) : bits := permute P (sboxes SBOX (xor_bits (permute E r) k)).

Definition rotl (n : nat) (l : bits) : bits := skipn n l ++ firstn n l.

Fixpoint key_rounds (shifts : list nat) (c d : bits) : list bits :=
  match shifts with
  | [] => []
  | s :: r => let c' := rotl s c in let d' := rotl s d in
              permute PC2 (c' ++ d') :: key_rounds r c' d'
  end.

Definition key_schedule (key : bits) : list bits :=
  let cd := permute PC1 key in key_rounds SHIFTS (firstn 28 cd) (skipn 28 cd).

(* sixteen rounds: (L, R) -> (R, L xor f(R, K)) *)
Fixpoint rounds (ks : list bits) (l r : bits) : bits * bits :=
  match ks with
  | [] => (l, r)
  | k :: ks' => rounds ks' r (xor_bits l (feistel r k))
  end.

Definition crypt (ks : list bits) (block : bits) : bits :=
  let ip := permute IP block in
  let '(l, r) := rounds ks (firstn 32 ip) (skipn 32 ip) in
  permute FP (r ++ l).

Definition des_encrypt (key block : bits) : bits := crypt (key_schedule key) block.
Definition des_decrypt (key block : bits) : bits := crypt (rev (key_schedule key)) block.

(** bytes <-> bits *)
Open Scope Z_scope.
Definition byte_bits (b : Z) : bits :=
  [Z.testbit b 7; Z.testbit b 6; Z.testbit b 5; Z.testbit b 4; Z.testbit b 3; Z.testbit b 2; Z.testbit b 1; Z.testbit b 0].
Definition bits_of_bytes (l : list Z) : bits := flat_map byte_bits l.
Fixpoint bits_val (l : bits) (acc : Z) : Z :=
  match l with [] => acc | b :: r => bits_val r (2 * acc + (if b then 1 else 0)) end.
Fixpoint bytes_of_bits (fuel : nat) (l : bits) : list Z :=
  match fuel with
  | O => []
  | S f => match l with
           | [] => []
           | _ => bits_val (firstn 8 l) 0 :: bytes_of_bits f (skipn 8 l)
           end
  end.

Definition des_encrypt_bytes (key block : list Z) : list Z :=
  bytes_of_bits 8 (des_encrypt (bits_of_bytes key) (bits_of_bytes block)).
Definition des_decrypt_bytes (key block : list Z) : list Z :=
  bytes_of_bits 8 (des_decrypt (bits_of_bytes key) (bits_of_bytes block)).

(** ECB over whole 8-byte blocks *)
Fixpoint ecb (f : list Z -> list Z) (fuel : nat) (data : list Z) : list Z :=
  match fuel with
  | O => []
  | S k => match data with
           | [] => []
           | _ => f (firstn 8 data) ++ ecb f k (skipn 8 data)
           end
  end.
Definition des_ecb_encrypt (key data : list Z) : list Z := ecb (des_encrypt_bytes key) (length data) data.
Definition des_ecb_decrypt (key data : list Z) : list Z := ecb (des_decrypt_bytes key) (length data) data.
