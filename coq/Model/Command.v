(** command.build_command_list: the vncdo command-line compiler. *)
From Coq Require Import ZArith List Bool String.
From VD Require Import Base.Bytes Base.Text Gen.Tables Model.Server Model.Shlex.
Import ListNotations.
Local Open Scope string_scope.
Local Open Scope list_scope.
Open Scope Z_scope.

(** registered operations: the client method and its arguments. Numbers that Python parses with
    float() are kept as the token text ([ftext]); their validity is [py_float_ok]. *)
Inductive cop :=
| CKeyPress (k : text) | CKeyDown (k : text) | CKeyUp (k : text)
| CMove (x y : Z) | CClick (b : Z) | CMDown (b : Z) | CMUp (b : Z) | CDrag (x y : Z)
| CPaste (t : text)
| CCapture (file : text) | CRCapture (file : text) (x y w h : Z)
| CExpect (file : text) (rms : text) | CRExpect (file : text) (x y : Z) (rms : text)
| CPause (dur : text)            (* pause float(dur) / warp *)
| CDelay.                        (* pause delay/1000 inserted between commands *)

Inductive cerr :=
| EUnknown (w : text)      (* CommandParseError: unknown cmd *)
| EFormat (ext : text)     (* CommandParseError: unsupported image format *)
| EMissing                 (* IndexError: pop from empty list *)
| ENumber                  (* ValueError from int() / float() *)
| ENoFile                  (* FileNotFoundError / IsADirectoryError from open() *)
| ELex                     (* ValueError from shlex *)
| EFuel.                   (* script files nested deeper than the bound *)

(** float(): ASCII grammar. [sign] (digits[_digits] [. [digits]] | . digits) [e[sign]digits] | inf | infinity | nan *)
Fixpoint digit_run (l : text) (prev_digit : bool) (seen : bool) : option (text * bool) :=
  (* consumes digits with single underscores between them; returns the rest and whether any digit was seen *)
  match l with
  | c :: r =>
      if is_digit c then digit_run r true true
      else if (c =? USCORE) && prev_digit
           then match r with
                | d :: _ => if is_digit d then digit_run r false seen else None
                | [] => None
                end
           else Some (l, seen)
  | [] => Some ([], seen)
  end.

Definition lower (c : Z) : Z := if (65 <=? c) && (c <=? 90) then c + 32 else c.

Definition py_float_ok (s : text) : bool :=
  let t := strip s in
  let t := match t with c :: r => if (c =? 43) || (c =? 45) then r else t | [] => t end in
  let lt := map lower t in
  if text_eqb lt (text_of_ascii "inf") || text_eqb lt (text_of_ascii "infinity") || text_eqb lt (text_of_ascii "nan")
  then true
  else
    match digit_run t false false with
    | None => false
    | Some (r1, seen1) =>
        let after_frac :=
          match r1 with
          | 46 :: r2 =>
              match r2 with
              | c :: _ => if is_digit c then
                            match digit_run r2 false false with
                            | Some (r3, seen2) => Some (r3, seen1 || seen2)
                            | None => None
                            end
                          else Some (r2, seen1)
              | [] => Some ([], seen1)
              end
          | _ => Some (r1, seen1)
          end in
        match after_frac with
        | None => false
        | Some (r3, seen) =>
            if negb seen then false
            else match r3 with
                 | [] => true
                 | e :: r4 =>
                     if (e =? 101) || (e =? 69) then
                       let r5 := match r4 with c :: r => if (c =? 43) || (c =? 45) then r else r4 | [] => r4 end in
                       match digit_run r5 false false with
                       | Some ([], true) => true
                       | _ => false
                       end
                     else false
                 end
        end
    end.

(** os.path.splitext(filename)[1][1:] *)
Definition SLASH : Z := 47.
Fixpoint last_component (s : text) (cur : text) : text :=
  match s with
  | [] => rev cur
  | c :: r => if c =? SLASH then last_component r [] else last_component r (c :: cur)
  end.
Fixpoint drop_leading_dots (s : text) : text :=
  match s with c :: r => if c =? DOT then drop_leading_dots r else s | [] => [] end.
Fixpoint after_last_dot (s : text) (found : option text) (cur : text) : option text :=
  match s with
  | [] => match found with Some _ => Some (rev cur) | None => None end
  | c :: r => if c =? DOT then after_last_dot r (Some []) [] else after_last_dot r found (c :: cur)
  end.
Definition extension (file : text) : text :=
  match after_last_dot (drop_leading_dots (last_component file [])) None [] with
  | Some e => e
  | None => []
  end.

Definition supported_format (ext : text) : bool := existsb (text_eqb ext) SUPPORTED_FORMATS.

Definition w (s : string) : text := text_of_ascii s.
Definition is_word (t : text) (names : list string) : bool := existsb (fun n => text_eqb t (w n)) names.

(** the filesystem as seen by os.path.isfile / open *)
Definition fs := text -> option text.

Inductive cres := COk (ops : list cop) | CErr (e : cerr) (registered : list cop).

Definition pop_int (args : list text) : option (option Z * list text) :=
  match args with [] => None | a :: r => Some (py_int a, r) end.

(* typefile: "\r" skipped, "\n" -> enter, "\t" -> tab *)
Definition typefile_keys (content : text) (delay : bool) : list cop :=
  flat_map (fun c => if c =? 13 then []
                     else let k := if c =? 10 then w "enter" else if c =? 9 then w "tab" else [c] in
                          CKeyPress k :: (if delay then [CDelay] else [])) content.

(* f.read().replace("\r\n", "\n") *)
Fixpoint crlf_to_lf (s : text) : text :=
  match s with
  | 13 :: 10 :: r => 10 :: crlf_to_lf r
  | c :: r => c :: crlf_to_lf r
  | [] => []
  end.

Fixpoint compile (fuel : nat) (f : fs) (delay : bool) (args : list text) (acc : list cop) : cres :=
  match fuel with
  | O => CErr EFuel acc
  | S fuel' =>
      match args with
      | [] => COk acc
      | cmd :: rest =>
          let continue (ops : list cop) (rest' : list text) : cres :=
            let acc' := acc ++ ops in
            compile fuel' f delay rest' (if delay && (match rest' with [] => false | _ => true end) then acc' ++ [CDelay] else acc') in
          let need1 (k : text -> list text -> cres) : cres :=
            match rest with [] => CErr EMissing acc | a :: r => k a r end in
          let int1 (k : Z -> list text -> cres) (l : list text) : cres :=
            match l with
            | [] => CErr EMissing acc
            | a :: r => match py_int a with Some v => k v r | None => CErr ENumber acc end
            end in
          if text_eqb cmd (w "key") then need1 (fun a r => continue [CKeyPress a] r)
          else if is_word cmd ["kdown"; "keydown"] then need1 (fun a r => continue [CKeyDown a] r)
          else if is_word cmd ["kup"; "keyup"] then need1 (fun a r => continue [CKeyUp a] r)
          else if is_word cmd ["move"; "mousemove"] then
            int1 (fun x r1 => int1 (fun y r2 => continue [CMove x y] r2) r1) rest
          else if text_eqb cmd (w "click") then int1 (fun b r => continue [CClick b] r) rest
          else if is_word cmd ["mdown"; "mousedown"] then int1 (fun b r => continue [CMDown b] r) rest
          else if is_word cmd ["mup"; "mouseup"] then int1 (fun b r => continue [CMUp b] r) rest
          else if text_eqb cmd (w "type") then
            need1 (fun a r => continue (flat_map (fun c => CKeyPress [c] :: (if delay then [CDelay] else [])) a) r)
          else if text_eqb cmd (w "typefile") then
            need1 (fun a r => match f a with
                              | Some content => continue (typefile_keys content delay) r
                              | None => CErr ENoFile acc
                              end)
          else if text_eqb cmd (w "pastefile") then
            need1 (fun a r => match f a with
                              | Some content => continue [CPaste (crlf_to_lf content)] r
                              | None => CErr ENoFile acc
                              end)
          else if text_eqb cmd (w "capture") then
            need1 (fun a r => if supported_format (extension a) then continue [CCapture a] r
                              else CErr (EFormat (extension a)) acc)
          else if text_eqb cmd (w "expect") then
            need1 (fun a r => match r with
                              | [] => CErr EMissing acc
                              | rms :: r2 => if py_float_ok rms then continue [CExpect a rms] r2 else CErr ENumber acc
                              end)
          else if text_eqb cmd (w "rcapture") then
            need1 (fun a r =>
              int1 (fun x r1 => int1 (fun y r2 => int1 (fun ww r3 => int1 (fun hh r4 =>
                if supported_format (extension a) then continue [CRCapture a x y ww hh] r4
                else CErr (EFormat (extension a)) acc) r3) r2) r1) r)
          else if text_eqb cmd (w "rexpect") then
            need1 (fun a r =>
              int1 (fun x r1 => int1 (fun y r2 =>
                match r2 with
                | [] => CErr EMissing acc
                | rms :: r3 => if py_float_ok rms then continue [CRExpect a x y rms] r3 else CErr ENumber acc
                end) r1) r)
          else if is_word cmd ["pause"; "sleep"] then
            need1 (fun a r => if py_float_ok a then continue [CPause a] r else CErr ENumber acc)
          else if text_eqb cmd (w "drag") then
            int1 (fun x r1 => int1 (fun y r2 => continue [CDrag x y] r2) r1) rest
          else
            match f cmd with
            | Some content =>
                match shlex_split content with
                | inr toks => continue [] (toks ++ rest)
                | inl _ => CErr ELex acc
                end
            | None => CErr (EUnknown cmd) acc
            end
      end
  end.
