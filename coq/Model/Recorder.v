(** loggingproxy.RFBServer (the viewer-side parser of vnclog) and the recorder formatting of
    VNCLoggingServerProxy.handle_keyEvent / handle_pointerEvent.  Time is in ticks of 1e-4 s. *)
From Coq Require Import ZArith List Bool String.
From VD Require Import Base.Bytes Base.Struct Base.PixFmt Base.Text Gen.Tables Gen.Formats.
From VD Require Import Model.ClientMsgs Model.Shlex Model.Rfb.
Definition w (s : string) : text := text_of_ascii s.
Import ListNotations.
Local Open Scope string_scope.
Local Open Scope list_scope.
Open Scope Z_scope.

Inductive rhandler := HVersion | HSecurity | HAuthResp | HClientInit | HProtocol | HQemu
| HEncList (n : Z) | HCutText (n : Z).     (* partial(self._handle_setEncodingsList, n) / partial(self._handle_clientCutText, n) *)

Inductive revent :=
| RRecord (line : text)           (* one write to the recorder *)
| RStartLogging                   (* peer.startLogging: the logging client begins at ServerInit *)
| RLose
| RSetPixelFormat (p : pixfmt) | RSetEncodings (l : list Z) | RFbUpdate (x y w h inc : Z)
| RCutText.

Record rstate := mk_rstate {
  r_buf : bytes; r_handler : rhandler; r_need : Z;
  r_pwreq : bool;                 (* factory.password_required *)
  r_mouse : option (Z * Z);
  r_last : Z }.                   (* last_event, ticks *)

Definition rstate0 (pwreq : bool) (now : Z) : rstate := mk_rstate [] HVersion 12 pwreq None now.

Inductive rres :=
| ROk (es : list revent) (s : rstate)
| RRaise (es : list revent)       (* a handler raised: the chunk is not forwarded *)
| RSpin (es : list revent).       (* the while loop never ends *)

(* "%.4f" % (ticks * 1e-4) *)
Fixpoint dec_digits (fuel : nat) (n : Z) : text :=
  match fuel with
  | O => []
  | S f => if n <? 10 then [48 + n] else dec_digits f (n / 10) ++ [48 + n mod 10]
  end.
Definition dec_text (n : Z) : text := if n <? 0 then 45 :: dec_digits 40 (- n) else dec_digits 40 n.
Definition fmt4 (ticks : Z) : text :=
  let a := Z.abs ticks in
  (if ticks <? 0 then [45] else []) ++ dec_digits 40 (a / 10000) ++ [46] ++
  [48 + (a / 1000) mod 10; 48 + (a / 100) mod 10; 48 + (a / 10) mod 10; 48 + a mod 10].

Definition SP : Z := 32.
Fixpoint join_sp (l : list text) : text :=
  match l with [] => [] | [x] => x | x :: r => x ++ [SP] ++ join_sp r end.

(* REVERSE_MAP.get(key, chr(key)); [None]: chr() raises ValueError *)
Definition key_name (key : Z) : option text :=
  match assoc_Z key REVERSE_MAP with
  | Some n => Some n
  | None => if (0 <=? key) && (key <=? 1114111) then Some [key] else None
  end.

Definition record_key (s : rstate) (now key down : Z) : option (text * rstate) :=
  match key_name key with
  | None => None
  | Some n =>
      let line := join_sp [w "pause"; fmt4 (now - r_last s); (if negb (down =? 0) then w "keydown" else w "keyup");
                           quote n; [10]] in
      Some (line, mk_rstate (r_buf s) (r_handler s) (r_need s) (r_pwreq s) (r_mouse s) now)
  end.

Definition record_pointer (s : rstate) (now x y mask : Z) : text * rstate :=
  let moved := match r_mouse s with Some (mx, my) => negb ((mx =? x) && (my =? y)) | None => true end in
  let clicks := flat_map (fun b => if negb (Z.land mask (Z.shiftl 1 (b - 1)) =? 0) then [w "click " ++ dec_text b] else [])
                         [1; 2; 3; 4; 5; 6; 7; 8] in
  let line := join_sp ([w "pause"; fmt4 (now - r_last s)]
                       ++ (if moved then [w "move " ++ dec_text x ++ [SP] ++ dec_text y] else [])
                       ++ clicks ++ [[10]]) in
  (line, mk_rstate (r_buf s) (r_handler s) (r_need s) (r_pwreq s) (if moved then Some (x, y) else r_mouse s) now).

Definition with_buf (s : rstate) (b : bytes) (h : rhandler) (n : Z) : rstate :=
  mk_rstate b h n (r_pwreq s) (r_mouse s) (r_last s).

Definition type_len (t : Z) : Z := match assoc_Z t TYPE_LEN with Some n => n | None => 0 end.

Definition unpackZs (fmt : list fld) (b : bytes) : option (list Z) :=
  match unpack fmt b with
  | Some vs => Some (map (fun v => match v with VI z => z | VS _ => 0 end) vs)
  | None => None
  end.

(** one handler invocation: events, new state, [None] = raises, and whether it is the
    zero-progress ClientCutText case *)
Inductive hres := HOk (es : list revent) (s : rstate) | HRaise.

Definition starts (p s : text) : bool := starts_with p s.

Definition handle (s : rstate) (now : Z) : hres :=
  let buf := r_buf s in
  match r_handler s with
  | HVersion =>
      let msg := firstn 12 buf in
      let rest := skipn 12 buf in
      let lose := negb (starts (w "RFB 003.") msg) && (match rev msg with 10 :: _ => true | _ => false end) in
      let es := if lose then [RLose] else [] in
      let version := firstn 3 (skipn 8 msg) in
      if text_eqb version (w "003") || text_eqb version (w "005") then
        (if r_pwreq s then HOk es (with_buf s rest HAuthResp 16) else HOk es (with_buf s rest HClientInit 1))
      else if text_eqb version (w "007") || text_eqb version (w "008") then HOk es (with_buf s rest HSecurity 1)
      else HOk es (with_buf s rest HVersion 12)
  | HSecurity =>
      if hd 0 buf =? AUTH_VNC_AUTHENTICATION then HOk [] (with_buf s (skipn 1 buf) HAuthResp 16)
      else HOk [] (with_buf s (skipn 1 buf) HClientInit 1)
  | HAuthResp => HOk [] (with_buf s (skipn 16 buf) HClientInit 1)
  | HClientInit => HOk [RStartLogging] (with_buf s (skipn 1 buf) HProtocol 1)
  | HProtocol =>
      match buf with
      | [] => HRaise
      | ptype :: _ =>
          let nbytes := type_len ptype in
          if len buf <? nbytes then HOk [] (with_buf s buf HProtocol nbytes)
          else
            let block := skipn 1 (firstn (Z.to_nat nbytes) buf) in
            let rest := skipn (Z.to_nat nbytes) buf in
            let s1 := with_buf s rest HProtocol 1 in
            if ptype =? C2S_SET_PIXEL_FORMAT then
              match unpack fmt_loggingproxy_RFBServer_handle_protocol_1 block with
              | Some [VS pb] => match pf_from_bytes pb with
                                | Some p => HOk [RSetPixelFormat p] s1
                                | None => HRaise
                                end
              | _ => HRaise
              end
            else if ptype =? C2S_SET_ENCODING then
              match unpackZs fmt_loggingproxy_RFBServer_handle_protocol_2 block with
              | Some [n] => HOk [] (with_buf s rest (HEncList n) (4 * n))
              | _ => HRaise
              end
            else if ptype =? C2S_FRAMEBUFFER_UPDATE_REQUEST then
              match unpackZs fmt_loggingproxy_RFBServer_handle_protocol_3 block with
              | Some [inc; x; y; ww; hh] => HOk [RFbUpdate x y ww hh inc] s1
              | _ => HRaise
              end
            else if ptype =? C2S_KEY_EVENT then
              match unpackZs fmt_loggingproxy_RFBServer_handle_protocol_4 block with
              | Some [down; key] =>
                  match record_key s1 now key down with
                  | Some (line, s2) => HOk [RRecord line] s2
                  | None => HRaise
                  end
              | _ => HRaise
              end
            else if ptype =? C2S_POINTER_EVENT then
              match unpackZs fmt_loggingproxy_RFBServer_handle_protocol_5 block with
              | Some [mask; x; y] => let '(line, s2) := record_pointer s1 now x y mask in HOk [RRecord line] s2
              | _ => HRaise
              end
            else if ptype =? C2S_CLIENT_CUT_TEXT then
              match unpackZs fmt_loggingproxy_RFBServer_handle_protocol_6 block with
              | Some [n] => HOk [] (with_buf s rest (HCutText n) n)
              | _ => HRaise
              end
            else if ptype =? C2S_QEMU_CLIENT_MESSAGE then
              match unpackZs fmt_loggingproxy_RFBServer_handle_protocol_7 block with
              | Some [sub] => if sub =? QEMU_EXTENDED_KEY_EVENT then HOk [] (with_buf s rest HQemu 10) else HRaise
              | _ => HRaise
              end
            else HRaise
      end
  | HQemu =>
      match unpackZs fmt_loggingproxy_RFBServer_handle_qemuExtendedKeyEvent_0 (firstn 10 buf) with
      | Some [down; keysym; keycode] =>
          let s1 := with_buf s (skipn 10 buf) HProtocol 1 in
          match record_key s1 now keysym down with
          | Some (line, s2) => HOk [RRecord line] s2
          | None => HRaise
          end
      | _ => HRaise
      end
  | HEncList n =>
      match take (4 * n) buf with
      | Some (eb, rest) =>
          match unpackZs (fmt_loggingproxy_RFBServer_handle_setEncodingsList_0 n) eb with
          | Some l => HOk [RSetEncodings l] (with_buf s rest HProtocol 1)
          | None => HRaise
          end
      | None => HRaise
      end
  | HCutText n =>
      match take n buf with
      | Some (_, rest) => HOk [RCutText] (with_buf s rest HProtocol 1)
      | None => HRaise
      end
  end.

(** dataReceived: buffer += data; while len(buffer) >= need: handler() *)
Fixpoint rloop (fuel : nat) (s : rstate) (now : Z) (acc : list revent) : rres :=
  if len (r_buf s) <? r_need s then ROk acc s
  else match fuel with
       | O => RSpin acc
       | S f =>
           match handle s now with
           | HOk es s' => rloop f s' now (acc ++ es)
           | HRaise => RRaise acc
           end
       end.

Definition rfeed (s : rstate) (now : Z) (d : bytes) : rres :=
  let s' := with_buf s (r_buf s ++ d) (r_handler s) (r_need s) in
  rloop (2 * List.length (r_buf s') + 4) s' now [].
