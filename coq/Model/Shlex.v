(** shlex.shlex(posix=True) with whitespace_split = True, as command.py uses it
    (whitespace " \t\r\n", commenters "#", quotes '"', escape "\", escapedquotes '"').
    A transliteration of shlex.read_token as a structural recursion over the input. *)
From Coq Require Import ZArith List Bool.
From VD Require Import Base.Bytes Base.Text.
Import ListNotations.
Open Scope Z_scope.

Definition is_ws (c : Z) : bool := (c =? 32) || (c =? 9) || (c =? 13) || (c =? 10).
Definition HASH : Z := 35.
Definition SQ : Z := 39.
Definition DQ : Z := 34.
Definition BSL : Z := 92.
Definition NL : Z := 10.

Inductive lstate :=
| LSpace                       (* ' ' : between tokens *)
| LWord                        (* 'a' : inside a word *)
| LQuote (q : Z)               (* inside a quotation opened by q *)
| LEscape (back : lstate) (e : Z)   (* after the escape character e; [back] = escapedstate *)
| LComment (back_word : bool). (* skipping to the end of the line; came from a word? *)

Inductive lex_err := NoClosingQuotation | NoEscapedCharacter.

(** [tok]: characters of the current token (reversed); [quoted]: a quotation was seen in it.
    Returns the tokens, or the ValueError shlex raises at end of input. *)
Fixpoint lex (s : list Z) (st : lstate) (tok : list Z) (quoted : bool) (acc : list text)
  : lex_err + list text :=
  let emit (acc : list text) := if (match tok with [] => false | _ => true end) || quoted
                                then acc ++ [rev tok] else acc in
  match s with
  | [] =>
      match st with
      | LSpace | LWord | LComment _ => inr (emit acc)
      | LQuote _ => inl NoClosingQuotation
      | LEscape _ _ => inl NoEscapedCharacter
      end
  | c :: r =>
      match st with
      | LSpace =>
          if is_ws c then lex r LSpace [] false (emit acc)
          else if c =? HASH then lex r (LComment false) tok quoted acc
          else if c =? BSL then lex r (LEscape LWord c) tok quoted acc
          else if (c =? SQ) || (c =? DQ) then lex r (LQuote c) tok quoted acc
          else lex r LWord [c] quoted acc
      | LWord =>
          if is_ws c then lex r LSpace [] false (emit acc)
          else if c =? HASH then lex r (LComment true) tok quoted acc
          else if (c =? SQ) || (c =? DQ) then lex r (LQuote c) tok quoted acc
          else if c =? BSL then lex r (LEscape LWord c) tok quoted acc
          else lex r LWord (c :: tok) quoted acc
      | LQuote q =>
          if c =? q then lex r LWord tok true acc
          else if (c =? BSL) && (q =? DQ) then lex r (LEscape (LQuote q) c) tok true acc
          else lex r (LQuote q) (c :: tok) true acc
      | LEscape back e =>
          let tok' := match back with
                      | LQuote q => if negb (c =? e) && negb (c =? q) then c :: e :: tok else c :: tok
                      | _ => c :: tok
                      end in
          lex r back tok' quoted acc
      | LComment from_word =>
          if c =? NL then
            (if from_word then lex r LSpace [] false (emit acc) else lex r LSpace tok quoted acc)
          else lex r (LComment from_word) tok quoted acc
      end
  end.

Definition shlex_split (s : list Z) : lex_err + list text := lex s LSpace [] false [].

(** shlex.quote *)
Definition safe_char (c : Z) : bool :=
  ((48 <=? c) && (c <=? 57)) || ((65 <=? c) && (c <=? 90)) || ((97 <=? c) && (c <=? 122)) ||
  mem_Z c [95; 64; 37; 43; 61; 58; 44; 46; 47; 45].   (* _ @ % + = : , . / - *)

Definition quote (s : text) : text :=
  match s with
  | [] => [SQ; SQ]
  | _ => if forallb safe_char s then s
         else [SQ] ++ flat_map (fun c => if c =? SQ then [SQ; DQ; SQ; DQ; SQ] else [c]) s ++ [SQ]
  end.
