(** The screen the library client builds from the callbacks of the RFB layer: updateRectangle,
    fillRectangle, updateDesktopSize, updateCursor applied in the order the decoder makes them. *)
From Coq Require Import ZArith List Bool.
From VD Require Import Base.Bytes Base.PixFmt Model.Engine Model.Rfb Model.Image Model.Screen.
Import ListNotations.
Open Scope Z_scope.

Definition apply_ev (l : lib) (e : ev) : lib :=
  let keep (o : option lib) := match o with Some l' => l' | None => l end in
  match e with
  | EMode m => mk_lib (screen l) (cur l) m (l_nocursor l) (l_x l) (l_y l)
  | EUpd x y w h d => keep (update_rect l x y w h d)
  | EFill x y w h c => keep (fill_rect l x y w h c)
  | EDesktopSize w h => keep (resize l w h)
  | ECursor x y w h i m => keep (update_cursor l x y w h i m)
  | _ => l
  end.
