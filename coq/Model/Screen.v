(** client.VNCDoToolClient: updateRectangle / updateDesktopSize / updateCursor / drawCursor. *)
From Coq Require Import ZArith List Bool.
From VD Require Import Base.Bytes Base.PixFmt Gen.Tables Model.Image.
Import ListNotations.
Open Scope Z_scope.

Record cursor := mk_cursor { c_img : image; c_mask : list (list bool); c_fx : Z; c_fy : Z }.

Record lib := mk_lib {
  screen : option image;
  cur : option cursor;
  l_mode : immode;
  l_nocursor : bool;
  l_x : Z; l_y : Z }.           (* the pointer position the client last sent *)

Definition lib0 (nocursor : bool) : lib := mk_lib None None DEFAULT_IMAGE_MODE nocursor 0 0.

Definition with_screen (l : lib) (s : option image) : lib :=
  mk_lib s (cur l) (l_mode l) (l_nocursor l) (l_x l) (l_y l).

(* drawCursor *)
Definition draw_cursor (l : lib) : lib :=
  match cur l, screen l with
  | Some c, Some s =>
      (* a cursor image of zero size is falsy? no: PIL images are always truthy *)
      with_screen l (Some (paste_masked s (c_img c) (c_mask c) (l_x l - c_fx c) (l_y l - c_fy c)))
  | _, _ => l
  end.

(** updateRectangle(x, y, w, h, data); [None] = it raises *)
Definition update_rect (l : lib) (x y w h : Z) (data : bytes) : option lib :=
  match data with
  | [] => Some l
  | _ =>
      match frombytes (l_mode l) w h data with
      | None => None
      | Some u =>
          let s' :=
            match screen l with
            | None =>
                if negb (x =? 0) || negb (y =? 0)
                then paste (new_black (x + w) (y + h)) u x y
                else u
            | Some s =>
                if (iw s <? x + w) || (ih s <? y + h)
                then paste (paste (new_black (Z.max (x + w) (iw s)) (Z.max (y + h) (ih s))) s 0 0) u x y
                else paste s u x y
            end in
          Some (draw_cursor (with_screen l (Some s')))
      end
  end.

(* fillRectangle: updateRectangle(x, y, w, h, color * w * h) *)
Fixpoint rep_color (n : nat) (c : bytes) : bytes :=
  match n with O => [] | S k => c ++ rep_color k c end.

Definition fill_rect (l : lib) (x y w h : Z) (color : bytes) : option lib :=
  update_rect l x y w h (rep_color (Z.to_nat (Z.max 0 w * Z.max 0 h)) color).

(** updateDesktopSize(w, h) *)
Definition resize (l : lib) (w h : Z) : option lib :=
  if (0 <=? w) && (w <? MAX_DESKTOP_SIZE) && (0 <=? h) && (h <? MAX_DESKTOP_SIZE) then
    let n := new_black w h in
    Some (with_screen l (Some (match screen l with Some s => paste n s 0 0 | None => n end)))
  else None.

(** updateCursor(x, y, w, h, image, mask) *)
Definition update_cursor (l : lib) (x y w h : Z) (img msk : bytes) : option lib :=
  if l_nocursor l then Some l
  else
    match frombytes (l_mode l) w h img with
    | None => None
    | Some ci =>
        if len msk <? ((w + 7) / 8) * h then None
        else
          let c := mk_cursor ci (mask_rows (Z.to_nat h) w msk) x y in
          Some (draw_cursor (mk_lib (screen l) (Some c) (l_mode l) (l_nocursor l) (l_x l) (l_y l)))
    end.
