(** client.VNCDoToolClient._decodeKey and the key operations. Texts are code-point lists. *)
From Coq Require Import ZArith List Bool String.
From VD Require Import Base.Bytes Base.Text Gen.Tables Model.ClientMsgs.
Import ListNotations.
Open Scope Z_scope.

Definition keymap_get (k : list Z) : option Z := assoc_text k KEYMAP.

(* KEYMAP.get(k) or ord(k) ; ord of a non-1-character string raises TypeError *)
Definition key_code (k : list Z) : option Z :=
  match keymap_get k with
  | Some v => if v =? 0 then match k with [c] => Some c | _ => None end else Some v
  | None => match k with [c] => Some c | _ => None end
  end.

Fixpoint all_some {A} (l : list (option A)) : option (list A) :=
  match l with
  | [] => Some []
  | None :: _ => None
  | Some x :: r => match all_some r with Some r' => Some (x :: r') | None => None end
  end.

Definition DASH : Z := 45.

(** [decode_key force_caps isupper key]; [isupper] is the value of Python's
    [key.isupper()] supplied by the caller (Unicode case tables are not modelled). *)
Definition decode_key (force_caps isupper : bool) (key : list Z) : option (list Z) :=
  let wrapped :=
    if force_caps && (isupper || is_substring key SPECIAL_KEYS_US)
    then match key with
         | [c] => Some (text_of_ascii "shift-"%string ++ [c])   (* "shift-%c" % key *)
         | _ => None                                      (* %c requires one character *)
         end
    else Some key in
  match wrapped with
  | None => None
  | Some key' =>
      let keys := match key' with [_] => [key'] | _ => split_on DASH key' end in
      all_some (map key_code keys)
  end.

Fixpoint key_events (down : Z) (keys : list Z) : option bytes :=
  match keys with
  | [] => Some []
  | k :: r => match keyEvent k down, key_events down r with
              | Some a, Some b => Some (a ++ b)
              | _, _ => None
              end
  end.

Definition keyPress (force_caps isupper : bool) (key : list Z) : option bytes :=
  match decode_key force_caps isupper key with
  | None => None
  | Some keys =>
      match key_events 1 keys, key_events 0 (rev keys) with
      | Some a, Some b => Some (a ++ b)
      | _, _ => None
      end
  end.

Definition keyDown (force_caps isupper : bool) (key : list Z) : option bytes :=
  match decode_key force_caps isupper key with
  | None => None
  | Some keys => key_events 1 keys
  end.

Definition keyUp (force_caps isupper : bool) (key : list Z) : option bytes :=
  match decode_key force_caps isupper key with
  | None => None
  | Some keys => key_events 0 keys
  end.
