(** The compiled vncdo script as it runs (C08): the callback chain of factory.deferred, one
    callback per operation; an operation that returns a Deferred (pause, drag, capture, expect)
    suspends the chain until that Deferred fires.  Time is rational, advanced by timers
    (reactor.callLater) and by the arrival of committed framebuffer updates. *)
From Coq Require Import ZArith QArith List Bool.
From VD Require Import Base.Bytes Base.PixFmt Model.ClientMsgs Model.Keys Model.Pointer Model.ClientOps.
Import ListNotations.
Open Scope Z_scope.

Inductive sop :=
| SOp (o : op)                       (* synchronous client call: key*, mouse*, paste *)
| SPause (d : Q)                     (* pause(d): callLater(d) *)
| SDragTo (x y : Z)                  (* mouseDrag(x, y): a move then pause(0.2) per step, final move *)
| SCapture (inc : Z)                 (* captureScreen/Region: request, completes at the next commit *)
| SExpect (id : nat).                (* expectScreen/Region for awaited image #id *)

(** a committed framebuffer update: arrival time, and for each awaited image whether the screen
    matches it afterwards *)
Record commit := mk_commit { c_time : Q; c_match : list bool }.

Inductive tev := TWrite (b : bytes) | TLose.
Definition trace := list (Q * tev).

Inductive outcome :=
| Done (t : Q)           (* every operation finished, the connection was closed at t *)
| Stuck                  (* an operation waits for an update that never comes *)
| Failed.                (* an operation raised: the chain's errback path, no close *)

Definition DRAG_PAUSE : Q := 2 # 10.

Definition qle (a b : Q) : bool := Qle_bool a b.

(* updates that arrive while nothing waits for them only change what the screen shows *)
Fixpoint absorb (t : Q) (cur : option (list bool)) (cs : list commit) : option (list bool) * list commit :=
  match cs with
  | c :: r => if qle (c_time c) t then absorb t (Some (c_match c)) r else (cur, cs)
  | [] => (cur, [])
  end.

Definition matched (cur : list bool) (id : nat) : bool := nth id cur false.

(* moves of a drag: each at its own time *)
Fixpoint drag_writes (t : Q) (ws : list bytes) : trace * Q :=
  match ws with
  | [] => ([], t)
  | [w] => ([(t, TWrite w)], t)
  | w :: r => let '(tr, t') := drag_writes (Qred (t + DRAG_PAUSE)) r in ((t, TWrite w) :: tr, t')
  end.

(* expect: poll the commits; [None]: no matching update ever arrives *)
Fixpoint expect_loop (s : cstate) (id : nat) (cs : list commit) (acc : trace)
  : trace * option (Q * list bool * list commit) :=
  match cs with
  | [] => (acc, None)
  | c :: r =>
      if matched (c_match c) id then (acc, Some (c_time c, c_match c, r))
      else match fbur s 0 0 None None 1 with
           | Some w => expect_loop s id r (acc ++ [(c_time c, TWrite w)])
           | None => (acc, None)
           end
  end.

Record rstate := mk_rs { rs_client : cstate; rs_time : Q; rs_cur : option (list bool); rs_commits : list commit }.

Inductive step_res := SOk (tr : trace) (s : rstate) | SStuck (tr : trace) | SFail (tr : trace).

Definition run_sop (r : rstate) (o : sop) : step_res :=
  let s := rs_client r in
  let t := rs_time r in
  (* commits that arrived while the chain was busy elsewhere were applied; nobody waited for them *)
  let '(cur, cs) := absorb t (rs_cur r) (rs_commits r) in
  match o with
  | SOp op1 =>
      match run_op s op1 with
      | (s', Some w) => SOk [(t, TWrite w)] (mk_rs s' t cur cs)
      | (_, None) => SFail []
      end
  | SPause d => SOk [] (mk_rs s (Qred (t + d)) cur cs)
  | SDragTo x y =>
      match mouseDrag (cs_ptr s) x y 1 with
      | (p', Some ws) => let '(tr, t') := drag_writes t ws in SOk tr (mk_rs (with_ptr s p') t' cur cs)
      | (_, None) => SFail []
      end
  | SCapture inc =>
      match fbur s 0 0 None None inc with
      | None => SFail []
      | Some w =>
          match cs with
          | [] => SStuck [(t, TWrite w)]
          | c :: rest => SOk [(t, TWrite w)] (mk_rs s (c_time c) (Some (c_match c)) rest)
          end
      end
  | SExpect id =>
      match cur with
      | Some m =>
          if matched m id then SOk [] (mk_rs s t cur cs)
          else match fbur s 0 0 None None 1 with
               | None => SFail []
               | Some w =>
                   match expect_loop s id cs [(t, TWrite w)] with
                   | (tr, Some (t', m', rest)) => SOk tr (mk_rs s t' (Some m') rest)
                   | (tr, None) => SStuck tr
                   end
               end
      | None =>
          match fbur s 0 0 None None 0 with
          | None => SFail []
          | Some w =>
              match expect_loop s id cs [(t, TWrite w)] with
              | (tr, Some (t', m', rest)) => SOk tr (mk_rs s t' (Some m') rest)
              | (tr, None) => SStuck tr
              end
          end
      end
  end.

(** the whole chain; the last callback closes the connection *)
Fixpoint run_script (r : rstate) (ops : list sop) : trace * outcome :=
  match ops with
  | [] => ([(rs_time r, TLose)], Done (rs_time r))
  | o :: rest =>
      match run_sop r o with
      | SOk tr r' => let '(tr2, out) := run_script r' rest in (tr ++ tr2, out)
      | SStuck tr => (tr, Stuck)
      | SFail tr => (tr, Failed)
      end
  end.
