(** command.parse_server over code-point strings.  os.path.exists and
    ipaddress.IPv6Address are inputs (oracles supplied by the caller). *)
From Coq Require Import ZArith List Bool String.
From VD Require Import Base.Bytes Base.Text.
Import ListNotations.
Open Scope Z_scope.

Inductive family := AF_UNSPEC | AF_INET | AF_INET6 | AF_UNIX.

Definition COLON : Z := 58.
Definition LBRACK : Z := 91.
Definition RBRACK : Z := 93.
Definition DOT : Z := 46.
Definition USCORE : Z := 95.

Definition is_digit (c : Z) : bool := (48 <=? c) && (c <=? 57).
(* ASCII characters that int() strips *)
Definition is_space (c : Z) : bool := ((9 <=? c) && (c <=? 13)) || ((28 <=? c) && (c <=? 32)).

Fixpoint drop_space (l : text) : text :=
  match l with
  | c :: r => if is_space c then drop_space r else l
  | [] => []
  end.
Definition strip (l : text) : text := rev (drop_space (rev (drop_space l))).

(** the digits of int(): single underscores allowed between digits *)
Fixpoint digits_val (l : text) (acc : Z) (prev_digit : bool) : option Z :=
  match l with
  | [] => if prev_digit then Some acc else None
  | c :: r =>
      if is_digit c then digits_val r (acc * 10 + (c - 48)) true
      else if (c =? USCORE) && prev_digit
           then match r with
                | d :: _ => if is_digit d then digits_val r acc false else None
                | [] => None
                end
           else None
  end.

(** Python's int(str) for ASCII input: [None] = ValueError *)
Definition py_int (s : text) : option Z :=
  match strip s with
  | [] => None
  | c :: r =>
      if c =? 43 then digits_val r 0 false                                        (* + *)
      else if c =? 45 then match digits_val r 0 false with Some v => Some (- v) | None => None end
      else digits_val (c :: r) 0 false
  end.

(** ipaddress.IPv4Address(str) acceptance (Python >= 3.9.5): four octets of 1-3 ASCII digits,
    no leading zero unless the octet is "0", value <= 255 *)
Definition octet_ok (o : text) : bool :=
  match o with
  | [] => false
  | _ => forallb is_digit o && (len o <=? 3) &&
         (match o with c :: _ :: _ => negb (c =? 48) | _ => true end) &&
         (match digits_val o 0 false with Some v => v <=? 255 | None => false end)
  end.
Definition is_ipv4 (h : text) : bool :=
  match split_on DOT h with
  | [a; b; c; d] => octet_ok a && octet_ok b && octet_ok c && octet_ok d
  | _ => false
  end.

(* str.partition(sep) for a one-character separator: (before, found, after) *)
Fixpoint partition_on (sep : Z) (s : text) : text * bool * text :=
  match s with
  | [] => ([], false, [])
  | c :: r => if c =? sep then ([], true, r)
              else let '(a, f, b) := partition_on sep r in (c :: a, f, b)
  end.

Definition port_of (parts : list text) : option Z :=
  match parts with
  | [_; _; p] => py_int p
  | [_; d] => match py_int d with Some v => Some (v + 5900) | None => None end
  | [_] => Some 5900
  | _ => None
  end.

Definition localhost : text := text_of_ascii "127.0.0.1"%string.

(** [exists_ host]: os.path.exists; [ipv6_ok v6]: IPv6Address(v6) does not raise *)
Definition parse_server (exists_ : text -> bool) (ipv6_ok : text -> bool) (server : text)
  : option (family * text * Z) :=
  if starts_with [LBRACK] server then
    let '(host, found, rest) := partition_on RBRACK (tl server) in
    if negb found then None
    else if negb (ipv6_ok host) then None
    else match port_of (split_on COLON rest) with
         | Some p => Some (AF_INET6, host, p)
         | None => None
         end
  else
    let parts := split_on COLON server in
    let h0 := hd [] parts in
    let host := match h0 with [] => localhost | _ => h0 end in
    let fam := if exists_ host then AF_UNIX else if is_ipv4 host then AF_INET else AF_UNSPEC in
    match port_of parts with
    | Some p => Some (fam, host, p)
    | None => None
    end.

Definition family_id (f : family) : Z :=
  match f with AF_UNSPEC => 0 | AF_INET => 2 | AF_INET6 => 10 | AF_UNIX => 1 end.
