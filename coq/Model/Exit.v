(** vncdo's exit status (C09): VNCDoCLIFactory.{clientConnectionLost, clientConnectionFailed,
    error, done}, build_tool's close_connection callback and the --timeout timer, as a
    machine over the events the reactor can deliver. *)
From Coq Require Import ZArith List Bool.
Import ListNotations.
Open Scope Z_scope.

Inductive xev :=
| XConnFailed            (* the connection could not be made (refused, unreachable, DNS) *)
| XCompleted             (* the chain's last callback ran: every command done, factory.completed = True, loseConnection *)
| XLostClean             (* connectionLost with ConnectionDone: the connection ended in an orderly way,
                            whoever closed it (the server, or the client after loseConnection) *)
| XLostError             (* connectionLost with any other reason (reset, abort, ...) *)
| XTimeout               (* the --timeout timer fired: factory.error(TimeoutError) *)
| XStop.                 (* reactor.stop ran (0.1 s after the first done()): nothing is delivered afterwards *)

Record xstate := mk_x {
  x_status : Z;              (* reactor.exit_status: 1 from build_tool on *)
  x_completed : bool;        (* factory.completed *)
  x_stopping : bool;         (* a reactor.stop has been scheduled *)
  x_stopped : bool }.

Definition x0 : xstate := mk_x 1 false false false.

Definition done (s : xstate) (code : Z) : xstate := mk_x code (x_completed s) true (x_stopped s).

Definition xstep (s : xstate) (e : xev) : xstate :=
  if x_stopped s then s
  else match e with
       | XConnFailed => done s 10
       | XCompleted => mk_x (x_status s) true (x_stopping s) (x_stopped s)
       | XLostClean => if x_completed s then done s 0 else done s 10
       | XLostError => done s 10
       | XTimeout => done s 10
       | XStop => if x_stopping s then mk_x (x_status s) (x_completed s) true true else s
       end.

Definition xrun (evs : list xev) : xstate := fold_left xstep evs x0.

(** sys.exit(reactor.exit_status) *)
Definition exit_status (evs : list xev) : Z := x_status (xrun evs).
