(** The vnclog -> vncdo loop (C18): the recorder over a list of input events, and the replay of a
    compiled script as abstract input events. *)
From Coq Require Import ZArith List Bool String.
From VD Require Import Base.Bytes Base.Text Gen.Tables Model.Shlex Model.Server Model.Command Model.Recorder Model.Keys.
Import ListNotations.
Open Scope Z_scope.

Inductive inev :=
| IKey (t down key : Z)            (* KeyEvent arriving at time t (ticks) *)
| IPtr (t mask x y : Z).           (* PointerEvent *)

Definition rec_state (mouse : option (Z * Z)) (last : Z) : rstate := mk_rstate [] HProtocol 1 false mouse last.

(** everything the recorder writes for a session; [None]: chr() raised *)
Fixpoint record_all (mouse : option (Z * Z)) (last : Z) (evs : list inev) : option text :=
  match evs with
  | [] => Some []
  | IKey t d k :: r =>
      match record_key (rec_state mouse last) t k d with
      | None => None
      | Some (line, s') => match record_all (r_mouse s') (r_last s') r with
                           | Some rest => Some (line ++ rest)
                           | None => None
                           end
      end
  | IPtr t m x y :: r =>
      let '(line, s') := record_pointer (rec_state mouse last) t x y m in
      match record_all (r_mouse s') (r_last s') r with
      | Some rest => Some (line ++ rest)
      | None => None
      end
  end.

(** what a compiled script does, as abstract events *)
Inductive outev :=
| RPause (dur : text)
| RKey (down : bool) (keysym : Z)
| RMove (x y : Z)
| RClick (b : Z)
| ROther.

Definition replay_op (o : cop) : option (list outev) :=
  match o with
  | CPause d => Some [RPause d]
  | CKeyDown k => match decode_key false false k with
                  | Some ks => Some (map (RKey true) ks)
                  | None => None
                  end
  | CKeyUp k => match decode_key false false k with
                | Some ks => Some (map (RKey false) ks)
                | None => None
                end
  | CMove x y => Some [RMove x y]
  | CClick b => Some [RClick b]
  | _ => Some [ROther]
  end.

Fixpoint replay_ops (ops : list cop) : option (list outev) :=
  match ops with
  | [] => Some []
  | o :: r => match replay_op o, replay_ops r with
              | Some a, Some b => Some (a ++ b)
              | _, _ => None
              end
  end.

(** the events the viewer's session stands for *)
Definition buttons_of (mask : Z) : list Z :=
  filter (fun b => negb (Z.land mask (Z.shiftl 1 (b - 1)) =? 0)) [1; 2; 3; 4; 5; 6; 7; 8].

Fixpoint expected (mouse : option (Z * Z)) (last : Z) (evs : list inev) : list outev :=
  match evs with
  | [] => []
  | IKey t d k :: r => RPause (fmt4 (t - last)) :: RKey (negb (d =? 0)) k :: expected mouse t r
  | IPtr t m x y :: r =>
      let moved := match mouse with Some (mx, my) => negb ((mx =? x) && (my =? y)) | None => true end in
      RPause (fmt4 (t - last)) :: (if moved then [RMove x y] else []) ++ map RClick (buttons_of m)
        ++ expected (if moved then Some (x, y) else mouse) t r
  end.

Definition no_files : fs := fun _ => None.

(** record, tokenise, compile, replay *)
Definition roundtrip (evs : list inev) : option (list outev) :=
  match record_all None 0 evs with
  | None => None
  | Some script =>
      match shlex_split script with
      | inl _ => None
      | inr toks =>
          match compile (S (List.length toks)) no_files false toks [] with
          | COk ops => replay_ops ops
          | CErr _ _ => None
          end
      end
  end.
