(** The slice of PIL the client relies on: RGB images as rows of pixels, new/paste/crop,
    frombytes for the raw modes of PF2IM, and the 1-bit cursor mask. *)
From Coq Require Import ZArith List Bool.
From VD Require Import Base.Bytes Base.PixFmt.
Import ListNotations.
Open Scope Z_scope.

Definition rgb := (Z * Z * Z)%type.
Definition black : rgb := (0, 0, 0).

Record image := mk_image { iw : Z; ih : Z; rows : list (list rgb) }.

Definition new_black (w h : Z) : image :=
  mk_image w h (repeatZ (repeatZ black (Z.to_nat w)) (Z.to_nat h)).

Definition get (im : image) (x y : Z) : rgb :=
  if (x <? 0) || (y <? 0) then black
  else nth (Z.to_nat x) (nth (Z.to_nat y) (rows im) []) black.

(** decoding of raw pixel data by mode (Image.frombytes(..., "raw", mode)) *)
Fixpoint decode_pixels (m : immode) (fuel : nat) (d : bytes) : list rgb :=
  match fuel with
  | O => []
  | S f =>
      match m, d with
      | MRGB, a :: b :: c :: r => (a, b, c) :: decode_pixels m f r
      | MRGBX, a :: b :: c :: _ :: r => (a, b, c) :: decode_pixels m f r
      | MBGR, a :: b :: c :: r => (c, b, a) :: decode_pixels m f r
      | MBGRX, a :: b :: c :: _ :: r => (c, b, a) :: decode_pixels m f r
      | MBGR16, lo :: hi :: r =>
          let v := lo + 256 * hi in
          ((Z.land (Z.shiftr v 11) 31) * 255 / 31, (Z.land (Z.shiftr v 5) 63) * 255 / 63, (Z.land v 31) * 255 / 31)
            :: decode_pixels m f r
      | _, _ => []
      end
  end.

Definition mode_bpp (m : immode) : Z :=
  match m with MRGB | MBGR => 3 | MRGBX | MBGRX => 4 | MBGR16 => 2 end.

Fixpoint rows_of {A} (h : nat) (w : Z) (l : list A) : list (list A) :=
  match h with
  | O => []
  | S k => match take w l with
           | Some (r, rest) => r :: rows_of k w rest
           | None => []
           end
  end.

(** [None]: "not enough image data" (or a negative size) *)
Definition frombytes (m : immode) (w h : Z) (d : bytes) : option image :=
  if (w <? 0) || (h <? 0) then None
  else if len d <? w * h * mode_bpp m then None
  else Some (mk_image w h (rows_of (Z.to_nat h) w (decode_pixels m (Z.to_nat (w * h)) d))).

(** the "1" mode mask: rows padded to whole bytes, most significant bit first *)
Definition bits_of_byte (b : Z) : list bool :=
  map (fun i => negb (Z.land (Z.shiftr b (7 - i)) 1 =? 0)) [0; 1; 2; 3; 4; 5; 6; 7].

Fixpoint mask_rows (h : nat) (w : Z) (d : bytes) : list (list bool) :=
  match h with
  | O => []
  | S k => match take ((w + 7) / 8) d with
           | Some (r, rest) => firstn (Z.to_nat w) (flat_map bits_of_byte r) :: mask_rows k w rest
           | None => []
           end
  end.

(** paste with clipping; [mask] selects the source pixels that are copied.  A negative
    offset first drops the clipped part of the source. *)
Definition clip_neg {A} (src : list A) (o : Z) : list A * Z :=
  if o <? 0 then (skipn (Z.to_nat (- o)) src, 0) else (src, o).

Fixpoint paste_row (dst : list rgb) (src : list rgb) (msk : option (list bool)) (ox : Z) : list rgb :=
  match dst with
  | [] => []
  | p :: dr =>
      if 0 <? ox then p :: paste_row dr src msk (ox - 1)
      else
        match src with
        | [] => dst
        | q :: sr =>
            let '(use, mr) := match msk with
                              | Some (b :: mr) => (b, Some mr)
                              | Some [] => (false, Some [])
                              | None => (true, None)
                              end in
            (if use then q else p) :: paste_row dr sr mr 0
        end
  end.

Definition paste_row_clip (dst src : list rgb) (msk : option (list bool)) (ox : Z) : list rgb :=
  let '(src', ox') := clip_neg src ox in
  let msk' := match msk with Some m => Some (fst (clip_neg m ox)) | None => None end in
  paste_row dst src' msk' ox'.

Fixpoint paste_rows (dst : list (list rgb)) (src : list (list rgb)) (msk : option (list (list bool))) (ox oy : Z)
  : list (list rgb) :=
  match dst with
  | [] => []
  | r :: dr =>
      if 0 <? oy then r :: paste_rows dr src msk ox (oy - 1)
      else
        match src with
        | [] => dst
        | s :: sr =>
            let '(mrow, mr) := match msk with
                               | Some (m :: mr) => (Some m, Some mr)
                               | Some [] => (Some [], Some [])
                               | None => (None, None)
                               end in
            paste_row_clip r s mrow ox :: paste_rows dr sr mr ox 0
        end
  end.

Definition paste_rows_clip (dst src : list (list rgb)) (msk : option (list (list bool))) (ox oy : Z) :=
  let '(src', oy') := clip_neg src oy in
  let msk' := match msk with Some m => Some (fst (clip_neg m oy)) | None => None end in
  paste_rows dst src' msk' ox oy'.

Definition paste (dst src : image) (ox oy : Z) : image :=
  mk_image (iw dst) (ih dst) (paste_rows_clip (rows dst) (rows src) None ox oy).

Definition paste_masked (dst src : image) (msk : list (list bool)) (ox oy : Z) : image :=
  mk_image (iw dst) (ih dst) (paste_rows_clip (rows dst) (rows src) (Some msk) ox oy).

Definition flat_bytes (im : image) : bytes :=
  flat_map (fun r => flat_map (fun p => let '(a, b, c) := p in [a; b; c]) r) (rows im).
