(** VNCDoToolClient._expectFramebuffer / _expectCompare (C07): the histogram comparison and the
    polling loop.  Floats are binary64 (PrimFloat), as CPython's. *)
From Coq Require Import ZArith List Bool PrimFloat Uint63.
From VD Require Import Base.Bytes Model.Image.
Import ListNotations.
Open Scope Z_scope.

Fixpoint zseq (fuel : nat) (a : Z) : list Z :=
  match fuel with O => [] | S f => a :: zseq f (a + 1) end.
Definition zrange_ab (a b : Z) : list Z := zseq (Z.to_nat (b - a)) a.

(** Image.crop((x0, y0, x1, y1)) of an RGB image: pixels outside the image are black *)
Definition crop_rows (im : image) (x0 y0 x1 y1 : Z) : list (list rgb) :=
  map (fun y => map (fun x => if (x <? iw im) && (y <? ih im) then get im x y else black) (zrange_ab x0 x1))
      (zrange_ab y0 y1).

(** Image.histogram() of an RGB image: 256 counts per band, R then G then B *)
Definition count_eq (v : Z) (l : list Z) : Z := len (filter (Z.eqb v) l).
Definition band_hist (vals : list Z) : list Z := map (fun v => count_eq v vals) (zseq 256 0).
Definition histogram (px : list (list rgb)) : list Z :=
  let flat := concat px in
  band_hist (map (fun p => fst (fst p)) flat) ++ band_hist (map (fun p => snd (fst p)) flat)
  ++ band_hist (map snd flat).

(** sum((h - e) ** 2 for h, e in zip(hist, expected)) *)
Fixpoint sumsq (h e : list Z) : Z :=
  match h, e with
  | x :: h', y :: e' => (x - y) * (x - y) + sumsq h' e'
  | _, _ => 0
  end.

(** math.sqrt(sum_ / len(hist)) <= maxrms; exact for sum_ < 2^53 *)
Definition float_of_Z (z : Z) : float := PrimFloat.of_uint63 (Uint63.of_Z z).
Definition rms (sum n : Z) : float := PrimFloat.sqrt (PrimFloat.div (float_of_Z sum) (float_of_Z n)).
Definition rms_le (sum n : Z) (maxrms : float) : bool := PrimFloat.leb (rms sum n) maxrms.

(** the test of _expectCompare on the current screen: [true] = the wait completes *)
Definition expect_matches (screen : option image) (box : Z * Z * Z * Z) (expected : list Z) (maxrms : float) : bool :=
  match screen with
  | None => false
  | Some im =>
      let '(x0, y0, x1, y1) := box in
      let hist := histogram (crop_rows im x0 y0 x1 y1) in
      (len hist =? len expected) && rms_le (sumsq hist expected) (len hist) maxrms
  end.

(** expectRegion(file, x, y, maxrms): the box has the awaited image's size at the offset *)
Definition region_box (x y iw_ ih_ : Z) : Z * Z * Z * Z := (x, y, x + iw_, y + ih_).

(** *** the polling loop, generic in the comparison *)
Section Poll.
  Variable S : Type.                       (* screens *)
  Variable matches : option S -> bool.

  Inductive pev := PReq (incremental : bool) | PDone.

  (* the call: compare at once; on a miss arm the waiter and request an update *)
  Definition poll_start (scr : option S) : list pev * bool :=
    if matches scr then ([PDone], false)
    else ([PReq (match scr with Some _ => true | None => false end)], true).

  (* one entry per committed update: what the waiter does when commitUpdate fires it *)
  Fixpoint poll_commits (waiting : bool) (screens : list S) : list (list pev) :=
    match screens with
    | [] => []
    | s :: r =>
        if waiting then
          (if matches (Some s) then [PDone] :: poll_commits false r else [PReq true] :: poll_commits true r)
        else [] :: poll_commits false r
    end.
End Poll.
