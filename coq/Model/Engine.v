(** The "expect" push parser of rfb.RFBClient (dataReceived / _handleExpected / expect),
    generic in the handler family.

    [need s p]   : number of bytes the pending expectation [p] waits for
    [step s p b] : the handler applied to a block of exactly that many bytes: new persistent
                   state, the expectation it registered through expect() ([None]: it returned
                   without calling expect, the old expectation stays pending) and the events it
                   caused, or [Raise] when it raises (events up to the exception). *)
From Coq Require Import ZArith List Bool.
From VD Require Import Base.Bytes.
Import ListNotations.
Open Scope Z_scope.

Section Engine.
  Variables st pend ev : Type.
  Variable need : st -> pend -> Z.

  Inductive res :=
  | Ok (s : st) (p : option pend) (es : list ev)
  | Raise (es : list ev).

  Variable step : st -> pend -> bytes -> res.

  Inductive outcome :=
  | Idle (s : st) (p : pend) (buf : bytes)   (* waiting for more bytes *)
  | Crashed.                                 (* a handler raised: Twisted drops the connection *)

  Definition next_pend (p : pend) (p' : option pend) : pend :=
    match p' with Some q => q | None => p end.

  (** big-step semantics of the while loop of _handleExpected; the [nat] counts handler calls *)
  Inductive Drain : st -> pend -> bytes -> list ev -> outcome -> nat -> Prop :=
  | D_wait s p buf :
      take (need s p) buf = None -> Drain s p buf [] (Idle s p buf) 0
  | D_step s p buf blk rest s' p' es es2 r n :
      take (need s p) buf = Some (blk, rest) ->
      step s p blk = Ok s' p' es ->
      Drain s' (next_pend p p') rest es2 r n ->
      Drain s p buf (es ++ es2) r (S n)
  | D_raise s p buf blk rest es :
      take (need s p) buf = Some (blk, rest) ->
      step s p blk = Raise es ->
      Drain s p buf es Crashed 1.

  (** executable version *)
  Fixpoint drain_fuel (fuel : nat) (s : st) (p : pend) (buf : bytes)
    : option (list ev * outcome * nat) :=
    match take (need s p) buf with
    | None => Some ([], Idle s p buf, O)
    | Some (blk, rest) =>
        match fuel with
        | O => None
        | S f =>
            match step s p blk with
            | Raise es => Some (es, Crashed, 1%nat)
            | Ok s' p' es =>
                match drain_fuel f s' (next_pend p p') rest with
                | Some (es2, r, n) => Some (es ++ es2, r, S n)
                | None => None
                end
            end
        end
    end.

  (** one dataReceived call on a client past the banner *)
  Inductive Feed : outcome -> bytes -> list ev -> outcome -> nat -> Prop :=
  | F_idle s p buf d es r n : Drain s p (buf ++ d) es r n -> Feed (Idle s p buf) d es r n
  | F_crashed d : Feed Crashed d [] Crashed 0.

  (** a sequence of dataReceived calls *)
  Inductive Run : outcome -> list bytes -> list ev -> outcome -> nat -> Prop :=
  | R_nil o : Run o [] [] o 0
  | R_cons o d ds es1 o1 n1 es2 o2 n2 :
      Feed o d es1 o1 n1 -> Run o1 ds es2 o2 n2 -> Run o (d :: ds) (es1 ++ es2) o2 (n1 + n2).
End Engine.

Arguments Ok {st pend ev}.
Arguments Raise {st pend ev}.
Arguments Idle {st pend}.
Arguments Crashed {st pend}.
