(** rfb.RFBClient (and the callbacks of client.VNCDoToolClient / command.VNCDoCLIClient that
    feed back into it) as a handler family for the expect engine.  One constructor of [pend]
    per Python handler, carrying the arguments registered with expect(); [step] is a
    transliteration of the method bodies.  Wire formats come from Gen/Formats.v, constants
    from Gen/Tables.v. *)
From Coq Require Import ZArith List Bool String.
From RecordUpdate Require Import RecordSet.
From VD Require Import Base.Bytes Base.Struct Base.PixFmt Base.Text Gen.Tables Gen.Formats.
From VD Require Import Model.Engine Model.ClientMsgs Model.Auth.
Import ListNotations.
Import RecordSetNotations.
Open Scope Z_scope.

Definition rect := (Z * Z * Z * Z)%type.

(** observable events: callbacks with their arguments, transport writes, loseConnection *)
Inductive ev :=
| EWrite (b : bytes)
| EWriteDES (key challenge : bytes)          (* DES-ECB(key).encrypt(challenge) is written *)
| EWriteARD (plain shared key : bytes)       (* AES-ECB(MD5(shared)).encrypt(plain) ++ key *)
| ELose
| EPrompt                                    (* getpass / input *)
| EMade                                      (* vncConnectionMade entered *)
| EMode (m : immode)                         (* setImageMode settled on this PIL raw mode *)
| EConnected                                 (* factory.clientConnectionMade *)
| EErrback                                   (* factory.clientConnectionFailed(AuthenticationError) *)
| EAuthFailed (reason : bytes)
| EBegin
| EUpd (x y w h : Z) (data : bytes)
| EFill (x y w h : Z) (color : bytes)        (* fillRectangle: updateRectangle(color * w * h) *)
| ECopy (sx sy x y w h : Z)
| ECursor (x y w h : Z) (image mask : bytes)
| EDesktopSize (w h : Z)
| ECommit (rs : list rect)
| ESave                                      (* a pending capture is completed at this commit *)
| EBell
| ECutText (t : bytes)
| EColorMap (first : Z) (colors : list (Z * Z * Z)).

Record cfg := mk_cfg {
  c_variant : Z;               (* 0 rfb.RFBClient, 1 client.VNCDoToolClient, 2 command.VNCDoCLIClient,
                                  3 client.VMWareClient *)
  c_shared : Z;                (* factory.shared *)
  c_username : option (list Z);
  c_prompt_user : list Z;      (* what input() returns *)
  c_prompt_pw : list Z;        (* what getpass() returns *)
  c_pseudocursor : bool; c_nocursor : bool; c_pseudodesktop : bool; c_last_rect : bool; c_qemu : bool;
  c_encoding : Z;
  c_urandom : bytes }.         (* os.urandom(512) *)

Record st := mk_st {
  cf : cfg;
  password : option (list Z);  (* factory.password (the CLI prompt stores what it read) *)
  username : option (list Z);
  ver : Z * Z; ver_server : Z * Z;
  rects : Z; rectpos : list rect;
  pf : pixfmt; imode : immode;
  width : Z; height : Z;
  qemu_neg : bool;
  dh_gen : Z; dh_keylen : Z; dh_mod : bytes;
  challenge : bytes;
  ztape : list (option bytes);      (* outputs of the successive zlib decompress() calls *)
  waiter : bool }.                  (* self.deferred is set (a capture waits for a commit) *)

#[export] Instance eta_st : Settable _ :=
  settable! mk_st <cf; password; username; ver; ver_server; rects; rectpos; pf; imode; width; height;
                   qemu_neg; dh_gen; dh_keylen; dh_mod; challenge; ztape; waiter>.

Definition bypp (s : st) : Z := pf_bypp (pf s).

Inductive pend :=
| PNumSec | PSecTypes (n : Z) | PAuth | PConnFailed | PConnMsg (n : Z)
| PVNCAuth | PDHAuth | PDHKey (n : Z) | PDHCert (n : Z)
| PAuthResult | PAuthFailed | PAuthFailedMsg (n : Z)
| PServerInit | PServerName (n : Z)
| PConnection | PFBU | PRect
| PRaw (n x y w h : Z) | PCopy (x y w h : Z)
| PRRE (n x y w h : Z) | PRRESub (n x y : Z)
| PCoRRE (n x y w h : Z) | PCoRRESub (n x y : Z)
| PHextile (bg fg : option bytes) (x y w h tx ty : Z)
| PHexRaw (n : Z) (bg fg : option bytes) (x y w h tx ty tw th : Z)
| PHexSub (n sub : Z) (bg fg : option bytes) (x y w h tx ty tw th : Z)
| PHexCol (n : Z) (bg fg : option bytes) (x y w h tx ty tw th : Z)
| PHexFG (n : Z) (bg fg : option bytes) (x y w h tx ty tw th : Z)
| PZRLE (x y w h : Z) | PZRLEData (n x y w h : Z)
| PCursor (n x y w h : Z)
| PColourMap | PColourMapVal (n first : Z)
| PCutText | PCutTextVal (n : Z).

Definition need (s : st) (p : pend) : Z :=
  match p with
  | PNumSec => 1 | PSecTypes n => n | PAuth => 4 | PConnFailed => 4 | PConnMsg n => n
  | PVNCAuth => 16 | PDHAuth => 4 | PDHKey n => n | PDHCert n => n
  | PAuthResult => 4 | PAuthFailed => 4 | PAuthFailedMsg n => n
  | PServerInit => 24 | PServerName n => n
  | PConnection => 1 | PFBU => 3 | PRect => 12
  | PRaw n _ _ _ _ => n | PCopy _ _ _ _ => 4
  | PRRE n _ _ _ _ => n | PRRESub n _ _ => n | PCoRRE n _ _ _ _ => n | PCoRRESub n _ _ => n
  | PHextile _ _ _ _ _ _ _ _ => 1
  | PHexRaw n _ _ _ _ _ _ _ _ _ _ => n | PHexSub n _ _ _ _ _ _ _ _ _ _ _ => n
  | PHexCol n _ _ _ _ _ _ _ _ _ _ => n | PHexFG n _ _ _ _ _ _ _ _ _ _ => n
  | PZRLE _ _ _ _ => 4 | PZRLEData n _ _ _ _ => n
  | PCursor n _ _ _ _ => n
  | PColourMap => 5 | PColourMapVal n _ => n
  | PCutText => 7 | PCutTextVal n => n
  end.

Notation res := (Engine.res st pend ev).
Definition ok (s : st) (p : pend) (es : list ev) : res := Ok s (Some p) es.
Definition ok_stay (s : st) (es : list ev) : res := Ok s None es.

(* run [k] after the events [es] *)
Definition prepend (es : list ev) (r : res) : res :=
  match r with
  | Ok s p es2 => Ok s p (es ++ es2)
  | Raise es2 => Raise (es ++ es2)
  end.

Definition lt_ver (a b : Z * Z) : bool :=
  (fst a <? fst b) || ((fst a =? fst b) && (snd a <? snd b)).
Definition le_ver (a b : Z * Z) : bool := negb (lt_ver b a).

Definition u1 (b : bytes) : Z := match b with [x] => x | _ => 0 end.
Definition unpackZ (fmt : list fld) (b : bytes) : option (list Z) :=
  match unpack fmt b with
  | Some vs => Some (map (fun v => match v with VI z => z | VS _ => 0 end) vs)
  | None => None
  end.

(** ---- callbacks of the three client variants ---- *)

(* setImageMode + SetEncodings + factory.clientConnectionMade *)
Definition lookup_mode (p : pixfmt) : option immode :=
  match find (fun e => pixfmt_eqb (fst e) p) PF2IM with Some e => Some (snd e) | None => None end.

Definition encodings_of (c : cfg) : list Z :=
  [c_encoding c]
  ++ (if c_pseudocursor c || c_nocursor c then [ENC_PSEUDO_CURSOR] else [])
  ++ (if c_pseudodesktop c then [ENC_PSEUDO_DESKTOP_SIZE] else [])
  ++ (if c_last_rect c then [ENC_PSEUDO_LAST_RECT] else [])
  ++ (if c_qemu c then [ENC_PSEUDO_QEMU_EXTENDED_KEY_EVENT] else []).

Definition opt_write (o : option bytes) : option (list ev) :=
  match o with Some b => Some [EWrite b] | None => None end.

Definition connection_made (s : st) : st * option (list ev) :=
  if c_variant (cf s) =? 0 then (s, Some [EMade])
  else
    let '(s1, es1) :=
      match lookup_mode (pf s) with
      | Some m => (s <| imode := m |>, Some [])
      | None =>
          let p := if (fst (ver_server s) =? 3) && (snd (ver_server s) =? 889) then BGR16 else RGB32 in
          match lookup_mode p with
          | Some m => (s <| pf := p |> <| imode := m |>, opt_write (setPixelFormat p))
          | None => (s <| pf := p |>, None)     (* KeyError *)
          end
      end in
    match es1, opt_write (setEncodings (encodings_of (cf s))) with
    | Some a, Some b => (s1, Some ([EMade] ++ a ++ [EMode (imode s1)] ++ b ++ [EConnected]))
    | _, _ => (s1, None)
    end.

(* commitUpdate *)
Definition commit (s : st) : st * list ev :=
  if negb (c_variant (cf s) =? 0) && waiter s then (s <| waiter := false |>, [ECommit (rectpos s); ESave])
  else (s, [ECommit (rectpos s)]).

(* _doConnection *)
Definition do_connection (s : st) : res :=
  if negb (rects s =? 0) then ok s PRect []
  else match rectpos s with
       | [] => ok s PConnection []
       | _ => let '(s', es) := commit s in ok s' PConnection es
       end.

(* _doClientInitialization *)
Definition client_init (s : st) : res :=
  match pack fmt_rfb_RFBClient_doClientInitialization_0 [VI (c_shared (cf s))] with
  | Some b => ok s PServerInit [EWrite b]
  | None => Raise []
  end.

(* vncRequestPassword; then the caller expects the result *)
Definition request_password (s : st) : res :=
  let send (s : st) (pw : list Z) (pre : list ev) : res :=
    match vnc_key pw with
    | Some k => ok s PAuthResult (pre ++ [EWriteDES k (challenge s)])
    | None => Raise pre
    end in
  match password s with
  | Some pw => send s pw []
  | None =>
      if c_variant (cf s) =? 0 then ok s PAuthResult [ELose]
      else if (c_variant (cf s) =? 1) || (c_variant (cf s) =? 3) then ok s PAuthResult [ELose; EErrback]
      else let pw := c_prompt_pw (cf s) in send (s <| password := Some pw |>) pw [EPrompt]
  end.

(* how updateRectangle of the variant reacts: the library client builds an image and raises
   when the data is too short for the rectangle *)
Definition mode_bytes (m : immode) : Z :=
  match m with MRGB | MBGR => 3 | MRGBX | MBGRX => 4 | MBGR16 => 2 end.

Definition upd_raises (s : st) (w h : Z) (n : Z) : bool :=
  if c_variant (cf s) =? 0 then false
  else if n =? 0 then false
  else (w <? 0) || (h <? 0) || (n <? w * h * mode_bytes (imode s)).

Definition upd (s : st) (x y w h : Z) (data : bytes) (k : res) : res :=
  if upd_raises s w h (len data) then Raise [] else prepend [EUpd x y w h data] k.

(* fillRectangle(x, y, w, h, color): updateRectangle(x, y, w, h, color * w * h) *)
Definition fill (s : st) (x y w h : Z) (color : option bytes) (k : res) : res :=
  match color with
  | None => Raise []                      (* None * int: TypeError *)
  | Some c =>
      let n := len c * Z.max 0 w * Z.max 0 h in
      if (0 <? w) && (0 <? h) && upd_raises s w h n then Raise []
      else prepend [EFill x y w h c] k
  end.

(** ---- hextile walk ---- *)
Definition hex_first (s : st) (x y w h : Z) : res :=
  if (y >=? y + h) || (x >=? x + w) then do_connection s
  else ok s (PHextile None None x y w h x y) [].

Definition hex_next (s : st) (bg fg : option bytes) (x y w h tx ty : Z) : res :=
  let tx1 := tx + 16 in
  let '(tx2, ty2) := if tx1 >=? x + w then (x, ty + 16) else (tx1, ty) in
  if (ty2 >=? y + h) || (tx2 >=? x + w) then do_connection s
  else ok s (PHextile bg fg x y w h tx2 ty2) [].

Definition has (sub flag : Z) : bool := negb (Z.land sub flag =? 0).

Fixpoint hex_subrects_col (fuel : nat) (b : bytes) (bp : Z) (tx ty : Z) (last : option bytes)
  : option (list (Z * Z * Z * Z * bytes) * option bytes) :=
  match fuel with
  | O => Some ([], last)
  | S f =>
      match b with
      | [] => Some ([], last)
      | _ =>
          match take bp b with
          | None => None
          | Some (color, r1) =>
              match r1 with
              | xy :: wh :: r2 =>
                  match hex_subrects_col f r2 bp tx ty (Some color) with
                  | Some (l, lst) =>
                      Some ((tx + Z.shiftr xy 4, ty + Z.land xy 15, Z.shiftr wh 4 + 1, Z.land wh 15 + 1, color) :: l, lst)
                  | None => None
                  end
              | _ => None     (* IndexError *)
              end
          end
      end
  end.

Fixpoint hex_subrects_fg (b : bytes) (tx ty : Z) : option (list (Z * Z * Z * Z)) :=
  match b with
  | [] => Some []
  | [_] => None
  | xy :: wh :: r =>
      match hex_subrects_fg r tx ty with
      | Some l => Some ((tx + Z.shiftr xy 4, ty + Z.land xy 15, Z.shiftr wh 4 + 1, Z.land wh 15 + 1) :: l)
      | None => None
      end
  end.

Fixpoint fills (s : st) (l : list (Z * Z * Z * Z * bytes)) (k : res) : res :=
  match l with
  | [] => k
  | (x, y, w, h, c) :: r => fill s x y w h (Some c) (fills s r k)
  end.

(** ---- RRE / CoRRE sub-rectangles ---- *)
Fixpoint subrects (fuel : nat) (fmt : list fld) (sz : Z) (b : bytes) (topx topy : Z)
  : option (list (Z * Z * Z * Z * bytes)) :=
  match fuel with
  | O => Some []
  | S f =>
      match b with
      | [] => Some []
      | _ =>
          let '(blk, rest) := match take sz b with Some p => p | None => (b, []) end in
          match unpack fmt blk with
          | Some [VS color; VI x; VI y; VI w; VI h] =>
              match subrects f fmt sz rest topx topy with
              | Some l => Some ((topx + x, topy + y, w, h, color) :: l)
              | None => None
              end
          | _ => None
          end
      end
  end.

Fixpoint triples (b : bytes) : list (Z * Z * Z) :=
  match b with
  | r1 :: r0 :: g1 :: g0 :: b1 :: b0 :: rest => (r1 * 256 + r0, g1 * 256 + g0, b1 * 256 + b0) :: triples rest
  | _ => []
  end.

(** ---- ZRLE (rfb._handleDecodeZRLEdata): a walk over the inflated tile stream.
    Iterators become list consumers; [None] = StopIteration / IndexError / ValueError. ---- *)

Definition cpixel (it : bytes) : option (bytes * bytes) :=
  match it with a :: b :: c :: r => Some ([a; b; c; 255], r) | _ => None end.

Fixpoint cpixels (n : nat) (it : bytes) : option (list bytes * bytes) :=
  match n with
  | O => Some ([], it)
  | S k => match cpixel it with
           | Some (c, r) => match cpixels k r with Some (l, r') => Some (c :: l, r') | None => None end
           | None => None
           end
  end.

(* do_rle's length: first byte, then further bytes while the last one read is 255; returns run_length + 1 *)
Fixpoint rle_len (it : bytes) (acc : Z) : option (Z * bytes) :=
  match it with
  | [] => None
  | r :: rest => if r =? 255 then rle_len rest (acc + r) else Some (acc + r + 1, rest)
  end.

Fixpoint rep_bytes (n : nat) (c : bytes) : bytes :=
  match n with O => [] | S k => c ++ rep_bytes k c end.

Fixpoint rle_plain (fuel : nat) (it : bytes) (num pixels : Z) (acc : bytes) : option (bytes * bytes) :=
  if num >=? pixels then (if num =? pixels then Some (acc, it) else None)
  else match fuel with
       | O => None
       | S f =>
           match cpixel it with
           | None => None
           | Some (c, r1) =>
               match rle_len r1 0 with
               | None => None
               | Some (n, r2) => rle_plain f r2 (num + n) pixels (acc ++ rep_bytes (Z.to_nat n) c)
               end
           end
       end.

Fixpoint rle_palette (fuel : nat) (pal : list bytes) (it : bytes) (num pixels : Z) (acc : bytes)
  : option (bytes * bytes) :=
  if num >=? pixels then (if num =? pixels then Some (acc, it) else None)
  else match fuel with
       | O => None
       | S f =>
           match it with
           | [] => None
           | idx :: r1 =>
               if negb (Z.land idx 128 =? 0) then
                 match nth_error pal (Z.to_nat (Z.land idx 127)), rle_len r1 0 with
                 | Some c, Some (n, r2) => rle_palette f pal r2 (num + n) pixels (acc ++ rep_bytes (Z.to_nat n) c)
                 | _, _ => None
                 end
               else
                 match nth_error pal (Z.to_nat idx) with
                 | Some c => rle_palette f pal r1 (num + 1) pixels (acc ++ c)
                 | None => None
                 end
           end
       end.

(* the indices of one packed byte, most significant first: [bits] per index *)
Definition byte_indices (bits : Z) (b : Z) : list Z :=
  if bits =? 1 then map (fun n => Z.land (Z.shiftr b (7 - n)) 1) [0; 1; 2; 3; 4; 5; 6; 7]
  else if bits =? 2 then map (fun n => Z.land (Z.shiftr b (6 - n)) 3) [0; 2; 4; 6]
  else map (fun n => Z.land (Z.shiftr b (4 - n)) 15) [0; 4].

(* take indices of one byte until [left] pixels are done *)
Fixpoint use_indices (pal : list bytes) (idxs : list Z) (left : Z) (acc : bytes) : option (bytes * Z) :=
  match idxs with
  | [] => Some (acc, left)
  | i :: r =>
      match nth_error pal (Z.to_nat i) with
      | None => None
      | Some c => if left - 1 =? 0 then Some (acc ++ c, 0) else use_indices pal r (left - 1) (acc ++ c)
      end
  end.

(* _zrle_next_bit / dibit / nibble over the whole tile as ONE bit string (as the code does) *)
Fixpoint packed (pal : list bytes) (bits : Z) (it : bytes) (left : Z) (acc : bytes) : option (bytes * bytes) :=
  match it with
  | [] => None
  | b :: r =>
      match use_indices pal (byte_indices bits b) left acc with
      | None => None
      | Some (acc', left') => if left' =? 0 then Some (acc', r) else packed pal bits r left' acc'
      end
  end.

Fixpoint raw_cpixels (n : nat) (it : bytes) (acc : bytes) : option (bytes * bytes) :=
  match n with
  | O => Some (acc, it)
  | S k => match cpixel it with Some (c, r) => raw_cpixels k r (acc ++ c) | None => None end
  end.

Fixpoint zrle_tiles (fuel : nat) (s : st) (it : bytes) (x y w h tx ty : Z) : res :=
  match fuel with
  | O => Raise []
  | S f =>
      match it with
      | [] => do_connection s
      | sub :: it1 =>
          let tw := if x + w - tx <? 64 then x + w - tx else 64 in
          let th := if y + h - ty <? 64 then y + h - ty else 64 in
          let pixels := tw * th in
          let psize := Z.land sub 127 in
          let next (it' : bytes) : res :=
            let tx1 := tx + 64 in
            let '(tx2, ty2) := if tx1 >=? x + w then (x, ty + 64) else (tx1, ty) in
            zrle_tiles f s it' x y w h tx2 ty2 in
          if negb (Z.land sub 128 =? 0) then
            if psize =? 0 then
              match rle_plain (List.length it1) it1 0 pixels [] with
              | Some (data, it2) => upd s tx ty tw th data (next it2)
              | None => Raise []
              end
            else
              match cpixels (Z.to_nat psize) it1 with
              | None => Raise []
              | Some (pal, it2) =>
                  match rle_palette (List.length it2) pal it2 0 pixels [] with
                  | Some (data, it3) => upd s tx ty tw th data (next it3)
                  | None => Raise []
                  end
              end
          else if psize =? 0 then
            match raw_cpixels (Z.to_nat pixels) it1 [] with
            | Some (data, it2) => upd s tx ty tw th data (next it2)
            | None => Raise []
            end
          else if psize =? 1 then
            match cpixel it1 with
            | Some (c, it2) => fill s tx ty tw th (Some c) (next it2)
            | None => Raise []
            end
          else if 16 <? psize then Raise []
          else
            match cpixels (Z.to_nat psize) it1 with
            | None => Raise []
            | Some (pal, it2) =>
                if pixels <=? 0 then Raise []       (* the bit reader never reaches its count *)
                else
                  let bits := if psize =? 2 then 1 else if psize <=? 4 then 2 else 4 in
                  match packed pal bits it2 pixels [] with
                  | Some (data, it3) => upd s tx ty tw th data (next it3)
                  | None => Raise []
                  end
            end
      end
  end.

(** ---- the handlers ---- *)

Definition max_common (types : list Z) (supported : list Z) : option Z :=
  fold_left (fun acc t => if mem_Z t supported then
                            match acc with Some m => Some (Z.max m t) | None => Some t end
                          else acc) types None.

Definition AUTH_FAILED_MSG : bytes := text_of_ascii "authentication failed"%string.
Definition TOO_MANY_MSG : bytes := text_of_ascii "too many tries to log in"%string.

Definition step (s : st) (p : pend) (b : bytes) : res :=
  match p with
  | PNumSec =>
      match unpackZ fmt_rfb_RFBClient_handleNumberSecurityTypes_0 b with
      | Some [n] => if n =? 0 then ok s PConnFailed [] else ok s (PSecTypes n) []
      | _ => Raise []
      end
  | PSecTypes _ =>
      match unpackZ (fmt_rfb_RFBClient_handleSecurityTypes_0 (len b)) b with
      | None => Raise []
      | Some types =>
          match max_common types SUPPORTED_AUTHS with
          | None => ok_stay s [ELose]
          | Some sec =>
              match pack fmt_rfb_RFBClient_handleSecurityTypes_1 [VI sec] with
              | None => Raise []
              | Some wb =>
                  if sec =? AUTH_NONE then
                    (if lt_ver (ver s) (3, 8) then prepend [EWrite wb] (client_init s)
                     else ok s PAuthResult [EWrite wb])
                  else if sec =? AUTH_VNC_AUTHENTICATION then ok s PVNCAuth [EWrite wb]
                  else if sec =? AUTH_DIFFIE_HELLMAN then ok s PDHAuth [EWrite wb]
                  else ok_stay s [EWrite wb]
              end
          end
      end
  | PAuth =>
      match unpackZ fmt_rfb_RFBClient_handleAuth_0 b with
      | Some [a] =>
          if a =? AUTH_INVALID then ok s PConnFailed []
          else if a =? AUTH_NONE then client_init s
          else if a =? AUTH_VNC_AUTHENTICATION then ok s PVNCAuth []
          else ok_stay s [ELose]
      | _ => Raise []
      end
  | PConnFailed =>
      match unpackZ fmt_rfb_RFBClient_handleConnFailed_0 b with
      | Some [n] => if n =? 0 then ok_stay s [ELose] else ok s (PConnMsg n) []
      | _ => Raise []
      end
  | PConnMsg _ => ok_stay s [ELose]
  | PVNCAuth => request_password (s <| challenge := b |>)
  | PDHAuth =>
      match unpackZ fmt_rfb_RFBClient_handleDHAuth_0 b with
      | Some [g; k] => ok (s <| dh_gen := g |> <| dh_keylen := k |>) (PDHKey k) []
      | _ => Raise []
      end
  | PDHKey _ => ok (s <| dh_mod := b |>) (PDHCert (dh_keylen s)) []
  | PDHCert _ =>
      let '(s1, e1) := match username s with
                       | Some _ => (s, [])
                       | None => (s <| username := Some (c_prompt_user (cf s)) |>, [EPrompt])
                       end in
      let '(s2, e2) := match password s1 with
                       | Some _ => (s1, [])
                       | None => (s1 <| password := Some (c_prompt_pw (cf s1)) |>, [EPrompt])
                       end in
      match username s2, password s2 with
      | Some u, Some pw =>
          match ard_parts u pw (c_urandom (cf s2)) (dh_gen s2) (dh_keylen s2) (dh_mod s2) b with
          | Some (plain, shared, key) => ok s2 PAuthResult (e1 ++ e2 ++ [EWriteARD plain shared key])
          | None => Raise (e1 ++ e2)
          end
      | _, _ => Raise (e1 ++ e2)
      end
  | PAuthResult =>
      match unpackZ fmt_rfb_RFBClient_handleVNCAuthResult_0 b with
      | Some [r] =>
          if r =? 0 then client_init s
          else if r =? 1 then
            (if lt_ver (ver s) (3, 8) then ok_stay s [EAuthFailed AUTH_FAILED_MSG; ELose] else ok s PAuthFailed [])
          else if r =? 2 then
            (if lt_ver (ver s) (3, 8) then ok_stay s [EAuthFailed TOO_MANY_MSG; ELose] else ok s PAuthFailed [])
          else ok_stay s [ELose]
      | _ => Raise []
      end
  | PAuthFailed =>
      match unpackZ fmt_rfb_RFBClient_handleAuthFailed_0 b with
      | Some [n] => if n =? 0 then ok_stay s [EAuthFailed []; ELose] else ok s (PAuthFailedMsg n) []
      | _ => Raise []
      end
  | PAuthFailedMsg _ => ok_stay s [EAuthFailed b; ELose]
  | PServerInit =>
      match unpack fmt_rfb_RFBClient_handleServerInit_0 b with
      | Some [VI w; VI h; VS pfb; VI namelen] =>
          match pf_from_bytes pfb with
          | Some p => ok (s <| width := w |> <| height := h |> <| pf := p |>) (PServerName namelen) []
          | None => Raise []
          end
      | _ => Raise []
      end
  | PServerName _ =>
      match connection_made s with
      | (s', Some es) => ok s' PConnection es
      | (_, None) => Raise [EMade]
      end
  | PConnection =>
      match unpackZ fmt_rfb_RFBClient_handleConnection_0 b with
      | Some [m] =>
          if m =? S2C_FRAMEBUFFER_UPDATE then ok s PFBU []
          else if m =? S2C_SET_COLOUR_MAP_ENTRIES then ok s PColourMap []
          else if m =? S2C_BELL then ok s PConnection [EBell]
          else if m =? S2C_SERVER_CUT_TEXT then ok s PCutText []
          else ok_stay s [ELose]
      | _ => Raise []
      end
  | PFBU =>
      match unpackZ fmt_rfb_RFBClient_handleFramebufferUpdate_0 b with
      | Some [n] => prepend [EBegin] (do_connection (s <| rects := n |> <| rectpos := [] |>))
      | _ => Raise []
      end
  | PRect =>
      match unpackZ fmt_rfb_RFBClient_handleRectangle_0 b with
      | Some [x; y; w; h; enc] =>
          let s0 := if enc =? ENC_PSEUDO_LAST_RECT then s <| rects := 0 |> else s in
          if rects s0 =? 0 then do_connection s0
          else
            let s1 := s0 <| rects := rects s0 - 1 |> <| rectpos := rectpos s0 ++ [(x, y, w, h)] |> in
            if enc =? ENC_COPY_RECTANGLE then ok s1 (PCopy x y w h) []
            else if enc =? ENC_RAW then ok s1 (PRaw (w * h * bypp s1) x y w h) []
            else if enc =? ENC_HEXTILE then hex_first s1 x y w h
            else if enc =? ENC_CORRE then ok s1 (PCoRRE (4 + bypp s1) x y w h) []
            else if enc =? ENC_RRE then ok s1 (PRRE (4 + bypp s1) x y w h) []
            else if enc =? ENC_ZRLE then ok s1 (PZRLE x y w h) []
            else if enc =? ENC_PSEUDO_CURSOR then
              ok s1 (PCursor (w * h * bypp s1 + ((w + 7) / 8) * h) x y w h) []
            else if enc =? ENC_PSEUDO_DESKTOP_SIZE then
              let s2 := s1 <| width := w |> <| height := h |> in
              prepend [EDesktopSize w h] (do_connection s2)
            else if enc =? ENC_PSEUDO_QEMU_EXTENDED_KEY_EVENT then
              do_connection (s1 <| qemu_neg := true |> <| rectpos := removelast (rectpos s1) |>)
            else ok_stay s1 [ELose]
      | _ => Raise []
      end
  | PRaw _ x y w h => upd s x y w h b (do_connection s)
  | PCopy x y w h =>
      match unpackZ fmt_rfb_RFBClient_handleDecodeCopyrect_0 b with
      | Some [sx; sy] => prepend [ECopy sx sy x y w h] (do_connection s)
      | _ => Raise []
      end
  | PRRE _ x y w h =>
      match take 4 b with
      | Some (hd4, color) =>
          match unpackZ fmt_rfb_RFBClient_handleDecodeRRE_0 hd4 with
          | Some [n] =>
              fill s x y w h (Some color)
                   (if n =? 0 then do_connection s else ok s (PRRESub ((8 + bypp s) * n) x y) [])
          | _ => Raise []
          end
      | None => Raise []
      end
  | PRRESub _ x y =>
      match subrects (List.length b) (fmt_rfb_RFBClient_handleRRESubRectangles_0 (bypp s)) (bypp s + 8) b x y with
      | Some l => fills s l (do_connection s)
      | None => Raise []
      end
  | PCoRRE _ x y w h =>
      match take 4 b with
      | Some (hd4, color) =>
          match unpackZ fmt_rfb_RFBClient_handleDecodeCORRE_0 hd4 with
          | Some [n] =>
              fill s x y w h (Some color)
                   (if n =? 0 then do_connection s else ok s (PCoRRESub ((4 + bypp s) * n) x y) [])
          | _ => Raise []
          end
      | None => Raise []
      end
  | PCoRRESub _ x y =>
      match subrects (List.length b) (fmt_rfb_RFBClient_handleDecodeCORRERectangles_0 (bypp s)) (bypp s + 4) b x y with
      | Some l => fills s l (do_connection s)
      | None => Raise []
      end
  | PHextile bg fg x y w h tx ty =>
      let sub := u1 b in
      let tw := if x + w - tx <? 16 then x + w - tx else 16 in
      let th := if y + h - ty <? 16 then y + h - ty else 16 in
      if has sub HEX_RAW then ok s (PHexRaw (tw * th * bypp s) bg fg x y w h tx ty tw th) []
      else
        let nb := (if has sub HEX_BACKGROUND_SPECIFIED then bypp s else 0)
                  + (if has sub HEX_FOREGROUND_SPECIFIED then bypp s else 0)
                  + (if has sub HEX_ANY_SUBRECTS then 1 else 0) in
        if negb (nb =? 0) then ok s (PHexSub nb sub bg fg x y w h tx ty tw th) []
        else fill s tx ty tw th bg (hex_next s bg fg x y w h tx ty)
  | PHexRaw _ bg fg x y w h tx ty tw th => upd s tx ty tw th b (hex_next s bg fg x y w h tx ty)
  | PHexSub _ sub bg fg x y w h tx ty tw th =>
      let '(bg1, pos1) := if has sub HEX_BACKGROUND_SPECIFIED then (Some (firstn (Z.to_nat (bypp s)) b), bypp s)
                          else (bg, 0) in
      let '(fg1, pos2) := if has sub HEX_FOREGROUND_SPECIFIED
                          then (Some (firstn (Z.to_nat (bypp s)) (skipn (Z.to_nat pos1) b)), pos1 + bypp s)
                          else (fg, pos1) in
      let n := if has sub HEX_ANY_SUBRECTS then nth (Z.to_nat pos2) b 0 else 0 in
      fill s tx ty tw th bg1
           (if negb (n =? 0) then
              (if has sub HEX_SUBRECTS_COLORED
               then ok s (PHexCol ((bypp s + 2) * n) bg1 fg1 x y w h tx ty tw th) []
               else ok s (PHexFG (2 * n) bg1 fg1 x y w h tx ty tw th) [])
            else hex_next s bg1 fg1 x y w h tx ty)
  | PHexCol _ bg fg x y w h tx ty tw th =>
      match hex_subrects_col (List.length b) b (bypp s) tx ty fg with
      | Some (l, last) => fills s l (hex_next s bg last x y w h tx ty)
      | None => Raise []
      end
  | PHexFG _ bg fg x y w h tx ty tw th =>
      match hex_subrects_fg b tx ty with
      | Some l =>
          match fg with
          | None => (match l with [] => hex_next s bg fg x y w h tx ty | _ => Raise [] end)
          | Some c => fills s (map (fun r => let '(a, b0, c0, d) := r in (a, b0, c0, d, c)) l)
                            (hex_next s bg fg x y w h tx ty)
          end
      | None => Raise []
      end
  | PZRLE x y w h =>
      match unpackZ fmt_rfb_RFBClient_handleDecodeZRLE_0 b with
      | Some [n] => ok s (PZRLEData n x y w h) []
      | _ => Raise []
      end
  | PZRLEData _ x y w h =>
      match ztape s with
      | Some data :: rest =>
          zrle_tiles (S (List.length data)) (s <| ztape := rest |>) data x y w h x y
      | _ => Raise []     (* zlib.error (or the harness supplied no tape entry) *)
      end
  | PCursor _ x y w h =>
      let split := Z.to_nat (w * h * bypp s) in
      prepend [ECursor x y w h (firstn split b) (skipn split b)] (do_connection s)
  | PColourMap =>
      match unpackZ fmt_rfb_RFBClient_handleColourMapEntries_0 b with
      | Some [first; n] => ok s (PColourMapVal (6 * n) first) []
      | _ => Raise []
      end
  | PColourMapVal _ first => ok s PConnection [EColorMap first (triples b)]
  | PCutText =>
      match unpackZ fmt_rfb_RFBClient_handleServerCutText_0 b with
      | Some [n] => ok s (PCutTextVal n) []
      | _ => Raise []
      end
  | PCutTextVal _ => ok s PConnection [ECutText b]
  end.

(** ---- _handleInitial and the whole client ---- *)

Inductive client :=
| CInitial (s : st) (buf : bytes)
| CRun (o : outcome st pend).

Definition translate_digits (b : bytes) : bytes := map (fun c => nth (Z.to_nat c) HEADER_TRANSLATE c) b.

Definition digits3 (a b c : Z) : Z := (a - 48) * 100 + (b - 48) * 10 + (c - 48).

Definition best_version (vs : Z * Z) : option (Z * Z) :=
  fold_left (fun acc v => if le_ver v vs then
                            match acc with Some m => if lt_ver m v then Some v else Some m | None => Some v end
                          else acc) SUPPORTED_SERVER_VERSIONS None.

Definition dec3 (n : Z) : bytes := [48 + (n / 100) mod 10; 48 + (n / 10) mod 10; 48 + n mod 10].

Definition banner_of (v : Z * Z) : bytes :=
  text_of_ascii "RFB "%string ++ dec3 (fst v) ++ [46] ++ dec3 (snd v) ++ [10].

Inductive init_res :=
| IWait                          (* prefix of a banner: nothing happens *)
| ILose                          (* invalid initial response *)
| IRaise                         (* no supported version not above the server's: max() of empty *)
| IGo (s : st) (p : pend) (rest : bytes) (es : list ev).

Definition handle_initial (s : st) (buf : bytes) : init_res :=
  let head := firstn 12 buf in
  let norm := translate_digits head in
  if text_eqb norm HEADER then
    match head with
    | [_; _; _; _; a1; a2; a3; _; b1; b2; b3; _] =>
        let vs := (digits3 a1 a2 a3, digits3 b1 b2 b3) in
        match best_version vs with
        | None => IRaise
        | Some v0 =>
            let v := if lt_ver MAX_CLIENT_VERSION v0 then MAX_CLIENT_VERSION else v0 in
            let s' := s <| ver := v |> <| ver_server := vs |> in
            IGo s' (if lt_ver v (3, 7) then PAuth else PNumSec) (skipn 12 buf) [EWrite (banner_of v)]
        end
    | _ => IWait
    end
  else if starts_with norm HEADER then IWait
  else ILose.

Definition vm_match (d : bytes) : bool :=
  (len d =? 20) &&
  (nth 0 d 0 =? nth 0 VMWARE_SINGLE_PIXEL_UPDATE 0) &&
  forallb (fun i => nth i d 0 =? nth i VMWARE_SINGLE_PIXEL_UPDATE 0) (seq 2 14).

(** one dataReceived call; the [nat] counts handler invocations *)
Definition feed_plain (fuel : nat) (c : client) (d : bytes) : option (list ev * client * nat) :=
  match c with
  | CInitial s buf =>
      let buf' := buf ++ d in
      match handle_initial s buf' with
      | IWait => Some ([], CInitial s buf', O)
      | ILose => Some ([ELose], CInitial s buf', O)
      | IRaise => Some ([], CRun Crashed, O)
      | IGo s' p rest es =>
          match drain_fuel st pend ev need step fuel s' p rest with
          | Some (es2, o, n) => Some (es ++ es2, CRun o, n)
          | None => None
          end
      end
  | CRun (Idle s p buf) =>
      match drain_fuel st pend ev need step fuel s p (buf ++ d) with
      | Some (es, o, n) => Some (es, CRun o, n)
      | None => None
      end
  | CRun Crashed => Some ([], c, O)
  end.

(* client.VMWareClient.dataReceived *)
Definition feed_client (fuel : nat) (c : client) (d : bytes) : option (list ev * client * nat) :=
  let variant := match c with
                 | CInitial s _ => c_variant (cf s)
                 | CRun (Idle s _ _) => c_variant (cf s)
                 | CRun Crashed => 0
                 end in
  if (variant =? 3) && vm_match d then
    match c with
    | CRun (Idle s p buf) =>
        if width s <? 0 then Some ([], CRun Crashed, O)          (* AttributeError: no width yet *)
        else match framebufferUpdateRequest 0 0 0 (width s) (height s) with
             | Some b =>
                 match feed_plain fuel c [] with
                 | Some (es, c', n) => Some (EWrite b :: es, c', n)
                 | None => None
                 end
             | None => Some ([], CRun Crashed, O)
             end
    | CInitial _ _ => Some ([], CRun Crashed, O)
    | CRun Crashed => Some ([], c, O)
    end
  else feed_plain fuel c d.

Fixpoint run_client (fuel : nat) (c : client) (chunks : list bytes) : option (list ev * client * nat) :=
  match chunks with
  | [] => Some ([], c, O)
  | d :: ds =>
      match feed_client fuel c d with
      | None => None
      | Some (es, c1, n1) =>
          match run_client fuel c1 ds with
          | Some (es2, c2, n2) => Some (es ++ es2, c2, (n1 + n2)%nat)
          | None => None
          end
      end
  end.

(** ---- operations the application performs between dataReceived calls ---- *)

(* VNCDoToolClient.refreshScreen / captureScreen / captureRegion: remember the waiter and ask
   for the whole desktop as last announced *)
Definition op_capture (c : client) (inc : Z) : list ev * client :=
  match c with
  | CRun (Idle s p buf) =>
      if width s <? 0 then ([], CRun Crashed)        (* AttributeError: no ServerInit yet *)
      else match framebufferUpdateRequest inc 0 0 (width s) (height s) with
           | Some b => ([EWrite b], CRun (Idle (s <| waiter := true |>) p buf))
           | None => ([], CRun Crashed)
           end
  | CInitial _ _ => ([], CRun Crashed)
  | CRun Crashed => ([], c)
  end.

Inductive item := IChunk (d : bytes) | ICapture (inc : Z).

Fixpoint run_script (fuel : nat) (c : client) (items : list item) : option (list ev * client * nat) :=
  match items with
  | [] => Some ([], c, O)
  | it :: r =>
      let first := match it with
                   | IChunk d => feed_client fuel c d
                   | ICapture inc => let '(es, c') := op_capture c inc in Some (es, c', O)
                   end in
      match first with
      | None => None
      | Some (es, c1, n1) =>
          match run_script fuel c1 r with
          | Some (es2, c2, n2) => Some (es ++ es2, c2, (n1 + n2)%nat)
          | None => None
          end
      end
  end.
