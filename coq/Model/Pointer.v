(** client.VNCDoToolClient pointer operations: mouseMove / mouseDown / mouseUp / mousePress /
    mouseDrag.  State = (x, y, buttons) exactly as the three attributes of the client. *)
From Coq Require Import ZArith List Bool.
From VD Require Import Base.Bytes Model.ClientMsgs.
Import ListNotations.
Open Scope Z_scope.

Record ptr := mk_ptr { px : Z; py : Z; pbuttons : Z }.

Definition ptr0 : ptr := mk_ptr 0 0 0.

(* result: new attribute values, and the bytes written ([None]: the call raised) *)
(* the event is written first; the attributes are updated only when that did not raise *)
Definition mouseMove (s : ptr) (x y : Z) : ptr * option bytes :=
  match pointerEvent x y (pbuttons s) with
  | Some w => (mk_ptr x y (pbuttons s), Some w)
  | None => (s, None)
  end.

Definition mouseDown (s : ptr) (b : Z) : ptr * option bytes :=
  if b - 1 <? 0 then (s, None)                      (* negative shift count *)
  else
    let m := Z.lor (pbuttons s) (Z.shiftl 1 (b - 1)) in
    match pointerEvent (px s) (py s) m with
    | Some w => (mk_ptr (px s) (py s) m, Some w)
    | None => (s, None)
    end.

Definition mouseUp (s : ptr) (b : Z) : ptr * option bytes :=
  if b - 1 <? 0 then (s, None)
  else
    let m := Z.land (pbuttons s) (Z.lnot (Z.shiftl 1 (b - 1))) in
    let s' := mk_ptr (px s) (py s) m in
    (s', pointerEvent (px s) (py s) m).

Definition mousePress (s : ptr) (b : Z) : ptr * option bytes :=
  match mouseDown s b with
  | (s1, Some w1) =>
      match mouseUp s1 b with
      | (s2, Some w2) => (s2, Some (w1 ++ w2))
      | (s2, None) => (s2, None)
      end
  | r => r
  end.

(** the intermediate positions of mouseDrag: s = 0, step, 2*step, ... < dmax *)
Fixpoint drag_steps (fuel : nat) (s step dmax : Z) : list Z :=
  match fuel with
  | O => []
  | S f => if s <? dmax then s :: drag_steps f (s + step) step dmax else []
  end.

Definition drag_points (ox oy x y step : Z) : list (Z * Z) :=
  let dx := x - ox in
  let dy := y - oy in
  let dmax := Z.max (Z.abs dx) (Z.abs dy) in
  map (fun s => (ox + dx * s / dmax, oy + dy * s / dmax))
      (if step <=? 0 then [] else drag_steps (Z.to_nat dmax) 0 step dmax)
  ++ [(x, y)].

(* sequence of moves; stops at the first one that raises *)
Fixpoint moves (s : ptr) (pts : list (Z * Z)) : ptr * option (list bytes) :=
  match pts with
  | [] => (s, Some [])
  | (x, y) :: r =>
      match mouseMove s x y with
      | (s1, Some w) => match moves s1 r with
                        | (s2, Some ws) => (s2, Some (w :: ws))
                        | (s2, None) => (s2, None)
                        end
      | (s1, None) => (s1, None)
      end
  end.

(** mouseDrag: one write per move (a 0.2 s pause follows each intermediate move);
    [step = 0] raises ValueError (range() arg 3 must not be zero) before any move. *)
Definition mouseDrag (s : ptr) (x y step : Z) : ptr * option (list bytes) :=
  if step =? 0 then (s, None)
  else moves s (drag_points (px s) (py s) x y step).
