(** The library operations of VNCDoToolClient that write to the transport, as one
    interpreter over an operation list (used by C04, C05, C19). *)
From Coq Require Import ZArith List Bool.
From VD Require Import Base.Bytes Base.PixFmt Model.ClientMsgs Model.Keys Model.Pointer.
Import ListNotations.
Open Scope Z_scope.

Record cstate := mk_cstate {
  cs_ptr : ptr;
  cs_width : Z; cs_height : Z;     (* RFBClient.width / height *)
  cs_force_caps : bool;            (* factory.force_caps *)
  cs_has_screen : bool }.          (* self.screen is not None *)

Inductive op :=
| OKeyPress (isupper : bool) (k : list Z)
| OKeyDown (isupper : bool) (k : list Z)
| OKeyUp (isupper : bool) (k : list Z)
| OMove (x y : Z)
| ODown (b : Z) | OUp (b : Z) | OPress (b : Z)
| ODrag (x y step : Z)
| OPaste (text : list Z)
| ORefresh (inc : Z)                      (* refreshScreen / captureScreen / captureRegion *)
| OExpect                                 (* expectScreen / expectRegion: first request *)
| OFbur (x y : Z) (w h : option Z) (inc : Z)   (* framebufferUpdateRequest(...) *)
| OSetPF (p : pixfmt)
| OSetEnc (l : list Z).

Definition with_ptr (s : cstate) (p : ptr) : cstate :=
  mk_cstate p (cs_width s) (cs_height s) (cs_force_caps s) (cs_has_screen s).

Definition fbur (s : cstate) (x y : Z) (w h : option Z) (inc : Z) : option bytes :=
  let w' := match w with Some v => v | None => cs_width s - x end in
  let h' := match h with Some v => v | None => cs_height s - y end in
  framebufferUpdateRequest inc x y w' h'.

Definition concat_opt (r : option (list bytes)) : option bytes :=
  match r with Some l => Some (concat l) | None => None end.

(** new state, bytes written ([None] = the operation raised) *)
Definition run_op (s : cstate) (o : op) : cstate * option bytes :=
  match o with
  | OKeyPress u k => (s, keyPress (cs_force_caps s) u k)
  | OKeyDown u k => (s, keyDown (cs_force_caps s) u k)
  | OKeyUp u k => (s, keyUp (cs_force_caps s) u k)
  | OMove x y => let '(p, w) := mouseMove (cs_ptr s) x y in (with_ptr s p, w)
  | ODown b => let '(p, w) := mouseDown (cs_ptr s) b in (with_ptr s p, w)
  | OUp b => let '(p, w) := mouseUp (cs_ptr s) b in (with_ptr s p, w)
  | OPress b => let '(p, w) := mousePress (cs_ptr s) b in (with_ptr s p, w)
  | ODrag x y st => let '(p, w) := mouseDrag (cs_ptr s) x y st in (with_ptr s p, concat_opt w)
  | OPaste t => (s, clientCutText t)
  | ORefresh inc => (s, fbur s 0 0 None None inc)
  | OExpect => (s, fbur s 0 0 None None (if cs_has_screen s then 1 else 0))
  | OFbur x y w h inc => (s, fbur s x y w h inc)
  | OSetPF p => (s, setPixelFormat p)
  | OSetEnc l => (s, setEncodings l)
  end.

(** run a list of operations; a raising operation contributes nothing and the run goes on
    (each call is separate for the caller) *)
Fixpoint run_ops (s : cstate) (ops : list op) : cstate * list (option bytes) :=
  match ops with
  | [] => (s, [])
  | o :: r => let '(s1, w) := run_op s o in
              let '(s2, ws) := run_ops s1 r in (s2, w :: ws)
  end.
