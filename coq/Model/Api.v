(** api.ThreadedVNCClientProxy (C11): an application thread, the reactor thread, the factory
    Deferred that serialises the operations and the queue that hands results back, as a
    transition system over scheduler choices. *)
From Coq Require Import ZArith List Bool.
Import ListNotations.
Open Scope Z_scope.

(** what operation #i does when it runs on the reactor: its result (negative = the error it raises),
    produced at once or later (a Deferred: pause, capture, expect, drag) *)
Inductive okind := Sync (r : Z) | Async (r : Z).
Definition result_of (k : okind) : Z := match k with Sync r | Async r => r end.

Definition NOT_CONNECTED : Z := -1000.      (* the Failure of a connection that could not be established *)

Inductive conn := CPending | CUp | CFailed.

Record astate := mk_a {
  a_conn : conn;
  a_cbs : list nat;            (* callbacks appended to factory.deferred, not yet run *)
  a_running : option nat;      (* the operation whose Deferred is pending: the chain is paused *)
  a_thunks : list nat;         (* reactor.callFromThread FIFO: addCallbacks requests *)
  a_queue : list Z;            (* ThreadedVNCClientProxy.queue *)
  a_next : nat;                (* the call the application thread is at *)
  a_waiting : bool;            (* ... blocked in queue.get() *)
  a_delivered : list (nat * Z) (* what each call returned / raised *) }.

Definition a0 : astate := mk_a CPending [] None [] [] 0 false [].

Inductive aev :=
| AppIssue        (* the application thread calls a method: callFromThread(addCallbacks ...), then blocks *)
| AppTake         (* queue.get() returns *)
| ReactorThunk    (* the reactor runs the oldest callFromThread thunk *)
| ConnUp | ConnFail
| OpComplete.     (* the pending operation's Deferred fires *)

Section Api.
  Variable ops : nat -> okind.
  Variable ncalls : nat.

  (* run the chain as far as it goes *)
  Fixpoint drain (fuel : nat) (s : astate) : astate :=
    match fuel with
    | O => s
    | S f =>
        match a_conn s, a_running s, a_cbs s with
        | CPending, _, _ | _, Some _, _ | _, _, [] => s
        | CUp, None, i :: rest =>
            match ops i with
            | Sync r => drain f (mk_a CUp rest None (a_thunks s) (a_queue s ++ [r]) (a_next s) (a_waiting s) (a_delivered s))
            | Async _ => mk_a CUp rest (Some i) (a_thunks s) (a_queue s) (a_next s) (a_waiting s) (a_delivered s)
            end
        | CFailed, None, i :: rest =>
            drain f (mk_a CFailed rest None (a_thunks s) (a_queue s ++ [NOT_CONNECTED]) (a_next s) (a_waiting s) (a_delivered s))
        end
    end.

  Definition drained (s : astate) : astate := drain (S (length (a_cbs s))) s.

  Definition astep (s : astate) (e : aev) : astate :=
    match e with
    | AppIssue =>
        if negb (a_waiting s) && Nat.ltb (a_next s) ncalls
        then mk_a (a_conn s) (a_cbs s) (a_running s) (a_thunks s ++ [a_next s]) (a_queue s) (a_next s) true (a_delivered s)
        else s
    | AppTake =>
        match a_waiting s, a_queue s with
        | true, r :: q => mk_a (a_conn s) (a_cbs s) (a_running s) (a_thunks s) q (S (a_next s)) false (a_delivered s ++ [(a_next s, r)])
        | _, _ => s
        end
    | ReactorThunk =>
        match a_thunks s with
        | i :: rest => drained (mk_a (a_conn s) (a_cbs s ++ [i]) (a_running s) rest (a_queue s) (a_next s) (a_waiting s) (a_delivered s))
        | [] => s
        end
    | ConnUp =>
        match a_conn s with
        | CPending => drained (mk_a CUp (a_cbs s) (a_running s) (a_thunks s) (a_queue s) (a_next s) (a_waiting s) (a_delivered s))
        | _ => s
        end
    | ConnFail =>
        match a_conn s with
        | CPending => drained (mk_a CFailed (a_cbs s) (a_running s) (a_thunks s) (a_queue s) (a_next s) (a_waiting s) (a_delivered s))
        | _ => s
        end
    | OpComplete =>
        match a_running s with
        | Some i => drained (mk_a (a_conn s) (a_cbs s) None (a_thunks s) (a_queue s ++ [result_of (ops i)]) (a_next s) (a_waiting s) (a_delivered s))
        | None => s
        end
    end.

  Definition arun (evs : list aev) : astate := fold_left astep evs a0.

  (** what call #i must get: its own operation's outcome, or the connection failure *)
  Definition expected (c : conn) (i : nat) : Z :=
    match c with CFailed => NOT_CONNECTED | _ => result_of (ops i) end.
End Api.
