(** rfb._vnc_des (the key schedule quirk of VNC authentication) and the numeric part of
    Apple Remote Desktop (Diffie-Hellman) authentication. *)
From Coq Require Import ZArith List Bool.
From VD Require Import Base.Bytes Base.Text.
Import ListNotations.
Open Scope Z_scope.

(* f"{password:\0<8.8}": truncate to 8 characters, pad with NUL to 8 *)
Fixpoint pad_trunc (n : nat) (l : list Z) : list Z :=
  match n with
  | O => []
  | S k => match l with [] => 0 :: pad_trunc k [] | c :: r => c :: pad_trunc k r end
  end.

(* sum((128 >> i) if (k & (1 << i)) else 0 for i in range(8)) *)
Definition rev8_code (k : Z) : Z :=
  fold_right Z.add 0
    (map (fun i => if Z.eqb (Z.land k (Z.shiftl 1 i)) 0 then 0 else Z.shiftr 128 i) [0; 1; 2; 3; 4; 5; 6; 7]).

(** [None]: the password is not ASCII (str.encode("ASCII") raises) *)
Definition vnc_key (pw : list Z) : option bytes :=
  let p8 := pad_trunc 8 pw in
  if forallb (fun c => (0 <=? c) && (c <? 128)) p8 then Some (map rev8_code p8) else None.

(** UTF-8 encoding of a code point list; [None] for surrogates / out of range *)
Definition utf8_1 (c : Z) : option bytes :=
  if c <? 0 then None
  else if c <? 128 then Some [c]
  else if c <? 2048 then Some [192 + c / 64; 128 + c mod 64]
  else if (55296 <=? c) && (c <=? 57343) then None
  else if c <? 65536 then Some [224 + c / 4096; 128 + (c / 64) mod 64; 128 + c mod 64]
  else if c <? 1114112 then Some [240 + c / 262144; 128 + (c / 4096) mod 64; 128 + (c / 64) mod 64; 128 + c mod 64]
  else None.

Fixpoint utf8 (t : list Z) : option bytes :=
  match t with
  | [] => Some []
  | c :: r => match utf8_1 c, utf8 r with Some a, Some b => Some (a ++ b) | _, _ => None end
  end.

(* s.encode("utf-8").ljust(64, b"\0"): pad the encoded bytes with NUL up to 64, never truncate *)
Definition pad64 (t : list Z) : list Z := t ++ repeatZ 0 (64 - length t).

(** modular exponentiation by squaring over the bits of the exponent *)
Fixpoint powmod_pos (b : Z) (e : positive) (m : Z) : Z :=
  match e with
  | xH => b mod m
  | xO e' => let h := powmod_pos b e' m in (h * h) mod m
  | xI e' => let h := powmod_pos b e' m in ((h * h) mod m * b) mod m
  end.
Definition powmod (b e m : Z) : Z :=
  match e with
  | Z0 => 1 mod m
  | Zpos p => powmod_pos b p m
  | Zneg _ => 0
  end.

(** the three byte strings _encryptArd derives: the plaintext user structure, the shared
    secret and the public key, both of exactly keyLen bytes; [None] where the code raises
    (modulus 0, credentials that do not fill whole AES blocks, un-encodable text) *)
Definition ard_parts (user pw : list Z) (urandom : bytes) (g keylen : Z) (modulus serverkey : bytes)
  : option (bytes * bytes * bytes) :=
  match utf8 user, utf8 pw with
  | None, _ | _, None => None
  | Some ub, Some pb =>
      let plain := pad64 ub ++ pad64 pb in
      let s := be_dec urandom in
      let m := be_dec modulus in
      let sk := be_dec serverkey in
      if m =? 0 then None
      else if negb (len plain mod 16 =? 0) then None
      else
        let key := be_enc (Z.to_nat keylen) (powmod g s m) in
        let shared := be_enc (Z.to_nat keylen) (powmod sk s m) in
        Some (plain, shared, key)
  end.
