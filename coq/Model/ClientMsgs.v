(** rfb.RFBClient: client -> server message serialisers (rfb.py, "client -> server messages").
    Each is [pack] applied to the format string found at that call site in the source
    (Gen/Formats.v), so the wire layout is the one the code has now. [None] = the call raises. *)
From Coq Require Import ZArith List Bool.
From VD Require Import Base.Bytes Base.Struct Base.PixFmt Gen.Formats.
Import ListNotations.
Open Scope Z_scope.

Definition pf_vals (p : pixfmt) : list val :=
  [VI (pf_bpp p); VI (pf_depth p); VI (pf_bigendian p); VI (pf_truecolor p);
   VI (pf_rmax p); VI (pf_gmax p); VI (pf_bmax p);
   VI (pf_rshift p); VI (pf_gshift p); VI (pf_bshift p)].

(* PixelFormat.to_bytes *)
Definition pf_to_bytes (p : pixfmt) : option bytes := pack fmt_rfb_PixelFormat_STRUCT (pf_vals p).

(* PixelFormat.from_bytes *)
Definition pf_from_bytes (b : bytes) : option pixfmt :=
  match unpack fmt_rfb_PixelFormat_STRUCT b with
  | Some [VI a; VI b0; VI c; VI d; VI e; VI f; VI g; VI h; VI i; VI j] =>
      Some (mk_pixfmt a b0 c d e f g h i j)
  | _ => None
  end.

Definition setPixelFormat (p : pixfmt) : option bytes :=
  match pf_to_bytes p with
  | Some pb => pack fmt_rfb_RFBClient_setPixelFormat_0 [VI 0; VS pb]
  | None => None
  end.

Fixpoint enc_list (l : list Z) : option bytes :=
  match l with
  | [] => Some []
  | e :: r => match pack fmt_rfb_RFBClient_setEncodings_1 [VI e], enc_list r with
              | Some a, Some b => Some (a ++ b)
              | _, _ => None
              end
  end.

Definition setEncodings (l : list Z) : option bytes :=
  match pack fmt_rfb_RFBClient_setEncodings_0 [VI 2; VI (len l)], enc_list l with
  | Some a, Some b => Some (a ++ b)
  | _, _ => None
  end.

Definition framebufferUpdateRequest (inc x y w h : Z) : option bytes :=
  pack fmt_rfb_RFBClient_framebufferUpdateRequest_0 [VI 3; VI inc; VI x; VI y; VI w; VI h].

Definition keyEvent (key down : Z) : option bytes :=
  pack fmt_rfb_RFBClient_keyEvent_0 [VI 4; VI down; VI key].

Definition pointerEvent (x y mask : Z) : option bytes :=
  pack fmt_rfb_RFBClient_pointerEvent_0 [VI 5; VI mask; VI x; VI y].

(* message.encode("iso-8859-1"): code points above 255 raise *)
Definition latin1 (text : list Z) : option bytes :=
  if forallb (fun c => (0 <=? c) && (c <? 256)) text then Some text else None.

Definition clientCutText (text : list Z) : option bytes :=
  match latin1 text with
  | None => None
  | Some data =>
      match pack fmt_rfb_RFBClient_clientCutText_0 [VI 6; VI (len data)] with
      | Some h => Some (h ++ data)
      | None => None
      end
  end.
