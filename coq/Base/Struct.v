(** The subset of Python's [struct] (network byte order, "!") that vncdotool uses. *)
From Coq Require Import ZArith List Lia Bool.
From VD Require Import Base.Bytes.
Import ListNotations.
Open Scope Z_scope.

Inductive fld :=
| FB          (* B  unsigned char *)
| FH          (* H  unsigned short *)
| FI          (* I / L unsigned 32 *)
| Fi          (* i  signed 32 *)
| FBool       (* ?  *)
| FPad        (* x  *)
| FS (n : Z). (* Ns bytes *)

Inductive val := VI (z : Z) | VS (b : bytes).

Definition fsize (f : fld) : Z :=
  match f with
  | FB | FBool | FPad => 1
  | FH => 2
  | FI | Fi => 4
  | FS n => Z.max 0 n
  end.

Fixpoint size (fmt : list fld) : Z :=
  match fmt with [] => 0 | f :: r => fsize f + size r end.

Definition in_range (lo hi v : Z) : bool := (lo <=? v) && (v <=? hi).

Fixpoint pad_to (n : nat) (b : bytes) : bytes :=
  match n with
  | O => []
  | S k => match b with [] => 0 :: pad_to k [] | x :: r => x :: pad_to k r end
  end.

Definition pack1 (f : fld) (v : val) : option bytes :=
  match f, v with
  | FB, VI z => if in_range 0 255 z then Some [z] else None
  | FH, VI z => if in_range 0 65535 z then Some (be_enc 2 z) else None
  | FI, VI z => if in_range 0 4294967295 z then Some (be_enc 4 z) else None
  | Fi, VI z => if in_range (-2147483648) 2147483647 z then Some (be_enc 4 (of_s32 z)) else None
  | FBool, VI z => Some [if z =? 0 then 0 else 1]
  | FS n, VS b => Some (pad_to (Z.to_nat n) b)
  | _, _ => None
  end.

Fixpoint pack (fmt : list fld) (vals : list val) : option bytes :=
  match fmt with
  | [] => match vals with [] => Some [] | _ => None end
  | FPad :: r => match pack r vals with Some b => Some (0 :: b) | None => None end
  | f :: r =>
      match vals with
      | [] => None
      | v :: vs =>
          match pack1 f v, pack r vs with
          | Some a, Some b => Some (a ++ b)
          | _, _ => None
          end
      end
  end.

Definition unpack1 (f : fld) (x : bytes) : option val :=
  match f with
  | FB | FH | FI => Some (VI (be_dec x))
  | Fi => Some (VI (to_s32 (be_dec x)))
  | FBool => Some (VI (if be_dec x =? 0 then 0 else 1))
  | FPad => None
  | FS _ => Some (VS x)
  end.

(** [unpack fmt b]: [None] models struct.error (wrong length). *)
Fixpoint unpack (fmt : list fld) (b : bytes) : option (list val) :=
  match fmt with
  | [] => match b with [] => Some [] | _ => None end
  | f :: r =>
      match take (fsize f) b with
      | None => None
      | Some (x, rest) =>
          match unpack r rest with
          | None => None
          | Some vs => match unpack1 f x with Some v => Some (v :: vs) | None => Some vs end
          end
      end
  end.

Fixpoint rep_fld (n : nat) (f : fld) : list fld :=
  match n with O => [] | S k => f :: rep_fld k f end.
