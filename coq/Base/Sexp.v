(** The exchange format between the extracted model and the Python harness. *)
From Coq Require Import ZArith List Bool.
From VD Require Import Base.Bytes.
Import ListNotations.
Open Scope Z_scope.

Inductive sexp := I (z : Z) | L (l : list sexp).

Definition sZs (l : list Z) : sexp := L (map I l).
Definition sBool (b : bool) : sexp := I (if b then 1 else 0).
Definition sOpt {A} (f : A -> sexp) (o : option A) : sexp :=
  match o with Some x => L [f x] | None => L [] end.
Definition sErr : sexp := L [I (-1)].

Definition as_Z (s : sexp) : Z := match s with I z => z | L _ => 0 end.
Definition as_bool (s : sexp) : bool := negb (as_Z s =? 0).
Definition as_list (s : sexp) : list sexp := match s with L l => l | I _ => [] end.
Definition as_Zs (s : sexp) : list Z := map as_Z (as_list s).
Definition arg (n : nat) (s : sexp) : sexp := nth n (as_list s) (L []).
