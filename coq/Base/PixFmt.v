(** RFB pixel format record (RFC 6143 §7.4) and the PIL raw modes the client uses. *)
From Coq Require Import ZArith List Bool.
Import ListNotations.
Open Scope Z_scope.

Record pixfmt := mk_pixfmt {
  pf_bpp : Z; pf_depth : Z; pf_bigendian : Z; pf_truecolor : Z;
  pf_rmax : Z; pf_gmax : Z; pf_bmax : Z;
  pf_rshift : Z; pf_gshift : Z; pf_bshift : Z }.

Inductive immode := MRGB | MRGBX | MBGR | MBGRX | MBGR16.

Definition pf_bypp (p : pixfmt) : Z := (7 + pf_bpp p) / 8.

Definition pixfmt_eqb (a b : pixfmt) : bool :=
  (pf_bpp a =? pf_bpp b) && (pf_depth a =? pf_depth b) &&
  (pf_bigendian a =? pf_bigendian b) && (pf_truecolor a =? pf_truecolor b) &&
  (pf_rmax a =? pf_rmax b) && (pf_gmax a =? pf_gmax b) && (pf_bmax a =? pf_bmax b) &&
  (pf_rshift a =? pf_rshift b) && (pf_gshift a =? pf_gshift b) && (pf_bshift a =? pf_bshift b).

Definition immode_eqb (a b : immode) : bool :=
  match a, b with
  | MRGB, MRGB | MRGBX, MRGBX | MBGR, MBGR | MBGRX, MBGRX | MBGR16, MBGR16 => true
  | _, _ => false
  end.

Definition immode_id (m : immode) : Z :=
  match m with MRGB => 0 | MRGBX => 1 | MBGR => 2 | MBGRX => 3 | MBGR16 => 4 end.
