From Coq Require Import ZArith List Lia Bool.
From VD Require Import Base.Bytes.
Import ListNotations.
Open Scope Z_scope.

Lemma len_nonneg {A} (l : list A) : 0 <= len l.
Proof. unfold len; lia. Qed.

Lemma len_app {A} (a b : list A) : len (a ++ b) = len a + len b.
Proof. unfold len; rewrite app_length; lia. Qed.

Lemma len_cons {A} (x : A) l : len (x :: l) = 1 + len l.
Proof. unfold len; cbn [length]; lia. Qed.

Lemma len_nil {A} : len (@nil A) = 0.
Proof. reflexivity. Qed.

Lemma take_le0 {A} n (l : list A) : n <= 0 -> take n l = Some ([], l).
Proof. intros H; destruct l; cbn [take]; destruct (Z.leb_spec n 0); try lia; reflexivity. Qed.

Lemma take_cons {A} n x (l : list A) :
  0 < n -> take n (x :: l) =
           match take (n - 1) l with Some (a, b) => Some (x :: a, b) | None => None end.
Proof. intros H; cbn [take]; destruct (Z.leb_spec n 0); try lia; reflexivity. Qed.

(** [take] of exactly the prefix. *)
Lemma take_app_exact {A} (a b : list A) : take (len a) (a ++ b) = Some (a, b).
Proof.
  induction a as [|x a IH]; cbn [app].
  - apply take_le0; rewrite len_nil; lia.
  - rewrite take_cons by (rewrite len_cons; pose proof (len_nonneg a); lia).
    rewrite len_cons. replace (1 + len a - 1) with (len a) by lia.
    rewrite IH; reflexivity.
Qed.

Lemma take_some_app {A} n (l a b : list A) :
  take n l = Some (a, b) -> l = a ++ b.
Proof.
  revert n a b; induction l as [|x l IH]; intros n a b H; cbn [take] in H.
  - destruct (n <=? 0); inversion H; reflexivity.
  - destruct (n <=? 0); [inversion H; reflexivity|].
    destruct (take (n - 1) l) as [[a' b']|] eqn:E; inversion H; subst.
    cbn [app]; f_equal; eapply IH; eassumption.
Qed.

Lemma take_some_len {A} n (l a b : list A) :
  0 <= n -> take n l = Some (a, b) -> len a = n.
Proof.
  revert n a b; induction l as [|x l IH]; intros n a b Hn H; cbn [take] in H.
  - destruct (Z.leb_spec n 0); inversion H; subst; rewrite len_nil; lia.
  - destruct (Z.leb_spec n 0); [inversion H; subst; rewrite len_nil; lia|].
    destruct (take (n - 1) l) as [[a' b']|] eqn:E; inversion H; subst.
    rewrite len_cons. apply IH in E; lia.
Qed.

Lemma take_none {A} n (l : list A) : take n l = None <-> len l < n.
Proof.
  revert n; induction l as [|x l IH]; intros n; cbn [take].
  - destruct (Z.leb_spec n 0); rewrite ?len_nil; split; intros; try discriminate; try lia; reflexivity.
  - destruct (Z.leb_spec n 0); rewrite len_cons.
    + pose proof (len_nonneg l); split; intros; try discriminate; lia.
    + destruct (take (n - 1) l) as [[a b]|] eqn:E.
      * split; [discriminate|]. intros Hlt.
        assert (take (n - 1) l = None) as E' by (apply IH; lia). congruence.
      * apply IH in E; split; intros; [lia|reflexivity].
Qed.

Lemma take_ge {A} n (l : list A) : n <= len l -> exists a b, take n l = Some (a, b).
Proof.
  intros H; destruct (take n l) as [[a b]|] eqn:E; [eauto|].
  apply take_none in E; lia.
Qed.

(** Taking from a buffer that has enough is unaffected by what is appended. *)
Lemma take_app {A} n (l x a b : list A) :
  take n l = Some (a, b) -> take n (l ++ x) = Some (a, b ++ x).
Proof.
  revert n a b; induction l as [|y l IH]; intros n a b H; cbn [take] in H.
  - destruct (Z.leb_spec n 0); inversion H; subst. cbn [app]. apply take_le0; assumption.
  - cbn [app take]. destruct (n <=? 0); [inversion H; reflexivity|].
    destruct (take (n - 1) l) as [[a' b']|] eqn:E; inversion H; subst.
    rewrite (IH _ _ _ E); reflexivity.
Qed.

(** little-endian and big-endian round trips *)
Lemma le_enc_length n v : length (le_enc n v) = n.
Proof. revert v; induction n; intros; cbn; [reflexivity|f_equal; auto]. Qed.

Lemma le_dec_enc n v : le_dec (le_enc n v) = v mod 256 ^ Z.of_nat n.
Proof.
  revert v; induction n as [|n IH]; intros v.
  - cbn. rewrite Z.mod_1_r; reflexivity.
  - cbn [le_enc le_dec]. rewrite IH.
    replace (Z.of_nat (S n)) with (1 + Z.of_nat n) by lia.
    rewrite Z.pow_add_r by lia. change (256 ^ 1) with 256.
    assert (0 < 256 ^ Z.of_nat n) by (apply Z.pow_pos_nonneg; lia).
    rewrite Z.rem_mul_r by lia. reflexivity.
Qed.

Lemma le_enc_bytes_ok n v : bytes_ok (le_enc n v) = true.
Proof.
  revert v; induction n; intros v; cbn; [reflexivity|].
  rewrite IHn, andb_true_r. unfold byte_ok.
  pose proof (Z.mod_pos_bound v 256 ltac:(lia)).
  apply andb_true_intro; split; [apply Z.leb_le|apply Z.ltb_lt]; lia.
Qed.

Lemma be_dec_acc_app a b acc : be_dec_acc (a ++ b) acc = be_dec_acc b (be_dec_acc a acc).
Proof. revert acc; induction a as [|x a IH]; intros acc; cbn; [reflexivity|apply IH]. Qed.

Lemma be_dec_rev l : be_dec (rev l) = le_dec l.
Proof.
  unfold be_dec. induction l as [|b r IH]; cbn [rev le_dec]; [reflexivity|].
  rewrite be_dec_acc_app, IH. cbn [be_dec_acc]. lia.
Qed.

Lemma be_enc_length n v : length (be_enc n v) = n.
Proof. unfold be_enc; rewrite rev_length; apply le_enc_length. Qed.

Lemma be_dec_enc_mod n v : be_dec (be_enc n v) = v mod 256 ^ Z.of_nat n.
Proof. unfold be_enc; rewrite be_dec_rev; apply le_dec_enc. Qed.

Lemma be_dec_enc n v : 0 <= v < 256 ^ Z.of_nat n -> be_dec (be_enc n v) = v.
Proof. intros H; rewrite be_dec_enc_mod; apply Z.mod_small; assumption. Qed.

Lemma forallb_rev {A} (f : A -> bool) l : forallb f (rev l) = forallb f l.
Proof.
  induction l as [|x l IH]; [reflexivity|].
  cbn [rev forallb]. rewrite forallb_app, IH. cbn. rewrite andb_true_r, andb_comm. reflexivity.
Qed.

Lemma be_enc_bytes_ok n v : bytes_ok (be_enc n v) = true.
Proof. unfold be_enc, bytes_ok; rewrite forallb_rev; apply le_enc_bytes_ok. Qed.
