(** Strings as lists of code points, and the few str methods the code relies on. *)
From Coq Require Import ZArith List Bool Ascii String.
Import ListNotations.
Open Scope Z_scope.

Definition text := list Z.

Fixpoint text_eqb (a b : text) : bool :=
  match a, b with
  | [], [] => true
  | x :: a', y :: b' => (x =? y) && text_eqb a' b'
  | _, _ => false
  end.

Fixpoint text_of_ascii (s : string) : text :=
  match s with
  | EmptyString => []
  | String c r => Z.of_nat (nat_of_ascii c) :: text_of_ascii r
  end.

Fixpoint assoc_text {V} (k : text) (m : list (text * V)) : option V :=
  match m with
  | [] => None
  | (k', v) :: r => if text_eqb k k' then Some v else assoc_text k r
  end.

Fixpoint assoc_Z {V} (k : Z) (m : list (Z * V)) : option V :=
  match m with
  | [] => None
  | (k', v) :: r => if k =? k' then Some v else assoc_Z k r
  end.

Fixpoint starts_with (p s : text) : bool :=
  match p, s with
  | [], _ => true
  | x :: p', y :: s' => (x =? y) && starts_with p' s'
  | _ :: _, [] => false
  end.

(* Python: [a in b] for strings *)
Fixpoint is_substring (a b : text) : bool :=
  starts_with a b || match b with [] => false | _ :: b' => is_substring a b' end.

(* str.split(sep) for a one-character separator: always at least one piece *)
Fixpoint split_on_acc (sep : Z) (s : text) (cur : text) : list text :=
  match s with
  | [] => [rev cur]
  | c :: r => if c =? sep then rev cur :: split_on_acc sep r [] else split_on_acc sep r (c :: cur)
  end.
Definition split_on (sep : Z) (s : text) : list text := split_on_acc sep s [].

Fixpoint join_with (sep : text) (l : list text) : text :=
  match l with
  | [] => []
  | [x] => x
  | x :: r => x ++ sep ++ join_with sep r
  end.

Definition mem_Z (x : Z) (l : list Z) : bool := existsb (Z.eqb x) l.
