(** Bytes, big/little-endian integers and the [take] primitive of the push parsers. *)
From Coq Require Import ZArith List Lia Bool.
Import ListNotations.
Open Scope Z_scope.

Definition bytes := list Z.

Definition byte_ok (b : Z) : bool := (0 <=? b) && (b <? 256).
Definition bytes_ok (l : bytes) : bool := forallb byte_ok l.

Definition len {A} (l : list A) : Z := Z.of_nat (length l).

(** [take n l]: the first [n] elements and the rest, [None] if [l] is shorter.
    Structural on [l] so that it runs on any [n] without unary numbers. *)
Fixpoint take {A} (n : Z) (l : list A) : option (list A * list A) :=
  if n <=? 0 then Some ([], l)
  else match l with
       | [] => None
       | x :: r => match take (n - 1) r with
                   | Some (a, b) => Some (x :: a, b)
                   | None => None
                   end
       end.

(** little-endian *)
Fixpoint le_dec (l : bytes) : Z :=
  match l with
  | [] => 0
  | b :: r => b + 256 * le_dec r
  end.
Fixpoint le_enc (n : nat) (v : Z) : bytes :=
  match n with
  | O => []
  | S k => v mod 256 :: le_enc k (v / 256)
  end.

(** big-endian (network order) *)
Definition be_enc (n : nat) (v : Z) : bytes := rev (le_enc n v).

Fixpoint be_dec_acc (l : bytes) (acc : Z) : Z :=
  match l with
  | [] => acc
  | b :: r => be_dec_acc r (acc * 256 + b)
  end.
Definition be_dec (l : bytes) : Z := be_dec_acc l 0.

(** two's complement views of a 32-bit field *)
Definition to_s32 (v : Z) : Z := if v <? 2147483648 then v else v - 4294967296.
Definition of_s32 (v : Z) : Z := if v <? 0 then v + 4294967296 else v.

Fixpoint repeatZ {A} (x : A) (n : nat) : list A :=
  match n with O => [] | S k => x :: repeatZ x k end.

(** [chunks n l]: split [l] into consecutive blocks of [n] (the last may be short);
    fuel = length l, structural. *)
Fixpoint chunks_fuel {A} (fuel : nat) (n : Z) (l : list A) : list (list A) :=
  match fuel with
  | O => []
  | S f =>
      match l with
      | [] => []
      | _ => match take n l with
             | Some (a, b) => a :: chunks_fuel f n b
             | None => [l]
             end
      end
  end.
Definition chunks {A} (n : Z) (l : list A) : list (list A) := chunks_fuel (length l) n l.
