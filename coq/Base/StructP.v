From Coq Require Import ZArith List Lia Bool.
From VD Require Import Base.Bytes Base.BytesP Base.Struct.
Import ListNotations.
Open Scope Z_scope.

Lemma pad_to_length n b : length (pad_to n b) = n.
Proof. revert b; induction n; intros b; cbn; [reflexivity|]. destruct b; cbn; f_equal; auto. Qed.

Lemma pack1_len f v b : pack1 f v = Some b -> len b = fsize f.
Proof.
  destruct f, v; cbn; intros H; try discriminate;
    repeat match goal with
           | H : (if ?c then _ else _) = Some _ |- _ => destruct c; [|discriminate]
           end; inversion H; subst; try reflexivity.
  unfold len. rewrite pad_to_length. lia.
Qed.

Lemma size_nonneg fmt : 0 <= size fmt.
Proof. induction fmt as [|f r IH]; cbn [size]; [lia|]. destruct f; cbn [fsize]; lia. Qed.

Lemma pack_len fmt : forall vs b, pack fmt vs = Some b -> len b = size fmt.
Proof.
  induction fmt as [|f r IH]; intros vs b H.
  - cbn in H. destruct vs; inversion H; reflexivity.
  - cbn [size].
    assert (Hgen : forall a b', pack1 f a = Some b' -> True) by auto.
    destruct f; cbn [pack] in H;
      try (destruct vs as [|v vs]; [discriminate|];
           destruct (pack1 _ v) as [a|] eqn:E1; [|discriminate];
           destruct (pack r vs) as [b'|] eqn:E2; [|discriminate];
           inversion H; subst; rewrite len_app; apply pack1_len in E1; apply IH in E2; lia).
    destruct (pack r vs) as [b'|] eqn:E2; [|discriminate].
    inversion H; subst. rewrite len_cons. apply IH in E2. cbn [fsize]. lia.
Qed.
