(** Entry point "rfb_run": run the RFB client model over a list of chunks. *)
From Coq Require Import ZArith List Bool String.
From VD Require Import Base.Bytes Base.Text Base.Sexp Base.PixFmt Model.Engine Model.Rfb Model.Image Model.Screen Model.Apply.
Import ListNotations.
Open Scope Z_scope.

Definition opt_text (s : sexp) : option (list Z) :=
  match as_list s with [t] => Some (as_Zs t) | _ => None end.

Definition cfg_of_sexp (s : sexp) : cfg :=
  match as_list s with
  | [v; sh; un; pu; pp; pc; nc; pd; lr; q; enc; ur] =>
      mk_cfg (as_Z v) (as_Z sh) (opt_text un) (as_Zs pu) (as_Zs pp) (as_bool pc) (as_bool nc) (as_bool pd)
             (as_bool lr) (as_bool q) (as_Z enc) (as_Zs ur)
  | _ => mk_cfg 0 0 None [] [] false false false false false 0 []
  end.

Definition st0 (c : cfg) (pw : option (list Z)) (tape : list (option bytes)) (waiter0 : bool) : st :=
  mk_st c pw (c_username c) (0, 0) (0, 0) 0 [] Gen.Tables.DEFAULT_PIXFMT Gen.Tables.DEFAULT_IMAGE_MODE
        (-1) (-1) false 0 0 [] [] tape waiter0.

Definition sexp_of_pf (p : pixfmt) : sexp :=
  sZs [pf_bpp p; pf_depth p; pf_bigendian p; pf_truecolor p; pf_rmax p; pf_gmax p; pf_bmax p;
       pf_rshift p; pf_gshift p; pf_bshift p].

Definition sexp_of_ev (e : ev) : sexp :=
  match e with
  | EWrite b => L [I 0; sZs b]
  | EWriteDES k c => L [I 1; sZs k; sZs c]
  | EWriteARD p sh k => L [I 2; sZs p; sZs sh; sZs k]
  | ELose => L [I 3]
  | EPrompt => L [I 4]
  | EMade => L [I 5]
  | EMode m => L [I 20; I (immode_id m)]
  | EConnected => L [I 6]
  | EErrback => L [I 7]
  | EAuthFailed r => L [I 8; sZs r]
  | EBegin => L [I 9]
  | EUpd x y w h d => L [I 10; I x; I y; I w; I h; sZs d]
  | EFill x y w h c => L [I 11; I x; I y; I w; I h; sZs c]
  | ECopy sx sy x y w h => L [I 12; I sx; I sy; I x; I y; I w; I h]
  | ECursor x y w h i m => L [I 13; I x; I y; I w; I h; sZs i; sZs m]
  | EDesktopSize w h => L [I 14; I w; I h]
  | ECommit rs => L [I 15; L (map (fun r => let '(a, b, c, d) := r in sZs [a; b; c; d]) rs)]
  | ESave => L [I 16]
  | EBell => L [I 17]
  | ECutText t => L [I 18; sZs t]
  | EColorMap f cs => L [I 19; I f; L (map (fun c => let '(r, g, b) := c in sZs [r; g; b]) cs)]
  end.

Definition sexp_of_client (c : client) : sexp :=
  match c with
  | CInitial s buf => L [I 0; I (len buf)]
  | CRun (Idle s p buf) =>
      L [I 1; I (len buf); I (need s p); sexp_of_pf (pf s); I (immode_id (imode s)); I (width s); I (height s);
         I (rects s); sBool (waiter s)]
  | CRun Crashed => L [I 2]
  end.

Definition sexp_of_screen (l : lib) : sexp :=
  match screen l with
  | None => L []
  | Some im => L [I (iw im); I (ih im); sZs (flat_bytes im)]
  end.

(* fuel: generous bound on handler invocations for the total input size *)
Definition d_rfb_run (a : sexp) : sexp :=
  match as_list a with
  | [c; pw; tape; w0; chunks; want_screen] =>
      let cf := cfg_of_sexp c in
      let tp := map (fun t => match as_list t with [d] => Some (as_Zs d) | _ => None end) (as_list tape) in
      let chs := map as_Zs (as_list chunks) in
      let total := fold_left (fun n ch => (n + List.length ch)%nat) chs 0%nat in
      let fuel := (4 * total + 64)%nat in
      match run_client fuel (CInitial (st0 cf (opt_text pw) tp (as_bool w0)) []) chs with
      | Some (es, cl, n) =>
          L [L (map sexp_of_ev es); sexp_of_client cl; I (Z.of_nat n);
             if as_bool want_screen then sexp_of_screen (fold_left apply_ev es (lib0 (c_nocursor cf))) else L []]
      | None => L [I (-3)]     (* out of fuel: the model would spin *)
      end
  | _ => sErr
  end.

(** "rfb_script": chunks interleaved with capture requests. items: (0 bytes) | (1 inc) *)
Definition item_of_sexp (x : sexp) : item :=
  match as_list x with
  | [I 0; d] => IChunk (as_Zs d)
  | [I 1; I inc] => ICapture inc
  | _ => IChunk []
  end.

Definition d_rfb_script (a : sexp) : sexp :=
  match as_list a with
  | [c; pw; tape; w0; items; want_screen] =>
      let cf := cfg_of_sexp c in
      let tp := map (fun t => match as_list t with [d] => Some (as_Zs d) | _ => None end) (as_list tape) in
      let its := map item_of_sexp (as_list items) in
      let total := fold_left (fun n it => match it with IChunk d => (n + List.length d)%nat | _ => n end) its 0%nat in
      let fuel := (4 * total + 64)%nat in
      match run_script fuel (CInitial (st0 cf (opt_text pw) tp (as_bool w0)) []) its with
      | Some (es, cl, n) =>
          L [L (map sexp_of_ev es); sexp_of_client cl; I (Z.of_nat n);
             if as_bool want_screen then sexp_of_screen (fold_left apply_ev es (lib0 (c_nocursor cf))) else L []]
      | None => L [I (-3)]
      end
  | _ => sErr
  end.

(** "screen_ops": the library client's screen under direct callback calls.
    ops: (0 x y w h data) updateRectangle | (1 w h) updateDesktopSize | (2 x y w h img mask) updateCursor
         | (3 x y w h color) fillRectangle | (4 x y) pointer position. Result: per-op raised flag, screen. *)
Definition mode_of_id (z : Z) : immode :=
  if z =? 0 then MRGB else if z =? 1 then MRGBX else if z =? 2 then MBGR else if z =? 3 then MBGRX else MBGR16.

Fixpoint screen_ops (l : lib) (ops : list sexp) : lib * list Z :=
  match ops with
  | [] => (l, [])
  | o :: r =>
      let res :=
        match as_list o with
        | [I 0; I x; I y; I w; I h; d] => update_rect l x y w h (as_Zs d)
        | [I 1; I w; I h] => resize l w h
        | [I 2; I x; I y; I w; I h; i; m] => update_cursor l x y w h (as_Zs i) (as_Zs m)
        | [I 3; I x; I y; I w; I h; c] => fill_rect l x y w h (as_Zs c)
        | [I 4; I x; I y] => Some (mk_lib (screen l) (cur l) (l_mode l) (l_nocursor l) x y)
        | _ => Some l
        end in
      match res with
      | Some l' => let '(lf, fl) := screen_ops l' r in (lf, 0 :: fl)
      | None => let '(lf, fl) := screen_ops l r in (lf, 1 :: fl)
      end
  end.

Definition d_screen_ops (a : sexp) : sexp :=
  match as_list a with
  | [nc; I m; ops] =>
      let l0 := mk_lib None None (mode_of_id m) (as_bool nc) 0 0 in
      let '(l, flags) := screen_ops l0 (as_list ops) in
      L [sZs flags; sexp_of_screen l]
  | _ => sErr
  end.
