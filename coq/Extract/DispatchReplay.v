(** Entry point "c18_roundtrip": events -> (recorded script, 1 if the model's round trip returns the events). *)
From Coq Require Import ZArith List Bool String.
From VD Require Import Base.Bytes Base.Text Base.Sexp Model.Replay.
Import ListNotations.
Open Scope Z_scope.

Definition inev_of_sexp (s : sexp) : option inev :=
  match as_list s with
  | [I 0; I t; I d; I k] => Some (IKey t d k)
  | [I 1; I t; I m; I x; I y] => Some (IPtr t m x y)
  | _ => None
  end.

Fixpoint inevs (l : list sexp) : list inev :=
  match l with
  | [] => []
  | s :: r => match inev_of_sexp s with Some e => e :: inevs r | None => inevs r end
  end.

Definition outev_eqb (a b : outev) : bool :=
  match a, b with
  | RPause x, RPause y => text_eqb x y
  | RKey d k, RKey d' k' => Bool.eqb d d' && (k =? k')
  | RMove x y, RMove x' y' => (x =? x') && (y =? y')
  | RClick b1, RClick b2 => b1 =? b2
  | ROther, ROther => true
  | _, _ => false
  end.

Fixpoint outevs_eqb (a b : list outev) : bool :=
  match a, b with
  | [], [] => true
  | x :: a', y :: b' => outev_eqb x y && outevs_eqb a' b'
  | _, _ => false
  end.

Definition d_c18_roundtrip (a : sexp) : sexp :=
  let evs := inevs (as_list a) in
  L [match record_all None 0 evs with Some t => sZs t | None => L [] end;
     match roundtrip evs with
     | Some out => if outevs_eqb out (expected None 0 evs) then I 1 else I 0
     | None => I 2
     end].
