(** Entry point "spec_update": the SPEC side of the C02 theorems, made executable.  Given rectangles as
    the theorems quantify over them (Raw / CopyRect / RRE / CoRRE / Hextile tiles / cursor), it returns
    the bytes the theorems say a server writes ([qwire]) and the callbacks they say the client makes
    ([qevents]).  The harness feeds those bytes to the REAL client and compares its callbacks: the
    statements of the theorems are sampled against the implementation, not only against the model. *)
From Coq Require Import ZArith List Bool String.
From VD Require Import Base.Bytes Base.Text Base.Sexp Base.PixFmt Model.Engine Model.Rfb.
From VD Require Import Proofs.DecodeP Proofs.RreP Proofs.HextileP Proofs.UpdateP Extract.DispatchRfb.
Import ListNotations.
Open Scope Z_scope.

Definition sub_of_sexp (s : sexp) : sub :=
  match as_list s with
  | [c; I a; I b; I cc; I d] => (as_Zs c, a, b, cc, d)
  | _ => ([], 0, 0, 0, 0)
  end.

Definition hsub_of_sexp (s : sexp) : hsub :=
  match as_list s with [I a; I b; I c; I d] => (a, b, c, d) | _ => (0, 0, 1, 1) end.

Definition opt_bytes_of_sexp (s : sexp) : option bytes :=
  match as_list s with [c] => Some (as_Zs c) | _ => None end.

Definition htile_of_sexp (s : sexp) : htile :=
  match as_list s with
  | [I 0; px] => HRaw (as_Zs px)
  | [I 1; bgo; fgo; I 0] => HSub (opt_bytes_of_sexp bgo) (opt_bytes_of_sexp fgo) HNone
  | [I 1; bgo; fgo; I 1; l] => HSub (opt_bytes_of_sexp bgo) (opt_bytes_of_sexp fgo) (HFg (map hsub_of_sexp (as_list l)))
  | [I 1; bgo; fgo; I 2; l] =>
      HSub (opt_bytes_of_sexp bgo) (opt_bytes_of_sexp fgo)
           (HCol (map (fun q => match as_list q with [c; g] => (as_Zs c, hsub_of_sexp g) | _ => ([], (0, 0, 1, 1)) end) (as_list l)))
  | _ => HRaw []
  end.

Definition qspec_of_sexp (s : sexp) : qspec :=
  match as_list s with
  | [I 0; I x; I y; I w; I h; px] => QRaw x y w h (as_Zs px)
  | [I 1; I x; I y; I w; I h; I sx; I sy] => QCopy x y w h sx sy
  | [I 2; I x; I y; I w; I h; bg; subs] => QRre x y w h (as_Zs bg) (map sub_of_sexp (as_list subs))
  | [I 3; I x; I y; I w; I h; bg; subs] => QCorre x y w h (as_Zs bg) (map sub_of_sexp (as_list subs))
  | [I 4; I x; I y; I w; I h; ts] => QHextile x y w h (map htile_of_sexp (as_list ts))
  | [I 5; I x; I y; I w; I h; img; mask] => QCursor x y w h (as_Zs img) (as_Zs mask)
  | _ => QCopy 0 0 0 0 0 0
  end.

(* the FramebufferUpdate message of qupdate_roundtrip and the callbacks it promises before the commit *)
Definition d_spec_update (a : sexp) : sexp :=
  let rs := map qspec_of_sexp (as_list a) in
  L [sZs ([0; 0] ++ be_enc 2 (len rs) ++ List.concat (map qwire rs));
     L (map sexp_of_ev ([EBegin] ++ List.concat (map qevents rs)))].

(** "spec_viewer": the viewer sessions the C16/C17 theorems quantify over ([vmsg] with [vwf]) -> their bytes
    ([vwire]).  The harness feeds them to the REAL proxy in random chunks. *)
From VD Require Import Model.Recorder Model.Replay Proofs.SessionP Proofs.SessionAllP.

Definition vmsg_of_sexp (s : sexp) : vmsg :=
  match as_list s with
  | [I 0; body] => VSetPF (as_Zs body)
  | [I 1; I pad; encs] => VSetEnc pad (map as_Zs (as_list encs))
  | [I 2; body] => VFbur (as_Zs body)
  | [I 3; I d; I k] => VKey d k
  | [I 4; I m; I x; I y] => VPtr m x y
  | [I 5; pad; text] => VCut (as_Zs pad) (as_Zs text)
  | [I 6; I d; I k; kc] => VQemu d k (as_Zs kc)
  | _ => VFbur []
  end.

Definition d_spec_viewer (a : sexp) : sexp :=
  L [sZs (List.concat (map vwire (map vmsg_of_sexp (as_list a))))].

(** "spec_zrle": the ZRLE theorem's spec side: tiles as C02_zrle_roundtrip quantifies over them -> the inflated
    tile stream ([wire_ztile]) and the callbacks promised ([zevents]).  The harness deflates the stream itself. *)
From VD Require Import Proofs.ZrleP.

Definition cpx_of_sexp (s : sexp) : cpx :=
  match as_Zs s with [r; g; b] => (r, g, b) | _ => (0, 0, 0) end.

Definition ztile_of_sexp (s : sexp) : ztile :=
  match as_list s with
  | [I 0; px] => ZRaw (map cpx_of_sexp (as_list px))
  | [I 1; c] => ZSolid (cpx_of_sexp c)
  | [I 2; runs] => ZPlain (map (fun q => match as_list q with [c; I k; I r] => (cpx_of_sexp c, Z.to_nat k, r) | _ => ((0, 0, 0), O, 0) end) (as_list runs))
  | [I 3; pal; items] =>
      ZPal (map cpx_of_sexp (as_list pal))
           (map (fun q => match as_list q with
                          | [I 0; I i] => PSingle i
                          | [I 1; I i; I k; I r] => PRun i (Z.to_nat k) r
                          | _ => PSingle 0
                          end) (as_list items))
  | [I 4; pal; bs] => ZPacked (map cpx_of_sexp (as_list pal)) (as_Zs bs)
  | _ => ZSolid (0, 0, 0)
  end.

Definition d_spec_zrle (a : sexp) : sexp :=
  match as_list a with
  | [I x; I y; I w; I h; ts] =>
      let tiles := map ztile_of_sexp (as_list ts) in
      L [sZs (List.concat (map wire_ztile tiles)); L (map sexp_of_ev (zevents x y w h tiles x y))]
  | _ => sErr
  end.
