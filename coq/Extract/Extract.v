From Coq Require Import Extraction ExtrOcamlBasic.
From VD Require Import Extract.Dispatch.
Extraction Language OCaml.
Extraction "model.ml" dispatch.
