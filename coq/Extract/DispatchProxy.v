(** Entry point "proxy_run": the vnclog viewer-side parser over timed chunks. *)
From Coq Require Import ZArith List Bool String.
From VD Require Import Base.Bytes Base.Text Base.Sexp Base.PixFmt Model.Recorder Extract.DispatchRfb.
Import ListNotations.
Open Scope Z_scope.

Definition sexp_of_revent (e : revent) : sexp :=
  match e with
  | RRecord l => L [I 0; sZs l]
  | RStartLogging => L [I 1]
  | RLose => L [I 2]
  | RSetPixelFormat p => L [I 3; sexp_of_pf p]
  | RSetEncodings l => L [I 4; sZs l]
  | RFbUpdate x y w h inc => L [I 5; I x; I y; I w; I h; I inc]
  | RCutText => L [I 6]
  end.

Definition handler_id (h : rhandler) : Z :=
  match h with HVersion => 0 | HSecurity => 1 | HAuthResp => 2 | HClientInit => 3 | HProtocol => 4 | HQemu => 5
  | HEncList _ => 6 | HCutText _ => 7 end.

(* chunks: list of (now, bytes). Per chunk: (status 0 ok / 1 raise / 2 spin, events). Stops at the first failure. *)
Fixpoint proxy_chunks (s : rstate) (chunks : list sexp) : list sexp * option rstate :=
  match chunks with
  | [] => ([], Some s)
  | c :: r =>
      match as_list c with
      | [I now; d] =>
          match rfeed s now (as_Zs d) with
          | ROk es s' => let '(out, fin) := proxy_chunks s' r in (L [I 0; L (map sexp_of_revent es)] :: out, fin)
          | RRaise es => ([L [I 1; L (map sexp_of_revent es)]], None)
          | RSpin es => ([L [I 2; L (map sexp_of_revent es)]], None)
          end
      | _ => ([], Some s)
      end
  end.

Definition d_proxy_run (a : sexp) : sexp :=
  match as_list a with
  | [pw; I t0; chunks] =>
      let '(out, fin) := proxy_chunks (rstate0 (as_bool pw) t0) (as_list chunks) in
      L [L out; match fin with
                | Some s => L [I (len (r_buf s)); I (handler_id (r_handler s)); I (r_need s)]
                | None => L []
                end]
  | _ => sErr
  end.
