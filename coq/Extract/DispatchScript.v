(** Entry point "script_run": a compiled script under a schedule of commits. *)
From Coq Require Import ZArith QArith List Bool String.
From VD Require Import Base.Bytes Base.Text Base.Sexp Model.Pointer Model.ClientOps Model.Script.
Import ListNotations.
Open Scope Z_scope.

Definition q_of (n d : Z) : Q := Qmake n (Z.to_pos d).
(* times leave the model in nanoseconds, rounded down (the driver speaks 63-bit integers) *)
Definition sQ (q : Q) : sexp := I (Qnum q * 1000000000 / Z.pos (Qden q)).

Definition commit_of_sexp (s : sexp) : commit :=
  match as_list s with
  | [I n; I d; fl] => mk_commit (q_of n d) (map as_bool (as_list fl))
  | _ => mk_commit 0%Q []
  end.

Section WithOps.
  Variable op_of : sexp -> option op.
  Definition sop_of_sexp (s : sexp) : option sop :=
    match as_list s with
    | [I 0; o] => match op_of o with Some o' => Some (SOp o') | None => None end
    | [I 1; I n; I d] => Some (SPause (q_of n d))
    | [I 2; I x; I y] => Some (SDragTo x y)
    | [I 3; I inc] => Some (SCapture inc)
    | [I 4; I id] => Some (SExpect (Z.to_nat id))
    | _ => None
    end.
  Fixpoint sops (l : list sexp) : list sop :=
    match l with [] => [] | s :: r => match sop_of_sexp s with Some o => o :: sops r | None => sops r end end.

  Definition d_script_run (a : sexp) : sexp :=
    match as_list a with
    | [I w; I h; ops; commits] =>
        let r0 := mk_rs (mk_cstate ptr0 w h false false) 0%Q None (map commit_of_sexp (as_list commits)) in
        let '(tr, out) := run_script r0 (sops (as_list ops)) in
        L [L (map (fun e => match snd e with
                            | TWrite b => L [sQ (fst e); sZs b]
                            | TLose => L [sQ (fst e)]
                            end) tr);
           match out with Done t => L [I 0; sQ t] | Stuck => L [I 1] | Failed => L [I 2] end]
    | _ => sErr
    end.
End WithOps.

(** Entry point "exit_status": a list of event numbers -> status *)
From VD Require Import Model.Exit.
Definition xev_of (z : Z) : xev :=
  if z =? 0 then XConnFailed else if z =? 1 then XCompleted else if z =? 2 then XLostClean
  else if z =? 3 then XLostError else if z =? 4 then XTimeout else XStop.
Definition d_exit_status (a : sexp) : sexp := I (exit_status (map xev_of (as_Zs a))).

(** Entry point "api_run": [ncalls; ops as (async?, result) list; events] -> delivered *)
From VD Require Import Model.Api.
Definition aev_of (z : Z) : aev :=
  if z =? 0 then AppIssue else if z =? 1 then AppTake else if z =? 2 then ReactorThunk
  else if z =? 3 then ConnUp else if z =? 4 then ConnFail else OpComplete.
Definition d_api_run (a : sexp) : sexp :=
  match as_list a with
  | [I n; ops; evs] =>
      let table := map (fun o => match as_list o with
                                 | [I k; I r] => if k =? 0 then Sync r else Async r
                                 | _ => Sync 0
                                 end) (as_list ops) in
      let s := arun (fun i => nth i table (Sync 0)) (Z.to_nat n) (map aev_of (as_Zs evs)) in
      L [L (map (fun p => L [I (Z.of_nat (fst p)); I (snd p)]) (a_delivered s)); I (Z.of_nat (a_next s))]
  | _ => sErr
  end.
