(** Entry points "compile" and "shlex". *)
From Coq Require Import ZArith List Bool String.
From VD Require Import Base.Bytes Base.Text Base.Sexp Model.Shlex Model.Command.
Import ListNotations.
Open Scope Z_scope.

Definition sexp_of_cop (o : cop) : sexp :=
  match o with
  | CKeyPress k => L [I 0; sZs k] | CKeyDown k => L [I 1; sZs k] | CKeyUp k => L [I 2; sZs k]
  | CMove x y => L [I 3; I x; I y] | CClick b => L [I 4; I b] | CMDown b => L [I 5; I b] | CMUp b => L [I 6; I b]
  | CDrag x y => L [I 7; I x; I y]
  | CPaste t => L [I 8; sZs t]
  | CCapture f => L [I 9; sZs f] | CRCapture f x y w h => L [I 10; sZs f; I x; I y; I w; I h]
  | CExpect f r => L [I 11; sZs f; sZs r] | CRExpect f x y r => L [I 12; sZs f; I x; I y; sZs r]
  | CPause d => L [I 13; sZs d]
  | CDelay => L [I 14]
  end.

Definition cerr_id (e : cerr) : sexp :=
  match e with
  | EUnknown wd => L [I 1; sZs wd] | EFormat ext => L [I 2; sZs ext] | EMissing => L [I 3] | ENumber => L [I 4]
  | ENoFile => L [I 5] | ELex => L [I 6] | EFuel => L [I 7]
  end.

Definition fs_of_sexp (l : list sexp) : fs :=
  fun name => match find (fun e => text_eqb (as_Zs (arg 0 e)) name) l with
              | Some e => Some (as_Zs (arg 1 e))
              | None => None
              end.

Definition d_compile (a : sexp) : sexp :=
  match as_list a with
  | [d; files; args] =>
      match compile 64 (fs_of_sexp (as_list files)) (as_bool d) (map as_Zs (as_list args)) [] with
      | COk ops => L [I 0; L (map sexp_of_cop ops)]
      | CErr e reg => L [cerr_id e; L (map sexp_of_cop reg)]
      end
  | _ => sErr
  end.

Definition d_shlex (a : sexp) : sexp :=
  match shlex_split (as_Zs a) with
  | inr toks => L [I 0; L (map sZs toks)]
  | inl NoClosingQuotation => L [I 1]
  | inl NoEscapedCharacter => L [I 2]
  end.

Definition d_quote (a : sexp) : sexp := sZs (quote (as_Zs a)).
