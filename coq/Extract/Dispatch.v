(** Entry points of the executable model for the correspondence harness. *)
From Coq Require Import ZArith List Bool String.
From VD Require Import Base.Bytes Base.Text Base.Sexp Base.PixFmt Base.Struct.
From VD Require Import Model.ClientMsgs Model.Keys Model.Pointer Model.ClientOps Spec.C2S.
From VD Require Import Spec.DES Model.Auth.
From VD Require Import Model.Server Extract.DispatchRfb Extract.DispatchCmd Extract.DispatchProxy Extract.DispatchReplay Extract.DispatchScript Extract.DispatchSpec.
Import ListNotations.
Open Scope Z_scope.

Definition opt_Z (s : sexp) : option Z :=
  match as_list s with [I z] => Some z | _ => None end.

Definition pf_of_sexp (s : sexp) : pixfmt :=
  match as_Zs s with
  | [a; b; c; d; e; f; g; h; i; j] => mk_pixfmt a b c d e f g h i j
  | _ => mk_pixfmt 0 0 0 0 0 0 0 0 0 0
  end.

Definition op_of_sexp (s : sexp) : option op :=
  match as_list s with
  | [I 0; u; k] => Some (OKeyPress (as_bool u) (as_Zs k))
  | [I 1; u; k] => Some (OKeyDown (as_bool u) (as_Zs k))
  | [I 2; u; k] => Some (OKeyUp (as_bool u) (as_Zs k))
  | [I 3; I x; I y] => Some (OMove x y)
  | [I 4; I b] => Some (ODown b)
  | [I 5; I b] => Some (OUp b)
  | [I 6; I b] => Some (OPress b)
  | [I 7; I x; I y; I st] => Some (ODrag x y st)
  | [I 8; t] => Some (OPaste (as_Zs t))
  | [I 9; I inc] => Some (ORefresh inc)
  | [I 10] => Some OExpect
  | [I 11; I x; I y; w; h; I inc] => Some (OFbur x y (opt_Z w) (opt_Z h) inc)
  | [I 12; p] => Some (OSetPF (pf_of_sexp p))
  | [I 13; l] => Some (OSetEnc (as_Zs l))
  | _ => None
  end.

Fixpoint ops_of_sexps (l : list sexp) : list op :=
  match l with
  | [] => []
  | s :: r => match op_of_sexp s with Some o => o :: ops_of_sexps r | None => ops_of_sexps r end
  end.

Definition d_client_ops (a : sexp) : sexp :=
  match as_list a with
  | [p; I w; I h; fc; hs; ops] =>
      match as_Zs p with
      | [x; y; b] =>
          let s := mk_cstate (mk_ptr x y b) w h (as_bool fc) (as_bool hs) in
          let '(s', ws) := run_ops s (ops_of_sexps (as_list ops)) in
          L [sZs [px (cs_ptr s'); py (cs_ptr s'); pbuttons (cs_ptr s')];
             L (map (sOpt sZs) ws)]
      | _ => sErr
      end
  | _ => sErr
  end.

Definition sexp_of_c2s (m : c2s) : sexp :=
  match m with
  | MSetPixelFormat pf => L [I 0; sZs pf]
  | MSetEncodings l => L [I 2; sZs l]
  | MFbUpdateRequest inc x y w h => L [I 3; I inc; I x; I y; I w; I h]
  | MKeyEvent d k => L [I 4; I d; I k]
  | MPointerEvent m x y => L [I 5; I m; I x; I y]
  | MClientCutText d => L [I 6; sZs d]
  end.

Definition d_parse_c2s (a : sexp) : sexp :=
  sOpt (fun ms => L (map sexp_of_c2s ms)) (parse_c2s (as_Zs a)).

Definition mem_text (l : list sexp) (t : list Z) : bool := existsb (fun x => text_eqb (as_Zs x) t) l.

Definition d_parse_server (a : sexp) : sexp :=
  match as_list a with
  | [srv; ex; v6] =>
      match parse_server (mem_text (as_list ex)) (mem_text (as_list v6)) (as_Zs srv) with
      | Some (f, h, p) => L [I (family_id f); sZs h; I p]
      | None => L []
      end
  | _ => sErr
  end.

(* "des": [key; data; decrypt?] -> DES-ECB of the FIPS 46-3 spec *)
Definition d_des (a : sexp) : sexp :=
  match as_list a with
  | [k; d; I dec] => sZs (if dec =? 0 then des_ecb_encrypt (as_Zs k) (as_Zs d) else des_ecb_decrypt (as_Zs k) (as_Zs d))
  | _ => sErr
  end.

(* "vnc_key": password code points -> key bytes, () when not ASCII *)
Definition d_vnc_key (a : sexp) : sexp := sOpt sZs (vnc_key (as_Zs a)).

(* "ard_parts": [user; pw; urandom; g; keylen; modulus; serverkey] -> [plain; shared; key] *)
Definition d_ard_parts (a : sexp) : sexp :=
  match as_list a with
  | [u; p; r; I g; I kl; m; sk] =>
      match ard_parts (as_Zs u) (as_Zs p) (as_Zs r) g kl (as_Zs m) (as_Zs sk) with
      | Some (plain, shared, key) => L [sZs plain; sZs shared; sZs key]
      | None => L []
      end
  | _ => sErr
  end.

Definition name_is (n : list Z) (s : string) : bool := text_eqb n (text_of_ascii s).

Definition dispatch (name : list Z) (a : sexp) : sexp :=
  if name_is name "client_ops" then d_client_ops a
  else if name_is name "parse_c2s" then d_parse_c2s a
  else if name_is name "parse_server" then d_parse_server a
  else if name_is name "rfb_run" then d_rfb_run a
  else if name_is name "rfb_script" then d_rfb_script a
  else if name_is name "screen_ops" then d_screen_ops a
  else if name_is name "compile" then d_compile a
  else if name_is name "shlex" then d_shlex a
  else if name_is name "quote" then d_quote a
  else if name_is name "proxy_run" then d_proxy_run a
  else if name_is name "c18_roundtrip" then d_c18_roundtrip a
  else if name_is name "des" then d_des a
  else if name_is name "api_run" then d_api_run a
  else if name_is name "exit_status" then d_exit_status a
  else if name_is name "script_run" then d_script_run op_of_sexp a
  else if name_is name "vnc_key" then d_vnc_key a
  else if name_is name "ard_parts" then d_ard_parts a
  else if name_is name "spec_update" then d_spec_update a
  else if name_is name "spec_viewer" then d_spec_viewer a
  else if name_is name "spec_zrle" then d_spec_zrle a
  else sErr.
