(** _decodeKey and the key operations against the RFC parser. *)
From Coq Require Import ZArith List Bool Lia String.
From VD Require Import Base.Bytes Base.BytesP Base.Text Proofs.TextP Gen.Tables.
From VD Require Import Model.ClientMsgs Model.Keys Spec.C2S Proofs.C2SP.
Import ListNotations.
Open Scope Z_scope.

Definition u32ok (k : Z) : Prop := rng 0 4294967295 k.

(** finite facts about the generated key table, by computation over the whole table *)
Definition keymap_wf : bool :=
  forallb (fun kv : list Z * Z =>
             (2 <=? len (fst kv)) && negb (mem_Z DASH (fst kv)) &&
             (0 <? snd kv) && (snd kv <=? 4294967295)) KEYMAP.

Lemma keymap_wf_true : keymap_wf = true.
Proof. vm_compute. reflexivity. Qed.

Lemma keymap_entry k v : In (k, v) KEYMAP ->
  2 <= len k /\ ~ In DASH k /\ 0 < v <= 4294967295.
Proof.
  intros H. pose proof keymap_wf_true as W. unfold keymap_wf in W.
  rewrite forallb_forall in W. specialize (W _ H). cbn [fst snd] in W.
  repeat (apply andb_prop in W as [W ?]).
  repeat split; try (apply Z.leb_le; assumption); try (apply Z.ltb_lt; assumption).
  intros Hin. unfold mem_Z in *.
  match goal with H : negb (existsb _ _) = true |- _ => apply negb_true_iff in H; 
    assert (existsb (Z.eqb DASH) k = true) as C; [|congruence] end.
  apply existsb_exists. exists DASH. split; [assumption|apply Z.eqb_refl].
Qed.

Lemma keymap_get_single c : keymap_get [c] = None.
Proof.
  apply assoc_text_none. intros k v Hin Hk. subst.
  apply keymap_entry in Hin as [Hl _]. unfold len in Hl. cbn in Hl. lia.
Qed.

Lemma key_code_single c : key_code [c] = Some c.
Proof. unfold key_code. rewrite keymap_get_single. reflexivity. Qed.

Lemma key_code_name k v : keymap_get k = Some v -> key_code k = Some v.
Proof.
  intros H. unfold key_code. rewrite H.
  apply assoc_text_in, keymap_entry in H as (_ & _ & Hv).
  destruct (Z.eqb_spec v 0); [lia|reflexivity].
Qed.

(** a token of the documented chord syntax: a KEYMAP name or one character other than '-' *)
Inductive token : list Z -> Z -> Prop :=
| T_name k v : keymap_get k = Some v -> token k v
| T_char c : c <> DASH -> token [c] c.

Lemma token_nodash t v : token t v -> ~ In DASH t.
Proof.
  intros [k v' H|c Hc].
  - apply assoc_text_in, keymap_entry in H. tauto.
  - intros [E|[]]. congruence.
Qed.

Lemma token_code t v : token t v -> key_code t = Some v.
Proof. intros [k v' H|c Hc]; [apply key_code_name; assumption|apply key_code_single]. Qed.

Lemma all_some_map_tokens toks vals :
  Forall2 token toks vals -> all_some (map key_code toks) = Some vals.
Proof.
  induction 1 as [|t v toks vals Ht _ IH]; cbn; [reflexivity|].
  rewrite (token_code _ _ Ht), IH. reflexivity.
Qed.

(** decode of a documented chord, forced caps off *)
Theorem decode_chord u toks vals :
  toks <> [] -> Forall2 token toks vals ->
  decode_key false u (join_with [DASH] toks) = Some vals.
Proof.
  intros Hne HT. unfold decode_key. cbn [andb].
  assert (Hnd : Forall (fun t => ~ In DASH t) toks).
  { clear Hne. induction HT; constructor; [eapply token_nodash; eassumption|assumption]. }
  destruct toks as [|t [|t2 toks]]; [congruence| |].
  - (* a single token *)
    cbn [join_with]. inversion HT as [|? v ? ? Ht HT']; subst. inversion HT'; subst.
    destruct t as [|c [|c2 t]].
    + inversion Ht; subst. match goal with H : keymap_get [] = Some _ |- _ =>
        apply assoc_text_in, keymap_entry in H; unfold len in H; cbn in H; lia end.
    + cbn [map all_some]. rewrite (token_code _ _ Ht). reflexivity.
    + inversion Hnd; subst.
      unfold split_on. rewrite split_on_acc_nosep_end by assumption. cbn [rev app map all_some].
      rewrite (token_code _ _ Ht). reflexivity.
  - (* several tokens: the joined text has a dash, so it is longer than one character *)
    pose proof (split_join DASH (t :: t2 :: toks) Hne Hnd) as SJ.
    remember (join_with [DASH] (t :: t2 :: toks)) as j eqn:Ej.
    assert (Hlen : (2 <= List.length j)%nat).
    { subst j. change (join_with [DASH] (t :: t2 :: toks)) with (t ++ [DASH] ++ join_with [DASH] (t2 :: toks)).
      rewrite !app_length. cbn [List.length].
      inversion HT as [|? v ? ? Ht HT']; subst.
      destruct t; [|cbn [List.length]; lia].
      inversion Ht; subst. match goal with H : keymap_get [] = Some _ |- _ =>
        apply assoc_text_in, keymap_entry in H; unfold len in H; cbn in H; lia end. }
    destruct j as [|c [|c2 j]]; try (cbn in Hlen; lia).
    rewrite SJ. apply all_some_map_tokens. assumption.
Qed.

(** typing one character, forced caps off / on *)
Lemma decode_char_nocaps u c : decode_key false u [c] = Some [c].
Proof. unfold decode_key. cbn [andb map all_some]. rewrite key_code_single. reflexivity. Qed.

Lemma shift_is_ShiftLeft : keymap_get (text_of_ascii "shift"%string) = Some KEY_ShiftLeft.
Proof. vm_compute. reflexivity. Qed.

Lemma keys_of_long (k : list Z) :
  (2 <= List.length k)%nat -> (match k with [_] => [k] | _ => split_on DASH k end) = split_on DASH k.
Proof. destruct k as [|a [|b k]]; cbn [List.length]; intros; try lia; reflexivity. Qed.

Theorem decode_char_caps u c :
  c <> DASH ->
  decode_key true u [c] =
  Some (if u || mem_Z c SPECIAL_KEYS_US then [KEY_ShiftLeft; c] else [c]).
Proof.
  intros Hc. unfold decode_key. cbn [andb]. rewrite is_substring_single.
  destruct (u || mem_Z c SPECIAL_KEYS_US).
  - change (text_of_ascii "shift-"%string ++ [c]) with (text_of_ascii "shift"%string ++ DASH :: [c]).
    rewrite keys_of_long by (rewrite app_length; cbn; lia).
    unfold split_on.
    rewrite split_on_acc_nosep by (vm_compute; intuition discriminate).
    rewrite split_on_acc_nosep_end by (intros [E|[]]; congruence).
    cbn [rev app map all_some].
    rewrite (key_code_name _ _ shift_is_ShiftLeft), key_code_single. reflexivity.
  - cbn [map all_some]. rewrite key_code_single. reflexivity.
Qed.

(** wire form *)
Lemma key_events_parses down keys :
  rng 0 255 down -> Forall u32ok keys ->
  exists w, key_events down keys = Some w /\ Parses w (map (MKeyEvent down) keys).
Proof.
  intros Hd. induction 1 as [|k keys Hk _ IH].
  - exists []. split; [reflexivity|constructor].
  - destruct IH as (w & E & P). destruct (keyEvent_parses k down Hd Hk) as (w1 & E1 & P1).
    cbn [key_events]. rewrite E1, E. eexists; split; [reflexivity|].
    cbn [map]. change (MKeyEvent down k :: map (MKeyEvent down) keys) with ([MKeyEvent down k] ++ map (MKeyEvent down) keys).
    apply Parses_app; assumption.
Qed.

Lemma Forall_rev {A} (P : A -> Prop) l : Forall P l -> Forall P (rev l).
Proof. intros H. apply Forall_forall. intros x Hx. apply in_rev in Hx. rewrite Forall_forall in H; auto. Qed.

Theorem keyPress_parses fc u key keys :
  decode_key fc u key = Some keys -> Forall u32ok keys ->
  exists w, keyPress fc u key = Some w /\
            Parses w (map (MKeyEvent 1) keys ++ map (MKeyEvent 0) (rev keys)).
Proof.
  intros D Hk. unfold keyPress. rewrite D.
  destruct (key_events_parses 1 keys ltac:(unfold rng; lia) Hk) as (w1 & E1 & P1).
  destruct (key_events_parses 0 (rev keys) ltac:(unfold rng; lia) (Forall_rev _ _ Hk)) as (w2 & E2 & P2).
  rewrite E1, E2. eexists; split; [reflexivity|]. apply Parses_app; assumption.
Qed.

Theorem keyDown_parses fc u key keys :
  decode_key fc u key = Some keys -> Forall u32ok keys ->
  exists w, keyDown fc u key = Some w /\ Parses w (map (MKeyEvent 1) keys).
Proof.
  intros D Hk. unfold keyDown. rewrite D. apply key_events_parses; [unfold rng; lia|assumption].
Qed.

Theorem keyUp_parses fc u key keys :
  decode_key fc u key = Some keys -> Forall u32ok keys ->
  exists w, keyUp fc u key = Some w /\ Parses w (map (MKeyEvent 0) keys).
Proof.
  intros D Hk. unfold keyUp. rewrite D. apply key_events_parses; [unfold rng; lia|assumption].
Qed.

Lemma token_u32 t v : token t v -> 0 <= v <= 1114111 \/ In (t, v) KEYMAP -> u32ok v.
Proof.
  intros _ [H|H]; unfold u32ok, rng; [lia|]. apply keymap_entry in H. lia.
Qed.

Lemma u32ok_of_range vals : Forall (fun v => 0 <= v <= 4294967295) vals -> Forall u32ok vals.
Proof. intros H; eapply Forall_impl; [|exact H]. intros v Hv; exact Hv. Qed.

Theorem chord_events : forall u toks vals,
  toks <> [] -> Forall2 token toks vals -> Forall (fun v => 0 <= v <= 4294967295) vals ->
  let chord := join_with [DASH] toks in
  (exists w, keyPress false u chord = Some w /\
             parse_c2s w = Some (map (MKeyEvent 1) vals ++ map (MKeyEvent 0) (rev vals))) /\
  (exists w, keyDown false u chord = Some w /\ parse_c2s w = Some (map (MKeyEvent 1) vals)) /\
  (exists w, keyUp false u chord = Some w /\ parse_c2s w = Some (map (MKeyEvent 0) vals)).
Proof.
  intros u toks vals Hne HT Hv chord. subst chord.
  pose proof (decode_chord u toks vals Hne HT) as D. apply u32ok_of_range in Hv.
  destruct (keyPress_parses _ _ _ _ D Hv) as (w1 & E1 & P1).
  destruct (keyDown_parses _ _ _ _ D Hv) as (w2 & E2 & P2).
  destruct (keyUp_parses _ _ _ _ D Hv) as (w3 & E3 & P3).
  repeat split; eexists; (split; [eassumption|apply Parses_sound; assumption]).
Qed.

Theorem force_caps_events : forall u c,
  c <> DASH -> 0 <= c <= 1114111 ->
  decode_key true u [c] = Some (if u || mem_Z c SPECIAL_KEYS_US then [KEY_ShiftLeft; c] else [c]) /\
  exists w, keyPress true u [c] = Some w /\
    parse_c2s w = Some (if u || mem_Z c SPECIAL_KEYS_US
                        then [MKeyEvent 1 KEY_ShiftLeft; MKeyEvent 1 c; MKeyEvent 0 c; MKeyEvent 0 KEY_ShiftLeft]
                        else [MKeyEvent 1 c; MKeyEvent 0 c]).
Proof.
  intros u c Hc Hr. pose proof (decode_char_caps u c Hc) as D. split; [exact D|].
  assert (Hs : u32ok KEY_ShiftLeft) by (unfold u32ok, rng; vm_compute; split; discriminate).
  assert (Hcu : u32ok c) by (unfold u32ok, rng; lia).
  destruct (u || mem_Z c SPECIAL_KEYS_US).
  - destruct (keyPress_parses _ _ _ _ D (Forall_cons _ Hs (Forall_cons _ Hcu (Forall_nil _)))) as (w & E & P).
    exists w; split; [exact E|apply Parses_sound; exact P].
  - destruct (keyPress_parses _ _ _ _ D (Forall_cons _ Hcu (Forall_nil _))) as (w & E & P).
    exists w; split; [exact E|apply Parses_sound; exact P].
Qed.
