(** A whole FramebufferUpdate whose rectangles use Raw, CopyRect, RRE, CoRRE or Hextile in any mix (C02): every
    rectangle is consumed exactly, produces exactly its callbacks in order, the last one is followed by
    exactly one commit, and the client then reads what follows as the next message. *)
From Coq Require Import ZArith List Bool Lia.
From RecordUpdate Require Import RecordSet.
Import RecordSetNotations.
From VD Require Import Base.Bytes Base.BytesP Base.Struct Gen.Tables Gen.Formats.
From VD Require Import Model.Engine Model.ClientMsgs Model.Auth Model.Rfb Spec.C2S Proofs.C2SP Proofs.DecodeP Proofs.RreP Proofs.HextileP.
Import ListNotations.
Open Scope Z_scope.

(** Cursor pseudo-encoding (7.8.1): w*h pixels and a bitmask of floor((w+7)/8)*h bytes; exactly one
    updateCursor(x, y, w, h, image, mask) *)
Definition CURSOR_ENC : bytes := [255; 255; 255; 17].     (* -239 *)

Theorem cursor_roundtrip s x y w h img mask tail s2 p2 es2 es r n :
  u16ok x -> u16ok y -> u16ok w -> u16ok h ->
  rects s <> 0 ->
  let s1 := enter_rect s x y w h in
  len img = w * h * bypp s1 -> len mask = (w + 7) / 8 * h ->
  do_connection s1 = Ok s2 (Some p2) es2 ->
  Drain s2 p2 tail es r n ->
  Drain s PRect (rect_hdr x y w h CURSOR_ENC ++ (img ++ mask) ++ tail) ([ECursor x y w h img mask] ++ es2 ++ es) r (S (S n)).
Proof.
  intros Hx Hy Hw Hh Hr s1 Hi Hm Hd HD. subst s1. unfold enter_rect in *.
  destruct (rect_hdr_unpack x y w h CURSOR_ENC ((img ++ mask) ++ tail) Hx Hy Hw Hh eq_refl) as [Ht Hun].
  change ([ECursor x y w h img mask] ++ es2 ++ es) with ([] ++ ([ECursor x y w h img mask] ++ es2) ++ es).
  eapply D_step; [exact Ht| |].
  - cbn [step]. rewrite Hun. change (to_s32 (be_dec CURSOR_ENC)) with (-239).
    change (-239 =? ENC_PSEUDO_LAST_RECT) with false. cbv iota.
    destruct (Z.eqb_spec (rects s) 0) as [E|_]; [contradiction|].
    change (-239 =? ENC_COPY_RECTANGLE) with false. change (-239 =? ENC_RAW) with false.
    change (-239 =? ENC_HEXTILE) with false. change (-239 =? ENC_CORRE) with false. change (-239 =? ENC_RRE) with false.
    change (-239 =? ENC_ZRLE) with false. change (-239 =? ENC_PSEUDO_CURSOR) with true. cbv iota. reflexivity.
  - cbn [next_pend]. eapply D_step.
    + cbn [need]. match goal with |- take ?k _ = _ => replace k with (len (img ++ mask)) by (rewrite len_app, Hi, Hm; reflexivity) end.
      apply take_app_exact.
    + cbn [step]. rewrite <- Hi, firstn_len_app, skipn_len_app, Hd. cbn [prepend]. reflexivity.
    + cbn [next_pend]. exact HD.
Qed.

Inductive qspec :=
| QRaw (x y w h : Z) (px : bytes)
| QCopy (x y w h sx sy : Z)
| QRre (x y w h : Z) (bg : bytes) (subs : list sub)
| QCorre (x y w h : Z) (bg : bytes) (subs : list sub)
| QHextile (x y w h : Z) (ts : list htile)
| QCursor (x y w h : Z) (img mask : bytes).

Definition qwire (q : qspec) : bytes :=
  match q with
  | QRaw x y w h px => rect_hdr x y w h [0; 0; 0; 0] ++ px
  | QCopy x y w h sx sy => rect_hdr x y w h [0; 0; 0; 1] ++ be_enc 2 sx ++ be_enc 2 sy
  | QRre x y w h bg subs => wire_rre x y w h bg subs
  | QCorre x y w h bg subs => wire_corre x y w h bg subs
  | QHextile x y w h ts => wire_hextile x y w h ts
  | QCursor x y w h img mask => rect_hdr x y w h CURSOR_ENC ++ img ++ mask
  end.

Definition qevents (q : qspec) : list ev :=
  match q with
  | QRaw x y w h px => [EUpd x y w h px]
  | QCopy x y w h sx sy => [ECopy sx sy x y w h]
  | QRre x y w h bg subs | QCorre x y w h bg subs => [EFill x y w h bg] ++ map fill_ev (map (sub_fill x y) subs)
  | QHextile x y w h ts => tiles_events x y w h ts x y None None
  | QCursor x y w h img mask => [ECursor x y w h img mask]
  end.

(* handler invocations the rectangle costs *)
Definition qsteps (q : qspec) : nat :=
  match q with
  | QRaw _ _ _ _ _ | QCopy _ _ _ _ _ _ | QCursor _ _ _ _ _ _ => 2
  | QRre _ _ _ _ _ subs | QCorre _ _ _ _ _ subs => match subs with [] => 2 | _ => 3 end
  | QHextile _ _ _ _ ts => S (tiles_steps ts)
  end.

Definition qpos (q : qspec) : rect :=
  match q with QRaw x y w h _ | QCopy x y w h _ _ | QRre x y w h _ _ | QCorre x y w h _ _ | QHextile x y w h _ | QCursor x y w h _ _ => (x, y, w, h) end.

Definition qok (s : st) (q : qspec) : Prop :=
  match q with
  | QRaw x y w h px => u16ok x /\ u16ok y /\ u16ok w /\ u16ok h /\ len px = w * h * bypp s /\ upd_raises s w h (len px) = false
  | QCopy x y w h sx sy => u16ok x /\ u16ok y /\ u16ok w /\ u16ok h /\ u16ok sx /\ u16ok sy
  | QRre x y w h bg subs =>
      u16ok x /\ u16ok y /\ u16ok w /\ u16ok h /\ len bg = bypp s /\ len subs < 4294967296 /\
      Forall (sub16_ok (bypp s)) subs /\ fill_ok s (x, y, w, h, bg) /\ Forall (fill_ok s) (map (sub_fill x y) subs)
  | QCorre x y w h bg subs =>
      u16ok x /\ u16ok y /\ u16ok w /\ u16ok h /\ len bg = bypp s /\ len subs < 4294967296 /\
      Forall (sub8_ok (bypp s)) subs /\ fill_ok s (x, y, w, h, bg) /\ Forall (fill_ok s) (map (sub_fill x y) subs)
  | QHextile x y w h ts =>
      u16ok x /\ u16ok y /\ u16ok w /\ u16ok h /\ 0 < w /\ 0 < h /\ 0 < bypp s /\
      covers x y w h ts x y /\ tiles_ok s x y w h ts x y None None
  | QCursor x y w h img mask =>
      u16ok x /\ u16ok y /\ u16ok w /\ u16ok h /\ len img = w * h * bypp s /\ len mask = (w + 7) / 8 * h
  end.

Lemma fill_ok_enter s x y w h f : fill_ok (enter_rect s x y w h) f <-> fill_ok s f.
Proof. destruct f as [[[[a b] c] d] e]. reflexivity. Qed.

Lemma qok_enter s x y w h q : qok (enter_rect s x y w h) q <-> qok s q.
Proof. destruct q; reflexivity. Qed.

(** one rectangle, whatever its encoding *)
Theorem rect_roundtrip q s tail s2 p2 es2 es r n :
  qok s q -> rects s <> 0 -> 0 <= bypp s ->
  (forall x y w h, qpos q = (x, y, w, h) -> do_connection (enter_rect s x y w h) = Ok s2 (Some p2) es2) ->
  Drain s2 p2 tail es r n ->
  Drain s PRect (qwire q ++ tail) (qevents q ++ es2 ++ es) r (qsteps q + n).
Proof.
  intros Hq Hr Hbp Hd HD. destruct q as [x y w h px|x y w h sx sy|x y w h bg subs|x y w h bg subs|x y w h ts|x y w h img mask];
    cbn [qok qwire qevents qsteps qpos] in *; specialize (Hd x y w h eq_refl).
  - destruct Hq as (Hx & Hy & Hw & Hh & Hl & Hu). rewrite <- app_assoc.
    apply (raw_roundtrip s x y w h px tail s2 p2 es2 es r n Hx Hy Hw Hh Hr); assumption.
  - destruct Hq as (Hx & Hy & Hw & Hh & Hsx & Hsy). rewrite <- app_assoc.
    apply (copyrect_roundtrip s x y w h sx sy tail s2 p2 es2 es r n Hx Hy Hw Hh Hsx Hsy Hr); assumption.
  - destruct Hq as (Hx & Hy & Hw & Hh & Hbg & Hn & Hs & Hf0 & Hfs). rewrite <- app_assoc.
    apply (rre_roundtrip s x y w h bg subs tail s2 p2 es2 es r n Hx Hy Hw Hh Hr Hbp); assumption.
  - destruct Hq as (Hx & Hy & Hw & Hh & Hbg & Hn & Hs & Hf0 & Hfs). rewrite <- app_assoc.
    apply (corre_roundtrip s x y w h bg subs tail s2 p2 es2 es r n Hx Hy Hw Hh Hr Hbp); assumption.
  - destruct Hq as (Hx & Hy & Hw & Hh & Pw & Ph & Pb & Hc & Ht).
    replace (S (tiles_steps ts) + n)%nat with (S (tiles_steps ts + n)) by lia.
    apply (hextile_roundtrip s x y w h ts tail s2 p2 es2 es r n Hx Hy Hw Hh Pw Ph Hr Pb); try assumption.
  - destruct Hq as (Hx & Hy & Hw & Hh & Hi & Hm). rewrite <- app_assoc.
    apply (cursor_roundtrip s x y w h img mask tail s2 p2 es2 es r n Hx Hy Hw Hh Hr); assumption.
Qed.

Definition after_qrects (s : st) (rs : list qspec) : st :=
  s <| rects := rects s - len rs |> <| rectpos := rectpos s ++ map qpos rs |>.

Lemma enter_after_q s q rs x y w h : qpos q = (x, y, w, h) ->
  after_qrects (enter_rect s x y w h) rs = after_qrects s (q :: rs).
Proof.
  intros Ep. unfold after_qrects, enter_rect. cbn [map]. rewrite Ep, len_cons.
  unfold set. cbn [rects rectpos cf password username ver ver_server pf imode width height qemu_neg dh_gen dh_keylen dh_mod
                   challenge ztape waiter].
  replace (rects s - 1 - len rs) with (rects s - (1 + len rs)) by lia. rewrite <- app_assoc. reflexivity.
Qed.

Lemma after_qrects_nil s : after_qrects s [] = s.
Proof.
  destruct s as [a1 a2 a3 a4 a5 a6 a7 a8 a9 a10 a11 a12 a13 a14 a15 a16 a17 a18].
  unfold after_qrects, set. cbn [map Rfb.rects Rfb.rectpos]. rewrite len_nil, Z.sub_0_r, app_nil_r. reflexivity.
Qed.

Fixpoint sum_steps (rs : list qspec) : nat := match rs with [] => 0 | q :: r => qsteps q + sum_steps r end.

Theorem qrects_roundtrip : forall rs s tail es r n,
  rs <> [] -> rects s = len rs -> 0 <= bypp s -> Forall (qok s) rs ->
  let sf := after_qrects s rs in
  let '(sc, ces) := commit sf in
  Drain sc PConnection tail es r n ->
  Drain s PRect (concat (map qwire rs) ++ tail) (concat (map qevents rs) ++ ces ++ es) r (sum_steps rs + n).
Proof.
  induction rs as [|q rs IH]; intros s tail es r n Hne Hc Hbp Hok; [congruence|].
  pose proof (Forall_inv Hok) as Hq. pose proof (Forall_inv_tail Hok) as Hrs.
  cbv zeta. destruct (commit (after_qrects s (q :: rs))) as [sc ces] eqn:Ecommit. intros HD.
  assert (Hr : rects s <> 0) by (rewrite Hc, len_cons; pose proof (len_nonneg rs); lia).
  cbn [map concat sum_steps]. rewrite <- !app_assoc. rewrite <- Nat.add_assoc.
  destruct rs as [|q2 rs'].
  - (* the last rectangle: commit *)
    cbn [map concat app sum_steps Nat.add].
    apply (rect_roundtrip q s tail sc PConnection ces es r n Hq Hr Hbp); [|exact HD].
    intros x y w h Ep.
    assert (Es : enter_rect s x y w h = after_qrects s [q]).
    { rewrite <- (enter_after_q s q [] x y w h Ep). symmetry. apply after_qrects_nil. }
    rewrite Es. unfold do_connection.
    assert (R0 : rects (after_qrects s [q]) = 0).
    { unfold after_qrects, set. cbn [rects]. rewrite Hc. unfold len. cbn [List.length Z.of_nat]. lia. }
    rewrite R0. cbn [Z.eqb negb].
    assert (Rp : rectpos (after_qrects s [q]) <> []).
    { unfold after_qrects, set. cbn [rectpos map]. destruct (rectpos s); discriminate. }
    destruct (rectpos (after_qrects s [q])); [congruence|]. rewrite Ecommit. reflexivity.
  - (* more rectangles follow *)
    set (rs := q2 :: rs') in *.
    destruct (qpos q) as [[[x y] w] h] eqn:Ep.
    change (concat (map qevents rs) ++ ces ++ es) with ([] ++ (concat (map qevents rs) ++ ces ++ es)).
    apply (rect_roundtrip q s _ (enter_rect s x y w h) PRect [] _ r _ Hq Hr Hbp).
    + intros x' y' w' h' Ep'. rewrite Ep in Ep'. inversion Ep'; subst x' y' w' h'.
      unfold do_connection. unfold enter_rect at 1. unfold set. cbn [rects].
      rewrite Hc. unfold rs. rewrite !len_cons. pose proof (len_nonneg rs').
      destruct (Z.eqb_spec (1 + (1 + len rs') - 1) 0); [lia|]. reflexivity.
    + specialize (IH (enter_rect s x y w h) tail es r n ltac:(discriminate)).
      assert (Hc' : rects (enter_rect s x y w h) = len rs) by (unfold enter_rect, set; cbn [rects]; rewrite Hc, len_cons; lia).
      assert (Hok' : Forall (qok (enter_rect s x y w h)) rs).
      { eapply Forall_impl; [|exact Hrs]. intros a Ha. apply qok_enter. exact Ha. }
      specialize (IH Hc' Hbp Hok'). cbv zeta in IH.
      rewrite (enter_after_q s q rs x y w h Ep), Ecommit in IH. apply IH. exact HD.
Qed.

Theorem qupdate_roundtrip s pad rs tail es r n :
  rs <> [] -> len rs < 65536 -> 0 <= bypp s -> Forall (qok s) rs ->
  let sf := after_qrects (start_update s (len rs)) rs in
  let '(sc, ces) := commit sf in
  Drain sc PConnection tail es r n ->
  Drain s PConnection ([0; pad] ++ be_enc 2 (len rs) ++ concat (map qwire rs) ++ tail)
        ([EBegin] ++ concat (map qevents rs) ++ ces ++ es) r (2 + sum_steps rs + n).
Proof.
  intros Hne Hlt Hbp Hok. cbv zeta.
  destruct (commit (after_qrects (start_update s (len rs)) rs)) as [sc ces] eqn:Ec. intros HD.
  assert (Hn : u16ok (len rs)) by (split; [apply len_nonneg|exact Hlt]).
  destruct (u16_enc (len rs) Hn) as [En Un].
  assert (Hpos : len rs <> 0) by (destruct rs; [congruence|rewrite len_cons; pose proof (len_nonneg rs); lia]).
  change ([EBegin] ++ concat (map qevents rs) ++ ces ++ es) with ([] ++ [EBegin] ++ (concat (map qevents rs) ++ ces ++ es)).
  replace (2 + sum_steps rs + n)%nat with (S (S (sum_steps rs + n))) by lia.
  eapply D_step.
  - cbn [need]. change ([0; pad] ++ be_enc 2 (len rs) ++ concat (map qwire rs) ++ tail)
      with ([0] ++ ([pad] ++ be_enc 2 (len rs) ++ concat (map qwire rs) ++ tail)).
    change 1 with (len [0]). apply take_app_exact.
  - cbn [step]. unfold unpackZ, fmt_rfb_RFBClient_handleConnection_0.
    cbn [unpack fsize take Z.leb Z.compare Z.sub Z.add Z.opp Z.pos_sub Pos.compare Pos.compare_cont Pos.pred_double unpack1 map].
    change (be_dec [0]) with 0. change (0 =? S2C_FRAMEBUFFER_UPDATE) with true. cbv iota. reflexivity.
  - cbn [next_pend]. eapply D_step.
    + cbn [need]. rewrite En.
      change ([pad] ++ [len rs / 256; len rs mod 256] ++ concat (map qwire rs) ++ tail)
        with ([pad; len rs / 256; len rs mod 256] ++ (concat (map qwire rs) ++ tail)).
      change 3 with (len [pad; len rs / 256; len rs mod 256]). apply take_app_exact.
    + cbn [step]. unfold unpackZ, fmt_rfb_RFBClient_handleFramebufferUpdate_0.
      cbn [unpack fsize take Z.leb Z.compare Z.sub Z.add Z.opp Z.pos_sub Pos.compare Pos.compare_cont Pos.pred_double unpack1 map].
      rewrite be_dec2, Un. fold (start_update s (len rs)).
      unfold do_connection. replace (rects (start_update s (len rs)) =? 0) with false
        by (symmetry; apply Z.eqb_neq; unfold start_update, set; cbn [rects]; exact Hpos).
      cbn [negb prepend ok]. reflexivity.
    + cbn [next_pend app].
      pose proof (qrects_roundtrip rs (start_update s (len rs)) tail es r n Hne) as RT.
      cbv zeta in RT. rewrite Ec in RT. apply RT; [reflexivity|exact Hbp| |exact HD].
      eapply Forall_impl; [|exact Hok]. intros a Ha. destruct a; exact Ha.
Qed.

(** *** the state-changing pseudo-rectangles (one handler invocation each) *)

Definition DESKTOPSIZE_ENC : bytes := [255; 255; 255; 33].   (* -223 *)
Definition LASTRECT_ENC : bytes := [255; 255; 255; 32].      (* -224 *)
Definition QEMU_KEY_ENC : bytes := [255; 255; 254; 254].     (* -258 *)

(** DesktopSize (7.8.2): width and height of the rectangle become the framebuffer size, exactly one
    updateDesktopSize(w, h); the rectangle counts as one of the update's rectangles *)
Theorem desktopsize_roundtrip s x y w h tail s2 p2 es2 es r n :
  u16ok x -> u16ok y -> u16ok w -> u16ok h -> rects s <> 0 ->
  let s1 := enter_rect s x y w h <| width := w |> <| height := h |> in
  do_connection s1 = Ok s2 (Some p2) es2 ->
  Drain s2 p2 tail es r n ->
  Drain s PRect (rect_hdr x y w h DESKTOPSIZE_ENC ++ tail) ([EDesktopSize w h] ++ es2 ++ es) r (S n).
Proof.
  intros Hx Hy Hw Hh Hr s1 Hd HD. subst s1.
  destruct (rect_hdr_unpack x y w h DESKTOPSIZE_ENC tail Hx Hy Hw Hh eq_refl) as [Ht Hun].
  rewrite (app_assoc [EDesktopSize w h] es2 es).
  eapply D_step; [exact Ht| |].
  { cbn [step]. rewrite Hun. change (to_s32 (be_dec DESKTOPSIZE_ENC)) with (-223).
  change (-223 =? ENC_PSEUDO_LAST_RECT) with false. cbv iota.
  destruct (Z.eqb_spec (rects s) 0) as [E|_]; [contradiction|].
  change (-223 =? ENC_COPY_RECTANGLE) with false. change (-223 =? ENC_RAW) with false.
  change (-223 =? ENC_HEXTILE) with false. change (-223 =? ENC_CORRE) with false. change (-223 =? ENC_RRE) with false.
  change (-223 =? ENC_ZRLE) with false. change (-223 =? ENC_PSEUDO_CURSOR) with false.
  change (-223 =? ENC_PSEUDO_DESKTOP_SIZE) with true. cbv iota.
  fold (enter_rect s x y w h). rewrite Hd. reflexivity. }
  cbn [next_pend]. exact HD.
Qed.

(** LastRect (7.8.? / TightVNC): whatever the announced count, the update ends here; the marker itself
    is not one of the update's rectangles *)
Theorem lastrect_roundtrip s x y w h tail s2 p2 es2 es r n :
  u16ok x -> u16ok y -> u16ok w -> u16ok h ->
  do_connection (s <| rects := 0 |>) = Ok s2 (Some p2) es2 ->
  Drain s2 p2 tail es r n ->
  Drain s PRect (rect_hdr x y w h LASTRECT_ENC ++ tail) (es2 ++ es) r (S n).
Proof.
  intros Hx Hy Hw Hh Hd HD.
  destruct (rect_hdr_unpack x y w h LASTRECT_ENC tail Hx Hy Hw Hh eq_refl) as [Ht Hun].
  match goal with |- Drain _ _ _ ?E _ _ => change E with (es2 ++ es) end.
  eapply D_step; [exact Ht| |].
  { cbn [step]. rewrite Hun. change (to_s32 (be_dec LASTRECT_ENC)) with (-224).
  change (-224 =? ENC_PSEUDO_LAST_RECT) with true. cbv iota.
  change (rects (s <| rects := 0 |>) =? 0) with true. cbv iota. exact Hd. }
  cbn [next_pend]. exact HD.
Qed.

(** QEMU extended key event pseudo-encoding: the server accepts extended key events from now on; the
    marker is not one of the update's rectangles *)
Theorem qemu_key_roundtrip s x y w h tail s2 p2 es2 es r n :
  u16ok x -> u16ok y -> u16ok w -> u16ok h -> rects s <> 0 ->
  let s1 := enter_rect s x y w h in
  do_connection (s1 <| qemu_neg := true |> <| rectpos := removelast (rectpos s1) |>) = Ok s2 (Some p2) es2 ->
  Drain s2 p2 tail es r n ->
  Drain s PRect (rect_hdr x y w h QEMU_KEY_ENC ++ tail) (es2 ++ es) r (S n).
Proof.
  intros Hx Hy Hw Hh Hr s1 Hd HD. subst s1.
  destruct (rect_hdr_unpack x y w h QEMU_KEY_ENC tail Hx Hy Hw Hh eq_refl) as [Ht Hun].
  eapply D_step; [exact Ht| |].
  { cbn [step]. rewrite Hun. change (to_s32 (be_dec QEMU_KEY_ENC)) with (-258).
  change (-258 =? ENC_PSEUDO_LAST_RECT) with false. cbv iota.
  destruct (Z.eqb_spec (rects s) 0) as [E|_]; [contradiction|].
  change (-258 =? ENC_COPY_RECTANGLE) with false. change (-258 =? ENC_RAW) with false.
  change (-258 =? ENC_HEXTILE) with false. change (-258 =? ENC_CORRE) with false. change (-258 =? ENC_RRE) with false.
  change (-258 =? ENC_ZRLE) with false. change (-258 =? ENC_PSEUDO_CURSOR) with false.
  change (-258 =? ENC_PSEUDO_DESKTOP_SIZE) with false. change (-258 =? ENC_PSEUDO_QEMU_EXTENDED_KEY_EVENT) with true. cbv iota.
  fold (enter_rect s x y w h). exact Hd. }
  cbn [next_pend]. exact HD.
Qed.
