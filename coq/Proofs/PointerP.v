(** Pointer operations: the mask algebra of the code against a set-of-held-buttons spec,
    and the geometry of mouseDrag. *)
From Coq Require Import ZArith List Bool Lia.
From VD Require Import Base.Bytes Base.BytesP Model.ClientMsgs Model.Pointer Spec.C2S Proofs.C2SP.
Import ListNotations.
Open Scope Z_scope.

(** spec: which of buttons 1..8 are held *)
Definition held := Z -> bool.
Definition bit (h : held) (b w : Z) : Z := if h b then w else 0.
Definition mask_of (h : held) : Z :=
  bit h 1 1 + bit h 2 2 + bit h 3 4 + bit h 4 8 + bit h 5 16 + bit h 6 32 + bit h 7 64 + bit h 8 128.
Definition set_held (h : held) (b : Z) (v : bool) : held := fun b' => if b' =? b then v else h b'.
Definition none_held : held := fun _ => false.

Lemma mask_of_range h : 0 <= mask_of h <= 255.
Proof. unfold mask_of, bit. destruct (h 1), (h 2), (h 3), (h 4), (h 5), (h 6), (h 7), (h 8); lia. Qed.

Lemma button_cases b : 1 <= b <= 8 -> b = 1 \/ b = 2 \/ b = 3 \/ b = 4 \/ b = 5 \/ b = 6 \/ b = 7 \/ b = 8.
Proof. lia. Qed.

Lemma mask_down h b : 1 <= b <= 8 ->
  Z.lor (mask_of h) (Z.shiftl 1 (b - 1)) = mask_of (set_held h b true).
Proof.
  intros Hb. unfold mask_of, bit, set_held.
  destruct (button_cases b Hb) as [E|[E|[E|[E|[E|[E|[E|E]]]]]]]; subst b; cbn [Z.eqb Pos.eqb Z.sub Z.add Z.opp Z.pos_sub Pos.pred_double];
    destruct (h 1), (h 2), (h 3), (h 4), (h 5), (h 6), (h 7), (h 8); reflexivity.
Qed.

Lemma mask_up h b : 1 <= b <= 8 ->
  Z.land (mask_of h) (Z.lnot (Z.shiftl 1 (b - 1))) = mask_of (set_held h b false).
Proof.
  intros Hb. unfold mask_of, bit, set_held.
  destruct (button_cases b Hb) as [E|[E|[E|[E|[E|[E|[E|E]]]]]]]; subst b; cbn [Z.eqb Pos.eqb Z.sub Z.add Z.opp Z.pos_sub Pos.pred_double];
    destruct (h 1), (h 2), (h 3), (h 4), (h 5), (h 6), (h 7), (h 8); reflexivity.
Qed.

(** spec state and the abstraction relation *)
Record sstate := mk_ss { s_x : Z; s_y : Z; s_held : held }.
Definition ss0 : sstate := mk_ss 0 0 none_held.

Definition Rel (p : ptr) (s : sstate) : Prop :=
  px p = s_x s /\ py p = s_y s /\ pbuttons p = mask_of (s_held s) /\
  0 <= s_x s <= 65535 /\ 0 <= s_y s <= 65535.

Lemma Rel0 : Rel ptr0 ss0.
Proof. unfold Rel; cbn. repeat split; lia. Qed.

Definition ev (s : sstate) : c2s := MPointerEvent (mask_of (s_held s)) (s_x s) (s_y s).

Lemma move_ok p s x y :
  Rel p s -> 0 <= x <= 65535 -> 0 <= y <= 65535 ->
  let s' := mk_ss x y (s_held s) in
  exists p' w, mouseMove p x y = (p', Some w) /\ Rel p' s' /\ Parses w [ev s'].
Proof.
  intros (Hx & Hy & Hb & Rx & Ry) Bx By s'. unfold mouseMove.
  pose proof (mask_of_range (s_held s)).
  destruct (pointerEvent_parses x y (pbuttons p)) as (w & E & P); unfold rng; try lia.
  exists (mk_ptr x y (pbuttons p)), w. split; [rewrite E; reflexivity|].
  split; [unfold Rel; cbn; repeat split; try lia; assumption|].
  unfold ev; cbn. rewrite <- Hb. exact P.
Qed.

Lemma down_ok p s b :
  Rel p s -> 1 <= b <= 8 ->
  let s' := mk_ss (s_x s) (s_y s) (set_held (s_held s) b true) in
  exists p' w, mouseDown p b = (p', Some w) /\ Rel p' s' /\ Parses w [ev s'].
Proof.
  intros (Hx & Hy & Hb & Rx & Ry) Bb s'. unfold mouseDown.
  destruct (Z.ltb_spec (b - 1) 0); [lia|].
  rewrite Hb, mask_down by assumption.
  pose proof (mask_of_range (set_held (s_held s) b true)).
  destruct (pointerEvent_parses (px p) (py p) (mask_of (set_held (s_held s) b true))) as (w & E & P);
    unfold rng; try lia.
  eexists _, w. split; [rewrite E; reflexivity|].
  split; [unfold Rel; cbn; repeat split; try lia; assumption|].
  unfold ev; cbn. rewrite <- Hx, <- Hy. exact P.
Qed.

Lemma up_ok p s b :
  Rel p s -> 1 <= b <= 8 ->
  let s' := mk_ss (s_x s) (s_y s) (set_held (s_held s) b false) in
  exists p' w, mouseUp p b = (p', Some w) /\ Rel p' s' /\ Parses w [ev s'].
Proof.
  intros (Hx & Hy & Hb & Rx & Ry) Bb s'. unfold mouseUp.
  destruct (Z.ltb_spec (b - 1) 0); [lia|].
  rewrite Hb, mask_up by assumption.
  pose proof (mask_of_range (set_held (s_held s) b false)).
  destruct (pointerEvent_parses (px p) (py p) (mask_of (set_held (s_held s) b false))) as (w & E & P);
    unfold rng; try lia.
  eexists _, w. split; [rewrite E; reflexivity|].
  split; [unfold Rel; cbn; repeat split; try lia; assumption|].
  unfold ev; cbn. rewrite <- Hx, <- Hy. exact P.
Qed.

Lemma press_ok p s b :
  Rel p s -> 1 <= b <= 8 ->
  let s1 := mk_ss (s_x s) (s_y s) (set_held (s_held s) b true) in
  let s2 := mk_ss (s_x s) (s_y s) (set_held (set_held (s_held s) b true) b false) in
  exists p' w, mousePress p b = (p', Some w) /\ Rel p' s2 /\ Parses w [ev s1; ev s2].
Proof.
  intros R Bb s1 s2. unfold mousePress.
  destruct (down_ok p s b R Bb) as (p1 & w1 & E1 & R1 & P1). rewrite E1.
  destruct (up_ok p1 _ b R1 Bb) as (p2 & w2 & E2 & R2 & P2). cbn [s_x s_y s_held] in *. rewrite E2.
  exists p2, (w1 ++ w2). split; [reflexivity|]. split; [exact R2|].
  change [ev s1; ev s2] with ([ev s1] ++ [ev s2]). apply Parses_app; assumption.
Qed.

(** --- drag geometry --- *)

Lemma drag_steps_range fuel s0 step dmax s :
  In s (drag_steps fuel s0 step dmax) -> 1 <= step -> s0 <= s < dmax.
Proof.
  revert s0; induction fuel as [|f IH]; intros s0 H Hs; cbn [drag_steps] in H; [destruct H|].
  destruct (Z.ltb_spec s0 dmax); [|destruct H].
  destruct H as [<-|H]; [lia|]. apply IH in H; lia.
Qed.

(** every multiple of [step] below [dmax] is visited when the fuel suffices *)
Lemma drag_steps_complete fuel s0 step dmax k :
  1 <= step -> 0 <= k -> s0 + k * step < dmax -> (Z.to_nat (dmax - s0) <= fuel)%nat ->
  In (s0 + k * step) (drag_steps fuel s0 step dmax).
Proof.
  intros Hs. revert s0 k. induction fuel as [|f IH]; intros s0 k Hk Hlt Hf.
  - assert (0 <= k * step) by nia. lia.
  - cbn [drag_steps]. assert (0 <= k * step) by nia.
    destruct (Z.ltb_spec s0 dmax); [|lia].
    destruct (Z.eq_dec k 0) as [->|Hk0]; [left; lia|right].
    replace (s0 + k * step) with ((s0 + step) + (k - 1) * step) by lia.
    apply IH; try lia; nia.
Qed.

Lemma drag_steps_multiples fuel s0 step dmax s :
  In s (drag_steps fuel s0 step dmax) -> exists k, 0 <= k /\ s = s0 + k * step.
Proof.
  revert s0; induction fuel as [|f IH]; intros s0 H; cbn [drag_steps] in H; [destruct H|].
  destruct (s0 <? dmax); [|destruct H].
  destruct H as [<-|H]; [exists 0; lia|].
  apply IH in H as (k & Hk & ->). exists (k + 1). lia.
Qed.

(** an intermediate point is the floor of the exact point of the segment, on each axis *)
Lemma drag_point_floor d s dmax :
  0 < dmax -> let q := d * s / dmax in dmax * q <= d * s < dmax * q + dmax.
Proof.
  intros H q. subst q. pose proof (Z.div_mod (d * s) dmax ltac:(lia)).
  pose proof (Z.mod_pos_bound (d * s) dmax H). lia.
Qed.

Lemma drag_point_box o t s dmax :
  Z.abs (t - o) <= dmax -> 0 <= s < dmax ->
  Z.min o t <= o + (t - o) * s / dmax <= Z.max o t.
Proof.
  intros Hd Hs. assert (0 < dmax) by lia.
  pose proof (drag_point_floor (t - o) s dmax H) as F. cbv zeta in F.
  set (q := (t - o) * s / dmax) in *.
  destruct (Z.le_gt_cases o t).
  - rewrite Z.abs_eq in Hd by lia. assert (0 <= q) by nia. assert (q <= t - o) by nia. lia.
  - rewrite Z.abs_neq in Hd by lia. assert (q <= 0) by nia. assert (t - o <= q) by nia. lia.
Qed.

Lemma drag_point_mono d s1 s2 dmax :
  0 < dmax -> s1 <= s2 ->
  (0 <= d -> d * s1 / dmax <= d * s2 / dmax) /\ (d <= 0 -> d * s2 / dmax <= d * s1 / dmax).
Proof.
  intros H Hs. split; intros Hd; apply Z.div_le_mono; nia.
Qed.

Lemma drag_points_in_range ox oy x y step pt :
  0 <= ox <= 65535 -> 0 <= oy <= 65535 -> 0 <= x <= 65535 -> 0 <= y <= 65535 -> 1 <= step ->
  In pt (drag_points ox oy x y step) -> 0 <= fst pt <= 65535 /\ 0 <= snd pt <= 65535.
Proof.
  intros Hox Hoy Hx Hy Hs H. unfold drag_points in H. apply in_app_or in H as [H|[<-|[]]]; [|cbn; lia].
  apply in_map_iff in H as (s & <- & Hin).
  destruct (Z.leb_spec step 0); [lia|].
  apply drag_steps_range in Hin; [|lia]. cbn [fst snd].
  pose proof (drag_point_box ox x s _ (Z.le_max_l _ _) Hin).
  pose proof (drag_point_box oy y s _ (Z.le_max_r _ _) Hin). lia.
Qed.

Lemma last_cons_default {A} (a : A) l d1 d2 : last (a :: l) d1 = last (a :: l) d2.
Proof. revert a; induction l as [|b l IH]; intros a; [reflexivity|]. cbn [last] in *. apply IH. Qed.

(** a sequence of moves *)
Lemma moves_ok pts : forall p s,
  Rel p s -> Forall (fun pt => 0 <= fst pt <= 65535 /\ 0 <= snd pt <= 65535) pts ->
  exists p' ws, moves p pts = (p', Some ws) /\
    Rel p' (mk_ss (fst (last pts (s_x s, s_y s))) (snd (last pts (s_x s, s_y s))) (s_held s)) /\
    Parses (concat ws) (map (fun pt => MPointerEvent (mask_of (s_held s)) (fst pt) (snd pt)) pts).
Proof.
  induction pts as [|[x y] pts IH]; intros p s R H.
  - exists p, []. split; [reflexivity|]. split; [destruct s; exact R|constructor].
  - inversion H as [|? ? Hpt Hr]; subst. cbn [fst snd] in Hpt.
    destruct (move_ok p s x y R) as (p1 & w & E & R1 & P1); try lia.
    destruct (IH p1 _ R1 Hr) as (p2 & ws & E2 & R2 & P2). cbn [s_x s_y s_held] in *.
    cbn [moves]. rewrite E, E2. exists p2, (w :: ws). split; [reflexivity|]. split.
    + destruct pts as [|pt2 pts]; [exact R2|].
      rewrite (last_cons_default pt2 pts (x, y) (s_x s, s_y s)) in R2. exact R2.
    + cbn [concat map fst snd].
      change (?a :: ?l) with ([a] ++ l). apply Parses_app; assumption.
Qed.
