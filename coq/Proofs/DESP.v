(** DES is invertible (FIPS 46-3 structure): decryption with the reversed key schedule undoes encryption. *)
From Coq Require Import ZArith List Bool Lia.
From VD Require Import Spec.DES.
Import ListNotations.

Lemma xor_bits_length a b : length (xor_bits a b) = Nat.min (length a) (length b).
Proof. unfold xor_bits. rewrite map_length, combine_length. reflexivity. Qed.

Lemma xor_bits_involutive : forall a b, (length a <= length b)%nat -> xor_bits (xor_bits a b) b = a.
Proof.
  induction a as [|x a IH]; intros [|y b] H; cbn in *; try reflexivity; try lia.
  unfold xor_bits in *. cbn. rewrite IH by lia. destruct x, y; reflexivity.
Qed.

Lemma permute_length tbl l : length (permute tbl l) = length tbl.
Proof. unfold permute. apply map_length. Qed.

Lemma feistel_length r k : length (feistel r k) = 32%nat.
Proof. unfold feistel. rewrite permute_length. reflexivity. Qed.

Lemma rounds_app a : forall b l r,
  rounds (a ++ b) l r = let '(l1, r1) := rounds a l r in rounds b l1 r1.
Proof. induction a as [|k a IH]; intros b l r; cbn [app rounds]; [reflexivity|apply IH]. Qed.

Lemma rounds_inv ks : forall l r l' r',
  length l = 32%nat -> length r = 32%nat ->
  rounds ks l r = (l', r') ->
  rounds (rev ks) r' l' = (r, l) /\ length l' = 32%nat /\ length r' = 32%nat.
Proof.
  induction ks as [|k ks IH]; intros l r l' r' Hl Hr H; cbn [rounds rev] in *.
  - inversion H; subst. auto.
  - assert (Hx : length (xor_bits l (feistel r k)) = 32%nat)
      by (rewrite xor_bits_length, feistel_length, Hl; reflexivity).
    destruct (IH _ _ _ _ Hr Hx H) as (E & Hl' & Hr').
    split; [|split; assumption].
    rewrite rounds_app, E. cbn [rounds].
    rewrite xor_bits_involutive by (rewrite feistel_length, Hl; lia). reflexivity.
Qed.

Lemma fp_ip : forall l, length l = 64%nat -> permute FP (permute IP l) = l.
Proof.
  intros l H.
  do 64 (destruct l as [|? l]; [discriminate|]). destruct l; [reflexivity|discriminate].
Qed.

Lemma ip_fp : forall l, length l = 64%nat -> permute IP (permute FP l) = l.
Proof.
  intros l H.
  do 64 (destruct l as [|? l]; [discriminate|]). destruct l; [reflexivity|discriminate].
Qed.

Lemma firstn_skipn_32 (l : bits) : length l = 64%nat -> length (firstn 32 l) = 32%nat /\ length (skipn 32 l) = 32%nat.
Proof. intros H. rewrite firstn_length, skipn_length, H. split; reflexivity. Qed.

Theorem crypt_inverse ks block : length block = 64%nat -> crypt (rev ks) (crypt ks block) = block.
Proof.
  intros H. unfold crypt at 2.
  set (ip := permute IP block).
  assert (Hip : length ip = 64%nat) by (unfold ip; rewrite permute_length; reflexivity).
  destruct (firstn_skipn_32 ip Hip) as [H1 H2].
  destruct (rounds ks (firstn 32 ip) (skipn 32 ip)) as [l r] eqn:E.
  destruct (rounds_inv ks _ _ _ _ H1 H2 E) as (Einv & Hl & Hr).
  unfold crypt. rewrite ip_fp by (rewrite app_length, Hl, Hr; reflexivity).
  rewrite firstn_app, skipn_app, Hr, Nat.sub_diag, firstn_all2, skipn_all2 by lia.
  cbn [firstn skipn]. rewrite app_nil_r. cbn [app]. rewrite Einv.
  rewrite firstn_skipn. unfold ip. apply fp_ip. exact H.
Qed.

Theorem des_decrypt_encrypt key block : length block = 64%nat -> des_decrypt key (des_encrypt key block) = block.
Proof. intros H. unfold des_decrypt, des_encrypt. apply crypt_inverse. exact H. Qed.

Lemma crypt_length ks block : length (crypt ks block) = 64%nat.
Proof.
  unfold crypt. destruct (rounds ks _ _). rewrite permute_length. reflexivity.
Qed.

(** *** bytes <-> bits *)
Open Scope Z_scope.

Lemma byte_bits_val : forall b7 b6 b5 b4 b3 b2 b1 b0 : bool,
  byte_bits (bits_val [b7; b6; b5; b4; b3; b2; b1; b0] 0) = [b7; b6; b5; b4; b3; b2; b1; b0].
Proof. intros [] [] [] [] [] [] [] []; reflexivity. Qed.

Lemma bits_bytes_bits : forall n l, length l = (8 * n)%nat -> bits_of_bytes (bytes_of_bits n l) = l.
Proof.
  induction n as [|n IH]; intros l H.
  - destruct l; [reflexivity|cbn in H; discriminate].
  - replace (8 * S n)%nat with (S (S (S (S (S (S (S (S (8 * n))))))))) in H by lia.
    do 8 (destruct l as [|? l]; [discriminate|]).
    cbn [bytes_of_bits firstn skipn bits_of_bytes flat_map]. rewrite byte_bits_val.
    cbn [app]. repeat f_equal. apply IH. cbn [length] in H. lia.
Qed.

Fixpoint zrange (n : nat) : list Z :=
  match n with O => [] | S k => zrange k ++ [Z.of_nat k] end.
Lemma zrange_In n z : 0 <= z < Z.of_nat n -> In z (zrange n).
Proof.
  induction n as [|n IH]; intros H; [lia|]. cbn [zrange]. apply in_or_app.
  destruct (Z.eq_dec z (Z.of_nat n)) as [->|Hne]; [right; left; reflexivity|left; apply IH; lia].
Qed.

Lemma val_byte_bits b : 0 <= b < 256 -> bits_val (byte_bits b) 0 = b.
Proof.
  intros H.
  assert (A : forallb (fun b => bits_val (byte_bits b) 0 =? b) (zrange 256) = true) by (vm_compute; reflexivity).
  rewrite forallb_forall in A. apply Z.eqb_eq, A, zrange_In. exact H.
Qed.

Lemma bytes_bits_bytes : forall l, Forall (fun b => 0 <= b < 256) l -> bytes_of_bits (length l) (bits_of_bytes l) = l.
Proof.
  induction l as [|b l IH]; intros H; [reflexivity|]. inversion H as [|? ? Hb Hl]; subst.
  cbn [length bits_of_bytes flat_map]. fold (bits_of_bytes l).
  assert (E : forall n r, bytes_of_bits (S n) (byte_bits b ++ r) = bits_val (byte_bits b) 0 :: bytes_of_bits n r) by reflexivity.
  rewrite E, val_byte_bits by assumption. f_equal. apply IH. assumption.
Qed.

Lemma bits_of_bytes_length l : length (bits_of_bytes l) = (8 * length l)%nat.
Proof. induction l as [|b l IH]; [reflexivity|]. cbn [bits_of_bytes flat_map]. rewrite app_length. fold (bits_of_bytes l). rewrite IH. cbn. lia. Qed.

Theorem des_bytes_inverse key block :
  length block = 8%nat -> Forall (fun b => 0 <= b < 256) block ->
  des_decrypt_bytes key (des_encrypt_bytes key block) = block.
Proof.
  intros Hl Hb. unfold des_decrypt_bytes, des_encrypt_bytes.
  rewrite (bits_bytes_bits 8) by (unfold des_encrypt; rewrite crypt_length; reflexivity).
  rewrite des_decrypt_encrypt by (rewrite bits_of_bytes_length, Hl; reflexivity).
  rewrite <- Hl at 1. apply bytes_bits_bytes. exact Hb.
Qed.

Lemma des_encrypt_bytes_length key block : length (des_encrypt_bytes key block) = 8%nat.
Proof.
  unfold des_encrypt_bytes.
  assert (forall n l, length l = (8 * n)%nat -> length (bytes_of_bits n l) = n) as A.
  { induction n as [|n IH]; intros l H; [reflexivity|].
    replace (8 * S n)%nat with (S (S (S (S (S (S (S (S (8 * n))))))))) in H by lia.
    do 8 (destruct l as [|? l]; [discriminate|]). cbn [bytes_of_bits firstn skipn length]. f_equal. apply IH.
    cbn [length] in H. lia. }
  apply A. unfold des_encrypt. rewrite crypt_length. reflexivity.
Qed.
