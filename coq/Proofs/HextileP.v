(** Hextile (RFC 6143 §7.7.4) round trip in continuation form (C02): a rectangle written tile by tile as
    the RFC says - raw tiles, or background / foreground / subrectangles with the colours carried over
    from earlier tiles (also across raw tiles) - is consumed exactly and produces exactly one update per raw tile, one
    background fill per other tile and one fill per subrectangle, in order, at the right offsets. *)
From Coq Require Import ZArith List Bool Lia.
From RecordUpdate Require Import RecordSet.
Import RecordSetNotations.
From VD Require Import Base.Bytes Base.BytesP Base.Struct Gen.Tables Gen.Formats.
From VD Require Import Model.Engine Model.ClientMsgs Model.Auth Model.Rfb Spec.C2S Proofs.C2SP Proofs.DecodeP Proofs.RreP.
Import ListNotations.
Open Scope Z_scope.

(** *** what a server writes *)

(* a subrectangle inside a tile: position 0..15, size 1..16 *)
Definition hsub := (Z * Z * Z * Z)%type.

Inductive hsubs :=
| HNone                                   (* AnySubrects clear *)
| HFg (l : list hsub)                     (* subrectangles in the foreground colour *)
| HCol (l : list (bytes * hsub)).         (* SubrectsColoured: each with its own pixel *)

Inductive htile :=
| HRaw (px : bytes)
| HSub (bgo fgo : option bytes) (subs : hsubs).

Definition sub_byte (bgo fgo : option bytes) (subs : hsubs) : Z :=
  (match bgo with Some _ => 2 | None => 0 end) + (match fgo with Some _ => 4 | None => 0 end) +
  (match subs with HNone => 0 | HFg _ => 8 | HCol _ => 24 end).

Definition xy_byte (q : hsub) : Z := let '(sx, sy, _, _) := q in sx * 16 + sy.
Definition wh_byte (q : hsub) : Z := let '(_, _, sw, sh) := q in (sw - 1) * 16 + (sh - 1).

Definition opt_bytes (o : option bytes) : bytes := match o with Some c => c | None => [] end.

Definition wire_subs (subs : hsubs) : bytes :=
  match subs with
  | HNone => []
  | HFg l => [len l] ++ concat (map (fun q => [xy_byte q; wh_byte q]) l)
  | HCol l => [len l] ++ concat (map (fun cq => fst cq ++ [xy_byte (snd cq); wh_byte (snd cq)]) l)
  end.

Definition wire_tile (t : htile) : bytes :=
  match t with
  | HRaw px => [1] ++ px
  | HSub bgo fgo subs => [sub_byte bgo fgo subs] ++ (opt_bytes bgo ++ opt_bytes fgo) ++ wire_subs subs
  end.

Definition hsub_ok (q : hsub) : Prop := let '(sx, sy, sw, sh) := q in 0 <= sx < 16 /\ 0 <= sy < 16 /\ 1 <= sw <= 16 /\ 1 <= sh <= 16.

(** *** nibbles and flags *)

Lemma nibbles a b : 0 <= a < 16 -> 0 <= b < 16 -> Z.shiftr (a * 16 + b) 4 = a /\ Z.land (a * 16 + b) 15 = b.
Proof.
  intros Ha Hb. split.
  - rewrite Z.shiftr_div_pow2 by lia. change (2 ^ 4) with 16. symmetry. apply Z.div_unique with (r := b); lia.
  - change 15 with (Z.ones 4). rewrite Z.land_ones by lia. change (2 ^ 4) with 16.
    symmetry. apply Z.mod_unique with (q := a); lia.
Qed.

Lemma xy_dec q : hsub_ok q -> let '(sx, sy, _, _) := q in Z.shiftr (xy_byte q) 4 = sx /\ Z.land (xy_byte q) 15 = sy.
Proof. destruct q as [[[sx sy] sw] sh]. intros (Hx & Hy & _). cbn [xy_byte]. apply nibbles; assumption. Qed.

Lemma wh_dec q : hsub_ok q -> let '(_, _, sw, sh) := q in Z.shiftr (wh_byte q) 4 + 1 = sw /\ Z.land (wh_byte q) 15 + 1 = sh.
Proof.
  destruct q as [[[sx sy] sw] sh]. intros (_ & _ & Hw & Hh). cbn [wh_byte].
  destruct (nibbles (sw - 1) (sh - 1)) as [A B]; lia.
Qed.

Lemma has_flags bgo fgo subs :
  has (sub_byte bgo fgo subs) HEX_RAW = false /\
  has (sub_byte bgo fgo subs) HEX_BACKGROUND_SPECIFIED = (match bgo with Some _ => true | None => false end) /\
  has (sub_byte bgo fgo subs) HEX_FOREGROUND_SPECIFIED = (match fgo with Some _ => true | None => false end) /\
  has (sub_byte bgo fgo subs) HEX_ANY_SUBRECTS = (match subs with HNone => false | _ => true end) /\
  has (sub_byte bgo fgo subs) HEX_SUBRECTS_COLORED = (match subs with HCol _ => true | _ => false end).
Proof. destruct bgo, fgo, subs; repeat split; reflexivity. Qed.

(** *** subrectangle lists *)

Definition place_sub (tx ty : Z) (q : hsub) (c : bytes) : Z * Z * Z * Z * bytes :=
  let '(sx, sy, sw, sh) := q in (tx + sx, ty + sy, sw, sh, c).

Lemma hex_fg_dec tx ty : forall l, Forall hsub_ok l ->
  hex_subrects_fg (concat (map (fun q => [xy_byte q; wh_byte q]) l)) tx ty =
  Some (map (fun q => let '(sx, sy, sw, sh) := q in (tx + sx, ty + sy, sw, sh)) l).
Proof.
  induction l as [|q l IH]; intros H; [reflexivity|].
  pose proof (Forall_inv H) as Hq. pose proof (Forall_inv_tail H) as Hl.
  cbn [map concat app hex_subrects_fg]. rewrite (IH Hl).
  pose proof (xy_dec q Hq) as X. pose proof (wh_dec q Hq) as W. destruct q as [[[sx sy] sw] sh].
  destruct X as [X1 X2]. destruct W as [W1 W2]. rewrite X1, X2, W1, W2. reflexivity.
Qed.

Definition col_ok (bp : Z) (cq : bytes * hsub) : Prop := len (fst cq) = bp /\ hsub_ok (snd cq).

Lemma hex_col_dec bp tx ty : 0 <= bp -> forall l fuel last, Forall (col_ok bp) l -> (List.length l <= fuel)%nat ->
  hex_subrects_col fuel (concat (map (fun cq => fst cq ++ [xy_byte (snd cq); wh_byte (snd cq)]) l)) bp tx ty last =
  Some (map (fun cq => place_sub tx ty (snd cq) (fst cq)) l, match rev l with [] => last | cq :: _ => Some (fst cq) end).
Proof.
  intros Hbp. induction l as [|[c q] l IH]; intros fuel last H Hf.
  - destruct fuel; reflexivity.
  - destruct fuel as [|fuel]; [cbn [List.length] in Hf; lia|].
    pose proof (Forall_inv H) as [Hc Hq]. pose proof (Forall_inv_tail H) as Hl. cbn [fst snd] in Hc, Hq.
    cbn [map concat fst snd hex_subrects_col]. rewrite <- !app_assoc.
    rewrite nonempty_match by (rewrite len_app, len_app; unfold len at 2; cbn [List.length Z.of_nat]; pose proof (len_nonneg c);
                               pose proof (len_nonneg (concat (map (fun cq => fst cq ++ [xy_byte (snd cq); wh_byte (snd cq)]) l))); lia).
    rewrite <- Hc, take_app_exact. cbn [app]. rewrite Hc.
    assert (E := IH fuel (Some c) Hl ltac:(cbn [List.length] in Hf; lia)). unfold bytes in *. rewrite E. clear E.
    pose proof (xy_dec q Hq) as X. pose proof (wh_dec q Hq) as W. destruct q as [[[sx sy] sw] sh].
    destruct X as [X1 X2]. destruct W as [W1 W2]. rewrite X1, X2, W1, W2. cbn [place_sub map].
    f_equal. f_equal. cbn [rev]. destruct (rev l) as [|cq r] eqn:Er; reflexivity.
Qed.

(** *** list positions *)

Lemma firstn_len_app {A} (c r : list A) : firstn (Z.to_nat (len c)) (c ++ r) = c.
Proof. unfold len. rewrite Nat2Z.id. rewrite firstn_app, Nat.sub_diag, firstn_all. cbn [firstn]. apply app_nil_r. Qed.

Lemma skipn_len_app {A} (c r : list A) : skipn (Z.to_nat (len c)) (c ++ r) = r.
Proof. unfold len. rewrite Nat2Z.id. rewrite skipn_app, Nat.sub_diag, skipn_all. reflexivity. Qed.

Lemma nth_len_app (c r : list Z) n : nth (Z.to_nat (len c)) (c ++ n :: r) 0 = n.
Proof. unfold len. rewrite Nat2Z.id. rewrite app_nth2 by lia. rewrite Nat.sub_diag. reflexivity. Qed.

Lemma nth_len2_app (a b r : list Z) n : nth (Z.to_nat (len a + len b)) (a ++ b ++ n :: r) 0 = n.
Proof. rewrite app_assoc, <- len_app. apply nth_len_app. Qed.

(** *** the walk over one rectangle *)

Section Walk.
  Variable s : st.
  Variables x y w h : Z.
  Hypothesis Hbp : 0 < bypp s.

  Definition tile_w (tx : Z) : Z := if x + w - tx <? 16 then x + w - tx else 16.
  Definition tile_h (ty : Z) : Z := if y + h - ty <? 16 then y + h - ty else 16.

  Definition next_pos (tx ty : Z) : option (Z * Z) :=
    let tx1 := tx + 16 in
    let '(tx2, ty2) := if tx1 >=? x + w then (x, ty + 16) else (tx1, ty) in
    if (ty2 >=? y + h) || (tx2 >=? x + w) then None else Some (tx2, ty2).

  Lemma hex_next_eq bg fg tx ty :
    hex_next s bg fg x y w h tx ty =
    match next_pos tx ty with None => do_connection s | Some (a, b) => ok s (PHextile bg fg x y w h a b) [] end.
  Proof.
    unfold hex_next, next_pos. cbv zeta. destruct (tx + 16 >=? x + w).
    - destruct ((ty + 16 >=? y + h) || (x >=? x + w)); reflexivity.
    - destruct ((ty >=? y + h) || (tx + 16 >=? x + w)); reflexivity.
  Qed.

  (* what must hold of the rest of the stream once a tile is done *)
  Definition AfterNext (cbg cfg : option bytes) (tx ty : Z) (buf : bytes) (evs : list ev) (r : outcome st pend) (n : nat) : Prop :=
    match hex_next s cbg cfg x y w h tx ty with
    | Ok s' (Some p') es' => exists evs', evs = es' ++ evs' /\ Drain s' p' buf evs' r n
    | _ => False
    end.

  (* the colours a well-behaved encoder may rely on (spec) are held by the client *)
  Definition compat (sb sf cb cf : option bytes) : Prop :=
    (forall c, sb = Some c -> cb = Some c) /\ (forall c, sf = Some c -> cf = Some c).

  Definition eff (o carried : option bytes) : option bytes := match o with Some c => Some c | None => carried end.

  Definition opt_len_ok (o : option bytes) : Prop := match o with Some c => len c = bypp s | None => True end.

  Definition tile_ok (tx ty : Z) (sbg sfg : option bytes) (t : htile) : Prop :=
    match t with
    | HRaw px => len px = tile_w tx * tile_h ty * bypp s /\ upd_raises s (tile_w tx) (tile_h ty) (len px) = false
    | HSub bgo fgo subs =>
        opt_len_ok bgo /\ opt_len_ok fgo /\
        exists bgc, eff bgo sbg = Some bgc /\ fill_ok s (tx, ty, tile_w tx, tile_h ty, bgc) /\
          match subs with
          | HNone => True
          | HFg l => len l < 256 /\ Forall hsub_ok l /\
                     (l <> [] -> exists fgc, eff fgo sfg = Some fgc /\ Forall (fill_ok s) (map (fun q => place_sub tx ty q fgc) l))
          | HCol l => len l < 256 /\ Forall (col_ok (bypp s)) l /\
                      Forall (fill_ok s) (map (fun cq => place_sub tx ty (snd cq) (fst cq)) l)
          end
    end.

  Definition tile_events (tx ty : Z) (sbg sfg : option bytes) (t : htile) : list ev :=
    match t with
    | HRaw px => [EUpd tx ty (tile_w tx) (tile_h ty) px]
    | HSub bgo fgo subs =>
        (match eff bgo sbg with Some bgc => [EFill tx ty (tile_w tx) (tile_h ty) bgc] | None => [] end) ++
        match subs with
        | HNone => []
        | HFg l => match eff fgo sfg with Some fgc => map fill_ev (map (fun q => place_sub tx ty q fgc) l) | None => [] end
        | HCol l => map fill_ev (map (fun cq => place_sub tx ty (snd cq) (fst cq)) l)
        end
    end.

  (* what a later tile may rely on: colours survive a raw tile ("the same as the last tile"); after coloured
     subrectangles the foreground is not relied upon (the code carries the LAST SUBRECTANGLE's colour on as the
     foreground - encoders such as libvncserver's and TigerVNC's re-specify it; see DESIGN.md section 5) *)
  Definition next_bg (t : htile) (sbg : option bytes) : option bytes :=
    match t with HRaw _ => sbg | HSub bgo _ _ => eff bgo sbg end.
  Definition next_fg (t : htile) (sfg : option bytes) : option bytes :=
    match t with HRaw _ => sfg | HSub _ fgo subs => match subs with HCol _ => None | _ => eff fgo sfg end end.

  Definition tile_steps (t : htile) : nat :=
    match t with
    | HRaw _ => 2
    | HSub None None HNone => 1
    | HSub _ _ HNone | HSub _ _ (HFg []) | HSub _ _ (HCol []) => 2
    | HSub _ _ _ => 3
    end.

  Lemma compat_refl_weak cb cf : compat None None cb cf.
  Proof. split; intros c E; discriminate. Qed.

  Lemma fill_one tx ty c k : fill_ok s (tx, ty, tile_w tx, tile_h ty, c) ->
    fill s tx ty (tile_w tx) (tile_h ty) (Some c) k = prepend [EFill tx ty (tile_w tx) (tile_h ty) c] k.
  Proof.
    intros F. cbv beta iota delta [fill_ok] in F. unfold fill.
    destruct ((0 <? tile_w tx) && (0 <? tile_h ty) && upd_raises s (tile_w tx) (tile_h ty) (len c * Z.max 0 (tile_w tx) * Z.max 0 (tile_h ty)));
      [discriminate|reflexivity].
  Qed.

  (** a raw tile *)
  Lemma raw_tile_drain cbg cfg tx ty px buf evs r n :
    tile_ok tx ty None None (HRaw px) ->
    AfterNext cbg cfg tx ty buf evs r n ->
    Drain s (PHextile cbg cfg x y w h tx ty) (wire_tile (HRaw px) ++ buf) ([EUpd tx ty (tile_w tx) (tile_h ty) px] ++ evs) r (2 + n).
  Proof.
    intros [Hl Hu] HA. unfold AfterNext in HA.
    destruct (hex_next s cbg cfg x y w h tx ty) as [s' [p'|] es'|] eqn:En; try contradiction.
    destruct HA as (evs' & -> & HD).
    cbn [wire_tile]. rewrite <- app_assoc.
    change ([EUpd tx ty (tile_w tx) (tile_h ty) px] ++ es' ++ evs') with ([] ++ ([EUpd tx ty (tile_w tx) (tile_h ty) px] ++ es') ++ evs').
    replace (2 + n)%nat with (S (S n)) by lia.
    eapply D_step.
    - cbn [need]. change 1 with (len [1]). apply take_app_exact.
    - cbn [step u1]. change (has 1 HEX_RAW) with true. cbv iota. fold (tile_w tx). fold (tile_h ty). reflexivity.
    - cbn [next_pend]. eapply D_step.
      + cbn [need]. rewrite <- Hl. apply take_app_exact.
      + cbn [step]. unfold upd. rewrite Hu, En. cbn [prepend]. reflexivity.
      + cbn [next_pend]. exact HD.
  Qed.

  Lemma firstn_bp (c r : bytes) : len c = bypp s -> firstn (Z.to_nat (bypp s)) (c ++ r) = c.
  Proof. intros <-. apply firstn_len_app. Qed.
  Lemma skipn_bp (c r : bytes) : len c = bypp s -> skipn (Z.to_nat (bypp s)) (c ++ r) = r.
  Proof. intros <-. apply skipn_len_app. Qed.
  Lemma nth_bp (c r : bytes) n : len c = bypp s -> nth (Z.to_nat (bypp s)) (c ++ n :: r) 0 = n.
  Proof. intros <-. apply nth_len_app. Qed.
  Lemma nth_bp2 (a b r : bytes) n : len a = bypp s -> len b = bypp s -> nth (Z.to_nat (bypp s + bypp s)) (a ++ b ++ n :: r) 0 = n.
  Proof. intros <- E. rewrite <- E at 2. apply nth_len2_app. Qed.

  Definition subs_count (subs : hsubs) : Z := match subs with HNone => 0 | HFg l => len l | HCol l => len l end.
  Definition subs_cnt_bytes (subs : hsubs) : bytes := match subs with HNone => [] | _ => [subs_count subs] end.

  (* the block _handleDecodeHextileSubrect reads: optional background, optional foreground, optional count *)
  Lemma hexsub_step cbg cfg tx ty nb bgo fgo subs :
    opt_len_ok bgo -> opt_len_ok fgo ->
    let n := subs_count subs in
    step s (PHexSub nb (sub_byte bgo fgo subs) cbg cfg x y w h tx ty (tile_w tx) (tile_h ty))
         (opt_bytes bgo ++ opt_bytes fgo ++ subs_cnt_bytes subs) =
    fill s tx ty (tile_w tx) (tile_h ty) (eff bgo cbg)
         (if negb (n =? 0) then
            (match subs with
             | HCol _ => ok s (PHexCol ((bypp s + 2) * n) (eff bgo cbg) (eff fgo cfg) x y w h tx ty (tile_w tx) (tile_h ty)) []
             | _ => ok s (PHexFG (2 * n) (eff bgo cbg) (eff fgo cfg) x y w h tx ty (tile_w tx) (tile_h ty)) []
             end)
          else hex_next s (eff bgo cbg) (eff fgo cfg) x y w h tx ty).
  Proof.
    intros Lb Lf n. cbn [step]. destruct (has_flags bgo fgo subs) as (_ & F2 & F3 & F4 & F5). rewrite F2, F3, F4, F5.
    destruct bgo as [cb|], fgo as [cf|]; cbn [opt_bytes opt_len_ok eff app] in *.
    - (* both colours *)
      rewrite (firstn_bp cb _ Lb), (skipn_bp cb _ Lb), (firstn_bp cf _ Lf).
      destruct subs as [|l|l]; cbn [subs_cnt_bytes subs_count app] in *; subst n.
      + reflexivity.
      + rewrite (nth_bp2 cb cf [] (len l) Lb Lf). reflexivity.
      + rewrite (nth_bp2 cb cf [] (len l) Lb Lf). reflexivity.
    - rewrite (firstn_bp cb _ Lb).
      destruct subs as [|l|l]; cbn [subs_cnt_bytes subs_count app] in *; subst n.
      + reflexivity.
      + rewrite (nth_bp cb [] (len l) Lb). reflexivity.
      + rewrite (nth_bp cb [] (len l) Lb). reflexivity.
    - cbn [Z.to_nat skipn Z.add]. rewrite (firstn_bp cf _ Lf).
      destruct subs as [|l|l]; cbn [subs_cnt_bytes subs_count app] in *; subst n.
      + reflexivity.
      + rewrite (nth_bp cf [] (len l) Lf). reflexivity.
      + rewrite (nth_bp cf [] (len l) Lf). reflexivity.
    - cbn [Z.to_nat skipn Z.add].
      destruct subs as [|l|l]; cbn [subs_cnt_bytes subs_count app nth] in *; subst n; reflexivity.
  Qed.

  Lemma compat_eff sb sf cb cf o o' : compat sb sf cb cf -> compat (eff o sb) (eff o' sf) (eff o cb) (eff o' cf).
  Proof. intros [A B]. split; intros c E; [destruct o|destruct o']; cbn [eff] in *; auto. Qed.

  Lemma compat_eff_bg sb sf cb cf o cf' : compat sb sf cb cf -> compat (eff o sb) None (eff o cb) cf'.
  Proof. intros [A B]. split; intros c E; [destruct o; cbn [eff] in *; auto|discriminate]. Qed.

  Lemma eff_some sb cb o c : (forall c, sb = Some c -> cb = Some c) -> eff o sb = Some c -> eff o cb = Some c.
  Proof. intros A E. destruct o; cbn [eff] in *; auto. Qed.

  Lemma fg_list_len (l : list hsub) : len (concat (map (fun q => [xy_byte q; wh_byte q]) l)) = 2 * len l.
  Proof.
    induction l as [|q l IH]; cbn [map concat]; [reflexivity|].
    rewrite len_app, IH, !len_cons, len_nil. lia.
  Qed.

  Lemma col_list_len (l : list (bytes * hsub)) : Forall (col_ok (bypp s)) l ->
    len (concat (map (fun cq => fst cq ++ [xy_byte (snd cq); wh_byte (snd cq)]) l)) = (bypp s + 2) * len l.
  Proof.
    induction l as [|[c q] l IH]; intros H; cbn [map concat fst snd]; [unfold len; cbn [List.length Z.of_nat]; lia|].
    destruct (Forall_inv H) as [Hc _]. cbn [fst] in Hc.
    rewrite !len_app, (IH (Forall_inv_tail H)), Hc, !len_cons, len_nil. lia.
  Qed.

  (** a tile with background / foreground / subrectangles *)
  Lemma sub_tile_drain cbg cfg sbg sfg tx ty bgo fgo subs buf evs r n :
    compat sbg sfg cbg cfg -> tile_ok tx ty sbg sfg (HSub bgo fgo subs) ->
    (forall cbg' cfg', compat (next_bg (HSub bgo fgo subs) sbg) (next_fg (HSub bgo fgo subs) sfg) cbg' cfg' ->
                       AfterNext cbg' cfg' tx ty buf evs r n) ->
    Drain s (PHextile cbg cfg x y w h tx ty) (wire_tile (HSub bgo fgo subs) ++ buf)
          (tile_events tx ty sbg sfg (HSub bgo fgo subs) ++ evs) r (tile_steps (HSub bgo fgo subs) + n).
  Proof.
    intros C (Lb & Lf & bgc & Eb & Fb & Hs) HA. pose proof C as [Cb Cf].
    pose proof (eff_some _ _ _ _ Cb Eb) as Ecb.
    cbn [next_bg next_fg] in HA. cbn [tile_events]. rewrite Eb.
    destruct (has_flags bgo fgo subs) as (F1 & F2 & F3 & F4 & F5).
    set (nb := (if match bgo with Some _ => true | None => false end then bypp s else 0)
               + (if match fgo with Some _ => true | None => false end then bypp s else 0)
               + (if match subs with HNone => false | _ => true end then 1 else 0)).
    assert (Hstep1 : step s (PHextile cbg cfg x y w h tx ty) [sub_byte bgo fgo subs] =
                     if negb (nb =? 0) then ok s (PHexSub nb (sub_byte bgo fgo subs) cbg cfg x y w h tx ty (tile_w tx) (tile_h ty)) []
                     else fill s tx ty (tile_w tx) (tile_h ty) cbg (hex_next s cbg cfg x y w h tx ty)).
    { cbn [step u1]. rewrite F1, F2, F3, F4. reflexivity. }
    assert (T1 : forall rest, take (need s (PHextile cbg cfg x y w h tx ty)) ([sub_byte bgo fgo subs] ++ rest) = Some ([sub_byte bgo fgo subs], rest)).
    { intros rest. cbn [need]. change 1 with (len [sub_byte bgo fgo subs]). apply take_app_exact. }
    assert (Hnb : nb = len (opt_bytes bgo ++ opt_bytes fgo ++ subs_cnt_bytes subs)).
    { unfold nb. rewrite !len_app. destruct bgo, fgo, subs; cbn [opt_bytes subs_cnt_bytes opt_len_ok] in *;
        rewrite ?Lb, ?Lf; unfold len; cbn [List.length Z.of_nat]; lia. }
    destruct (Z.eqb_spec nb 0) as [Z0|NZ].
    - (* no flag at all: the carried background fills the tile *)
      assert (bgo = None /\ fgo = None /\ subs = HNone) as (-> & -> & ->).
      { unfold nb in Z0. destruct bgo, fgo, subs; try (repeat split; reflexivity); exfalso; lia. }
      cbn [eff] in *. subst cbg. specialize (HA (Some bgc) cfg C). unfold AfterNext in HA.
      destruct (hex_next s (Some bgc) cfg x y w h tx ty) as [s' [p'|] es'|] eqn:En; try contradiction.
      destruct HA as (evs' & -> & HD).
      match goal with |- Drain _ _ ?B ?E _ _ =>
        replace B with ([sub_byte None None HNone] ++ buf) by reflexivity;
        replace E with (([EFill tx ty (tile_w tx) (tile_h ty) bgc] ++ es') ++ evs') by (rewrite <- app_assoc; reflexivity) end.
      replace (tile_steps (HSub None None HNone) + n)%nat with (S n) by reflexivity.
      eapply D_step; [apply (T1 buf)| |].
      * rewrite Hstep1. cbn [negb]. rewrite (fill_one tx ty bgc _ Fb), ?En. reflexivity.
      * cbn [next_pend]. exact HD.
    - (* at least one flag: the block after the subencoding byte *)
      assert (Hstep2 := hexsub_step cbg cfg tx ty nb bgo fgo subs Lb Lf). cbv zeta in Hstep2.
      rewrite Ecb, (fill_one tx ty bgc _ Fb) in Hstep2.
      assert (Hw : wire_tile (HSub bgo fgo subs) ++ buf =
                   [sub_byte bgo fgo subs] ++ (opt_bytes bgo ++ opt_bytes fgo ++ subs_cnt_bytes subs) ++
                   (match subs with HNone => [] | HFg l => concat (map (fun q => [xy_byte q; wh_byte q]) l)
                                    | HCol l => concat (map (fun cq => fst cq ++ [xy_byte (snd cq); wh_byte (snd cq)]) l) end ++ buf)).
      { cbn [wire_tile]. destruct subs; cbn [wire_subs subs_cnt_bytes subs_count]; rewrite <- ?app_assoc; cbn [app]; rewrite ?app_nil_r; reflexivity. }
      rewrite Hw. clear Hw.
      assert (T2 : forall rest, take nb ((opt_bytes bgo ++ opt_bytes fgo ++ subs_cnt_bytes subs) ++ rest) =
                                Some (opt_bytes bgo ++ opt_bytes fgo ++ subs_cnt_bytes subs, rest)).
      { intros rest. rewrite Hnb. apply take_app_exact. }
      destruct (Z.eqb_spec (subs_count subs) 0) as [N0|NN].
      + (* no subrectangle follows *)
        cbn [negb] in Hstep2.
        assert (Hevs : match subs with
                       | HNone => []
                       | HFg l => match eff fgo sfg with Some fgc => map fill_ev (map (fun q => place_sub tx ty q fgc) l) | None => [] end
                       | HCol l => map fill_ev (map (fun cq => place_sub tx ty (snd cq) (fst cq)) l)
                       end = [] /\
                       match subs with HNone => [] | HFg l => concat (map (fun q => [xy_byte q; wh_byte q]) l)
                                    | HCol l => concat (map (fun cq => fst cq ++ [xy_byte (snd cq); wh_byte (snd cq)]) l) end = [] /\
                       tile_steps (HSub bgo fgo subs) = 2%nat).
        { destruct subs as [|l|l]; cbn [subs_count] in N0.
          - repeat split; try reflexivity. destruct bgo, fgo; try reflexivity. exfalso. apply NZ. reflexivity.
          - destruct l; [|rewrite len_cons in N0; pose proof (len_nonneg l); lia].
            repeat split; try (destruct (eff fgo sfg); reflexivity); try reflexivity; destruct bgo, fgo; reflexivity.
          - destruct l; [|rewrite len_cons in N0; pose proof (len_nonneg l); lia].
            repeat split; try reflexivity; destruct bgo, fgo; reflexivity. }
        destruct Hevs as (-> & -> & ->).
        assert (HA' : AfterNext (eff bgo cbg) (eff fgo cfg) tx ty buf evs r n).
        { apply HA. destruct subs; try (apply compat_eff; exact C). eapply compat_eff_bg. exact C. }
        unfold AfterNext in HA'. rewrite Ecb in HA'.
        destruct (hex_next s (Some bgc) (eff fgo cfg) x y w h tx ty) as [s' [p'|] es'|] eqn:En; try contradiction.
        destruct HA' as (evs' & -> & HD).
        match goal with |- Drain _ _ ?B ?E _ _ =>
          replace B with ([sub_byte bgo fgo subs] ++ (opt_bytes bgo ++ opt_bytes fgo ++ subs_cnt_bytes subs) ++ buf) by reflexivity;
          replace E with ([] ++ ([EFill tx ty (tile_w tx) (tile_h ty) bgc] ++ es') ++ evs')
            by (cbn [app]; rewrite <- ?app_assoc; reflexivity) end.
        replace (2 + n)%nat with (S (S n)) by lia.
        eapply D_step; [apply T1| |].
        * rewrite Hstep1. replace (negb (nb =? 0)) with true by (symmetry; apply negb_true_iff, Z.eqb_neq; exact NZ). reflexivity.
        * cbn [next_pend]. eapply D_step; [cbn [need]; apply T2| |].
          -- rewrite Hstep2. rewrite ?En. reflexivity.
          -- cbn [next_pend]. exact HD.
      + (* subrectangles follow *)
        replace (negb (subs_count subs =? 0)) with true in Hstep2 by (symmetry; apply negb_true_iff, Z.eqb_neq; exact NN).
        destruct subs as [|l|l]; cbn [subs_count] in NN; [exfalso; apply NN; reflexivity| |].
        * (* foreground subrectangles *)
          destruct Hs as (_ & Hl & Hfg).
          assert (Hne : l <> []) by (intros ->; apply NN; reflexivity).
          destruct (Hfg Hne) as (fgc & Ef & Ffs). rewrite Ef.
          pose proof (eff_some _ _ _ _ Cf Ef) as Ecf.
          assert (Hsteps : tile_steps (HSub bgo fgo (HFg l)) = 3%nat) by (destruct l; [congruence|]; destruct bgo, fgo; reflexivity).
          rewrite Hsteps. cbn [subs_count] in Hstep2.
          assert (HA' : AfterNext (Some bgc) (Some fgc) tx ty buf evs r n).
          { rewrite <- Ecb, <- Ecf. apply HA. apply compat_eff. exact C. }
          unfold AfterNext in HA'.
          destruct (hex_next s (Some bgc) (Some fgc) x y w h tx ty) as [s' [p'|] es'|] eqn:En; try contradiction.
          destruct HA' as (evs' & -> & HD).
          match goal with |- Drain _ _ _ ?E _ _ =>
            replace E with ([] ++ [EFill tx ty (tile_w tx) (tile_h ty) bgc] ++
                            (map fill_ev (map (fun q => place_sub tx ty q fgc) l) ++ es') ++ evs')
              by (cbn [app]; rewrite <- !app_assoc; reflexivity) end.
          replace (3 + n)%nat with (S (S (S n))) by lia.
          eapply D_step; [apply T1| |].
          -- rewrite Hstep1. replace (negb (nb =? 0)) with true by (symmetry; apply negb_true_iff, Z.eqb_neq; exact NZ). reflexivity.
          -- cbn [next_pend]. eapply D_step; [cbn [need]; apply T2| |].
             ++ rewrite Hstep2. cbn [prepend ok app]. reflexivity.
             ++ cbn [next_pend]. eapply D_step; [| |].
                ** cbn [need]. rewrite <- (fg_list_len l). apply take_app_exact.
                ** cbn [step]. rewrite (hex_fg_dec tx ty l Hl). rewrite Ecf.
                   rewrite map_map.
                   rewrite (map_ext _ (fun q : hsub => place_sub tx ty q fgc)) by (intros [[[sx sy] sw] sh]; reflexivity).
                   rewrite (fills_ok s _ _ Ffs). rewrite ?Ecb, ?En. cbn [prepend]. reflexivity.
                ** cbn [next_pend]. exact HD.
        * (* coloured subrectangles *)
          destruct Hs as (_ & Hl & Ffs).
          assert (Hne : l <> []) by (intros ->; apply NN; reflexivity).
          assert (Hsteps : tile_steps (HSub bgo fgo (HCol l)) = 3%nat) by (destruct l; [congruence|]; destruct bgo, fgo; reflexivity).
          rewrite Hsteps. cbn [subs_count] in Hstep2.
          set (last := match rev l with [] => eff fgo cfg | cq :: _ => Some (fst cq) end).
          assert (HA' : AfterNext (Some bgc) last tx ty buf evs r n).
          { rewrite <- Ecb. apply HA. eapply compat_eff_bg. exact C. }
          unfold AfterNext in HA'.
          destruct (hex_next s (Some bgc) last x y w h tx ty) as [s' [p'|] es'|] eqn:En; try contradiction.
          destruct HA' as (evs' & -> & HD).
          match goal with |- Drain _ _ _ ?E _ _ =>
            replace E with ([] ++ [EFill tx ty (tile_w tx) (tile_h ty) bgc] ++
                            (map fill_ev (map (fun cq => place_sub tx ty (snd cq) (fst cq)) l) ++ es') ++ evs')
              by (cbn [app]; rewrite <- !app_assoc; reflexivity) end.
          replace (3 + n)%nat with (S (S (S n))) by lia.
          eapply D_step; [apply T1| |].
          -- rewrite Hstep1. replace (negb (nb =? 0)) with true by (symmetry; apply negb_true_iff, Z.eqb_neq; exact NZ). reflexivity.
          -- cbn [next_pend]. eapply D_step; [cbn [need]; apply T2| |].
             ++ rewrite Hstep2. cbn [prepend ok app]. reflexivity.
             ++ cbn [next_pend]. eapply D_step; [| |].
                ** cbn [need]. rewrite <- (col_list_len l Hl). apply take_app_exact.
                ** cbn [step]. rewrite (hex_col_dec (bypp s) tx ty ltac:(lia) l _ (eff fgo cfg) Hl).
                   --- fold last. rewrite (fills_ok s _ _ Ffs). rewrite ?Ecb, ?En. cbn [prepend]. reflexivity.
                   --- pose proof (col_list_len l Hl) as L. unfold len in L. nia.
                ** cbn [next_pend]. exact HD.
  Qed.

  (** the tiles of the rectangle in row-major order from (tx, ty) on *)
  Fixpoint covers (ts : list htile) (tx ty : Z) : Prop :=
    match ts with
    | [] => False
    | _ :: r => match next_pos tx ty with None => r = [] | Some (a, b) => covers r a b end
    end.

  Fixpoint tiles_ok (ts : list htile) (tx ty : Z) (sbg sfg : option bytes) : Prop :=
    match ts with
    | [] => True
    | t :: r => tile_ok tx ty sbg sfg t /\
                match next_pos tx ty with None => True | Some (a, b) => tiles_ok r a b (next_bg t sbg) (next_fg t sfg) end
    end.

  Fixpoint tiles_events (ts : list htile) (tx ty : Z) (sbg sfg : option bytes) : list ev :=
    match ts with
    | [] => []
    | t :: r => tile_events tx ty sbg sfg t ++
                match next_pos tx ty with None => [] | Some (a, b) => tiles_events r a b (next_bg t sbg) (next_fg t sfg) end
    end.

  Fixpoint tiles_steps (ts : list htile) : nat := match ts with [] => 0 | t :: r => tile_steps t + tiles_steps r end.

  Theorem tiles_drain : forall ts tx ty sbg sfg cbg cfg tail s2 p2 es2 es r n,
    covers ts tx ty -> tiles_ok ts tx ty sbg sfg -> compat sbg sfg cbg cfg ->
    do_connection s = Ok s2 (Some p2) es2 -> Drain s2 p2 tail es r n ->
    Drain s (PHextile cbg cfg x y w h tx ty) (concat (map wire_tile ts) ++ tail)
          (tiles_events ts tx ty sbg sfg ++ es2 ++ es) r (tiles_steps ts + n).
  Proof.
    induction ts as [|t ts IH]; intros tx ty sbg sfg cbg cfg tail s2 p2 es2 es r n Hc Hok C Hd HD; [contradiction|].
    cbn [covers tiles_ok tiles_events tiles_steps map concat] in *. destruct Hok as [Ht Hrest].
    rewrite <- !app_assoc. rewrite <- Nat.add_assoc.
    assert (HA : forall cbg' cfg', compat (next_bg t sbg) (next_fg t sfg) cbg' cfg' ->
                   AfterNext cbg' cfg' tx ty (concat (map wire_tile ts) ++ tail)
                     (match next_pos tx ty with None => [] | Some (a, b) => tiles_events ts a b (next_bg t sbg) (next_fg t sfg) end ++ es2 ++ es)
                     r (tiles_steps ts + n)).
    { intros cbg' cfg' C'. unfold AfterNext. rewrite hex_next_eq. destruct (next_pos tx ty) as [[a b]|].
      - unfold ok. exists (tiles_events ts a b (next_bg t sbg) (next_fg t sfg) ++ es2 ++ es). split; [reflexivity|].
        eapply IH; eassumption.
      - subst ts. rewrite Hd. exists es. split; [reflexivity|]. exact HD. }
    destruct t as [px|bgo fgo subs].
    - cbn [tile_events]. rewrite <- ?app_assoc.
      apply (raw_tile_drain cbg cfg tx ty px _ _ r (tiles_steps ts + n) Ht).
      apply HA. exact C.
    - apply (sub_tile_drain cbg cfg sbg sfg tx ty bgo fgo subs _ _ r (tiles_steps ts + n) C Ht HA).
  Qed.
End Walk.

(** *** a Hextile rectangle *)

Definition wire_hextile (x y w h : Z) (ts : list htile) : bytes := rect_hdr x y w h [0; 0; 0; 5] ++ concat (map wire_tile ts).

Theorem hextile_roundtrip s x y w h ts tail s2 p2 es2 es r n :
  u16ok x -> u16ok y -> u16ok w -> u16ok h -> 0 < w -> 0 < h ->
  rects s <> 0 -> 0 < bypp s ->
  let s1 := enter_rect s x y w h in
  covers x y w h ts x y -> tiles_ok s1 x y w h ts x y None None ->
  do_connection s1 = Ok s2 (Some p2) es2 ->
  Drain s2 p2 tail es r n ->
  Drain s PRect (wire_hextile x y w h ts ++ tail)
        (tiles_events x y w h ts x y None None ++ es2 ++ es) r (S (tiles_steps ts + n)).
Proof.
  intros Hx Hy Hw Hh Pw Ph Hr Hbp s1 Hc Hok Hd HD.
  unfold wire_hextile. rewrite <- app_assoc.
  destruct (rect_hdr_unpack x y w h [0; 0; 0; 5] (concat (map wire_tile ts) ++ tail) Hx Hy Hw Hh eq_refl) as [Ht Hun].
  match goal with |- Drain _ _ _ ?E _ _ => change E with ([] ++ E) end.
  eapply D_step; [exact Ht| |].
  - cbn [step]. rewrite Hun. change (to_s32 (be_dec [0; 0; 0; 5])) with 5.
    change (5 =? ENC_PSEUDO_LAST_RECT) with false. cbv iota.
    destruct (Z.eqb_spec (rects s) 0) as [E|_]; [contradiction|].
    change (5 =? ENC_COPY_RECTANGLE) with false. change (5 =? ENC_RAW) with false. change (5 =? ENC_HEXTILE) with true.
    cbv iota. fold (enter_rect s x y w h). fold s1. unfold hex_first.
    replace ((y >=? y + h) || (x >=? x + w)) with false
      by (symmetry; rewrite !Z.geb_leb; apply orb_false_iff; split; apply Z.leb_gt; lia).
    reflexivity.
  - cbn [next_pend]. apply (tiles_drain s1 x y w h Hbp ts x y None None None None tail s2 p2 es2 es r n Hc Hok); try assumption.
    apply compat_refl_weak.
Qed.

(** the conditions on the tiles only look at the pixel width and at what updateRectangle accepts *)
Section Fmt.
  Variables s s' : st.
  Hypothesis Hb : bypp s = bypp s'.
  Hypothesis Hu : forall w h n, upd_raises s w h n = upd_raises s' w h n.

  Lemma fill_ok_same f : fill_ok s f -> fill_ok s' f.
  Proof. destruct f as [[[[a b] c] d] e]. unfold fill_ok. rewrite Hu. auto. Qed.

  Lemma tile_ok_same x y w h tx ty sbg sfg t : tile_ok s x y w h tx ty sbg sfg t -> tile_ok s' x y w h tx ty sbg sfg t.
  Proof.
    destruct t as [px|bgo fgo subs]; cbn [tile_ok]; unfold opt_len_ok; rewrite <- ?Hb, <- ?Hu; [auto|].
    intros (Lb & Lf & bgc & Eb & Fb & Hs). refine (conj Lb (conj Lf _)). exists bgc. refine (conj Eb (conj (fill_ok_same _ Fb) _)).
    destruct subs as [|l|l]; [exact I| |].
    - destruct Hs as (A & B & C). refine (conj A (conj B _)). intros Hne. destruct (C Hne) as (fgc & E & F).
      exists fgc. split; [exact E|]. eapply Forall_impl; [|exact F]. intros a. apply fill_ok_same.
    - destruct Hs as (A & B & C). refine (conj A (conj B _)). eapply Forall_impl; [|exact C]. intros a. apply fill_ok_same.
  Qed.

  Lemma tiles_ok_same x y w h : forall ts tx ty sbg sfg, tiles_ok s x y w h ts tx ty sbg sfg -> tiles_ok s' x y w h ts tx ty sbg sfg.
  Proof.
    induction ts as [|t ts IH]; intros tx ty sbg sfg H; [exact I|]. cbn [tiles_ok] in *. destruct H as [H1 H2].
    split; [apply tile_ok_same; exact H1|]. destruct (next_pos x y w h tx ty) as [[a b]|]; [apply IH; exact H2|exact I].
  Qed.
End Fmt.
