(** The 16-byte pixel-format block (rfb.PixelFormat.to_bytes / from_bytes, struct '!BB??HHHBBBxxx'):
    what one side writes is what the other side reads. *)
From Coq Require Import ZArith List Bool Lia.
From VD Require Import Base.Bytes Base.BytesP Base.Struct Base.StructP Base.PixFmt Gen.Formats.
From VD Require Import Model.ClientMsgs Spec.C2S Proofs.C2SP Proofs.ClientOpsP.
Import ListNotations.
Open Scope Z_scope.

Ltac Zify.zify_post_hook ::= Z.div_mod_to_equations.

Definition flag (z : Z) : Prop := z = 0 \/ z = 1.

(** the explicit layout of the block *)
Lemma pf_to_bytes_layout p : pf_ok p ->
  pf_to_bytes p = Some
    [pf_bpp p; pf_depth p; (if pf_bigendian p =? 0 then 0 else 1); (if pf_truecolor p =? 0 then 0 else 1);
     pf_rmax p / 256; pf_rmax p mod 256; pf_gmax p / 256; pf_gmax p mod 256; pf_bmax p / 256; pf_bmax p mod 256;
     pf_rshift p; pf_gshift p; pf_bshift p; 0; 0; 0].
Proof.
  intros (H1 & H2 & H3 & H4 & H5 & H6 & H7 & H8).
  unfold pf_to_bytes, pf_vals, fmt_rfb_PixelFormat_STRUCT. cbn [pack pack1].
  rewrite !in_range_true by assumption.
  destruct (u16_enc (pf_rmax p)) as [-> _]; [unfold rng in *; lia|].
  destruct (u16_enc (pf_gmax p)) as [-> _]; [unfold rng in *; lia|].
  destruct (u16_enc (pf_bmax p)) as [-> _]; [unfold rng in *; lia|].
  reflexivity.
Qed.

(** reading a block of sixteen bytes *)
Lemma pf_from_bytes_layout a b c d e1 e0 f1 f0 g1 g0 h i j x y z :
  pf_from_bytes [a; b; c; d; e1; e0; f1; f0; g1; g0; h; i; j; x; y; z] =
    Some (mk_pixfmt a b (if c =? 0 then 0 else 1) (if d =? 0 then 0 else 1)
                    (e1 * 256 + e0) (f1 * 256 + f0) (g1 * 256 + g0) h i j).
Proof.
  unfold pf_from_bytes, fmt_rfb_PixelFormat_STRUCT.
  cbn [unpack fsize take Z.leb Z.compare Z.sub Z.add Z.opp Z.pos_sub Pos.pred_double unpack1 be_dec be_dec_acc].
  cbn. repeat f_equal; lia.
Qed.

(** round trip: a format with in-range fields and 0/1 flags is read back exactly *)
Theorem pf_wire_roundtrip p :
  pf_ok p -> flag (pf_bigendian p) -> flag (pf_truecolor p) ->
  exists pb, pf_to_bytes p = Some pb /\ length pb = 16%nat /\ pf_from_bytes pb = Some p.
Proof.
  intros Hok Hb Ht. pose proof Hok as (H1 & H2 & H3 & H4 & H5 & H6 & H7 & H8).
  eexists. split; [apply pf_to_bytes_layout; exact Hok|]. split; [reflexivity|].
  rewrite pf_from_bytes_layout. destruct p as [bpp depth be tc rm gm bm rs gs bs]. cbn in *.
  f_equal. f_equal; try (unfold rng in *; lia).
  - destruct Hb as [->| ->]; reflexivity.
  - destruct Ht as [->| ->]; reflexivity.
Qed.

(** every block a server can announce is read as a format with in-range fields and 0/1 flags,
    and nothing else is: exactly the 16-byte strings parse *)
Theorem pf_every_block_parses a b c d e1 e0 f1 f0 g1 g0 h i j x y z :
  Forall (fun v => 0 <= v <= 255) [a; b; c; d; e1; e0; f1; f0; g1; g0; h; i; j; x; y; z] ->
  exists p, pf_from_bytes [a; b; c; d; e1; e0; f1; f0; g1; g0; h; i; j; x; y; z] = Some p /\
            pf_ok p /\ flag (pf_bigendian p) /\ flag (pf_truecolor p).
Proof.
  intros HF. rewrite pf_from_bytes_layout. eexists; split; [reflexivity|].
  repeat match goal with H : Forall _ (_ :: _) |- _ => inversion H; clear H; subst end.
  unfold pf_ok, rng, flag; cbn. repeat split; try lia; destruct (_ =? 0); auto.
Qed.

Theorem pf_wrong_length_rejected b : length b <> 16%nat -> pf_from_bytes b = None.
Proof.
  intros H. do 16 (destruct b as [|? b]; [reflexivity|]).
  destruct b; [cbn in H; congruence|]. reflexivity.
Qed.

(** the SetPixelFormat message carries a block that reads back as the format announced *)
Theorem setPixelFormat_reads_back p :
  pf_ok p -> flag (pf_bigendian p) -> flag (pf_truecolor p) ->
  exists w pb, setPixelFormat p = Some w /\ parse_c2s w = Some [MSetPixelFormat pb] /\
               pf_from_bytes pb = Some p.
Proof.
  intros Hok Hb Ht. destruct (setPixelFormat_parses p Hok) as (pb & w & E & L & Ew & P).
  destruct (pf_wire_roundtrip p Hok Hb Ht) as (pb' & E' & _ & R). rewrite E in E'; inversion E'; subst.
  exists w, pb'. repeat split; [exact Ew|apply Parses_sound; exact P|exact R].
Qed.
