(** Termination of the RFB client's expect loop with a linear bound (C15): instantiation of
    [terminates_linear_inv] at the handler family of Model/Rfb.v. *)
From Coq Require Import ZArith List Bool Lia.
From RecordUpdate Require Import RecordSet.
From VD Require Import Base.Bytes Base.BytesP Base.Struct Base.StructP Base.PixFmt Gen.Tables Gen.Formats.
From VD Require Import Model.Engine Model.ClientMsgs Model.Auth Model.Rfb Proofs.EngineP.
Import ListNotations.
Open Scope Z_scope.

(** the three expectations whose handler closes the connection without registering a new
    one are only ever registered with a positive length *)
Definition wf_pend (p : pend) : Prop :=
  match p with
  | PSecTypes n | PConnMsg n | PAuthFailedMsg n => 1 <= n
  | _ => True
  end.

Definition rank (s : st) (p : pend) : nat :=
  if 1 <=? need s p then 0%nat
  else match p with
       | PDHKey _ | PRRE _ _ _ _ _ | PCoRRE _ _ _ _ _ | PHexSub _ _ _ _ _ _ _ _ _ _ _ _ => 2%nat
       | _ => 1%nat
       end.

Lemma rank_le2 s p : (rank s p <= 2)%nat.
Proof. unfold rank. destruct (1 <=? need s p); [lia|]. destruct p; lia. Qed.

(** where a result lands: an expectation of at least one byte ([high]), or of rank <= 1 ([mid]) *)
Definition lands (P : st -> pend -> Prop) (r : Engine.res st pend ev) : Prop :=
  match r with
  | Ok s' (Some q) _ => P s' q /\ wf_pend q
  | Ok _ None _ => False
  | Raise _ => True
  end.
Definition high (s : st) (q : pend) : Prop := 1 <= need s q.
Definition mid (s : st) (q : pend) : Prop := (rank s q <= 1)%nat.

Lemma high_mid s q : high s q -> mid s q.
Proof. unfold high, mid, rank. intros H. destruct (Z.leb_spec 1 (need s q)); lia. Qed.

Lemma lands_weaken r : lands high r -> lands mid r.
Proof. destruct r as [s' [q|] es|es]; cbn; auto. intros [H W]; split; [apply high_mid; exact H|exact W]. Qed.

Lemma lands_prepend P es r : lands P r -> lands P (prepend es r).
Proof. destruct r as [s' [q|] es'|es']; cbn; auto. Qed.

Lemma lands_upd P s x y w h d k : lands P k -> lands P (upd s x y w h d k).
Proof. intros H. unfold upd. destruct (upd_raises _ _ _ _); [exact I|apply lands_prepend; exact H]. Qed.

Lemma lands_fill P s x y w h c k : lands P k -> lands P (fill s x y w h c k).
Proof.
  intros H. unfold fill. destruct c as [c|]; [|exact I].
  destruct (_ && _); [exact I|apply lands_prepend; exact H].
Qed.

Lemma lands_fills P s l k : lands P k -> lands P (fills s l k).
Proof.
  intros H. induction l as [|[[[[x y] w] h] c] l IH]; cbn [fills]; [exact H|apply lands_fill; exact IH].
Qed.

Lemma need_PRect s : need s PRect = 12. Proof. reflexivity. Qed.

Lemma lands_do_connection s : lands high (do_connection s).
Proof.
  unfold do_connection. destruct (negb (rects s =? 0)); [cbn; unfold high; cbn; split; [lia|exact I]|].
  destruct (rectpos s); [cbn; unfold high; cbn; split; [lia|exact I]|].
  destruct (commit s) as [s' es]. cbn. unfold high; cbn; split; [lia|exact I].
Qed.

Lemma lands_hex_next s bg fg x y w h tx ty : lands high (hex_next s bg fg x y w h tx ty).
Proof.
  unfold hex_next. destruct (tx + 16 >=? x + w); cbn zeta;
    (destruct (_ || _); [apply lands_do_connection|cbn; unfold high; cbn; split; [lia|exact I]]).
Qed.

Lemma lands_hex_first s x y w h : lands high (hex_first s x y w h).
Proof.
  unfold hex_first. destruct (_ || _); [apply lands_do_connection|cbn; unfold high; cbn; split; [lia|exact I]].
Qed.

Lemma lands_client_init s : lands high (client_init s).
Proof. unfold client_init. destruct (pack _ _); [cbn; unfold high; cbn; split; [lia|exact I]|exact I]. Qed.

Lemma lands_request_password s : lands high (request_password s).
Proof.
  unfold request_password.
  destruct (password s) as [pw|].
  - destruct (vnc_key pw); [cbn; unfold high; cbn; split; [lia|exact I]|exact I].
  - destruct (c_variant (cf s) =? 0); [cbn; unfold high; cbn; split; [lia|exact I]|].
    destruct (_ || _); [cbn; unfold high; cbn; split; [lia|exact I]|].
    destruct (vnc_key _); [cbn; unfold high; cbn; split; [lia|exact I]|exact I].
Qed.

Lemma lands_zrle fuel : forall s it x y w h tx ty, lands high (zrle_tiles fuel s it x y w h tx ty).
Proof.
  induction fuel as [|f IH]; intros s it x y w h tx ty; cbn [zrle_tiles]; [exact I|].
  destruct it as [|sub it1]; [apply lands_do_connection|].
  cbv zeta.
  assert (Hn : forall it', lands high
            (let '(tx2, ty2) := if tx + 64 >=? x + w then (x, ty + 64) else (tx + 64, ty) in
             zrle_tiles f s it' x y w h tx2 ty2)).
  { intros it'. destruct (tx + 64 >=? x + w); apply IH. }
  destruct (negb (Z.land sub 128 =? 0)).
  - destruct (Z.land sub 127 =? 0).
    + destruct (rle_plain _ _ _ _ _) as [[d it2]|]; [apply lands_upd; apply Hn|exact I].
    + destruct (cpixels _ _) as [[pal it2]|]; [|exact I].
      destruct (rle_palette _ _ _ _ _ _) as [[d it3]|]; [apply lands_upd; apply Hn|exact I].
  - destruct (Z.land sub 127 =? 0).
    + destruct (raw_cpixels _ _ _) as [[d it2]|]; [apply lands_upd; apply Hn|exact I].
    + destruct (Z.land sub 127 =? 1).
      * destruct (cpixel it1) as [[c it2]|]; [apply lands_fill; apply Hn|exact I].
      * destruct (16 <? Z.land sub 127); [exact I|].
        destruct (cpixels _ _) as [[pal it2]|]; [|exact I].
        destruct (_ <=? 0); [exact I|].
        destruct (packed _ _ _ _ _) as [[d it3]|]; [apply lands_upd; apply Hn|exact I].
Qed.

(** unpacked unsigned fields of well-formed bytes are non-negative *)
Lemma be_dec_acc_nonneg l : forall acc, bytes_ok l = true -> 0 <= acc -> 0 <= be_dec_acc l acc.
Proof.
  induction l as [|b r IH]; intros acc H Ha; cbn [be_dec_acc]; [exact Ha|].
  cbn [bytes_ok forallb] in H. apply andb_prop in H as [Hb Hr]. apply IH; [exact Hr|].
  unfold byte_ok in Hb. apply andb_prop in Hb as [H1 _]. apply Z.leb_le in H1. lia.
Qed.

Lemma be_dec_nonneg l : bytes_ok l = true -> 0 <= be_dec l.
Proof. intros H; apply be_dec_acc_nonneg; [exact H|lia]. Qed.

Lemma take_bytes_ok n (l a b : bytes) : take n l = Some (a, b) -> bytes_ok l = true -> bytes_ok a = true /\ bytes_ok b = true.
Proof.
  intros H Hl. apply take_some_app in H. subst l. unfold bytes_ok in *. rewrite forallb_app in Hl.
  apply andb_prop in Hl. exact Hl.
Qed.

Lemma unpackZ_FB b n : unpackZ [FB] b = Some [n] -> bytes_ok b = true -> 0 <= n.
Proof.
  unfold unpackZ. cbn [unpack fsize]. destruct (take 1 b) as [[x rest]|] eqn:E; [|discriminate].
  destruct rest; [|discriminate]. cbn [unpack1 map]. intros H Hb. inversion H; subst.
  apply be_dec_nonneg. eapply take_bytes_ok in E; [|exact Hb]. apply E.
Qed.

Lemma unpackZ_FI b n : unpackZ [FI] b = Some [n] -> bytes_ok b = true -> 0 <= n.
Proof.
  unfold unpackZ. cbn [unpack fsize]. destruct (take 4 b) as [[x rest]|] eqn:E; [|discriminate].
  destruct rest; [|discriminate]. cbn [unpack1 map]. intros H Hb. inversion H; subst.
  apply be_dec_nonneg. eapply take_bytes_ok in E; [|exact Hb]. apply E.
Qed.

Ltac done_high := cbn; unfold high, mid, rank; cbn; try (split; [try lia|try exact I]); try exact I.

(** every handler either raises, or stays (only possible for handlers whose expectation is
    at least one byte long), or registers a well-formed expectation; from a zero-length
    expectation the next one has a lower rank *)
Lemma step_lands s p blk :
  wf_pend p -> bytes_ok blk = true ->
  match step s p blk with
  | Ok s' (Some q) _ => wf_pend q /\ (need s p <= 0 -> (rank s' q < rank s p)%nat)
  | Ok _ None _ => 1 <= need s p
  | Raise _ => True
  end.
Proof.
  intros W Hb.
  assert (HH : forall r, lands high r -> need s p <= 0 -> (1 <= rank s p)%nat ->
               match r with
               | Ok s' (Some q) _ => wf_pend q /\ (need s p <= 0 -> (rank s' q < rank s p)%nat)
               | Ok _ None _ => 1 <= need s p
               | Raise _ => True
               end).
  { intros r Hr Hn Hk. destruct r as [s' [q|] es|es]; cbn in Hr; [|tauto|exact I].
    destruct Hr as [Hq Wq]. split; [exact Wq|]. intros _. unfold high in Hq. unfold rank at 1.
    destruct (Z.leb_spec 1 (need s' q)); lia. }
  assert (HM : forall r, lands mid r -> need s p <= 0 -> (2 <= rank s p)%nat ->
               match r with
               | Ok s' (Some q) _ => wf_pend q /\ (need s p <= 0 -> (rank s' q < rank s p)%nat)
               | Ok _ None _ => 1 <= need s p
               | Raise _ => True
               end).
  { intros r Hr Hn Hk. destruct r as [s' [q|] es|es]; cbn in Hr; [|tauto|exact I].
    destruct Hr as [Hq Wq]. split; [exact Wq|]. intros _. unfold mid in Hq. lia. }
  (* for expectations of a fixed positive length only well-formedness matters *)
  assert (HF : forall r, 1 <= need s p -> lands (fun _ _ => True) r \/ (exists s' es, r = Ok s' None es) ->
               match r with
               | Ok s' (Some q) _ => wf_pend q /\ (need s p <= 0 -> (rank s' q < rank s p)%nat)
               | Ok _ None _ => 1 <= need s p
               | Raise _ => True
               end).
  { intros r Hn [Hr|(s' & es & ->)]; [|exact Hn].
    destruct r as [s' [q|] es|es]; cbn in Hr; [|tauto|exact I]. split; [apply Hr|lia]. }
  assert (LT : forall r, lands high r -> lands (fun _ _ => True) r).
  { intros r; destruct r as [s' [q|] es|es]; cbn; tauto. }
  destruct p; cbn [wf_pend] in W.
  - (* PNumSec *) apply HF; [cbn; lia|]. cbn [step].
    destruct (unpackZ _ blk) as [[|n [|? ?]]|] eqn:E; try (left; exact I).
    pose proof (unpackZ_FB _ _ E Hb). destruct (Z.eqb_spec n 0); left; cbn; split; auto; lia.
  - (* PSecTypes *) apply HF; [cbn; lia|]. cbn [step].
    destruct (unpackZ _ blk); [|left; exact I].
    destruct (max_common _ _); [|right; unfold ok_stay; eauto].
    destruct (pack _ _); [|left; exact I].
    destruct (_ =? AUTH_NONE).
    { destruct (lt_ver _ _); [left; apply LT, lands_prepend, lands_client_init|left; cbn; auto]. }
    destruct (_ =? AUTH_VNC_AUTHENTICATION); [left; cbn; auto|].
    destruct (_ =? AUTH_DIFFIE_HELLMAN); [left; cbn; auto|right; unfold ok_stay; eauto].
  - (* PAuth *) apply HF; [cbn; lia|]. cbn [step].
    destruct (unpackZ _ blk) as [[|a [|? ?]]|]; try (left; exact I).
    destruct (_ =? AUTH_INVALID); [left; cbn; auto|].
    destruct (_ =? AUTH_NONE); [left; apply LT, lands_client_init|].
    destruct (_ =? AUTH_VNC_AUTHENTICATION); [left; cbn; auto|right; unfold ok_stay; eauto].
  - (* PConnFailed *) apply HF; [cbn; lia|]. cbn [step].
    destruct (unpackZ _ blk) as [[|n [|? ?]]|] eqn:E; try (left; exact I).
    pose proof (unpackZ_FI _ _ E Hb). destruct (Z.eqb_spec n 0); [right; unfold ok_stay; eauto|left; cbn; split; auto; lia].
  - (* PConnMsg *) apply HF; [cbn; lia|]. right; cbn [step]; unfold ok_stay; eauto.
  - (* PVNCAuth *) apply HF; [cbn; lia|]. left. cbn [step]. apply LT, lands_request_password.
  - (* PDHAuth *) apply HF; [cbn; lia|]. cbn [step].
    destruct (unpackZ _ blk) as [[|g [|k [|? ?]]]|]; left; cbn; auto.
  - (* PDHKey *) cbn [step]. split; [exact I|]. intros Hn. unfold rank. cbn [need] in *.
    destruct (Z.leb_spec 1 n); [lia|]. destruct (1 <=? _); lia.
  - (* PDHCert *)
    assert (L : lands high (step s (PDHCert n) blk)).
    { cbn [step].
      destruct (username s) as [u|]; destruct (password s) as [pw|]; cbn;
        repeat match goal with |- context [match ?x with _ => _ end] => destruct x end;
        cbn; unfold high; cbn; try exact I; (split; [lia|exact I]). }
    destruct (Z.le_gt_cases (need s (PDHCert n)) 0) as [Hn|Hn].
    + apply HH; [exact L|exact Hn|]. unfold rank. destruct (Z.leb_spec 1 (need s (PDHCert n))); lia.
    + apply HF; [lia|left; apply LT; exact L].
  - (* PAuthResult *) apply HF; [cbn; lia|]. cbn [step].
    destruct (unpackZ _ blk) as [[|r [|? ?]]|]; try (left; exact I).
    destruct (_ =? 0); [left; apply LT, lands_client_init|].
    destruct (_ =? 1); [destruct (lt_ver _ _); [right; unfold ok_stay; eauto|left; cbn; auto]|].
    destruct (_ =? 2); [destruct (lt_ver _ _); [right; unfold ok_stay; eauto|left; cbn; auto]|right; unfold ok_stay; eauto].
  - (* PAuthFailed *) apply HF; [cbn; lia|]. cbn [step].
    destruct (unpackZ _ blk) as [[|n [|? ?]]|] eqn:E; try (left; exact I).
    pose proof (unpackZ_FI _ _ E Hb). destruct (Z.eqb_spec n 0); [right; unfold ok_stay; eauto|left; cbn; split; auto; lia].
  - (* PAuthFailedMsg *) apply HF; [cbn; lia|]. right; cbn [step]; unfold ok_stay; eauto.
  - (* PServerInit *) apply HF; [cbn; lia|]. cbn [step].
    destruct (unpack _ blk) as [[|[?|?] [|[?|?] [|[?|?] [|[?|?] [|? ?]]]]]|]; try (left; exact I).
    destruct (pf_from_bytes _); left; cbn; auto.
  - (* PServerName *) cbn [step]. destruct (connection_made s) as [s' [es|]]; [|exact I].
    split; [exact I|]. intros Hn. unfold rank. cbn [need] in *. destruct (Z.leb_spec 1 n); [lia|cbn; lia].
  - (* PConnection *) apply HF; [cbn; lia|]. cbn [step].
    destruct (unpackZ _ blk) as [[|m [|? ?]]|]; try (left; exact I).
    destruct (m =? S2C_FRAMEBUFFER_UPDATE); [left; cbn; auto|].
    destruct (m =? S2C_SET_COLOUR_MAP_ENTRIES); [left; cbn; auto|].
    destruct (m =? S2C_BELL); [left; cbn; auto|].
    destruct (m =? S2C_SERVER_CUT_TEXT); [left; cbn; auto|].
    right; unfold ok_stay; eauto.
  - (* PFBU *) apply HF; [cbn; lia|]. cbn [step].
    destruct (unpackZ _ blk) as [[|n [|? ?]]|]; try (left; exact I).
    left. apply LT, lands_prepend, lands_do_connection.
  - (* PRect *) apply HF; [cbn; lia|]. cbn [step].
    destruct (unpackZ _ blk) as [[|x [|y [|w [|h [|enc [|? ?]]]]]]|]; try (left; exact I).
    match goal with |- context [rects ?s0 =? 0] => destruct (rects s0 =? 0) end;
      [left; apply LT, lands_do_connection|].
    destruct (enc =? ENC_COPY_RECTANGLE); [left; cbn; auto|].
    destruct (enc =? ENC_RAW); [left; cbn; auto|].
    destruct (enc =? ENC_HEXTILE); [left; apply LT, lands_hex_first|].
    destruct (enc =? ENC_CORRE); [left; cbn; auto|].
    destruct (enc =? ENC_RRE); [left; cbn; auto|].
    destruct (enc =? ENC_ZRLE); [left; cbn; auto|].
    destruct (enc =? ENC_PSEUDO_CURSOR); [left; cbn; auto|].
    destruct (enc =? ENC_PSEUDO_DESKTOP_SIZE); [left; apply LT, lands_prepend, lands_do_connection|].
    destruct (enc =? ENC_PSEUDO_QEMU_EXTENDED_KEY_EVENT); [left; apply LT, lands_do_connection|].
    right; unfold ok_stay; eauto.
  - (* PRaw *) cbn [step].
    destruct (Z.le_gt_cases (need s (PRaw n x y w h)) 0) as [Hn|Hn].
    + apply HH; [apply lands_upd, lands_do_connection|exact Hn|].
      unfold rank. destruct (Z.leb_spec 1 (need s (PRaw n x y w h))); lia.
    + apply HF; [lia|left; apply LT, lands_upd, lands_do_connection].
  - (* PCopy *) apply HF; [cbn; lia|]. cbn [step].
    destruct (unpackZ _ blk) as [[|a [|b0 [|? ?]]]|]; try (left; exact I).
    left; apply LT, lands_prepend, lands_do_connection.
  - (* PRRE *) cbn [step].
    match goal with |- match ?r with _ => _ end => assert (L : lands mid r) end.
    { destruct (take 4 blk) as [[hd4 color]|]; [|exact I].
      destruct (unpackZ _ hd4) as [[|n0 [|? ?]]|]; try exact I.
      apply lands_fill. destruct (n0 =? 0); [apply lands_weaken, lands_do_connection|].
      cbn. split; [|exact I]. unfold mid, rank. destruct (1 <=? _); lia. }
    destruct (Z.le_gt_cases (need s (PRRE n x y w h)) 0) as [Hn|Hn].
    + apply HM; [exact L|exact Hn|]. unfold rank. destruct (Z.leb_spec 1 (need s (PRRE n x y w h))); lia.
    + apply HF; [lia|left]. revert L.
      match goal with |- lands mid ?r -> _ => generalize r end.
      intros r; destruct r as [s' [q|] es|es]; cbn; tauto.
  - (* PRRESub *) cbn [step].
    match goal with |- match ?r with _ => _ end => assert (L : lands high r) end.
    { destruct (subrects _ _ _ _ _ _); [apply lands_fills, lands_do_connection|exact I]. }
    destruct (Z.le_gt_cases (need s (PRRESub n x y)) 0) as [Hn|Hn].
    + apply HH; [exact L|exact Hn|]. unfold rank. destruct (Z.leb_spec 1 (need s (PRRESub n x y))); lia.
    + apply HF; [lia|left; apply LT; exact L].
  - (* PCoRRE *) cbn [step].
    match goal with |- match ?r with _ => _ end => assert (L : lands mid r) end.
    { destruct (take 4 blk) as [[hd4 color]|]; [|exact I].
      destruct (unpackZ _ hd4) as [[|n0 [|? ?]]|]; try exact I.
      apply lands_fill. destruct (n0 =? 0); [apply lands_weaken, lands_do_connection|].
      cbn. split; [|exact I]. unfold mid, rank. destruct (1 <=? _); lia. }
    destruct (Z.le_gt_cases (need s (PCoRRE n x y w h)) 0) as [Hn|Hn].
    + apply HM; [exact L|exact Hn|]. unfold rank. destruct (Z.leb_spec 1 (need s (PCoRRE n x y w h))); lia.
    + apply HF; [lia|left]. revert L.
      match goal with |- lands mid ?r -> _ => generalize r end.
      intros r; destruct r as [s' [q|] es|es]; cbn; tauto.
  - (* PCoRRESub *) cbn [step].
    match goal with |- match ?r with _ => _ end => assert (L : lands high r) end.
    { destruct (subrects _ _ _ _ _ _); [apply lands_fills, lands_do_connection|exact I]. }
    destruct (Z.le_gt_cases (need s (PCoRRESub n x y)) 0) as [Hn|Hn].
    + apply HH; [exact L|exact Hn|]. unfold rank. destruct (Z.leb_spec 1 (need s (PCoRRESub n x y))); lia.
    + apply HF; [lia|left; apply LT; exact L].
  - (* PHextile *) apply HF; [cbn; lia|]. left. cbn [step]. cbv zeta.
    destruct (has _ HEX_RAW); [cbn; auto|].
    destruct (negb (_ =? 0)); [cbn; auto|]. apply LT, lands_fill, lands_hex_next.
  - (* PHexRaw *) cbn [step].
    destruct (Z.le_gt_cases (need s (PHexRaw n bg fg x y w h tx ty tw th)) 0) as [Hn|Hn].
    + apply HH; [apply lands_upd, lands_hex_next|exact Hn|].
      unfold rank. destruct (Z.leb_spec 1 (need s (PHexRaw n bg fg x y w h tx ty tw th))); lia.
    + apply HF; [lia|left; apply LT, lands_upd, lands_hex_next].
  - (* PHexSub *) cbn [step].
    match goal with |- match ?r with _ => _ end => assert (L : lands mid r) end.
    { destruct (has sub HEX_BACKGROUND_SPECIFIED); destruct (has sub HEX_FOREGROUND_SPECIFIED); cbv zeta;
        apply lands_fill;
        (destruct (negb (_ =? 0)); [destruct (has sub HEX_SUBRECTS_COLORED); cbn; (split; [|exact I]); unfold mid, rank;
           destruct (1 <=? _); lia|apply lands_weaken, lands_hex_next]). }
    destruct (Z.le_gt_cases (need s (PHexSub n sub bg fg x y w h tx ty tw th)) 0) as [Hn|Hn].
    + apply HM; [exact L|exact Hn|]. unfold rank.
      destruct (Z.leb_spec 1 (need s (PHexSub n sub bg fg x y w h tx ty tw th))); lia.
    + apply HF; [lia|left]. revert L.
      match goal with |- lands mid ?r -> _ => generalize r end.
      intros r; destruct r as [s' [q|] es|es]; cbn; tauto.
  - (* PHexCol *) cbn [step].
    match goal with |- match ?r with _ => _ end => assert (L : lands high r) end.
    { destruct (hex_subrects_col _ _ _ _ _ _) as [[l last]|]; [apply lands_fills, lands_hex_next|exact I]. }
    destruct (Z.le_gt_cases (need s (PHexCol n bg fg x y w h tx ty tw th)) 0) as [Hn|Hn].
    + apply HH; [exact L|exact Hn|]. unfold rank.
      destruct (Z.leb_spec 1 (need s (PHexCol n bg fg x y w h tx ty tw th))); lia.
    + apply HF; [lia|left; apply LT; exact L].
  - (* PHexFG *) cbn [step].
    match goal with |- match ?r with _ => _ end => assert (L : lands high r) end.
    { destruct (hex_subrects_fg _ _ _) as [l|]; [|exact I].
      destruct fg; [apply lands_fills, lands_hex_next|]. destruct l; [apply lands_hex_next|exact I]. }
    destruct (Z.le_gt_cases (need s (PHexFG n bg fg x y w h tx ty tw th)) 0) as [Hn|Hn].
    + apply HH; [exact L|exact Hn|]. unfold rank.
      destruct (Z.leb_spec 1 (need s (PHexFG n bg fg x y w h tx ty tw th))); lia.
    + apply HF; [lia|left; apply LT; exact L].
  - (* PZRLE *) apply HF; [cbn; lia|]. cbn [step].
    destruct (unpackZ _ blk) as [[|n [|? ?]]|]; left; cbn; auto.
  - (* PZRLEData *) cbn [step].
    match goal with |- match ?r with _ => _ end => assert (L : lands high r) end.
    { destruct (ztape s) as [|[d|] rest]; [exact I|apply lands_zrle|exact I]. }
    destruct (Z.le_gt_cases (need s (PZRLEData n x y w h)) 0) as [Hn|Hn].
    + apply HH; [exact L|exact Hn|]. unfold rank. destruct (Z.leb_spec 1 (need s (PZRLEData n x y w h))); lia.
    + apply HF; [lia|left; apply LT; exact L].
  - (* PCursor *) cbn [step].
    destruct (Z.le_gt_cases (need s (PCursor n x y w h)) 0) as [Hn|Hn].
    + apply HH; [apply lands_prepend, lands_do_connection|exact Hn|].
      unfold rank. destruct (Z.leb_spec 1 (need s (PCursor n x y w h))); lia.
    + apply HF; [lia|left; apply LT, lands_prepend, lands_do_connection].
  - (* PColourMap *) apply HF; [cbn; lia|]. cbn [step].
    destruct (unpackZ _ blk) as [[|f [|n [|? ?]]]|]; left; cbn; auto.
  - (* PColourMapVal *) cbn [step]. split; [exact I|]. intros Hn. unfold rank. cbn [need] in *.
    destruct (Z.leb_spec 1 n); [lia|cbn; lia].
  - (* PCutText *) apply HF; [cbn; lia|]. cbn [step].
    destruct (unpackZ _ blk) as [[|n [|? ?]]|]; left; cbn; auto.
  - (* PCutTextVal *) cbn [step]. split; [exact I|]. intros Hn. unfold rank. cbn [need] in *.
    destruct (Z.leb_spec 1 n); [lia|cbn; lia].
Qed.

Lemma step_wf : forall s p blk s' p' es,
  wf_pend p -> bytes_ok blk = true -> step s p blk = Ok s' p' es -> wf_pend (next_pend pend p p').
Proof.
  intros s p blk s' p' es W Hb E. pose proof (step_lands s p blk W Hb) as L. rewrite E in L.
  destruct p' as [q|]; cbn [next_pend]; [apply L|exact W].
Qed.

Lemma step_inv_rfb : forall s p blk s' p' es,
  wf_pend p -> bytes_ok blk = true -> step s p blk = Ok s' p' es ->
  wf_pend (next_pend pend p p') /\ (need s p <= 0 -> (rank s' (next_pend pend p p') < rank s p)%nat).
Proof.
  intros s p blk s' p' es W Hb E. split; [eapply step_wf; eassumption|].
  pose proof (step_lands s p blk W Hb) as L. rewrite E in L.
  destruct p' as [q|]; cbn [next_pend]; [apply L|]. intros Hn. lia.
Qed.

Theorem rfb_terminates_linear : forall s p buf,
  wf_pend p -> bytes_ok buf = true ->
  exists es r n, Drain st pend ev need step s p buf es r n /\ (n <= 3 * length buf + 3)%nat.
Proof.
  intros s p buf W Hb.
  destruct (terminates_linear_inv st pend ev need step (fun _ p => wf_pend p) rank 2 rank_le2
              (fun s p blk s' p' es W Hb E => step_inv_rfb s p blk s' p' es W Hb E) s p buf W Hb)
    as (es & r & n & D & B).
  exists es, r, n. split; [exact D|]. pose proof (rank_le2 s p). lia.
Qed.
