(** shlex reads back what shlex.quote wrote (C18): the tokeniser over the recorder's lines. *)
From Coq Require Import ZArith List Bool Lia.
From VD Require Import Base.Bytes Base.BytesP Base.Text Proofs.TextP Model.Shlex.
Import ListNotations.
Open Scope Z_scope.

(* characters that are ordinary inside an unquoted word *)
Definition plain (c : Z) : bool :=
  negb (is_ws c || (c =? HASH) || (c =? BSL) || (c =? SQ) || (c =? DQ)).

Lemma plain_inv c : plain c = true ->
  is_ws c = false /\ (c =? HASH) = false /\ (c =? BSL) = false /\ (c =? SQ) = false /\ (c =? DQ) = false.
Proof.
  unfold plain. intros H. apply negb_true_iff in H.
  destruct (is_ws c), (c =? HASH), (c =? BSL), (c =? SQ), (c =? DQ); cbn in H; try discriminate. repeat split.
Qed.

(* an unquoted word of plain characters followed by a blank is one token *)
Lemma lex_word_tail : forall wd tok rest acc,
  forallb plain wd = true -> tok <> [] ->
  lex (wd ++ 32 :: rest) LWord tok false acc = lex rest LSpace [] false (acc ++ [rev tok ++ wd]).
Proof.
  induction wd as [|c wd IH]; intros tok rest acc Hp Ht; cbn [app].
  - cbn [lex]. change (is_ws 32) with true. cbv iota. destruct tok as [|t0 tok']; [congruence|]. cbn [orb]. rewrite app_nil_r. reflexivity.
  - cbn [forallb] in Hp. apply andb_prop in Hp as [Hc Hw]. destruct (plain_inv c Hc) as (W & H1 & H2 & H3 & H4).
    cbn [lex]. rewrite W, H1, H2, H3, H4. cbn [orb]. rewrite IH by (try assumption; discriminate).
    cbn [rev]. rewrite <- app_assoc. reflexivity.
Qed.

Lemma lex_word : forall wd rest acc,
  wd <> [] -> forallb plain wd = true ->
  lex (wd ++ 32 :: rest) LSpace [] false acc = lex rest LSpace [] false (acc ++ [wd]).
Proof.
  intros [|c wd] rest acc Hne Hp; [congruence|]. cbn [forallb] in Hp. apply andb_prop in Hp as [Hc Hw].
  destruct (plain_inv c Hc) as (W & H1 & H2 & H3 & H4). cbn [app lex]. rewrite W, H1, H2, H3, H4. cbn [orb].
  rewrite lex_word_tail by (try assumption; discriminate). reflexivity.
Qed.

(* the escape shlex.quote uses for a single quote: '"'"' *)
Definition esc (c : Z) : list Z := if c =? SQ then [SQ; DQ; SQ; DQ; SQ] else [c].

Lemma lex_in_quote : forall s tok quoted rest acc,
  lex (flat_map esc s ++ SQ :: 32 :: rest) (LQuote SQ) tok quoted acc =
  lex rest LSpace [] false (acc ++ [rev tok ++ s]).
Proof.
  induction s as [|c s IH]; intros tok quoted rest acc; cbn [flat_map app].
  - cbn [lex]. change (SQ =? SQ) with true. cbv iota. cbn [lex]. change (is_ws 32) with true. cbv iota.
    rewrite orb_true_r. rewrite app_nil_r. reflexivity.
  - unfold esc at 1. destruct (Z.eqb_spec c SQ) as [->|Hne].
    + (* ' " ' " ' : close, open a double quote, the quote character, close, reopen *)
      cbn [app lex]. change (SQ =? SQ) with true. cbv iota.
      cbn [lex]. change (is_ws DQ) with false. change (DQ =? HASH) with false. change ((DQ =? SQ) || (DQ =? DQ)) with true. cbv iota.
      cbn [lex]. change (SQ =? DQ) with false. change ((SQ =? BSL) && (DQ =? DQ)) with false. cbv iota.
      cbn [lex]. change (DQ =? DQ) with true. cbv iota.
      cbn [lex]. change (is_ws SQ) with false. change (SQ =? HASH) with false. change ((SQ =? SQ) || (SQ =? DQ)) with true. cbv iota.
      rewrite IH. cbn [rev]. rewrite <- app_assoc. reflexivity.
    + cbn [app lex]. destruct (Z.eqb_spec c SQ) as [|_]; [contradiction|].
      change (SQ =? DQ) with false. rewrite andb_false_r. rewrite IH. cbn [rev]. rewrite <- app_assoc. reflexivity.
Qed.

Lemma safe_plain c : safe_char c = true -> plain c = true.
Proof.
  intros H. destruct (plain c) eqn:P; [reflexivity|]. exfalso.
  unfold plain in P. apply negb_false_iff in P.
  assert (C : c = 32 \/ c = 9 \/ c = 13 \/ c = 10 \/ c = HASH \/ c = BSL \/ c = SQ \/ c = DQ).
  { unfold is_ws in P. repeat match type of P with context [?a =? ?b] => destruct (Z.eqb_spec a b); [subst; tauto|] end. cbn in P. discriminate. }
  repeat destruct C as [C|C]; subst c; vm_compute in H; discriminate.
Qed.

(** whatever shlex.quote produces for a text, followed by a blank, is read back as exactly that text *)
Theorem lex_quote : forall s rest acc,
  lex (quote s ++ 32 :: rest) LSpace [] false acc = lex rest LSpace [] false (acc ++ [s]).
Proof.
  intros s rest acc. unfold quote. destruct s as [|c s'] eqn:Es.
  - cbn [app lex]. change (is_ws SQ) with false. change (SQ =? HASH) with false. change (SQ =? BSL) with false.
    change ((SQ =? SQ) || (SQ =? DQ)) with true. cbv iota.
    apply (lex_in_quote [] [] false rest acc).
  - rewrite <- Es. destruct (forallb safe_char s) eqn:Sf.
    + apply lex_word; [subst; discriminate|]. rewrite forallb_forall in *. intros x Hx. apply safe_plain, Sf, Hx.
    + change ([SQ] ++ flat_map (fun c0 => if c0 =? SQ then [SQ; DQ; SQ; DQ; SQ] else [c0]) s ++ [SQ]) with ([SQ] ++ flat_map esc s ++ [SQ]).
      rewrite <- !app_assoc. cbn [app lex]. change (is_ws SQ) with false. change (SQ =? HASH) with false. change (SQ =? BSL) with false.
      change ((SQ =? SQ) || (SQ =? DQ)) with true. cbv iota.
      apply (lex_in_quote s [] false rest acc).
Qed.

(** *** the recorder's numbers *)
From VD Require Import Model.Server Model.Command Model.Recorder Proofs.ServerP.

Lemma dec_digits_digits : forall fuel n, 0 <= n -> Forall (fun c => is_digit c = true) (dec_digits fuel n).
Proof.
  induction fuel as [|f IH]; intros n Hn; cbn [dec_digits]; [constructor|].
  destruct (Z.ltb_spec n 10).
  - constructor; [|constructor]. unfold is_digit. apply andb_true_intro. split; [apply Z.leb_le|apply Z.leb_le]; lia.
  - apply Forall_app. split; [apply IH; apply Z.div_pos; lia|].
    constructor; [|constructor]. pose proof (Z.mod_pos_bound n 10 ltac:(lia)).
    unfold is_digit. apply andb_true_intro. split; apply Z.leb_le; lia.
Qed.

Lemma dec_digits_nonempty fuel n : dec_digits (S fuel) n <> [].
Proof. cbn [dec_digits]. destruct (n <? 10); [discriminate|]. intros E. apply app_eq_nil in E as [_ E]. discriminate. Qed.

(* the value read back, for numbers that fit the fuel *)
Lemma dec_val_acc_app a b acc : dec_val_acc (a ++ b) acc = dec_val_acc b (dec_val_acc a acc).
Proof. revert acc. induction a as [|c a IH]; intros acc; cbn [app dec_val_acc]; [reflexivity|apply IH]. Qed.

Lemma dec_digits_val : forall fuel n, 0 <= n < 10 ^ Z.of_nat fuel -> dec_val (dec_digits fuel n) = n.
Proof.
  unfold dec_val. induction fuel as [|f IH]; intros n Hn.
  - cbn in Hn. assert (n = 0) by lia. subst. reflexivity.
  - cbn [dec_digits]. destruct (Z.ltb_spec n 10).
    + cbn [dec_val_acc]. lia.
    + rewrite dec_val_acc_app. rewrite IH.
      * cbn [dec_val_acc]. pose proof (Z.div_mod n 10 ltac:(lia)). lia.
      * rewrite Nat2Z.inj_succ, Z.pow_succ_r in Hn by lia. split; [apply Z.div_pos; lia|].
        apply Z.div_lt_upper_bound; lia.
Qed.

Lemma digit_plain c : is_digit c = true -> plain c = true.
Proof.
  unfold is_digit. intros H. apply andb_prop in H as [H1 H2]. apply Z.leb_le in H1, H2.
  unfold plain, is_ws, HASH, BSL, SQ, DQ.
  repeat match goal with |- context [?a =? ?b] => destruct (Z.eqb_spec a b); [lia|] end. reflexivity.
Qed.

Lemma digits_plain l : Forall (fun c => is_digit c = true) l -> forallb plain l = true.
Proof. intros H. apply forallb_forall. intros x Hx. rewrite Forall_forall in H. apply digit_plain, H, Hx. Qed.

Lemma dec_text_digits x : 0 <= x -> digits (dec_text x).
Proof.
  intros H. unfold dec_text. destruct (Z.ltb_spec x 0); [lia|]. split; [apply dec_digits_nonempty|apply dec_digits_digits; exact H].
Qed.

Lemma dec_text_val x : 0 <= x < 10 ^ 40 -> dec_val (dec_text x) = x.
Proof. intros H. unfold dec_text. destruct (Z.ltb_spec x 0); [lia|]. apply dec_digits_val. exact H. Qed.

(* "%.4f" of a non-negative gap: digits '.' four digits *)
Definition frac4 (a : Z) : text := [48 + (a / 1000) mod 10; 48 + (a / 100) mod 10; 48 + (a / 10) mod 10; 48 + a mod 10].

Lemma fmt4_shape t : 0 <= t -> fmt4 t = dec_digits 40 (t / 10000) ++ [46] ++ frac4 t.
Proof. intros H. unfold fmt4, frac4. destruct (Z.ltb_spec t 0); [lia|]. rewrite Z.abs_eq by lia. reflexivity. Qed.

Lemma frac4_digits a : Forall (fun c => is_digit c = true) (frac4 a).
Proof.
  unfold frac4. repeat constructor; unfold is_digit; apply andb_true_intro; split; apply Z.leb_le;
    match goal with |- context [?v mod 10] => pose proof (Z.mod_pos_bound v 10 ltac:(lia)) end; lia.
Qed.

Lemma fmt4_plain t : 0 <= t -> forallb plain (fmt4 t) = true /\ fmt4 t <> [].
Proof.
  intros H. rewrite fmt4_shape by exact H. split.
  - assert (Hq : 0 <= t / 10000) by (apply Z.div_pos; lia).
    rewrite !forallb_app. rewrite (digits_plain _ (dec_digits_digits 40 _ Hq)).
    rewrite (digits_plain _ (frac4_digits t)). reflexivity.
  - intros E. apply app_eq_nil in E as [_ E]. discriminate.
Qed.

(** *** Python's float() accepts what "%.4f" printed *)

Lemma digit_run_digits : forall ds rest p seen,
  Forall (fun c => is_digit c = true) ds ->
  (match rest with [] => True | c :: _ => is_digit c = false /\ c <> USCORE end) ->
  digit_run (ds ++ rest) p seen = Some (rest, seen || negb (match ds with [] => true | _ => false end)).
Proof.
  induction ds as [|d ds IH]; intros rest p seen Hd Hr; cbn [app].
  - rewrite orb_false_r. destruct rest as [|c r]; [reflexivity|]. destruct Hr as [Hc Hu]. cbn [digit_run]. rewrite Hc.
    destruct (Z.eqb_spec c USCORE); [contradiction|]. reflexivity.
  - inversion Hd as [|? ? H1 H2]; subst. cbn [digit_run]. rewrite H1. rewrite (IH rest true true H2 Hr). cbn [negb orb]. rewrite orb_true_r. reflexivity.
Qed.

Lemma not_space_digit c : is_digit c = true -> is_space c = false.
Proof. apply digit_not_space. Qed.

Lemma drop_space_head c l : is_space c = false -> drop_space (c :: l) = c :: l.
Proof. intros H. cbn [drop_space]. rewrite H. reflexivity. Qed.

Lemma strip_ends a l z : is_space a = false -> is_space z = false -> strip (a :: l ++ [z]) = a :: l ++ [z].
Proof.
  intros Ha Hz. unfold strip. rewrite (drop_space_head a _ Ha).
  assert (E : rev (a :: l ++ [z]) = z :: rev l ++ [a]).
  { cbn [rev]. rewrite rev_app_distr. cbn [rev app]. reflexivity. }
  rewrite E, (drop_space_head z _ Hz). cbn [rev]. rewrite rev_app_distr, rev_involutive. cbn [rev app]. reflexivity.
Qed.

Theorem fmt4_is_float t : 0 <= t -> py_float_ok (fmt4 t) = true.
Proof.
  intros H. rewrite fmt4_shape by exact H.
  assert (Hq : 0 <= t / 10000) by (apply Z.div_pos; lia).
  pose proof (dec_digits_digits 40 (t / 10000) Hq) as HD. pose proof (dec_digits_nonempty 39 (t / 10000)) as HN.
  pose proof (frac4_digits t) as HF.
  set (D := dec_digits 40 (t / 10000)) in *. destruct D as [|d0 D]; [congruence|]. clear HN.
  inversion HD as [|? ? Hd0 HDt]; subst.
  unfold frac4 in *. set (f1 := 48 + (t / 1000) mod 10) in *. set (f2 := 48 + (t / 100) mod 10) in *.
  set (f3 := 48 + (t / 10) mod 10) in *. set (f4 := 48 + t mod 10) in *.
  inversion HF as [|? ? F1 HF1]; subst. inversion HF1 as [|? ? F2 HF2]; subst. inversion HF2 as [|? ? F3 HF3]; subst.
  inversion HF3 as [|? ? F4 _]; subst.
  unfold py_float_ok.
  (* strip: both ends are digits *)
  assert (St : strip ((d0 :: D) ++ [46] ++ [f1; f2; f3; f4]) = (d0 :: D) ++ [46] ++ [f1; f2; f3; f4]).
  { change ((d0 :: D) ++ [46] ++ [f1; f2; f3; f4]) with (d0 :: (D ++ [46; f1; f2; f3] ++ [f4])).
    rewrite app_assoc. apply strip_ends; apply not_space_digit; assumption. }
  rewrite St. cbn [app].
  assert (Hsign : (d0 =? 43) || (d0 =? 45) = false).
  { unfold is_digit in Hd0. apply andb_prop in Hd0 as [A B]. apply Z.leb_le in A, B.
    destruct (Z.eqb_spec d0 43); [lia|]. destruct (Z.eqb_spec d0 45); [lia|]. reflexivity. }
  rewrite Hsign.
  assert (Hl : lower d0 = d0).
  { unfold lower. unfold is_digit in Hd0. apply andb_prop in Hd0 as [A B]. apply Z.leb_le in A, B.
    destruct (Z.leb_spec 65 d0); cbn; [lia|reflexivity]. }
  assert (Hword : forall wd, match wd with c :: _ => 97 <= c | [] => True end ->
                  text_eqb (map lower (d0 :: D ++ 46 :: [f1; f2; f3; f4])) wd = false).
  { intros [|c wd] Hc; [reflexivity|]. cbn [map text_eqb]. rewrite Hl.
    unfold is_digit in Hd0. apply andb_prop in Hd0 as [A B]. apply Z.leb_le in A, B.
    destruct (Z.eqb_spec d0 c); [lia|]. reflexivity. }
  rewrite !Hword by (cbn; lia). cbn [orb].
  change (d0 :: D ++ 46 :: [f1; f2; f3; f4]) with ((d0 :: D) ++ 46 :: [f1; f2; f3; f4]).
  rewrite (digit_run_digits (d0 :: D) (46 :: [f1; f2; f3; f4]) false false HD) by (split; [reflexivity|discriminate]).
  cbn [negb orb]. rewrite F1.
  change [f1; f2; f3; f4] with ([f1; f2; f3; f4] ++ []).
  rewrite (digit_run_digits [f1; f2; f3; f4] [] false false HF I). cbn [negb orb]. reflexivity.
Qed.

(** *** the recorder's lines *)
From VD Require Import Model.Keys Model.Replay Proofs.CommandP Proofs.ReplayP Proofs.Words.

Lemma W_plain : forallb plain W_pause = true /\ forallb plain W_keydown = true /\ forallb plain W_keyup = true /\
                forallb plain W_move = true /\ forallb plain W_click = true.
Proof. vm_compute. repeat split. Qed.

(* the blank-then-newline that ends every recorder line *)
Lemma lex_eol rest acc : lex (10 :: rest) LSpace [] false acc = lex rest LSpace [] false acc.
Proof. cbn [lex]. change (is_ws 10) with true. cbv iota. reflexivity. Qed.

Definition key_word (down : Z) : text := if negb (down =? 0) then W_keydown else W_keyup.

Lemma key_line_shape g down name :
  join_sp [W_pause; fmt4 g; key_word down; quote name; [10]] =
  W_pause ++ 32 :: fmt4 g ++ 32 :: key_word down ++ 32 :: quote name ++ 32 :: [10].
Proof. reflexivity. Qed.

Theorem lex_key_line g down name rest acc : 0 <= g ->
  lex ((W_pause ++ 32 :: fmt4 g ++ 32 :: key_word down ++ 32 :: quote name ++ 32 :: [10]) ++ rest) LSpace [] false acc =
  lex rest LSpace [] false (acc ++ [W_pause; fmt4 g; key_word down; name]).
Proof.
  intros Hg. destruct W_plain as (P1 & P2 & P3 & _). destruct (fmt4_plain g Hg) as [Pg Ng].
  rewrite <- app_assoc. cbn [app]. rewrite lex_word by (try exact P1; discriminate).
  rewrite <- app_assoc. cbn [app]. rewrite lex_word by assumption.
  rewrite <- app_assoc. cbn [app]. rewrite lex_word by (unfold key_word; destruct (negb (down =? 0)); try assumption; discriminate).
  rewrite <- app_assoc. cbn [app]. rewrite lex_quote. rewrite lex_eol.
  rewrite <- !app_assoc. reflexivity.
Qed.

(** a line made of plain words separated by single blanks and closed by blank-newline *)
Lemma join_sp_cons x y l : join_sp (x :: y :: l) = x ++ 32 :: join_sp (y :: l).
Proof. reflexivity. Qed.

Definition word_ok (wd : text) : Prop := wd <> [] /\ forallb plain wd = true.

Lemma lex_words : forall ws rest acc,
  Forall word_ok ws ->
  lex (join_sp (ws ++ [[10]]) ++ rest) LSpace [] false acc = lex rest LSpace [] false (acc ++ ws).
Proof.
  induction ws as [|wd ws IH]; intros rest acc H; cbn [app].
  - cbn [join_sp app]. rewrite lex_eol, app_nil_r. reflexivity.
  - inversion H as [|? ? [Hn Hp] Hr]; subst.
    assert (E : join_sp (wd :: ws ++ [[10]]) = wd ++ 32 :: join_sp (ws ++ [[10]])).
    { destruct ws as [|w2 ws']; reflexivity. }
    rewrite E, <- app_assoc. cbn [app]. rewrite lex_word by assumption. rewrite IH by assumption.
    rewrite <- app_assoc. reflexivity.
Qed.

Lemma join_sp_app_ne : forall a b, a <> [] -> b <> [] -> join_sp (a ++ b) = join_sp a ++ 32 :: join_sp b.
Proof.
  induction a as [|x a IH]; intros b Ha Hb; [congruence|]. destruct a as [|y a'].
  - cbn [app]. destruct b as [|b1 b']; [congruence|]. reflexivity.
  - change ((x :: y :: a') ++ b) with (x :: y :: (a' ++ b)). rewrite !join_sp_cons.
    change (y :: a' ++ b) with ((y :: a') ++ b). rewrite IH by (try assumption; discriminate).
    rewrite <- app_assoc. reflexivity.
Qed.

(* joining items that are themselves blank-separated words *)
Lemma join_sp_flatten : forall (wss : list (list text)) (tail : list text),
  Forall (fun ws => ws <> []) wss -> tail <> [] ->
  join_sp (map join_sp wss ++ tail) = join_sp (concat wss ++ tail).
Proof.
  induction wss as [|ws wss IH]; intros tail Hne Ht; [reflexivity|].
  inversion Hne as [|? ? Hws Hr]; subst. cbn [map concat].
  assert (T : map join_sp wss ++ tail <> []) by (destruct wss; cbn; [exact Ht|discriminate]).
  assert (T' : concat wss ++ tail <> []) by (destruct (concat wss); cbn; [exact Ht|discriminate]).
  change ((join_sp ws :: map join_sp wss) ++ tail) with ([join_sp ws] ++ (map join_sp wss ++ tail)).
  rewrite join_sp_app_ne by (try assumption; discriminate). cbn [join_sp].
  rewrite IH by assumption. rewrite <- app_assoc. symmetry. apply join_sp_app_ne; assumption.
Qed.

(** the pointer line *)
Definition ptr_words (g : Z) (moved : bool) (x y mask : Z) : list (list text) :=
  [[W_pause]; [fmt4 g]] ++ (if moved then [[W_move; dec_text x; dec_text y]] else [])
  ++ map (fun b => [W_click; dec_text b]) (buttons_of mask).

Lemma flat_map_if_filter {A B} (p : A -> bool) (f : A -> B) l :
  flat_map (fun a => if p a then [f a] else []) l = map f (filter p l).
Proof. induction l as [|a l IH]; cbn; [reflexivity|]. destruct (p a); cbn; rewrite IH; reflexivity. Qed.

Lemma W_sp : W_move_sp = W_move ++ [32] /\ W_click_sp = W_click ++ [32].
Proof. vm_compute. split; reflexivity. Qed.

Lemma pointer_line_shape s now x y mask :
  let moved := match r_mouse s with Some (mx, my) => negb ((mx =? x) && (my =? y)) | None => true end in
  fst (record_pointer s now x y mask) =
  join_sp (map join_sp (ptr_words (now - r_last s) moved x y mask) ++ [[10]]).
Proof.
  cbv zeta. unfold record_pointer. cbn [fst]. unfold ptr_words.
  set (moved := match r_mouse s with Some (mx, my) => negb ((mx =? x) && (my =? y)) | None => true end).
  destruct W_sp as [Em Ec].
  assert (A : (if moved then [W_move_sp ++ dec_text x ++ [SP] ++ dec_text y] else []) =
              map join_sp (if moved then [[W_move; dec_text x; dec_text y]] else [])).
  { destruct moved; reflexivity. }
  assert (B : flat_map (fun b => if negb (Z.land mask (Z.shiftl 1 (b - 1)) =? 0) then [W_click_sp ++ dec_text b] else [])
                       [1; 2; 3; 4; 5; 6; 7; 8] =
              map join_sp (map (fun b => [W_click; dec_text b]) (buttons_of mask))).
  { rewrite map_map. unfold buttons_of.
    rewrite <- (flat_map_if_filter (fun b => negb (Z.land mask (Z.shiftl 1 (b - 1)) =? 0)) (fun b => join_sp [W_click; dec_text b])).
    apply flat_map_ext. intros b. destruct (negb (Z.land mask (Z.shiftl 1 (b - 1)) =? 0)); reflexivity. }
  unfold W_move_sp in A. unfold W_click_sp in B. rewrite A, B. rewrite !map_app. cbn [map join_sp]. rewrite <- !app_assoc. reflexivity.
Qed.
