(** Pixel format / image mode agreement and the encodings advertised (C13). *)
From Coq Require Import ZArith List Bool Lia.
From RecordUpdate Require Import RecordSet.
From VD Require Import Base.Bytes Base.BytesP Base.Struct Base.PixFmt Base.Text Gen.Tables Gen.Formats.
From VD Require Import Model.Engine Model.ClientMsgs Model.Rfb Model.Image Proofs.C2SP.
Import ListNotations.
Open Scope Z_scope.

Definition chan (v shift mx : Z) : Z := Z.land (Z.shiftr v shift) mx * 255 / mx.

Lemma pixfmt_eqb_eq a b : pixfmt_eqb a b = true -> a = b.
Proof.
  destruct a, b. unfold pixfmt_eqb. cbn. intros H.
  repeat (apply andb_prop in H as [H ?]).
  repeat match goal with H : (_ =? _) = true |- _ => apply Z.eqb_eq in H end. subst. reflexivity.
Qed.

Lemma lookup_mode_in p m : lookup_mode p = Some m -> In (p, m) PF2IM.
Proof.
  unfold lookup_mode. destruct (find _ PF2IM) as [[p' m']|] eqn:E; [|discriminate].
  intros H; inversion H; subst. apply find_some in E as [Hin Heq]. cbn in Heq.
  apply pixfmt_eqb_eq in Heq. subst. exact Hin.
Qed.

Lemma lookup_RGB32 : exists m, lookup_mode RGB32 = Some m.
Proof. eexists. vm_compute. reflexivity. Qed.
Lemma lookup_BGR16 : exists m, lookup_mode BGR16 = Some m.
Proof. eexists. vm_compute. reflexivity. Qed.
Lemma setpf_RGB32 : exists b, setPixelFormat RGB32 = Some b.
Proof. eexists. vm_compute. reflexivity. Qed.
Lemma setpf_BGR16 : exists b, setPixelFormat BGR16 = Some b.
Proof. eexists. vm_compute. reflexivity. Qed.

Lemma supported_in_range e : In e SUPPORTED_ENCODINGS -> rng (-2147483648) 2147483647 e.
Proof.
  intros H. unfold SUPPORTED_ENCODINGS in H. unfold rng.
  repeat (destruct H as [<-|H]; [lia|]). destruct H.
Qed.

Theorem encodings_advertised : forall c,
  encodings_of c =
    [c_encoding c]
    ++ (if c_pseudocursor c || c_nocursor c then [ENC_PSEUDO_CURSOR] else [])
    ++ (if c_pseudodesktop c then [ENC_PSEUDO_DESKTOP_SIZE] else [])
    ++ (if c_last_rect c then [ENC_PSEUDO_LAST_RECT] else [])
    ++ (if c_qemu c then [ENC_PSEUDO_QEMU_EXTENDED_KEY_EVENT] else []) /\
  (In (c_encoding c) SUPPORTED_ENCODINGS -> forall e, In e (encodings_of c) -> In e SUPPORTED_ENCODINGS).
Proof.
  intros c. split; [reflexivity|]. intros Hp e He. unfold encodings_of in He.
  repeat (apply in_app_or in He as [He|He]).
  - destruct He as [<-|[]]. exact Hp.
  - destruct (_ || _); [destruct He as [<-|[]]; vm_compute; tauto|destruct He].
  - destruct (c_pseudodesktop c); [destruct He as [<-|[]]; vm_compute; tauto|destruct He].
  - destruct (c_last_rect c); [destruct He as [<-|[]]; vm_compute; tauto|destruct He].
  - destruct (c_qemu c); [destruct He as [<-|[]]; vm_compute; tauto|destruct He].
Qed.

Lemma setEncodings_ok c : In (c_encoding c) SUPPORTED_ENCODINGS -> exists b, setEncodings (encodings_of c) = Some b.
Proof.
  intros Hp. destruct (setEncodings_parses (encodings_of c)) as (b & E & _).
  - apply Forall_forall. intros e He. apply supported_in_range.
    apply (proj2 (encodings_advertised c) Hp e He).
  - unfold encodings_of, len. rewrite !app_length.
    destruct (_ || _), (c_pseudodesktop c), (c_last_rect c), (c_qemu c); cbn; lia.
  - eauto.
Qed.

Theorem format_in_force : forall s,
  c_variant (cf s) <> 0 -> In (c_encoding (cf s)) SUPPORTED_ENCODINGS ->
  exists s' es, connection_made s = (s', Some es) /\
    In (pf s', imode s') PF2IM /\
    ((lookup_mode (pf s) <> None /\ pf s' = pf s /\
      exists enc, setEncodings (encodings_of (cf s)) = Some enc /\
                  es = [EMade; EMode (imode s'); EWrite enc; EConnected]) \/
     (lookup_mode (pf s) = None /\
      pf s' = (if (fst (ver_server s) =? 3) && (snd (ver_server s) =? 889) then BGR16 else RGB32) /\
      exists spf enc, setPixelFormat (pf s') = Some spf /\ setEncodings (encodings_of (cf s)) = Some enc /\
                      es = [EMade; EWrite spf; EMode (imode s'); EWrite enc; EConnected])).
Proof.
  intros s Hv Hp. unfold connection_made.
  destruct (Z.eqb_spec (c_variant (cf s)) 0); [contradiction|].
  destruct (setEncodings_ok (cf s) Hp) as (enc & Eenc).
  destruct (lookup_mode (pf s)) as [m|] eqn:El.
  - rewrite Eenc. cbn [opt_write]. eexists _, _. split; [reflexivity|].
    cbn [pf imode set]. split; [apply lookup_mode_in; exact El|].
    left. split; [discriminate|]. split; [reflexivity|]. exists enc. split; [reflexivity|]. reflexivity.
  - set (p := if (fst (ver_server s) =? 3) && (snd (ver_server s) =? 889) then BGR16 else RGB32).
    assert (Hl : exists m, lookup_mode p = Some m) by (subst p; destruct (_ && _); [apply lookup_BGR16|apply lookup_RGB32]).
    assert (Hs : exists b, setPixelFormat p = Some b) by (subst p; destruct (_ && _); [apply setpf_BGR16|apply setpf_RGB32]).
    destruct Hl as (m & Em). destruct Hs as (spf & Es). rewrite Em, Es. cbn [opt_write]. rewrite Eenc. cbn [opt_write].
    eexists _, _. split; [reflexivity|]. cbn [pf imode set].
    split; [apply lookup_mode_in; exact Em|].
    right. split; [reflexivity|]. split; [reflexivity|]. exists spf, enc. repeat split; assumption.
Qed.

(** *** channels *)

Lemma land_255 x : 0 <= x -> Z.land x 255 = x mod 256.
Proof. intros H. change 255 with (Z.ones 8). rewrite Z.land_ones by lia. reflexivity. Qed.

Lemma chan8 v sh : 0 <= v -> 0 <= sh -> chan v sh 255 = (v / 2 ^ sh) mod 256.
Proof.
  intros Hv Hs. unfold chan. rewrite Z.shiftr_div_pow2 by lia.
  rewrite land_255 by (apply Z.div_pos; [lia|apply Z.pow_pos_nonneg; lia]).
  rewrite Z.div_mul by lia. reflexivity.
Qed.

Theorem channels : forall p m v,
  In (p, m) PF2IM -> 0 <= v < 2 ^ pf_bpp p ->
  decode_pixels m 1 (le_enc (Z.to_nat (pf_bypp p)) v) =
    [(chan v (pf_rshift p) (pf_rmax p), chan v (pf_gshift p) (pf_gmax p), chan v (pf_bshift p) (pf_bmax p))].
Proof.
  intros p m v Hin Hv. unfold PF2IM in Hin.
  repeat (destruct Hin as [E|Hin]; [inversion E; subst p m; clear E|]); try (destruct Hin);
    unfold pf_bypp; cbn [pf_bpp pf_rshift pf_gshift pf_bshift pf_rmax pf_gmax pf_bmax] in *.
  - (* RGB 24 *) change (Z.to_nat ((7 + 24) / 8)) with 3%nat. cbn [le_enc decode_pixels].
    rewrite !chan8 by lia. change (2 ^ 0) with 1. change (2 ^ 8) with 256. change (2 ^ 16) with (256 * 256).
    rewrite Z.div_1_r, <- !Z.div_div by lia. reflexivity.
  - (* RGBX 32 *) change (Z.to_nat ((7 + 32) / 8)) with 4%nat. cbn [le_enc decode_pixels].
    rewrite !chan8 by lia. change (2 ^ 0) with 1. change (2 ^ 8) with 256. change (2 ^ 16) with (256 * 256).
    rewrite Z.div_1_r, <- !Z.div_div by lia. reflexivity.
  - (* BGR;16 *) change (Z.to_nat ((7 + 16) / 8)) with 2%nat. cbn [le_enc decode_pixels].
    assert (E : v mod 256 + 256 * ((v / 256) mod 256) = v).
    { change (2 ^ 16) with 65536 in Hv. rewrite (Z.mod_small (v / 256) 256) by (split; [apply Z.div_pos; lia|apply Z.div_lt_upper_bound; lia]).
      pose proof (Z.div_mod v 256 ltac:(lia)). lia. }
    rewrite E. unfold chan. change (Z.shiftr v 0) with v. reflexivity.
  - (* BGR 24 *) change (Z.to_nat ((7 + 24) / 8)) with 3%nat. cbn [le_enc decode_pixels].
    rewrite !chan8 by lia. change (2 ^ 0) with 1. change (2 ^ 8) with 256. change (2 ^ 16) with (256 * 256).
    rewrite Z.div_1_r, <- !Z.div_div by lia. reflexivity.
  - (* BGRX 32 *) change (Z.to_nat ((7 + 32) / 8)) with 4%nat. cbn [le_enc decode_pixels].
    rewrite !chan8 by lia. change (2 ^ 0) with 1. change (2 ^ 8) with 256. change (2 ^ 16) with (256 * 256).
    rewrite Z.div_1_r, <- !Z.div_div by lia. reflexivity.
Qed.
