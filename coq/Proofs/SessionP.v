(** A viewer session of key and pointer events is recorded once per event, in order (C17). *)
From Coq Require Import ZArith List Bool Lia.
From VD Require Import Base.Bytes Base.BytesP Base.Struct Base.Text Proofs.TextP Gen.Tables Gen.Formats.
From VD Require Import Model.Shlex Model.Recorder Model.Replay Spec.C2S Proofs.C2SP Proofs.RecorderP Proofs.ParserP.
Import ListNotations.
Open Scope Z_scope.

(** RFC 6143 §7.5.5 PointerEvent *)
Definition pointer_event_bytes (mask x y : Z) : bytes := [5; mask] ++ be_enc 2 x ++ be_enc 2 y.

Lemma be_dec2 a b : be_dec [a; b] = u16 a b.
Proof. unfold be_dec, u16. cbn [be_dec_acc]. lia. Qed.

Theorem pointer_entry : forall s now mask x y rest,
  r_handler s = HProtocol ->
  0 <= mask <= 255 -> 0 <= x < 65536 -> 0 <= y < 65536 ->
  r_buf s = pointer_event_bytes mask x y ++ rest ->
  handle s now =
    let '(line, s2) := record_pointer (mk_rstate rest HProtocol 1 (r_pwreq s) (r_mouse s) (r_last s)) now x y mask in
    HOk [RRecord line] s2.
Proof.
  intros s now mask x y rest Hh Hm Hx Hy Hb.
  destruct (u16_enc x Hx) as [Ex Ux]. destruct (u16_enc y Hy) as [Ey Uy].
  unfold handle. rewrite Hh, Hb. unfold pointer_event_bytes. rewrite Ex, Ey. cbn [app].
  change (type_len 5) with 6.
  assert (Hl : len (5 :: mask :: x / 256 :: x mod 256 :: y / 256 :: y mod 256 :: rest) <? 6 = false).
  { apply Z.ltb_ge. rewrite !len_cons. pose proof (len_nonneg rest). lia. }
  rewrite Hl. change (Z.to_nat 6) with 6%nat. cbn [firstn skipn].
  change (5 =? C2S_SET_PIXEL_FORMAT) with false. change (5 =? C2S_SET_ENCODING) with false.
  change (5 =? C2S_FRAMEBUFFER_UPDATE_REQUEST) with false. change (5 =? C2S_KEY_EVENT) with false.
  change (5 =? C2S_POINTER_EVENT) with true. cbv iota.
  unfold unpackZs, fmt_loggingproxy_RFBServer_handle_protocol_5.
  cbn [unpack fsize take Z.leb Z.compare Z.sub Z.add Z.opp Z.pos_sub Pos.compare Pos.compare_cont Pos.pred_double unpack1 map].
  rewrite !be_dec2, Ux, Uy.
  assert (Hd1 : be_dec [mask] = mask) by (unfold be_dec; cbn; lia). rewrite Hd1.
  unfold with_buf. reflexivity.
Qed.

Definition wire (e : inev) : bytes :=
  match e with
  | IKey _ d k => key_event_bytes d k
  | IPtr _ m x y => pointer_event_bytes m x y
  end.

Definition wf_ev (e : inev) : Prop :=
  match e with
  | IKey _ d k => 0 <= d <= 255 /\ 0 <= k <= 4294967295 /\ key_name k <> None
  | IPtr _ m x y => 0 <= m <= 255 /\ 0 <= x < 65536 /\ 0 <= y < 65536
  end.

(* what the recorder writes for the events, all completed by data arriving at time [now] *)
Fixpoint entries (now : Z) (pw : bool) (mouse : option (Z * Z)) (last : Z) (evs : list inev)
  : list revent * option (Z * Z) * Z :=
  match evs with
  | [] => ([], mouse, last)
  | IKey _ d k :: r =>
      match record_key (mk_rstate [] HProtocol 1 pw mouse last) now k d with
      | Some (line, s') => let '(es, m', l') := entries now pw (r_mouse s') (r_last s') r in (RRecord line :: es, m', l')
      | None => ([], mouse, last)
      end
  | IPtr _ m x y :: r =>
      let '(line, s') := record_pointer (mk_rstate [] HProtocol 1 pw mouse last) now x y m in
      let '(es, m', l') := entries now pw (r_mouse s') (r_last s') r in (RRecord line :: es, m', l')
  end.

Lemma record_key_buf b1 b2 pw mouse last now k d :
  record_key (mk_rstate b1 HProtocol 1 pw mouse last) now k d =
  match record_key (mk_rstate b2 HProtocol 1 pw mouse last) now k d with
  | Some (l, s') => Some (l, mk_rstate b1 HProtocol 1 pw (r_mouse s') (r_last s'))
  | None => None
  end.
Proof. unfold record_key. destruct (key_name k); reflexivity. Qed.

Lemma record_pointer_buf b1 b2 pw mouse last now x y m :
  record_pointer (mk_rstate b1 HProtocol 1 pw mouse last) now x y m =
  let '(l, s') := record_pointer (mk_rstate b2 HProtocol 1 pw mouse last) now x y m in
  (l, mk_rstate b1 HProtocol 1 pw (r_mouse s') (r_last s')).
Proof. unfold record_pointer. cbn [r_mouse r_last r_buf r_handler r_need r_pwreq]. reflexivity. Qed.

(** one entry per key press, key release and pointer event, in the order sent, nothing else, and the
    parser is back at a message boundary with an empty buffer *)
Theorem Run_session now pw : forall evs mouse last acc,
  Forall wf_ev evs ->
  let '(es, m', l') := entries now pw mouse last evs in
  Run now (mk_rstate (concat (map wire evs)) HProtocol 1 pw mouse last) acc
      (ROk (acc ++ es) (mk_rstate [] HProtocol 1 pw m' l')).
Proof.
  induction evs as [|e evs IH]; intros mouse last acc W; cbn [entries map concat].
  - rewrite app_nil_r. apply Run_wait. cbn. lia.
  - inversion W as [|? ? We Wr]; subst. destruct e as [t d k|t m x y]; cbn [wire wf_ev] in *.
    + destruct We as (Hd & Hk & Hn). destruct (key_name k) as [name|] eqn:En; [|congruence].
      set (rest := concat (map wire evs)).
      pose proof (key_entry (mk_rstate (key_event_bytes d k ++ rest) HProtocol 1 pw mouse last) now d k rest name
                            eq_refl eq_refl Hd Hk En eq_refl) as HK.
      cbn [r_last r_pwreq r_mouse] in HK.
      unfold record_key. rewrite En. cbn [r_buf r_handler r_need r_pwreq r_mouse r_last].
      match type of HK with handle _ _ = HOk ?es0 _ => specialize (IH mouse now (acc ++ es0) Wr) end.
      destruct (entries now pw mouse now evs) as [[es m'] l'].
      eapply Run_step; [|exact HK|].
      * cbn [r_need r_buf]. unfold key_event_bytes. rewrite !len_app, !len_cons, len_nil. pose proof (len_nonneg rest). pose proof (len_nonneg (be_enc 4 k)). lia.
      * rewrite <- app_assoc in IH. exact IH.
    + destruct We as (Hm & Hx & Hy).
      set (rest := concat (map wire evs)).
      pose proof (pointer_entry (mk_rstate (pointer_event_bytes m x y ++ rest) HProtocol 1 pw mouse last) now m x y rest
                                eq_refl Hm Hx Hy eq_refl) as HP.
      cbn [r_last r_pwreq r_mouse] in HP.
      rewrite (record_pointer_buf rest [] pw mouse last now x y m) in HP.
      destruct (record_pointer (mk_rstate [] HProtocol 1 pw mouse last) now x y m) as [line s'] eqn:ER.
      specialize (IH (r_mouse s') (r_last s') (acc ++ [RRecord line]) Wr).
      destruct (entries now pw (r_mouse s') (r_last s') evs) as [[es m'] l'].
      eapply Run_step; [|exact HP|].
      * cbn [r_need r_buf]. unfold pointer_event_bytes. rewrite !len_app, !len_cons, len_nil. pose proof (len_nonneg rest). pose proof (len_nonneg (be_enc 2 x)).
        pose proof (len_nonneg (be_enc 2 y)). lia.
      * rewrite <- app_assoc in IH. exact IH.
Qed.

Theorem session_recorded now pw mouse last evs :
  Forall wf_ev evs ->
  let '(es, m', l') := entries now pw mouse last evs in
  rfeed (mk_rstate [] HProtocol 1 pw mouse last) now (concat (map wire evs)) = ROk es (mk_rstate [] HProtocol 1 pw m' l').
Proof.
  intros W. pose proof (Run_session now pw evs mouse last [] W) as R.
  destruct (entries now pw mouse last evs) as [[es m'] l']. cbn [app] in R.
  eapply Run_det; [apply rfeed_Run; left; reflexivity|]. unfold ext. cbn [r_buf r_handler r_need r_pwreq r_mouse r_last app]. exact R.
Qed.

(** ... and so under every chunking of the session's bytes *)
Theorem session_recorded_any_chunking now pw mouse last evs chunks :
  Forall wf_ev evs -> concat chunks = concat (map wire evs) ->
  let '(es, m', l') := entries now pw mouse last evs in
  rfeed_chunks (mk_rstate [] HProtocol 1 pw mouse last) now chunks = ROk es (mk_rstate [] HProtocol 1 pw m' l').
Proof.
  intros W E. rewrite chunking_invariance; [|left; reflexivity|unfold quiescent; cbn; lia].
  rewrite E. apply session_recorded. exact W.
Qed.
