From Coq Require Import ZArith List Bool Lia.
From VD Require Import Base.Bytes Base.BytesP Base.Text Proofs.TextP Model.Server.
Import ListNotations.
Open Scope Z_scope.

(** value of a decimal digit string *)
Fixpoint dec_val_acc (l : text) (acc : Z) : Z :=
  match l with [] => acc | c :: r => dec_val_acc r (acc * 10 + (c - 48)) end.
Definition dec_val (l : text) : Z := dec_val_acc l 0.

Definition digits (l : text) : Prop := l <> [] /\ Forall (fun c => is_digit c = true) l.

Lemma digits_val_digits l : forall acc p,
  Forall (fun c => is_digit c = true) l -> (l <> [] \/ p = true) ->
  digits_val l acc p = Some (dec_val_acc l acc).
Proof.
  induction l as [|c r IH]; intros acc p H Hne.
  - destruct Hne as [Hne| ->]; [congruence|reflexivity].
  - inversion H as [|? ? Hc Hr]; subst. cbn [digits_val dec_val_acc]. rewrite Hc.
    apply IH; [assumption|right; reflexivity].
Qed.

Lemma digit_not_space c : is_digit c = true -> is_space c = false.
Proof.
  unfold is_digit, is_space. intros H. apply andb_prop in H as [H1 H2].
  apply Z.leb_le in H1, H2.
  destruct (Z.leb_spec 9 c), (Z.leb_spec c 13), (Z.leb_spec 28 c), (Z.leb_spec c 32); cbn; try reflexivity; lia.
Qed.

Lemma drop_space_digits l : digits l -> drop_space l = l.
Proof. intros [Hne H]. destruct l as [|c r]; [congruence|]. inversion H; subst. cbn. rewrite digit_not_space by assumption. reflexivity. Qed.

Lemma digits_rev l : digits l -> digits (rev l).
Proof.
  intros [Hne H]. split.
  - intros E. apply (f_equal (@rev Z)) in E. rewrite rev_involutive in E. cbn in E. congruence.
  - apply Forall_forall. intros x Hx. apply in_rev in Hx. rewrite Forall_forall in H. auto.
Qed.

Lemma strip_digits l : digits l -> strip l = l.
Proof.
  intros H. unfold strip. rewrite (drop_space_digits l H).
  rewrite (drop_space_digits _ (digits_rev _ H)). apply rev_involutive.
Qed.

Theorem py_int_digits l : digits l -> py_int l = Some (dec_val l).
Proof.
  intros H. unfold py_int. rewrite (strip_digits l H). destruct H as [Hne H].
  destruct l as [|c r]; [congruence|].
  inversion H as [|? ? Hc Hr]; subst.
  assert (c <> 43 /\ c <> 45).
  { unfold is_digit in Hc. apply andb_prop in Hc as [H1 H2]. apply Z.leb_le in H1, H2. lia. }
  destruct (Z.eqb_spec c 43); [lia|]. destruct (Z.eqb_spec c 45); [lia|].
  apply digits_val_digits; [assumption|left; discriminate].
Qed.

Lemma py_int_empty : py_int [] = None.
Proof. reflexivity. Qed.

Lemma digits_nocolon l : digits l -> ~ In COLON l.
Proof.
  intros [_ H] Hin. rewrite Forall_forall in H. specialize (H _ Hin). vm_compute in H. discriminate.
Qed.

(** the three documented shapes, for a host without ':' that does not start with '[' *)
Definition host_ok (h : text) : Prop := ~ In COLON h /\ starts_with [LBRACK] h = false.

Definition eff_host (h : text) : text := match h with [] => localhost | _ => h end.
Definition fam_of (ex : text -> bool) (h : text) : family :=
  if ex (eff_host h) then AF_UNIX else if is_ipv4 (eff_host h) then AF_INET else AF_UNSPEC.

Lemma starts_with_app_nocolon h x :
  starts_with [LBRACK] h = false -> starts_with [LBRACK] (h ++ COLON :: x) = false.
Proof. destruct h as [|c h]; cbn; [reflexivity|]. intros H; exact H. Qed.

Theorem grammar_host ex v6 h :
  host_ok h -> parse_server ex v6 h = Some (fam_of ex h, eff_host h, 5900).
Proof.
  intros [Hc Hb]. unfold parse_server. rewrite Hb.
  unfold split_on. rewrite split_on_acc_nosep_end by assumption. cbn [rev app hd port_of].
  unfold fam_of, eff_host. destruct h; reflexivity.
Qed.

Theorem grammar_display ex v6 h n :
  host_ok h -> digits n ->
  parse_server ex v6 (h ++ COLON :: n) = Some (fam_of ex h, eff_host h, 5900 + dec_val n).
Proof.
  intros [Hc Hb] Hn. unfold parse_server. rewrite (starts_with_app_nocolon h n Hb).
  unfold split_on. rewrite split_on_acc_nosep by assumption.
  rewrite split_on_acc_nosep_end by (apply digits_nocolon; assumption).
  cbn [rev app hd port_of]. rewrite (py_int_digits n Hn).
  unfold fam_of, eff_host. destruct h; cbn [app]; f_equal; f_equal; lia.
Qed.

Theorem grammar_port ex v6 h n :
  host_ok h -> digits n ->
  parse_server ex v6 (h ++ COLON :: COLON :: n) = Some (fam_of ex h, eff_host h, dec_val n).
Proof.
  intros [Hc Hb] Hn. unfold parse_server. rewrite (starts_with_app_nocolon h _ Hb).
  unfold split_on. rewrite split_on_acc_nosep by assumption.
  change (COLON :: n) with ([] ++ COLON :: n). rewrite split_on_acc_nosep by (intros []).
  rewrite split_on_acc_nosep_end by (apply digits_nocolon; assumption).
  cbn [rev app hd port_of]. rewrite (py_int_digits n Hn).
  unfold fam_of, eff_host. destruct h; reflexivity.
Qed.

(** bracketed IPv6 *)
Lemma partition_on_nosep sep a b : ~ In sep a -> partition_on sep (a ++ sep :: b) = (a, true, b).
Proof.
  induction a as [|c a IH]; intros H; cbn [app partition_on].
  - rewrite Z.eqb_refl. reflexivity.
  - destruct (Z.eqb_spec c sep) as [->|Hne]; [exfalso; apply H; left; reflexivity|].
    rewrite IH by (intros Hin; apply H; right; assumption). reflexivity.
Qed.

Lemma partition_on_absent sep a : ~ In sep a -> partition_on sep a = (a, false, []).
Proof.
  induction a as [|c a IH]; intros H; cbn [partition_on]; [reflexivity|].
  destruct (Z.eqb_spec c sep) as [->|Hne]; [exfalso; apply H; left; reflexivity|].
  rewrite IH by (intros Hin; apply H; right; assumption). reflexivity.
Qed.

Theorem grammar_ipv6 ex v6 a suffix p :
  ~ In RBRACK a -> v6 a = true ->
  (suffix = [] /\ p = 5900 \/
   (exists n, digits n /\ suffix = COLON :: n /\ p = 5900 + dec_val n) \/
   (exists n, digits n /\ suffix = COLON :: COLON :: n /\ p = dec_val n)) ->
  parse_server ex v6 (LBRACK :: a ++ RBRACK :: suffix) = Some (AF_INET6, a, p).
Proof.
  intros Ha Hv H. unfold parse_server.
  change (starts_with [LBRACK] (LBRACK :: a ++ RBRACK :: suffix)) with true. cbn [tl].
  rewrite partition_on_nosep by assumption. cbn [negb]. rewrite Hv. cbn [negb].
  destruct H as [[-> ->]|[(n & Hn & -> & ->)|(n & Hn & -> & ->)]].
  - reflexivity.
  - unfold split_on. change (COLON :: n) with ([] ++ COLON :: n).
    rewrite split_on_acc_nosep by (intros []).
    rewrite split_on_acc_nosep_end by (apply digits_nocolon; assumption).
    cbn [rev app port_of]. rewrite (py_int_digits n Hn). f_equal; f_equal; lia.
  - unfold split_on. change (COLON :: COLON :: n) with ([] ++ COLON :: ([] ++ COLON :: n)).
    rewrite split_on_acc_nosep by (intros []). rewrite split_on_acc_nosep by (intros []).
    rewrite split_on_acc_nosep_end by (apply digits_nocolon; assumption).
    cbn [rev app port_of]. rewrite (py_int_digits n Hn). reflexivity.
Qed.

(** rejections *)
Theorem reject_unterminated ex v6 a : ~ In RBRACK a -> parse_server ex v6 (LBRACK :: a) = None.
Proof.
  intros Ha. unfold parse_server. change (starts_with [LBRACK] (LBRACK :: a)) with true. cbn [tl].
  rewrite partition_on_absent by assumption. reflexivity.
Qed.

Theorem reject_bad_ipv6 ex v6 a rest :
  ~ In RBRACK a -> v6 a = false -> parse_server ex v6 (LBRACK :: a ++ RBRACK :: rest) = None.
Proof.
  intros Ha Hv. unfold parse_server.
  change (starts_with [LBRACK] (LBRACK :: a ++ RBRACK :: rest)) with true. cbn [tl].
  rewrite partition_on_nosep by assumption. cbn [negb]. rewrite Hv. reflexivity.
Qed.

Lemma split_on_acc_length sep s cur : (1 + length (filter (Z.eqb sep) s) = length (split_on_acc sep s cur))%nat.
Proof.
  revert cur; induction s as [|c s IH]; intros cur; cbn [split_on_acc filter length]; [reflexivity|].
  rewrite (Z.eqb_sym sep c). destruct (c =? sep); cbn [length]; rewrite <- IH; reflexivity.
Qed.

(** more than two colons (four or more parts) is rejected *)
Theorem reject_many_colons ex v6 s :
  starts_with [LBRACK] s = false -> (3 <= length (filter (Z.eqb COLON) s))%nat ->
  parse_server ex v6 s = None.
Proof.
  intros Hb Hn. unfold parse_server. rewrite Hb.
  pose proof (split_on_acc_length COLON s []) as L. fold (split_on COLON s) in L.
  destruct (split_on COLON s) as [|a [|b [|c [|d r]]]]; cbn [length] in L; try lia. reflexivity.
Qed.

(** a number that int() rejects (empty, or containing a character that is not a digit, sign,
    underscore or blank) is rejected *)
Theorem reject_bad_number ex v6 h n :
  host_ok h -> ~ In COLON n -> py_int n = None ->
  parse_server ex v6 (h ++ COLON :: n) = None /\ parse_server ex v6 (h ++ COLON :: COLON :: n) = None.
Proof.
  intros [Hc Hb] Hn Hi. split; unfold parse_server.
  - rewrite (starts_with_app_nocolon h n Hb). unfold split_on.
    rewrite split_on_acc_nosep by assumption. rewrite split_on_acc_nosep_end by assumption.
    cbn [rev app hd port_of]. rewrite Hi. reflexivity.
  - rewrite (starts_with_app_nocolon h _ Hb). unfold split_on.
    rewrite split_on_acc_nosep by assumption.
    change (COLON :: n) with ([] ++ COLON :: n). rewrite split_on_acc_nosep by (intros []).
    rewrite split_on_acc_nosep_end by assumption.
    cbn [rev app hd port_of]. rewrite Hi. reflexivity.
Qed.

Lemma digits_val_nondigit l : forall acc p c,
  In c l -> is_digit c = false -> c <> USCORE -> digits_val l acc p = None.
Proof.
  induction l as [|d r IH]; intros acc p c Hin Hd Hu; [destruct Hin|].
  cbn [digits_val]. destruct Hin as [->|Hin].
  - rewrite Hd. destruct (Z.eqb_spec c USCORE); [congruence|]. reflexivity.
  - destruct (is_digit d); [eapply IH; eassumption|].
    destruct ((d =? USCORE) && p); [|reflexivity].
    destruct r as [|e r']; [reflexivity|]. destruct (is_digit e); [eapply IH; eassumption|reflexivity].
Qed.

Lemma in_drop_space c l : In c l -> is_space c = false -> In c (drop_space l).
Proof.
  induction l as [|d r IH]; intros Hin Hs; [destruct Hin|]. cbn [drop_space].
  destruct Hin as [->|Hin]; [rewrite Hs; left; reflexivity|].
  destruct (is_space d); [apply IH; assumption|right; assumption].
Qed.

Lemma in_strip c l : In c l -> is_space c = false -> In c (strip l).
Proof.
  intros Hin Hs. unfold strip. rewrite <- in_rev. apply in_drop_space; [|assumption].
  rewrite <- in_rev. apply in_drop_space; assumption.
Qed.

Theorem py_int_nonnumeric : forall n c,
  In c n -> is_digit c = false -> c <> USCORE -> c <> 43 -> c <> 45 -> is_space c = false ->
  py_int n = None.
Proof.
  intros n c Hin Hd Hu Hp Hm Hs. unfold py_int.
  pose proof (in_strip c n Hin Hs) as Hin'. destruct (strip n) as [|d r]; [reflexivity|].
  destruct (Z.eqb_spec d 43) as [->|].
  - destruct Hin' as [E|Hin']; [congruence|]. eapply digits_val_nondigit; eassumption.
  - destruct (Z.eqb_spec d 45) as [->|].
    + destruct Hin' as [E|Hin']; [congruence|]. erewrite digits_val_nondigit; [reflexivity| | |]; eassumption.
    + eapply digits_val_nondigit; eassumption.
Qed.
