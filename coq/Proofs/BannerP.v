(** C01 for the whole client, banner phase included: [_handleInitial] looks at the bytes buffered so
    far and waits, goes on, raises or drops the connection; delivering a stream in any chunks behaves as
    delivering it whole as long as no delivery is rejected ([ILose]: the client calls loseConnection
    on every delivery of a stream that cannot become a banner; Twisted then stops delivering). *)
From Coq Require Import ZArith List Bool Lia.
From RecordUpdate Require Import RecordSet.
Import RecordSetNotations.
From VD Require Import Base.Bytes Base.BytesP Base.Text Gen.Tables Model.Engine Model.Rfb Proofs.EngineP.
Import ListNotations.
Open Scope Z_scope.

Notation Drain := (Drain st pend ev need step).
Notation Feed := (Feed st pend ev need step).
Notation Run := (Run st pend ev need step).

(** *** text helpers *)

Lemma text_eqb_length : forall a b, text_eqb a b = true -> List.length a = List.length b.
Proof.
  induction a as [|x a IH]; intros [|y b] H; cbn [text_eqb] in H; try discriminate; [reflexivity|].
  apply andb_true_iff in H as [_ H]. cbn [List.length]. f_equal. apply IH. exact H.
Qed.

Lemma text_eqb_starts : forall a b, text_eqb a b = true -> starts_with a b = true.
Proof.
  induction a as [|x a IH]; intros [|y b] H; cbn [text_eqb] in H; try discriminate; [reflexivity|].
  apply andb_true_iff in H as [H1 H2]. cbn [starts_with]. rewrite H1, (IH b H2). reflexivity.
Qed.

Lemma starts_with_app_l : forall p z s, starts_with (p ++ z) s = true -> starts_with p s = true.
Proof.
  induction p as [|x p IH]; intros z s H; [reflexivity|].
  destruct s as [|y s]; cbn [app starts_with] in *; [discriminate|].
  apply andb_true_iff in H as [H1 H2]. rewrite H1, (IH z s H2). reflexivity.
Qed.

Lemma translate_app a b : translate_digits (a ++ b) = translate_digits a ++ translate_digits b.
Proof. unfold translate_digits. apply map_app. Qed.

Lemma translate_length a : List.length (translate_digits a) = List.length a.
Proof. unfold translate_digits. apply map_length. Qed.

(** *** _handleInitial as a function of the first twelve bytes *)

Definition hi_go (s : st) (head rest : bytes) : init_res :=
  match head with
  | [_; _; _; _; a1; a2; a3; _; b1; b2; b3; _] =>
      let vs := (digits3 a1 a2 a3, digits3 b1 b2 b3) in
      match best_version vs with
      | None => IRaise
      | Some v0 =>
          let v := if lt_ver MAX_CLIENT_VERSION v0 then MAX_CLIENT_VERSION else v0 in
          let s' := s <| ver := v |> <| ver_server := vs |> in
          IGo s' (if lt_ver v (3, 7) then PAuth else PNumSec) rest [EWrite (banner_of v)]
      end
  | _ => IWait
  end.

Lemma handle_initial_eq s buf :
  handle_initial s buf =
  if text_eqb (translate_digits (firstn 12 buf)) HEADER then hi_go s (firstn 12 buf) (skipn 12 buf)
  else if starts_with (translate_digits (firstn 12 buf)) HEADER then IWait else ILose.
Proof. reflexivity. Qed.

Opaque translate_digits.

Lemma header_len : List.length HEADER = 12%nat.
Proof. reflexivity. Qed.

Lemma firstn12_long (x y : bytes) : (12 <= List.length x)%nat -> firstn 12 (x ++ y) = firstn 12 x /\ skipn 12 (x ++ y) = skipn 12 x ++ y.
Proof.
  intros H. split.
  - rewrite firstn_app. replace (12 - List.length x)%nat with 0%nat by lia. cbn [firstn]. apply app_nil_r.
  - rewrite skipn_app. replace (12 - List.length x)%nat with 0%nat by lia. reflexivity.
Qed.

Lemma eq_long x : text_eqb (translate_digits (firstn 12 x)) HEADER = true -> (12 <= List.length x)%nat.
Proof.
  intros H. apply text_eqb_length in H. rewrite translate_length, header_len in H.
  rewrite firstn_length in H. lia.
Qed.

Lemma hi_go_rest s head rest y :
  match hi_go s head rest with
  | IGo s' p r es => r = rest /\ hi_go s head (rest ++ y) = IGo s' p (rest ++ y) es
  | IRaise => hi_go s head (rest ++ y) = IRaise
  | IWait => hi_go s head (rest ++ y) = IWait
  | ILose => False
  end.
Proof.
  unfold hi_go. do 12 (destruct head as [|? head]; [reflexivity|]). destruct head; [|reflexivity].
  destruct (best_version _); [|reflexivity]. cbv zeta. split; reflexivity.
Qed.

(** once twelve bytes say "banner", later bytes only extend the rest *)
Lemma handle_initial_go s x y s' p rest es :
  handle_initial s x = IGo s' p rest es -> handle_initial s (x ++ y) = IGo s' p (rest ++ y) es.
Proof.
  rewrite !handle_initial_eq. destruct (text_eqb (translate_digits (firstn 12 x)) HEADER) eqn:E.
  - destruct (firstn12_long x y (eq_long x E)) as [F S]. rewrite F, S, E.
    pose proof (hi_go_rest s (firstn 12 x) (skipn 12 x) y) as G. intros H. rewrite H in G. destruct G as [-> G]. exact G.
  - destruct (starts_with _ _); discriminate.
Qed.

Lemma handle_initial_raise s x y : handle_initial s x = IRaise -> handle_initial s (x ++ y) = IRaise.
Proof.
  rewrite !handle_initial_eq. destruct (text_eqb (translate_digits (firstn 12 x)) HEADER) eqn:E.
  - destruct (firstn12_long x y (eq_long x E)) as [F S]. rewrite F, S, E.
    pose proof (hi_go_rest s (firstn 12 x) (skipn 12 x) y) as G. intros H. rewrite H in G. exact G.
  - destruct (starts_with _ _); discriminate.
Qed.

(** a stream that cannot become a banner never becomes one *)
Lemma handle_initial_lose s x y : handle_initial s x = ILose -> handle_initial s (x ++ y) = ILose.
Proof.
  rewrite !handle_initial_eq. destruct (text_eqb (translate_digits (firstn 12 x)) HEADER) eqn:E.
  - pose proof (hi_go_rest s (firstn 12 x) (skipn 12 x) []) as G. intros H. rewrite H in G. contradiction.
  - destruct (starts_with (translate_digits (firstn 12 x)) HEADER) eqn:P; [discriminate|]. intros _.
    assert (Hpre : exists z, translate_digits (firstn 12 (x ++ y)) = translate_digits (firstn 12 x) ++ z).
    { destruct (Nat.le_gt_cases 12 (List.length x)) as [L|L].
      - destruct (firstn12_long x y L) as [F _]. rewrite F. exists []. symmetry. apply app_nil_r.
      - rewrite firstn_app, translate_app. eexists. reflexivity. }
    destruct Hpre as [z Ez]. rewrite Ez.
    destruct (text_eqb (translate_digits (firstn 12 x) ++ z) HEADER) eqn:E2.
    + apply text_eqb_starts, starts_with_app_l in E2. congruence.
    + destruct (starts_with (translate_digits (firstn 12 x) ++ z) HEADER) eqn:P2; [|reflexivity].
      apply starts_with_app_l in P2. congruence.
Qed.

(** *** the whole client: one dataReceived call that is not rejected *)

Inductive CFeed : client -> bytes -> list ev -> client -> nat -> Prop :=
| CF_wait s buf d : handle_initial s (buf ++ d) = IWait -> CFeed (CInitial s buf) d [] (CInitial s (buf ++ d)) 0
| CF_raise s buf d : handle_initial s (buf ++ d) = IRaise -> CFeed (CInitial s buf) d [] (CRun Crashed) 0
| CF_go s buf d s' p rest es es2 o n :
    handle_initial s (buf ++ d) = IGo s' p rest es -> Drain s' p rest es2 o n ->
    CFeed (CInitial s buf) d (es ++ es2) (CRun o) n
| CF_run o d es o' n : Feed o d es o' n -> CFeed (CRun o) d es (CRun o') n.

Inductive CRuns : client -> list bytes -> list ev -> client -> nat -> Prop :=
| CR_nil c : CRuns c [] [] c 0
| CR_cons c d ds es1 c1 n1 es2 c2 n2 :
    CFeed c d es1 c1 n1 -> CRuns c1 ds es2 c2 n2 -> CRuns c (d :: ds) (es1 ++ es2) c2 (n1 + n2).

(* the states dataReceived leaves behind *)
Definition cquiescent (c : client) : Prop :=
  match c with
  | CInitial s buf => handle_initial s buf = IWait
  | CRun o => quiescent st pend need o
  end.

Lemma CFeed_quiescent c d es c' n : CFeed c d es c' n -> cquiescent c'.
Proof.
  intros H. destruct H; cbn [cquiescent]; try assumption; try exact I.
  - eapply Drain_quiescent; eassumption.
  - destruct H; [eapply Drain_quiescent; eassumption|exact I].
Qed.

Lemma CFeed_det c d es c' n es2 c2 n2 : CFeed c d es c' n -> CFeed c d es2 c2 n2 -> es = es2 /\ c' = c2 /\ n = n2.
Proof.
  intros H1 H2. destruct H1; inversion H2; subst; try congruence; try (repeat split; reflexivity).
  all: try match goal with A : handle_initial ?s ?b = IGo _ _ _ _, B : handle_initial ?s ?b = IGo _ _ _ _ |- _ =>
      rewrite A in B; inversion B; subst; clear B end.
  all: try match goal with A : Drain ?s ?p ?b _ _ _, B : Drain ?s ?p ?b _ _ _ |- _ =>
      destruct (Drain_det _ _ _ _ _ _ _ _ _ _ _ A _ _ _ B) as (-> & -> & ->) end.
  all: try match goal with A : Feed ?o ?d _ _ _, B : Feed ?o ?d _ _ _ |- _ =>
      destruct (Feed_det _ _ _ _ _ _ _ _ _ _ _ _ _ A B) as (-> & -> & ->) end.
  all: repeat split; reflexivity.
Qed.

Lemma CFeed_nil c : cquiescent c -> CFeed c [] [] c 0.
Proof.
  destruct c as [s buf|o]; cbn [cquiescent]; intros Q.
  - pose proof (CF_wait s buf []) as W. rewrite app_nil_r in W. apply W. exact Q.
  - apply CF_run. apply Feed_nil. exact Q.
Qed.

(** feeding [a] then [b] is feeding [a ++ b] *)
Theorem CFeed_app c a b es c2 n :
  (exists es1 c1 n1 es2 n2, CFeed c a es1 c1 n1 /\ CFeed c1 b es2 c2 n2 /\ es = es1 ++ es2 /\ n = (n1 + n2)%nat)
  <-> CFeed c (a ++ b) es c2 n.
Proof.
  split.
  - intros (es1 & c1 & n1 & es2 & n2 & F1 & F2 & -> & ->). destruct F1 as [s buf d W|s buf d R|s buf d s' p rest es0 es3 o n0 G D|o d es0 o' n0 F].
    + (* waited: the second call sees everything *)
      inversion F2; subst; rewrite <- app_assoc in *; cbn [app Nat.add].
      * apply CF_wait. assumption.
      * apply CF_raise. assumption.
      * eapply CF_go; eassumption.
    + inversion F2; subst. match goal with H : Feed Crashed _ _ _ _ |- _ => inversion H; subst end.
      cbn [app Nat.add]. apply CF_raise. rewrite app_assoc. apply handle_initial_raise. exact R.
    + inversion F2; subst. rewrite <- app_assoc.
      pose proof (handle_initial_go s (buf ++ d) b s' p rest es0 G) as G2. rewrite <- app_assoc in G2.
      match goal with H : Feed o b _ _ _ |- _ => inversion H; subst end.
      * eapply CF_go; [exact G2|]. eapply Drain_app; eassumption.
      * rewrite app_nil_r, Nat.add_0_r. eapply CF_go; [exact G2|]. apply Drain_app_crash. exact D.
    + inversion F2; subst. apply CF_run. apply Feed_app. do 5 eexists. repeat split; eassumption.
  - intros F. inversion F; subst.
    + (* whole stream still a banner prefix: so was the first part *)
      rename H into W. rewrite app_assoc in W.
      destruct (handle_initial s (buf ++ a)) eqn:E.
      * exists [], (CInitial s (buf ++ a)), O, [], O. repeat split; [apply CF_wait; exact E|].
        rewrite app_assoc. apply CF_wait. exact W.
      * rewrite (handle_initial_lose _ _ b E) in W. discriminate.
      * rewrite (handle_initial_raise _ _ b E) in W. discriminate.
      * rewrite (handle_initial_go _ _ b _ _ _ _ E) in W. discriminate.
    + rename H into R. rewrite app_assoc in R.
      destruct (handle_initial s (buf ++ a)) eqn:E.
      * exists [], (CInitial s (buf ++ a)), O, [], O. repeat split; [apply CF_wait; exact E|].
        apply CF_raise. rewrite <- app_assoc. rewrite <- app_assoc in R. exact R.
      * rewrite (handle_initial_lose _ _ b E) in R. discriminate.
      * exists [], (CRun Crashed), O, [], O. repeat split; [apply CF_raise; exact E|apply CF_run; constructor].
      * rewrite (handle_initial_go _ _ b _ _ _ _ E) in R. discriminate.
    + rename H into G. rename H0 into D. rewrite app_assoc in G.
      destruct (handle_initial s (buf ++ a)) eqn:E.
      * exists [], (CInitial s (buf ++ a)), O, (es0 ++ es2), n. repeat split; [apply CF_wait; exact E|].
        eapply CF_go; [|exact D]. rewrite <- app_assoc. rewrite <- app_assoc in G. exact G.
      * rewrite (handle_initial_lose _ _ b E) in G. discriminate.
      * rewrite (handle_initial_raise _ _ b E) in G. discriminate.
      * rewrite (handle_initial_go _ _ b _ _ _ _ E) in G. inversion G; subst.
        destruct (Drain_unapp _ _ _ _ _ _ _ _ _ _ _ D rest0 b eq_refl)
          as [(es1 & s1 & p1 & b1 & n1 & es3 & n2 & D1 & D2 & -> & ->)|[-> D1]].
        -- exists (es0 ++ es1), (CRun (Idle s1 p1 b1)), n1, es3, n2. repeat split.
           ++ eapply CF_go; eassumption.
           ++ apply CF_run. constructor. exact D2.
           ++ apply app_assoc.
        -- exists (es0 ++ es2), (CRun Crashed), n, [], O. repeat split.
           ++ eapply CF_go; eassumption.
           ++ apply CF_run. constructor.
           ++ rewrite app_nil_r. reflexivity.
           ++ lia.
    + rename H into Fd. apply Feed_app in Fd as (es1 & o1 & n1 & es2 & n2 & F1 & F2 & -> & ->).
      exists es1, (CRun o1), n1, es2, n2. repeat split; try (apply CF_run; assumption).
Qed.

(** every chunking of a stream, banner included, behaves as the stream delivered whole *)
Theorem CRuns_concat chunks : forall c es c2 n,
  cquiescent c -> (CRuns c chunks es c2 n <-> CFeed c (concat chunks) es c2 n).
Proof.
  induction chunks as [|d ds IH]; intros c es c2 n Q; cbn [concat].
  - split; intros H.
    + inversion H; subst. apply CFeed_nil; exact Q.
    + destruct (CFeed_det _ _ _ _ _ _ _ _ H (CFeed_nil c Q)) as (-> & -> & ->). constructor.
  - split.
    + intros H. inversion H; subst. apply CFeed_app. do 5 eexists.
      repeat split; [eassumption|].
      apply IH; [eapply CFeed_quiescent; eassumption|eassumption].
    + intros H. apply CFeed_app in H as (es1 & c1 & n1 & es2 & n2 & F1 & F2 & -> & ->).
      econstructor; [eassumption|]. apply IH; [eapply CFeed_quiescent; eassumption|assumption].
Qed.

Corollary client_chunking_invariance c c1 c2 es cf n :
  cquiescent c -> concat c1 = concat c2 -> (CRuns c c1 es cf n <-> CRuns c c2 es cf n).
Proof.
  intros Q E. rewrite (CRuns_concat c1 c es cf n Q), (CRuns_concat c2 c es cf n Q), E. reflexivity.
Qed.

(** a client that has received nothing is quiescent *)
Lemma fresh_quiescent s : cquiescent (CInitial s []).
Proof. reflexivity. Qed.

(** the executable client (what the harness runs against the implementation) is this relation
    whenever the delivery is not rejected *)
Lemma feed_plain_sound fuel c d es c' n :
  feed_plain fuel c d = Some (es, c', n) ->
  (forall s buf, c = CInitial s buf -> handle_initial s (buf ++ d) <> ILose) ->
  CFeed c d es c' n.
Proof.
  intros H NL. destruct c as [s buf|[s p buf|]]; cbn [feed_plain] in H.
  - specialize (NL s buf eq_refl). destruct (handle_initial s (buf ++ d)) as [| | |s' p rest es0] eqn:E.
    + inversion H; subst. apply CF_wait. exact E.
    + congruence.
    + inversion H; subst. apply CF_raise. exact E.
    + destruct (drain_fuel st pend ev need step fuel s' p rest) as [[[es2 o] n2]|] eqn:Ed; [|discriminate].
      inversion H; subst. eapply CF_go; [exact E|]. eapply drain_fuel_sound. exact Ed.
  - destruct (drain_fuel st pend ev need step fuel s p (buf ++ d)) as [[[es2 o] n2]|] eqn:Ed; [|discriminate].
    inversion H; subst. apply CF_run. constructor. eapply drain_fuel_sound. exact Ed.
  - inversion H; subst. apply CF_run. constructor.
Qed.
