(** Authentication responses (C14): the VNC key quirk, the DES response, the ARD numerics. *)
From Coq Require Import ZArith List Bool Lia Zpow_facts.
From VD Require Import Base.Bytes Base.BytesP Base.Text Model.Auth Spec.DES Proofs.DESP.
Import ListNotations.
Open Scope Z_scope.

(** *** the key *)

(* the bits of a byte in reverse order, by reversing the bit list *)
Definition rev8 (k : Z) : Z := bits_val (rev (byte_bits k)) 0.

Lemma rev8_code_spec k : 0 <= k < 256 -> rev8_code k = rev8 k.
Proof.
  intros H.
  assert (A : forallb (fun k => rev8_code k =? rev8 k) (zrange 256) = true) by (vm_compute; reflexivity).
  rewrite forallb_forall in A. apply Z.eqb_eq, A, zrange_In. exact H.
Qed.

Lemma pad_trunc_gen n : forall l m, (n <= m)%nat -> pad_trunc n l = firstn n (l ++ repeat 0 m).
Proof.
  induction n as [|n IH]; intros l m H; [reflexivity|].
  destruct l as [|c r]; cbn [pad_trunc app].
  - destruct m as [|m]; [lia|]. cbn [repeat firstn]. f_equal. rewrite (IH [] m) by lia. reflexivity.
  - cbn [firstn]. f_equal. apply IH. lia.
Qed.

(* f"{password:\0<8.8}" = the first eight characters of the password followed by NULs *)
Lemma pad_trunc_spec l : pad_trunc 8 l = firstn 8 (l ++ repeat 0 8).
Proof. apply pad_trunc_gen. lia. Qed.

Lemma pad_trunc_length n : forall l, length (pad_trunc n l) = n.
Proof. induction n as [|n IH]; intros [|c r]; cbn; auto. Qed.

Notation ascii l := (Forall (fun c : Z => 0 <= c < 128) l).

Lemma pad_trunc_ascii n : forall l, ascii l -> ascii (pad_trunc n l).
Proof.
  induction n as [|n IH]; intros l H; [constructor|]. destruct l as [|c r]; cbn [pad_trunc].
  - constructor; [lia|apply IH; constructor].
  - inversion H; subst. constructor; [assumption|apply IH; assumption].
Qed.

Lemma map_ext_Forall {A B} (f g : A -> B) (P : A -> Prop) l :
  (forall x, P x -> f x = g x) -> Forall P l -> map f l = map g l.
Proof. intros E H. induction H as [|x l Hx Hl IH]; cbn; [reflexivity|]. rewrite E, IH by assumption. reflexivity. Qed.

(** the DES key: first eight password characters, NUL padded, the bits of each byte reversed *)
Theorem vnc_key_spec pw : ascii pw ->
  vnc_key pw = Some (map rev8 (firstn 8 (pw ++ repeat 0 8))) /\ length (map rev8 (firstn 8 (pw ++ repeat 0 8))) = 8%nat.
Proof.
  intros H. rewrite <- pad_trunc_spec. pose proof (pad_trunc_ascii 8 pw H) as A. split.
  - unfold vnc_key.
    replace (forallb _ (pad_trunc 8 pw)) with true.
    + f_equal. apply (map_ext_Forall _ _ (fun c => 0 <= c < 128)); [|exact A]. intros x Hx. apply rev8_code_spec. lia.
    + symmetry. apply forallb_forall. intros x Hx. rewrite Forall_forall in A. specialize (A x Hx).
      apply andb_true_intro. split; [apply Z.leb_le|apply Z.ltb_lt]; lia.
  - rewrite map_length. apply pad_trunc_length.
Qed.

Theorem vnc_key_non_ascii pw : ~ ascii (firstn 8 (pw ++ repeat 0 8)) -> vnc_key pw = None.
Proof.
  intros H. rewrite <- pad_trunc_spec in H. unfold vnc_key.
  destruct (forallb _ (pad_trunc 8 pw)) eqn:E; [|reflexivity]. exfalso. apply H.
  rewrite forallb_forall in E. apply Forall_forall. intros x Hx. specialize (E x Hx).
  apply andb_prop in E as [E1 E2]. apply Z.leb_le in E1. apply Z.ltb_lt in E2. lia.
Qed.

(** *** the response: DES-ECB over the two halves of the challenge, which a conforming server inverts *)

Lemma ecb_two f c1 c2 : length c1 = 8%nat -> length c2 = 8%nat ->
  ecb f (length (c1 ++ c2)) (c1 ++ c2) = f c1 ++ f c2.
Proof.
  intros H1 H2. rewrite app_length, H1, H2.
  do 8 (destruct c1 as [|? c1]; [discriminate|]). destruct c1; [|discriminate].
  do 8 (destruct c2 as [|? c2]; [discriminate|]). destruct c2; [|discriminate].
  cbn [Nat.add ecb app firstn skipn]. rewrite app_nil_r. reflexivity.
Qed.

Theorem response_spec key c1 c2 : length c1 = 8%nat -> length c2 = 8%nat ->
  des_ecb_encrypt key (c1 ++ c2) = des_encrypt_bytes key c1 ++ des_encrypt_bytes key c2 /\ length (des_ecb_encrypt key (c1 ++ c2)) = 16%nat.
Proof.
  intros H1 H2. unfold des_ecb_encrypt. rewrite ecb_two by assumption. split; [reflexivity|].
  rewrite app_length, !des_encrypt_bytes_length. reflexivity.
Qed.

Notation in_range l := (Forall (fun b : Z => 0 <= b < 256) l).

Theorem server_verifies key c1 c2 :
  length c1 = 8%nat -> length c2 = 8%nat -> in_range c1 -> in_range c2 ->
  des_ecb_decrypt key (des_ecb_encrypt key (c1 ++ c2)) = c1 ++ c2.
Proof.
  intros H1 H2 R1 R2. unfold des_ecb_encrypt at 1. rewrite ecb_two by assumption.
  unfold des_ecb_decrypt. rewrite ecb_two by apply des_encrypt_bytes_length.
  rewrite !des_bytes_inverse by assumption. reflexivity.
Qed.

(** *** Apple Remote Desktop: Diffie-Hellman numerics *)

Lemma powmod_pos_spec b p m : 0 < m -> powmod_pos b p m = b ^ Z.pos p mod m.
Proof.
  intros Hm. induction p as [p IH|p IH|]; cbn [powmod_pos].
  - rewrite IH. rewrite Pos2Z.inj_xI. rewrite Z.pow_add_r, Z.pow_twice_r, Z.pow_1_r by lia.
    rewrite <- Z.mul_mod by lia. rewrite Z.mul_mod_idemp_l by lia. reflexivity.
  - rewrite IH. rewrite Pos2Z.inj_xO, Z.pow_twice_r. rewrite <- Z.mul_mod by lia. reflexivity.
  - rewrite Z.pow_1_r. reflexivity.
Qed.

Lemma powmod_spec b e m : 0 < m -> 0 <= e -> powmod b e m = b ^ e mod m.
Proof.
  intros Hm He. destruct e as [|p|p]; cbn [powmod]; [reflexivity|apply powmod_pos_spec; exact Hm|lia].
Qed.

(** both sides of the exchange derive the same secret *)
Lemma dh_agree g a s m : 0 < m -> 0 <= a -> 0 <= s ->
  powmod (powmod g a m) s m = powmod (powmod g s m) a m.
Proof.
  intros Hm Ha Hs. rewrite !powmod_spec by assumption.
  rewrite <- !Zpower_mod by lia. rewrite <- !Z.pow_mul_r by lia. rewrite (Z.mul_comm a s). reflexivity.
Qed.

Lemma le_dec_bound l : bytes_ok l = true -> 0 <= le_dec l < 256 ^ Z.of_nat (length l).
Proof.
  induction l as [|b l IH]; intros H; cbn [le_dec length]; [cbn; lia|].
  cbn [bytes_ok forallb] in H. apply andb_prop in H as [Hb Hl]. specialize (IH Hl).
  unfold byte_ok in Hb. apply andb_prop in Hb as [B1 B2]. apply Z.leb_le in B1. apply Z.ltb_lt in B2.
  rewrite Nat2Z.inj_succ, Z.pow_succ_r by lia. nia.
Qed.

Lemma be_dec_bound l : bytes_ok l = true -> 0 <= be_dec l < 256 ^ Z.of_nat (length l).
Proof.
  intros H. assert (E : be_dec l = le_dec (rev l)) by (rewrite <- be_dec_rev, rev_involutive; reflexivity).
  rewrite E, <- (rev_length l). apply le_dec_bound. unfold bytes_ok. rewrite forallb_rev. exact H.
Qed.

Lemma powmod_bound b e m : 0 < m -> 0 <= e -> 0 <= powmod b e m < m.
Proof. intros Hm He. rewrite powmod_spec by assumption. apply Z.mod_pos_bound. exact Hm. Qed.

Lemma utf8_ascii l : ascii l -> utf8 l = Some l.
Proof.
  induction 1 as [|c l Hc Hl IH]; [reflexivity|]. cbn [utf8]. rewrite IH. unfold utf8_1.
  destruct (Z.ltb_spec c 0); [lia|]. destruct (Z.ltb_spec c 128); [reflexivity|lia].
Qed.

Lemma repeatZ_length {A} (x : A) n : length (repeatZ x n) = n.
Proof. induction n; cbn; auto. Qed.

Lemma pad64_length l : (length l <= 64)%nat -> length (pad64 l) = 64%nat.
Proof. intros H. unfold pad64. rewrite app_length, repeatZ_length. lia. Qed.

Lemma pad64_ascii l : ascii l -> ascii (pad64 l).
Proof.
  intros H. unfold pad64. apply Forall_app. split; [exact H|].
  induction (64 - length l)%nat; cbn; constructor; [lia|assumption].
Qed.

Section ARD.
  (** MD5 and AES-128-ECB are parameters; the single fact used is that AES decryption inverts
      encryption under the same key. *)
  Variable md5 : bytes -> bytes.
  Variable aes_enc aes_dec : bytes -> bytes -> bytes.
  Hypothesis aes_inv : forall k x, aes_dec k (aes_enc k x) = x.
  Hypothesis aes_len : forall k x, length (aes_enc k x) = length x.

  (* the bytes the client writes *)
  Definition ard_reply (parts : bytes * bytes * bytes) : bytes :=
    let '(plain, shared, key) := parts in aes_enc (md5 shared) plain ++ key.

  (* a conforming server: private exponent a, reads 128 ciphertext bytes and keyLen key bytes *)
  Definition ard_server (a keylen : Z) (modulus reply : bytes) : bytes :=
    let ct := firstn 128 reply in
    let clientkey := skipn 128 reply in
    let shared := be_enc (Z.to_nat keylen) (powmod (be_dec clientkey) a (be_dec modulus)) in
    aes_dec (md5 shared) ct.

  Theorem ard_lengths user pw ub pb rnd g keylen modulus serverkey plain shared key :
    utf8 user = Some ub -> utf8 pw = Some pb -> (length ub <= 64)%nat -> (length pb <= 64)%nat -> 0 <= keylen ->
    ard_parts user pw rnd g keylen modulus serverkey = Some (plain, shared, key) ->
    plain = pad64 ub ++ pad64 pb /\ length plain = 128%nat /\
    len key = keylen /\ len shared = keylen /\
    len (ard_reply (plain, shared, key)) = 128 + keylen.
  Proof.
    intros Eu Ep Lu Lp Hk H. unfold ard_parts in H. rewrite Eu, Ep in H.
    destruct (be_dec modulus =? 0); [discriminate|].
    destruct (negb _); [discriminate|]. inversion H; subst; clear H.
    assert (L : length (pad64 ub ++ pad64 pb) = 128%nat) by (rewrite app_length, !pad64_length by assumption; reflexivity).
    repeat split; try assumption.
    - unfold len. rewrite be_enc_length. lia.
    - unfold len. rewrite be_enc_length. lia.
    - unfold ard_reply, len. rewrite app_length, aes_len, L, be_enc_length. lia.
  Qed.

  Theorem ard_server_recovers user pw ub pb rnd g keylen modulus a :
    utf8 user = Some ub -> utf8 pw = Some pb -> (length ub <= 64)%nat -> (length pb <= 64)%nat ->
    0 <= keylen -> 0 <= a -> bytes_ok rnd = true -> bytes_ok modulus = true ->
    len modulus = keylen -> 0 < be_dec modulus ->
    let serverkey := be_enc (Z.to_nat keylen) (powmod g a (be_dec modulus)) in
    exists parts, ard_parts user pw rnd g keylen modulus serverkey = Some parts /\
                  ard_server a keylen modulus (ard_reply parts) = pad64 ub ++ pad64 pb.
  Proof.
    intros Eu Ep Lu Lp Hk Ha Hr Hm Hlen Hpos serverkey.
    set (m := be_dec modulus) in *.
    assert (Hm256 : m < 256 ^ Z.of_nat (Z.to_nat keylen)).
    { pose proof (be_dec_bound modulus Hm) as B. unfold len in Hlen. replace (Z.of_nat (Z.to_nat keylen)) with (Z.of_nat (length modulus)) by lia. apply B. }
    assert (Hs : 0 <= be_dec rnd) by (apply (be_dec_bound rnd Hr)).
    unfold ard_parts. rewrite Eu, Ep.
    fold m. destruct (Z.eqb_spec m 0) as [E|_]; [lia|].
    assert (L : length (pad64 ub ++ pad64 pb) = 128%nat) by (rewrite app_length, !pad64_length by assumption; reflexivity).
    replace (len (pad64 ub ++ pad64 pb) mod 16 =? 0) with true by (unfold len; rewrite L; reflexivity).
    cbn [negb]. eexists. split; [reflexivity|].
    unfold ard_server, ard_reply.
    set (ct := aes_enc _ _). assert (Lct : length ct = 128%nat) by (unfold ct; rewrite aes_len; exact L).
    rewrite <- Lct. rewrite firstn_app, skipn_app, Nat.sub_diag, firstn_all, skipn_all, firstn_O, skipn_O, app_nil_r.
    cbn [app]. unfold ct.
    fold m. unfold serverkey.
    rewrite !be_dec_enc by (pose proof (powmod_bound g a m Hpos Ha); pose proof (powmod_bound g (be_dec rnd) m Hpos Hs); lia).
    rewrite dh_agree by assumption. apply aes_inv.
  Qed.
End ARD.

(** *** the client model writes exactly that *)
From RecordUpdate Require Import RecordSet.
Import RecordSetNotations.
From VD Require Import Model.Engine Model.Rfb.

Theorem vnc_auth_step s pw chal : password s = Some pw -> ascii pw ->
  step s PVNCAuth chal =
    Ok (s <| challenge := chal |>) (Some PAuthResult)
       [EWriteDES (map rev8 (firstn 8 (pw ++ repeat 0 8))) chal].
Proof.
  intros Hp Ha. cbn [step]. unfold request_password. cbn [password]. unfold set. cbn. rewrite Hp.
  destruct (vnc_key_spec pw Ha) as [E _]. rewrite E. reflexivity.
Qed.
