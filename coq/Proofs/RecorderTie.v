(** VNCLoggingServerProxy.handle_keyEvent / handle_pointerEvent as regenerated from the source text
    ([Gen/RecorderOps.v], gen/recorder.py) are the model's [record_key] / [record_pointer] - for every state, time,
    key, position and button mask. *)
From Coq Require Import ZArith List Bool String.
From VD Require Import Base.Bytes Base.Text Model.Shlex Model.Recorder Gen.RecorderOps.
Import ListNotations.
Open Scope Z_scope.

Theorem record_key_is_source s now key down :
  record_key s now key down =
  match gen_record_key (r_last s) now key down with
  | None => None
  | Some (line, last') => Some (line, mk_rstate (r_buf s) (r_handler s) (r_need s) (r_pwreq s) (r_mouse s) last')
  end.
Proof.
  unfold record_key, gen_record_key. destruct (key_name key) as [n|]; [|reflexivity].
  destruct (down =? 0); reflexivity.
Qed.

Theorem record_pointer_is_source s now x y mask :
  record_pointer s now x y mask =
  let '(line, mouse', last') := gen_record_pointer (r_mouse s) (r_last s) now x y mask in
  (line, mk_rstate (r_buf s) (r_handler s) (r_need s) (r_pwreq s) mouse' last').
Proof.
  unfold record_pointer, gen_record_pointer, pair_is. cbv zeta.
  destruct (r_mouse s) as [[mx my]|].
  - destruct ((mx =? x) && (my =? y)); reflexivity.
  - reflexivity.
Qed.
