(** The time arithmetic of build_command_list as regenerated ([Gen/ExprsTime.v]): pause / warp, delay / 1000. *)
From Coq Require Import ZArith QArith List Bool Lia.
From VD Require Import Base.Bytes Gen.ExprsTime Model.ClientOps Model.Script.
Import ListNotations.
Open Scope Z_scope.

(** ** time arithmetic of the command line *)
Lemma pause_duration_tie a w : (gen_pause_duration a w == a / w)%Q.
Proof. reflexivity. Qed.

Lemma delay_seconds_tie d : (gen_delay_seconds d == d / 1000)%Q.
Proof. reflexivity. Qed.

Theorem pause_lasts_requested_over_warp r a w :
  exists r', run_sop r (SPause (gen_pause_duration a w)) = SOk [] r' /\ (rs_time r' == rs_time r + a / w)%Q /\ rs_client r' = rs_client r.
Proof.
  unfold run_sop. destruct (absorb (rs_time r) (rs_cur r) (rs_commits r)) as [cur cs]. eexists. split; [reflexivity|].
  cbn [rs_time rs_client]. split; [|reflexivity]. rewrite Qred_correct. reflexivity.
Qed.
