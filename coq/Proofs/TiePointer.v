(** The drag path and the pointer operations as regenerated from client.py ([Gen/ExprsPointer.v]) are the model's. *)
From Coq Require Import ZArith QArith List Bool Lia.
From VD Require Import Base.Bytes Gen.ExprsPointer Model.ClientMsgs Model.Pointer.
Import ListNotations.
Open Scope Z_scope.

(** ** Python's range(a, b, c) for c <> 0 *)
Fixpoint range_down (fuel : nat) (s step stop : Z) : list Z :=
  match fuel with
  | O => []
  | S f => if s >? stop then s :: range_down f (s + step) step stop else []
  end.

Definition py_range (r : Z * Z * Z) : list Z :=
  let '(a, b, c) := r in
  if c >? 0 then drag_steps (Z.to_nat (b - a)) a c b
  else if c <? 0 then range_down (Z.to_nat (a - b)) a c b
  else [].

(** ** mouseDrag *)
Lemma drag_tie cx cy x y step :
  map (gen_drag_move cx cy x y step) (py_range (gen_drag_range cx cy x y step)) ++ [gen_drag_last cx cy x y step]
  = drag_points cx cy x y step.
Proof.
  unfold gen_drag_range, gen_drag_last, drag_points, py_range. cbv zeta.
  set (dmax := Z.max (Z.abs (x - cx)) (Z.abs (y - cy))).
  assert (Hd : 0 <= dmax) by (unfold dmax; lia).
  f_equal.
  destruct (Z.gtb_spec step 0) as [Hp|Hp].
  - replace (step <=? 0) with false by (symmetry; apply Z.leb_gt; lia).
    rewrite Z.sub_0_r. apply map_ext. intro s. unfold gen_drag_move. fold dmax. reflexivity.
  - replace (step <=? 0) with true by (symmetry; apply Z.leb_le; lia).
    destruct (step <? 0); [|reflexivity].
    replace (Z.to_nat (0 - dmax)) with 0%nat by lia. reflexivity.
Qed.

Theorem mouseDrag_is_source s x y step :
  mouseDrag s x y step =
  if step =? 0 then (s, None)
  else moves s (map (gen_drag_move (px s) (py s) x y step) (py_range (gen_drag_range (px s) (py s) x y step))
                ++ [gen_drag_last (px s) (py s) x y step]).
Proof. unfold mouseDrag. rewrite drag_tie. reflexivity. Qed.

Lemma drag_pause_tie : (gen_drag_pause == 2 / 10)%Q.
Proof. reflexivity. Qed.

(** ** pointer operations: the event written and the attribute updates are the source's own; the attributes are
    assigned after the event has been written, so an operation that raises (a field that does not fit the message, a
    negative shift count for button < 1) leaves the remembered position and buttons as they were *)
Definition apply_ptr (s : ptr) (r : (Z * Z * Z) * (Z * Z * Z)) : ptr * option bytes :=
  let '((x', y', m'), (ex, ey, em)) := r in
  match pointerEvent ex ey em with
  | Some w => (mk_ptr x' y' m', Some w)
  | None => (s, None)
  end.

Theorem mouseMove_is_source s x y :
  gen_mouseMove_commits_after_event = true /\
  mouseMove s x y = apply_ptr s (gen_mouseMove (px s) (py s) (pbuttons s) x y).
Proof. split; reflexivity. Qed.

Theorem mouseDown_is_source s b :
  gen_mouseDown_commits_after_event = true /\
  mouseDown s b =
  if gen_mouseDown_defined (px s) (py s) (pbuttons s) b then apply_ptr s (gen_mouseDown (px s) (py s) (pbuttons s) b) else (s, None).
Proof.
  split; [reflexivity|].
  unfold mouseDown, gen_mouseDown_defined. destruct (Z.ltb_spec (b - 1) 0) as [H|H].
  - replace (0 <=? b - 1) with false by (symmetry; apply Z.leb_gt; lia). reflexivity.
  - replace (0 <=? b - 1) with true by (symmetry; apply Z.leb_le; lia). reflexivity.
Qed.

(* mouseUp assigns first: its only failure is the negative shift count, which is raised before the assignment; clearing a
   bit cannot make the mask unpackable when it was packable *)
Definition apply_ptr_eager (r : (Z * Z * Z) * (Z * Z * Z)) : ptr * option bytes :=
  let '((x', y', m'), (ex, ey, em)) := r in (mk_ptr x' y' m', pointerEvent ex ey em).

Theorem mouseUp_is_source s b :
  mouseUp s b =
  if gen_mouseUp_defined (px s) (py s) (pbuttons s) b then apply_ptr_eager (gen_mouseUp (px s) (py s) (pbuttons s) b) else (s, None).
Proof.
  unfold mouseUp, gen_mouseUp_defined. destruct (Z.ltb_spec (b - 1) 0) as [H|H].
  - replace (0 <=? b - 1) with false by (symmetry; apply Z.leb_gt; lia). reflexivity.
  - replace (0 <=? b - 1) with true by (symmetry; apply Z.leb_le; lia). reflexivity.
Qed.

(* a pointer operation that raises leaves the client's bookkeeping untouched: later calls are not affected *)
Theorem failed_move_keeps_state s x y s' : mouseMove s x y = (s', None) -> s' = s.
Proof. unfold mouseMove. destruct (pointerEvent x y (pbuttons s)); intros H; inversion H; reflexivity. Qed.

Theorem failed_down_keeps_state s b s' : mouseDown s b = (s', None) -> s' = s.
Proof.
  unfold mouseDown. destruct (b - 1 <? 0); [intros H; inversion H; reflexivity|]. cbv zeta.
  destruct (pointerEvent _ _ _); intros H; inversion H; reflexivity.
Qed.

Theorem pointer_ops_are_source s x y b :
  mouseMove s x y = apply_ptr s (gen_mouseMove (px s) (py s) (pbuttons s) x y) /\
  mouseDown s b = (if gen_mouseDown_defined (px s) (py s) (pbuttons s) b then apply_ptr s (gen_mouseDown (px s) (py s) (pbuttons s) b) else (s, None)) /\
  mouseUp s b = (if gen_mouseUp_defined (px s) (py s) (pbuttons s) b then apply_ptr_eager (gen_mouseUp (px s) (py s) (pbuttons s) b) else (s, None)).
Proof. split; [apply mouseMove_is_source|]. split; [apply mouseDown_is_source|apply mouseUp_is_source]. Qed.

Theorem failed_pointer_op_keeps_state s x y b s' :
  (mouseMove s x y = (s', None) -> s' = s) /\ (mouseDown s b = (s', None) -> s' = s).
Proof. split; [apply failed_move_keeps_state|apply failed_down_keeps_state]. Qed.
