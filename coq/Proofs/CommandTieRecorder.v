(** The part of the vocabulary tie the recorded scripts rest on (C18): the words vnclog writes - pause, keydown, keyup, move,
    click - are in the source's table with the arities and client methods the model gives them. *)
From Coq Require Import ZArith List String Bool.
From VD Require Import Base.Bytes Base.Text Gen.Commands Model.Command Proofs.CommandTieDefs.
Import ListNotations.
Open Scope string_scope.

Definition recorder_words : list string := ["pause"; "keydown"; "keyup"; "move"; "click"].
Definition recorder_rows := filter (fun e => existsb (fun x => str_in x (fst (fst e))) recorder_words) COMMAND_TABLE.

Example recorder_vocabulary_is_the_models :
  forallb entry_ok recorder_rows = true /\
  forallb (fun x => str_in x (flat_map (fun e => fst (fst e)) recorder_rows)) recorder_words = true.
Proof. split; vm_compute; reflexivity. Qed.
