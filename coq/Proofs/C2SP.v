(** The client's serialisers produce streams that the RFC 6143 parser (Spec.C2S) accepts,
    with the fields it was given. *)
From Coq Require Import ZArith List Bool Lia.
From VD Require Import Base.Bytes Base.BytesP Base.Struct Base.StructP Base.PixFmt.
From VD Require Import Gen.Formats Model.ClientMsgs Spec.C2S.
Import ListNotations.
Open Scope Z_scope.

Ltac Zify.zify_post_hook ::= Z.div_mod_to_equations.

Inductive Parses : bytes -> list c2s -> Prop :=
| P_nil : Parses [] []
| P_cons b m rest ms : parse1 b = Some (m, rest) -> Parses rest ms -> Parses b (m :: ms).

Lemma encs_of_app n b l r x : encs_of n b = Some (l, r) -> encs_of n (b ++ x) = Some (l, r ++ x).
Proof.
  revert b l r; induction n as [|n IH]; intros b l r H; cbn [encs_of] in *.
  - inversion H; reflexivity.
  - destruct b as [|a [|b0 [|c [|d b']]]]; try discriminate. cbn [app].
    destruct (encs_of n b') as [[l' r']|] eqn:E; [|discriminate].
    inversion H; subst. rewrite (IH _ _ _ E). reflexivity.
Qed.

Lemma encs_of_shrinks n b l r : encs_of n b = Some (l, r) -> (length r <= length b)%nat.
Proof.
  revert b l r; induction n as [|n IH]; intros b l r H; cbn [encs_of] in *.
  - inversion H; lia.
  - destruct b as [|a [|b0 [|c [|d b']]]]; try discriminate.
    destruct (encs_of n b') as [[l' r']|] eqn:E; [|discriminate].
    inversion H; subst. apply IH in E. cbn [length]. lia.
Qed.

Lemma take_shrinks {A} n (l a b : list A) : take n l = Some (a, b) -> (length b <= length l)%nat.
Proof. intros H; apply take_some_app in H; subst; rewrite app_length; lia. Qed.

Lemma parse1_app b m r x : parse1 b = Some (m, r) -> parse1 (b ++ x) = Some (m, r ++ x).
Proof.
  unfold parse1. destruct b as [|t b]; [discriminate|]. cbn [app].
  destruct (t =? 0).
  { destruct b as [|a [|b0 [|c b']]]; try discriminate. cbn [app].
    destruct (take 16 b') as [[pf rest]|] eqn:E; [|discriminate].
    intros H; inversion H; subst. rewrite (take_app _ _ _ _ _ E). reflexivity. }
  destruct (t =? 2).
  { destruct b as [|a [|b0 [|c b']]]; try discriminate. cbn [app].
    destruct (encs_of _ b') as [[l rest]|] eqn:E; [|discriminate].
    intros H; inversion H; subst. rewrite (encs_of_app _ _ _ _ _ E). reflexivity. }
  destruct (t =? 3).
  { destruct b as [|b1 [|b2 [|b3 [|b4 [|b5 [|b6 [|b7 [|b8 [|b9 b']]]]]]]]]; try discriminate.
    cbn [app]. intros H; inversion H; subst; reflexivity. }
  destruct (t =? 4).
  { destruct b as [|b1 [|b2 [|b3 [|b4 [|b5 [|b6 [|b7 b']]]]]]]; try discriminate.
    cbn [app]. intros H; inversion H; subst; reflexivity. }
  destruct (t =? 5).
  { destruct b as [|b1 [|b2 [|b3 [|b4 [|b5 b']]]]]; try discriminate.
    cbn [app]. intros H; inversion H; subst; reflexivity. }
  destruct (t =? 6).
  { destruct b as [|b1 [|b2 [|b3 [|b4 [|b5 [|b6 [|b7 b']]]]]]]; try discriminate. cbn [app].
    destruct (take _ b') as [[d rest]|] eqn:E; [|discriminate].
    intros H; inversion H; subst. rewrite (take_app _ _ _ _ _ E). reflexivity. }
  discriminate.
Qed.

Lemma parse1_shrinks b m r : parse1 b = Some (m, r) -> (length r < length b)%nat.
Proof.
  unfold parse1. destruct b as [|t b]; [discriminate|].
  destruct (t =? 0).
  { destruct b as [|a [|b0 [|c b']]]; try discriminate.
    destruct (take 16 b') as [[pf rest]|] eqn:E; [|discriminate].
    intros H; inversion H; subst. apply take_shrinks in E. cbn [length]. lia. }
  destruct (t =? 2).
  { destruct b as [|a [|b0 [|c b']]]; try discriminate.
    destruct (encs_of _ b') as [[l rest]|] eqn:E; [|discriminate].
    intros H; inversion H; subst. apply encs_of_shrinks in E. cbn [length]. lia. }
  destruct (t =? 3).
  { destruct b as [|b1 [|b2 [|b3 [|b4 [|b5 [|b6 [|b7 [|b8 [|b9 b']]]]]]]]]; try discriminate.
    intros H; inversion H; subst. cbn [length]. lia. }
  destruct (t =? 4).
  { destruct b as [|b1 [|b2 [|b3 [|b4 [|b5 [|b6 [|b7 b']]]]]]]; try discriminate.
    intros H; inversion H; subst. cbn [length]. lia. }
  destruct (t =? 5).
  { destruct b as [|b1 [|b2 [|b3 [|b4 [|b5 b']]]]]; try discriminate.
    intros H; inversion H; subst. cbn [length]. lia. }
  destruct (t =? 6).
  { destruct b as [|b1 [|b2 [|b3 [|b4 [|b5 [|b6 [|b7 b']]]]]]]; try discriminate.
    destruct (take _ b') as [[d rest]|] eqn:E; [|discriminate].
    intros H; inversion H; subst. apply take_shrinks in E. cbn [length]. lia. }
  discriminate.
Qed.

Lemma Parses_app a ma b mb : Parses a ma -> Parses b mb -> Parses (a ++ b) (ma ++ mb).
Proof.
  induction 1 as [|a m rest ms H1 H2 IH]; intros Hb; [exact Hb|].
  cbn [app]. econstructor; [apply parse1_app; eassumption|apply IH; assumption].
Qed.

Lemma parse_fuel_sound b ms : Parses b ms -> forall fuel, (length b <= fuel)%nat -> parse_fuel fuel b = Some ms.
Proof.
  induction 1 as [|b m rest ms H1 H2 IH]; intros fuel Hf.
  - destruct fuel; reflexivity.
  - pose proof (parse1_shrinks _ _ _ H1) as Hs.
    destruct b as [|x b]; [cbn in Hs; lia|].
    destruct fuel as [|fuel]; [cbn in Hf; lia|].
    cbn [parse_fuel]. rewrite H1. rewrite IH by (cbn [length] in *; lia). reflexivity.
Qed.

Theorem Parses_sound b ms : Parses b ms -> parse_c2s b = Some ms.
Proof. intros H; apply parse_fuel_sound; [assumption|lia]. Qed.

(** --- the individual serialisers --- *)

Lemma u16_enc v : 0 <= v < 65536 -> be_enc 2 v = [v / 256; v mod 256] /\ u16 (v / 256) (v mod 256) = v.
Proof.
  intros H. unfold be_enc, u16. cbn [le_enc rev app]. split; [|lia].
  f_equal. lia.
Qed.

Lemma u32_enc v : 0 <= v < 4294967296 ->
  exists a b c d, be_enc 4 v = [a; b; c; d] /\ u32 a b c d = v.
Proof.
  intros H. unfold be_enc. cbn [le_enc rev app].
  do 4 eexists. split; [reflexivity|]. unfold u32. lia.
Qed.

Definition rng (lo hi v : Z) : Prop := lo <= v <= hi.

Lemma in_range_true lo hi v : rng lo hi v -> in_range lo hi v = true.
Proof. unfold rng, in_range; intros; apply andb_true_intro; split; apply Z.leb_le; lia. Qed.

Lemma keyEvent_parses key down :
  rng 0 255 down -> rng 0 4294967295 key ->
  exists w, keyEvent key down = Some w /\ Parses w [MKeyEvent down key].
Proof.
  intros Hd Hk. unfold keyEvent, fmt_rfb_RFBClient_keyEvent_0. cbn [pack pack1].
  rewrite !in_range_true by (unfold rng in *; lia).
  destruct (u32_enc key ltac:(unfold rng in *; lia)) as (a & b & c & d & E & U).
  rewrite E. eexists; split; [reflexivity|].
  cbn [app]. econstructor; [|constructor].
  unfold parse1. cbn. rewrite U. reflexivity.
Qed.

Lemma pointerEvent_parses x y mask :
  rng 0 255 mask -> rng 0 65535 x -> rng 0 65535 y ->
  exists w, pointerEvent x y mask = Some w /\ Parses w [MPointerEvent mask x y].
Proof.
  intros Hm Hx Hy. unfold pointerEvent, fmt_rfb_RFBClient_pointerEvent_0. cbn [pack pack1].
  rewrite !in_range_true by (unfold rng in *; lia).
  destruct (u16_enc x ltac:(unfold rng in *; lia)) as [Ex Ux].
  destruct (u16_enc y ltac:(unfold rng in *; lia)) as [Ey Uy].
  rewrite Ex, Ey. eexists; split; [reflexivity|].
  cbn [app]. econstructor; [|constructor].
  unfold parse1. cbn. rewrite Ux, Uy. reflexivity.
Qed.

Lemma fbur_parses inc x y w h :
  rng 0 255 inc -> rng 0 65535 x -> rng 0 65535 y -> rng 0 65535 w -> rng 0 65535 h ->
  exists b, framebufferUpdateRequest inc x y w h = Some b /\ Parses b [MFbUpdateRequest inc x y w h].
Proof.
  intros Hi Hx Hy Hw Hh. unfold framebufferUpdateRequest, fmt_rfb_RFBClient_framebufferUpdateRequest_0.
  cbn [pack pack1].
  rewrite !in_range_true by (unfold rng in *; lia).
  destruct (u16_enc x ltac:(unfold rng in *; lia)) as [Ex Ux].
  destruct (u16_enc y ltac:(unfold rng in *; lia)) as [Ey Uy].
  destruct (u16_enc w ltac:(unfold rng in *; lia)) as [Ew Uw].
  destruct (u16_enc h ltac:(unfold rng in *; lia)) as [Eh Uh].
  rewrite Ex, Ey, Ew, Eh. eexists; split; [reflexivity|].
  cbn [app]. econstructor; [|constructor].
  unfold parse1. cbn. rewrite Ux, Uy, Uw, Uh. reflexivity.
Qed.

Lemma latin1_ok t : Forall (fun c => 0 <= c < 256) t -> latin1 t = Some t.
Proof.
  intros H. unfold latin1.
  replace (forallb _ t) with true; [reflexivity|]. symmetry. apply forallb_forall.
  intros c Hc. rewrite Forall_forall in H. specialize (H c Hc).
  apply andb_true_intro; split; [apply Z.leb_le|apply Z.ltb_lt]; lia.
Qed.

Lemma parse1_cut p1 p2 p3 a b c d r :
  parse1 (6 :: p1 :: p2 :: p3 :: a :: b :: c :: d :: r) =
  match take (u32 a b c d) r with Some (x, rest) => Some (MClientCutText x, rest) | None => None end.
Proof. reflexivity. Qed.

Lemma parse1_enc p1 n1 n0 r :
  parse1 (2 :: p1 :: n1 :: n0 :: r) =
  match encs_of (Z.to_nat (u16 n1 n0)) r with Some (l, rest) => Some (MSetEncodings l, rest) | None => None end.
Proof. reflexivity. Qed.

Lemma cutText_parses t :
  Forall (fun c => 0 <= c < 256) t -> len t < 4294967296 ->
  exists b, clientCutText t = Some b /\ Parses b [MClientCutText t].
Proof.
  intros Ht Hl. unfold clientCutText. rewrite latin1_ok by assumption.
  unfold fmt_rfb_RFBClient_clientCutText_0. cbn [pack pack1].
  pose proof (len_nonneg t).
  rewrite !in_range_true by (unfold rng in *; lia).
  destruct (u32_enc (len t) ltac:(lia)) as (a & b & c & d & E & U).
  rewrite E. eexists; split; [reflexivity|].
  cbn [app]. econstructor; [|constructor].
  rewrite parse1_cut, U.
  pose proof (take_app_exact t []) as T. rewrite app_nil_r in T. rewrite T. reflexivity.
Qed.

(** SetEncodings *)
Lemma s32_enc e : rng (-2147483648) 2147483647 e ->
  exists a b c d, be_enc 4 (of_s32 e) = [a; b; c; d] /\ s32 a b c d = e.
Proof.
  intros H. unfold rng in H.
  assert (0 <= of_s32 e < 4294967296) as Hr by (unfold of_s32; destruct (Z.ltb_spec e 0); lia).
  destruct (u32_enc _ Hr) as (a & b & c & d & E & U).
  exists a, b, c, d. split; [assumption|]. unfold s32. rewrite U.
  unfold of_s32. destruct (Z.ltb_spec e 0) as [L|L];
    match goal with |- context [?x <? 2147483648] => destruct (Z.ltb_spec x 2147483648) end; lia.
Qed.

Lemma enc_list_parses l :
  Forall (rng (-2147483648) 2147483647) l ->
  exists b, enc_list l = Some b /\ forall rest, encs_of (length l) (b ++ rest) = Some (l, rest).
Proof.
  induction l as [|e l IH]; intros H.
  - exists []. split; reflexivity.
  - inversion H as [|? ? He Hl]; subst. destruct (IH Hl) as (b & Eb & Pb).
    cbn [enc_list]. unfold fmt_rfb_RFBClient_setEncodings_1. cbn [pack pack1].
    rewrite in_range_true by assumption.
    destruct (s32_enc e He) as (a0 & b0 & c0 & d0 & E & U). rewrite E, Eb.
    eexists; split; [reflexivity|]. intros rest. cbn [length encs_of app].
    rewrite Pb, U. reflexivity.
Qed.

Lemma setEncodings_parses l :
  Forall (rng (-2147483648) 2147483647) l -> len l < 65536 ->
  exists b, setEncodings l = Some b /\ Parses b [MSetEncodings l].
Proof.
  intros Hl Hn. unfold setEncodings, fmt_rfb_RFBClient_setEncodings_0. cbn [pack pack1].
  pose proof (len_nonneg l).
  rewrite !in_range_true by (unfold rng; lia).
  destruct (enc_list_parses l Hl) as (b & Eb & Pb). rewrite Eb.
  destruct (u16_enc (len l) ltac:(lia)) as [E U]. rewrite E.
  eexists; split; [reflexivity|]. cbn [app].
  econstructor; [|constructor]. rewrite parse1_enc.
  rewrite U. unfold len. rewrite Nat2Z.id.
  specialize (Pb []). rewrite app_nil_r in Pb. rewrite Pb. reflexivity.
Qed.
