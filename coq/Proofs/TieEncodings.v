(** The list of encodings vncConnectionMade builds as regenerated ([Gen/ExprsEncodings.v]) is the model's. *)
From Coq Require Import ZArith QArith List Bool Lia.
From VD Require Import Base.Bytes Gen.Tables Gen.ExprsEncodings Model.Rfb.
Import ListNotations.
Open Scope Z_scope.

(** ** the encodings advertised after ServerInit: the list vncConnectionMade builds, option by option *)
Theorem encodings_are_source c :
  encodings_of c = gen_encodings (c_encoding c) (c_pseudocursor c) (c_nocursor c) (c_pseudodesktop c) (c_last_rect c) (c_qemu c).
Proof. unfold encodings_of, gen_encodings. rewrite <- !app_assoc. reflexivity. Qed.
