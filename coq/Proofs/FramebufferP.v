(** From the decoder's callbacks to the framebuffer (C02 + C12): the screen obtained by applying the
    callbacks of any accepted history is, pixel for pixel, the reference canvas of what those callbacks
    carry - a fill being an update whose pixels all have the fill colour. *)
From Coq Require Import ZArith List Bool Lia.
From VD Require Import Base.Bytes Base.BytesP Base.PixFmt Gen.Tables Model.Engine Model.Rfb Model.Image Model.Screen Model.Apply.
From VD Require Import Proofs.ScreenP.
Import ListNotations.
Open Scope Z_scope.

(* the screen operation a callback stands for *)
Definition op_of_ev (e : ev) : list lop :=
  match e with
  | EUpd x y w h d => [LUpdate x y w h d]
  | EFill x y w h c => [LUpdate x y w h (rep_color (Z.to_nat (Z.max 0 w * Z.max 0 h)) c)]
  | EDesktopSize w h => [LResize w h]
  | ECursor x y w h i m => [LCursor x y w h i m]
  | _ => []
  end.

Definition no_mode (e : ev) : Prop := match e with EMode _ => False | _ => True end.

Lemma lrun_app : forall a b l, lrun l (a ++ b) = match lrun l a with Some l1 => lrun l1 b | None => None end.
Proof.
  induction a as [|o a IH]; intros b l; cbn [app lrun]; [reflexivity|].
  destruct (lstep l o); [apply IH|reflexivity].
Qed.

(** when every screen operation is accepted, applying the callbacks is running the operations *)
Lemma apply_is_run : forall es l l',
  Forall no_mode es -> lrun l (concat (map op_of_ev es)) = Some l' -> fold_left apply_ev es l = l'.
Proof.
  induction es as [|e es IH]; intros l l' Hm H; cbn [map concat fold_left lrun] in *; [congruence|].
  pose proof (Forall_inv Hm) as H1. pose proof (Forall_inv_tail Hm) as H2.
  rewrite lrun_app in H. destruct (lrun l (op_of_ev e)) as [l1|] eqn:E1; [|discriminate].
  assert (A : apply_ev l e = l1).
  { destruct e; cbn [op_of_ev lrun lstep no_mode apply_ev] in *; try congruence; try contradiction;
      unfold apply_ev, fill_rect in *;
      match type of E1 with context [match ?o with _ => _ end] => destruct o; congruence end. }
  rewrite A. apply IH; assumption.
Qed.

(** the framebuffer theorem: callbacks -> screen = reference canvas *)
Theorem callbacks_give_reference_canvas nocursor es l :
  Forall no_mode es ->
  Forall (lop_ok nocursor) (concat (map op_of_ev es)) ->
  lrun (lib0 nocursor) (concat (map op_of_ev es)) = Some l ->
  let h := sops_of DEFAULT_IMAGE_MODE (concat (map op_of_ev es)) in
  fold_left apply_ev es (lib0 nocursor) = l /\
  wf_opt (screen l) /\
  (forall px py, 0 <= px -> 0 <= py ->
     get_opt (screen l) px py = fold_left ref_step h (fun _ _ => black) px py) /\
  size_opt (screen l) = fold_left ref_size h None.
Proof.
  intros Hm Hok H. cbv zeta. split; [apply apply_is_run; assumption|].
  exact (client_composition nocursor _ l Hok H).
Qed.
