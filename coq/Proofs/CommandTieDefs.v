(** Definitions for the tie of Model/Command.v to the source text of build_command_list: the vocabulary that gen/commands.py reads
    from vncdotool/command.py - command words, number of arguments, client method registered - is what the
    model implements.  Established by RUNNING the model on every generated entry (every word of the entry,
    canonical arguments) inside Coq, and by checking that the model knows no other word. *)
From Coq Require Import ZArith List String Bool.
From VD Require Import Base.Bytes Base.Text Gen.Commands Model.Command.
Import ListNotations.
Open Scope string_scope.

(* the client method an operation of the model stands for *)
Definition cop_method (o : cop) : string :=
  match o with
  | CKeyPress _ => "keyPress" | CKeyDown _ => "keyDown" | CKeyUp _ => "keyUp"
  | CMove _ _ => "mouseMove" | CClick _ => "mousePress" | CMDown _ => "mouseDown" | CMUp _ => "mouseUp"
  | CPaste _ => "paste" | CCapture _ => "captureScreen" | CExpect _ _ => "expectScreen"
  | CRCapture _ _ _ _ _ => "captureRegion" | CRExpect _ _ _ _ => "expectRegion"
  | CPause _ => "pause" | CDrag _ _ => "mouseDrag" | CDelay => "pause"
  end.

Definition str_in (s : string) (l : list string) : bool := existsb (fun t => if string_dec s t then true else false) l.

(* canonical arguments: a file name with a supported extension where the entry captures, the number 1 elsewhere *)
Definition canon_args (n : nat) (methods : list string) : list text :=
  let first := if str_in "captureScreen" methods || str_in "captureRegion" methods || str_in "expectScreen" methods
                  || str_in "expectRegion" methods then w "1.png" else w "1" in
  match n with O => [] | S k => first :: repeat (w "1") k end.

(* every file exists and contains "a" *)
Definition one_file : fs := fun _ => Some (w "a").

(* the entry holds of the model: with exactly n arguments every word compiles, to operations of the listed methods
   only and at least one of them; with one argument fewer it is an error *)
Definition entry_ok (e : list string * nat * list string) : bool :=
  let '(words, n, methods) := e in
  forallb (fun word =>
    (match compile 20 one_file false (w word :: canon_args n methods) [] with
     | COk ops => negb (match ops with [] => true | _ => false end) && forallb (fun o => str_in (cop_method o) methods) ops
     | CErr _ _ => false
     end) &&
    (match n with
     | O => true
     | S k => match compile 20 one_file false (w word :: canon_args k methods) [] with CErr _ _ => true | COk _ => false end
     end)) words.

(* the words the model knows (its vocabulary as written in Model/Command.v) *)
Definition model_words : list string :=
  ["key"; "kdown"; "keydown"; "kup"; "keyup"; "move"; "mousemove"; "click"; "mdown"; "mousedown"; "mup"; "mouseup";
   "type"; "typefile"; "pastefile"; "capture"; "expect"; "rcapture"; "rexpect"; "pause"; "sleep"; "drag"].

Definition source_words : list string := flat_map (fun e => fst (fst e)) COMMAND_TABLE.

(* a word outside the vocabulary is not a command of the model (no file of that name): the model's own answer *)
Definition no_files : fs := fun _ => None.
Definition unknown_rejected (word : string) : bool :=
  match compile 20 no_files false [w word; w "1"; w "1"; w "1"; w "1"; w "1"] [] with
  | CErr (EUnknown x) [] => text_eqb x (w word)         (* rejected at once, as that very word, nothing registered *)
  | _ => false
  end.

