(** Scripts run strictly in order with the requested timing (C08). *)
From Coq Require Import ZArith QArith List Bool Lia Sorted.
From VD Require Import Base.Bytes Model.ClientMsgs Model.Pointer Model.ClientOps Model.Script.
Import ListNotations.
Local Opaque Qred Qplus.

Definition tle (a b : Q * tev) : Prop := (fst a <= fst b)%Q.

(* commits arrive in time order *)
Definition sorted_commits (cs : list commit) : Prop := StronglySorted (fun a b => (c_time a <= c_time b)%Q) cs.
(* every pending commit is still in the future of the chain *)
Definition future (t : Q) (cs : list commit) : Prop := Forall (fun c => (t <= c_time c)%Q) cs.

Definition nonneg_op (o : sop) : Prop := match o with SPause d => (0 <= d)%Q | _ => True end.

(* a trace segment in time order, all of it between t0 and t1 *)
Definition within (t0 t1 : Q) (tr : trace) : Prop := Forall (fun e => (t0 <= fst e)%Q /\ (fst e <= t1)%Q) tr.
Definition seg (t0 t1 : Q) (tr : trace) : Prop := StronglySorted tle tr /\ within t0 t1 tr.

Lemma qle_true a b : qle a b = true <-> (a <= b)%Q.
Proof. apply Qle_bool_iff. Qed.

Lemma sorted_app (a b : trace) t :
  StronglySorted tle a -> StronglySorted tle b ->
  Forall (fun e => (fst e <= t)%Q) a -> Forall (fun e => (t <= fst e)%Q) b ->
  StronglySorted tle (a ++ b).
Proof.
  intros Sa Sb Ha Hb. induction a as [|x a IH]; cbn [app]; [exact Sb|].
  inversion Sa as [|? ? Sa' Hx]; subst. inversion Ha as [|? ? Hxt Ha']; subst.
  constructor; [apply IH; assumption|]. apply Forall_app. split; [exact Hx|].
  eapply Forall_impl; [|exact Hb]. intros e He. unfold tle. apply Qle_trans with t; assumption.
Qed.

Lemma seg_nil t0 t1 : seg t0 t1 [].
Proof. split; constructor. Qed.

Lemma seg_one t0 t1 t e : (t0 <= t)%Q -> (t <= t1)%Q -> seg t0 t1 [(t, e)].
Proof. intros A B. split; [constructor; constructor|constructor; [cbn; split; assumption|constructor]]. Qed.

Lemma seg_widen t0 t0' t1 t1' tr : (t0' <= t0)%Q -> (t1 <= t1')%Q -> seg t0 t1 tr -> seg t0' t1' tr.
Proof.
  intros A B [S W]. split; [exact S|]. eapply Forall_impl; [|exact W]. intros e [C D].
  split; [apply Qle_trans with t0|apply Qle_trans with t1]; assumption.
Qed.

Lemma seg_app t0 t1 t2 a b : seg t0 t1 a -> seg t1 t2 b -> (t0 <= t1)%Q -> (t1 <= t2)%Q -> seg t0 t2 (a ++ b).
Proof.
  intros [Sa Wa] [Sb Wb] L01 L12. split.
  - apply (sorted_app a b t1 Sa Sb).
    + eapply Forall_impl; [|exact Wa]. intros e [_ B]. exact B.
    + eapply Forall_impl; [|exact Wb]. intros e [A _]. exact A.
  - apply Forall_app. split.
    + eapply Forall_impl; [|exact Wa]. intros e [A B]. split; [exact A|apply Qle_trans with t1; assumption].
    + eapply Forall_impl; [|exact Wb]. intros e [A B]. split; [apply Qle_trans with t1; assumption|exact B].
Qed.

Lemma absorb_spec t : forall cs cur cur' cs',
  sorted_commits cs -> absorb t cur cs = (cur', cs') ->
  sorted_commits cs' /\ future t cs'.
Proof.
  induction cs as [|c r IH]; intros cur cur' cs' Hs H; cbn [absorb] in H.
  - inversion H; subst. split; constructor.
  - destruct (qle (c_time c) t) eqn:E.
    + inversion Hs; subst. eapply IH; eauto.
    + inversion H; subst. split; [exact Hs|].
      assert (Hlt : (t < c_time c)%Q).
      { apply Qnot_le_lt. intros L. apply qle_true in L. congruence. }
      inversion Hs as [|? ? Hr Hall]; subst. constructor; [apply Qlt_le_weak; exact Hlt|].
      eapply Forall_impl; [|exact Hall]. intros x Hx.
      apply Qle_trans with (c_time c); [apply Qlt_le_weak; exact Hlt|exact Hx].
Qed.

Lemma expect_loop_spec s id : forall cs t0 acc tr res,
  sorted_commits cs -> future t0 cs ->
  expect_loop s id cs acc = (tr, res) ->
  exists tail, tr = acc ++ tail /\ StronglySorted tle tail /\ Forall (fun e => (t0 <= fst e)%Q) tail /\
    match res with
    | Some (t', m', rest) => Forall (fun e => (fst e <= t')%Q) tail /\ (t0 <= t')%Q /\ sorted_commits rest /\ future t' rest
    | None => True
    end.
Proof.
  induction cs as [|c r IH]; intros t0 acc tr res Hs Hf H; cbn [expect_loop] in H.
  - injection H as <- <-. exists []. rewrite app_nil_r. repeat split; constructor.
  - inversion Hs as [|? ? Hr Hall]; subst. inversion Hf as [|? ? Hc Hfr]; subst.
    destruct (matched (c_match c) id).
    + injection H as <- <-. exists []. rewrite app_nil_r. repeat split; try assumption; constructor.
    + destruct (fbur s 0 0 None None 1) as [w|].
      * destruct (IH (c_time c) _ _ _ Hr Hall H) as (tail & E & St & Ft & R).
        exists ((c_time c, TWrite w) :: tail). rewrite E, <- app_assoc. cbn [app].
        split; [reflexivity|]. split; [constructor; [exact St|exact Ft]|]. split.
        -- constructor; [exact Hc|]. eapply Forall_impl; [|exact Ft]. intros e A. apply Qle_trans with (c_time c); assumption.
        -- destruct res as [[[t' m'] rest]|]; [|exact I]. destruct R as (U & L & S' & F').
           split; [constructor; [exact L|exact U]|]. split; [apply Qle_trans with (c_time c); assumption|]. split; assumption.
      * injection H as <- <-. exists []. rewrite app_nil_r. repeat split; constructor.
Qed.

Lemma qred_le_r a b : (a <= b)%Q -> (a <= Qred b)%Q.
Proof. intros H. apply Qle_trans with b; [exact H|]. apply Qle_lteq. right. symmetry. apply Qred_correct. Qed.

Lemma qplus_nonneg t d : (0 <= d)%Q -> (t <= t + d)%Q.
Proof.
  intros H. apply Qle_trans with (t + 0)%Q; [apply Qle_lteq; right; symmetry; apply Qplus_0_r|].
  apply Qplus_le_r. exact H.
Qed.

Lemma drag_step t : (t <= Qred (t + DRAG_PAUSE))%Q.
Proof. apply qred_le_r, qplus_nonneg. unfold DRAG_PAUSE. discriminate. Qed.

Lemma drag_writes_spec : forall ws t tr t',
  drag_writes t ws = (tr, t') -> seg t t' tr /\ (t <= t')%Q.
Proof.
  induction ws as [|w r IH]; intros t tr t' H; cbn [drag_writes] in H.
  - inversion H; subst. split; [apply seg_nil|apply Qle_refl].
  - destruct r as [|w2 r2].
    + inversion H; subst. split; [apply seg_one; apply Qle_refl|apply Qle_refl].
    + destruct (drag_writes (Qred (t + DRAG_PAUSE)) (w2 :: r2)) as [tr2 t2] eqn:E. inversion H; subst.
      destruct (IH _ _ _ E) as [Sg L]. pose proof (drag_step t) as Hs.
      split; [|apply Qle_trans with (Qred (t + DRAG_PAUSE)); assumption].
      change ((t, TWrite w) :: tr2) with ([(t, TWrite w)] ++ tr2).
      apply (seg_app t (Qred (t + DRAG_PAUSE)) t'); try assumption.
      apply seg_one; [apply Qle_refl|exact Hs].
Qed.

Definition wf_rs (r : rstate) : Prop := sorted_commits (rs_commits r).

(** one operation: everything it writes is written, in time order, between its start and its
    completion, and the chain resumes exactly at its completion time *)
Theorem op_interval r o tr r' :
  wf_rs r -> nonneg_op o -> run_sop r o = SOk tr r' ->
  seg (rs_time r) (rs_time r') tr /\ (rs_time r <= rs_time r')%Q /\ wf_rs r'.
Proof.
  intros Hw Hn H. unfold run_sop in H.
  destruct (absorb (rs_time r) (rs_cur r) (rs_commits r)) as [cur cs] eqn:EA.
  destruct (absorb_spec _ _ _ _ _ Hw EA) as [Scs Fcs].
  set (t := rs_time r) in *.
  destruct o as [op1|d|x y|inc|id].
  - destruct (run_op (rs_client r) op1) as [s' [w|]]; [|discriminate]. injection H as <- <-. cbn [rs_time].
    split; [apply seg_one; apply Qle_refl|]. split; [apply Qle_refl|exact Scs].
  - injection H as <- <-. cbn [rs_time]. split; [apply seg_nil|]. split; [|exact Scs].
    apply qred_le_r, qplus_nonneg. exact Hn.
  - destruct (mouseDrag (cs_ptr (rs_client r)) x y 1) as [p' [ws|]]; [|discriminate].
    destruct (drag_writes t ws) as [tr1 t1] eqn:ED. injection H as <- <-. cbn [rs_time].
    destruct (drag_writes_spec _ _ _ _ ED) as [W L]. split; [exact W|]. split; [exact L|exact Scs].
  - destruct (fbur (rs_client r) 0 0 None None inc) as [w|]; [|discriminate].
    destruct cs as [|c rest]; [discriminate|]. injection H as <- <-. cbn [rs_time].
    inversion Fcs as [|? ? Hc Hrest]; subst. inversion Scs as [|? ? Hr Hall]; subst.
    split; [apply seg_one; [apply Qle_refl|exact Hc]|]. split; [exact Hc|exact Hr].
  - assert (G : forall w,
                match expect_loop (rs_client r) id cs [(t, TWrite w)] with
                | (tr0, Some (t', m', rest)) => SOk tr0 (mk_rs (rs_client r) t' (Some m') rest)
                | (tr0, None) => SStuck tr0
                end = SOk tr r' ->
                seg t (rs_time r') tr /\ (t <= rs_time r')%Q /\ wf_rs r').
    { intros w HH. destruct (expect_loop (rs_client r) id cs [(t, TWrite w)]) as [tr0 [[[t' m'] rest]|]] eqn:EL; [|discriminate].
      injection HH as <- <-. cbn [rs_time].
      destruct (expect_loop_spec _ _ _ t _ _ _ Scs Fcs EL) as (tail & E & St & Ft & U & L & S' & F'). rewrite E.
      split; [|split; [exact L|exact S']].
      apply (seg_app t t t'); [apply seg_one; apply Qle_refl| |apply Qle_refl|exact L].
      split; [exact St|]. apply Forall_forall. intros e He. rewrite Forall_forall in Ft, U. split; auto. }
    destruct cur as [m|].
    + destruct (matched m id).
      * injection H as <- <-. cbn [rs_time]. split; [apply seg_nil|]. split; [apply Qle_refl|exact Scs].
      * destruct (fbur (rs_client r) 0 0 None None 1) as [w|]; [|discriminate]. exact (G w H).
    + destruct (fbur (rs_client r) 0 0 None None 0) as [w|]; [|discriminate]. exact (G w H).
Qed.

(** a pause lasts exactly the requested time: nothing is written, the chain resumes d later *)
Theorem pause_exact r d :
  exists r', run_sop r (SPause d) = SOk [] r' /\ (rs_time r' == rs_time r + d)%Q /\ rs_client r' = rs_client r.
Proof.
  unfold run_sop. destruct (absorb (rs_time r) (rs_cur r) (rs_commits r)) as [cur cs].
  eexists. split; [reflexivity|]. cbn [rs_time rs_client]. split; [apply Qred_correct|reflexivity].
Qed.

Definition end_time (r : rstate) (out : outcome) : Q := match out with Done t => t | _ => rs_time r end.

(** the whole script: the trace is in time order and each operation's bytes lie between its own
    start and completion - no byte of a later operation before an earlier one has finished *)
Theorem script_ordered : forall ops r tr out,
  wf_rs r -> Forall nonneg_op ops -> run_script r ops = (tr, out) ->
  StronglySorted tle tr /\ Forall (fun e => (rs_time r <= fst e)%Q) tr.
Proof.
  induction ops as [|o rest IH]; intros r tr out Hw Hn H; cbn [run_script] in H.
  - inversion H; subst. split; [constructor; constructor|constructor; [apply Qle_refl|constructor]].
  - inversion Hn as [|? ? Ho Hrest]; subst.
    destruct (run_sop r o) as [tr1 r1|tr1|tr1] eqn:E.
    + destruct (run_script r1 rest) as [tr2 out2] eqn:E2. inversion H; subst.
      destruct (op_interval _ _ _ _ Hw Ho E) as ([S1 W1] & L & Hw1).
      destruct (IH _ _ _ Hw1 Hrest E2) as (S2 & F2).
      split.
      * apply (sorted_app tr1 tr2 (rs_time r1) S1 S2); [|exact F2].
        eapply Forall_impl; [|exact W1]. intros e [_ B]. exact B.
      * apply Forall_app. split.
        -- eapply Forall_impl; [|exact W1]. intros e [A _]. exact A.
        -- eapply Forall_impl; [|exact F2]. intros e A. apply Qle_trans with (rs_time r1); assumption.
    + (* stuck: the operation's own request(s) only *)
      inversion H; subst. clear IH.
      unfold run_sop in E. destruct (absorb (rs_time r) (rs_cur r) (rs_commits r)) as [cur cs] eqn:EA.
      destruct (absorb_spec _ _ _ _ _ Hw EA) as [Scs Fcs].
      destruct o as [op1|d|x y|inc|id].
      * destruct (run_op (rs_client r) op1) as [s' [w|]]; discriminate.
      * discriminate.
      * destruct (mouseDrag (cs_ptr (rs_client r)) x y 1) as [p' [ws|]]; [destruct (drag_writes (rs_time r) ws)|]; discriminate.
      * destruct (fbur (rs_client r) 0 0 None None inc) as [w|]; [|discriminate]. destruct cs; [|discriminate].
        inversion E; subst. split; [constructor; constructor|constructor; [apply Qle_refl|constructor]].
      * assert (G : forall w, match expect_loop (rs_client r) id cs [(rs_time r, TWrite w)] with
                                | (tr0, Some (t', m', rest0)) => SOk tr0 (mk_rs (rs_client r) t' (Some m') rest0)
                                | (tr0, None) => SStuck tr0
                                end = SStuck tr ->
                                StronglySorted tle tr /\ Forall (fun e => (rs_time r <= fst e)%Q) tr).
        { intros w HH. destruct (expect_loop (rs_client r) id cs [(rs_time r, TWrite w)]) as [tr0 [[[t' m'] rest0]|]] eqn:EL; [discriminate|].
          injection HH as <-.
          destruct (expect_loop_spec _ _ _ (rs_time r) _ _ _ Scs Fcs EL) as (tail & E' & St & Ft & _). rewrite E'. cbn [app].
          split; [constructor; [exact St|exact Ft]|constructor; [apply Qle_refl|exact Ft]]. }
        destruct cur as [m|].
        -- destruct (matched m id); [discriminate|]. destruct (fbur (rs_client r) 0 0 None None 1) as [w|]; [|discriminate].
           exact (G w E).
        -- destruct (fbur (rs_client r) 0 0 None None 0) as [w|]; [|discriminate]. exact (G w E).
    + (* failed: nothing written by the failing operation *)
      inversion H; subst.
      unfold run_sop in E. destruct (absorb (rs_time r) (rs_cur r) (rs_commits r)) as [cur cs].
      destruct o as [op1|d|x y|inc|id].
      * destruct (run_op (rs_client r) op1) as [s' [w|]]; [discriminate|]. inversion E; subst. split; constructor.
      * discriminate.
      * destruct (mouseDrag (cs_ptr (rs_client r)) x y 1) as [p' [ws|]]; [destruct (drag_writes (rs_time r) ws); discriminate|].
        inversion E; subst. split; constructor.
      * destruct (fbur (rs_client r) 0 0 None None inc) as [w|]; [destruct cs; discriminate|]. inversion E; subst. split; constructor.
      * destruct cur as [m|].
        -- destruct (matched m id); [discriminate|]. destruct (fbur (rs_client r) 0 0 None None 1) as [w|].
           ++ destruct (expect_loop (rs_client r) id cs [(rs_time r, TWrite w)]) as [? [[[? ?] ?]|]]; discriminate.
           ++ inversion E; subst. split; constructor.
        -- destruct (fbur (rs_client r) 0 0 None None 0) as [w|].
           ++ destruct (expect_loop (rs_client r) id cs [(rs_time r, TWrite w)]) as [? [[[? ?] ?]|]]; discriminate.
           ++ inversion E; subst. split; constructor.
Qed.

Definition is_lose (e : Q * tev) : bool := match snd e with TLose => true | TWrite _ => false end.

Lemma run_sop_no_lose r o :
  match run_sop r o with SOk tr _ | SStuck tr | SFail tr => forallb (fun e => negb (is_lose e)) tr = true end.
Proof.
  unfold run_sop. destruct (absorb (rs_time r) (rs_cur r) (rs_commits r)) as [cur cs].
  assert (EL : forall s id cs0 acc, forallb (fun e => negb (is_lose e)) acc = true ->
               forallb (fun e => negb (is_lose e)) (fst (expect_loop s id cs0 acc)) = true).
  { intros s id cs0. induction cs0 as [|c r0 IH]; intros acc Ha; cbn [expect_loop]; [exact Ha|].
    destruct (matched (c_match c) id); [exact Ha|]. destruct (fbur s 0 0 None None 1); [|exact Ha].
    apply IH. rewrite forallb_app, Ha. reflexivity. }
  assert (DW : forall ws t, forallb (fun e => negb (is_lose e)) (fst (drag_writes t ws)) = true).
  { induction ws as [|w r0 IH]; intros t; cbn [drag_writes]; [reflexivity|]. destruct r0 as [|w2 r2]; [reflexivity|].
    specialize (IH (Qred (t + DRAG_PAUSE))). destruct (drag_writes (Qred (t + DRAG_PAUSE)) (w2 :: r2)). cbn [fst forallb] in *.
    exact IH. }
  destruct o as [op1|d|x y|inc|id].
  - destruct (run_op (rs_client r) op1) as [s' [w|]]; reflexivity.
  - reflexivity.
  - destruct (mouseDrag (cs_ptr (rs_client r)) x y 1) as [p' [ws|]]; [|reflexivity].
    specialize (DW ws (rs_time r)). destruct (drag_writes (rs_time r) ws). exact DW.
  - destruct (fbur (rs_client r) 0 0 None None inc) as [w|]; [|reflexivity]. destruct cs; reflexivity.
  - destruct cur as [m|].
    + destruct (matched m id); [reflexivity|]. destruct (fbur (rs_client r) 0 0 None None 1) as [w|]; [|reflexivity].
      specialize (EL (rs_client r) id cs [(rs_time r, TWrite w)] eq_refl).
      destruct (expect_loop (rs_client r) id cs [(rs_time r, TWrite w)]) as [? [[[? ?] ?]|]]; exact EL.
    + destruct (fbur (rs_client r) 0 0 None None 0) as [w|]; [|reflexivity].
      specialize (EL (rs_client r) id cs [(rs_time r, TWrite w)] eq_refl).
      destruct (expect_loop (rs_client r) id cs [(rs_time r, TWrite w)]) as [? [[[? ?] ?]|]]; exact EL.
Qed.

(** the connection is closed exactly once, as the very last event, iff every operation finished;
    a script that is stuck or failed never closes it *)
Theorem closes_at_end : forall ops r tr out,
  run_script r ops = (tr, out) ->
  match out with
  | Done t => exists tr0, tr = tr0 ++ [(t, TLose)] /\ forallb (fun e => negb (is_lose e)) tr0 = true
  | Stuck | Failed => forallb (fun e => negb (is_lose e)) tr = true
  end.
Proof.
  induction ops as [|o rest IH]; intros r tr out H; cbn [run_script] in H.
  - inversion H; subst. exists []. split; reflexivity.
  - pose proof (run_sop_no_lose r o) as NL. destruct (run_sop r o) as [tr1 r1|tr1|tr1].
    + destruct (run_script r1 rest) as [tr2 out2] eqn:E2. inversion H; subst. specialize (IH _ _ _ E2).
      destruct out.
      * destruct IH as (tr0 & E & N0). exists (tr1 ++ tr0). rewrite E, app_assoc. split; [reflexivity|].
        rewrite forallb_app, NL, N0. reflexivity.
      * rewrite forallb_app, NL, IH. reflexivity.
      * rewrite forallb_app, NL, IH. reflexivity.
    + inversion H; subst. exact NL.
    + inversion H; subst. exact NL.
Qed.
