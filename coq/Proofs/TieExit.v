(** The exit-status decisions of VNCDoCLIFactory and the --timeout timer as regenerated from command.py ([Gen/ExprsExit.v]) are the model's. *)
From Coq Require Import ZArith QArith List Bool Lia.
From VD Require Import Gen.ExprsExit Model.Exit.
Import ListNotations.
Open Scope Z_scope.

Lemma timeout_delay_tie t w : (gen_timeout_delay t w == t)%Q.
Proof. reflexivity. Qed.

Theorem timeout_is_wall_clock t w : (gen_timeout_delay t w == t)%Q.
Proof. apply timeout_delay_tie. Qed.

(** ** the exit status of vncdo: what each reactor event leaves in reactor.exit_status is the source's own decision
    (VNCDoCLIFactory.clientConnectionLost / clientConnectionFailed / error / done, build_tool's initial value) *)
Theorem exit_status_is_source s e :
  x_status x0 = gen_status_initial /\
  xstep s e =
  if x_stopped s then s
  else match e with
       | XConnFailed => done s gen_status_failed
       | XCompleted => mk_x (x_status s) true (x_stopping s) (x_stopped s)
       | XLostClean => done s (gen_status_lost true (x_completed s))
       | XLostError => done s (gen_status_lost false (x_completed s))
       | XTimeout => done s gen_status_error
       | XStop => if x_stopping s then mk_x (x_status s) (x_completed s) true true else s
       end.
Proof.
  split; [reflexivity|]. unfold xstep. destruct (x_stopped s); [reflexivity|].
  destruct e; try reflexivity. unfold gen_status_lost. cbn [andb]. destruct (x_completed s); reflexivity.
Qed.
