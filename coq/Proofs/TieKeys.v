(** The passes of keyPress / keyDown / keyUp over the decoded keys as regenerated from client.py ([Gen/ExprsKeys.v]) are the model's. *)
From Coq Require Import ZArith QArith List Bool Lia.
From VD Require Import Base.Bytes Gen.ExprsKeys Model.ClientMsgs Model.Keys.
Import ListNotations.
Open Scope Z_scope.

(** ** key operations: the passes over the decoded keys (direction, down-flag) are the source's own *)
Fixpoint run_passes (passes : list (bool * bool)) (keys : list Z) : option bytes :=
  match passes with
  | [] => Some []
  | (rv, down) :: r =>
      match key_events (if down then 1 else 0) (if rv then rev keys else keys), run_passes r keys with
      | Some a, Some b => Some (a ++ b)
      | _, _ => None
      end
  end.

Theorem keyPress_is_source fc up key :
  keyPress fc up key = match decode_key fc up key with None => None | Some keys => run_passes gen_keyPress_passes keys end.
Proof.
  unfold keyPress, gen_keyPress_passes. destruct (decode_key fc up key) as [keys|]; [|reflexivity].
  cbn [run_passes]. destruct (key_events 1 keys) as [a|]; [|reflexivity].
  destruct (key_events 0 (rev keys)) as [b|]; [|reflexivity]. rewrite app_nil_r. reflexivity.
Qed.

Theorem keyDown_is_source fc up key :
  keyDown fc up key = match decode_key fc up key with None => None | Some keys => run_passes gen_keyDown_passes keys end.
Proof.
  unfold keyDown, gen_keyDown_passes. destruct (decode_key fc up key) as [keys|]; [|reflexivity].
  cbn [run_passes]. destruct (key_events 1 keys) as [a|]; [|reflexivity]. rewrite app_nil_r. reflexivity.
Qed.

Theorem keyUp_is_source fc up key :
  keyUp fc up key = match decode_key fc up key with None => None | Some keys => run_passes gen_keyUp_passes keys end.
Proof.
  unfold keyUp, gen_keyUp_passes. destruct (decode_key fc up key) as [keys|]; [|reflexivity].
  cbn [run_passes]. destruct (key_events 0 keys) as [a|]; [|reflexivity]. rewrite app_nil_r. reflexivity.
Qed.

Theorem key_passes_are_source fc up key :
  keyPress fc up key = (match decode_key fc up key with None => None | Some keys => run_passes gen_keyPress_passes keys end) /\
  keyDown fc up key = (match decode_key fc up key with None => None | Some keys => run_passes gen_keyDown_passes keys end) /\
  keyUp fc up key = (match decode_key fc up key with None => None | Some keys => run_passes gen_keyUp_passes keys end).
Proof. split; [apply keyPress_is_source|]. split; [apply keyDown_is_source|apply keyUp_is_source]. Qed.
