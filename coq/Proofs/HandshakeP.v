(** The handshake part of the RFB client model (C03). *)
From Coq Require Import ZArith List Bool Lia String.
From RecordUpdate Require Import RecordSet.
From VD Require Import Base.Bytes Base.BytesP Base.Struct Base.Text Proofs.TextP Gen.Tables Gen.Formats.
From VD Require Import Model.Engine Model.ClientMsgs Model.Auth Model.Rfb.
Import ListNotations.
Open Scope Z_scope.

(** *** version negotiation *)

Lemma translate_digit c : 48 <= c <= 57 -> nth (Z.to_nat c) HEADER_TRANSLATE c = 48.
Proof.
  intros H.
  assert (c = 48 \/ c = 49 \/ c = 50 \/ c = 51 \/ c = 52 \/ c = 53 \/ c = 54 \/ c = 55 \/ c = 56 \/ c = 57) as C by lia.
  repeat destruct C as [C|C]; subst c; reflexivity.
Qed.

Lemma dec3_digits n : 0 <= n <= 999 ->
  exists a b c, dec3 n = [a; b; c] /\ 48 <= a <= 57 /\ 48 <= b <= 57 /\ 48 <= c <= 57 /\ digits3 a b c = n.
Proof.
  intros H. unfold dec3. do 3 eexists. split; [reflexivity|]. unfold digits3.
  pose proof (Z.mod_pos_bound (n / 100) 10 ltac:(lia)).
  pose proof (Z.mod_pos_bound (n / 10) 10 ltac:(lia)).
  pose proof (Z.mod_pos_bound n 10 ltac:(lia)).
  repeat split; try lia.
  assert (n / 100 < 10) by (apply Z.div_lt_upper_bound; lia).
  assert (0 <= n / 100) by (apply Z.div_pos; lia).
  rewrite (Z.mod_small (n / 100) 10) by lia.
  pose proof (Z.div_mod n 10 ltac:(lia)). pose proof (Z.div_mod (n / 10) 10 ltac:(lia)).
  replace (n / 100) with (n / 10 / 10) by (rewrite Z.div_div by lia; reflexivity). lia.
Qed.

Definition spec_version (vs : Z * Z) : Z * Z :=
  if le_ver (3, 8) vs then (3, 8) else if le_ver (3, 7) vs then (3, 7) else (3, 3).

Definition ltP (a b : Z * Z) : Prop := fst a < fst b \/ (fst a = fst b /\ snd a < snd b).
Definition leP (a b : Z * Z) : Prop := fst a < fst b \/ (fst a = fst b /\ snd a <= snd b).

Lemma lt_ver_spec a b : BoolSpec (ltP a b) (~ ltP a b) (lt_ver a b).
Proof.
  unfold lt_ver, ltP. destruct (Z.ltb_spec (fst a) (fst b)), (Z.eqb_spec (fst a) (fst b)), (Z.ltb_spec (snd a) (snd b));
    cbn; constructor; lia.
Qed.
Lemma le_ver_spec a b : BoolSpec (leP a b) (~ leP a b) (le_ver a b).
Proof.
  unfold le_ver. destruct (lt_ver_spec b a) as [H|H]; cbn; constructor; unfold ltP, leP in *; lia.
Qed.

Definition bv_step (vs : Z * Z) (acc : option (Z * Z)) (v : Z * Z) : option (Z * Z) :=
  if le_ver v vs then match acc with Some m => if lt_ver m v then Some v else Some m | None => Some v end else acc.

Lemma bv_fold vs l : forall acc,
  match fold_left (bv_step vs) l acc with
  | Some m => (In m l /\ leP m vs \/ acc = Some m) /\
              (forall v, In v l -> leP v vs -> leP v m) /\
              (forall a, acc = Some a -> leP a m)
  | None => acc = None /\ forall v, In v l -> ~ leP v vs
  end.
Proof.
  induction l as [|v l IH]; intros acc; cbn [fold_left].
  - destruct acc as [a|].
    + split; [right; reflexivity|]. split; [intros ? []|]. intros a' E; inversion E; subst. unfold leP; lia.
    + split; [reflexivity|intros ? []].
  - specialize (IH (bv_step vs acc v)). destruct (fold_left (bv_step vs) l (bv_step vs acc v)) as [m|].
    + destruct IH as (H1 & H2 & H3). unfold bv_step in H1, H3.
      destruct (le_ver_spec v vs) as [Hv|Hv].
      * destruct acc as [a|].
        -- destruct (lt_ver_spec a v) as [Hav|Hav].
           ++ split; [|split].
              ** destruct H1 as [[Hi Hl]|E]; [left; split; [right; exact Hi|exact Hl]|].
                 inversion E; subst m. left; split; [left; reflexivity|exact Hv].
              ** intros v0 [<-|Hi] Hl; [apply H3; reflexivity|apply H2; assumption].
              ** intros a0 E; inversion E; subst a0. specialize (H3 _ eq_refl). unfold leP, ltP in *; lia.
           ++ split; [|split].
              ** destruct H1 as [[Hi Hl]|E]; [left; split; [right; exact Hi|exact Hl]|right; exact E].
              ** intros v0 [<-|Hi] Hl; [|apply H2; assumption].
                 specialize (H3 _ eq_refl). unfold leP, ltP in *; lia.
              ** exact H3.
        -- split; [|split].
           ++ destruct H1 as [[Hi Hl]|E]; [left; split; [right; exact Hi|exact Hl]|].
              inversion E; subst m. left; split; [left; reflexivity|exact Hv].
           ++ intros v0 [<-|Hi] Hl; [apply H3; reflexivity|apply H2; assumption].
           ++ intros a0 E; discriminate.
      * split; [|split].
        -- destruct H1 as [[Hi Hl]|E]; [left; split; [right; exact Hi|exact Hl]|right; exact E].
        -- intros v0 [<-|Hi] Hl; [contradiction|apply H2; assumption].
        -- exact H3.
    + destruct IH as [E H]. unfold bv_step in E. destruct (le_ver_spec v vs) as [Hv|Hv].
      * destruct acc as [a|]; [destruct (lt_ver a v)|]; discriminate.
      * split; [exact E|]. intros v0 [<-|Hi]; [exact Hv|apply H; exact Hi].
Qed.

Lemma best_version_max vs :
  match best_version vs with
  | Some m => In m SUPPORTED_SERVER_VERSIONS /\ leP m vs /\
              forall v, In v SUPPORTED_SERVER_VERSIONS -> leP v vs -> leP v m
  | None => forall v, In v SUPPORTED_SERVER_VERSIONS -> ~ leP v vs
  end.
Proof.
  unfold best_version. change (fun acc v => if le_ver v vs then match acc with Some m => if lt_ver m v then Some v else Some m | None => Some v end else acc) with (bv_step vs).
  pose proof (bv_fold vs SUPPORTED_SERVER_VERSIONS None) as H.
  destruct (fold_left (bv_step vs) SUPPORTED_SERVER_VERSIONS None) as [m|].
  - destruct H as ([[Hi Hl]|E] & H2 & _); [|discriminate]. auto.
  - apply H.
Qed.

Lemma best_version_spec maj min :
  0 <= maj -> 0 <= min -> le_ver (3, 3) (maj, min) = true ->
  exists v0, best_version (maj, min) = Some v0 /\
             (if lt_ver MAX_CLIENT_VERSION v0 then MAX_CLIENT_VERSION else v0) = spec_version (maj, min).
Proof.
  intros Hmaj Hmin H33. destruct (le_ver_spec (3, 3) (maj, min)) as [L33|]; [|discriminate]. clear H33.
  pose proof (best_version_max (maj, min)) as H.
  destruct (best_version (maj, min)) as [m|].
  2:{ exfalso. apply (H (3, 3)); [vm_compute; tauto|exact L33]. }
  destruct H as (Hin & Hle & Hmax). exists m. split; [reflexivity|].
  assert (In (3, 3) SUPPORTED_SERVER_VERSIONS /\ In (3, 7) SUPPORTED_SERVER_VERSIONS /\ In (3, 8) SUPPORTED_SERVER_VERSIONS) as (I33 & I37 & I38)
    by (vm_compute; tauto).
  pose proof (Hmax _ I33) as M33. pose proof (Hmax _ I37) as M37. pose proof (Hmax _ I38) as M38.
  unfold spec_version, MAX_CLIENT_VERSION.
  destruct (le_ver_spec (3, 8) (maj, min)) as [L38|L38].
  - specialize (M38 L38). destruct (lt_ver_spec (3, 8) m) as [G|G]; [reflexivity|].
    destruct m as [a b]. unfold leP, ltP in *; cbn [fst snd] in *. f_equal; lia.
  - destruct (le_ver_spec (3, 7) (maj, min)) as [L37|L37].
    + specialize (M37 L37).
      unfold SUPPORTED_SERVER_VERSIONS in Hin. cbn [In] in Hin.
      repeat destruct Hin as [Hin|Hin]; try contradiction; subst m;
        unfold leP, ltP in *; cbn [fst snd] in *; try (exfalso; lia);
        (destruct (lt_ver_spec (3, 8) (3, 7)) as [G|G]; [unfold ltP in G; cbn in G; lia|reflexivity]).
    + specialize (M33 L33).
      unfold SUPPORTED_SERVER_VERSIONS in Hin. cbn [In] in Hin.
      repeat destruct Hin as [Hin|Hin]; try contradiction; subst m;
        unfold leP, ltP in *; cbn [fst snd] in *; try (exfalso; lia);
        (destruct (lt_ver_spec (3, 8) (3, 3)) as [G|G]; [unfold ltP in G; cbn in G; lia|reflexivity]).
Qed.

Theorem version_negotiation : forall s maj min,
  0 <= maj <= 999 -> 0 <= min <= 999 -> le_ver (3, 3) (maj, min) = true ->
  let v := if le_ver (3, 8) (maj, min) then (3, 8) else if le_ver (3, 7) (maj, min) then (3, 7) else (3, 3) in
  exists s', handle_initial s (banner_of (maj, min)) =
             IGo s' (if lt_ver v (3, 7) then PAuth else PNumSec) [] [EWrite (banner_of v)] /\
             ver s' = v /\ ver_server s' = (maj, min).
Proof.
  intros s maj min Hmaj Hmin H33 v.
  destruct (dec3_digits maj Hmaj) as (a1 & a2 & a3 & Ea & Ha1 & Ha2 & Ha3 & Da).
  destruct (dec3_digits min Hmin) as (b1 & b2 & b3 & Eb & Hb1 & Hb2 & Hb3 & Db).
  unfold handle_initial, banner_of. cbn [fst snd]. rewrite Ea, Eb.
  cbn [text_of_ascii app firstn skipn].
  change (text_of_ascii "RFB "%string) with [82; 70; 66; 32]. cbn [app firstn skipn].
  unfold translate_digits. cbn [map].
  rewrite (translate_digit a1), (translate_digit a2), (translate_digit a3),
          (translate_digit b1), (translate_digit b2), (translate_digit b3) by assumption.
  match goal with |- context [text_eqb ?a HEADER] =>
    replace (text_eqb a HEADER) with true by (vm_compute; reflexivity) end.
  cbn iota.
  rewrite Da, Db.
  destruct (best_version_spec maj min ltac:(lia) ltac:(lia) H33) as (v0 & Ev & Hcap).
  rewrite Ev. fold (spec_version (maj, min)) in v. unfold spec_version in *.
  rewrite Hcap. subst v. eexists. split; [reflexivity|]. split; reflexivity.
Qed.

(** *** security type selection *)

Definition mc_step (supported : list Z) (acc : option Z) (t : Z) : option Z :=
  if mem_Z t supported then match acc with Some m => Some (Z.max m t) | None => Some t end else acc.

Lemma mem_Z_In t l : mem_Z t l = true <-> In t l.
Proof.
  unfold mem_Z. rewrite existsb_exists. split.
  - intros (x & Hx & E). apply Z.eqb_eq in E. subst; exact Hx.
  - intros H. exists t. split; [exact H|apply Z.eqb_refl].
Qed.

Lemma max_common_acc supported types : forall acc,
  match fold_left (mc_step supported) types acc with
  | Some m => (In m types /\ In m supported \/ acc = Some m) /\
              (forall t, In t types -> In t supported -> t <= m) /\
              (forall a, acc = Some a -> a <= m)
  | None => acc = None /\ forall t, In t types -> ~ In t supported
  end.
Proof.
  induction types as [|t types IH]; intros acc; cbn [fold_left].
  - destruct acc as [a|].
    + split; [right; reflexivity|]. split; [intros ? []|]. intros a' E; inversion E; lia.
    + split; [reflexivity|intros ? []].
  - specialize (IH (mc_step supported acc t)).
    destruct (fold_left (mc_step supported) types (mc_step supported acc t)) as [m|].
    + destruct IH as (H1 & H2 & H3). unfold mc_step in H1, H3.
      destruct (mem_Z t supported) eqn:Em.
      * apply mem_Z_In in Em. split; [|split].
        -- destruct H1 as [[Hi Hs]|H1]; [left; split; [right; exact Hi|exact Hs]|].
           destruct acc as [a|]; inversion H1 as [E]; clear H1.
           ++ destruct (Z.max_spec a t) as [[_ Ex]|[_ Ex]]; rewrite Ex in *.
              ** subst m. left; split; [left; reflexivity|exact Em].
              ** subst m. right; reflexivity.
           ++ subst m. left; split; [left; reflexivity|exact Em].
        -- intros t0 [<-|Ht0] Hs; [|apply H2; assumption].
           destruct acc as [a|]; [specialize (H3 _ eq_refl); lia|specialize (H3 _ eq_refl); lia].
        -- intros a E; subst acc. specialize (H3 _ eq_refl). lia.
      * split; [|split].
        -- destruct H1 as [[Hi Hs]|H1]; [left; split; [right; exact Hi|exact Hs]|right; exact H1].
        -- intros t0 [<-|Ht0] Hs; [|apply H2; assumption].
           apply mem_Z_In in Hs. congruence.
        -- exact H3.
    + destruct IH as [E H]. unfold mc_step in E. destruct (mem_Z t supported) eqn:Em.
      * destruct acc; discriminate.
      * split; [exact E|]. intros t0 [<-|Ht0]; [|apply H; exact Ht0].
        intros Hs. apply mem_Z_In in Hs. congruence.
Qed.

Theorem sectype_selection : forall types,
  match max_common types SUPPORTED_AUTHS with
  | Some m => In m types /\ In m SUPPORTED_AUTHS /\ forall t, In t types -> In t SUPPORTED_AUTHS -> t <= m
  | None => forall t, In t types -> ~ In t SUPPORTED_AUTHS
  end.
Proof.
  intros types. unfold max_common.
  change (fun acc t => if mem_Z t SUPPORTED_AUTHS then match acc with Some m => Some (Z.max m t) | None => Some t end else acc)
    with (mc_step SUPPORTED_AUTHS).
  pose proof (max_common_acc SUPPORTED_AUTHS types None) as H.
  destruct (fold_left _ types None) as [m|].
  - destruct H as (H1 & H2 & _). destruct H1 as [[Hi Hs]|H1]; [|discriminate]. repeat split; auto.
  - apply H.
Qed.

(** *** phases *)

Inductive phase := Security | InitSent | Established.

Definition phase_of (p : pend) : phase :=
  match p with
  | PNumSec | PSecTypes _ | PAuth | PConnFailed | PConnMsg _ | PVNCAuth | PDHAuth | PDHKey _ | PDHCert _
  | PAuthResult | PAuthFailed | PAuthFailedMsg _ => Security
  | PServerInit | PServerName _ => InitSent
  | _ => Established
  end.

Definition reports_success (e : ev) : bool :=
  match e with EMade | EConnected => true | _ => false end.

(** in a security-phase run nothing is reported as established *)
Definition good_trace (ph : phase) (es : list ev) : Prop :=
  match ph with Security => forallb (fun e => negb (reports_success e)) es = true | _ => True end.

Definition quiet (es : list ev) : Prop := forallb (fun e => negb (reports_success e)) es = true.

Lemma quiet_app a b : quiet (a ++ b) <-> quiet a /\ quiet b.
Proof. unfold quiet. rewrite forallb_app. apply andb_true_iff. Qed.

Definition res_quiet_sec (r : Engine.res st pend ev) : Prop :=
  match r with
  | Ok _ (Some q) es => quiet es /\ (phase_of q = Security \/ phase_of q = InitSent)
  | Ok _ None es => quiet es
  | Raise es => quiet es
  end.

Ltac qs := cbn; unfold quiet; cbn; repeat split; try reflexivity; try (left; reflexivity); try (right; reflexivity).

Lemma client_init_quiet s : res_quiet_sec (client_init s).
Proof. unfold client_init. destruct (pack _ _); qs. Qed.

Lemma request_password_quiet s : res_quiet_sec (request_password s).
Proof.
  unfold request_password. destruct (password s) as [pw|].
  - destruct (vnc_key pw); qs.
  - destruct (_ =? 0); [qs|]. destruct (_ || _); [qs|].
    destruct (vnc_key _); qs.
Qed.

Lemma prepend_quiet es r : quiet es -> res_quiet_sec r -> res_quiet_sec (prepend es r).
Proof.
  intros Q. destruct r as [s' [q|] es'|es']; cbn; intros H; try (apply quiet_app; tauto).
  destruct H; split; [apply quiet_app; tauto|assumption].
Qed.

(** a security-phase step reports nothing and stays in the security phase or sends ClientInit *)
Lemma security_step_quiet s p b : phase_of p = Security -> res_quiet_sec (step s p b).
Proof.
  intros Hp. destruct p; cbn [phase_of] in Hp; try discriminate; cbn [step].
  - destruct (unpackZ _ b) as [[|n [|? ?]]|]; try (qs; fail). destruct (n =? 0); qs.
  - destruct (unpackZ _ b); [|qs]. destruct (max_common _ _); [|qs].
    destruct (pack _ _); [|qs].
    destruct (_ =? AUTH_NONE).
    { destruct (lt_ver _ _); [apply prepend_quiet; [reflexivity|apply client_init_quiet]|qs]. }
    destruct (_ =? AUTH_VNC_AUTHENTICATION); [qs|].
    destruct (_ =? AUTH_DIFFIE_HELLMAN); qs.
  - destruct (unpackZ _ b) as [[|a [|? ?]]|]; try (qs; fail).
    destruct (_ =? AUTH_INVALID); [qs|].
    destruct (_ =? AUTH_NONE); [apply client_init_quiet|].
    destruct (_ =? AUTH_VNC_AUTHENTICATION); qs.
  - destruct (unpackZ _ b) as [[|n [|? ?]]|]; try (qs; fail). destruct (n =? 0); qs.
  - qs.
  - apply request_password_quiet.
  - destruct (unpackZ _ b) as [[|g [|k [|? ?]]]|]; qs.
  - qs.
  - destruct (username s) as [u|] eqn:Eu; destruct (password s) as [pw|] eqn:Epw;
      cbn [username password set]; rewrite ?Eu, ?Epw; cbn [username password set];
      try rewrite Eu; try rewrite Epw;
      match goal with |- context [ard_parts ?a ?b0 ?c ?d ?e ?f ?g] => destruct (ard_parts a b0 c d e f g) as [[[? ?] ?]|] end; qs.
  - destruct (unpackZ _ b) as [[|r [|? ?]]|]; try (qs; fail).
    destruct (_ =? 0); [apply client_init_quiet|].
    destruct (_ =? 1); [destruct (lt_ver _ _); qs|].
    destruct (_ =? 2); [destruct (lt_ver _ _); qs|qs].
  - destruct (unpackZ _ b) as [[|n [|? ?]]|]; try (qs; fail). destruct (n =? 0); qs.
  - qs.
Qed.

(** once past the security phase the client never returns to it *)
Definition landsE (r : Engine.res st pend ev) : Prop :=
  match r with Ok _ (Some q) _ => phase_of q = Established | _ => True end.

Lemma landsE_prepend es r : landsE r -> landsE (prepend es r).
Proof. destruct r as [s' [q|] es'|es']; cbn; auto. Qed.
Lemma landsE_upd s x y w h d k : landsE k -> landsE (upd s x y w h d k).
Proof. intros H. unfold upd. destruct (upd_raises _ _ _ _); [exact I|apply landsE_prepend; exact H]. Qed.
Lemma landsE_fill s x y w h c k : landsE k -> landsE (fill s x y w h c k).
Proof. intros H. unfold fill. destruct c; [|exact I]. destruct (_ && _); [exact I|apply landsE_prepend; exact H]. Qed.
Lemma landsE_fills s l k : landsE k -> landsE (fills s l k).
Proof. intros H. induction l as [|[[[[x y] w] h] c] l IH]; cbn [fills]; [exact H|apply landsE_fill; exact IH]. Qed.
Lemma landsE_do_connection s : landsE (do_connection s).
Proof.
  unfold do_connection. destruct (negb _); [reflexivity|]. destruct (rectpos s); [reflexivity|].
  destruct (commit s); reflexivity.
Qed.
Lemma landsE_hex_next s bg fg x y w h tx ty : landsE (hex_next s bg fg x y w h tx ty).
Proof.
  unfold hex_next. destruct (tx + 16 >=? x + w); cbn zeta;
    (destruct (_ || _); [apply landsE_do_connection|reflexivity]).
Qed.
Lemma landsE_hex_first s x y w h : landsE (hex_first s x y w h).
Proof. unfold hex_first. destruct (_ || _); [apply landsE_do_connection|reflexivity]. Qed.
Lemma landsE_zrle fuel : forall s it x y w h tx ty, landsE (zrle_tiles fuel s it x y w h tx ty).
Proof.
  induction fuel as [|f IH]; intros s it x y w h tx ty; cbn [zrle_tiles]; [exact I|].
  destruct it as [|sub it1]; [apply landsE_do_connection|]. cbv zeta.
  assert (Hn : forall it', landsE
            (let '(tx2, ty2) := if tx + 64 >=? x + w then (x, ty + 64) else (tx + 64, ty) in
             zrle_tiles f s it' x y w h tx2 ty2)).
  { intros it'. destruct (tx + 64 >=? x + w); apply IH. }
  destruct (negb (Z.land sub 128 =? 0)).
  - destruct (Z.land sub 127 =? 0).
    + destruct (rle_plain _ _ _ _ _) as [[d it2]|]; [apply landsE_upd; apply Hn|exact I].
    + destruct (cpixels _ _) as [[pal it2]|]; [|exact I].
      destruct (rle_palette _ _ _ _ _ _) as [[d it3]|]; [apply landsE_upd; apply Hn|exact I].
  - destruct (Z.land sub 127 =? 0).
    + destruct (raw_cpixels _ _ _) as [[d it2]|]; [apply landsE_upd; apply Hn|exact I].
    + destruct (Z.land sub 127 =? 1).
      * destruct (cpixel it1) as [[c it2]|]; [apply landsE_fill; apply Hn|exact I].
      * destruct (16 <? Z.land sub 127); [exact I|].
        destruct (cpixels _ _) as [[pal it2]|]; [|exact I].
        destruct (_ <=? 0); [exact I|].
        destruct (packed _ _ _ _ _) as [[d it3]|]; [apply landsE_upd; apply Hn|exact I].
Qed.

Definition not_back (r : Engine.res st pend ev) : Prop :=
  match r with Ok _ (Some q) _ => phase_of q <> Security | _ => True end.

Lemma landsE_not_back r : landsE r -> not_back r.
Proof. destruct r as [s' [q|] es|es]; cbn; auto. intros ->; discriminate. Qed.

Lemma phase_mono s p b : phase_of p <> Security -> not_back (step s p b).
Proof.
  intros Hp. destruct p; cbn [phase_of] in Hp; try congruence; cbn [step].
  - (* PServerInit *)
    destruct (unpack _ b) as [[|[?|?] [|[?|?] [|[?|?] [|[?|?] [|? ?]]]]]|]; try exact I.
    destruct (pf_from_bytes _); cbn; [discriminate|exact I].
  - destruct (connection_made s) as [s' [es|]]; cbn; [discriminate|exact I].
  - destruct (unpackZ _ b) as [[|m [|? ?]]|]; try exact I.
    repeat match goal with |- context [if ?c then _ else _] => destruct c end; cbn; try discriminate; exact I.
  - destruct (unpackZ _ b) as [[|n [|? ?]]|]; try exact I.
    apply landsE_not_back, landsE_prepend, landsE_do_connection.
  - destruct (unpackZ _ b) as [[|x [|y [|w [|h [|enc [|? ?]]]]]]|]; try exact I.
    match goal with |- context [rects ?s0 =? 0] => destruct (rects s0 =? 0) end;
      [apply landsE_not_back, landsE_do_connection|].
    destruct (enc =? ENC_COPY_RECTANGLE); [cbn; discriminate|].
    destruct (enc =? ENC_RAW); [cbn; discriminate|].
    destruct (enc =? ENC_HEXTILE); [apply landsE_not_back, landsE_hex_first|].
    destruct (enc =? ENC_CORRE); [cbn; discriminate|].
    destruct (enc =? ENC_RRE); [cbn; discriminate|].
    destruct (enc =? ENC_ZRLE); [cbn; discriminate|].
    destruct (enc =? ENC_PSEUDO_CURSOR); [cbn; discriminate|].
    destruct (enc =? ENC_PSEUDO_DESKTOP_SIZE); [apply landsE_not_back, landsE_prepend, landsE_do_connection|].
    destruct (enc =? ENC_PSEUDO_QEMU_EXTENDED_KEY_EVENT); [apply landsE_not_back, landsE_do_connection|exact I].
  - apply landsE_not_back, landsE_upd, landsE_do_connection.
  - destruct (unpackZ _ b) as [[|a [|b0 [|? ?]]]|]; try exact I.
    apply landsE_not_back, landsE_prepend, landsE_do_connection.
  - destruct (take 4 b) as [[hd4 color]|]; [|exact I].
    destruct (unpackZ _ hd4) as [[|n0 [|? ?]]|]; try exact I.
    apply landsE_not_back, landsE_fill. destruct (n0 =? 0); [apply landsE_do_connection|reflexivity].
  - destruct (subrects _ _ _ _ _ _); [apply landsE_not_back, landsE_fills, landsE_do_connection|exact I].
  - destruct (take 4 b) as [[hd4 color]|]; [|exact I].
    destruct (unpackZ _ hd4) as [[|n0 [|? ?]]|]; try exact I.
    apply landsE_not_back, landsE_fill. destruct (n0 =? 0); [apply landsE_do_connection|reflexivity].
  - destruct (subrects _ _ _ _ _ _); [apply landsE_not_back, landsE_fills, landsE_do_connection|exact I].
  - cbv zeta. destruct (has _ HEX_RAW); [cbn; discriminate|].
    destruct (negb (_ =? 0)); [cbn; discriminate|]. apply landsE_not_back, landsE_fill, landsE_hex_next.
  - apply landsE_not_back, landsE_upd, landsE_hex_next.
  - apply landsE_not_back.
    destruct (has sub HEX_BACKGROUND_SPECIFIED); destruct (has sub HEX_FOREGROUND_SPECIFIED); cbv zeta;
      apply landsE_fill;
      (destruct (negb (_ =? 0)); [destruct (has sub HEX_SUBRECTS_COLORED); reflexivity|apply landsE_hex_next]).
  - destruct (hex_subrects_col _ _ _ _ _ _) as [[l last]|]; [apply landsE_not_back, landsE_fills, landsE_hex_next|exact I].
  - destruct (hex_subrects_fg _ _ _) as [l|]; [|exact I].
    destruct fg; [apply landsE_not_back, landsE_fills, landsE_hex_next|].
    destruct l; [apply landsE_not_back, landsE_hex_next|exact I].
  - destruct (unpackZ _ b) as [[|n [|? ?]]|]; cbn; try discriminate; exact I.
  - destruct (ztape s) as [|[d|] rest]; [exact I|apply landsE_not_back, landsE_zrle|exact I].
  - apply landsE_not_back, landsE_prepend, landsE_do_connection.
  - destruct (unpackZ _ b) as [[|f [|n [|? ?]]]|]; cbn; try discriminate; exact I.
  - cbn; discriminate.
  - destruct (unpackZ _ b) as [[|n [|? ?]]|]; cbn; try discriminate; exact I.
  - cbn; discriminate.
Qed.

Lemma Drain_never_back : forall s p buf es r n,
  Drain st pend ev need step s p buf es r n -> phase_of p <> Security ->
  match r with Idle _ p1 _ => phase_of p1 <> Security | Crashed => True end.
Proof.
  induction 1 as [s p buf Hn|s p buf blk rest s' p' es es2 r n Ht Hs D IH|]; intros Hp; [exact Hp| |exact I].
  apply IH. pose proof (phase_mono s p blk Hp) as M. rewrite Hs in M.
  destruct p' as [q|]; cbn [next_pend]; [exact M|exact Hp].
Qed.

(** as long as the run has not left the security phase nothing was reported as established *)
Theorem init_after_success : forall s p buf es r n,
  phase_of p = Security ->
  Drain st pend ev need step s p buf es r n ->
  match r with Idle _ p1 _ => phase_of p1 = Security | Crashed => False end ->
  good_trace Security es.
Proof.
  intros s p buf es r n Hp D. revert Hp.
  induction D as [s p buf Hn|s p buf blk rest s' p' es es2 r n Ht Hs D IH|s p buf blk rest es Ht Hs];
    intros Hp Hr; cbn [good_trace].
  - reflexivity.
  - pose proof (security_step_quiet s p blk Hp) as Q. rewrite Hs in Q.
    apply quiet_app. destruct p' as [q|]; cbn [next_pend] in *.
    + destruct Q as [Q [Hq|Hq]]; split; try exact Q; [apply IH; assumption|].
      exfalso. pose proof (Drain_never_back _ _ _ _ _ _ D) as G.
      destruct r; [apply G; [rewrite Hq; discriminate|exact Hr]|exact Hr].
    + split; [exact Q|apply IH; assumption].
  - destruct Hr.
Qed.

Lemma request_password_target s s' q es : request_password s = Ok s' (Some q) es -> q = PAuthResult.
Proof.
  unfold request_password. destruct (password s) as [pw|].
  - destruct (vnc_key pw); intros H; inversion H; reflexivity.
  - destruct (_ =? 0); [intros H; inversion H; reflexivity|].
    destruct (_ || _); [intros H; inversion H; reflexivity|].
    destruct (vnc_key _); intros H; inversion H; reflexivity.
Qed.

(** ClientInit is written exactly by the three success transitions *)
Theorem init_only_on_success : forall s p b s' q es,
  phase_of p = Security -> step s p b = Ok s' (Some q) es -> phase_of q = InitSent ->
  q = PServerInit /\ (exists pre w, es = pre ++ [EWrite w] /\
                       pack fmt_rfb_RFBClient_doClientInitialization_0 [VI (c_shared (cf s))] = Some w) /\
  ((exists n, p = PSecTypes n /\ lt_ver (ver s) (3, 8) = true) \/ p = PAuth \/ p = PAuthResult).
Proof.
  intros s p b s' q es Hp Hs Hq.
  assert (CI : forall pre r, prepend pre (client_init s) = r -> r = Ok s' (Some q) es ->
               q = PServerInit /\ (exists pre0 w, es = pre0 ++ [EWrite w] /\
                 pack fmt_rfb_RFBClient_doClientInitialization_0 [VI (c_shared (cf s))] = Some w)).
  { intros pre r <- E. unfold client_init in E. destruct (pack _ _) as [w|] eqn:Ep; cbn in E; [|discriminate].
    inversion E; subst. split; [reflexivity|]. exists pre, w. split; [reflexivity|reflexivity]. }
  destruct p; cbn [phase_of] in Hp; try discriminate; cbn [step] in Hs.
  - destruct (unpackZ _ b) as [[|n [|? ?]]|]; try discriminate. destruct (n =? 0); inversion Hs; subst; discriminate.
  - destruct (unpackZ _ b); [|discriminate]. destruct (max_common _ _); [|discriminate].
    destruct (pack _ _) as [wb|]; [|discriminate].
    destruct (_ =? AUTH_NONE).
    { destruct (lt_ver _ _) eqn:Ev.
      - destruct (CI [EWrite wb] _ eq_refl Hs) as [-> H]. split; [reflexivity|]. split; [exact H|]. left; eauto.
      - inversion Hs; subst; discriminate. }
    destruct (_ =? AUTH_VNC_AUTHENTICATION); [inversion Hs; subst; discriminate|].
    destruct (_ =? AUTH_DIFFIE_HELLMAN); inversion Hs; subst; discriminate.
  - destruct (unpackZ _ b) as [[|a [|? ?]]|]; try discriminate.
    destruct (_ =? AUTH_INVALID); [inversion Hs; subst; discriminate|].
    destruct (_ =? AUTH_NONE).
    { destruct (CI [] _ eq_refl ltac:(destruct (client_init s) as [? [?|] ?|?]; cbn; rewrite ?app_nil_l; exact Hs)) as [-> H].
      split; [reflexivity|]. split; [exact H|]. right; left; reflexivity. }
    destruct (_ =? AUTH_VNC_AUTHENTICATION); inversion Hs; subst; discriminate.
  - destruct (unpackZ _ b) as [[|n [|? ?]]|]; try discriminate. destruct (n =? 0); inversion Hs; subst; discriminate.
  - apply request_password_target in Hs. subst q. discriminate.
  - destruct (unpackZ _ b) as [[|g [|k [|? ?]]]|]; inversion Hs; subst; discriminate.
  - inversion Hs; subst; discriminate.
  - destruct (username s) as [u|] eqn:Eu; destruct (password s) as [pw|] eqn:Epw;
      cbn [username password set] in Hs; rewrite ?Eu, ?Epw in Hs; cbn [username password set] in Hs;
      try rewrite Eu in Hs; try rewrite Epw in Hs;
      match type of Hs with context [ard_parts ?a ?b0 ?c ?d ?e ?f ?g] => destruct (ard_parts a b0 c d e f g) as [[[? ?] ?]|] end;
      try discriminate; inversion Hs; subst; discriminate.
  - destruct (unpackZ _ b) as [[|r [|? ?]]|]; try discriminate.
    destruct (_ =? 0).
    { destruct (CI [] _ eq_refl ltac:(destruct (client_init s) as [? [?|] ?|?]; cbn; rewrite ?app_nil_l; exact Hs)) as [-> H].
      split; [reflexivity|]. split; [exact H|]. right; right; reflexivity. }
    destruct (_ =? 1); [destruct (lt_ver _ _); inversion Hs; subst; discriminate|].
    destruct (_ =? 2); [destruct (lt_ver _ _); inversion Hs; subst; discriminate|inversion Hs].
  - destruct (unpackZ _ b) as [[|n [|? ?]]|]; try discriminate. destruct (n =? 0); inversion Hs; subst; discriminate.
Qed.

(** *** failure is reported *)
Theorem failure_reported : forall s reason,
  (lt_ver (ver s) (3, 8) = true ->
     step s PAuthResult [0; 0; 0; 1] = Ok s None [EAuthFailed AUTH_FAILED_MSG; ELose] /\
     step s PAuthResult [0; 0; 0; 2] = Ok s None [EAuthFailed TOO_MANY_MSG; ELose]) /\
  (lt_ver (ver s) (3, 8) = false ->
     step s PAuthResult [0; 0; 0; 1] = Ok s (Some PAuthFailed) [] /\
     step s PAuthResult [0; 0; 0; 2] = Ok s (Some PAuthFailed) []) /\
  step s PAuthFailed [0; 0; 0; 0] = Ok s None [EAuthFailed []; ELose] /\
  step s (PAuthFailedMsg (len reason)) reason = Ok s None [EAuthFailed reason; ELose] /\
  step s PConnFailed [0; 0; 0; 0] = Ok s None [ELose] /\
  step s (PConnMsg (len reason)) reason = Ok s None [ELose].
Proof.
  intros s reason. repeat split; try reflexivity.
  - cbn. rewrite H. reflexivity.
  - cbn. rewrite H. reflexivity.
  - cbn. rewrite H. reflexivity.
  - cbn. rewrite H. reflexivity.
Qed.

Definition set_challenge (s : st) (c : bytes) : st := set challenge (fun _ => c) s.

Theorem no_password : forall s chal,
  password s = None ->
  step s PVNCAuth chal =
    (let s' := set_challenge s chal in
     if c_variant (cf s) =? 0 then Ok s' (Some PAuthResult) [ELose]
     else if (c_variant (cf s) =? 1) || (c_variant (cf s) =? 3) then Ok s' (Some PAuthResult) [ELose; EErrback]
     else request_password s').
Proof.
  intros s chal H. cbn [step]. unfold set_challenge. cbv zeta.
  unfold request_password at 1.
  change (password (set challenge (fun _ => chal) s)) with (password s). rewrite H.
  change (cf (set challenge (fun _ => chal) s)) with (cf s).
  destruct (c_variant (cf s) =? 0) eqn:E0; [reflexivity|].
  destruct (_ || _) eqn:E1; [reflexivity|].
  unfold request_password.
  change (password (set challenge (fun _ => chal) s)) with (password s). rewrite H.
  change (cf (set challenge (fun _ => chal) s)) with (cf s). rewrite E0, E1. reflexivity.
Qed.
