(** The message-phase part of the expect() call graph read from rfb.py (everything after the server's name: the message
    loop, rectangles, every decoder) is the one Model/Rfb.v implements (as sets of edges). *)
From Coq Require Import List String Bool.
From VD Require Import Gen.Formats Proofs.RfbTie.
Import ListNotations.

Example message_graph_is_the_models :
  edges_incl (message_part EXPECT_GRAPH) (message_part model_expect_graph) = true /\
  edges_incl (message_part model_expect_graph) (message_part EXPECT_GRAPH) = true.
Proof. split; vm_compute; reflexivity. Qed.
