(** Tie of Model/Recorder.v's [handle] to the source text of loggingproxy.RFBServer: the dispatch that
    gen/dispatch.py reads from _handle_protocol (which callback gets which unpacked field in which position, which handler
    comes next and how many bytes it waits for), the fixed steps of the handshake handlers and the field order of the QEMU
    extended key event are what the model does - established by RUNNING the model on a canonical message for every row
    (distinct values in every field, trailing bytes behind the message) and comparing with what the row says. *)
From Coq Require Import ZArith List String Bool.
From VD Require Import Base.Bytes Base.Text Base.PixFmt Gen.Tables Gen.RecorderDispatch Model.ClientMsgs Model.Recorder.
Import ListNotations.
Open Scope Z_scope.

Definition msg_type (name : string) : Z :=
  if string_dec name "SET_PIXEL_FORMAT" then C2S_SET_PIXEL_FORMAT
  else if string_dec name "SET_ENCODING" then C2S_SET_ENCODING
  else if string_dec name "FRAMEBUFFER_UPDATE_REQUEST" then C2S_FRAMEBUFFER_UPDATE_REQUEST
  else if string_dec name "KEY_EVENT" then C2S_KEY_EVENT
  else if string_dec name "POINTER_EVENT" then C2S_POINTER_EVENT
  else if string_dec name "CLIENT_CUT_TEXT" then C2S_CLIENT_CUT_TEXT
  else if string_dec name "QEMU_CLIENT_MESSAGE" then C2S_QEMU_CLIENT_MESSAGE
  else -1.

Definition handler_of (name : string) (arg : Z) : rhandler :=
  if string_dec name "setEncodingsList" then HEncList arg
  else if string_dec name "clientCutText" then HCutText arg
  else if string_dec name "qemuExtendedKeyEvent" then HQemu
  else if string_dec name "clientInit" then HClientInit
  else if string_dec name "VNCAuthResponse" then HAuthResp
  else HProtocol.

Definition row (name : string) : dispatch :=
  match find (fun r => if string_dec (fst (fst r)) name then true else false) PROTOCOL_DISPATCH with
  | Some r => snd r
  | None => DRaise
  end.

Definition st (buf : bytes) (h : rhandler) : rstate := mk_rstate buf h 1 false (Some (1, 1)) 1000.
Definition now : Z := 23456.
Definition tail : bytes := [9; 8; 7].

(* what a row says happens to a message whose unpacked fields are [fields] (and whose decoded pixel format is [pf]) *)
Definition says (d : dispatch) (fields : list Z) (pf : option pixfmt) : hres :=
  let s1 := with_buf (st tail HProtocol) tail HProtocol 1 in
  let f (i : nat) := nth i fields 0 in
  match d with
  | DCall cb args =>
      if string_dec cb "handle_keyEvent" then
        match args with
        | [k; dn] => match record_key s1 now (f k) (f dn) with Some (line, s2) => HOk [RRecord line] s2 | None => HRaise end
        | _ => HRaise
        end
      else if string_dec cb "handle_pointerEvent" then
        match args with
        | [x; y; m] => let '(line, s2) := record_pointer s1 now (f x) (f y) (f m) in HOk [RRecord line] s2
        | _ => HRaise
        end
      else if string_dec cb "handle_framebufferUpdate" then
        match args with
        | [x; y; w_; h_; inc] => HOk [RFbUpdate (f x) (f y) (f w_) (f h_) (f inc)] s1
        | _ => HRaise
        end
      else if string_dec cb "handle_setPixelFormat" then
        match pf with Some p => HOk [RSetPixelFormat p] s1 | None => HRaise end
      else HRaise
  | DNext h mult (Some i) => HOk [] (with_buf (st tail HProtocol) tail (handler_of h (f i)) (mult * f i))
  | DNext h mult None => HOk [] (with_buf (st tail HProtocol) tail (handler_of h 0) mult)
  | DSubtype i h need =>
      if f i =? QEMU_EXTENDED_KEY_EVENT then HOk [] (with_buf (st tail HProtocol) tail (handler_of h 0) need) else HRaise
  | DRaise => HRaise
  end.

Definition run (name : string) (payload : bytes) : hres := handle (st (msg_type name :: payload ++ tail) HProtocol) now.

Definition pf_bytes : bytes := [32; 24; 0; 1; 0; 255; 0; 255; 0; 255; 16; 8; 0; 0; 0; 0].

Example protocol_dispatch_is_the_models :
  run "KEY_EVENT" [1; 0; 0; 0; 0; 0; 97] = says (row "KEY_EVENT") [1; 97] None /\
  run "KEY_EVENT" [0; 0; 0; 0; 0; 255; 13] = says (row "KEY_EVENT") [0; 65293] None /\
  run "POINTER_EVENT" [5; 1; 2; 3; 4] = says (row "POINTER_EVENT") [5; 258; 772] None /\
  run "POINTER_EVENT" [0; 0; 1; 0; 1] = says (row "POINTER_EVENT") [0; 1; 1] None /\
  run "FRAMEBUFFER_UPDATE_REQUEST" [1; 0; 7; 0; 9; 1; 0; 2; 0] = says (row "FRAMEBUFFER_UPDATE_REQUEST") [1; 7; 9; 256; 512] None /\
  run "SET_ENCODING" [0; 0; 3] = says (row "SET_ENCODING") [3] None /\
  run "CLIENT_CUT_TEXT" [0; 0; 0; 0; 0; 1; 4] = says (row "CLIENT_CUT_TEXT") [260] None /\
  run "QEMU_CLIENT_MESSAGE" [0] = says (row "QEMU_CLIENT_MESSAGE") [0] None /\
  run "QEMU_CLIENT_MESSAGE" [1] = says (row "QEMU_CLIENT_MESSAGE") [1] None /\
  run "SET_PIXEL_FORMAT" (app [0; 0; 0] pf_bytes) = says (row "SET_PIXEL_FORMAT") [] (pf_from_bytes pf_bytes) /\
  pf_from_bytes pf_bytes <> None /\
  List.length PROTOCOL_DISPATCH = 7%nat /\
  forallb (fun r => negb (msg_type (fst (fst r)) =? -1)) PROTOCOL_DISPATCH = true.
Proof. repeat split; try (vm_compute; reflexivity). vm_compute. discriminate. Qed.

(* the handshake handlers that consume a fixed prefix *)
Fixpoint zl_eqb (a b : list Z) : bool :=
  match a, b with [], [] => true | x :: a', y :: b' => (x =? y) && zl_eqb a' b' | _, _ => false end.
Fixpoint upto (n : nat) : list Z := match n with O => [] | S k => app (upto k) [Z.of_nat k] end.

Definition step_ok (r : string * Z * string * Z) : bool :=
  let '(h, n, nxt, need) := r in
  let buf := map (fun k => (k + 3) mod 7) (upto 20) in
  match handle (st buf (handler_of h 0)) now with
  | HOk _ s' => (zl_eqb (r_buf s') (skipn (Z.to_nat n) buf)) && (r_need s' =? need)
                && match r_handler s', handler_of nxt 0 with
                   | HClientInit, HClientInit | HProtocol, HProtocol | HAuthResp, HAuthResp => true
                   | _, _ => false
                   end
  | HRaise => false
  end.

Example handler_steps_are_the_models : forallb step_ok HANDLER_STEPS = true /\ List.length HANDLER_STEPS = 2%nat.
Proof. split; vm_compute; reflexivity. Qed.

(* the extended key event: ten bytes (down_flag u16, keysym u32, keycode u32), recorded as a key event of that keysym *)
Example qemu_key_is_the_models :
  let '(fields, kpos, dpos, nxt, need) := QEMU_KEY in
  let vals := [1; 97; 30] in
  handle (st (app [0; 1; 0; 0; 0; 97; 0; 0; 0; 30] tail) HQemu) now =
  match record_key (with_buf (st tail HProtocol) tail (handler_of nxt 0) need) now (nth kpos vals 0) (nth dpos vals 0) with
  | Some (line, s2) => HOk [RRecord line] s2
  | None => HRaise
  end.
Proof. vm_compute. reflexivity. Qed.
