(** The key schedule of VNC authentication as regenerated from rfb._vnc_des ([Gen/ExprsAuth.v]) is the model's. *)
From Coq Require Import ZArith QArith List Bool Lia.
From VD Require Import Base.Bytes Gen.ExprsAuth Model.Auth.
Import ListNotations.
Open Scope Z_scope.

(** ** the VNC-authentication key *)
Lemma key_byte_tie k : gen_key_byte k = rev8_code k.
Proof.
  unfold gen_key_byte, rev8_code. f_equal. apply map_ext. intro i.
  destruct (Z.land k (Z.shiftl 1 i) =? 0); reflexivity.
Qed.

Lemma pad_trunc_spec : forall n l, pad_trunc n l = firstn n l ++ repeat 0 (n - List.length (firstn n l)).
Proof.
  induction n as [|n IH]; intros l; [reflexivity|]. destruct l as [|c r]; cbn [pad_trunc firstn List.length app].
  - rewrite IH. destruct n; reflexivity.
  - rewrite IH. reflexivity.
Qed.

Theorem vnc_key_is_source pw :
  vnc_key pw =
  let p := firstn gen_key_precision pw in
  let p8 := p ++ repeat gen_key_fill (gen_key_width - List.length p) in
  if forallb (fun c => (0 <=? c) && (c <? 128)) p8 then Some (map gen_key_byte p8) else None.
Proof.
  unfold vnc_key. cbv zeta. rewrite pad_trunc_spec.
  change gen_key_precision with 8%nat. change gen_key_width with 8%nat. change gen_key_fill with 0.
  destruct (forallb _ _); [|reflexivity]. f_equal. apply map_ext. intro k. symmetry. apply key_byte_tie.
Qed.
