(** The handshake part of the expect() call graph read from rfb.py is the one Model/Rfb.v implements (as sets of edges). *)
From Coq Require Import List String Bool.
From VD Require Import Gen.Formats Proofs.RfbTie.
Import ListNotations.

Example handshake_graph_is_the_models :
  edges_incl (handshake_part EXPECT_GRAPH) (handshake_part model_expect_graph) = true /\
  edges_incl (handshake_part model_expect_graph) (handshake_part EXPECT_GRAPH) = true.
Proof. split; vm_compute; reflexivity. Qed.
