(** ZRLE (RFC 6143 §7.7.6) round trip in continuation form (C02), for the 32-bit true-colour formats
    (3-byte CPIXELs): the inflated tile stream - raw, solid, packed-palette, plain-RLE and palette-RLE
    tiles - gives exactly one update (or fill) per 64x64 tile with exactly the tile's pixels.  zlib is an
    oracle: the theorem is about the stream the inflater hands over ([ztape]).
    Packed-palette tiles are covered when their rows need no padding (width * bits a multiple of 8, or a
    single row): with padding the code reads the tile as ONE bit string - the recorded finding
    zrle-packed-rows. *)
From Coq Require Import ZArith List Bool Lia.
From RecordUpdate Require Import RecordSet.
Import RecordSetNotations.
From VD Require Import Base.Bytes Base.BytesP Base.Struct Gen.Tables Gen.Formats.
From VD Require Import Model.Engine Model.ClientMsgs Model.Auth Model.Rfb Spec.C2S Proofs.C2SP Proofs.DecodeP Proofs.RreP.
Import ListNotations.
Open Scope Z_scope.

(** *** pixels *)

Definition cpx := (Z * Z * Z)%type.
Definition cpx_bytes (c : cpx) : bytes := let '(r, g, b) := c in [r; g; b].
Definition px4 (c : cpx) : bytes := let '(r, g, b) := c in [r; g; b; 255].

Lemma cpixel_enc c rest : cpixel (cpx_bytes c ++ rest) = Some (px4 c, rest).
Proof. destruct c as [[r g] b]. reflexivity. Qed.

Lemma cpixels_enc : forall pal rest, cpixels (List.length pal) (concat (map cpx_bytes pal) ++ rest) = Some (map px4 pal, rest).
Proof.
  induction pal as [|c pal IH]; intros rest; [reflexivity|].
  cbn [List.length map concat cpixels]. rewrite <- app_assoc, cpixel_enc, IH. reflexivity.
Qed.

Lemma raw_cpixels_enc : forall px rest acc,
  raw_cpixels (List.length px) (concat (map cpx_bytes px) ++ rest) acc = Some (acc ++ concat (map px4 px), rest).
Proof.
  induction px as [|c px IH]; intros rest acc; cbn [List.length map concat raw_cpixels]; [rewrite app_nil_r; reflexivity|].
  rewrite <- app_assoc, cpixel_enc, IH, <- app_assoc. reflexivity.
Qed.

(** *** run lengths: (k, r) stands for 255*k + r + 1, written as k bytes 255 and the byte r < 255 *)

Definition run_len (k : nat) (r : Z) : Z := 255 * Z.of_nat k + r + 1.
Definition run_bytes (k : nat) (r : Z) : bytes := repeat 255 k ++ [r].

Lemma rle_len_enc : forall k r rest acc, 0 <= r < 255 ->
  rle_len (run_bytes k r ++ rest) acc = Some (acc + run_len k r, rest).
Proof.
  induction k as [|k IH]; intros r rest acc Hr; unfold run_bytes, run_len; cbn [repeat app rle_len].
  - destruct (Z.eqb_spec r 255); [lia|]. f_equal. f_equal. lia.
  - change (255 =? 255) with true. cbv iota. fold (run_bytes k r). rewrite (IH r rest (acc + 255) Hr).
    unfold run_len. f_equal. f_equal. lia.
Qed.

Lemma rep_bytes_len n c : len (rep_bytes n c) = Z.of_nat n * len c.
Proof. induction n as [|n IH]; cbn [rep_bytes]; [reflexivity|]. rewrite len_app, IH. lia. Qed.

(** plain RLE: (pixel, k, r) per run *)
Definition prun := (cpx * nat * Z)%type.
Definition prun_bytes (q : prun) : bytes := let '(c, k, r) := q in cpx_bytes c ++ run_bytes k r.
Definition prun_px (q : prun) : bytes := let '(c, k, r) := q in rep_bytes (Z.to_nat (run_len k r)) (px4 c).
Definition prun_n (q : prun) : Z := let '(_, k, r) := q in run_len k r.
Definition prun_ok (q : prun) : Prop := let '(_, _, r) := q in 0 <= r < 255.

Fixpoint total {A} (f : A -> Z) (l : list A) : Z := match l with [] => 0 | a :: r => f a + total f r end.

Lemma prun_n_pos q : prun_ok q -> 1 <= prun_n q.
Proof. destruct q as [[c k] r]. cbn. unfold run_len. lia. Qed.

Lemma rle_plain_enc : forall runs fuel rest num pixels acc,
  Forall prun_ok runs -> (List.length runs <= fuel)%nat -> num + total prun_n runs = pixels ->
  rle_plain fuel (concat (map prun_bytes runs) ++ rest) num pixels acc =
  Some (acc ++ concat (map prun_px runs), rest).
Proof.
  induction runs as [|q runs IH]; intros fuel rest num pixels acc Hok Hf Ht.
  - cbn [total] in Ht. assert (num = pixels) by lia. subst num.
    destruct fuel; cbn [rle_plain map concat app]; rewrite Z.geb_leb, Z.leb_refl, Z.eqb_refl, app_nil_r; reflexivity.
  - pose proof (Forall_inv Hok) as Hq. pose proof (Forall_inv_tail Hok) as Hr. cbn [total] in Ht.
    pose proof (prun_n_pos q Hq) as Hp.
    assert (Hrest : 0 <= total prun_n runs).
    { clear -Hr. induction runs as [|a l IHl]; cbn [total]; [lia|]. pose proof (prun_n_pos a (Forall_inv Hr)). specialize (IHl (Forall_inv_tail Hr)). lia. }
    destruct fuel as [|fuel]; [cbn [List.length] in Hf; lia|].
    cbn [rle_plain]. replace (num >=? pixels) with false by (symmetry; rewrite Z.geb_leb; apply Z.leb_gt; lia).
    destruct q as [[c k] r]. cbn [map concat prun_bytes]. rewrite <- !app_assoc. rewrite cpixel_enc.
    cbn [prun_ok] in Hq. rewrite (rle_len_enc k r _ 0 Hq). cbn [Z.add].
    rewrite (IH fuel rest (num + run_len k r) pixels _ Hr) by (cbn [List.length prun_n] in *; lia).
    cbn [prun_px]. rewrite <- app_assoc. reflexivity.
Qed.

(** palette RLE: a single pixel is its palette index; a run is index + 128 followed by the run length *)
Inductive pitem := PSingle (i : Z) | PRun (i : Z) (k : nat) (r : Z).

Definition pitem_bytes (q : pitem) : bytes :=
  match q with PSingle i => [i] | PRun i k r => [i + 128] ++ run_bytes k r end.
Definition pitem_n (q : pitem) : Z := match q with PSingle _ => 1 | PRun _ k r => run_len k r end.
Definition pitem_idx (q : pitem) : Z := match q with PSingle i | PRun i _ _ => i end.
Definition pitem_ok (npal : Z) (q : pitem) : Prop :=
  match q with PSingle i => 0 <= i < npal | PRun i _ r => 0 <= i < npal /\ 0 <= r < 255 end.
Definition pitem_px (pal : list cpx) (q : pitem) : bytes :=
  match nth_error pal (Z.to_nat (pitem_idx q)) with
  | Some c => rep_bytes (Z.to_nat (pitem_n q)) (px4 c)
  | None => []
  end.

Definition chk7 (i : Z) : bool := (Z.land i 128 =? 0) && (Z.land (i + 128) 128 =? 128) && (Z.land (i + 128) 127 =? i).

Lemma bit7 i : 0 <= i < 128 -> Z.land i 128 = 0 /\ Z.land (i + 128) 128 = 128 /\ Z.land (i + 128) 127 = i.
Proof.
  intros H. assert (A : forallb chk7 (map Z.of_nat (seq 0 128)) = true) by (vm_compute; reflexivity).
  rewrite forallb_forall in A. specialize (A i).
  assert (I : In i (map Z.of_nat (seq 0 128))).
  { rewrite <- (Z2Nat.id i) by lia. apply in_map. apply in_seq. lia. }
  specialize (A I). unfold chk7 in A. apply andb_true_iff in A as [A A3]. apply andb_true_iff in A as [A1 A2].
  apply Z.eqb_eq in A1, A2, A3. auto.
Qed.

Lemma pitem_n_pos npal q : pitem_ok npal q -> 1 <= pitem_n q.
Proof. destruct q as [i|i k r]; cbn; [lia|]. unfold run_len. lia. Qed.

Lemma nth_error_map_px4 pal i : nth_error (map px4 pal) i = option_map px4 (nth_error pal i).
Proof. apply nth_error_map. Qed.

Lemma rle_palette_enc pal : len pal <= 127 -> forall items fuel rest num pixels acc,
  Forall (pitem_ok (len pal)) items -> (List.length items <= fuel)%nat -> num + total pitem_n items = pixels ->
  rle_palette fuel (map px4 pal) (concat (map pitem_bytes items) ++ rest) num pixels acc =
  Some (acc ++ concat (map (pitem_px pal) items), rest).
Proof.
  intros Hpal. induction items as [|q items IH]; intros fuel rest num pixels acc Hok Hf Ht.
  - cbn [total] in Ht. assert (num = pixels) by lia. subst num.
    destruct fuel; cbn [rle_palette map concat app]; rewrite Z.geb_leb, Z.leb_refl, Z.eqb_refl, app_nil_r; reflexivity.
  - pose proof (Forall_inv Hok) as Hq. pose proof (Forall_inv_tail Hok) as Hr. cbn [total] in Ht.
    pose proof (pitem_n_pos _ q Hq) as Hp.
    assert (Hrest : 0 <= total pitem_n items).
    { clear -Hr. induction items as [|a l IHl]; cbn [total]; [lia|]. pose proof (pitem_n_pos _ a (Forall_inv Hr)). specialize (IHl (Forall_inv_tail Hr)). lia. }
    destruct fuel as [|fuel]; [cbn [List.length] in Hf; lia|].
    cbn [rle_palette]. replace (num >=? pixels) with false by (symmetry; rewrite Z.geb_leb; apply Z.leb_gt; lia).
    destruct q as [i|i k r]; cbn [map concat pitem_bytes pitem_ok pitem_n] in *.
    + assert (Hi : 0 <= i < 128) by lia. destruct (bit7 i Hi) as (B1 & _ & _).
      cbn [app]. rewrite B1. change (0 =? 0) with true. cbn [negb].
      assert (exists c, nth_error pal (Z.to_nat i) = Some c) as [c Ec].
      { destruct (nth_error pal (Z.to_nat i)) eqn:E; [eauto|]. apply nth_error_None in E. unfold len in Hq. lia. }
      rewrite nth_error_map_px4, Ec. cbn [option_map].
      rewrite (IH fuel rest (num + 1) pixels _ Hr) by (cbn [List.length] in *; lia).
      unfold pitem_px at 2. cbn [pitem_idx pitem_n]. rewrite Ec. change (Z.to_nat 1) with 1%nat. cbn [rep_bytes].
      rewrite app_nil_r, <- app_assoc. reflexivity.
    + destruct Hq as [Hi0 Hr0]. assert (Hi : 0 <= i < 128) by lia. destruct (bit7 i Hi) as (_ & B2 & B3).
      rewrite <- !app_assoc. cbn [app]. rewrite B2. change (128 =? 0) with false. cbn [negb]. rewrite B3.
      assert (exists c, nth_error pal (Z.to_nat i) = Some c) as [c Ec].
      { destruct (nth_error pal (Z.to_nat i)) eqn:E; [eauto|]. apply nth_error_None in E. unfold len in Hi0. lia. }
      rewrite nth_error_map_px4, Ec. cbn [option_map]. rewrite (rle_len_enc k r _ 0 Hr0). cbn [Z.add].
      rewrite (IH fuel rest (num + run_len k r) pixels _ Hr) by (cbn [List.length] in *; lia).
      unfold pitem_px at 2. cbn [pitem_idx pitem_n]. rewrite Ec. rewrite <- app_assoc. reflexivity.
Qed.

(** *** packed palettes (subencodings 2..16) *)

(* RFC 6143: indices are packed most significant first, 8 / bits per byte *)
Definition rfc_indices (bits : Z) (b : Z) : list Z :=
  if bits =? 1 then map (fun k => (b / 2 ^ (7 - k)) mod 2) [0; 1; 2; 3; 4; 5; 6; 7]
  else if bits =? 2 then map (fun k => (b / 4 ^ (3 - k)) mod 4) [0; 1; 2; 3]
  else [b / 16; b mod 16].

Fixpoint zlist_eqb (a b : list Z) : bool :=
  match a, b with
  | [], [] => true
  | x :: a', y :: b' => (x =? y) && zlist_eqb a' b'
  | _, _ => false
  end.

Lemma zlist_eqb_eq : forall a b, zlist_eqb a b = true -> a = b.
Proof.
  induction a as [|x a IH]; intros [|y b] H; cbn [zlist_eqb] in H; try discriminate; [reflexivity|].
  apply andb_true_iff in H as [H1 H2]. apply Z.eqb_eq in H1. subst. f_equal. apply IH. exact H2.
Qed.

Definition chk_idx (b : Z) : bool := forallb (fun bits => zlist_eqb (byte_indices bits b) (rfc_indices bits b)) [1; 2; 4].

(** the code's shift-and-mask reading of a byte is the RFC's, for every byte *)
Lemma byte_indices_rfc bits b : In bits [1; 2; 4] -> 0 <= b < 256 -> byte_indices bits b = rfc_indices bits b.
Proof.
  intros Hbits Hb. assert (A : forallb chk_idx (map Z.of_nat (seq 0 256)) = true) by (vm_compute; reflexivity).
  rewrite forallb_forall in A. specialize (A b).
  assert (I : In b (map Z.of_nat (seq 0 256))).
  { rewrite <- (Z2Nat.id b) by lia. apply in_map. apply in_seq. lia. }
  specialize (A I). unfold chk_idx in A. rewrite forallb_forall in A. apply zlist_eqb_eq. apply A. exact Hbits.
Qed.

Definition colours (pal : list cpx) (idxs : list Z) : bytes :=
  concat (map (fun i => match nth_error pal (Z.to_nat i) with Some c => px4 c | None => [] end) idxs).

Lemma use_indices_spec pal : forall idxs left acc,
  1 <= left -> Forall (fun i => 0 <= i < len pal) idxs ->
  use_indices (map px4 pal) idxs left acc =
  if left <=? len idxs then Some (acc ++ colours pal (firstn (Z.to_nat left) idxs), 0)
  else Some (acc ++ colours pal idxs, left - len idxs).
Proof.
  induction idxs as [|i idxs IH]; intros left acc Hl Hok.
  - cbn [use_indices]. rewrite len_nil. replace (left <=? 0) with false by (symmetry; apply Z.leb_gt; lia).
    unfold colours. cbn [map concat]. rewrite app_nil_r, Z.sub_0_r. reflexivity.
  - pose proof (Forall_inv Hok) as Hi. pose proof (Forall_inv_tail Hok) as Hr. cbn [use_indices].
    assert (exists c, nth_error pal (Z.to_nat i) = Some c) as [c Ec].
    { destruct (nth_error pal (Z.to_nat i)) eqn:E; [eauto|]. apply nth_error_None in E. unfold len in Hi. lia. }
    rewrite nth_error_map_px4, Ec. cbn [option_map]. rewrite len_cons. pose proof (len_nonneg idxs) as Hn.
    destruct (Z.eqb_spec (left - 1) 0) as [E0|E0].
    + assert (left = 1) by lia. subst left. replace (1 <=? 1 + len idxs) with true by (symmetry; apply Z.leb_le; lia).
      change (Z.to_nat 1) with 1%nat. cbn [firstn]. unfold colours. cbn [map concat]. rewrite Ec, app_nil_r. reflexivity.
    + rewrite (IH (left - 1) (acc ++ px4 c) ltac:(lia) Hr).
      destruct (Z.leb_spec (left - 1) (len idxs)) as [L|L].
      * replace (left <=? 1 + len idxs) with true by (symmetry; apply Z.leb_le; lia).
        replace (Z.to_nat left) with (S (Z.to_nat (left - 1))) by lia. cbn [firstn]. unfold colours. cbn [map concat].
        rewrite Ec, <- app_assoc. reflexivity.
      * replace (left <=? 1 + len idxs) with false by (symmetry; apply Z.leb_gt; lia).
        unfold colours. cbn [map concat]. rewrite Ec, <- app_assoc. f_equal. f_equal. lia.
Qed.

(* the indices of the whole packed byte string, read flat *)
Definition flat_indices (bits : Z) (bs : bytes) : list Z := flat_map (byte_indices bits) bs.

Lemma byte_indices_len bits b : In bits [1; 2; 4] -> len (byte_indices bits b) = 8 / bits.
Proof. intros [<-|[<-|[<-|[]]]]; reflexivity. Qed.

Lemma packed_spec pal bits : In bits [1; 2; 4] -> forall bs rest left acc,
  1 <= left -> (len bs - 1) * (8 / bits) < left <= len bs * (8 / bits) ->
  Forall (fun i => 0 <= i < len pal) (flat_indices bits bs) ->
  packed (map px4 pal) bits (bs ++ rest) left acc =
  Some (acc ++ colours pal (firstn (Z.to_nat left) (flat_indices bits bs)), rest).
Proof.
  intros Hbits. set (g := 8 / bits). assert (Hg : 1 <= g) by (destruct Hbits as [<-|[<-|[<-|[]]]]; unfold g; cbv; discriminate).
  induction bs as [|b bs IH]; intros rest left acc Hl Hrange Hok.
  - rewrite len_nil in Hrange. lia.
  - cbn [app packed]. unfold flat_indices in *. cbn [flat_map] in *. apply Forall_app in Hok as [Hb Hrest].
    rewrite (use_indices_spec pal _ left acc Hl Hb). rewrite (byte_indices_len bits b Hbits). fold g.
    rewrite len_cons in Hrange. pose proof (len_nonneg bs) as Hn.
    destruct (Z.leb_spec left g) as [L|L].
    + (* the tile ends inside this byte: it is the last one *)
      assert (bs = []) by (destruct bs; [reflexivity|rewrite len_cons in Hrange; pose proof (len_nonneg bs); nia]). subst bs.
      change (0 =? 0) with true. cbv iota. cbn [flat_map app]. rewrite app_nil_r.
      reflexivity.
    + replace (left - g =? 0) with false by (symmetry; apply Z.eqb_neq; lia).
      rewrite (IH rest (left - g) _ ltac:(lia) ltac:(nia) Hrest). rewrite <- app_assoc.
      pose proof (byte_indices_len bits b Hbits) as E. unfold len in E. fold g in E.
      rewrite firstn_app. rewrite (firstn_all2 (n := Z.to_nat left) (byte_indices bits b)) by lia.
      replace (Z.to_nat left - List.length (byte_indices bits b))%nat with (Z.to_nat (left - g)) by lia.
      unfold colours. rewrite map_app, concat_app. reflexivity.
Qed.

(** *** tiles *)

Inductive ztile :=
| ZRaw (px : list cpx)                          (* subencoding 0 *)
| ZSolid (c : cpx)                              (* 1 *)
| ZPlain (runs : list prun)                     (* 128 *)
| ZPal (pal : list cpx) (items : list pitem)    (* 128 + palette size (2..127) *)
| ZPacked (pal : list cpx) (bs : bytes).        (* palette size 2..16, then the packed indices *)

Definition wire_ztile (t : ztile) : bytes :=
  match t with
  | ZRaw px => [0] ++ concat (map cpx_bytes px)
  | ZSolid c => [1] ++ cpx_bytes c
  | ZPlain runs => [128] ++ concat (map prun_bytes runs)
  | ZPal pal items => [128 + len pal] ++ concat (map cpx_bytes pal) ++ concat (map pitem_bytes items)
  | ZPacked pal bs => [len pal] ++ concat (map cpx_bytes pal) ++ bs
  end.

Definition pal_bits (n : Z) : Z := if n =? 2 then 1 else if n <=? 4 then 2 else 4.

Definition ztile_data (pixels : Z) (t : ztile) : bytes :=
  match t with
  | ZRaw px => concat (map px4 px)
  | ZSolid c => px4 c
  | ZPlain runs => concat (map prun_px runs)
  | ZPal pal items => concat (map (pitem_px pal) items)
  | ZPacked pal bs => colours pal (firstn (Z.to_nat pixels) (flat_map (rfc_indices (pal_bits (len pal))) bs))
  end.

Section ZWalk.
  Variable s : st.
  Variables x y w h : Z.

  Definition ztw (tx : Z) : Z := if x + w - tx <? 64 then x + w - tx else 64.
  Definition zth (ty : Z) : Z := if y + h - ty <? 64 then y + h - ty else 64.
  Definition znext (tx ty : Z) : Z * Z := if tx + 64 >=? x + w then (x, ty + 64) else (tx + 64, ty).

  Definition ztile_ok (tx ty : Z) (t : ztile) : Prop :=
    let pixels := ztw tx * zth ty in
    match t with
    | ZRaw px => len px = pixels /\ 0 <= pixels /\ upd_raises s (ztw tx) (zth ty) (len (ztile_data pixels t)) = false
    | ZSolid c => fill_ok s (tx, ty, ztw tx, zth ty, px4 c)
    | ZPlain runs => Forall prun_ok runs /\ total prun_n runs = pixels /\ upd_raises s (ztw tx) (zth ty) (len (ztile_data pixels t)) = false
    | ZPal pal items => 2 <= len pal <= 127 /\ Forall (pitem_ok (len pal)) items /\ total pitem_n items = pixels /\
                        upd_raises s (ztw tx) (zth ty) (len (ztile_data pixels t)) = false
    | ZPacked pal bs =>
        let bits := pal_bits (len pal) in
        2 <= len pal <= 16 /\ bytes_ok bs = true /\ 1 <= pixels /\
        ((ztw tx * bits) mod 8 = 0 \/ zth ty = 1) /\       (* rows need no padding: flat reading = RFC's row-wise reading *)
        (len bs - 1) * (8 / bits) < pixels <= len bs * (8 / bits) /\
        Forall (fun i => 0 <= i < len pal) (flat_map (rfc_indices bits) bs) /\
        upd_raises s (ztw tx) (zth ty) (len (ztile_data pixels t)) = false
    end.

  Definition ztile_event (tx ty : Z) (t : ztile) : ev :=
    match t with
    | ZSolid c => EFill tx ty (ztw tx) (zth ty) (px4 c)
    | _ => EUpd tx ty (ztw tx) (zth ty) (ztile_data (ztw tx * zth ty) t)
    end.

  Fixpoint ztiles_ok (ts : list ztile) (tx ty : Z) : Prop :=
    match ts with [] => True | t :: r => ztile_ok tx ty t /\ let '(a, b) := znext tx ty in ztiles_ok r a b end.

  Fixpoint zevents (ts : list ztile) (tx ty : Z) : list ev :=
    match ts with [] => [] | t :: r => ztile_event tx ty t :: let '(a, b) := znext tx ty in zevents r a b end.

  (* the tiles are exactly those of the rectangle, in row-major order *)
  Fixpoint zcovers (ts : list ztile) (tx ty : Z) : Prop :=
    match ts with
    | [] => False
    | _ :: r => let '(a, b) := znext tx ty in if b >=? y + h then r = [] else zcovers r a b
    end.

  Lemma land_sub_plain : Z.land 128 128 = 128 /\ Z.land 128 127 = 0.
  Proof. split; reflexivity. Qed.

  Theorem zrle_walk : forall ts fuel tx ty,
    (List.length ts < fuel)%nat -> ztiles_ok ts tx ty ->
    zrle_tiles fuel s (concat (map wire_ztile ts)) x y w h tx ty = prepend (zevents ts tx ty) (do_connection s).
  Proof.
    induction ts as [|t ts IH]; intros fuel tx ty Hf Hok.
    - destruct fuel; [cbn [List.length] in Hf; lia|]. cbn [map concat zrle_tiles zevents]. destruct (do_connection s); reflexivity.
    - destruct fuel as [|fuel]; [cbn [List.length] in Hf; lia|].
      cbn [ztiles_ok zevents] in *. destruct Hok as [Ht Hrest].
      assert (Hnext : forall it', (let tx1 := tx + 64 in let '(tx2, ty2) := if tx1 >=? x + w then (x, ty + 64) else (tx1, ty) in
                                  zrle_tiles fuel s it' x y w h tx2 ty2) =
                                  let '(a, b) := znext tx ty in zrle_tiles fuel s it' x y w h a b).
      { intros it'. unfold znext. cbv zeta. destruct (tx + 64 >=? x + w); reflexivity. }
      assert (IH' : zrle_tiles fuel s (concat (map wire_ztile ts)) x y w h (fst (znext tx ty)) (snd (znext tx ty)) =
                    prepend (zevents ts (fst (znext tx ty)) (snd (znext tx ty))) (do_connection s)).
      { apply IH; [cbn [List.length] in Hf; lia|]. destruct (znext tx ty); exact Hrest. }
      cbn [map concat]. destruct t as [px|c|runs|pal items|pal bs]; cbn [wire_ztile app zrle_tiles].
      + (* raw *)
        destruct Ht as (Hl & Hp & Hu).
        change (Z.land 0 128) with 0. change (Z.land 0 127) with 0. change (0 =? 0) with true. cbn [negb]. cbv iota.
        fold (ztw tx). fold (zth ty).
        replace (Z.to_nat (ztw tx * zth ty)) with (List.length px) by (rewrite <- Hl; unfold len; lia).
        rewrite (raw_cpixels_enc px _ []). cbn [app]. unfold upd. cbn [ztile_data] in Hu. rewrite Hu.
        rewrite Hnext. destruct (znext tx ty) as [a b]. cbn [fst snd] in IH'. rewrite IH'.
        cbn [ztile_event ztile_data]. destruct (do_connection s); reflexivity.
      + (* solid *)
        change (Z.land 1 128) with 0. change (Z.land 1 127) with 1. change (0 =? 0) with true. cbn [negb]. cbv iota.
        change (1 =? 0) with false. change (1 =? 1) with true. cbv iota.
        fold (ztw tx). fold (zth ty). rewrite cpixel_enc.
        cbv beta iota delta [ztile_ok fill_ok] in Ht. unfold fill.
        destruct ((0 <? ztw tx) && (0 <? zth ty) && upd_raises s (ztw tx) (zth ty) (len (px4 c) * Z.max 0 (ztw tx) * Z.max 0 (zth ty))); [discriminate|].
        rewrite Hnext. destruct (znext tx ty) as [a b]. cbn [fst snd] in IH'. rewrite IH'.
        cbn [ztile_event]. destruct (do_connection s); reflexivity.
      + (* plain RLE *)
        destruct Ht as (Hr & Htot & Hu).
        change (Z.land 128 128) with 128. change (Z.land 128 127) with 0. change (128 =? 0) with false. change (0 =? 0) with true. cbn [negb]. cbv iota.
        fold (ztw tx). fold (zth ty).
        rewrite (rle_plain_enc runs _ _ 0 (ztw tx * zth ty) [] Hr).
        * cbn [app]. unfold upd. cbn [ztile_data] in Hu. rewrite Hu.
          rewrite Hnext. destruct (znext tx ty) as [a b]. cbn [fst snd] in IH'. rewrite IH'.
          cbn [ztile_event ztile_data]. destruct (do_connection s); reflexivity.
        * rewrite app_length.
          assert (L : (List.length runs <= List.length (concat (map prun_bytes runs)))%nat).
          { clear. induction runs as [|[[c k] r] l IHl]; cbn [map concat List.length]; [lia|].
            rewrite app_length. destruct c as [[a b] d]. cbn [prun_bytes cpx_bytes app List.length]. lia. }
          lia.
        * lia.
      + (* palette RLE *)
        destruct Ht as (Hpal & Hit & Htot & Hu).
        assert (Hi : 0 <= len pal < 128) by lia. destruct (bit7 (len pal) Hi) as (_ & B2 & B3).
        replace (128 + len pal) with (len pal + 128) by lia. rewrite B2, B3.
        change (128 =? 0) with false. cbn [negb]. cbv iota.
        replace (len pal =? 0) with false by (symmetry; apply Z.eqb_neq; lia).
        fold (ztw tx). fold (zth ty).
        replace (Z.to_nat (len pal)) with (List.length pal) by (unfold len; lia).
        rewrite <- app_assoc. rewrite cpixels_enc.
        rewrite (rle_palette_enc pal ltac:(lia) items _ _ 0 (ztw tx * zth ty) [] Hit).
        * cbn [app]. unfold upd. cbn [ztile_data] in Hu. rewrite Hu.
          rewrite Hnext. destruct (znext tx ty) as [a b]. cbn [fst snd] in IH'. rewrite IH'.
          cbn [ztile_event ztile_data]. destruct (do_connection s); reflexivity.
        * rewrite app_length.
          assert (L : (List.length items <= List.length (concat (map pitem_bytes items)))%nat).
          { clear. induction items as [|q l IHl]; cbn [map concat List.length]; [lia|].
            rewrite app_length. destruct q; cbn [pitem_bytes app List.length]; lia. }
          lia.
        * lia.
      + (* packed palette *)
        destruct Ht as (Hpal & Hbs & Hpx & _ & Hrange & Hidx & Hu).
        set (bits := pal_bits (len pal)) in *.
        assert (Hbits : In bits [1; 2; 4]).
        { unfold bits, pal_bits. destruct (len pal =? 2); [left; reflexivity|]. destruct (len pal <=? 4); [right; left; reflexivity|right; right; left; reflexivity]. }
        assert (Hi : 0 <= len pal < 128) by lia. destruct (bit7 (len pal) Hi) as (B1 & _ & _).
        rewrite B1. change (0 =? 0) with true. cbn [negb]. cbv iota.
        assert (B4 : Z.land (len pal) 127 = len pal).
        { change 127 with (Z.ones 7). rewrite Z.land_ones by lia. apply Z.mod_small. change (2 ^ 7) with 128. lia. }
        rewrite B4.
        replace (len pal =? 0) with false by (symmetry; apply Z.eqb_neq; lia).
        replace (len pal =? 1) with false by (symmetry; apply Z.eqb_neq; lia).
        replace (16 <? len pal) with false by (symmetry; apply Z.ltb_ge; lia).
        fold (ztw tx). fold (zth ty).
        replace (Z.to_nat (len pal)) with (List.length pal) by (unfold len; lia).
        rewrite <- app_assoc. rewrite cpixels_enc.
        assert (Hg : 1 <= 8 / bits) by (destruct Hbits as [<-|[<-|[<-|[]]]]; cbv; discriminate).
        replace (ztw tx * zth ty <=? 0) with false by (symmetry; apply Z.leb_gt; lia).
        fold (pal_bits (len pal)). fold bits.
        assert (Hflat : flat_indices bits bs = flat_map (rfc_indices bits) bs).
        { unfold flat_indices. clear -Hbs Hbits. induction bs as [|b bs IHb]; [reflexivity|]. cbn [flat_map].
          cbn [bytes_ok forallb] in Hbs. apply andb_true_iff in Hbs as [Hb Hr].
          rewrite (byte_indices_rfc bits b Hbits), (IHb Hr); [reflexivity|].
          unfold byte_ok in Hb. apply andb_true_iff in Hb as [H0 H1]. apply Z.leb_le in H0. apply Z.ltb_lt in H1. lia. }
        rewrite (packed_spec pal bits Hbits bs _ (ztw tx * zth ty) [] Hpx Hrange) by (rewrite Hflat; exact Hidx).
        cbn [app]. unfold upd. cbn [ztile_data] in Hu. fold bits in Hu. rewrite Hflat. rewrite Hu.
        rewrite Hnext. destruct (znext tx ty) as [a b]. cbn [fst snd] in IH'. rewrite IH'.
        cbn [ztile_event ztile_data]. fold bits. destruct (do_connection s); reflexivity.
  Qed.
End ZWalk.

Lemma ztiles_len : forall ts, (List.length ts <= List.length (concat (map wire_ztile ts)))%nat.
Proof.
  induction ts as [|t ts IH]; cbn [map concat List.length]; [lia|].
  rewrite app_length. destruct t; cbn [wire_ztile app List.length]; lia.
Qed.

(** *** a ZRLE rectangle: length, compressed bytes (whatever they are), and what the inflater returns *)
Theorem zrle_roundtrip s x y w h comp ts tape' tail s2 p2 es2 es r n :
  u16ok x -> u16ok y -> u16ok w -> u16ok h -> rects s <> 0 -> len comp < 4294967296 ->
  ztape s = Some (concat (map wire_ztile ts)) :: tape' ->
  let s' := enter_rect s x y w h <| ztape := tape' |> in
  zcovers x y w h ts x y -> ztiles_ok s' x y w h ts x y ->
  do_connection s' = Ok s2 (Some p2) es2 ->
  Drain s2 p2 tail es r n ->
  Drain s PRect (rect_hdr x y w h [0; 0; 0; 16] ++ be_enc 4 (len comp) ++ comp ++ tail)
        (zevents x y w h ts x y ++ es2 ++ es) r (S (S (S n))).
Proof.
  intros Hx Hy Hw Hh Hr Hn Htape s' _ Hok Hd HD.
  destruct (rect_hdr_unpack x y w h [0; 0; 0; 16] (be_enc 4 (len comp) ++ comp ++ tail) Hx Hy Hw Hh eq_refl) as [Ht Hun].
  rewrite (app_assoc (zevents x y w h ts x y) es2 es).
  match goal with |- Drain _ _ _ ?E _ _ => change E with ([] ++ [] ++ E) end.
  eapply D_step; [exact Ht| |].
  - cbn [step]. rewrite Hun. change (to_s32 (be_dec [0; 0; 0; 16])) with 16.
    change (16 =? ENC_PSEUDO_LAST_RECT) with false. cbv iota.
    destruct (Z.eqb_spec (rects s) 0) as [E|_]; [contradiction|].
    change (16 =? ENC_COPY_RECTANGLE) with false. change (16 =? ENC_RAW) with false.
    change (16 =? ENC_HEXTILE) with false. change (16 =? ENC_CORRE) with false. change (16 =? ENC_RRE) with false.
    change (16 =? ENC_ZRLE) with true. cbv iota. fold (enter_rect s x y w h). reflexivity.
  - cbn [next_pend]. eapply D_step.
    + cbn [need]. change 4 with (len (be_enc 4 (len comp))). apply take_app_exact.
    + cbn [step]. unfold unpackZ, fmt_rfb_RFBClient_handleDecodeZRLE_0. cbn [unpack fsize].
      change 4 with (len (be_enc 4 (len comp))) at 1.
      rewrite <- (app_nil_r (be_enc 4 (len comp))) at 2. rewrite take_app_exact. cbn [unpack unpack1 map].
      rewrite be_dec_enc by (change (256 ^ Z.of_nat 4) with 4294967296; pose proof (len_nonneg comp); lia). reflexivity.
    + cbn [next_pend]. eapply D_step.
      * cbn [need]. apply take_app_exact.
      * cbn [step]. change (ztape (enter_rect s x y w h)) with (ztape s). rewrite Htape.
        fold s'. rewrite (zrle_walk s' x y w h ts _ x y).
        -- rewrite Hd. cbn [prepend]. reflexivity.
        -- pose proof (ztiles_len ts). lia.
        -- exact Hok.
      * cbn [next_pend]. exact HD.
Qed.


(** *** the general statement about packed palettes is false of the code (recorded finding zrle-packed-rows) *)

(* RFC 6143 7.7.6: "each row of the tile is padded to a multiple of 8 bits": one row of 1-bit indices -> bytes *)
Fixpoint pack_bits (row : list Z) (acc : Z) (n : nat) : bytes :=
  match row with
  | [] => if Nat.eqb n 0 then [] else [acc * 2 ^ Z.of_nat (8 - n)]
  | i :: r => if Nat.eqb n 7 then (acc * 2 + i) :: pack_bits r 0 0 else pack_bits r (acc * 2 + i) (S n)
  end.

Definition rfc_pack_rows1 (rows : list (list Z)) : bytes := concat (map (fun row => pack_bits row 0 0) rows).

(** a 3x2 tile with a two-colour palette, written as the RFC says (each row padded to a byte): the RFC
    means six pixels; the decoder reads the first byte as six pixels and the second as the next tile's
    subencoding - wrong pixels in the second row, then it raises *)
Theorem zrle_packed_padded_rows_refuted :
  let c := mk_cfg 1 1 None [] [] false false false false false 0 [] in
  let s := mk_st c None None (3, 8) (3, 8) 0 [] RGB32 Base.PixFmt.MRGBX 8 8 false 0 0 [] [] [] false in
  let rows := [[1; 0; 1]; [0; 1; 1]] in
  let data := [2] ++ [10; 20; 30] ++ [40; 50; 60] ++ rfc_pack_rows1 rows in
  let meant := colours [(10, 20, 30); (40, 50, 60)] (concat rows) in
  rfc_pack_rows1 rows = [160; 96] /\
  (exists got, zrle_tiles 10 s data 0 0 3 2 0 0 = Raise [EUpd 0 0 3 2 got] /\ got <> meant).
Proof. cbv zeta. split; [vm_compute; reflexivity|]. eexists. split; [vm_compute; reflexivity|]. vm_compute. discriminate. Qed.
