(** Framing of the client's stream (C19): the RFC parser's reading is the only one, and every
    operation boundary of a run is a message boundary of the stream. *)
From Coq Require Import ZArith List Bool Lia.
From VD Require Import Base.Bytes Base.PixFmt Model.ClientMsgs Model.Pointer Model.ClientOps Spec.C2S.
From VD Require Import Proofs.C2SP Proofs.PointerP Proofs.ClientOpsP.
Import ListNotations.
Open Scope Z_scope.

Lemma parse_fuel_complete fuel : forall b ms, parse_fuel fuel b = Some ms -> Parses b ms.
Proof.
  induction fuel as [|fuel IH]; intros b ms H.
  - destruct b; cbn [parse_fuel] in H; [|discriminate]. inversion H; constructor.
  - destruct b as [|x b]; cbn [parse_fuel] in H; [inversion H; constructor|].
    destruct (parse1 (x :: b)) as [[m rest]|] eqn:E1; [|discriminate].
    destruct (parse_fuel fuel rest) as [ms'|] eqn:E2; [|discriminate].
    inversion H; subst. econstructor; [exact E1|apply IH; exact E2].
Qed.

Theorem Parses_complete b ms : parse_c2s b = Some ms -> Parses b ms.
Proof. apply parse_fuel_complete. Qed.

Theorem Parses_unique b ms ms' : Parses b ms -> Parses b ms' -> ms = ms'.
Proof.
  intros H H'. apply Parses_sound in H. apply Parses_sound in H'. congruence.
Qed.

(** a stream that parses can only be cut, between two readable halves, at a message boundary *)
Lemma Parses_prefix a : forall ma b ms, Parses a ma -> Parses (a ++ b) ms ->
  exists mb, Parses b mb /\ ms = ma ++ mb.
Proof.
  intros ma b ms H; revert b ms.
  induction H as [|a m rest ma H1 H2 IH]; intros b ms Hab.
  - exists ms; split; [exact Hab|reflexivity].
  - inversion Hab as [E1 E2|ab m' rest' ms' P1 P2 E1 E2].
    + pose proof (parse1_shrinks _ _ _ H1) as Hs. destruct a; [cbn in Hs; lia|discriminate].
    + subst. rewrite (parse1_app _ _ _ b H1) in P1. inversion P1; subst.
      destruct (IH _ _ P2) as (mb & Pb & E). exists mb; split; [exact Pb|]. rewrite E; reflexivity.
Qed.

Lemma run_ops_app o1 : forall s o2,
  run_ops s (o1 ++ o2) =
    let '(s1, w1) := run_ops s o1 in let '(s2, w2) := run_ops s1 o2 in (s2, w1 ++ w2).
Proof.
  induction o1 as [|o r IH]; intros s o2; cbn [app run_ops].
  - destruct (run_ops s o2); reflexivity.
  - destruct (run_op s o) as [s1 w]. rewrite IH.
    destruct (run_ops s1 r) as [s2 ws]. destruct (run_ops s2 o2) as [s3 ws2]. reflexivity.
Qed.

Lemma ops_spec_app_inv o1 : forall s o2 s' ms, ops_spec s (o1 ++ o2) s' ms ->
  exists sm m1 m2, ops_spec s o1 sm m1 /\ ops_spec sm o2 s' m2 /\ ms = m1 ++ m2.
Proof.
  induction o1 as [|o r IH]; intros s o2 s' ms H; cbn [app] in H.
  - exists s, [], ms. repeat split; [constructor|exact H].
  - inversion H as [|s0 o0 s1 m r0 s2 mr Ho Hr]; subst.
    destruct (IH _ _ _ _ Hr) as (sm & m1 & m2 & A & B & E).
    exists sm, (m ++ m1), m2. repeat split; [econstructor; eassumption|exact B|].
    rewrite E, app_assoc; reflexivity.
Qed.

Lemma cat_some_app w1 : forall w2 b1 b2, cat_some w1 = Some b1 -> cat_some w2 = Some b2 ->
  cat_some (w1 ++ w2) = Some (b1 ++ b2).
Proof.
  induction w1 as [|[w|] r IH]; intros w2 b1 b2 H1 H2; cbn [app cat_some] in *.
  - inversion H1; subst; exact H2.
  - destruct (cat_some r) as [b|] eqn:E; [|discriminate]. inversion H1; subst.
    rewrite (IH _ _ _ eq_refl H2). rewrite app_assoc; reflexivity.
  - discriminate.
Qed.

(** however a run of in-range operations is cut into "so far" and "the rest", the bytes written
    so far are whole messages (those of the operations so far), the rest likewise, and the
    stream is their concatenation: a server reading along is never left inside a message at an
    operation boundary *)
Theorem framing_at_every_boundary s o1 o2 s' ms :
  ops_spec s (o1 ++ o2) s' ms ->
  exists sm m1 m2 ws1 b1 ws2 b2,
    run_ops s o1 = (sm, ws1) /\ cat_some ws1 = Some b1 /\ parse_c2s b1 = Some m1 /\
    run_ops sm o2 = (s', ws2) /\ cat_some ws2 = Some b2 /\ parse_c2s b2 = Some m2 /\
    ms = m1 ++ m2 /\
    run_ops s (o1 ++ o2) = (s', ws1 ++ ws2) /\ cat_some (ws1 ++ ws2) = Some (b1 ++ b2) /\
    parse_c2s (b1 ++ b2) = Some (m1 ++ m2).
Proof.
  intros H. destruct (ops_spec_app_inv _ _ _ _ _ H) as (sm & m1 & m2 & A & B & E).
  destruct (run_ops_spec _ _ _ _ A) as (ws1 & b1 & R1 & C1 & P1).
  destruct (run_ops_spec _ _ _ _ B) as (ws2 & b2 & R2 & C2 & P2).
  exists sm, m1, m2, ws1, b1, ws2, b2.
  repeat split; try assumption; try (apply Parses_sound; assumption).
  - rewrite run_ops_app, R1, R2; reflexivity.
  - apply cat_some_app; assumption.
  - apply Parses_sound, Parses_app; assumption.
Qed.

(** the reading is the only one: whatever list of messages a (relational) RFC reader finds in
    the stream of an in-range run, it is the list the operations stand for *)
Theorem run_reading_unique s ops s' ms :
  ops_spec s ops s' ms ->
  forall ws b ms', run_ops s ops = (s', ws) -> cat_some ws = Some b -> Parses b ms' -> ms' = ms.
Proof.
  intros H ws b ms' R C P. destruct (run_ops_spec _ _ _ _ H) as (ws0 & b0 & R0 & C0 & P0).
  rewrite R in R0; inversion R0; subst. rewrite C in C0; inversion C0; subst.
  eapply Parses_unique; eassumption.
Qed.
