(** The masked paste (PIL's Image.paste(im, box, mask) as drawCursor uses it), offsets >= 0:
    which pixel is where. *)
From Coq Require Import ZArith List Bool Lia.
From VD Require Import Base.Bytes Base.PixFmt Gen.Tables Model.Image Model.Screen Proofs.ScreenP.
Import ListNotations.
Open Scope Z_scope.

Definition mbit {A} (m : option (list A)) (dflt : A) (sel : A -> bool) (k : nat) : bool :=
  match m with None => true | Some l => sel (nth k l dflt) end.

Definition bit (m : option (list bool)) (k : nat) : bool := mbit m false (fun b => b) k.

Lemma bit_nil k : bit (Some []) k = false.
Proof. unfold bit, mbit. destruct k; reflexivity. Qed.

Lemma nth_paste_row_m : forall dst src m ox i d, 0 <= ox ->
  nth i (paste_row dst src m ox) d =
  if (Z.to_nat ox <=? i)%nat && (i <? Z.to_nat ox + List.length src)%nat && (i <? List.length dst)%nat
     && bit m (i - Z.to_nat ox)
  then nth (i - Z.to_nat ox) src d else nth i dst d.
Proof.
  induction dst as [|p dr IH]; intros src m ox i d Hox; cbn [paste_row List.length].
  - rewrite andb_false_r. reflexivity.
  - destruct (Z.ltb_spec 0 ox) as [Hpos|Hz].
    + destruct i as [|i']; cbn [nth].
      * replace (Z.to_nat ox <=? 0)%nat with false by (symmetry; apply Nat.leb_gt; lia). reflexivity.
      * rewrite IH by lia. replace (Z.to_nat (ox - 1)) with (Z.to_nat ox - 1)%nat by lia.
        assert (E1 : (Z.to_nat ox - 1 <=? i')%nat = (Z.to_nat ox <=? S i')%nat).
        { destruct (Nat.leb_spec (Z.to_nat ox - 1) i'), (Nat.leb_spec (Z.to_nat ox) (S i')); try reflexivity; lia. }
        assert (E2 : (i' <? Z.to_nat ox - 1 + List.length src)%nat = (S i' <? Z.to_nat ox + List.length src)%nat).
        { destruct (Nat.ltb_spec i' (Z.to_nat ox - 1 + List.length src)), (Nat.ltb_spec (S i') (Z.to_nat ox + List.length src)); try reflexivity; lia. }
        rewrite E1, E2. change (S i' <? S (List.length dr))%nat with (i' <? List.length dr)%nat.
        destruct (Z.to_nat ox <=? S i')%nat eqn:L; [|reflexivity]. apply Nat.leb_le in L.
        replace (S i' - Z.to_nat ox)%nat with (i' - (Z.to_nat ox - 1))%nat by lia. reflexivity.
    + assert (ox = 0) by lia. subst ox. cbn [Z.to_nat].
      destruct src as [|q sr].
      * cbn [List.length]. rewrite Nat.add_0_r. replace (0 <=? i)%nat with true by reflexivity.
        replace (i <? 0)%nat with false by (symmetry; apply Nat.ltb_ge; lia). reflexivity.
      * assert (G : forall use mr, (forall k, bit mr k = bit m (S k)) -> bit m 0 = use ->
                    nth i ((if use then q else p) :: paste_row dr sr mr 0) d =
                    (if (0 <=? i)%nat && (i <? 0 + List.length (q :: sr))%nat && (i <? S (List.length dr))%nat && bit m (i - 0)
                     then nth (i - 0) (q :: sr) d else nth i (p :: dr) d)).
        { intros use mr Hk H0. destruct i as [|i']; cbn [nth List.length].
          - cbn. rewrite H0. reflexivity.
          - rewrite IH by lia. cbn [Z.to_nat]. change (0 <=? i')%nat with true. change (0 <=? S i')%nat with true.
            change (S i' <? 0 + S (List.length sr))%nat with (i' <? 0 + List.length sr)%nat.
            change (S i' <? S (List.length dr))%nat with (i' <? List.length dr)%nat.
            rewrite !Nat.sub_0_r, Hk. reflexivity. }
        destruct m as [[|b mr]|].
        -- apply (G false (Some [])); [intros k; rewrite !bit_nil; reflexivity|reflexivity].
        -- apply (G b (Some mr)); [intros k; reflexivity|reflexivity].
        -- apply (G true None); [intros k; reflexivity|reflexivity].
Qed.

Definition mrow (m : option (list (list bool))) (k : nat) : option (list bool) :=
  match m with None => None | Some l => Some (nth k l []) end.

Lemma mrow_nil k : mrow (Some []) k = Some [].
Proof. unfold mrow. destruct k; reflexivity. Qed.

Lemma nth_paste_rows_m : forall dst src m ox oy j d, 0 <= oy -> 0 <= ox ->
  nth j (paste_rows dst src m ox oy) d =
  if (Z.to_nat oy <=? j)%nat && (j <? Z.to_nat oy + List.length src)%nat && (j <? List.length dst)%nat
  then paste_row (nth j dst d) (nth (j - Z.to_nat oy) src []) (mrow m (j - Z.to_nat oy)) ox else nth j dst d.
Proof.
  induction dst as [|r dr IH]; intros src m ox oy j d Hoy Hox; cbn [paste_rows List.length].
  - rewrite andb_false_r. reflexivity.
  - destruct (Z.ltb_spec 0 oy) as [Hpos|Hz].
    + destruct j as [|j']; cbn [nth].
      * replace (Z.to_nat oy <=? 0)%nat with false by (symmetry; apply Nat.leb_gt; lia). reflexivity.
      * rewrite IH by lia. replace (Z.to_nat (oy - 1)) with (Z.to_nat oy - 1)%nat by lia.
        assert (E1 : (Z.to_nat oy - 1 <=? j')%nat = (Z.to_nat oy <=? S j')%nat).
        { destruct (Nat.leb_spec (Z.to_nat oy - 1) j'), (Nat.leb_spec (Z.to_nat oy) (S j')); try reflexivity; lia. }
        assert (E2 : (j' <? Z.to_nat oy - 1 + List.length src)%nat = (S j' <? Z.to_nat oy + List.length src)%nat).
        { destruct (Nat.ltb_spec j' (Z.to_nat oy - 1 + List.length src)), (Nat.ltb_spec (S j') (Z.to_nat oy + List.length src)); try reflexivity; lia. }
        rewrite E1, E2. change (S j' <? S (List.length dr))%nat with (j' <? List.length dr)%nat.
        destruct (Z.to_nat oy <=? S j')%nat eqn:L; [|reflexivity]. apply Nat.leb_le in L.
        replace (S j' - Z.to_nat oy)%nat with (j' - (Z.to_nat oy - 1))%nat by lia. reflexivity.
    + assert (oy = 0) by lia. subst oy. cbn [Z.to_nat].
      destruct src as [|s sr].
      * cbn [List.length]. rewrite Nat.add_0_r. replace (0 <=? j)%nat with true by reflexivity.
        replace (j <? 0)%nat with false by (symmetry; apply Nat.ltb_ge; lia). reflexivity.
      * assert (G : forall mr0 mr, (forall k, mrow mr k = mrow m (S k)) -> mrow m 0%nat = mr0 ->
                    nth j (paste_row_clip r s mr0 ox :: paste_rows dr sr mr ox 0) d =
                    (if (0 <=? j)%nat && (j <? 0 + List.length (s :: sr))%nat && (j <? S (List.length dr))%nat
                     then paste_row (nth j (r :: dr) d) (nth (j - 0) (s :: sr) []) (mrow m (j - 0)) ox else nth j (r :: dr) d)).
        { intros mr0 mr Hk H0. unfold paste_row_clip, clip_neg. destruct (Z.ltb_spec ox 0); [lia|].
          destruct j as [|j']; cbn [nth List.length].
          - cbn. rewrite H0. destruct mr0; reflexivity.
          - rewrite IH by lia. cbn [Z.to_nat]. change (0 <=? j')%nat with true. change (0 <=? S j')%nat with true.
            change (S j' <? 0 + S (List.length sr))%nat with (j' <? 0 + List.length sr)%nat.
            change (S j' <? S (List.length dr))%nat with (j' <? List.length dr)%nat.
            rewrite !Nat.sub_0_r, Hk. reflexivity. }
        destruct m as [[|mr0 mr]|].
        -- apply (G (Some []) (Some [])); [intros k; rewrite !mrow_nil; reflexivity|reflexivity].
        -- apply (G (Some mr0) (Some mr)); [intros k; reflexivity|reflexivity].
        -- apply (G None None); [intros k; reflexivity|reflexivity].
Qed.

Definition mask_at (m : list (list bool)) (a b : Z) : bool := nth (Z.to_nat a) (nth (Z.to_nat b) m []) false.

(** paste src into dst at (ox, oy) through mask m, offsets non-negative: inside the pasted box (clipped
    to dst) where the mask bit is set the pixel is src's, everywhere else dst's *)
Theorem get_paste_masked dst src m ox oy x y :
  wf_image dst -> wf_image src -> 0 <= ox -> 0 <= oy -> 0 <= x -> 0 <= y ->
  get (paste_masked dst src m ox oy) x y =
  if inside dst x y && inside src (x - ox) (y - oy) && mask_at m (x - ox) (y - oy)
  then get src (x - ox) (y - oy) else get dst x y.
Proof.
  intros (Dw & Dh & DLr & DLc) (Sw & Sh & SLr & SLc) Hox Hoy Hx Hy.
  unfold get at 1, paste_masked, paste_rows_clip, clip_neg. cbn [rows].
  destruct (Z.ltb_spec oy 0); [lia|]. destruct (Z.ltb_spec x 0); [lia|]. destruct (Z.ltb_spec y 0); [lia|]. cbn [orb fst].
  rewrite (nth_paste_rows_m (rows dst) (rows src) (Some m) ox oy (Z.to_nat y) [] Hoy Hox).
  assert (GD : get dst x y = nth (Z.to_nat x) (nth (Z.to_nat y) (rows dst) []) black).
  { unfold get. destruct (Z.ltb_spec x 0); [lia|]. destruct (Z.ltb_spec y 0); [lia|]. reflexivity. }
  rewrite GD. unfold inside. rewrite DLr, SLr.
  destruct (Nat.leb_spec (Z.to_nat oy) (Z.to_nat y)) as [Ly|Ly]; cbn [andb].
  2:{ destruct (Z.leb_spec 0 (y - oy)); [lia|]. rewrite !andb_false_r. reflexivity. }
  destruct (Nat.ltb_spec (Z.to_nat y) (Z.to_nat oy + Z.to_nat (ih src))) as [Ly2|Ly2]; cbn [andb].
  2:{ destruct (Z.ltb_spec (y - oy) (ih src)); [lia|]. rewrite !andb_false_r. reflexivity. }
  destruct (Nat.ltb_spec (Z.to_nat y) (Z.to_nat (ih dst))) as [Ly3|Ly3]; cbn [andb].
  2:{ destruct (Z.ltb_spec y (ih dst)); [lia|]. rewrite !andb_false_r. reflexivity. }
  set (drow := nth (Z.to_nat y) (rows dst) []). set (srow := nth (Z.to_nat y - Z.to_nat oy) (rows src) []).
  assert (Ld : List.length drow = Z.to_nat (iw dst)).
  { rewrite Forall_forall in DLc. apply DLc. apply nth_In. lia. }
  assert (Ls : List.length srow = Z.to_nat (iw src)).
  { rewrite Forall_forall in SLc. apply SLc. apply nth_In. lia. }
  rewrite (nth_paste_row_m drow srow _ ox (Z.to_nat x) black Hox). rewrite Ld, Ls.
  destruct (Z.leb_spec 0 x); [|lia]. destruct (Z.leb_spec 0 y); [|lia].
  destruct (Z.ltb_spec y (ih dst)); [|lia]. destruct (Z.leb_spec 0 (y - oy)); [|lia]. destruct (Z.ltb_spec (y - oy) (ih src)); [|lia].
  rewrite !andb_true_r. cbn [andb].
  destruct (Nat.leb_spec (Z.to_nat ox) (Z.to_nat x)) as [Lx|Lx]; cbn [andb].
  2:{ destruct (Z.leb_spec 0 (x - ox)); [lia|]. rewrite !andb_false_r. reflexivity. }
  destruct (Nat.ltb_spec (Z.to_nat x) (Z.to_nat ox + Z.to_nat (iw src))) as [Lx2|Lx2]; cbn [andb].
  2:{ destruct (Z.ltb_spec (x - ox) (iw src)); [lia|]. rewrite !andb_false_r. reflexivity. }
  destruct (Nat.ltb_spec (Z.to_nat x) (Z.to_nat (iw dst))) as [Lx3|Lx3]; cbn [andb].
  2:{ destruct (Z.ltb_spec x (iw dst)); [lia|]. cbn [andb]. reflexivity. }
  destruct (Z.ltb_spec x (iw dst)); [|lia]. destruct (Z.leb_spec 0 (x - ox)); [|lia]. destruct (Z.ltb_spec (x - ox) (iw src)); [|lia].
  cbn [andb]. unfold bit, mbit, mrow, mask_at.
  replace (Z.to_nat (y - oy)) with (Z.to_nat y - Z.to_nat oy)%nat by lia.
  replace (Z.to_nat (x - ox)) with (Z.to_nat x - Z.to_nat ox)%nat by lia.
  destruct (nth (Z.to_nat x - Z.to_nat ox) (nth (Z.to_nat y - Z.to_nat oy) m []) false); [|reflexivity].
  unfold get. destruct (Z.ltb_spec (x - ox) 0); [lia|]. destruct (Z.ltb_spec (y - oy) 0); [lia|]. cbn [orb].
  unfold srow. replace (Z.to_nat (y - oy)) with (Z.to_nat y - Z.to_nat oy)%nat by lia.
  replace (Z.to_nat (x - ox)) with (Z.to_nat x - Z.to_nat ox)%nat by lia. reflexivity.
Qed.

(** drawCursor with the pointer at or beyond the hot spot on both axes: the screen afterwards shows the
    cursor's pixel exactly where the cursor image, placed with its hot spot on the pointer, lies on the
    screen and its mask bit is set; every other pixel is the screen's own *)
Theorem draw_cursor_overlay l s c x y :
  screen l = Some s -> cur l = Some c -> wf_image s -> wf_image (c_img c) ->
  c_fx c <= l_x l -> c_fy c <= l_y l -> 0 <= x -> 0 <= y ->
  let ox := l_x l - c_fx c in let oy := l_y l - c_fy c in
  exists s', screen (draw_cursor l) = Some s' /\ iw s' = iw s /\ ih s' = ih s /\
    get s' x y = if inside s x y && inside (c_img c) (x - ox) (y - oy) && mask_at (c_mask c) (x - ox) (y - oy)
                 then get (c_img c) (x - ox) (y - oy) else get s x y.
Proof.
  intros Es Ec Ws Wc Hfx Hfy Hx Hy. cbv zeta. unfold draw_cursor. rewrite Ec, Es. cbn [with_screen screen].
  eexists. split; [reflexivity|]. split; [reflexivity|]. split; [reflexivity|].
  apply get_paste_masked; try assumption; lia.
Qed.
