(** A recorded script replays to the same input events (C18): recorder -> shlex -> compiler -> key decoding. *)
From Coq Require Import ZArith List Bool Lia.
From VD Require Import Base.Bytes Base.BytesP Base.Text Proofs.TextP Gen.Tables.
From VD Require Import Model.Shlex Model.Server Model.Command Model.Recorder Model.Keys Model.Replay.
From VD Require Import Proofs.ServerP Proofs.CommandP Proofs.ReplayP Proofs.Words Proofs.LexP.
Import ListNotations.
Open Scope Z_scope.

Definition moved_to (mouse : option (Z * Z)) (x y : Z) : bool :=
  match mouse with Some (mx, my) => negb ((mx =? x) && (my =? y)) | None => true end.

(** the commands a recorded session stands for *)
Fixpoint script_cmds (mouse : option (Z * Z)) (last : Z) (evs : list inev) : list scmd :=
  match evs with
  | [] => []
  | IKey t d k :: r =>
      match key_name k with
      | Some name => SPause 0 (fmt4 (t - last)) :: (if negb (d =? 0) then SKeyDown 1 name else SKeyUp 1 name)
                     :: script_cmds mouse t r
      | None => []
      end
  | IPtr t m x y :: r =>
      let mv := moved_to mouse x y in
      SPause 0 (fmt4 (t - last)) :: (if mv then [SMove 0 (dec_text x) (dec_text y)] else [])
        ++ map (fun b => SClick (dec_text b)) (buttons_of m)
        ++ script_cmds (if mv then Some (x, y) else mouse) t r
  end.

Fixpoint wf_session (last : Z) (evs : list inev) : Prop :=
  match evs with
  | [] => True
  | IKey t d k :: r => last <= t /\ key_name k <> None /\ wf_session t r
  | IPtr t m x y :: r => last <= t /\ 0 <= x < 10 ^ 40 /\ 0 <= y < 10 ^ 40 /\ wf_session t r
  end.

Lemma buttons_nonneg m b : In b (buttons_of m) -> 1 <= b <= 8.
Proof. unfold buttons_of. intros H. apply filter_In in H as [H _]. cbn in H. lia. Qed.

Lemma digits_word_ok l : digits l -> word_ok l.
Proof. intros [Hn Hd]. split; [exact Hn|apply digits_plain; exact Hd]. Qed.

Lemma record_key_line mouse last t k d name : key_name k = Some name ->
  record_key (rec_state mouse last) t k d =
  Some (W_pause ++ 32 :: fmt4 (t - last) ++ 32 :: key_word d ++ 32 :: quote name ++ 32 :: [10],
        mk_rstate [] HProtocol 1 false mouse t).
Proof. intros E. unfold record_key. rewrite E. unfold key_word. destruct (negb (d =? 0)); reflexivity. Qed.

(** the tokeniser reads a recorded session back as exactly the rendering of its commands *)
Theorem script_tokens : forall evs mouse last script rest acc,
  wf_session last evs -> record_all mouse last evs = Some script ->
  lex (script ++ rest) LSpace [] false acc = lex rest LSpace [] false (acc ++ flat_map render (script_cmds mouse last evs)).
Proof.
  induction evs as [|e evs IH]; intros mouse last script rest acc W R.
  - cbn [record_all] in R. injection R as <-. cbn [script_cmds flat_map app]. rewrite app_nil_r. reflexivity.
  - destruct e as [t d k|t m x y]; cbn [record_all wf_session script_cmds] in *.
    + destruct W as (Ht & Hk & Wr).
      destruct (key_name k) as [name|] eqn:En; [|congruence].
      rewrite (record_key_line mouse last t k d name En) in R. cbn [r_mouse r_last] in R.
      destruct (record_all mouse t evs) as [tail|] eqn:Et; [|discriminate].
      match type of R with Some (?L ++ tail) = _ => assert (Hs : script = L ++ tail) by congruence end. rewrite Hs. clear Hs R.
      rewrite <- (app_assoc _ tail rest). rewrite lex_key_line by lia. rewrite (IH mouse t tail rest _ Wr Et).
      cbn [flat_map]. rewrite <- !app_assoc. f_equal. f_equal. unfold key_word. destruct (negb (d =? 0)); reflexivity.
    + destruct W as (Ht & Hx & Hy & Wr).
      pose proof (pointer_line_shape (rec_state mouse last) t x y m) as Sh. cbv zeta in Sh.
      cbn [rec_state r_mouse r_last] in Sh. fold (moved_to mouse x y) in Sh.
      destruct (record_pointer (rec_state mouse last) t x y m) as [line s'] eqn:ER. cbn [fst] in Sh.
      assert (Es : r_mouse s' = (if moved_to mouse x y then Some (x, y) else mouse) /\ r_last s' = t).
      { unfold record_pointer in ER. inversion ER; subst. cbn [r_mouse r_last rec_state]. split; reflexivity. }
      destruct Es as [Em El]. rewrite Em, El in R.
      destruct (record_all (if moved_to mouse x y then Some (x, y) else mouse) t evs) as [tail|] eqn:Et; [|discriminate].
      assert (Hs : script = line ++ tail) by congruence. rewrite Hs. clear Hs R. rewrite Sh.
      rewrite join_sp_flatten; [| |discriminate].
      2:{ unfold ptr_words. apply Forall_app. split; [constructor; [discriminate|constructor; [discriminate|constructor]]|].
          apply Forall_app. split.
          - destruct (moved_to mouse x y); [constructor; [discriminate|constructor]|constructor].
          - apply Forall_forall. intros ws Hws. apply in_map_iff in Hws as (b & <- & _). discriminate. }
      rewrite <- (app_assoc _ tail rest). rewrite lex_words.
      2:{ unfold ptr_words. destruct W_plain as (P1 & _ & _ & P4 & P5).
          rewrite !concat_app. apply Forall_app. split.
          - cbn [concat app]. constructor; [split; [discriminate|exact P1]|]. constructor; [|constructor].
            destruct (fmt4_plain (t - last) ltac:(lia)) as [A B]. split; assumption.
          - apply Forall_app. split.
            + destruct (moved_to mouse x y); cbn [concat app]; [|constructor].
              constructor; [split; [discriminate|exact P4]|]. constructor; [apply digits_word_ok, dec_text_digits; lia|].
              constructor; [apply digits_word_ok, dec_text_digits; lia|constructor].
            + apply Forall_forall. intros wd Hwd. apply in_concat in Hwd as (ws & Hws & Hin).
              apply in_map_iff in Hws as (b & <- & Hb). pose proof (buttons_nonneg _ _ Hb).
              destruct Hin as [<-|[<-|[]]]; [split; [discriminate|exact P5]|apply digits_word_ok, dec_text_digits; lia]. }
      rewrite (IH _ t tail rest _ Wr Et).
      rewrite <- app_assoc. f_equal. f_equal.
      set (tl := script_cmds (if moved_to mouse x y then Some (x, y) else mouse) t evs).
      assert (Ck : concat (map (fun b : Z => [W_click; dec_text b]) (buttons_of m)) =
                   flat_map render (map (fun b => SClick (dec_text b)) (buttons_of m))).
      { rewrite flat_map_concat_map, map_map. reflexivity. }
      unfold ptr_words. rewrite !concat_app, Ck. cbn [flat_map]. rewrite !flat_map_app.
      destruct (moved_to mouse x y); cbn [concat app flat_map render pick]; rewrite <- ?app_assoc; reflexivity.
Qed.

(** *** compile and replay *)

Lemma script_cmds_wf : forall evs mouse last, wf_session last evs -> Forall wf_scmd (script_cmds mouse last evs).
Proof.
  induction evs as [|e evs IH]; intros mouse last W; [constructor|].
  destruct e as [t d k|t m x y]; cbn [script_cmds wf_session] in *.
  - destruct W as (Ht & Hk & Wr). destruct (key_name k) as [name|]; [|congruence].
    constructor; [cbn [wf_scmd]; apply fmt4_is_float; lia|]. constructor; [destruct (negb (d =? 0)); exact I|]. apply IH. exact Wr.
  - destruct W as (Ht & Hx & Hy & Wr).
    constructor; [cbn [wf_scmd]; apply fmt4_is_float; lia|]. apply Forall_app. split.
    + destruct (moved_to mouse x y); [|constructor]. constructor; [|constructor]. cbn [wf_scmd]. split; apply dec_text_digits; lia.
    + apply Forall_app. split; [|apply IH; exact Wr].
      apply Forall_forall. intros c Hc. apply in_map_iff in Hc as (b & <- & Hb). pose proof (buttons_nonneg _ _ Hb).
      cbn [wf_scmd]. apply dec_text_digits. lia.
Qed.

Lemma render_length c : (1 <= List.length (render c))%nat.
Proof. destruct c; cbn; lia. Qed.

Lemma flat_map_render_length cmds : (List.length cmds <= List.length (flat_map render cmds))%nat.
Proof.
  induction cmds as [|c cmds IH]; cbn [flat_map List.length]; [lia|]. rewrite app_length. pose proof (render_length c). lia.
Qed.

Lemma replay_ops_app a b : replay_ops (a ++ b) =
  match replay_ops a, replay_ops b with Some x, Some y => Some (x ++ y) | _, _ => None end.
Proof.
  induction a as [|o a IH]; cbn [app replay_ops]; [destruct (replay_ops b); reflexivity|].
  rewrite IH. destruct (replay_op o), (replay_ops a), (replay_ops b); try reflexivity. rewrite app_assoc. reflexivity.
Qed.

Lemma buttons_small m b : In b (buttons_of m) -> 0 <= b < 10 ^ 40.
Proof. intros H. pose proof (buttons_nonneg _ _ H). split; [lia|]. apply Z.lt_le_trans with 10; [lia|]. change 10 with (10 ^ 1) at 1. apply Z.pow_le_mono_r; lia. Qed.

(** running the compiled commands gives back the events of the session *)
Theorem replay_script_cmds : forall evs mouse last,
  wf_session last evs ->
  replay_ops (flat_map denote (script_cmds mouse last evs)) = Some (expected mouse last evs).
Proof.
  induction evs as [|e evs IH]; intros mouse last W; [reflexivity|].
  destruct e as [t d k|t m x y]; cbn [script_cmds wf_session expected] in *.
  - destruct W as (Ht & Hk & Wr). destruct (key_name k) as [name|] eqn:En; [|congruence].
    pose proof (key_name_decodes k name En) as Dk.
    cbn [flat_map denote app]. cbn [replay_ops replay_op].
    destruct (negb (d =? 0)) eqn:Ed; cbn [denote app replay_ops replay_op]; rewrite Dk; cbn [map app];
      rewrite (IH mouse t Wr); reflexivity.
  - destruct W as (Ht & Hx & Hy & Wr).
    cbn [flat_map denote app]. rewrite !flat_map_app. cbn [replay_ops replay_op]. rewrite !replay_ops_app.
    fold (moved_to mouse x y). rewrite (IH _ t Wr).
    assert (Mv : replay_ops (flat_map denote (if moved_to mouse x y then [SMove 0 (dec_text x) (dec_text y)] else [])) =
                 Some (if moved_to mouse x y then [RMove x y] else [])).
    { destruct (moved_to mouse x y); [|reflexivity]. cbn [flat_map denote app replay_ops replay_op]. rewrite !dec_text_val by assumption. reflexivity. }
    assert (Ck : replay_ops (flat_map denote (map (fun b => SClick (dec_text b)) (buttons_of m))) = Some (map RClick (buttons_of m))).
    { pose proof (buttons_small m) as Bs. induction (buttons_of m) as [|b l IHl]; [reflexivity|].
      cbn [map flat_map denote app replay_ops replay_op]. rewrite IHl by (intros b' Hb'; apply Bs; right; exact Hb').
      rewrite dec_text_val by (apply Bs; left; reflexivity). reflexivity. }
    rewrite Mv, Ck. cbn [app]. reflexivity.
Qed.

Lemma record_pointer_last s now x y m : r_last (snd (record_pointer s now x y m)) = now.
Proof. unfold record_pointer. reflexivity. Qed.

Lemma record_all_some : forall evs mouse last, wf_session last evs -> exists script, record_all mouse last evs = Some script.
Proof.
  induction evs as [|e evs IH]; intros mouse last W; [exists []; reflexivity|].
  destruct e as [t d k|t m x y]; cbn [record_all wf_session] in *.
  - destruct W as (Ht & Hk & Wr). destruct (key_name k) as [name|] eqn:En; [|congruence].
    rewrite (record_key_line mouse last t k d name En). cbn [r_mouse r_last].
    destruct (IH mouse t Wr) as [tail Et]. rewrite Et. eexists. reflexivity.
  - destruct W as (Ht & Hx & Hy & Wr).
    pose proof (record_pointer_last (rec_state mouse last) t x y m) as Hl.
    destruct (record_pointer (rec_state mouse last) t x y m) as [line s']. cbn [snd] in Hl. rewrite Hl.
    destruct (IH (r_mouse s') t Wr) as [tail Et]. rewrite Et. eexists. reflexivity.
Qed.

(** the whole loop: what vnclog wrote, read by shlex, compiled by build_command_list and run through the
    key decoding, is the original sequence of events - for every session of representable keys and
    pointer events *)
Theorem roundtrip_ok evs : wf_session 0 evs -> Replay.roundtrip evs = Some (expected None 0 evs).
Proof.
  intros W. unfold Replay.roundtrip. destruct (record_all_some evs None 0 W) as [script E]. rewrite E.
  pose proof (script_tokens evs None 0 script [] [] W E) as T. rewrite app_nil_r in T. cbn [app] in T.
  unfold shlex_split. rewrite T. cbn [lex orb]. cbv beta iota. cbn [orb]. cbv beta iota.
  set (cmds := script_cmds None 0 evs) in *.
  assert (Em : forall l : list text, (if (match @nil Z with [] => false | _ => true end) || false then [] ++ l else l) = l) by reflexivity.
  pose proof (script_cmds_wf evs None 0 W) as Wf. fold cmds in Wf.
  rewrite (CommandP.roundtrip cmds (S (List.length (flat_map render cmds))) no_files Wf)
    by (pose proof (flat_map_render_length cmds); lia).
  unfold cmds. apply replay_script_cmds. exact W.
Qed.
