(** The viewer-side parser never raises on a session made of the seven client message kinds the
    recorder understands, whatever their field values (C16). *)
From Coq Require Import ZArith List Bool Lia.
From VD Require Import Base.Bytes Base.BytesP Base.Struct Base.PixFmt Base.Text Proofs.TextP Gen.Tables Gen.Formats.
From VD Require Import Model.ClientMsgs Model.Shlex Model.Recorder Model.Replay Spec.C2S Proofs.C2SP Proofs.RecorderP Proofs.ParserP Proofs.SessionP.
Import ListNotations.
Open Scope Z_scope.

(** the seven kinds (RFC 6143 7.5 and the QEMU extension), with arbitrary field values *)
Inductive vmsg :=
| VSetPF (body : bytes)                     (* 3 padding bytes + 16-byte pixel format: any 19 bytes *)
| VSetEnc (pad : Z) (encs : list bytes)     (* each encoding any 4 bytes *)
| VFbur (body : bytes)                      (* incremental, x, y, w, h: any 9 bytes *)
| VKey (down key : Z)
| VPtr (mask x y : Z)
| VCut (pad : bytes) (text : bytes)         (* 3 padding bytes, any text *)
| VQemu (down keysym : Z) (keycode : bytes).

Definition vwire (m : vmsg) : bytes :=
  match m with
  | VSetPF body => 0 :: body
  | VSetEnc pad encs => [2; pad] ++ be_enc 2 (len encs) ++ concat encs
  | VFbur body => 3 :: body
  | VKey d k => key_event_bytes d k
  | VPtr m x y => pointer_event_bytes m x y
  | VCut pad text => 6 :: pad ++ be_enc 4 (len text) ++ text
  | VQemu d k kc => [255; 0] ++ be_enc 2 d ++ be_enc 4 k ++ kc
  end.

Definition vwf (m : vmsg) : Prop :=
  match m with
  | VSetPF body => List.length body = 19%nat
  | VSetEnc pad encs => len encs < 65536 /\ Forall (fun e => List.length e = 4%nat) encs
  | VFbur body => List.length body = 9%nat
  | VKey d k => 0 <= d <= 255 /\ 0 <= k <= 4294967295 /\ key_name k <> None
  | VPtr m x y => 0 <= m <= 255 /\ 0 <= x < 65536 /\ 0 <= y < 65536
  | VCut pad text => List.length pad = 3%nat /\ len text < 4294967296
  | VQemu d k kc => 0 <= d < 65536 /\ 0 <= k <= 4294967295 /\ key_name k <> None /\ List.length kc = 4%nat
  end.

(* any 4n bytes unpack as n unsigned 32-bit values *)
Lemma unpack_rep_FI : forall encs, Forall (fun e => List.length e = 4%nat) encs ->
  exists l, unpackZs (rep_fld (List.length encs) FI) (concat encs) = Some l.
Proof.
  unfold unpackZs. induction encs as [|e encs IH]; intros H; [exists []; reflexivity|].
  inversion H as [|? ? He Hr]; subst. destruct (IH Hr) as [l El].
  do 4 (destruct e as [|? e]; [discriminate|]). destruct e; [|discriminate].
  cbn [List.length rep_fld concat app unpack fsize].
  cbn [take Z.leb Z.compare Z.sub Z.add Z.opp Z.pos_sub Pos.compare Pos.compare_cont Pos.pred_double].
  rewrite (take_le0 0 (concat encs)) by lia.
  destruct (unpack (rep_fld (List.length encs) FI) (concat encs)) as [vs|]; [|discriminate].
  cbn [unpack1 map]. eexists. reflexivity.
Qed.

Definition boundary (buf : bytes) (pw : bool) (mouse : option (Z * Z)) (last : Z) : rstate := mk_rstate buf HProtocol 1 pw mouse last.

(** one complete message in front of the buffer: it is consumed exactly, nothing raises, and the parser
    is back at a message boundary (only the recorder's position / time change) *)
Theorem message_step now pw m : vwf m ->
  forall mouse last rest acc, exists es mouse' last',
  forall r, Run now (boundary rest pw mouse' last') (acc ++ es) r -> Run now (boundary (vwire m ++ rest) pw mouse last) acc r.
Proof.
  intros W mouse last rest acc. destruct m as [body|pad encs|body|d k|mk x y|pad text|d k kc]; cbn [vwf vwire] in W.
  - (* SetPixelFormat *)
    do 19 (destruct body as [|? body]; [discriminate|]). destruct body; [|discriminate].
    eexists _, mouse, last. intros r HR. eapply Run_step; [cbn; pose proof (len_nonneg rest); unfold len in *; cbn; lia| |exact HR].
    unfold boundary, handle. cbn [r_buf r_handler vwire app]. change (type_len 0) with 20.
    match goal with |- context [len ?l <? 20] => assert (Hl : len l <? 20 = false) by (apply Z.ltb_ge; rewrite !len_cons; pose proof (len_nonneg rest); lia) end.
    rewrite Hl. change (Z.to_nat 20) with 20%nat. cbn [firstn skipn].
    change (0 =? C2S_SET_PIXEL_FORMAT) with true. cbv iota.
    unfold fmt_loggingproxy_RFBServer_handle_protocol_1.
    cbn [unpack fsize take Z.leb Z.compare Z.sub Z.add Z.opp Z.pos_sub Pos.compare Pos.compare_cont Pos.pred_double unpack1 Z.max].
    unfold pf_from_bytes, fmt_rfb_PixelFormat_STRUCT.
    cbn [unpack fsize take Z.leb Z.compare Z.sub Z.add Z.opp Z.pos_sub Pos.compare Pos.compare_cont Pos.pred_double unpack1 Z.max].
    unfold with_buf. cbn [r_pwreq r_mouse r_last]. reflexivity.
  - (* SetEncodings: header, then the list *)
    destruct W as [Hn He].
    assert (Hu : 0 <= len encs < 65536) by (split; [apply len_nonneg|exact Hn]).
    destruct (u16_enc (len encs) Hu) as [En Un].
    destruct (unpack_rep_FI encs He) as [l El].
    assert (Lc : len (concat encs) = 4 * len encs).
    { clear - He. induction encs as [|e encs IH]; [reflexivity|]. inversion He as [|? ? H1 H2]; subst.
      cbn [concat]. rewrite len_app, len_cons, IH by assumption. unfold len. rewrite H1. lia. }
    eexists [RSetEncodings l], mouse, last. intros r HR.
    eapply Run_step.
    + cbn. pose proof (len_nonneg (be_enc 2 (len encs) ++ concat encs ++ rest)). unfold len in *. cbn. lia.
    + unfold boundary, handle. cbn [r_buf r_handler vwire app]. rewrite <- !app_assoc. rewrite En. cbn [app]. change (type_len 2) with 4.
      match goal with |- context [len ?l <? 4] => assert (Hl : len l <? 4 = false) by (apply Z.ltb_ge; rewrite !len_cons; pose proof (len_nonneg (concat encs ++ rest)); lia) end.
      rewrite Hl. change (Z.to_nat 4) with 4%nat. cbn [firstn skipn].
      change (2 =? C2S_SET_PIXEL_FORMAT) with false. change (2 =? C2S_SET_ENCODING) with true. cbv iota.
      unfold unpackZs, fmt_loggingproxy_RFBServer_handle_protocol_2.
      cbn [unpack fsize take Z.leb Z.compare Z.sub Z.add Z.opp Z.pos_sub Pos.compare Pos.compare_cont Pos.pred_double unpack1 map].
      rewrite be_dec2, Un. reflexivity.
    + rewrite app_nil_r. eapply Run_step; [| |exact HR].
      * unfold with_buf. cbn [r_need r_buf]. rewrite len_app, Lc. pose proof (len_nonneg rest). lia.
      * unfold handle, with_buf. cbn [r_buf r_handler r_pwreq r_mouse r_last].
        rewrite <- Lc. rewrite take_app_exact. unfold fmt_loggingproxy_RFBServer_handle_setEncodingsList_0.
        assert (E2 : unpackZs (rep_fld (Z.to_nat (len encs)) FI) (concat encs) = Some l).
        { rewrite <- El. unfold len. rewrite Nat2Z.id. reflexivity. }
        rewrite E2. reflexivity.
  - (* FramebufferUpdateRequest *)
    do 9 (destruct body as [|? body]; [discriminate|]). destruct body; [|discriminate].
    eexists _, mouse, last. intros r HR. eapply Run_step; [cbn; pose proof (len_nonneg rest); unfold len in *; cbn; lia| |exact HR].
    unfold boundary, handle. cbn [r_buf r_handler vwire app]. change (type_len 3) with 10.
    match goal with |- context [len ?l <? 10] => assert (Hl : len l <? 10 = false) by (apply Z.ltb_ge; rewrite !len_cons; pose proof (len_nonneg rest); lia) end.
    rewrite Hl. change (Z.to_nat 10) with 10%nat. cbn [firstn skipn].
    change (3 =? C2S_SET_PIXEL_FORMAT) with false. change (3 =? C2S_SET_ENCODING) with false.
    change (3 =? C2S_FRAMEBUFFER_UPDATE_REQUEST) with true. cbv iota.
    unfold unpackZs, fmt_loggingproxy_RFBServer_handle_protocol_3.
    cbn [unpack fsize take Z.leb Z.compare Z.sub Z.add Z.opp Z.pos_sub Pos.compare Pos.compare_cont Pos.pred_double unpack1 map].
    unfold with_buf. cbn [r_pwreq r_mouse r_last]. reflexivity.
  - (* KeyEvent *)
    destruct W as (Hd & Hk & Hn). destruct (key_name k) as [name|] eqn:En; [|congruence].
    pose proof (key_entry (boundary (key_event_bytes d k ++ rest) pw mouse last) now d k rest name eq_refl eq_refl Hd Hk En eq_refl) as HK.
    cbn [boundary r_last r_pwreq r_mouse] in HK.
    match type of HK with handle _ _ = HOk ?es0 _ => exists es0, mouse, now end. intros r HR.
    eapply Run_step; [|exact HK|exact HR].
    unfold boundary. cbn [r_need r_buf vwire]. unfold key_event_bytes. rewrite !len_app, !len_cons, len_nil.
    pose proof (len_nonneg rest). pose proof (len_nonneg (be_enc 4 k)). lia.
  - (* PointerEvent *)
    destruct W as (Hm & Hx & Hy).
    pose proof (pointer_entry (boundary (pointer_event_bytes mk x y ++ rest) pw mouse last) now mk x y rest eq_refl Hm Hx Hy eq_refl) as HP.
    cbn [boundary r_last r_pwreq r_mouse] in HP.
    rewrite (record_pointer_buf rest [] pw mouse last now x y mk) in HP.
    destruct (record_pointer (mk_rstate [] HProtocol 1 pw mouse last) now x y mk) as [line s'] eqn:ER.
    exists [RRecord line], (r_mouse s'), (r_last s'). intros r HR.
    eapply Run_step; [|exact HP|exact HR].
    unfold boundary. cbn [r_need r_buf vwire]. unfold pointer_event_bytes. rewrite !len_app, !len_cons, len_nil.
    pose proof (len_nonneg rest). pose proof (len_nonneg (be_enc 2 x)). pose proof (len_nonneg (be_enc 2 y)). lia.
  - (* ClientCutText: header, then the text *)
    destruct W as [Hp Ht].
    do 3 (destruct pad as [|? pad]; [discriminate|]). destruct pad; [|discriminate].
    assert (Hu : 0 <= len text < 4294967296) by (split; [apply len_nonneg|exact Ht]).
    destruct (u32_enc (len text) Hu) as (a & b & c & e & En & Un).
    exists [RCutText], mouse, last. intros r HR.
    eapply Run_step.
    + cbn. pose proof (len_nonneg (be_enc 4 (len text) ++ text ++ rest)). unfold len in *. cbn. lia.
    + unfold boundary, handle. cbn [r_buf r_handler vwire app]. rewrite En. cbn [app]. change (type_len 6) with 8.
      match goal with |- context [len ?l <? 8] => assert (Hl : len l <? 8 = false) by (apply Z.ltb_ge; rewrite !len_cons; pose proof (len_nonneg (text ++ rest)); lia) end.
      rewrite Hl. change (Z.to_nat 8) with 8%nat. cbn [firstn skipn].
      change (6 =? C2S_SET_PIXEL_FORMAT) with false. change (6 =? C2S_SET_ENCODING) with false.
      change (6 =? C2S_FRAMEBUFFER_UPDATE_REQUEST) with false. change (6 =? C2S_KEY_EVENT) with false.
      change (6 =? C2S_POINTER_EVENT) with false. change (6 =? C2S_CLIENT_CUT_TEXT) with true. cbv iota.
      unfold unpackZs, fmt_loggingproxy_RFBServer_handle_protocol_6.
      cbn [unpack fsize take Z.leb Z.compare Z.sub Z.add Z.opp Z.pos_sub Pos.compare Pos.compare_cont Pos.pred_double unpack1 map].
      rewrite be_dec4, Un. reflexivity.
    + rewrite app_nil_r. eapply Run_step; [| |exact HR].
      * unfold with_buf. cbn [r_need r_buf]. rewrite len_app. pose proof (len_nonneg rest). lia.
      * apply (cuttext_skipped (with_buf (boundary (6 :: [z; z0; z1] ++ a :: b :: c :: e :: text ++ rest) pw mouse last) (text ++ rest) (HCutText (len text)) (len text))
                               now (len text) text rest eq_refl eq_refl eq_refl).
  - (* QEMU extended key event: type + sub-type, then down-flag, keysym, keycode *)
    destruct W as (Hd & Hk & Hn & Hkc). destruct (key_name k) as [name|] eqn:En; [|congruence].
    do 4 (destruct kc as [|? kc]; [discriminate|]). destruct kc; [|discriminate].
    destruct (u16_enc d Hd) as [Ed Ud]. destruct (u32_enc k ltac:(lia)) as (a & b & c & e & Ek & Uk).
    eexists _, mouse, now. intros r HR.
    eapply Run_step.
    + cbn. pose proof (len_nonneg (be_enc 2 d ++ be_enc 4 k ++ [z; z0; z1; z2] ++ rest)). unfold len in *. cbn. lia.
    + unfold boundary, handle. cbn [r_buf r_handler vwire app]. change (type_len 255) with 2.
      match goal with |- context [len ?l <? 2] => assert (Hl : len l <? 2 = false)
        by (apply Z.ltb_ge; rewrite !len_cons; match goal with |- context [len ?t] => pose proof (len_nonneg t) end; lia) end.
      rewrite Hl. change (Z.to_nat 2) with 2%nat. cbn [firstn skipn].
      change (255 =? C2S_SET_PIXEL_FORMAT) with false. change (255 =? C2S_SET_ENCODING) with false.
      change (255 =? C2S_FRAMEBUFFER_UPDATE_REQUEST) with false. change (255 =? C2S_KEY_EVENT) with false.
      change (255 =? C2S_POINTER_EVENT) with false. change (255 =? C2S_CLIENT_CUT_TEXT) with false.
      change (255 =? C2S_QEMU_CLIENT_MESSAGE) with true. cbv iota.
      unfold unpackZs, fmt_loggingproxy_RFBServer_handle_protocol_7.
      cbn [unpack fsize take Z.leb Z.compare Z.sub Z.add Z.opp Z.pos_sub Pos.compare Pos.compare_cont Pos.pred_double unpack1 map].
      change (be_dec [0]) with 0. change (0 =? QEMU_EXTENDED_KEY_EVENT) with true. cbv iota. reflexivity.
    + rewrite app_nil_r. eapply Run_step; [| |exact HR].
      * unfold with_buf. cbn [r_need r_buf]. rewrite Ed, Ek. cbn [app]. rewrite !len_cons. pose proof (len_nonneg rest). lia.
      * unfold handle, with_buf. cbn [r_buf r_handler r_pwreq r_mouse r_last]. rewrite Ed, Ek. cbn [app firstn skipn].
        unfold unpackZs, fmt_loggingproxy_RFBServer_handle_qemuExtendedKeyEvent_0.
        cbn [unpack fsize take Z.leb Z.compare Z.sub Z.add Z.opp Z.pos_sub Pos.compare Pos.compare_cont Pos.pred_double unpack1 map].
        rewrite be_dec2, !be_dec4, Ud, Uk. unfold record_key. rewrite En. cbn [r_buf r_handler r_need r_pwreq r_mouse r_last]. reflexivity.
Qed.

(** a whole session: no message makes the parser raise, the buffer is consumed exactly, under every chunking *)
Theorem session_never_raises now pw : forall msgs mouse last acc, Forall vwf msgs ->
  exists es mouse' last',
  Run now (boundary (concat (map vwire msgs)) pw mouse last) acc (ROk (acc ++ es) (boundary [] pw mouse' last')).
Proof.
  induction msgs as [|m msgs IH]; intros mouse last acc W.
  - exists [], mouse, last. rewrite app_nil_r. apply Run_wait. cbn. lia.
  - inversion W as [|? ? Wm Wr]; subst. cbn [map concat].
    destruct (message_step now pw m Wm mouse last (concat (map vwire msgs)) acc) as (es1 & m1 & l1 & Hstep).
    destruct (IH m1 l1 (acc ++ es1) Wr) as (es2 & m2 & l2 & HR).
    exists (es1 ++ es2), m2, l2. rewrite app_assoc. apply Hstep. exact HR.
Qed.

Theorem session_never_raises_any_chunking now pw msgs mouse last chunks : Forall vwf msgs ->
  concat chunks = concat (map vwire msgs) ->
  exists es mouse' last', rfeed_chunks (boundary [] pw mouse last) now chunks = ROk es (boundary [] pw mouse' last').
Proof.
  intros W E. destruct (session_never_raises now pw msgs mouse last [] W) as (es & m' & l' & R).
  exists es, m', l'. rewrite chunking_invariance; [|left; reflexivity|unfold quiescent; cbn; lia]. rewrite E.
  eapply Run_det; [apply rfeed_Run; left; reflexivity|]. unfold ext, boundary. cbn [r_buf r_handler r_need r_pwreq r_mouse r_last app]. exact R.
Qed.
