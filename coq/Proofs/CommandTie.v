(** Tie of Model/Command.v to the source text of build_command_list: the whole vocabulary (see CommandTieDefs.v). *)
From Coq Require Import ZArith List String Bool.
From VD Require Import Base.Bytes Base.Text Gen.Commands Model.Command Proofs.CommandTieDefs.
Import ListNotations.
Open Scope string_scope.

Example command_table_is_the_models :
  forallb entry_ok COMMAND_TABLE = true /\
  forallb (fun x => str_in x model_words) source_words = true /\
  forallb (fun x => str_in x source_words) model_words = true /\
  forallb (fun x => negb (unknown_rejected x)) model_words = true /\
  forallb unknown_rejected ["keys"; "Key"; "mmove"; "dragg"; ""; "capture "; "paus"] = true.
Proof. repeat split; vm_compute; reflexivity. Qed.
