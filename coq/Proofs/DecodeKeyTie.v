(** VNCDoToolClient._decodeKey as regenerated from the source text ([Gen/DecodeKey.v], gen/server.py) is the model's
    [decode_key] - for every key string, both settings of force_caps and both values of key.isupper(). *)
From Coq Require Import ZArith List Bool String.
From VD Require Import Base.Bytes Base.Text Gen.Tables Model.Keys Gen.DecodeKey.
Import ListNotations.
Open Scope Z_scope.

Lemma key_elt_tie k : gen_key_elt k = key_code k.
Proof. reflexivity. Qed.

Lemma map_key_elt l : map gen_key_elt l = map key_code l.
Proof. apply map_ext. exact key_elt_tie. Qed.

Lemma keys_of_tie (k : list Z) :
  (if Nat.eqb (List.length k) 1 then [k] else split_on 45 k) = match k with [_] => [k] | _ => split_on DASH k end.
Proof. destruct k as [|a [|b r]]; reflexivity. Qed.

Theorem decode_key_is_source fc up key : gen_decode_key fc up key = decode_key fc up key.
Proof.
  unfold gen_decode_key, decode_key. cbv zeta.
  destruct fc; cbn [andb].
  - destruct (up || is_substring key SPECIAL_KEYS_US).
    + destruct key as [|c [|d r]]; reflexivity.
    + rewrite <- keys_of_tie. destruct (Nat.eqb _ 1); rewrite map_key_elt; reflexivity.
  - rewrite <- keys_of_tie. destruct (Nat.eqb _ 1); rewrite map_key_elt; reflexivity.
Qed.
