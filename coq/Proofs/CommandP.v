(** build_command_list: one-step equations, rejection, and the round trip (C10). *)
From Coq Require Import ZArith List Bool Lia String.
From VD Require Import Base.Bytes Base.Text Proofs.TextP Gen.Tables Model.Server Proofs.ServerP Model.Shlex Model.Command.
Import ListNotations.
Local Open Scope string_scope.
Local Open Scope list_scope.
Open Scope Z_scope.

(** the command words of the vocabulary *)
Definition command_words : list string :=
  ["key"; "kdown"; "keydown"; "kup"; "keyup"; "move"; "mousemove"; "click"; "mdown"; "mousedown"; "mup"; "mouseup";
   "type"; "typefile"; "pastefile"; "capture"; "expect"; "rcapture"; "rexpect"; "pause"; "sleep"; "drag"].

Definition is_command (t : text) : bool := is_word t command_words.

Lemma is_word_false t ws : is_word t ws = false -> forall n, In n ws -> text_eqb t (w n) = false.
Proof.
  unfold is_word. intros H n Hn. destruct (text_eqb t (w n)) eqn:E; [|reflexivity].
  assert (existsb (fun n0 => text_eqb t (w n0)) ws = true) by (apply existsb_exists; exists n; auto). congruence.
Qed.

Ltac eval_words :=
  unfold is_word; cbn [existsb];
  repeat match goal with
         | |- context [text_eqb (w ?a) (w ?b)] =>
             let v := eval vm_compute in (text_eqb (w a) (w b)) in change (text_eqb (w a) (w b)) with v
         end;
  cbn [orb andb]; cbv zeta; cbv beta iota.

(** a word that is neither a command nor an existing file is rejected, and nothing is registered
    beyond what earlier commands registered *)
Theorem reject_unknown : forall fuel f delay cmd rest acc,
  is_command cmd = false -> f cmd = None ->
  compile (S fuel) f delay (cmd :: rest) acc = CErr (EUnknown cmd) acc.
Proof.
  intros fuel f delay cmd rest acc Hc Hf.
  pose proof (is_word_false _ _ Hc) as H. unfold command_words in H.
  cbn [compile]. unfold is_word. cbn [existsb].
  repeat match goal with |- context [text_eqb cmd (w ?n)] => rewrite (H n) by (cbn; tauto) end. cbn [orb]. rewrite Hf. reflexivity.
Qed.

Theorem reject_capture_format : forall fuel f delay file rest acc,
  supported_format (extension file) = false ->
  compile (S fuel) f delay (w "capture" :: file :: rest) acc = CErr (EFormat (extension file)) acc.
Proof. intros. cbn [compile]. eval_words. rewrite H. reflexivity. Qed.

Theorem reject_rcapture_format : forall fuel f delay file xs ys ws hs rest acc,
  digits xs -> digits ys -> digits ws -> digits hs ->
  supported_format (extension file) = false ->
  compile (S fuel) f delay (w "rcapture" :: file :: xs :: ys :: ws :: hs :: rest) acc = CErr (EFormat (extension file)) acc.
Proof.
  intros. cbn [compile]. eval_words. rewrite !py_int_digits by assumption. cbv beta iota. rewrite H3. reflexivity.
Qed.

(** source-level commands and their rendering as tokens / meaning as operations *)
Inductive scmd :=
| SKey (alias : nat) (k : text) | SKeyDown (alias : nat) (k : text) | SKeyUp (alias : nat) (k : text)
| SMove (alias : nat) (xs ys : text) | SClick (bs : text) | SMDown (alias : nat) (bs : text) | SMUp (alias : nat) (bs : text)
| SDrag (xs ys : text) | SType (t : text)
| SCapture (file : text) | SRCapture (file xs ys ws hs : text)
| SExpect (file rms : text) | SRExpect (file xs ys rms : text)
| SPause (alias : nat) (dur : text).

Definition pick (alias : nat) (a b : string) : text := match alias with O => w a | _ => w b end.

Definition render (c : scmd) : list text :=
  match c with
  | SKey _ k => [w "key"; k]
  | SKeyDown a k => [pick a "kdown" "keydown"; k]
  | SKeyUp a k => [pick a "kup" "keyup"; k]
  | SMove a xs ys => [pick a "move" "mousemove"; xs; ys]
  | SClick bs => [w "click"; bs]
  | SMDown a bs => [pick a "mdown" "mousedown"; bs]
  | SMUp a bs => [pick a "mup" "mouseup"; bs]
  | SDrag xs ys => [w "drag"; xs; ys]
  | SType t => [w "type"; t]
  | SCapture f => [w "capture"; f]
  | SRCapture f xs ys ws hs => [w "rcapture"; f; xs; ys; ws; hs]
  | SExpect f r => [w "expect"; f; r]
  | SRExpect f xs ys r => [w "rexpect"; f; xs; ys; r]
  | SPause a d => [pick a "pause" "sleep"; d]
  end.

Definition denote (c : scmd) : list cop :=
  match c with
  | SKey _ k => [CKeyPress k]
  | SKeyDown _ k => [CKeyDown k]
  | SKeyUp _ k => [CKeyUp k]
  | SMove _ xs ys => [CMove (dec_val xs) (dec_val ys)]
  | SClick bs => [CClick (dec_val bs)]
  | SMDown _ bs => [CMDown (dec_val bs)]
  | SMUp _ bs => [CMUp (dec_val bs)]
  | SDrag xs ys => [CDrag (dec_val xs) (dec_val ys)]
  | SType t => map (fun c => CKeyPress [c]) t
  | SCapture f => [CCapture f]
  | SRCapture f xs ys ws hs => [CRCapture f (dec_val xs) (dec_val ys) (dec_val ws) (dec_val hs)]
  | SExpect f r => [CExpect f r]
  | SRExpect f xs ys r => [CRExpect f (dec_val xs) (dec_val ys) r]
  | SPause _ d => [CPause d]
  end.

Definition wf_scmd (c : scmd) : Prop :=
  match c with
  | SMove _ xs ys | SDrag xs ys => digits xs /\ digits ys
  | SClick bs | SMDown _ bs | SMUp _ bs => digits bs
  | SCapture f => supported_format (extension f) = true
  | SRCapture f xs ys ws hs => supported_format (extension f) = true /\ digits xs /\ digits ys /\ digits ws /\ digits hs
  | SExpect _ r | SPause _ r => py_float_ok r = true
  | SRExpect _ xs ys r => digits xs /\ digits ys /\ py_float_ok r = true
  | _ => True
  end.

Lemma flat_map_type t : flat_map (fun c : Z => CKeyPress [c] :: []) t = map (fun c => CKeyPress [c]) t.
Proof. induction t; cbn; [reflexivity|f_equal; assumption]. Qed.

(** one command, no configured delay *)
Lemma compile_one fuel f c rest acc :
  wf_scmd c ->
  compile (S fuel) f false (render c ++ rest) acc = compile fuel f false rest (acc ++ denote c).
Proof.
  intros W. destruct c; cbn [render app denote wf_scmd] in *;
    try (destruct alias as [|alias]); cbn [pick];
    cbn [compile]; eval_words;
    repeat match goal with
           | H : _ /\ _ |- _ => destruct H
           end;
    rewrite ?py_int_digits by assumption; cbv beta iota;
    repeat match goal with H : _ = true |- _ => rewrite H end; cbv beta iota;
    rewrite ?flat_map_type, ?app_nil_r; try reflexivity.
Qed.

Theorem roundtrip : forall cmds fuel f,
  Forall wf_scmd cmds -> (List.length cmds < fuel)%nat ->
  compile fuel f false (flat_map render cmds) [] = COk (flat_map denote cmds).
Proof.
  intros cmds fuel f H.
  assert (G : forall acc fuel, (List.length cmds < fuel)%nat ->
              compile fuel f false (flat_map render cmds) acc = COk (acc ++ flat_map denote cmds)).
  { induction H as [|c cmds Hc _ IH]; intros acc fuel0 Hf.
    - destruct fuel0; [cbn in Hf; lia|]. cbn. rewrite app_nil_r. reflexivity.
    - destruct fuel0 as [|fuel0]; [cbn in Hf; lia|]. cbn [flat_map].
      rewrite compile_one by assumption. rewrite IH by (cbn in Hf; lia). rewrite app_assoc. reflexivity. }
  intros Hf. apply (G [] fuel Hf).
Qed.

(** naming a script file is writing its tokens in its place (no configured delay) *)
Theorem file_splice : forall fuel f name content toks rest acc,
  is_command name = false -> f name = Some content -> shlex_split content = inr toks ->
  compile (S fuel) f false (name :: rest) acc = compile fuel f false (toks ++ rest) acc.
Proof.
  intros fuel f name content toks rest acc Hc Hf Hs.
  pose proof (is_word_false _ _ Hc) as H. unfold command_words in H.
  cbn [compile]. unfold is_word. cbn [existsb].
  repeat match goal with |- context [text_eqb name (w ?n)] => rewrite (H n) by (cbn; tauto) end. cbn [orb]. rewrite Hf, Hs. cbn [andb]. rewrite app_nil_r. reflexivity.
Qed.
