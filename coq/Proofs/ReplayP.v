(** The vnclog -> vncdo round trip (C18). *)
From Coq Require Import ZArith List Bool Lia String.
From VD Require Import Base.Bytes Base.BytesP Base.Text Proofs.TextP Gen.Tables.
From VD Require Import Model.Shlex Model.Server Model.Command Model.Recorder Model.Keys Model.Replay.
From VD Require Import Proofs.ServerP Proofs.CommandP.
Import ListNotations.
Open Scope Z_scope.

(** *** the key table and its reverse *)

Definition name_ok (n : text) : bool :=
  (2 <=? len n) && forallb safe_char n && negb (existsb (Z.eqb DASH) n).

Lemma reverse_map_ok :
  forallb (fun kn => match decode_key false false (snd kn) with
                     | Some [k] => (k =? fst kn) && name_ok (snd kn)
                     | _ => false
                     end) REVERSE_MAP = true.
Proof. vm_compute. reflexivity. Qed.

Lemma keymap_no_single_char : forallb (fun nv => negb (len (fst nv) =? 1)) KEYMAP = true.
Proof. vm_compute. reflexivity. Qed.

Lemma assoc_Z_In {V} k (m : list (Z * V)) v : assoc_Z k m = Some v -> In (k, v) m.
Proof.
  induction m as [|[k' v'] m IH]; cbn; [discriminate|].
  destruct (Z.eqb_spec k k') as [->|]; [intros E; inversion E; left; reflexivity|intros E; right; auto].
Qed.

Lemma text_eqb_len a : forall b, text_eqb a b = true -> len a = len b.
Proof.
  induction a as [|x a IH]; destruct b as [|y b]; cbn [text_eqb]; try discriminate; [reflexivity|].
  intros H. apply andb_prop in H as [_ H]. rewrite !len_cons. rewrite (IH b H). reflexivity.
Qed.

Lemma keymap_get_single c : keymap_get [c] = None.
Proof.
  unfold keymap_get. pose proof keymap_no_single_char as H. induction KEYMAP as [|[n v] m IH]; [reflexivity|].
  cbn [forallb fst] in H. apply andb_prop in H as [H1 H2]. cbn [assoc_text].
  destruct (text_eqb [c] n) eqn:E; [|apply IH; exact H2].
  apply text_eqb_len in E. rewrite len_cons, len_nil in E. rewrite <- E in H1. discriminate.
Qed.

(** a recorded key name denotes the keysym it was recorded for *)
Theorem key_name_decodes : forall key name,
  key_name key = Some name -> decode_key false false name = Some [key].
Proof.
  intros key name H. unfold key_name in H. destruct (assoc_Z key REVERSE_MAP) as [n|] eqn:E.
  - inversion H; subst n. apply assoc_Z_In in E.
    pose proof reverse_map_ok as R. rewrite forallb_forall in R. specialize (R _ E). cbn [fst snd] in R.
    destruct (decode_key false false name) as [[|k [|? ?]]|]; try discriminate.
    apply andb_prop in R as [R _]. apply Z.eqb_eq in R. subst. reflexivity.
  - destruct ((0 <=? key) && (key <=? 1114111)); [|discriminate]. inversion H; subst name.
    unfold decode_key. cbn [andb map all_some]. unfold key_code. rewrite keymap_get_single. reflexivity.
Qed.

Lemma key_name_quotable key name : key_name key = Some name ->
  name <> [] /\ (name_ok name = true \/ name = [key]).
Proof.
  intros H. unfold key_name in H. destruct (assoc_Z key REVERSE_MAP) as [n|] eqn:E.
  - inversion H; subst n. apply assoc_Z_In in E.
    pose proof reverse_map_ok as R. rewrite forallb_forall in R. specialize (R _ E). cbn [fst snd] in R.
    destruct (decode_key false false name) as [[|k [|? ?]]|]; try discriminate.
    apply andb_prop in R as [_ R]. split; [|left; exact R].
    unfold name_ok in R. destruct name; [discriminate|discriminate].
  - destruct ((0 <=? key) && (key <=? 1114111)); [|discriminate]. inversion H. split; [discriminate|right; reflexivity].
Qed.
