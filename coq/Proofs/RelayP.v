(** C16, viewer -> server leg as the property states it: VNCLoggingServerProxy.dataReceived runs the
    recorder's parser on the chunk and then forwards the chunk; if the parser raises, the chunk is not
    forwarded and Twisted drops the connection.  Whether a chunk is forwarded does not depend on the
    arrival times; for a session of the seven message kinds every chunk is forwarded, so the server
    receives exactly the viewer's bytes, once and in order, under every chunking and timing. *)
From Coq Require Import ZArith List Bool Lia.
From VD Require Import Base.Bytes Base.BytesP Base.Struct Base.PixFmt Base.Text Gen.Tables Gen.Formats.
From VD Require Import Model.ClientMsgs Model.Shlex Model.Recorder Model.Replay Proofs.ParserP Proofs.SessionP Proofs.SessionAllP.
Import ListNotations.
Open Scope Z_scope.

(** *** arrival times only change what is written to the script *)

Definition erase (s : rstate) : rstate := mk_rstate (r_buf s) (r_handler s) (r_need s) (r_pwreq s) (r_mouse s) 0.

Definition hshape (r : hres) : option rstate := match r with HOk _ s => Some (erase s) | HRaise => None end.

Lemma erase_with_buf s b h n : erase (with_buf s b h n) = with_buf (erase s) b h n.
Proof. reflexivity. Qed.

Lemma record_key_shape s now now' key down :
  match record_key s now key down, record_key (erase s) now' key down with
  | Some (_, s1), Some (_, s2) => erase s1 = erase s2
  | None, None => True
  | _, _ => False
  end.
Proof.
  unfold record_key. destruct (key_name key); [|exact I]. reflexivity.
Qed.

Lemma record_pointer_shape s now now' x y mask :
  erase (snd (record_pointer s now x y mask)) = erase (snd (record_pointer (erase s) now' x y mask)).
Proof. unfold record_pointer. cbn [snd erase r_buf r_handler r_need r_pwreq r_mouse]. reflexivity. Qed.

Lemma handle_shape s now now' : hshape (handle s now) = hshape (handle (erase s) now').
Proof.
  unfold handle. cbn [erase r_buf r_handler r_need r_pwreq r_mouse].
  destruct (r_handler s) eqn:Eh.
  - (* version *)
    repeat match goal with |- context [if ?c then _ else _] => destruct c end; reflexivity.
  - destruct (hd 0 (r_buf s) =? AUTH_VNC_AUTHENTICATION); reflexivity.
  - reflexivity.
  - reflexivity.
  - destruct (r_buf s) as [|ptype rest] eqn:Eb; [reflexivity|].
    destruct (len (ptype :: rest) <? type_len ptype); [reflexivity|].
    destruct (ptype =? C2S_SET_PIXEL_FORMAT).
    { destruct (unpack _ _) as [[|[z|pb] [|? ?]]|]; try reflexivity. destruct (pf_from_bytes pb); reflexivity. }
    destruct (ptype =? C2S_SET_ENCODING).
    { destruct (unpackZs _ _) as [[|? [|? ?]]|]; reflexivity. }
    destruct (ptype =? C2S_FRAMEBUFFER_UPDATE_REQUEST).
    { destruct (unpackZs _ _) as [[|? [|? [|? [|? [|? [|? ?]]]]]]|]; reflexivity. }
    destruct (ptype =? C2S_KEY_EVENT).
    { destruct (unpackZs _ _) as [[|down [|key [|? ?]]]|]; try reflexivity.
      match goal with |- hshape (match record_key ?a now key down with _ => _ end) = hshape (match record_key ?b now' key down with _ => _ end) =>
        pose proof (record_key_shape a now now' key down) as K; change b with (erase a) end.
      destruct (record_key _ now key down) as [[? ?]|], (record_key _ now' key down) as [[? ?]|]; try contradiction; [|reflexivity].
      cbn [hshape]. f_equal. rewrite K. reflexivity. }
    destruct (ptype =? C2S_POINTER_EVENT).
    { destruct (unpackZs _ _) as [[|mask [|x [|y [|? ?]]]]|]; try reflexivity. }
    destruct (ptype =? C2S_CLIENT_CUT_TEXT).
    { destruct (unpackZs _ _) as [[|? [|? ?]]|]; reflexivity. }
    destruct (ptype =? C2S_QEMU_CLIENT_MESSAGE); [|reflexivity].
    destruct (unpackZs _ _) as [[|sub [|? ?]]|]; try reflexivity. destruct (sub =? QEMU_EXTENDED_KEY_EVENT); reflexivity.
  - destruct (unpackZs _ _) as [[|down [|keysym [|keycode [|? ?]]]]|]; try reflexivity.
    match goal with |- hshape (match record_key ?a now keysym down with _ => _ end) = hshape (match record_key ?b now' keysym down with _ => _ end) =>
      pose proof (record_key_shape a now now' keysym down) as K; change b with (erase a) end.
    destruct (record_key _ now keysym down) as [[? ?]|], (record_key _ now' keysym down) as [[? ?]|]; try contradiction; [|reflexivity].
    cbn [hshape]. f_equal. rewrite K. reflexivity.
  - destruct (take (4 * n) (r_buf s)) as [[eb rest]|]; [|reflexivity]. destruct (unpackZs _ eb); reflexivity.
  - destruct (take n (r_buf s)) as [[? rest]|]; reflexivity.
Qed.

Inductive rshape := SOk (s : rstate) | SRaise | SSpin.

Definition shape (r : rres) : rshape := match r with ROk _ s => SOk (erase s) | RRaise _ => SRaise | RSpin _ => SSpin end.

Lemma rloop_shape : forall fuel s s' now now' acc acc',
  erase s = erase s' -> shape (rloop fuel s now acc) = shape (rloop fuel s' now' acc').
Proof.
  induction fuel as [|f IH]; intros s s' now now' acc acc' E; cbn [rloop].
  - assert (Eb : r_buf s = r_buf s') by (injection E; auto). assert (En : r_need s = r_need s') by (injection E; auto).
    rewrite Eb, En. destruct (len (r_buf s') <? r_need s'); cbn [shape]; [rewrite E|]; reflexivity.
  - assert (Eb : r_buf s = r_buf s') by (injection E; auto). assert (En : r_need s = r_need s') by (injection E; auto).
    rewrite Eb, En. destruct (len (r_buf s') <? r_need s'); [cbn [shape]; rewrite E; reflexivity|].
    pose proof (handle_shape s now 0) as H1. pose proof (handle_shape s' now' 0) as H2. rewrite E in H1. rewrite <- H2 in H1.
    destruct (handle s now) as [es s1|], (handle s' now') as [es' s1'|]; cbn [hshape] in H1; try discriminate; [|reflexivity].
    apply IH. congruence.
Qed.

Lemma rfeed_shape s s' now now' d : erase s = erase s' -> shape (rfeed s now d) = shape (rfeed s' now' d).
Proof.
  intros E. unfold rfeed.
  assert (Eb : r_buf s = r_buf s') by (injection E; auto).
  assert (E2 : erase (with_buf s (r_buf s ++ d) (r_handler s) (r_need s)) = erase (with_buf s' (r_buf s' ++ d) (r_handler s') (r_need s'))).
  { rewrite !erase_with_buf, E. injection E as -> -> -> _ _. reflexivity. }
  cbn [with_buf r_buf]. rewrite Eb. apply rloop_shape. rewrite Eb in E2. exact E2.
Qed.

(** *** the relay *)

(* a sequence of dataReceived calls (arrival time, chunk) on the viewer side of the proxy:
   the bytes forwarded to the server, and whether the connection was aborted by an exception *)
Fixpoint relay (s : rstate) (calls : list (Z * bytes)) : bytes * bool :=
  match calls with
  | [] => ([], false)
  | (now, c) :: rest =>
      match rfeed s now c with
      | ROk _ s1 => let '(f, a) := relay s1 rest in (c ++ f, a)
      | _ => ([], true)
      end
  end.

Lemma relay_const : forall calls s s0 es sf,
  erase s = erase s0 ->
  rfeed_chunks s0 0 (map snd calls) = ROk es sf ->
  relay s calls = (concat (map snd calls), false).
Proof.
  induction calls as [|[now c] calls IH]; intros s s0 es sf E H; cbn [relay map snd concat]; [reflexivity|].
  cbn [map snd rfeed_chunks] in H.
  pose proof (rfeed_shape s s0 now 0 c E) as Sh.
  destruct (rfeed s0 0 c) as [es1 s1|?|?] eqn:F0; try discriminate.
  destruct (rfeed s now c) as [es1' s1'|?|?]; cbn [shape] in Sh; try discriminate.
  destruct (rfeed_chunks s1 0 (map snd calls)) as [es2 s2|?|?] eqn:F2; cbn [prepend] in H; try discriminate.
  rewrite (IH s1' s1 es2 s2); [reflexivity|congruence|exact F2].
Qed.

(** every byte the viewer sends in such a session reaches the server unchanged, once, in order -
    whatever the chunking and the arrival times; the connection is not aborted *)
Theorem viewer_bytes_relayed pw msgs mouse last calls : Forall vwf msgs ->
  concat (map snd calls) = concat (map vwire msgs) ->
  relay (boundary [] pw mouse last) calls = (concat (map vwire msgs), false).
Proof.
  intros W E.
  destruct (session_never_raises_any_chunking 0 pw msgs mouse 0 (map snd calls) W E) as (es & m' & l' & R).
  rewrite <- E. eapply relay_const; [|exact R]. reflexivity.
Qed.
