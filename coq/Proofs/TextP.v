From Coq Require Import ZArith List Bool Lia.
From VD Require Import Base.Text.
Import ListNotations.
Open Scope Z_scope.

Lemma text_eqb_eq a b : text_eqb a b = true <-> a = b.
Proof.
  revert b; induction a as [|x a IH]; intros [|y b]; cbn; split; intros H; try discriminate; try reflexivity.
  - apply andb_prop in H as [H1 H2]. apply Z.eqb_eq in H1. apply IH in H2. subst; reflexivity.
  - inversion H; subst. rewrite Z.eqb_refl. cbn. apply IH; reflexivity.
Qed.

Lemma text_eqb_refl a : text_eqb a a = true.
Proof. apply text_eqb_eq; reflexivity. Qed.

Lemma assoc_text_in {V} k (m : list (text * V)) v : assoc_text k m = Some v -> In (k, v) m.
Proof.
  induction m as [|[k' v'] m IH]; cbn; [discriminate|].
  destruct (text_eqb k k') eqn:E.
  - intros H; inversion H; subst. apply text_eqb_eq in E; subst. left; reflexivity.
  - intros H; right; auto.
Qed.

Lemma assoc_text_none {V} k (m : list (text * V)) :
  (forall k' v, In (k', v) m -> k' <> k) -> assoc_text k m = None.
Proof.
  induction m as [|[k' v'] m IH]; intros H; cbn; [reflexivity|].
  destruct (text_eqb k k') eqn:E.
  - apply text_eqb_eq in E. exfalso. eapply H; [left; reflexivity|]. congruence.
  - apply IH. intros k2 v2 Hin. apply (H k2 v2). right; assumption.
Qed.

(** split / join *)
Lemma split_on_acc_nosep sep s cur rest :
  ~ In sep s ->
  split_on_acc sep (s ++ sep :: rest) cur = (rev cur ++ s) :: split_on_acc sep rest [].
Proof.
  revert cur; induction s as [|c s IH]; intros cur H; cbn [app split_on_acc].
  - rewrite Z.eqb_refl, app_nil_r. reflexivity.
  - destruct (Z.eqb_spec c sep) as [->|Hne]; [exfalso; apply H; left; reflexivity|].
    rewrite IH by (intros Hin; apply H; right; assumption).
    cbn [rev]. rewrite <- app_assoc. reflexivity.
Qed.

Lemma split_on_acc_nosep_end sep s cur :
  ~ In sep s -> split_on_acc sep s cur = [rev cur ++ s].
Proof.
  revert cur; induction s as [|c s IH]; intros cur H; cbn [split_on_acc].
  - rewrite app_nil_r; reflexivity.
  - destruct (Z.eqb_spec c sep) as [->|Hne]; [exfalso; apply H; left; reflexivity|].
    rewrite IH by (intros Hin; apply H; right; assumption).
    cbn [rev]. rewrite <- app_assoc. reflexivity.
Qed.

Theorem split_join sep toks :
  toks <> [] -> Forall (fun t => ~ In sep t) toks ->
  split_on sep (join_with [sep] toks) = toks.
Proof.
  unfold split_on. induction toks as [|t toks IH]; intros Hne Hall; [congruence|].
  inversion Hall as [|? ? Ht Hr]; subst.
  destruct toks as [|t2 toks].
  - cbn [join_with]. rewrite split_on_acc_nosep_end by assumption. reflexivity.
  - change (join_with [sep] (t :: t2 :: toks)) with (t ++ [sep] ++ join_with [sep] (t2 :: toks)).
    cbn [app]. rewrite split_on_acc_nosep by assumption. cbn [rev app].
    f_equal. apply IH; [discriminate|assumption].
Qed.

Lemma is_substring_single c l : is_substring [c] l = mem_Z c l.
Proof.
  induction l as [|x l IH]; cbn; [reflexivity|].
  rewrite IH. unfold mem_Z. cbn. destruct l; cbn; rewrite ?andb_true_r; reflexivity.
Qed.
