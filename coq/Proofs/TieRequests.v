(** The update-request fields and the region-capture box as regenerated ([Gen/ExprsRequests.v]) are the model's. *)
From Coq Require Import ZArith QArith List Bool Lia.
From VD Require Import Base.Bytes Base.Struct Gen.Formats Gen.ExprsRequests Model.ClientMsgs Model.ClientOps.
Import ListNotations.
Open Scope Z_scope.

(** ** framebufferUpdateRequest: the defaults (whole desktop from (x, y)) and the order of the packed fields *)
Theorem fbur_is_source s x y w h inc :
  fbur s x y w h inc =
  pack fmt_rfb_RFBClient_framebufferUpdateRequest_0 (map VI (gen_fbur_fields (cs_width s) (cs_height s) x y w h inc)).
Proof. unfold fbur, framebufferUpdateRequest, gen_fbur_fields. destruct w, h; reflexivity. Qed.

Theorem capture_region_box_is_source x y w h : gen_capture_region_box x y w h = (x, y, x + w, y + h).
Proof. reflexivity. Qed.
