(** The reference canvas with cursor ([ref_lstep]) specialises to the cursor-free reference of
    [C12_composition] when no cursor is ever set. *)
From Coq Require Import ZArith List Bool Lia.
From VD Require Import Base.Bytes Base.PixFmt Gen.Tables Model.Image Model.Screen.
From VD Require Import Proofs.ScreenP Proofs.CursorSizeP Proofs.MaskedPasteP Proofs.MaskedPasteNegP Proofs.CursorHistoryP.
Import ListNotations.
Open Scope Z_scope.

Lemma stamp_none f sz px py : stamp f sz None px py = f.
Proof. reflexivity. Qed.

Lemma ref_lstep_nocursor m px py : forall ops r, rcur r = None ->
  let R := fold_left (ref_lstep m true px py) ops r in
  rf R = fold_left ref_step (sops_of m ops) (rf r) /\
  rsz R = fold_left ref_size (sops_of m ops) (rsz r) /\ rcur R = None.
Proof.
  induction ops as [|o ops IH]; intros r Hc; cbn [fold_left sops_of].
  - repeat split; assumption.
  - rewrite !fold_left_app.
    assert (S1 : rcur (ref_lstep m true px py r o) = None /\
                 rf (ref_lstep m true px py r o) = fold_left ref_step (sop_of m o) (rf r) /\
                 rsz (ref_lstep m true px py r o) = fold_left ref_size (sop_of m o) (rsz r)).
    { destruct o as [x y w h data|w h|x y w h img msk]; cbn [ref_lstep sop_of].
      - destruct data as [|b data]; [repeat split; assumption|].
        destruct (frombytes m w h (b :: data)) as [u|]; [|repeat split; assumption].
        cbn [rcur rf rsz fold_left]. rewrite Hc, stamp_none. repeat split.
      - cbn [rcur rf rsz fold_left]. repeat split; assumption.
      - repeat split; assumption. }
    destruct S1 as (C1 & F1 & Z1). destruct (IH _ C1) as (F2 & Z2 & C2).
    rewrite F2, Z2, F1, Z1. repeat split; assumption.
Qed.

(** so under --nocursor the theorem with the cursor is the cursor-free composition theorem *)
Corollary ref_with_cursor_extends_cursor_free m px py ops :
  let R := fold_left (ref_lstep m true px py) ops r0 in
  rf R = fold_left ref_step (sops_of m ops) (fun _ _ => black) /\
  rsz R = fold_left ref_size (sops_of m ops) None.
Proof.
  cbv zeta. destruct (ref_lstep_nocursor m px py ops r0 eq_refl) as (F & Z & _). split; assumption.
Qed.
