(** Tie of the hand-written handler family to the source text: the expect() call graph that
    gen/formats.py reads from rfb.py must be the one Model/Rfb.v implements. *)
From Coq Require Import List String Bool.
From VD Require Import Gen.Formats.
Import ListNotations.
Open Scope string_scope.

Definition model_expect_graph : list (string * string) := [
  ("rfb_RFBClient_handleInitial", "_handleAuth");
  ("rfb_RFBClient_handleInitial", "_handleNumberSecurityTypes");
  ("rfb_RFBClient_handleNumberSecurityTypes", "_handleSecurityTypes");
  ("rfb_RFBClient_handleNumberSecurityTypes", "_handleConnFailed");
  ("rfb_RFBClient_handleSecurityTypes", "_handleVNCAuthResult");
  ("rfb_RFBClient_handleSecurityTypes", "_handleVNCAuth");
  ("rfb_RFBClient_handleSecurityTypes", "_handleDHAuth");
  ("rfb_RFBClient_handleAuth", "_handleConnFailed");
  ("rfb_RFBClient_handleAuth", "_handleVNCAuth");
  ("rfb_RFBClient_handleConnFailed", "_handleConnMessage");
  ("rfb_RFBClient_handleVNCAuth", "_handleVNCAuthResult");
  ("rfb_RFBClient_handleDHAuth", "_handleDHAuthKey");
  ("rfb_RFBClient_handleDHAuthKey", "_handleDHAuthCert");
  ("rfb_RFBClient_handleDHAuthCert", "_handleVNCAuthResult");
  ("rfb_RFBClient_handleVNCAuthResult", "_handleAuthFailed");
  ("rfb_RFBClient_handleVNCAuthResult", "_handleAuthFailed");
  ("rfb_RFBClient_handleAuthFailed", "_handleAuthFailedMessage");
  ("rfb_RFBClient_doClientInitialization", "_handleServerInit");
  ("rfb_RFBClient_handleServerInit", "_handleServerName");
  ("rfb_RFBClient_handleServerName", "_handleConnection");
  ("rfb_RFBClient_handleConnection", "_handleFramebufferUpdate");
  ("rfb_RFBClient_handleConnection", "_handleColourMapEntries");
  ("rfb_RFBClient_handleConnection", "_handleConnection");
  ("rfb_RFBClient_handleConnection", "_handleServerCutText");
  ("rfb_RFBClient_doConnection", "_handleRectangle");
  ("rfb_RFBClient_doConnection", "_handleConnection");
  ("rfb_RFBClient_handleRectangle", "_handleDecodeCopyrect");
  ("rfb_RFBClient_handleRectangle", "_handleDecodeRAW");
  ("rfb_RFBClient_handleRectangle", "_handleDecodeCORRE");
  ("rfb_RFBClient_handleRectangle", "_handleDecodeRRE");
  ("rfb_RFBClient_handleRectangle", "_handleDecodeZRLE");
  ("rfb_RFBClient_handleRectangle", "_handleDecodePsuedoCursor");
  ("rfb_RFBClient_handleDecodeRRE", "_handleRRESubRectangles");
  ("rfb_RFBClient_handleDecodeCORRE", "_handleDecodeCORRERectangles");
  ("rfb_RFBClient_doNextHextileSubrect", "_handleDecodeHextile");
  ("rfb_RFBClient_handleDecodeHextile", "_handleDecodeHextileRAW");
  ("rfb_RFBClient_handleDecodeHextile", "_handleDecodeHextileSubrect");
  ("rfb_RFBClient_handleDecodeHextileSubrect", "_handleDecodeHextileSubrectsColoured");
  ("rfb_RFBClient_handleDecodeHextileSubrect", "_handleDecodeHextileSubrectsFG");
  ("rfb_RFBClient_handleDecodeZRLE", "_handleDecodeZRLEdata");
  ("rfb_RFBClient_handleColourMapEntries", "_handleColourMapEntriesValue");
  ("rfb_RFBClient_handleColourMapEntriesValue", "_handleConnection");
  ("rfb_RFBClient_handleServerCutText", "_handleServerCutTextValue");
  ("rfb_RFBClient_handleServerCutTextValue", "_handleConnection")
].

(* the graph is a SET of edges: the order in which the source mentions them (branch order inside a handler, method
   order in the class) is not part of the tie *)
Definition edge_eqb (a b : string * string) : bool :=
  (if string_dec (fst a) (fst b) then true else false) && (if string_dec (snd a) (snd b) then true else false).

Definition edges_incl (a b : list (string * string)) : bool :=
  forallb (fun e => existsb (edge_eqb e) b) a.

(* the handlers of the handshake (up to the server's name); every other source handler belongs to the message phase *)
Definition handshake_sources : list string :=
  ["rfb_RFBClient_handleInitial"; "rfb_RFBClient_handleNumberSecurityTypes"; "rfb_RFBClient_handleSecurityTypes";
   "rfb_RFBClient_handleAuth"; "rfb_RFBClient_handleConnFailed"; "rfb_RFBClient_handleConnMessage"; "rfb_RFBClient_handleVNCAuth";
   "rfb_RFBClient_handleDHAuth"; "rfb_RFBClient_handleDHAuthKey"; "rfb_RFBClient_handleDHAuthCert";
   "rfb_RFBClient_handleVNCAuthResult"; "rfb_RFBClient_handleAuthFailed"; "rfb_RFBClient_handleAuthFailedMessage";
   "rfb_RFBClient_doClientInitialization"; "rfb_RFBClient_handleServerInit"; "rfb_RFBClient_handleServerName"].

Definition in_handshake (e : string * string) : bool :=
  existsb (fun h => if string_dec (fst e) h then true else false) handshake_sources.
Definition handshake_part (g : list (string * string)) := filter in_handshake g.
Definition message_part (g : list (string * string)) := filter (fun e => negb (in_handshake e)) g.
