(** Facts about the expect engine that hold for every handler family. *)
From Coq Require Import ZArith List Bool Lia.
From VD Require Import Base.Bytes Base.BytesP Model.Engine.
Import ListNotations.
Open Scope Z_scope.

Section EngineP.
  Variables st pend ev : Type.
  Variable need : st -> pend -> Z.
  Variable step : st -> pend -> bytes -> res st pend ev.

  Notation Drain := (Drain st pend ev need step).
  Notation Feed := (Feed st pend ev need step).
  Notation Run := (Run st pend ev need step).
  Notation drain_fuel := (drain_fuel st pend ev need step).

  Lemma Drain_det s p buf es r n :
    Drain s p buf es r n -> forall es' r' n', Drain s p buf es' r' n' -> es = es' /\ r = r' /\ n = n'.
  Proof.
    induction 1 as [s p buf Hn|s p buf blk rest s' p' es es2 r n Ht Hs _ IH|s p buf blk rest es Ht Hs];
      intros es' r' n' H'.
    - inversion H'; subst; [auto|congruence|congruence].
    - inversion H' as [|? ? ? blk2 rest2 s2 p2 es1' es2' r2 n2 Ht2 Hs2 Hd2|? ? ? blk2 rest2 es1' Ht2 Hs2]; subst.
      + congruence.
      + rewrite Ht in Ht2; inversion Ht2; subst.
        rewrite Hs in Hs2; inversion Hs2; subst.
        apply IH in Hd2 as (-> & -> & ->). auto.
      + rewrite Ht in Ht2; inversion Ht2; subst. congruence.
    - inversion H' as [|? ? ? blk2 rest2 s2 p2 es1' es2' r2 n2 Ht2 Hs2 Hd2|? ? ? blk2 rest2 es1' Ht2 Hs2]; subst.
      + congruence.
      + rewrite Ht in Ht2; inversion Ht2; subst. congruence.
      + rewrite Ht in Ht2; inversion Ht2; subst.
        rewrite Hs in Hs2; inversion Hs2; subst. auto.
  Qed.

  (** chunking lemma, forward direction *)
  Lemma Drain_app s p buf es s1 p1 b1 n1 :
    Drain s p buf es (Idle s1 p1 b1) n1 ->
    forall x es2 r n2, Drain s1 p1 (b1 ++ x) es2 r n2 -> Drain s p (buf ++ x) (es ++ es2) r (n1 + n2).
  Proof.
    intros H. remember (Idle s1 p1 b1) as o eqn:Eo. revert Eo.
    induction H as [s p buf Hn|s p buf blk rest s' p' es es2 r n Ht Hs _ IH|s p buf blk rest es Ht Hs];
      intros Eo x es2' r' n2 H2.
    - inversion Eo; subst. exact H2.
    - subst r. rewrite <- app_assoc. cbn [Nat.add]. eapply D_step.
      + apply take_app. exact Ht.
      + exact Hs.
      + apply IH; [reflexivity|exact H2].
    - discriminate.
  Qed.

  Lemma Drain_app_crash s p buf es n x :
    Drain s p buf es Crashed n -> Drain s p (buf ++ x) es Crashed n.
  Proof.
    intros H. remember Crashed as o eqn:Eo. revert Eo.
    induction H as [s p buf Hn|s p buf blk rest s' p' es es2 r n Ht Hs _ IH|s p buf blk rest es Ht Hs];
      intros Eo; [discriminate| |].
    - eapply D_step; [apply take_app; exact Ht|exact Hs|apply IH; exact Eo].
    - eapply D_raise; [apply take_app; exact Ht|exact Hs].
  Qed.

  Lemma take_app_none {A} n (l x : list A) : take n (l ++ x) = None -> take n l = None.
  Proof.
    intros H. apply take_none in H. apply take_none. rewrite len_app in H.
    pose proof (len_nonneg x). lia.
  Qed.

  Lemma take_app_split {A} n (l x a b : list A) :
    take n (l ++ x) = Some (a, b) ->
    (exists b', take n l = Some (a, b') /\ b = b' ++ x) \/ take n l = None.
  Proof.
    intros H. destruct (take n l) as [[a' b']|] eqn:E; [left|right; reflexivity].
    pose proof (take_app _ _ x _ _ E) as E2. rewrite E2 in H. inversion H; subst. eauto.
  Qed.

  (** chunking lemma, backward direction *)
  Lemma Drain_unapp s p bx es r n :
    Drain s p bx es r n -> forall buf x, bx = buf ++ x ->
    (exists es1 s1 p1 b1 n1 es2 n2,
        Drain s p buf es1 (Idle s1 p1 b1) n1 /\ Drain s1 p1 (b1 ++ x) es2 r n2 /\
        es = es1 ++ es2 /\ n = (n1 + n2)%nat) \/
    (r = Crashed /\ Drain s p buf es Crashed n).
  Proof.
    induction 1 as [s p bx Hn|s p bx blk rest s' p' es es2 r n Ht Hs Hd IH|s p bx blk rest es Ht Hs];
      intros buf x E; subst bx.
    - left. exists [], s, p, buf, O, [], O. repeat split.
      + apply D_wait. eapply take_app_none; eassumption.
      + apply D_wait. assumption.
    - destruct (take_app_split _ _ _ _ _ Ht) as [(b' & Ht' & ->)|Hnone].
      + destruct (IH b' x eq_refl) as [(es1 & s1 & p1 & b1 & n1 & es2' & n2 & D1 & D2 & -> & ->)|[-> D1]].
        * left. exists (es ++ es1), s1, p1, b1, (S n1), es2', n2. repeat split.
          -- eapply D_step; eassumption.
          -- exact D2.
          -- apply app_assoc.
        * right. split; [reflexivity|]. eapply D_step; eassumption.
      + left. exists [], s, p, buf, O, (es ++ es2), (S n). repeat split.
        * apply D_wait; assumption.
        * eapply D_step; eassumption.
    - destruct (take_app_split _ _ _ _ _ Ht) as [(b' & Ht' & ->)|Hnone].
      + right. split; [reflexivity|]. eapply D_raise; eassumption.
      + left. exists [], s, p, buf, O, es, 1%nat. repeat split.
        * apply D_wait; assumption.
        * eapply D_raise; eassumption.
  Qed.

  (** feeding [a] then [b] is feeding [a ++ b] *)
  Theorem Feed_app o a b es r n :
    (exists es1 o1 n1 es2 n2, Feed o a es1 o1 n1 /\ Feed o1 b es2 r n2 /\ es = es1 ++ es2 /\ n = (n1 + n2)%nat)
    <-> Feed o (a ++ b) es r n.
  Proof.
    split.
    - intros (es1 & o1 & n1 & es2 & n2 & F1 & F2 & -> & ->).
      inversion F1; subst.
      + inversion F2; subst.
        * constructor. rewrite app_assoc. eapply Drain_app; eassumption.
        * constructor. rewrite app_assoc, app_nil_r, Nat.add_0_r. apply Drain_app_crash. assumption.
      + inversion F2; subst. constructor.
    - intros F. inversion F; subst.
      + match goal with H : Drain _ _ _ _ _ _ |- _ => rename H into D end.
        rewrite app_assoc in D.
        destruct (Drain_unapp _ _ _ _ _ _ D (buf ++ a) b eq_refl)
          as [(es1 & s1 & p1 & b1 & n1 & es2 & n2 & D1 & D2 & -> & ->)|[-> D1]].
        * exists es1, (Idle s1 p1 b1), n1, es2, n2. repeat split; constructor; assumption.
        * exists es, Crashed, n, [], O. repeat split; try constructor; try assumption.
          -- rewrite app_nil_r; reflexivity.
          -- lia.
      + exists [], Crashed, O, [], O. repeat split; constructor.
  Qed.

  (** an outcome is quiescent when it is not waiting with enough bytes already buffered;
      every outcome the engine produces is *)
  Definition quiescent (o : outcome st pend) : Prop :=
    match o with Idle s p buf => take (need s p) buf = None | Crashed => True end.

  Lemma Drain_quiescent s p buf es r n : Drain s p buf es r n -> quiescent r.
  Proof. induction 1; cbn; auto. Qed.

  Lemma Feed_quiescent o d es r n : quiescent o -> Feed o d es r n -> quiescent r.
  Proof. intros Q F; inversion F; subst; [eapply Drain_quiescent; eassumption|exact I]. Qed.

  Lemma Feed_nil o : quiescent o -> Feed o [] [] o 0.
  Proof.
    destruct o as [s p buf|]; intros Q; [|constructor].
    constructor. rewrite app_nil_r. apply D_wait. exact Q.
  Qed.

  Lemma Feed_det o d es r n es' r' n' : Feed o d es r n -> Feed o d es' r' n' -> es = es' /\ r = r' /\ n = n'.
  Proof.
    intros F1 F2; inversion F1; subst; inversion F2; subst; [|auto].
    eapply Drain_det; eassumption.
  Qed.

  (** every chunking of a stream behaves as the stream delivered whole *)
  Theorem Run_concat chunks : forall o es r n,
    quiescent o -> (Run o chunks es r n <-> Feed o (concat chunks) es r n).
  Proof.
    induction chunks as [|d ds IH]; intros o es r n Q; cbn [concat].
    - split; intros H.
      + inversion H; subst. apply Feed_nil; exact Q.
      + destruct (Feed_det _ _ _ _ _ _ _ _ H (Feed_nil o Q)) as (-> & -> & ->). constructor.
    - split.
      + intros H. inversion H; subst. apply Feed_app. do 5 eexists.
        repeat split; [eassumption|].
        apply IH; [eapply Feed_quiescent; eassumption|eassumption].
      + intros H. apply Feed_app in H as (es1 & o1 & n1 & es2 & n2 & F1 & F2 & -> & ->).
        econstructor; [eassumption|]. apply IH; [eapply Feed_quiescent; eassumption|assumption].
  Qed.

  (** two chunkings of the same stream are indistinguishable *)
  Corollary chunking_invariance o c1 c2 es r n :
    quiescent o -> concat c1 = concat c2 -> (Run o c1 es r n <-> Run o c2 es r n).
  Proof.
    intros Q E. rewrite (Run_concat c1 o es r n Q), (Run_concat c2 o es r n Q), E. reflexivity.
  Qed.

  (** the executable drain agrees with the relation *)
  Lemma drain_fuel_sound fuel : forall s p buf es r n,
    drain_fuel fuel s p buf = Some (es, r, n) -> Drain s p buf es r n.
  Proof.
    induction fuel as [|f IH]; intros s p buf es r n H; cbn [Engine.drain_fuel] in H.
    - destruct (take (need s p) buf) as [[blk rest]|] eqn:Et; [discriminate|].
      inversion H; subst. apply D_wait; exact Et.
    - destruct (take (need s p) buf) as [[blk rest]|] eqn:Et.
      + destruct (step s p blk) as [s' p' es1|es1] eqn:Es.
        * destruct (Engine.drain_fuel _ _ _ _ _ f s' _ rest) as [[[es2 r2] n2]|] eqn:Ed; [|discriminate].
          inversion H; subst. eapply D_step; [exact Et|exact Es|apply IH; exact Ed].
        * inversion H; subst. eapply D_raise; eassumption.
      + inversion H; subst. apply D_wait; exact Et.
  Qed.

  Lemma drain_fuel_complete s p buf es r n :
    Drain s p buf es r n -> forall fuel, (n <= fuel)%nat -> drain_fuel fuel s p buf = Some (es, r, n).
  Proof.
    induction 1 as [s p buf Hn|s p buf blk rest s' p' es es2 r n Ht Hs _ IH|s p buf blk rest es Ht Hs];
      intros fuel Hf.
    - destruct fuel; cbn [Engine.drain_fuel]; rewrite Hn; reflexivity.
    - destruct fuel as [|f]; [lia|]. cbn [Engine.drain_fuel]. rewrite Ht, Hs, IH by lia. reflexivity.
    - destruct fuel as [|f]; [lia|]. cbn [Engine.drain_fuel]. rewrite Ht, Hs. reflexivity.
  Qed.

  (** *** termination with a linear bound (C15)

      [rank] bounds the length of chains of zero-length expectations: every handler step
      that consumes no byte lowers it, and it never exceeds [R].  [Inv] is an invariant of the
      (state, pending expectation) pair that the steps preserve. *)
  Variable Inv : st -> pend -> Prop.
  Variable rank : st -> pend -> nat.
  Variable R : nat.
  Hypothesis rank_le : forall s p, (rank s p <= R)%nat.
  Hypothesis step_inv : forall s p blk s' p' es,
    Inv s p -> bytes_ok blk = true -> step s p blk = Ok s' p' es ->
    Inv s' (next_pend pend p p') /\ (need s p <= 0 -> (rank s' (next_pend pend p p') < rank s p)%nat).

  Lemma bytes_ok_app a b : bytes_ok (a ++ b) = true <-> bytes_ok a = true /\ bytes_ok b = true.
  Proof. unfold bytes_ok. rewrite forallb_app. apply andb_true_iff. Qed.

  Theorem terminates_linear_inv : forall s p buf,
    Inv s p -> bytes_ok buf = true ->
    exists es r n, Drain s p buf es r n /\ (n <= (R + 1) * length buf + rank s p + 1)%nat.
  Proof.
    intros s p buf.
    remember ((R + 1) * length buf + rank s p)%nat as mu eqn:Emu.
    revert s p buf Emu. induction mu as [mu IH] using lt_wf_ind. intros s p buf Emu HI Hb.
    destruct (take (need s p) buf) as [[blk rest]|] eqn:Et.
    - pose proof (take_some_app _ _ _ _ Et) as Eb.
      assert (Hbb : bytes_ok blk = true /\ bytes_ok rest = true) by (apply bytes_ok_app; rewrite <- Eb; exact Hb).
      destruct Hbb as [Hblk Hrest].
      destruct (step s p blk) as [s' p' es|es] eqn:Es.
      + destruct (step_inv _ _ _ _ _ _ HI Hblk Es) as [HI' Hlow].
        assert (Hmu : ((R + 1) * length rest + rank s' (next_pend pend p p') < mu)%nat).
        { subst buf. rewrite app_length in Emu.
          destruct (Z.le_gt_cases (need s p) 0) as [E0|E0].
          - rewrite take_le0 in Et by exact E0. inversion Et; subst. cbn [length] in *.
            specialize (Hlow E0). cbn [Nat.add] in *. nia.
          - assert (Hn0 : 0 <= need s p) by lia. pose proof (take_some_len _ _ _ _ Hn0 Et) as El. unfold len in El.
            assert (1 <= length blk)%nat by lia.
            pose proof (rank_le s' (next_pend pend p p')). nia. }
        destruct (IH _ Hmu s' (next_pend pend p p') rest eq_refl HI' Hrest) as (es2 & r & n & D & B).
        exists (es ++ es2), r, (S n). split; [eapply D_step; eassumption|]. lia.
      + exists es, Crashed, 1%nat. split; [eapply D_raise; eassumption|]. lia.
    - exists [], (Idle s p buf), 0%nat. split; [apply D_wait; exact Et|lia].
  Qed.

  (** the shape of every "loops forever" defect: a zero-length expectation whose handler
      does not register a new one *)
  Theorem spin_no_derivation s p buf :
    need s p = 0 -> (forall blk, exists es, step s p blk = Ok s None es) ->
    forall es r n, ~ Drain s p buf es r n.
  Proof.
    intros H0 Hs es r n D. revert H0 Hs.
    induction D as [s p buf Hn|s p buf blk rest s' p' es es2 r n Ht Hst _ IH|s p buf blk rest es Ht Hst];
      intros H0 Hs.
    - rewrite H0 in Hn. rewrite take_le0 in Hn by lia. discriminate.
    - destruct (Hs blk) as (es' & E). rewrite E in Hst. inversion Hst; subst.
      apply IH; assumption.
    - destruct (Hs blk) as (es' & E). congruence.
  Qed.
End EngineP.
