(** expect: the comparison and the polling loop (C07). *)
From Coq Require Import ZArith List Bool Lia PrimFloat Uint63.
From VD Require Import Base.Bytes Base.BytesP Model.Image Model.Expect.
Import ListNotations.
Open Scope Z_scope.

(** *** polling *)
Section PollP.
  Variable S : Type.
  Variable matches : option S -> bool.

  Lemma poll_idle screens : poll_commits S matches false screens = map (fun _ => []) screens.
  Proof. induction screens as [|s r IH]; cbn; [reflexivity|]. rewrite IH. reflexivity. Qed.

  (** no committed screen matches: one incremental request after every commit, never done *)
  Theorem poll_all_miss screens :
    (forall s, In s screens -> matches (Some s) = false) ->
    poll_commits S matches true screens = map (fun _ => [PReq true]) screens.
  Proof.
    induction screens as [|s r IH]; intros H; cbn; [reflexivity|].
    rewrite (H s (or_introl eq_refl)). rewrite IH; [reflexivity|]. intros s' Hs'. apply H. right. exact Hs'.
  Qed.

  (** the first matching commit completes the wait; exactly one request after each earlier commit;
      nothing afterwards *)
  Theorem poll_first_match pre s post :
    (forall s', In s' pre -> matches (Some s') = false) -> matches (Some s) = true ->
    poll_commits S matches true (pre ++ s :: post) =
      map (fun _ => [PReq true]) pre ++ [PDone] :: map (fun _ => []) post.
  Proof.
    induction pre as [|p pre IH]; intros Hpre Hs; cbn [app poll_commits map].
    - rewrite Hs, poll_idle. reflexivity.
    - rewrite (Hpre p (or_introl eq_refl)). rewrite IH; [reflexivity| |exact Hs].
      intros s' Hs'. apply Hpre. right. exact Hs'.
  Qed.

  (** the call itself: completes at once iff the current screen matches; otherwise exactly one request,
      incremental iff a screen exists *)
  Theorem poll_start_spec scr :
    poll_start S matches scr =
      if matches scr then ([PDone], false)
      else ([PReq (match scr with Some _ => true | None => false end)], true).
  Proof. reflexivity. Qed.
End PollP.

(** *** histograms *)
Lemma zseq_length n a : length (zseq n a) = n.
Proof. revert a; induction n; intros; cbn; auto. Qed.

Lemma band_hist_len vals : len (band_hist vals) = 256.
Proof. unfold band_hist, len. rewrite map_length, zseq_length. reflexivity. Qed.

Lemma histogram_len px : len (histogram px) = 768.
Proof. unfold histogram. rewrite !len_app, !band_hist_len. reflexivity. Qed.

Lemma sumsq_refl h : sumsq h h = 0.
Proof. induction h as [|x h IH]; cbn [sumsq]; [reflexivity|]. rewrite IH. lia. Qed.

Lemma sumsq_nonneg h : forall e, 0 <= sumsq h e.
Proof.
  induction h as [|x h IH]; intros [|y e]; cbn [sumsq]; try lia.
  specialize (IH e). pose proof (Z.square_nonneg (x - y)) as Q. unfold Z.square in Q. lia.
Qed.

Lemma sumsq_zero h : forall e, length h = length e -> sumsq h e = 0 -> h = e.
Proof.
  induction h as [|x h IH]; intros [|y e] Hl Hs; cbn in *; try discriminate; [reflexivity|].
  pose proof (sumsq_nonneg h e). pose proof (Z.square_nonneg (x - y)) as Q.
  assert (Q0 : (x - y) * (x - y) = 0) by lia. assert (x = y) by nia. subst. f_equal. apply IH; [lia|lia].
Qed.

(** the comparison, spelled out: completes iff a screen exists, the awaited histogram has 768 bins and
    the RMS of the difference to the histogram of the crop at the box is within the tolerance *)
Theorem matches_iff scr box expected maxrms :
  expect_matches scr box expected maxrms = true <->
  exists im, scr = Some im /\ len expected = 768 /\
    let '(x0, y0, x1, y1) := box in
    rms_le (sumsq (histogram (crop_rows im x0 y0 x1 y1)) expected) 768 maxrms = true.
Proof.
  unfold expect_matches. destruct scr as [im|].
  - destruct box as [[[x0 y0] x1] y1]. rewrite histogram_len. split.
    + intros H. apply andb_prop in H as [H1 H2]. apply Z.eqb_eq in H1. exists im. auto.
    + intros (im' & E & Hl & H). inversion E; subst im'. rewrite Hl. exact H.
  - split; [discriminate|]. intros (im & E & _). discriminate.
Qed.

Lemma rms_zero_is_zero : rms 0 768 = zero.
Proof. vm_compute. reflexivity. Qed.

(** a region pixel-identical to the awaited image matches at every tolerance t with 0 <= t *)
Theorem identical_matches im x0 y0 x1 y1 awaited maxrms :
  crop_rows im x0 y0 x1 y1 = awaited -> PrimFloat.leb zero maxrms = true ->
  expect_matches (Some im) (x0, y0, x1, y1) (histogram awaited) maxrms = true.
Proof.
  intros E Hm. unfold expect_matches. rewrite E, !histogram_len, Z.eqb_refl, sumsq_refl. cbn [andb].
  unfold rms_le. rewrite rms_zero_is_zero. exact Hm.
Qed.

Section Tolerance0.
  (** the one fact about binary64 this direction needs, satisfied by IEEE arithmetic *)
  Hypothesis rms_pos : forall s, 0 < s -> rms_le s 768 zero = false.

  Theorem match_at_zero_means_equal_histograms im box awaited :
    expect_matches (Some im) box (histogram awaited) zero = true ->
    let '(x0, y0, x1, y1) := box in histogram (crop_rows im x0 y0 x1 y1) = histogram awaited.
  Proof.
    intros H. destruct box as [[[x0 y0] x1] y1]. unfold expect_matches in H. rewrite !histogram_len in H. cbn [Z.eqb andb] in H.
    change (768 =? 768) with true in H. cbn [andb] in H.
    set (h := histogram (crop_rows im x0 y0 x1 y1)) in *. set (e := histogram awaited) in *.
    pose proof (sumsq_nonneg h e) as N.
    destruct (Z.eq_dec (sumsq h e) 0) as [Z0|NZ].
    - apply sumsq_zero; [|exact Z0]. pose proof (histogram_len (crop_rows im x0 y0 x1 y1)). pose proof (histogram_len awaited).
      unfold len in *. fold h in H0. fold e in H1. lia.
    - rewrite rms_pos in H by lia. discriminate.
  Qed.
End Tolerance0.
