(** A capture is saved only at the commit of an update, exactly once (C06): a predicate on handler
    results that every handler of the RFB client model satisfies. *)
From Coq Require Import ZArith List Bool Lia.
From RecordUpdate Require Import RecordSet.
Import RecordSetNotations.
From VD Require Import Base.Bytes Base.BytesP Base.Struct Base.PixFmt Gen.Tables Gen.Formats.
From VD Require Import Model.Engine Model.ClientMsgs Model.Auth Model.Rfb Proofs.EngineP.
Import ListNotations.
Open Scope Z_scope.

Definition is_save (e : ev) : bool := match e with ESave => true | _ => false end.
Definition no_save (es : list ev) : Prop := forallb (fun e => negb (is_save e)) es = true.

(** the events of one handler invocation started with waiter [w]: either nothing is saved and the
    waiter is untouched, or the waiter was set, the LAST two events are "commit, save", nothing else
    is a save, and the waiter is cleared *)
Definition save_shape (w : bool) (es : list ev) (w' : bool) : Prop :=
  (no_save es /\ w' = w) \/
  (w = true /\ w' = false /\ exists pre rp, es = pre ++ [ECommit rp; ESave] /\ no_save pre).

Definition sres (w : bool) (r : Engine.res st pend ev) : Prop :=
  match r with
  | Ok s' _ es => save_shape w es (waiter s')
  | Raise es => no_save es
  end.

Lemma no_save_app a b : no_save a -> no_save b -> no_save (a ++ b).
Proof. unfold no_save. intros A B. rewrite forallb_app, A, B. reflexivity. Qed.

Lemma sres_prepend w es r : no_save es -> sres w r -> sres w (prepend es r).
Proof.
  intros N. destruct r as [s' q es'|es']; cbn [prepend sres]; [|apply no_save_app; exact N].
  intros [[A B]|(A & B & pre & rp & E & P)]; [left; split; [apply no_save_app; assumption|exact B]|right].
  split; [exact A|]. split; [exact B|]. exists (es ++ pre), rp. split; [rewrite E, app_assoc; reflexivity|apply no_save_app; assumption].
Qed.

Lemma sres_upd w s x y ww h d k : sres w k -> sres w (upd s x y ww h d k).
Proof. intros H. unfold upd. destruct (upd_raises _ _ _ _); [reflexivity|apply sres_prepend; [reflexivity|exact H]]. Qed.

Lemma sres_fill w s x y ww h c k : sres w k -> sres w (fill s x y ww h c k).
Proof.
  intros H. unfold fill. destruct c as [c|]; [|reflexivity].
  destruct (_ && _); [reflexivity|apply sres_prepend; [reflexivity|exact H]].
Qed.

Lemma sres_fills w s l k : sres w k -> sres w (fills s l k).
Proof. intros H. induction l as [|[[[[x y] ww] h] c] l IH]; cbn [fills]; [exact H|apply sres_fill; exact IH]. Qed.

Lemma sres_do_connection s : sres (waiter s) (do_connection s).
Proof.
  unfold do_connection. destruct (negb (rects s =? 0)); [left; split; reflexivity|].
  destruct (rectpos s) as [|p0 ps] eqn:Er; [left; split; reflexivity|].
  unfold commit. destruct (negb (c_variant (cf s) =? 0) && waiter s) eqn:E.
  - apply andb_prop in E as [_ W]. cbn [ok sres]. right. rewrite W. split; [reflexivity|]. split; [reflexivity|].
    exists [], (rectpos s). split; reflexivity.
  - cbn [ok sres]. left. split; reflexivity.
Qed.

Lemma sres_do_connection_eq w s : waiter s = w -> sres w (do_connection s).
Proof. intros <-. apply sres_do_connection. Qed.

Lemma sres_hex_next s bg fg x y ww h tx ty : sres (waiter s) (hex_next s bg fg x y ww h tx ty).
Proof.
  unfold hex_next. destruct (tx + 16 >=? x + ww); (destruct (_ || _); [apply sres_do_connection|left; split; reflexivity]).
Qed.

Lemma sres_hex_first s x y ww h : sres (waiter s) (hex_first s x y ww h).
Proof. unfold hex_first. destruct (_ || _); [apply sres_do_connection|left; split; reflexivity]. Qed.

Lemma sres_zrle fuel : forall s it x y ww h tx ty, sres (waiter s) (zrle_tiles fuel s it x y ww h tx ty).
Proof.
  induction fuel as [|f IH]; intros s it x y ww h tx ty; cbn [zrle_tiles]; [reflexivity|].
  destruct it as [|sub it1]; [apply sres_do_connection|]. cbv zeta.
  assert (N : forall it', sres (waiter s) (let '(tx2, ty2) := if tx + 64 >=? x + ww then (x, ty + 64) else (tx + 64, ty) in
                                         zrle_tiles f s it' x y ww h tx2 ty2)).
  { intros it'. destruct (tx + 64 >=? x + ww); apply IH. }
  repeat match goal with
         | |- sres _ (if ?c then _ else _) => destruct c
         | |- sres _ (match ?x with _ => _ end) => destruct x
         | |- sres _ (upd _ _ _ _ _ _ _) => apply sres_upd
         | |- sres _ (fill _ _ _ _ _ _ _) => apply sres_fill
         | |- sres _ (Raise []) => reflexivity
         end; try apply N.
Qed.

Lemma sres_client_init s : sres (waiter s) (client_init s).
Proof. unfold client_init. destruct (pack _ _); [left; split; reflexivity|reflexivity]. Qed.

Lemma sres_request_password s : sres (waiter s) (request_password s).
Proof.
  unfold request_password. destruct (password s) as [pw|].
  - destruct (vnc_key pw); [left; split; reflexivity|reflexivity].
  - destruct (c_variant (cf s) =? 0); [left; split; reflexivity|].
    destruct (_ || _); [left; split; reflexivity|].
    destruct (vnc_key _); [left; split; reflexivity|reflexivity].
Qed.

Lemma sres_zrle_eq w fuel s it x y ww h tx ty : waiter s = w -> sres w (zrle_tiles fuel s it x y ww h tx ty).
Proof. intros <-. apply sres_zrle. Qed.
Lemma sres_hex_next_eq w s bg fg x y ww h tx ty : waiter s = w -> sres w (hex_next s bg fg x y ww h tx ty).
Proof. intros <-. apply sres_hex_next. Qed.
Lemma sres_hex_first_eq w s x y ww h : waiter s = w -> sres w (hex_first s x y ww h).
Proof. intros <-. apply sres_hex_first. Qed.
Lemma sres_client_init_eq w s : waiter s = w -> sres w (client_init s).
Proof. intros <-. apply sres_client_init. Qed.
Lemma sres_request_password_eq w s : waiter s = w -> sres w (request_password s).
Proof. intros <-. apply sres_request_password. Qed.

Lemma connection_made_spec s :
  waiter (fst (connection_made s)) = waiter s /\
  match snd (connection_made s) with Some es => no_save es | None => True end.
Proof.
  unfold connection_made. destruct (c_variant (cf s) =? 0); [split; reflexivity|].
  destruct (lookup_mode (pf s)) as [m|].
  - destruct (setEncodings (encodings_of (cf s))); cbn [opt_write fst snd]; split; reflexivity.
  - match goal with |- context [lookup_mode ?p] => destruct (lookup_mode p) as [m|] end.
    + match goal with |- context [setPixelFormat ?p] => destruct (setPixelFormat p) end; cbn [opt_write];
        destruct (setEncodings (encodings_of (cf s))); cbn [opt_write fst snd]; split; reflexivity.
    + cbn [fst snd]. split; reflexivity.
Qed.

Ltac sres_go :=
  repeat first
    [ reflexivity
    | apply sres_prepend; [reflexivity|]
    | apply sres_upd | apply sres_fill | apply sres_fills
    | apply sres_do_connection_eq; reflexivity
    | apply sres_hex_next_eq; reflexivity | apply sres_hex_first_eq; reflexivity | apply sres_zrle_eq; reflexivity
    | apply sres_client_init_eq; reflexivity | apply sres_request_password_eq; reflexivity
    | (left; split; reflexivity)
    | match goal with
      | |- sres _ (if ?c then _ else _) => destruct c
      | |- sres _ (match (match ?y with _ => _ end) with _ => _ end) => destruct y
      | |- sres _ (match ?x with _ => _ end) => destruct x
      | |- sres _ (let '(_, _) := (match ?y with _ => _ end) in _) => destruct y
      | |- sres _ (let '(_, _) := ?x in _) => destruct x
      end
    | match goal with |- context [if ?c then _ else _] => destruct c end ].

(** every handler of the RFB client: saves only as "commit, save" at the very end, at most once, and
    only if a capture was waiting *)
Theorem step_saves s p b : sres (waiter s) (step s p b).
Proof.
  destruct p; cbn [step]; cbv zeta;
    try (match goal with |- context [connection_made s] =>
           pose proof (connection_made_spec s) as [CW CE]; destruct (connection_made s) as [s' [es|]]; cbn [fst snd] in *;
           [left; split; [exact CE|exact CW]|reflexivity] end);
    sres_go.
Qed.

(** *** from one handler to whole runs of the expect loop *)

Definition is_commit (e : ev) : bool := match e with ECommit _ => true | _ => false end.

(* every save is immediately preceded by a commit ([pc]: the event before the list was a commit) *)
Fixpoint saves_at_commits (pc : bool) (es : list ev) : bool :=
  match es with
  | [] => true
  | e :: r => (if is_save e then pc else true) && saves_at_commits (is_commit e) r
  end.

Fixpoint count_save (es : list ev) : nat :=
  match es with [] => 0%nat | e :: r => ((if is_save e then 1 else 0) + count_save r)%nat end.

Lemma sac_mono es : forall pc, saves_at_commits false es = true -> saves_at_commits pc es = true.
Proof. destruct es as [|e r]; intros pc H; [reflexivity|]. cbn in *. destruct (is_save e); [discriminate|exact H]. Qed.

Lemma sac_app a : forall pc b, saves_at_commits pc a = true -> saves_at_commits false b = true -> saves_at_commits pc (a ++ b) = true.
Proof.
  induction a as [|e a IH]; intros pc b Ha Hb; cbn [app]; [apply sac_mono; exact Hb|].
  cbn [saves_at_commits] in *. apply andb_prop in Ha as [H1 H2]. rewrite H1. cbn [andb]. apply IH; assumption.
Qed.

Lemma count_save_app a b : count_save (a ++ b) = (count_save a + count_save b)%nat.
Proof. induction a as [|e a IH]; cbn [app count_save]; [reflexivity|]. rewrite IH. lia. Qed.

Lemma no_save_facts es : no_save es -> forall pc, saves_at_commits pc es = true /\ count_save es = 0%nat.
Proof.
  unfold no_save. induction es as [|e r IH]; intros H pc; [split; reflexivity|].
  cbn [forallb] in H. apply andb_prop in H as [H1 H2]. cbn [saves_at_commits count_save].
  destruct (is_save e); [discriminate|]. destruct (IH H2 (is_commit e)) as [A B]. rewrite A, B. split; reflexivity.
Qed.

Lemma save_shape_facts w es w' : save_shape w es w' ->
  saves_at_commits false es = true /\
  ((count_save es = 0%nat /\ w' = w) \/ (count_save es = 1%nat /\ w = true /\ w' = false)).
Proof.
  intros [[N E]|(Hw & Hw' & pre & rp & E & N)].
  - destruct (no_save_facts es N false) as [A B]. split; [exact A|left; split; assumption].
  - destruct (no_save_facts pre N false) as [A B]. subst es. split.
    + apply sac_app; [exact A|reflexivity].
    + right. rewrite count_save_app, B. split; [reflexivity|split; assumption].
Qed.

Notation Drain := (Drain st pend ev need step).

(** For every run of the expect loop on any bytes: every image is saved immediately after a commit (so
    never between the beginning of an update and its commit, never on other messages), at most one image
    is saved, none unless a capture was waiting, and the waiter is cleared exactly when it was served. *)
Theorem drain_saves : forall s p buf es r n,
  Drain s p buf es r n ->
  saves_at_commits false es = true /\
  (count_save es <= (if waiter s then 1 else 0))%nat /\
  match r with
  | Idle s' _ _ => waiter s' = (waiter s && Nat.eqb (count_save es) 0)
  | Crashed => True
  end.
Proof.
  induction 1 as [s p buf Hn|s p buf blk rest s' p' es es2 r n Ht Hs _ IH|s p buf blk rest es Ht Hs].
  - cbn. split; [reflexivity|]. split; [destruct (waiter s); lia|]. rewrite andb_true_r. reflexivity.
  - pose proof (step_saves s p blk) as SS. rewrite Hs in SS. cbn [sres] in SS.
    destruct (save_shape_facts _ _ _ SS) as [A C]. destruct IH as (A2 & C2 & R2).
    split; [apply sac_app; assumption|]. rewrite count_save_app.
    destruct C as [[C0 Ew]|(C1 & Ew & Ew')].
    + rewrite C0, Ew in *. cbn [Nat.add]. split; [exact C2|exact R2].
    + rewrite C1, Ew, Ew' in *. cbn in C2. assert (Z2 : count_save es2 = 0%nat) by lia. rewrite Z2 in *.
      split; [cbn; lia|]. destruct r; [|exact I]. cbn in R2 |- *. exact R2.
  - pose proof (step_saves s p blk) as SS. rewrite Hs in SS. cbn [sres] in SS.
    destruct (no_save_facts es SS false) as [A B]. rewrite B. split; [exact A|]. split; [destruct (waiter s); lia|exact I].
Qed.
