(** Server -> viewer leg of the logging proxy (C16) and, equally, the library client on a valid server
    session (C02): a session made of FramebufferUpdates (Raw / CopyRect / RRE / CoRRE / Hextile rectangles,
    any mix, any number), Bells and ServerCutTexts, of any length, is consumed exactly and never raises: the
    client ends idle at a message boundary with an empty buffer.  With the chunking theorem (C01) the
    same holds under every chunking. *)
From Coq Require Import ZArith List Bool Lia.
From RecordUpdate Require Import RecordSet.
Import RecordSetNotations.
From VD Require Import Base.Bytes Base.BytesP Base.Struct Gen.Tables Gen.Formats.
From VD Require Import Model.Engine Model.ClientMsgs Model.Auth Model.Rfb Spec.C2S Proofs.C2SP Proofs.DecodeP Proofs.RreP Proofs.HextileP Proofs.UpdateP.
Import ListNotations.
Open Scope Z_scope.

(** ServerCutText (7.6.4) *)
Theorem cut_step s p1 p2 p3 text tail es r n :
  len text < 4294967296 ->
  Drain s PConnection tail es r n ->
  Drain s PConnection ([3; p1; p2; p3] ++ be_enc 4 (len text) ++ text ++ tail) ([ECutText text] ++ es) r (S (S (S n))).
Proof.
  intros Hn HD. pose proof (len_nonneg text) as H0.
  assert (D' : be_dec (be_enc 4 (len text)) = len text) by (apply be_dec_enc; change (256 ^ Z.of_nat 4) with 4294967296; lia).
  change ([ECutText text] ++ es) with ([] ++ [] ++ [ECutText text] ++ es).
  eapply D_step.
  - cbn [need]. change ([3; p1; p2; p3] ++ be_enc 4 (len text) ++ text ++ tail)
      with ([3] ++ ([p1; p2; p3] ++ be_enc 4 (len text) ++ text ++ tail)).
    change 1 with (len [3]). apply take_app_exact.
  - cbn [step]. unfold unpackZ, fmt_rfb_RFBClient_handleConnection_0.
    cbn [unpack fsize take Z.leb Z.compare Z.sub Z.add Z.opp Z.pos_sub Pos.compare Pos.compare_cont Pos.pred_double unpack1 map].
    change (be_dec [3]) with 3. change (3 =? S2C_FRAMEBUFFER_UPDATE) with false. change (3 =? S2C_SET_COLOUR_MAP_ENTRIES) with false.
    change (3 =? S2C_BELL) with false. change (3 =? S2C_SERVER_CUT_TEXT) with true. cbv iota. reflexivity.
  - cbn [next_pend]. eapply D_step.
    + cbn [need]. rewrite app_assoc.
      assert (L : len ([p1; p2; p3] ++ be_enc 4 (len text)) = 7) by (rewrite len_app; unfold len; rewrite be_enc_length; reflexivity).
      rewrite <- L. apply take_app_exact.
    + cbn [step]. unfold unpackZ, fmt_rfb_RFBClient_handleServerCutText_0.
      cbn [app unpack fsize take Z.leb Z.compare Z.sub Z.add Z.opp Z.pos_sub Pos.compare Pos.compare_cont Pos.pred_double].
      rewrite (take_le0 0 (be_enc 4 (len text))) by lia.
      assert (T4 : take 4 (be_enc 4 (len text)) = Some (be_enc 4 (len text), [])).
      { change 4 with (len (be_enc 4 (len text))) at 1. rewrite <- (app_nil_r (be_enc 4 (len text))) at 2. apply take_app_exact. }
      rewrite T4. cbn [unpack1 map]. rewrite D'. reflexivity.
    + cbn [next_pend]. eapply D_step.
      * cbn [need]. apply take_app_exact.
      * cbn [step]. reflexivity.
      * cbn [next_pend]. exact HD.
Qed.

(** *** sessions *)

Inductive smsg :=
| MUpdate (pad : Z) (rs : list qspec)
| MBell
| MCut (p1 p2 p3 : Z) (text : bytes).

Definition swire (m : smsg) : bytes :=
  match m with
  | MUpdate pad rs => [0; pad] ++ be_enc 2 (len rs) ++ concat (map qwire rs)
  | MBell => [2]
  | MCut p1 p2 p3 text => [3; p1; p2; p3] ++ be_enc 4 (len text) ++ text
  end.

Definition sok (s : st) (m : smsg) : Prop :=
  match m with
  | MUpdate pad rs => rs <> [] /\ len rs < 65536 /\ Forall (qok s) rs
  | MBell => True
  | MCut _ _ _ text => len text < 4294967296
  end.

(* what the rectangle conditions look at: the format in force, the client class, the image mode *)
Definition same_fmt (s s' : st) : Prop := pf s = pf s' /\ cf s = cf s' /\ imode s = imode s'.

Lemma upd_raises_fmt s s' w h n : same_fmt s s' -> upd_raises s w h n = upd_raises s' w h n.
Proof. intros (_ & Hc & Hi). unfold upd_raises. rewrite Hc, Hi. reflexivity. Qed.

Lemma fill_ok_fmt s s' f : same_fmt s s' -> fill_ok s f -> fill_ok s' f.
Proof. intros F. destruct f as [[[[x y] w] h] c]. unfold fill_ok. rewrite (upd_raises_fmt s s' _ _ _ F). auto. Qed.

Lemma bypp_fmt s s' : same_fmt s s' -> bypp s = bypp s'.
Proof. intros (Hp & _). unfold bypp. rewrite Hp. reflexivity. Qed.

Lemma qok_fmt s s' q : same_fmt s s' -> qok s q -> qok s' q.
Proof.
  intros F. pose proof (bypp_fmt s s' F) as B. destruct q as [x y w h px|x y w h sx sy|x y w h bg subs|x y w h bg subs|x y w h ts|x y w h img mask]; cbn [qok].
  - rewrite B, (upd_raises_fmt s s' _ _ _ F). auto.
  - auto.
  - rewrite B. intros (Hx & Hy & Hw & Hh & Hbg & Hn & Hs & Hf0 & Hfs).
    refine (conj Hx (conj Hy (conj Hw (conj Hh (conj Hbg (conj Hn (conj Hs (conj _ _)))))))).
    + eapply fill_ok_fmt; eassumption.
    + eapply Forall_impl; [|exact Hfs]. intros a. apply fill_ok_fmt. exact F.
  - rewrite B. intros (Hx & Hy & Hw & Hh & Hbg & Hn & Hs & Hf0 & Hfs).
    refine (conj Hx (conj Hy (conj Hw (conj Hh (conj Hbg (conj Hn (conj Hs (conj _ _)))))))).
    + eapply fill_ok_fmt; eassumption.
    + eapply Forall_impl; [|exact Hfs]. intros a. apply fill_ok_fmt. exact F.
  - rewrite B. intros (A1 & A2 & A3 & A4 & A5 & A6 & A7 & A8 & A9).
    refine (conj A1 (conj A2 (conj A3 (conj A4 (conj A5 (conj A6 (conj A7 (conj A8 _)))))))).
    eapply tiles_ok_same; [exact B| |exact A9]. intros; apply upd_raises_fmt; exact F.
  - rewrite B. auto.
Qed.

Lemma sok_fmt s s' m : same_fmt s s' -> sok s m -> sok s' m.
Proof.
  intros F. destruct m; cbn [sok]; auto. intros (A & B & C). refine (conj A (conj B _)).
  eapply Forall_impl; [|exact C]. intros a. apply qok_fmt. exact F.
Qed.

Lemma same_fmt_refl s : same_fmt s s.
Proof. repeat split. Qed.

Lemma same_fmt_trans a b c : same_fmt a b -> same_fmt b c -> same_fmt a c.
Proof. intros (A1 & A2 & A3) (B1 & B2 & B3). repeat split; congruence. Qed.

Lemma commit_fmt s : same_fmt s (fst (commit s)).
Proof. unfold commit. destruct (negb (c_variant (cf s) =? 0) && waiter s); repeat split. Qed.

Lemma after_update_fmt s n rs : same_fmt s (after_qrects (start_update s n) rs).
Proof. repeat split. Qed.

Theorem server_session_never_raises : forall msgs s,
  0 <= bypp s -> Forall (sok s) msgs ->
  exists es s' n, same_fmt s s' /\
    Drain s PConnection (concat (map swire msgs)) es (Idle s' PConnection []) n.
Proof.
  induction msgs as [|m msgs IH]; intros s Hb Hok.
  - exists [], s, O. split; [apply same_fmt_refl|]. apply D_wait. reflexivity.
  - pose proof (Forall_inv Hok) as Hm. pose proof (Forall_inv_tail Hok) as Hrest. cbn [map concat].
    destruct m as [pad rs| |p1 p2 p3 text]; cbn [sok swire] in *.
    + destruct Hm as (Hne & Hlt & Hrs).
      pose proof (qupdate_roundtrip s pad rs (concat (map swire msgs))) as RT.
      set (sf := after_qrects (start_update s (len rs)) rs) in *.
      assert (Fsc : same_fmt s (fst (commit sf))).
      { eapply same_fmt_trans; [apply (after_update_fmt s (len rs) rs)|apply commit_fmt]. }
      destruct (commit sf) as [sc ces] eqn:Ec. cbn [fst] in Fsc.
      destruct (IH sc) as (es & s' & n & F' & D).
      { rewrite <- (bypp_fmt s sc Fsc). exact Hb. }
      { eapply Forall_impl; [|exact Hrest]. intros a. apply sok_fmt. exact Fsc. }
      exists ([EBegin] ++ concat (map qevents rs) ++ ces ++ es), s', (2 + sum_steps rs + n)%nat.
      split; [eapply same_fmt_trans; eassumption|].
      specialize (RT es (Idle s' PConnection []) n Hne Hlt Hb Hrs). cbv zeta in RT. fold sf in RT. rewrite Ec in RT.
      rewrite <- !app_assoc. apply RT. exact D.
    + destruct (IH s Hb Hrest) as (es & s' & n & F' & D).
      exists ([EBell] ++ es), s', (S n). split; [exact F'|]. apply bell_step. exact D.
    + destruct (IH s Hb Hrest) as (es & s' & n & F' & D).
      exists ([ECutText text] ++ es), s', (S (S (S n))). split; [exact F'|].
      rewrite <- !app_assoc. apply cut_step; assumption.
Qed.
