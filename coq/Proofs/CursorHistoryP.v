(** C12 with the cursor drawn in, over whole histories: the client's screen equals, at every
    coordinate, a reference canvas given as a FUNCTION of the history - the colour most recently sent
    for the pixel, with the cursor stamped over it after every update and every cursor change. *)
From Coq Require Import ZArith List Bool Lia.
From VD Require Import Base.Bytes Base.PixFmt Gen.Tables Model.Image Model.Screen.
From VD Require Import Proofs.ScreenP Proofs.CursorSizeP Proofs.MaskedPasteP Proofs.MaskedPasteNegP.
Import ListNotations.
Open Scope Z_scope.

Definition inside_wh (W H x y : Z) : bool := (0 <=? x) && (x <? W) && (0 <=? y) && (y <? H).

(* the canvas f (of size sz) with cursor co stamped at pointer (px, py) *)
Definition stamp (f : Z -> Z -> rgb) (sz : option (Z * Z)) (co : option cursor) (px py : Z) : Z -> Z -> rgb :=
  match co, sz with
  | Some c, Some (W, H) =>
      fun x y =>
        let ox := px - c_fx c in let oy := py - c_fy c in
        if inside_wh W H x y && inside (c_img c) (x - ox) (y - oy) && mask_at (c_mask c) (x - ox) (y - oy)
        then get (c_img c) (x - ox) (y - oy) else f x y
  | _, _ => f
  end.

Record rstate := mk_r { rf : Z -> Z -> rgb; rsz : option (Z * Z); rcur : option cursor }.

Definition r0 : rstate := mk_r (fun _ _ => black) None None.

(* the reference step: pure functions of what the server sent *)
Definition ref_lstep (m : immode) (nocursor : bool) (px py : Z) (r : rstate) (o : lop) : rstate :=
  match o with
  | LUpdate x y w h data =>
      match data with
      | [] => r
      | _ => match frombytes m w h data with
             | Some u =>
                 let f1 := ref_step (rf r) (SUpdate x y u) in
                 let sz1 := ref_size (rsz r) (SUpdate x y u) in
                 mk_r (stamp f1 sz1 (rcur r) px py) sz1 (rcur r)
             | None => r
             end
      end
  | LResize w h => mk_r (ref_step (rf r) (SResize w h)) (ref_size (rsz r) (SResize w h)) (rcur r)
  | LCursor x y w h img msk =>
      if nocursor then r
      else match frombytes m w h img with
           | Some ci => let c := mk_cursor ci (mask_rows (Z.to_nat h) w msk) x y in
                        mk_r (stamp (rf r) (rsz r) (Some c) px py) (rsz r) (Some c)
           | None => r
           end
  end.

Definition Inv (l : lib) (r : rstate) : Prop :=
  wf_opt (screen l) /\
  (forall x y, 0 <= x -> 0 <= y -> get_opt (screen l) x y = rf r x y) /\
  size_opt (screen l) = rsz r /\ cur l = rcur r /\
  (forall c, cur l = Some c -> wf_image (c_img c)).

Lemma draw_cursor_inv l r :
  Inv l r ->
  Inv (draw_cursor l) (mk_r (stamp (rf r) (rsz r) (rcur r) (l_x l) (l_y l)) (rsz r) (rcur r)) /\
  l_mode (draw_cursor l) = l_mode l /\ l_nocursor (draw_cursor l) = l_nocursor l /\
  l_x (draw_cursor l) = l_x l /\ l_y (draw_cursor l) = l_y l.
Proof.
  intros (W & F & S & C & WC).
  destruct (cur l) as [c|] eqn:Ec.
  2:{ unfold draw_cursor. rewrite Ec. rewrite <- C. cbn [stamp].
      split; [|repeat split]. split; [exact W|]. split; [exact F|]. split; [exact S|]. split; [exact Ec|].
      intros c Hc; congruence. }
  destruct (screen l) as [s|] eqn:Es.
  2:{ unfold draw_cursor. rewrite Ec, Es. rewrite <- C, <- S. cbn [stamp size_opt].
      split; [|repeat split]. split; [rewrite Es; exact I|]. split; [rewrite Es; exact F|]. split; [rewrite Es; reflexivity|].
      split; [exact Ec|]. intros c0 Hc; apply WC; congruence. }
  assert (Wc : wf_image (c_img c)) by (apply WC; reflexivity).
  split.
  - unfold Inv. cbn [rf rsz rcur].
    assert (D : draw_cursor l = with_screen l (Some (paste_masked s (c_img c) (c_mask c) (l_x l - c_fx c) (l_y l - c_fy c)))).
    { unfold draw_cursor. rewrite Ec, Es. reflexivity. }
    rewrite D. cbn [with_screen screen cur wf_opt get_opt size_opt].
    split; [apply wf_paste_masked; exact W|]. split.
    + intros x y Hx Hy. rewrite (get_paste_masked_any s (c_img c) (c_mask c) _ _ x y W Wc Hx Hy).
      rewrite <- C, <- S. cbn [size_opt stamp]. cbv zeta. unfold inside_wh. unfold inside at 1.
      destruct (_ && _ && _); [reflexivity|]. apply (F x y Hx Hy).
    + split; [exact S|]. split; [rewrite Ec; exact C|]. intros c0 Hc. apply WC. rewrite <- Ec. exact Hc.
  - unfold draw_cursor. rewrite Ec, Es. repeat split.
Qed.

Definition same_cfg (l l' : lib) : Prop :=
  l_mode l' = l_mode l /\ l_nocursor l' = l_nocursor l /\ l_x l' = l_x l /\ l_y l' = l_y l.

Lemma lstep_inv l r o l' :
  Inv l r -> lop_geom o -> lstep l o = Some l' ->
  Inv l' (ref_lstep (l_mode l) (l_nocursor l) (l_x l) (l_y l) r o) /\ same_cfg l l'.
Proof.
  intros HI Hg H. pose proof HI as (W & F & S & C & WC).
  destruct o as [x y w h data|w h|x y w h img msk]; cbn [lstep lop_geom ref_lstep] in *.
  - destruct data as [|b data].
    + cbn [update_rect] in H. injection H as <-. split; [exact HI|repeat split].
    + destruct (frombytes (l_mode l) w h (b :: data)) as [u|] eqn:Ef.
      2:{ cbn [update_rect] in H. rewrite Ef in H. discriminate. }
      rewrite (update_rect_placed_cursor l x y w h (b :: data) u ltac:(discriminate) Ef) in H. injection H as <-.
      destruct (frombytes_wf _ _ _ _ _ Ef) as (Wu & _ & _). destruct Hg as [Hx Hy].
      destruct (mstep_ref (screen l) (rf r) (rsz r) (SUpdate x y u) W (conj Hx (conj Hy Wu)) F S) as (W1 & F1 & S1).
      cbn [mstep] in W1, F1, S1.
      set (l1 := with_screen l (Some (placed (screen l) x y u))).
      assert (I1 : Inv l1 (mk_r (ref_step (rf r) (SUpdate x y u)) (ref_size (rsz r) (SUpdate x y u)) (rcur r))).
      { unfold Inv. cbn [l1 with_screen screen cur rf rsz rcur]. split; [exact W1|]. split; [exact F1|]. split; [exact S1|].
        split; [exact C|exact WC]. }
      destruct (draw_cursor_inv l1 _ I1) as (I2 & M2 & N2 & X2 & Y2). cbn [rf rsz rcur] in I2.
      split; [exact I2|]. unfold same_cfg. rewrite M2, N2, X2, Y2. repeat split.
  - unfold resize in H.
    destruct ((0 <=? w) && (w <? MAX_DESKTOP_SIZE) && (0 <=? h) && (h <? MAX_DESKTOP_SIZE)) eqn:G; [|discriminate].
    assert (E : l' = with_screen l (Some (resized (screen l) w h))) by (unfold resized; congruence). subst l'.
    apply andb_true_iff in G as [G G4]. apply andb_true_iff in G as [G G3]. apply andb_true_iff in G as [G1 G2].
    apply Z.leb_le in G1, G3.
    destruct (mstep_ref (screen l) (rf r) (rsz r) (SResize w h) W (conj G1 G3) F S) as (W1 & F1 & S1).
    cbn [mstep] in W1, F1, S1.
    split; [|repeat split]. unfold Inv. cbn [with_screen screen cur rf rsz rcur].
    split; [exact W1|]. split; [exact F1|]. split; [exact S1|]. split; [exact C|exact WC].
  - unfold update_cursor in H. destruct (l_nocursor l) eqn:En.
    { injection H as <-. split; [exact HI|]. unfold same_cfg. rewrite En. repeat split. }
    destruct (frombytes (l_mode l) w h img) as [ci|] eqn:Ef; [|discriminate].
    destruct (len msk <? (w + 7) / 8 * h); [discriminate|]. injection H as <-.
    destruct (frombytes_wf _ _ _ _ _ Ef) as (Wc & _ & _).
    match goal with |- context [draw_cursor ?t] => set (l1 := t) end.
    set (c := mk_cursor ci (mask_rows (Z.to_nat h) w msk) x y).
    assert (I1 : Inv l1 (mk_r (rf r) (rsz r) (Some c))).
    { unfold Inv. cbn [l1 screen cur rf rsz rcur]. split; [exact W|]. split; [exact F|]. split; [exact S|].
      split; [reflexivity|]. intros c0 Hc. injection Hc as <-. exact Wc. }
    destruct (draw_cursor_inv l1 _ I1) as (I2 & M2 & N2 & X2 & Y2). cbn [rf rsz rcur] in I2.
    split; [exact I2|]. unfold same_cfg. rewrite M2, N2, X2, Y2. cbn [l1 l_mode l_nocursor l_x l_y]. repeat split. symmetry; exact En.
Qed.

(** The composition theorem with the cursor: starting from a fresh client (pointer wherever it is),
    after ANY accepted history of updates, size changes and cursor-shape updates - with or without
    --nocursor - the screen equals the reference canvas at every coordinate and has the reference size *)
Theorem client_composition_with_cursor : forall ops l r l',
  Inv l r -> Forall lop_geom ops -> lrun l ops = Some l' ->
  Inv l' (fold_left (ref_lstep (l_mode l) (l_nocursor l) (l_x l) (l_y l)) ops r) /\ same_cfg l l'.
Proof.
  induction ops as [|o ops IH]; intros l r l' HI Hg H; cbn [lrun fold_left] in *.
  - injection H as <-. split; [exact HI|repeat split].
  - destruct (lstep l o) as [l1|] eqn:E1; [|discriminate].
    destruct (lstep_inv l r o l1 HI (Forall_inv Hg) E1) as (I1 & M1 & N1 & X1 & Y1).
    destruct (IH l1 _ l' I1 (Forall_inv_tail Hg) H) as (I2 & M2 & N2 & X2 & Y2).
    rewrite M1, N1, X1, Y1 in I2. split; [exact I2|]. unfold same_cfg. rewrite M2, N2, X2, Y2. repeat split; assumption.
Qed.

Lemma Inv0 l : screen l = None -> cur l = None -> Inv l r0.
Proof.
  intros Es Ec. unfold Inv, r0. rewrite Es, Ec. cbn. repeat split; try exact I; intros; discriminate.
Qed.

Corollary fresh_client_composition_with_cursor l ops l' :
  screen l = None -> cur l = None -> Forall lop_geom ops -> lrun l ops = Some l' ->
  let R := fold_left (ref_lstep (l_mode l) (l_nocursor l) (l_x l) (l_y l)) ops r0 in
  wf_opt (screen l') /\
  (forall x y, 0 <= x -> 0 <= y -> get_opt (screen l') x y = rf R x y) /\
  size_opt (screen l') = rsz R /\ cur l' = rcur R.
Proof.
  intros Es Ec Hg H. cbv zeta.
  destruct (client_composition_with_cursor ops l r0 l' (Inv0 l Es Ec) Hg H) as ((W & F & S & C & _) & _).
  repeat split; assumption.
Qed.
