(** C20, the converse direction: exactly which unbracketed strings yield an address. *)
From Coq Require Import ZArith List Bool Lia.
From VD Require Import Base.Bytes Base.Text Proofs.TextP Model.Server Proofs.ServerP.
Import ListNotations.
Open Scope Z_scope.

Lemma split_on_acc_nonempty sep s cur : split_on_acc sep s cur <> [].
Proof.
  revert cur; induction s as [|c s IH]; intros cur; cbn [split_on_acc]; [discriminate|].
  destruct (c =? sep); [discriminate|apply IH].
Qed.

Lemma join_cons sep x l : l <> [] -> join_with sep (x :: l) = x ++ sep ++ join_with sep l.
Proof. destruct l; [congruence|reflexivity]. Qed.

(** str.split is inverted by str.join, and no piece contains the separator *)
Lemma split_join sep s : forall cur, ~ In sep cur ->
  join_with [sep] (split_on_acc sep s cur) = rev cur ++ s /\
  Forall (fun p => ~ In sep p) (split_on_acc sep s cur).
Proof.
  induction s as [|c s IH]; intros cur Hc; cbn [split_on_acc].
  - cbn [join_with]. rewrite app_nil_r. split; [reflexivity|].
    constructor; [|constructor]. intros Hin; apply Hc, in_rev; exact Hin.
  - destruct (Z.eqb_spec c sep) as [->|Hne].
    + destruct (IH [] (fun H => H)) as [J F].
      rewrite join_cons by apply split_on_acc_nonempty. rewrite J. cbn [rev app]. split; [reflexivity|].
      constructor; [|exact F]. intros Hin; apply Hc, in_rev; exact Hin.
    + destruct (IH (c :: cur)) as [J F].
      { intros [E|Hin]; [congruence|apply Hc; exact Hin]. }
      rewrite J. cbn [rev]. rewrite <- app_assoc. split; [reflexivity|exact F].
Qed.

Lemma split_on_spec sep s :
  join_with [sep] (split_on sep s) = s /\ Forall (fun p => ~ In sep p) (split_on sep s).
Proof. unfold split_on. destruct (split_join sep s [] (fun H => H)) as [J F]. split; assumption. Qed.

(** Every address the unbracketed branch returns comes from one of three shapes - the two
    documented ones with a number Python's int() accepts, and [h:m:n] with an ignored middle
    piece [m] (DESIGN 5) - and from nothing else: no other string yields an address. *)
Theorem unbracketed_accepts_only ex v6 s fam host port :
  starts_with [LBRACK] s = false ->
  parse_server ex v6 s = Some (fam, host, port) ->
  exists h, ~ In COLON h /\ host = eff_host h /\ fam = fam_of ex h /\
    ((s = h /\ port = 5900) \/
     (exists n v, ~ In COLON n /\ s = h ++ COLON :: n /\ py_int n = Some v /\ port = v + 5900) \/
     (exists m n, ~ In COLON m /\ ~ In COLON n /\ s = h ++ COLON :: m ++ COLON :: n /\ py_int n = Some port)).
Proof.
  intros Hb H. unfold parse_server in H. rewrite Hb in H.
  destruct (split_on_spec COLON s) as [J F].
  destruct (split_on COLON s) as [|h [|a [|b [|c r]]]] eqn:E; cbn [port_of hd] in H; try discriminate.
  - (* [h] *) injection H as <- <- <-. inversion F as [|? ? Fh _].
    exists h. split; [exact Fh|]. split; [destruct h; reflexivity|]. split; [unfold fam_of, eff_host; destruct h; reflexivity|].
    left. cbn [join_with] in J. split; [symmetry; exact J|reflexivity].
  - (* [h; a] *) destruct (py_int a) as [v|] eqn:Ea; [|discriminate]. injection H as <- <- <-.
    inversion F as [|? ? Fh F2]. inversion F2 as [|? ? Fa _].
    exists h. split; [exact Fh|]. split; [destruct h; reflexivity|]. split; [unfold fam_of, eff_host; destruct h; reflexivity|].
    right; left. exists a, v. cbn [join_with app] in J. repeat split; try assumption. symmetry; exact J.
  - (* [h; a; b] *) destruct (py_int b) as [v|] eqn:Eb; [|discriminate]. injection H as <- <- <-.
    inversion F as [|? ? Fh F2]. inversion F2 as [|? ? Fa F3]. inversion F3 as [|? ? Fb _].
    exists h. split; [exact Fh|]. split; [destruct h; reflexivity|]. split; [unfold fam_of, eff_host; destruct h; reflexivity|].
    right; right. exists a, b. cbn [join_with app] in J. repeat split; try assumption. symmetry; exact J.
Qed.

Lemma partition_on_inv sep s : forall a b, partition_on sep s = (a, true, b) -> s = a ++ sep :: b /\ ~ In sep a.
Proof.
  induction s as [|c s IH]; intros a b H; cbn [partition_on] in H; [discriminate|].
  destruct (Z.eqb_spec c sep) as [->|Hne].
  - injection H as <- <-. split; [reflexivity|intros []].
  - destruct (partition_on sep s) as [[a' f] b'] eqn:E. injection H as <- -> <-.
    destruct (IH a' b' eq_refl) as [Es Hn]. split; [cbn [app]; rewrite <- Es; reflexivity|].
    intros [Hc|Hin]; [congruence|exact (Hn Hin)].
Qed.

(** the bracketed branch: an address comes only from "[" v6 "]" rest with v6 accepted by
    IPv6Address, and the family is then IPv6 and the host the bracket's content *)
Theorem bracketed_accepts_only ex v6 s fam host port :
  starts_with [LBRACK] s = true ->
  parse_server ex v6 s = Some (fam, host, port) ->
  fam = AF_INET6 /\ v6 host = true /\ ~ In RBRACK host /\
  exists rest, s = LBRACK :: host ++ RBRACK :: rest /\ port_of (split_on COLON rest) = Some port.
Proof.
  intros Hb H. unfold parse_server in H. rewrite Hb in H.
  destruct s as [|c s]; [discriminate|]. cbn [starts_with] in Hb.
  destruct (Z.eqb_spec LBRACK c) as [<-|]; [|discriminate]. cbn [tl] in H.
  destruct (partition_on RBRACK s) as [[a f] rest] eqn:E.
  destruct f; cbn [negb] in H; [|discriminate].
  destruct (v6 a) eqn:Ev; cbn [negb] in H; [|discriminate].
  destruct (port_of (split_on COLON rest)) as [p|] eqn:Ep; [|discriminate].
  injection H as <- <- <-. destruct (partition_on_inv _ _ _ _ E) as [Es Hn].
  repeat split; try assumption. exists rest. split; [rewrite Es; reflexivity|exact Ep].
Qed.
