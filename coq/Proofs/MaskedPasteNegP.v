(** The masked paste for ANY offset (negative ones clip the source at the top/left edge). *)
From Coq Require Import ZArith List Bool Lia.
From VD Require Import Base.Bytes Base.PixFmt Gen.Tables Model.Image Model.Screen Proofs.ScreenP Proofs.MaskedPasteP.
Import ListNotations.
Open Scope Z_scope.

Lemma nth_skipn_add {A} (d : A) : forall n l i, nth i (skipn n l) d = nth (n + i) l d.
Proof.
  induction n as [|n IH]; intros l i; [reflexivity|].
  destruct l as [|a l]; [destruct i; reflexivity|]. cbn [skipn plus nth]. apply IH.
Qed.

Definition zbit (m : option (list bool)) (k : Z) : bool := bit m (Z.to_nat k).

(* the pixel at column i after pasting src at column ox, any ox, through an optional mask *)
Lemma nth_paste_row_clip dst src m ox i d :
  nth i (paste_row_clip dst src m ox) d =
  if (ox <=? Z.of_nat i) && (Z.of_nat i <? ox + len src) && (i <? List.length dst)%nat && zbit m (Z.of_nat i - ox)
  then nth (Z.to_nat (Z.of_nat i - ox)) src d else nth i dst d.
Proof.
  unfold paste_row_clip, clip_neg, zbit, len. destruct (Z.ltb_spec ox 0) as [Hneg|Hpos].
  - set (n := Z.to_nat (- ox)).
    assert (E : paste_row dst (skipn n src) (match m with Some m0 => Some (fst (skipn n m0, 0)) | None => None end) 0 =
                paste_row dst (skipn n src) (match m with Some m0 => Some (skipn n m0) | None => None end) 0).
    { destruct m; reflexivity. }
    rewrite E, nth_paste_row_m by lia. cbn [Z.to_nat]. rewrite Nat.sub_0_r, skipn_length, nth_skipn_add.
    replace (Z.to_nat (Z.of_nat i - ox)) with (n + i)%nat by lia.
    assert (B : bit (match m with Some m0 => Some (skipn n m0) | None => None end) i = bit m (n + i)).
    { destruct m as [m0|]; [|reflexivity]. unfold bit, mbit. apply nth_skipn_add. }
    rewrite B.
    destruct (Z.leb_spec ox (Z.of_nat i)); [|lia]. change (0 <=? i)%nat with true. cbn [andb].
    destruct (Nat.ltb_spec i (0 + (List.length src - n))), (Z.ltb_spec (Z.of_nat i) (ox + Z.of_nat (List.length src))); try lia; reflexivity.
  - assert (E : paste_row dst src (match m with Some m0 => Some (fst (m0, ox)) | None => None end) ox = paste_row dst src m ox).
    { destruct m; reflexivity. }
    rewrite E, nth_paste_row_m by lia.
    replace (Z.to_nat (Z.of_nat i - ox)) with (i - Z.to_nat ox)%nat by lia.
    destruct (Nat.leb_spec (Z.to_nat ox) i), (Z.leb_spec ox (Z.of_nat i)); try lia; cbn [andb]; [|reflexivity].
    destruct (Nat.ltb_spec i (Z.to_nat ox + List.length src)), (Z.ltb_spec (Z.of_nat i) (ox + Z.of_nat (List.length src))); try lia; reflexivity.
Qed.

Lemma nth_paste_rows_c : forall dst src m ox oy j d, 0 <= oy ->
  nth j (paste_rows dst src m ox oy) d =
  if (Z.to_nat oy <=? j)%nat && (j <? Z.to_nat oy + List.length src)%nat && (j <? List.length dst)%nat
  then paste_row_clip (nth j dst d) (nth (j - Z.to_nat oy) src []) (mrow m (j - Z.to_nat oy)) ox else nth j dst d.
Proof.
  induction dst as [|r dr IH]; intros src m ox oy j d Hoy; cbn [paste_rows List.length].
  - rewrite andb_false_r. reflexivity.
  - destruct (Z.ltb_spec 0 oy) as [Hpos|Hz].
    + destruct j as [|j']; cbn [nth].
      * replace (Z.to_nat oy <=? 0)%nat with false by (symmetry; apply Nat.leb_gt; lia). reflexivity.
      * rewrite IH by lia. replace (Z.to_nat (oy - 1)) with (Z.to_nat oy - 1)%nat by lia.
        assert (E1 : (Z.to_nat oy - 1 <=? j')%nat = (Z.to_nat oy <=? S j')%nat).
        { destruct (Nat.leb_spec (Z.to_nat oy - 1) j'), (Nat.leb_spec (Z.to_nat oy) (S j')); try reflexivity; lia. }
        assert (E2 : (j' <? Z.to_nat oy - 1 + List.length src)%nat = (S j' <? Z.to_nat oy + List.length src)%nat).
        { destruct (Nat.ltb_spec j' (Z.to_nat oy - 1 + List.length src)), (Nat.ltb_spec (S j') (Z.to_nat oy + List.length src)); try reflexivity; lia. }
        rewrite E1, E2. change (S j' <? S (List.length dr))%nat with (j' <? List.length dr)%nat.
        destruct (Z.to_nat oy <=? S j')%nat eqn:L; [|reflexivity]. apply Nat.leb_le in L.
        replace (S j' - Z.to_nat oy)%nat with (j' - (Z.to_nat oy - 1))%nat by lia. reflexivity.
    + assert (oy = 0) by lia. subst oy. cbn [Z.to_nat].
      destruct src as [|s sr].
      * cbn [List.length]. rewrite Nat.add_0_r. replace (0 <=? j)%nat with true by reflexivity.
        replace (j <? 0)%nat with false by (symmetry; apply Nat.ltb_ge; lia). reflexivity.
      * assert (G : forall mr0 mr, (forall k, mrow mr k = mrow m (S k)) -> mrow m 0%nat = mr0 ->
                    nth j (paste_row_clip r s mr0 ox :: paste_rows dr sr mr ox 0) d =
                    (if (0 <=? j)%nat && (j <? 0 + List.length (s :: sr))%nat && (j <? S (List.length dr))%nat
                     then paste_row_clip (nth j (r :: dr) d) (nth (j - 0) (s :: sr) []) (mrow m (j - 0)) ox else nth j (r :: dr) d)).
        { intros mr0 mr Hk H0.
          destruct j as [|j']; cbn [nth List.length].
          - cbn [Nat.leb Nat.ltb plus andb Nat.sub nth]. rewrite H0. reflexivity.
          - rewrite IH by lia. cbn [Z.to_nat]. change (0 <=? j')%nat with true. change (0 <=? S j')%nat with true.
            change (S j' <? 0 + S (List.length sr))%nat with (j' <? 0 + List.length sr)%nat.
            change (S j' <? S (List.length dr))%nat with (j' <? List.length dr)%nat.
            rewrite !Nat.sub_0_r, Hk. reflexivity. }
        destruct m as [[|mr0 mr]|].
        -- apply (G (Some []) (Some [])); [intros k; rewrite !mrow_nil; reflexivity|reflexivity].
        -- apply (G (Some mr0) (Some mr)); [intros k; reflexivity|reflexivity].
        -- apply (G None None); [intros k; reflexivity|reflexivity].
Qed.

Lemma nth_paste_rows_clip dst src (m : option (list (list bool))) ox oy j d :
  nth j (paste_rows_clip dst src m ox oy) d =
  if (oy <=? Z.of_nat j) && (Z.of_nat j <? oy + len src) && (j <? List.length dst)%nat
  then paste_row_clip (nth j dst d) (nth (Z.to_nat (Z.of_nat j - oy)) src []) (mrow m (Z.to_nat (Z.of_nat j - oy))) ox
  else nth j dst d.
Proof.
  unfold paste_rows_clip, clip_neg, len. destruct (Z.ltb_spec oy 0) as [Hneg|Hpos].
  - set (n := Z.to_nat (- oy)).
    assert (E : paste_rows dst (skipn n src) (match m with Some m0 => Some (fst (skipn n m0, 0)) | None => None end) ox 0 =
                paste_rows dst (skipn n src) (match m with Some m0 => Some (skipn n m0) | None => None end) ox 0).
    { destruct m; reflexivity. }
    rewrite E, nth_paste_rows_c by lia. cbn [Z.to_nat]. rewrite Nat.sub_0_r, skipn_length, nth_skipn_add.
    replace (Z.to_nat (Z.of_nat j - oy)) with (n + j)%nat by lia.
    assert (B : mrow (match m with Some m0 => Some (skipn n m0) | None => None end) j = mrow m (n + j)).
    { destruct m as [m0|]; [|reflexivity]. unfold mrow. f_equal. apply nth_skipn_add. }
    rewrite B.
    destruct (Z.leb_spec oy (Z.of_nat j)); [|lia]. change (0 <=? j)%nat with true. cbn [andb].
    destruct (Nat.ltb_spec j (0 + (List.length src - n))), (Z.ltb_spec (Z.of_nat j) (oy + Z.of_nat (List.length src))); try lia; reflexivity.
  - assert (E : paste_rows dst src (match m with Some m0 => Some (fst (m0, oy)) | None => None end) ox oy = paste_rows dst src m ox oy).
    { destruct m; reflexivity. }
    rewrite E, nth_paste_rows_c by lia.
    replace (Z.to_nat (Z.of_nat j - oy)) with (j - Z.to_nat oy)%nat by lia.
    destruct (Nat.leb_spec (Z.to_nat oy) j), (Z.leb_spec oy (Z.of_nat j)); try lia; cbn [andb]; [|reflexivity].
    destruct (Nat.ltb_spec j (Z.to_nat oy + List.length src)), (Z.ltb_spec (Z.of_nat j) (oy + Z.of_nat (List.length src))); try lia; reflexivity.
Qed.

(** paste src into dst at (ox, oy) through mask m, ANY offsets: inside the pasted box (clipped to dst,
    and clipped at the top/left edge when an offset is negative) where the mask bit is set the pixel is
    src's, everywhere else dst's *)
Theorem get_paste_masked_any dst src m ox oy x y :
  wf_image dst -> wf_image src -> 0 <= x -> 0 <= y ->
  get (paste_masked dst src m ox oy) x y =
  if inside dst x y && inside src (x - ox) (y - oy) && mask_at m (x - ox) (y - oy)
  then get src (x - ox) (y - oy) else get dst x y.
Proof.
  intros (Dw & Dh & DLr & DLc) (Sw & Sh & SLr & SLc) Hx Hy.
  unfold get at 1, paste_masked. cbn [rows].
  destruct (Z.ltb_spec x 0); [lia|]. destruct (Z.ltb_spec y 0); [lia|]. cbn [orb].
  rewrite (nth_paste_rows_clip (rows dst) (rows src) (Some m) ox oy (Z.to_nat y) []).
  assert (GD : get dst x y = nth (Z.to_nat x) (nth (Z.to_nat y) (rows dst) []) black).
  { unfold get. destruct (Z.ltb_spec x 0); [lia|]. destruct (Z.ltb_spec y 0); [lia|]. reflexivity. }
  rewrite GD. unfold inside, len. rewrite DLr, SLr. rewrite !Z2Nat.id by lia.
  destruct (Z.leb_spec 0 x); [|lia]. destruct (Z.leb_spec 0 y); [|lia]. cbn [andb].
  destruct (Z.leb_spec oy y) as [Ly|Ly]; cbn [andb].
  2:{ destruct (Z.leb_spec 0 (y - oy)); [lia|]. rewrite !andb_false_r. reflexivity. }
  destruct (Z.leb_spec 0 (y - oy)); [|lia].
  destruct (Z.ltb_spec y (oy + ih src)) as [Ly2|Ly2]; cbn [andb].
  2:{ destruct (Z.ltb_spec (y - oy) (ih src)); [lia|]. rewrite !andb_false_r. reflexivity. }
  destruct (Z.ltb_spec (y - oy) (ih src)); [|lia].
  destruct (Nat.ltb_spec (Z.to_nat y) (Z.to_nat (ih dst))) as [Ly3|Ly3]; cbn [andb].
  2:{ destruct (Z.ltb_spec y (ih dst)); [lia|]. rewrite !andb_false_r. reflexivity. }
  destruct (Z.ltb_spec y (ih dst)); [|lia].
  set (drow := nth (Z.to_nat y) (rows dst) []). set (srow := nth (Z.to_nat (y - oy)) (rows src) []).
  assert (Ld : List.length drow = Z.to_nat (iw dst)).
  { rewrite Forall_forall in DLc. apply DLc. apply nth_In. lia. }
  assert (Ls : List.length srow = Z.to_nat (iw src)).
  { rewrite Forall_forall in SLc. apply SLc. apply nth_In. lia. }
  rewrite (nth_paste_row_clip drow srow _ ox (Z.to_nat x) black). unfold len. rewrite Ld, Ls. rewrite !Z2Nat.id by lia.
  rewrite !andb_true_r.
  destruct (Z.leb_spec ox x) as [Lx|Lx]; cbn [andb].
  2:{ destruct (Z.leb_spec 0 (x - ox)); [lia|]. rewrite !andb_false_r. reflexivity. }
  destruct (Z.leb_spec 0 (x - ox)); [|lia].
  destruct (Z.ltb_spec x (ox + iw src)) as [Lx2|Lx2]; cbn [andb].
  2:{ destruct (Z.ltb_spec (x - ox) (iw src)); [lia|]. rewrite !andb_false_r. reflexivity. }
  destruct (Z.ltb_spec (x - ox) (iw src)); [|lia].
  destruct (Nat.ltb_spec (Z.to_nat x) (Z.to_nat (iw dst))) as [Lx3|Lx3]; cbn [andb].
  2:{ destruct (Z.ltb_spec x (iw dst)); [lia|]. cbn [andb]. reflexivity. }
  destruct (Z.ltb_spec x (iw dst)); [|lia]. cbn [andb].
  unfold zbit, bit, mbit, mrow, mask_at.
  destruct (nth (Z.to_nat (x - ox)) (nth (Z.to_nat (y - oy)) m []) false); [|reflexivity].
  unfold get. destruct (Z.ltb_spec (x - ox) 0); [lia|]. destruct (Z.ltb_spec (y - oy) 0); [lia|]. cbn [orb].
  reflexivity.
Qed.

From VD Require Import Proofs.CursorSizeP.

(** the cursor overlay: what the screen [s] shows at (x, y) once cursor [c] is drawn with its hot spot
    on the pointer (px, py) *)
Definition overlay (s : image) (c : cursor) (px py x y : Z) : rgb :=
  let ox := px - c_fx c in let oy := py - c_fy c in
  if inside s x y && inside (c_img c) (x - ox) (y - oy) && mask_at (c_mask c) (x - ox) (y - oy)
  then get (c_img c) (x - ox) (y - oy) else get s x y.

(** drawCursor, any pointer position and hot spot *)
Theorem draw_cursor_overlay_any l s c x y :
  screen l = Some s -> cur l = Some c -> wf_image s -> wf_image (c_img c) -> 0 <= x -> 0 <= y ->
  exists s', screen (draw_cursor l) = Some s' /\ iw s' = iw s /\ ih s' = ih s /\
    get s' x y = overlay s c (l_x l) (l_y l) x y.
Proof.
  intros Es Ec Ws Wc Hx Hy. unfold draw_cursor. rewrite Ec, Es. cbn [with_screen screen].
  eexists. split; [reflexivity|]. split; [reflexivity|]. split; [reflexivity|].
  unfold overlay. cbv zeta. apply get_paste_masked_any; assumption.
Qed.

(** updateRectangle while a cursor is set: the screen afterwards is the reference composition of the
    update (inside the rectangle the new data, elsewhere the old screen, black where there was none)
    with the cursor overlaid at the pointer *)
Theorem update_rect_with_cursor l x y w h data u c l' :
  data <> [] -> frombytes (l_mode l) w h data = Some u -> cur l = Some c ->
  wf_opt (screen l) -> wf_image (c_img c) -> 0 <= x -> 0 <= y ->
  update_rect l x y w h data = Some l' ->
  exists s', screen l' = Some s' /\
    iw s' = (match screen l with None => x + iw u | Some s => Z.max (x + iw u) (iw s) end) /\
    ih s' = (match screen l with None => y + ih u | Some s => Z.max (y + ih u) (ih s) end) /\
    forall px py, 0 <= px -> 0 <= py ->
      get s' px py = overlay (placed (screen l) x y u) c (l_x l) (l_y l) px py /\
      get (placed (screen l) x y u) px py =
        (if in_box x y (iw u) (ih u) px py then get u (px - x) (py - y) else get_opt (screen l) px py).
Proof.
  intros Hd Hf Hc W Wc Hx Hy H.
  rewrite (update_rect_placed_cursor l x y w h data u Hd Hf) in H. injection H as <-.
  destruct (frombytes_wf _ _ _ _ _ Hf) as (Wu & _ & _).
  destruct (placed_spec (screen l) x y u W Wu Hx Hy) as (WR & EW & EH & PX).
  set (R := placed (screen l) x y u) in *. set (l1 := with_screen l (Some R)).
  assert (E1 : screen l1 = Some R) by reflexivity. assert (E2 : cur l1 = Some c) by exact Hc.
  unfold draw_cursor. rewrite E2, E1. cbn [with_screen screen].
  eexists. split; [reflexivity|]. split; [exact EW|]. split; [exact EH|].
  intros px py Hpx Hpy. split.
  - unfold overlay. cbv zeta. cbn [l1 with_screen l_x l_y]. apply get_paste_masked_any; assumption.
  - rewrite (PX px py Hpx Hpy). destruct (in_box _ _ _ _ _ _); [reflexivity|]. destruct (screen l); reflexivity.
Qed.

(** updateCursor installs a well-formed cursor image of the announced size (so the hypotheses above
    are met by every cursor the client ever holds) *)
Theorem update_cursor_installs l x y w h img msk l' :
  l_nocursor l = false -> update_cursor l x y w h img msk = Some l' ->
  exists c, cur l' = Some c /\ wf_image (c_img c) /\ iw (c_img c) = w /\ ih (c_img c) = h /\
            c_fx c = x /\ c_fy c = y /\ c_mask c = mask_rows (Z.to_nat h) w msk.
Proof.
  intros Hn H. unfold update_cursor in H. rewrite Hn in H.
  destruct (frombytes (l_mode l) w h img) as [ci|] eqn:Ef; [|discriminate].
  destruct (len msk <? (w + 7) / 8 * h); [discriminate|]. injection H as <-.
  destruct (frombytes_wf _ _ _ _ _ Ef) as (Wc & Ew & Eh).
  match goal with |- context [draw_cursor ?t] => set (l1 := t) end.
  exists (mk_cursor ci (mask_rows (Z.to_nat h) w msk) x y).
  split; [|cbn [c_img c_fx c_fy c_mask]; split; [exact Wc|]; split; [exact Ew|]; split; [exact Eh|]; repeat split].
  unfold draw_cursor. cbn [l1 cur]. destruct (screen l1); reflexivity.
Qed.
