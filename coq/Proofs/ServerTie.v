(** command.parse_server as regenerated from the source text ([Gen/ParseServer.v], gen/server.py) is the model's
    [parse_server] - for every string and every behaviour of os.path.exists and ipaddress.IPv6Address. *)
From Coq Require Import ZArith List Bool.
From VD Require Import Base.Bytes Base.Text Model.Server Gen.ParseServer.
Import ListNotations.
Open Scope Z_scope.

Lemma tail_tie (fam : family) (host : text) (parts : list text) :
  (if Nat.eqb (List.length parts) 3
   then match py_int (nth 2 parts []) with None => None | Some n => Some (fam, host, n) end
   else if Nat.eqb (List.length parts) 2
        then match py_int (nth 1 parts []) with None => None | Some n => Some (fam, host, n + 5900) end
        else if Nat.eqb (List.length parts) 1 then Some (fam, host, 5900) else None)
  = match port_of parts with Some p => Some (fam, host, p) | None => None end.
Proof.
  destruct parts as [|a [|b [|c [|d r]]]]; cbn [List.length Nat.eqb nth port_of]; try reflexivity.
  destruct (py_int b); reflexivity.
Qed.

Lemma skipn_1_tl (s : text) : skipn 1 s = tl s.
Proof. destruct s; reflexivity. Qed.

Lemma nth_0_hd (l : list text) : nth 0 l [] = hd [] l.
Proof. destruct l; reflexivity. Qed.

Theorem parse_server_is_source ex v6 s : gen_parse_server ex v6 s = parse_server ex v6 s.
Proof.
  unfold gen_parse_server, parse_server. cbv zeta. rewrite skipn_1_tl, nth_0_hd.
  change [91] with [LBRACK]. change 93 with RBRACK. change 58 with COLON.
  destruct (starts_with [LBRACK] s).
  - destruct (partition_on RBRACK (tl s)) as [[host found] rest]. destruct found; cbn [negb]; [|reflexivity].
    destruct (v6 host); cbn [negb]; [|reflexivity]. apply tail_tie.
  - destruct (hd [] (split_on COLON s)) as [|c r] eqn:E; cbn [is_nil negb].
    + change [49; 50; 55; 46; 48; 46; 48; 46; 49] with localhost. destruct (ex localhost); [apply tail_tie|]. destruct (is_ipv4 localhost); apply tail_tie.
    + destruct (ex (c :: r)); [apply tail_tie|]. destruct (is_ipv4 (c :: r)); apply tail_tie.
Qed.
