(** The synchronous API gives each call its own outcome, in order (C11). *)
From Coq Require Import ZArith List Bool Lia.
From VD Require Import Model.Api.
Import ListNotations.
Open Scope Z_scope.

Section ApiP.
  Variable ops : nat -> okind.
  Variable ncalls : nat.

  Notation astep := (astep ops ncalls).
  Notation expected := (expected ops).

  (* where the single in-flight call is: the state is one of five shapes *)
  Definition place (s : astate) : Prop :=
    let c := a_conn s in let nx := a_next s in let dl := a_delivered s in
    s = mk_a c [] None [] [] nx false dl                                        (* idle *)
    \/ s = mk_a c [] None [nx] [] nx true dl                                    (* in the callFromThread queue *)
    \/ (s = mk_a c [nx] None [] [] nx true dl /\ c = CPending)                  (* appended to the Deferred, not connected yet *)
    \/ (s = mk_a c [] (Some nx) [] [] nx true dl /\ c = CUp)                    (* its Deferred is pending *)
    \/ (s = mk_a c [] None [] [expected c nx] nx true dl /\ c <> CPending).     (* its outcome is on the queue *)

  Definition results_ok (s : astate) : Prop :=
    map fst (a_delivered s) = seq 0 (a_next s) /\
    (forall i r, In (i, r) (a_delivered s) -> r = expected (a_conn s) i /\ a_conn s <> CPending).

  Definition inv (s : astate) : Prop := place s /\ results_ok s.

  Lemma inv0 : inv a0.
  Proof. split; [left; reflexivity|]. split; [reflexivity|intros i r []]. Qed.

  Ltac shape := unfold place; cbn [a_conn a_next a_delivered];
    first [ left; reflexivity | right; left; reflexivity
          | right; right; left; split; [reflexivity|congruence]
          | right; right; right; left; split; [reflexivity|congruence]
          | right; right; right; right; split; [reflexivity|congruence] ].

  Ltac fin Rval :=
    unfold inv, results_ok; cbn [a_conn a_next a_delivered];
    split; [shape|split; [assumption|first [assumption | let Hi := fresh "Hi" in let N := fresh "N" in intros ? ? Hi; destruct (Rval _ _ Hi) as [? N]; congruence]]].

  Lemma step_inv s e : inv s -> inv (astep s e).
  Proof.
    intros [P [Rseq Rval]]. destruct s as [c cbs run th q nx w dl].
    unfold place in P. cbn [a_conn a_next a_delivered] in *.
    destruct P as [E|[E|[[E Hc]|[[E Hc]|[E Hc]]]]]; injection E as -> -> -> -> ->; subst.
    - (* idle *)
      destruct e.
      { cbn [Api.astep a_waiting a_next negb andb]. destruct (Nat.ltb nx ncalls); cbn [a_thunks app]; fin Rval. }
      all: destruct c; cbn; fin Rval.
    - (* in the thunk queue *)
      destruct e; try (destruct c; cbn; fin Rval).
      (* ReactorThunk; with the connection up the operation runs *)
      destruct c; cbn; try (fin Rval).
      destruct (ops nx) as [r|r] eqn:Eo; cbn; [|fin Rval].
      unfold inv, results_ok; cbn [a_conn a_next a_delivered]. split; [|split; assumption].
      unfold place. cbn [a_conn a_next a_delivered]. right; right; right; right.
      split; [|discriminate]. unfold Api.expected. rewrite Eo. reflexivity.
    - (* appended, connection pending *)
      destruct e; try (cbn; fin Rval).
      (* ConnUp *)
      cbn. destruct (ops nx) as [r|r] eqn:Eo; cbn; [|fin Rval].
      unfold inv, results_ok; cbn [a_conn a_next a_delivered]. split; [|split; [assumption|intros i r0 Hi; destruct (Rval i r0 Hi) as [? N]; congruence]].
      unfold place. cbn [a_conn a_next a_delivered]. right; right; right; right.
      split; [|discriminate]. unfold Api.expected. rewrite Eo. reflexivity.
    - (* running *)
      destruct e; try (cbn; fin Rval).
    - (* outcome queued *)
      destruct e; try (destruct c; try congruence; cbn; fin Rval).
      (* AppTake *)
      all: cbn; unfold inv, results_ok; cbn [a_conn a_next a_delivered]; split; [shape|]; split.
      all: try (rewrite map_app, Rseq; cbn [map fst]; rewrite seq_S; reflexivity).
      all: intros i r Hi; apply in_app_or in Hi as [Hi|[Hi|[]]]; [apply Rval; exact Hi|]; inversion Hi; subst; split; [reflexivity|congruence].
  Qed.

  Lemma run_inv evs : forall s, inv s -> inv (fold_left astep evs s).
  Proof. induction evs as [|e r IH]; intros s H; cbn; [exact H|]. apply IH, step_inv, H. Qed.

  (** For every schedule of the application thread, the reactor thread, the connection and the
      operations' completions: the calls return in the order they were made, and call #i returns or
      raises exactly the outcome of operation #i - or, if the connection could not be established,
      the connection failure. A failing call (negative outcome) changes nothing for the later ones. *)
  Theorem own_outcome_in_order evs :
    let s := arun ops ncalls evs in
    map fst (a_delivered s) = seq 0 (a_next s) /\
    forall i r, In (i, r) (a_delivered s) -> r = expected (a_conn s) i.
  Proof.
    destruct (run_inv evs a0 inv0) as [_ [A B]]. split; [exact A|]. intros i r H. apply (B i r H).
  Qed.

  (** the queue never holds more than the one result the blocked caller is waiting for, and an
      operation runs only while its caller is blocked on it: calls execute one at a time *)
  Theorem one_at_a_time evs :
    let s := arun ops ncalls evs in
    (length (a_queue s) <= 1)%nat /\ (forall i, a_running s = Some i -> i = a_next s /\ a_waiting s = true).
  Proof.
    destruct (run_inv evs a0 inv0) as [P _]. cbv zeta. unfold arun.
    generalize dependent (fold_left astep evs a0). intros s P.
    unfold place in P. destruct P as [E|[E|[[E Hc]|[[E Hc]|[E Hc]]]]]; rewrite E; cbn; split; try lia;
      intros i Hi; try discriminate. inversion Hi; subst. split; reflexivity.
  Qed.

  (** if the connection cannot be established every call raises instead of blocking: a call that
      reaches the reactor after the failure is answered at once with the connection failure *)
  Theorem connect_failure_answers nx dl :
    a_queue (astep (mk_a CFailed [] None [nx] [] nx true dl) ReactorThunk) = [NOT_CONNECTED].
  Proof. reflexivity. Qed.
End ApiP.
