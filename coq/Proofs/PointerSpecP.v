(** Pointer histories against the set-of-held-buttons specification (C05). *)
From Coq Require Import ZArith List Bool Lia.
From VD Require Import Base.Bytes Model.ClientMsgs Model.Pointer Model.ClientOps Spec.C2S.
From VD Require Import Proofs.C2SP Proofs.PointerP Proofs.ClientOpsP.
Import ListNotations.
Open Scope Z_scope.

Inductive pop := PMove (x y : Z) | PDown (b : Z) | PUp (b : Z) | PClick (b : Z) | PDrag (x y step : Z).

Definition pop_ok (o : pop) : Prop :=
  match o with
  | PMove x y => 0 <= x <= 65535 /\ 0 <= y <= 65535
  | PDown b | PUp b | PClick b => 1 <= b <= 8
  | PDrag x y step => 0 <= x <= 65535 /\ 0 <= y <= 65535 /\ 1 <= step
  end.

Definition to_op (o : pop) : op :=
  match o with
  | PMove x y => OMove x y | PDown b => ODown b | PUp b => OUp b | PClick b => OPress b
  | PDrag x y st => ODrag x y st
  end.

(** the specification: position = last move target, held = buttons pressed and not released;
    every event carries exactly that *)
Definition spec_step (s : sstate) (o : pop) : sstate * list c2s :=
  match o with
  | PMove x y => let s' := mk_ss x y (s_held s) in (s', [ev s'])
  | PDown b => let s' := mk_ss (s_x s) (s_y s) (set_held (s_held s) b true) in (s', [ev s'])
  | PUp b => let s' := mk_ss (s_x s) (s_y s) (set_held (s_held s) b false) in (s', [ev s'])
  | PClick b =>
      let s1 := mk_ss (s_x s) (s_y s) (set_held (s_held s) b true) in
      let s2 := mk_ss (s_x s) (s_y s) (set_held (s_held s1) b false) in (s2, [ev s1; ev s2])
  | PDrag x y step =>
      (mk_ss x y (s_held s),
       map (fun pt => ev (mk_ss (fst pt) (snd pt) (s_held s))) (drag_points (s_x s) (s_y s) x y step))
  end.

Fixpoint spec_run (s : sstate) (ops : list pop) : sstate * list c2s :=
  match ops with
  | [] => (s, [])
  | o :: r => let '(s1, ms) := spec_step s o in
              let '(s2, ms2) := spec_run s1 r in (s2, ms ++ ms2)
  end.

Lemma Rel_with_ptr cs p ss : Rel p ss -> Rel (cs_ptr (with_ptr cs p)) ss.
Proof. intros; exact H. Qed.

Lemma Rel_mk x y h : 0 <= x <= 65535 -> 0 <= y <= 65535 -> Rel (mk_ptr x y (mask_of h)) (mk_ss x y h).
Proof. intros; unfold Rel; cbn; repeat split; lia. Qed.

Lemma pop_spec cs ss o :
  Rel (cs_ptr cs) ss -> pop_ok o ->
  exists cs', op_spec cs (to_op o) cs' (snd (spec_step ss o)) /\ Rel (cs_ptr cs') (fst (spec_step ss o)).
Proof.
  intros R Hok. pose proof R as (Hx & Hy & Hb & Rx & Ry).
  destruct o as [x y|b|b|b|x y step]; cbn [pop_ok to_op spec_step fst snd] in *.
  - eexists; split; [apply (S_move cs ss x y R); lia|]. cbn [with_ptr cs_ptr]. rewrite Hb. apply Rel_mk; lia.
  - eexists; split; [apply (S_down cs ss b R Hok)|]. cbn [with_ptr cs_ptr]. apply Rel_mk; lia.
  - eexists; split; [apply (S_up cs ss b R Hok)|]. cbn [with_ptr cs_ptr]. apply Rel_mk; lia.
  - eexists; split; [apply (S_press cs ss b R Hok)|]. cbn [with_ptr cs_ptr s_held]. apply Rel_mk; lia.
  - destruct Hok as (Bx & By & Bs).
    eexists; split; [apply (S_drag cs ss x y step R Bx By Bs)|]. cbn [with_ptr cs_ptr]. apply Rel_mk; lia.
Qed.

Theorem pops_spec ops : forall cs ss,
  Rel (cs_ptr cs) ss -> Forall pop_ok ops ->
  exists cs', ops_spec cs (map to_op ops) cs' (snd (spec_run ss ops)) /\
              Rel (cs_ptr cs') (fst (spec_run ss ops)).
Proof.
  induction ops as [|o ops IH]; intros cs ss R H.
  - exists cs. split; [constructor|exact R].
  - inversion H as [|? ? Ho Hr]; subst.
    destruct (pop_spec cs ss o R Ho) as (cs1 & S1 & R1).
    cbn [spec_run map]. destruct (spec_step ss o) as [s1 ms] eqn:E1. cbn [fst snd] in *.
    destruct (IH cs1 s1 R1 Hr) as (cs2 & S2 & R2).
    destruct (spec_run s1 ops) as [s2 ms2] eqn:E2. cbn [fst snd] in *.
    exists cs2. split; [econstructor; eassumption|exact R2].
Qed.

Lemma drag_segment : forall ox oy x y step,
  1 <= step ->
  let dx := x - ox in let dy := y - oy in
  let dmax := Z.max (Z.abs dx) (Z.abs dy) in
  let steps := drag_steps (Z.to_nat dmax) 0 step dmax in
  drag_points ox oy x y step =
    map (fun s => (ox + dx * s / dmax, oy + dy * s / dmax)) steps ++ [(x, y)] /\
  (forall s, In s steps <-> exists k, 0 <= k /\ s = k * step /\ s < dmax) /\
  (forall s, In s steps ->
     dmax * (dx * s / dmax) <= dx * s < dmax * (dx * s / dmax) + dmax /\
     dmax * (dy * s / dmax) <= dy * s < dmax * (dy * s / dmax) + dmax /\
     Z.min ox x <= ox + dx * s / dmax <= Z.max ox x /\
     Z.min oy y <= oy + dy * s / dmax <= Z.max oy y).
Proof.
  intros ox oy x y step Hs dx dy dmax steps. split; [|split].
  - unfold drag_points. fold dx dy dmax. destruct (Z.leb_spec step 0); [lia|]. reflexivity.
  - intros s; split.
    + intros Hin. pose proof (drag_steps_range _ _ _ _ _ Hin Hs) as Hr.
      apply drag_steps_multiples in Hin as (k & Hk & ->). exists k. lia.
    + intros (k & Hk & -> & Hlt).
      replace (k * step) with (0 + k * step) by lia.
      apply drag_steps_complete; lia.
  - intros s Hin. apply drag_steps_range in Hin; [|lia].
    assert (0 < dmax) by lia.
    pose proof (drag_point_floor dx s dmax H) as F1. pose proof (drag_point_floor dy s dmax H) as F2.
    pose proof (drag_point_box ox x s dmax (Z.le_max_l _ _) Hin) as B1.
    pose proof (drag_point_box oy y s dmax (Z.le_max_r _ _) Hin) as B2.
    cbv zeta in F1, F2. unfold dx, dy in *. repeat split; lia.
Qed.

Lemma drag_buttons : forall ss x y step,
  fst (spec_step ss (PDrag x y step)) = mk_ss x y (s_held ss) /\
  Forall (fun m => exists px py, m = MPointerEvent (mask_of (s_held ss)) px py)
         (snd (spec_step ss (PDrag x y step))).
Proof.
  intros ss x y step. split; [reflexivity|]. cbn [spec_step snd].
  apply Forall_forall. intros m Hin. apply in_map_iff in Hin as (pt & <- & _).
  unfold ev; cbn. eauto.
Qed.
