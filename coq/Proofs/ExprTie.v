(** The arithmetic the theorems rest on, as regenerated from the source text ([Gen/Exprs.v], gen/exprs.py), equals the
    arithmetic of the hand-written model and of the specifications - for all integers.  A change of any of these
    expressions in /repo changes [Gen/Exprs.v] and these lemmas have to be re-proved against it. *)
From Coq Require Import ZArith QArith List Bool Lia.
From VD Require Import Base.Bytes Gen.Exprs Model.Rfb Model.ClientMsgs Model.Keys Model.Pointer Model.Auth Model.ClientOps Model.Script
                       Proofs.HextileP Proofs.ZrleP.
Import ListNotations.
Open Scope Z_scope.

(** ** Python's range(a, b, c) for c <> 0 *)
Fixpoint range_down (fuel : nat) (s step stop : Z) : list Z :=
  match fuel with
  | O => []
  | S f => if s >? stop then s :: range_down f (s + step) step stop else []
  end.

Definition py_range (r : Z * Z * Z) : list Z :=
  let '(a, b, c) := r in
  if c >? 0 then drag_steps (Z.to_nat (b - a)) a c b
  else if c <? 0 then range_down (Z.to_nat (a - b)) a c b
  else [].

(** ** mouseDrag *)
Lemma drag_tie cx cy x y step :
  map (gen_drag_move cx cy x y step) (py_range (gen_drag_range cx cy x y step)) ++ [gen_drag_last cx cy x y step]
  = drag_points cx cy x y step.
Proof.
  unfold gen_drag_range, gen_drag_last, drag_points, py_range. cbv zeta.
  set (dmax := Z.max (Z.abs (x - cx)) (Z.abs (y - cy))).
  assert (Hd : 0 <= dmax) by (unfold dmax; lia).
  f_equal.
  destruct (Z.gtb_spec step 0) as [Hp|Hp].
  - replace (step <=? 0) with false by (symmetry; apply Z.leb_gt; lia).
    rewrite Z.sub_0_r. apply map_ext. intro s. unfold gen_drag_move. fold dmax. reflexivity.
  - replace (step <=? 0) with true by (symmetry; apply Z.leb_le; lia).
    destruct (step <? 0); [|reflexivity].
    replace (Z.to_nat (0 - dmax)) with 0%nat by lia. reflexivity.
Qed.

Theorem mouseDrag_is_source s x y step :
  mouseDrag s x y step =
  if step =? 0 then (s, None)
  else moves s (map (gen_drag_move (px s) (py s) x y step) (py_range (gen_drag_range (px s) (py s) x y step))
                ++ [gen_drag_last (px s) (py s) x y step]).
Proof. unfold mouseDrag. rewrite drag_tie. reflexivity. Qed.

(** ** Hextile *)
Lemma hextile_tile_size_tie x y w h tx ty : gen_hextile_tile_size x y w h tx ty = (tile_w x w tx, tile_h y h ty).
Proof. reflexivity. Qed.

Lemma hextile_next_tie x y w h tx ty :
  next_pos x y w h tx ty =
  let '(a, b) := gen_hextile_next x y w h tx ty in if gen_hextile_done x y w h a b then None else Some (a, b).
Proof. unfold next_pos, gen_hextile_next, gen_hextile_done. cbv zeta. destruct (tx + 16 >=? x + w); reflexivity. Qed.

Theorem hex_next_is_source s bg fg x y w h tx ty :
  hex_next s bg fg x y w h tx ty =
  let '(a, b) := gen_hextile_next x y w h tx ty in
  if gen_hextile_done x y w h a b then do_connection s else ok s (PHextile bg fg x y w h a b) [].
Proof.
  rewrite hex_next_eq, hextile_next_tie. destruct (gen_hextile_next x y w h tx ty) as [a b].
  destruct (gen_hextile_done x y w h a b); reflexivity.
Qed.

Theorem hex_first_is_source s x y w h :
  hex_first s x y w h =
  let '(a, b) := gen_hextile_first x y w h 0 0 in
  if gen_hextile_done x y w h a b then do_connection s else ok s (PHextile None None x y w h a b) [].
Proof. reflexivity. Qed.

Theorem hex_subrects_fg_is_source xy wh r tx ty :
  hex_subrects_fg (xy :: wh :: r) tx ty = option_map (cons (gen_hextile_sub_fg tx ty xy wh)) (hex_subrects_fg r tx ty).
Proof. cbn [hex_subrects_fg]. destruct (hex_subrects_fg r tx ty); reflexivity. Qed.

(* one sub-rectangle record of the coloured kind: [bypp] colour bytes, then xy, then wh *)
Theorem hex_subrects_col_is_source f b bp tx ty last color xy wh r2 :
  b <> [] -> take bp b = Some (color, xy :: wh :: r2) ->
  hex_subrects_col (S f) b bp tx ty last =
  match hex_subrects_col f r2 bp tx ty (Some color) with
  | Some (l, lst) => Some ((gen_hextile_sub_col tx ty xy wh, color) :: l, lst)
  | None => None
  end.
Proof. intros Hb Ht. cbn [hex_subrects_col]. destruct b; [contradiction|]. rewrite Ht. reflexivity. Qed.

Lemma hextile_record_layout pos bp :
  gen_hextile_sub_col_offsets pos bp = (pos + bp, pos + bp + 1) /\ gen_hextile_sub_col_stride pos bp = pos + (bp + 2) /\
  gen_hextile_sub_fg_offsets pos bp = (pos, pos + 1) /\ gen_hextile_sub_fg_stride pos bp = pos + 2.
Proof. repeat split. Qed.

(** ** ZRLE *)
Lemma zrle_tile_size_tie x y w h tx ty : gen_zrle_tile_size x y w h tx ty = (ztw x w tx, zth y h ty).
Proof. reflexivity. Qed.

Lemma zrle_next_tie x y w h tx ty : gen_zrle_next x y w h tx ty = znext x w tx ty.
Proof. unfold gen_zrle_next, znext. destruct (tx + 64 >=? x + w); reflexivity. Qed.

Lemma zrle_first_tie x y : gen_zrle_first x y = (x, y).
Proof. reflexivity. Qed.

(** ** the VNC-authentication key *)
Lemma key_byte_tie k : gen_key_byte k = rev8_code k.
Proof.
  unfold gen_key_byte, rev8_code. f_equal. apply map_ext. intro i.
  destruct (Z.land k (Z.shiftl 1 i) =? 0); reflexivity.
Qed.

Lemma pad_trunc_spec : forall n l, pad_trunc n l = firstn n l ++ repeat 0 (n - List.length (firstn n l)).
Proof.
  induction n as [|n IH]; intros l; [reflexivity|]. destruct l as [|c r]; cbn [pad_trunc firstn List.length app].
  - rewrite IH. destruct n; reflexivity.
  - rewrite IH. reflexivity.
Qed.

Theorem vnc_key_is_source pw :
  vnc_key pw =
  let p := firstn gen_key_precision pw in
  let p8 := p ++ repeat gen_key_fill (gen_key_width - List.length p) in
  if forallb (fun c => (0 <=? c) && (c <? 128)) p8 then Some (map gen_key_byte p8) else None.
Proof.
  unfold vnc_key. cbv zeta. rewrite pad_trunc_spec.
  change gen_key_precision with 8%nat. change gen_key_width with 8%nat. change gen_key_fill with 0.
  destruct (forallb _ _); [|reflexivity]. f_equal. apply map_ext. intro k. symmetry. apply key_byte_tie.
Qed.

(** ** time arithmetic of the command line *)
Lemma pause_duration_tie a w : (gen_pause_duration a w == a / w)%Q.
Proof. reflexivity. Qed.

Lemma delay_seconds_tie d : (gen_delay_seconds d == d / 1000)%Q.
Proof. reflexivity. Qed.

Lemma timeout_delay_tie t w : (gen_timeout_delay t w == t)%Q.
Proof. reflexivity. Qed.

Lemma drag_pause_tie : (gen_drag_pause == 2 / 10)%Q.
Proof. reflexivity. Qed.

Theorem pause_lasts_requested_over_warp r a w :
  exists r', run_sop r (SPause (gen_pause_duration a w)) = SOk [] r' /\ (rs_time r' == rs_time r + a / w)%Q /\ rs_client r' = rs_client r.
Proof.
  unfold run_sop. destruct (absorb (rs_time r) (rs_cur r) (rs_commits r)) as [cur cs]. eexists. split; [reflexivity|].
  cbn [rs_time rs_client]. split; [|reflexivity]. rewrite Qred_correct. reflexivity.
Qed.

(** ** the statements the property files quote *)
Theorem tile_geometry_is_source x y w h tx ty :
  gen_hextile_tile_size x y w h tx ty = (tile_w x w tx, tile_h y h ty) /\
  next_pos x y w h tx ty =
    (let '(a, b) := gen_hextile_next x y w h tx ty in if gen_hextile_done x y w h a b then None else Some (a, b)) /\
  gen_zrle_tile_size x y w h tx ty = (ztw x w tx, zth y h ty) /\
  gen_zrle_next x y w h tx ty = znext x w tx ty /\
  gen_zrle_first x y = (x, y).
Proof.
  split; [apply hextile_tile_size_tie|]. split; [apply hextile_next_tie|]. split; [apply zrle_tile_size_tie|].
  split; [apply zrle_next_tie|apply zrle_first_tie].
Qed.

Theorem subrect_geometry_is_source tx ty xy wh :
  gen_hextile_sub_fg tx ty xy wh = (tx + Z.shiftr xy 4, ty + Z.land xy 15, Z.shiftr wh 4 + 1, Z.land wh 15 + 1) /\
  gen_hextile_sub_col tx ty xy wh = (tx + Z.shiftr xy 4, ty + Z.land xy 15, Z.shiftr wh 4 + 1, Z.land wh 15 + 1).
Proof. split; reflexivity. Qed.

(* RFC 6143 7.7.4: x-and-y-position / width-and-height bytes: high nibble, low nibble (+1 for sizes) *)
Theorem subrect_geometry_is_rfc tx ty xy wh : 0 <= xy < 256 -> 0 <= wh < 256 ->
  gen_hextile_sub_fg tx ty xy wh = (tx + xy / 16, ty + xy mod 16, wh / 16 + 1, wh mod 16 + 1).
Proof.
  intros Hx Hw. unfold gen_hextile_sub_fg. rewrite !Z.shiftr_div_pow2 by lia.
  change 15 with (Z.ones 4). rewrite !Z.land_ones by lia. reflexivity.
Qed.

Theorem timeout_is_wall_clock t w : (gen_timeout_delay t w == t)%Q.
Proof. apply timeout_delay_tie. Qed.

(** ** pointer operations: the event written and the attribute updates are the source's own; the attributes are
    assigned after the event has been written, so an operation that raises (a field that does not fit the message, a
    negative shift count for button < 1) leaves the remembered position and buttons as they were *)
Definition apply_ptr (s : ptr) (r : (Z * Z * Z) * (Z * Z * Z)) : ptr * option bytes :=
  let '((x', y', m'), (ex, ey, em)) := r in
  match pointerEvent ex ey em with
  | Some w => (mk_ptr x' y' m', Some w)
  | None => (s, None)
  end.

Theorem mouseMove_is_source s x y :
  gen_mouseMove_commits_after_event = true /\
  mouseMove s x y = apply_ptr s (gen_mouseMove (px s) (py s) (pbuttons s) x y).
Proof. split; reflexivity. Qed.

Theorem mouseDown_is_source s b :
  gen_mouseDown_commits_after_event = true /\
  mouseDown s b =
  if gen_mouseDown_defined (px s) (py s) (pbuttons s) b then apply_ptr s (gen_mouseDown (px s) (py s) (pbuttons s) b) else (s, None).
Proof.
  split; [reflexivity|].
  unfold mouseDown, gen_mouseDown_defined. destruct (Z.ltb_spec (b - 1) 0) as [H|H].
  - replace (0 <=? b - 1) with false by (symmetry; apply Z.leb_gt; lia). reflexivity.
  - replace (0 <=? b - 1) with true by (symmetry; apply Z.leb_le; lia). reflexivity.
Qed.

(* mouseUp assigns first: its only failure is the negative shift count, which is raised before the assignment; clearing a
   bit cannot make the mask unpackable when it was packable *)
Definition apply_ptr_eager (r : (Z * Z * Z) * (Z * Z * Z)) : ptr * option bytes :=
  let '((x', y', m'), (ex, ey, em)) := r in (mk_ptr x' y' m', pointerEvent ex ey em).

Theorem mouseUp_is_source s b :
  mouseUp s b =
  if gen_mouseUp_defined (px s) (py s) (pbuttons s) b then apply_ptr_eager (gen_mouseUp (px s) (py s) (pbuttons s) b) else (s, None).
Proof.
  unfold mouseUp, gen_mouseUp_defined. destruct (Z.ltb_spec (b - 1) 0) as [H|H].
  - replace (0 <=? b - 1) with false by (symmetry; apply Z.leb_gt; lia). reflexivity.
  - replace (0 <=? b - 1) with true by (symmetry; apply Z.leb_le; lia). reflexivity.
Qed.

(* a pointer operation that raises leaves the client's bookkeeping untouched: later calls are not affected *)
Theorem failed_move_keeps_state s x y s' : mouseMove s x y = (s', None) -> s' = s.
Proof. unfold mouseMove. destruct (pointerEvent x y (pbuttons s)); intros H; inversion H; reflexivity. Qed.

Theorem failed_down_keeps_state s b s' : mouseDown s b = (s', None) -> s' = s.
Proof.
  unfold mouseDown. destruct (b - 1 <? 0); [intros H; inversion H; reflexivity|]. cbv zeta.
  destruct (pointerEvent _ _ _); intros H; inversion H; reflexivity.
Qed.

(** ** key operations: the passes over the decoded keys (direction, down-flag) are the source's own *)
Fixpoint run_passes (passes : list (bool * bool)) (keys : list Z) : option bytes :=
  match passes with
  | [] => Some []
  | (rv, down) :: r =>
      match key_events (if down then 1 else 0) (if rv then rev keys else keys), run_passes r keys with
      | Some a, Some b => Some (a ++ b)
      | _, _ => None
      end
  end.

Theorem keyPress_is_source fc up key :
  keyPress fc up key = match decode_key fc up key with None => None | Some keys => run_passes gen_keyPress_passes keys end.
Proof.
  unfold keyPress, gen_keyPress_passes. destruct (decode_key fc up key) as [keys|]; [|reflexivity].
  cbn [run_passes]. destruct (key_events 1 keys) as [a|]; [|reflexivity].
  destruct (key_events 0 (rev keys)) as [b|]; [|reflexivity]. rewrite app_nil_r. reflexivity.
Qed.

Theorem keyDown_is_source fc up key :
  keyDown fc up key = match decode_key fc up key with None => None | Some keys => run_passes gen_keyDown_passes keys end.
Proof.
  unfold keyDown, gen_keyDown_passes. destruct (decode_key fc up key) as [keys|]; [|reflexivity].
  cbn [run_passes]. destruct (key_events 1 keys) as [a|]; [|reflexivity]. rewrite app_nil_r. reflexivity.
Qed.

Theorem keyUp_is_source fc up key :
  keyUp fc up key = match decode_key fc up key with None => None | Some keys => run_passes gen_keyUp_passes keys end.
Proof.
  unfold keyUp, gen_keyUp_passes. destruct (decode_key fc up key) as [keys|]; [|reflexivity].
  cbn [run_passes]. destruct (key_events 0 keys) as [a|]; [|reflexivity]. rewrite app_nil_r. reflexivity.
Qed.

Theorem pointer_ops_are_source s x y b :
  mouseMove s x y = apply_ptr s (gen_mouseMove (px s) (py s) (pbuttons s) x y) /\
  mouseDown s b = (if gen_mouseDown_defined (px s) (py s) (pbuttons s) b then apply_ptr s (gen_mouseDown (px s) (py s) (pbuttons s) b) else (s, None)) /\
  mouseUp s b = (if gen_mouseUp_defined (px s) (py s) (pbuttons s) b then apply_ptr_eager (gen_mouseUp (px s) (py s) (pbuttons s) b) else (s, None)).
Proof. split; [apply mouseMove_is_source|]. split; [apply mouseDown_is_source|apply mouseUp_is_source]. Qed.

Theorem failed_pointer_op_keeps_state s x y b s' :
  (mouseMove s x y = (s', None) -> s' = s) /\ (mouseDown s b = (s', None) -> s' = s).
Proof. split; [apply failed_move_keeps_state|apply failed_down_keeps_state]. Qed.

Theorem key_passes_are_source fc up key :
  keyPress fc up key = (match decode_key fc up key with None => None | Some keys => run_passes gen_keyPress_passes keys end) /\
  keyDown fc up key = (match decode_key fc up key with None => None | Some keys => run_passes gen_keyDown_passes keys end) /\
  keyUp fc up key = (match decode_key fc up key with None => None | Some keys => run_passes gen_keyUp_passes keys end).
Proof. split; [apply keyPress_is_source|]. split; [apply keyDown_is_source|apply keyUp_is_source]. Qed.

(** ** framebufferUpdateRequest: the defaults (whole desktop from (x, y)) and the order of the packed fields *)
From VD Require Import Base.Struct Gen.Formats.
Theorem fbur_is_source s x y w h inc :
  fbur s x y w h inc =
  pack fmt_rfb_RFBClient_framebufferUpdateRequest_0 (map VI (gen_fbur_fields (cs_width s) (cs_height s) x y w h inc)).
Proof. unfold fbur, framebufferUpdateRequest, gen_fbur_fields. destruct w, h; reflexivity. Qed.

(** ** the exit status of vncdo: what each reactor event leaves in reactor.exit_status is the source's own decision
    (VNCDoCLIFactory.clientConnectionLost / clientConnectionFailed / error / done, build_tool's initial value) *)
From VD Require Import Model.Exit.
Theorem exit_status_is_source s e :
  x_status x0 = gen_status_initial /\
  xstep s e =
  if x_stopped s then s
  else match e with
       | XConnFailed => done s gen_status_failed
       | XCompleted => mk_x (x_status s) true (x_stopping s) (x_stopped s)
       | XLostClean => done s (gen_status_lost true (x_completed s))
       | XLostError => done s (gen_status_lost false (x_completed s))
       | XTimeout => done s gen_status_error
       | XStop => if x_stopping s then mk_x (x_status s) (x_completed s) true true else s
       end.
Proof.
  split; [reflexivity|]. unfold xstep. destruct (x_stopped s); [reflexivity|].
  destruct e; try reflexivity. unfold gen_status_lost. cbn [andb]. destruct (x_completed s); reflexivity.
Qed.

(** ** the boxes of the region operations: offset, and offset + size *)
From VD Require Import Model.Expect.
Theorem region_boxes_are_source x y w h :
  gen_expect_box x y w h = region_box x y w h /\ gen_capture_region_box x y w h = (x, y, x + w, y + h).
Proof. split; reflexivity. Qed.

(** ** the encodings advertised after ServerInit: the list vncConnectionMade builds, option by option *)
Theorem encodings_are_source c :
  encodings_of c = gen_encodings (c_encoding c) (c_pseudocursor c) (c_nocursor c) (c_pseudodesktop c) (c_last_rect c) (c_qemu c).
Proof. unfold encodings_of, gen_encodings. rewrite <- !app_assoc. reflexivity. Qed.
