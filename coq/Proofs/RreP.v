(** RRE and CoRRE round trips in continuation form (C02, RFC 6143 §7.7.3 and the CoRRE variant):
    a rectangle written as the RFC says - number of subrectangles, background pixel, then
    (pixel, x, y, w, h) per subrectangle - is consumed exactly and produces exactly one background fill
    and one fill per subrectangle, in order, at the rectangle's offset. *)
From Coq Require Import ZArith List Bool Lia.
From RecordUpdate Require Import RecordSet.
Import RecordSetNotations.
From VD Require Import Base.Bytes Base.BytesP Base.Struct Gen.Tables Gen.Formats.
From VD Require Import Model.Engine Model.ClientMsgs Model.Auth Model.Rfb Spec.C2S Proofs.C2SP Proofs.DecodeP.
Import ListNotations.
Open Scope Z_scope.

(* one subrectangle: pixel value and position/size relative to the rectangle *)
Definition sub := (bytes * Z * Z * Z * Z)%type.

Definition sub_fill (x y : Z) (q : sub) : Z * Z * Z * Z * bytes :=
  let '(c, sx, sy, sw, sh) := q in (x + sx, y + sy, sw, sh, c).

Definition fill_ev (f : Z * Z * Z * Z * bytes) : ev := let '(x, y, w, h, c) := f in EFill x y w h c.

Definition fill_ok (s : st) (f : Z * Z * Z * Z * bytes) : Prop :=
  let '(x, y, w, h, c) := f in (0 <? w) && (0 <? h) && upd_raises s w h (len c * Z.max 0 w * Z.max 0 h) = false.

Lemma fills_ok s l k : Forall (fill_ok s) l -> fills s l k = prepend (map fill_ev l) k.
Proof.
  induction l as [|[[[[x y] w] h] c] l IH]; intros H; cbn [fills map].
  - destruct k; reflexivity.
  - pose proof (Forall_inv H) as H1. pose proof (Forall_inv_tail H) as H2. cbv beta iota delta [fill_ok] in H1.
    unfold fill. destruct ((0 <? w) && (0 <? h) && upd_raises s w h (len c * Z.max 0 w * Z.max 0 h)); [discriminate|].
    rewrite (IH H2). cbn [fill_ev]. destruct k; cbn [prepend app]; reflexivity.
Qed.

Lemma nonempty_match {A B} (b : list A) (X Y : B) : 0 < len b -> match b with [] => X | _ :: _ => Y end = Y.
Proof. destruct b; [unfold len; cbn [List.length Z.of_nat]; lia|reflexivity]. Qed.

(** ** RRE: subrectangles carry U16 coordinates *)

Definition wire_sub16 (q : sub) : bytes :=
  let '(c, sx, sy, sw, sh) := q in c ++ be_enc 2 sx ++ be_enc 2 sy ++ be_enc 2 sw ++ be_enc 2 sh.

Definition sub16_ok (bp : Z) (q : sub) : Prop :=
  let '(c, sx, sy, sw, sh) := q in len c = bp /\ u16ok sx /\ u16ok sy /\ u16ok sw /\ u16ok sh.

Lemma wire_sub16_len bp q : sub16_ok bp q -> len (wire_sub16 q) = bp + 8.
Proof.
  destruct q as [[[[c sx] sy] sw] sh]. cbn [sub16_ok wire_sub16]. intros (Hc & _).
  rewrite !len_app, Hc. unfold len. rewrite !be_enc_length. lia.
Qed.

Lemma unpack_sub16 bp c sx sy sw sh : 0 <= bp -> sub16_ok bp (c, sx, sy, sw, sh) ->
  unpack (fmt_rfb_RFBClient_handleRRESubRectangles_0 bp) (wire_sub16 (c, sx, sy, sw, sh)) =
  Some [VS c; VI sx; VI sy; VI sw; VI sh].
Proof.
  intros Hbp (Hc & Hx & Hy & Hw & Hh). unfold fmt_rfb_RFBClient_handleRRESubRectangles_0, wire_sub16.
  destruct (u16_enc sx Hx) as [Ex Ux]. destruct (u16_enc sy Hy) as [Ey Uy].
  destruct (u16_enc sw Hw) as [Ew Uw]. destruct (u16_enc sh Hh) as [Eh Uh].
  rewrite Ex, Ey, Ew, Eh. cbn [app].
  cbn [unpack fsize]. rewrite Z.max_r by exact Hbp. rewrite <- Hc, take_app_exact.
  cbn [unpack fsize take Z.leb Z.compare Z.sub Z.add Z.opp Z.pos_sub Pos.compare Pos.compare_cont Pos.pred_double unpack1 map].
  rewrite !be_dec2, Ux, Uy, Uw, Uh. reflexivity.
Qed.

Lemma subrects16 bp x y : 0 <= bp -> forall subs fuel, Forall (sub16_ok bp) subs -> (List.length subs <= fuel)%nat ->
  subrects fuel (fmt_rfb_RFBClient_handleRRESubRectangles_0 bp) (bp + 8) (concat (map wire_sub16 subs)) x y =
  Some (map (sub_fill x y) subs).
Proof.
  intros Hbp. induction subs as [|q subs IH]; intros fuel Hok Hf.
  - destruct fuel; reflexivity.
  - destruct fuel as [|fuel]; [cbn [List.length] in Hf; lia|].
    pose proof (Forall_inv Hok) as H1. pose proof (Forall_inv_tail Hok) as H2.
    cbn [map concat subrects]. pose proof (wire_sub16_len bp q H1) as L.
    rewrite nonempty_match by (rewrite len_app; pose proof (len_nonneg (concat (map wire_sub16 subs))); lia).
    rewrite <- L, take_app_exact.
    destruct q as [[[[c sx] sy] sw] sh]. rewrite (unpack_sub16 bp c sx sy sw sh Hbp H1).
    rewrite L. rewrite (IH fuel H2) by (cbn [List.length] in Hf; lia). reflexivity.
Qed.

Lemma concat_sub16_len bp subs : Forall (sub16_ok bp) subs -> len (concat (map wire_sub16 subs)) = (bp + 8) * len subs.
Proof.
  induction subs as [|q subs IH]; intros H; cbn [map concat]; [unfold len; cbn [List.length Z.of_nat]; lia|].
  rewrite len_app, len_cons, (wire_sub16_len bp q (Forall_inv H)), (IH (Forall_inv_tail H)). lia.
Qed.

Definition wire_rre (x y w h : Z) (bg : bytes) (subs : list sub) : bytes :=
  rect_hdr x y w h [0; 0; 0; 2] ++ be_enc 4 (len subs) ++ bg ++ concat (map wire_sub16 subs).

Theorem rre_roundtrip s x y w h bg subs tail s2 p2 es2 es r n :
  u16ok x -> u16ok y -> u16ok w -> u16ok h ->
  rects s <> 0 -> 0 <= bypp s ->
  let s1 := enter_rect s x y w h in
  len bg = bypp s -> len subs < 4294967296 -> Forall (sub16_ok (bypp s)) subs ->
  fill_ok s1 (x, y, w, h, bg) -> Forall (fill_ok s1) (map (sub_fill x y) subs) ->
  do_connection s1 = Ok s2 (Some p2) es2 ->
  Drain s2 p2 tail es r n ->
  Drain s PRect (wire_rre x y w h bg subs ++ tail)
        ([EFill x y w h bg] ++ map fill_ev (map (sub_fill x y) subs) ++ es2 ++ es) r
        (match subs with [] => 2 | _ => 3 end + n).
Proof.
  intros Hx Hy Hw Hh Hr Hbp s1 Hbg Hn Hsubs Hf0 Hfs Hd HD.
  assert (B1 : bypp s1 = bypp s) by reflexivity.
  unfold wire_rre. rewrite <- !app_assoc.
  destruct (rect_hdr_unpack x y w h [0; 0; 0; 2] (be_enc 4 (len subs) ++ bg ++ concat (map wire_sub16 subs) ++ tail) Hx Hy Hw Hh eq_refl) as [Ht Hun].
  assert (Hstep1 : step s PRect (rect_hdr x y w h [0; 0; 0; 2]) = Ok s1 (Some (PRRE (4 + bypp s1) x y w h)) []).
  { cbn [step]. rewrite Hun. change (to_s32 (be_dec [0; 0; 0; 2])) with 2.
    change (2 =? ENC_PSEUDO_LAST_RECT) with false. cbv iota.
    destruct (Z.eqb_spec (rects s) 0) as [E|_]; [contradiction|].
    change (2 =? ENC_COPY_RECTANGLE) with false. change (2 =? ENC_RAW) with false.
    change (2 =? ENC_HEXTILE) with false. change (2 =? ENC_CORRE) with false. change (2 =? ENC_RRE) with true.
    cbv iota. reflexivity. }
  assert (Ln : len (be_enc 4 (len subs) ++ bg) = 4 + bypp s1).
  { rewrite len_app, Hbg, B1. unfold len at 1. rewrite be_enc_length. lia. }
  assert (Hun4 : unpackZ fmt_rfb_RFBClient_handleDecodeRRE_0 (be_enc 4 (len subs)) = Some [len subs]).
  { pose proof (be_dec_enc 4 (len subs)) as D. pose proof (len_nonneg subs).
    assert (D' : be_dec (be_enc 4 (len subs)) = len subs) by (apply D; change (256 ^ Z.of_nat 4) with 4294967296; lia).
    unfold unpackZ, fmt_rfb_RFBClient_handleDecodeRRE_0. cbn [unpack fsize].
    change 4 with (len (be_enc 4 (len subs))) at 1.
    rewrite <- (app_nil_r (be_enc 4 (len subs))) at 2. rewrite take_app_exact. cbn [unpack unpack1 map]. rewrite D'. reflexivity. }
  assert (T4 : take 4 (be_enc 4 (len subs) ++ bg) = Some (be_enc 4 (len subs), bg)).
  { change 4 with (len (be_enc 4 (len subs))) at 1. apply take_app_exact. }
  destruct subs as [|q subs'].
  - (* no subrectangle: the rectangle ends after the background *)
    cbn [map concat app]. cbn [len List.length Z.of_nat] in *.
    match goal with |- Drain _ _ _ ?E _ _ => change E with ([] ++ ([EFill x y w h bg] ++ es2) ++ es) end.
    replace (2 + n)%nat with (S (S n)) by lia.
    eapply D_step; [exact Ht|exact Hstep1|]. cbn [next_pend].
    eapply D_step.
    + cbn [need]. rewrite <- Ln. rewrite app_assoc. apply take_app_exact.
    + cbn [step]. rewrite T4, Hun4. change (0 =? 0) with true. cbv iota.
      unfold fill. cbv beta iota delta [fill_ok] in Hf0.
      destruct ((0 <? w) && (0 <? h) && upd_raises s1 w h (len bg * Z.max 0 w * Z.max 0 h)); [discriminate|].
      rewrite Hd. cbn [prepend]. reflexivity.
    + cbn [next_pend]. exact HD.
  - set (subs := q :: subs') in *.
    assert (Hpos : len subs <> 0) by (unfold subs; rewrite len_cons; pose proof (len_nonneg subs'); lia).
    match goal with |- Drain _ _ _ ?E _ _ =>
      change E with ([] ++ [EFill x y w h bg] ++ (map fill_ev (map (sub_fill x y) subs) ++ es2 ++ es)) end.
    replace (3 + n)%nat with (S (S (S n))) by lia.
    eapply D_step; [exact Ht|exact Hstep1|]. cbn [next_pend].
    eapply D_step.
    + cbn [need]. rewrite <- Ln. rewrite app_assoc. apply take_app_exact.
    + cbn [step]. rewrite T4, Hun4. destruct (Z.eqb_spec (len subs) 0) as [E|_]; [contradiction|].
      unfold fill. cbv beta iota delta [fill_ok] in Hf0.
      destruct ((0 <? w) && (0 <? h) && upd_raises s1 w h (len bg * Z.max 0 w * Z.max 0 h)); [discriminate|].
      cbn [prepend ok app]. reflexivity.
    + cbn [next_pend]. rewrite (app_assoc (map fill_ev (map (sub_fill x y) subs)) es2 es).
      eapply D_step.
      * cbn [need]. rewrite B1. replace ((8 + bypp s) * len subs) with (len (concat (map wire_sub16 subs)))
          by (rewrite (concat_sub16_len (bypp s) subs Hsubs); lia). apply take_app_exact.
      * cbn [step]. rewrite B1.
        replace (bypp s + 8) with (bypp s + 8) by reflexivity.
        rewrite (subrects16 (bypp s) x y Hbp subs _ Hsubs).
        -- rewrite (fills_ok s1 _ _ Hfs), Hd. cbn [prepend]. reflexivity.
        -- pose proof (concat_sub16_len (bypp s) subs Hsubs) as L. unfold len in L. nia.
      * cbn [next_pend]. exact HD.
Qed.

(** ** CoRRE: the same with single-byte coordinates *)

Definition u8ok (v : Z) : Prop := 0 <= v < 256.

Definition wire_sub8 (q : sub) : bytes := let '(c, sx, sy, sw, sh) := q in c ++ [sx; sy; sw; sh].

Definition sub8_ok (bp : Z) (q : sub) : Prop :=
  let '(c, sx, sy, sw, sh) := q in len c = bp /\ u8ok sx /\ u8ok sy /\ u8ok sw /\ u8ok sh.

Lemma wire_sub8_len bp q : sub8_ok bp q -> len (wire_sub8 q) = bp + 4.
Proof.
  destruct q as [[[[c sx] sy] sw] sh]. cbn [sub8_ok wire_sub8]. intros (Hc & _).
  rewrite !len_app, Hc. unfold len. cbn [List.length Z.of_nat]. lia.
Qed.

Lemma be_dec1 a : be_dec [a] = a.
Proof. unfold be_dec. cbn [be_dec_acc]. lia. Qed.

Lemma unpack_sub8 bp c sx sy sw sh : 0 <= bp -> sub8_ok bp (c, sx, sy, sw, sh) ->
  unpack (fmt_rfb_RFBClient_handleDecodeCORRERectangles_0 bp) (wire_sub8 (c, sx, sy, sw, sh)) =
  Some [VS c; VI sx; VI sy; VI sw; VI sh].
Proof.
  intros Hbp (Hc & _). unfold fmt_rfb_RFBClient_handleDecodeCORRERectangles_0, wire_sub8.
  cbn [unpack fsize]. rewrite Z.max_r by exact Hbp. rewrite <- Hc, take_app_exact.
  cbn [unpack fsize take Z.leb Z.compare Z.sub Z.add Z.opp Z.pos_sub Pos.compare Pos.compare_cont Pos.pred_double unpack1 map].
  rewrite !be_dec1. reflexivity.
Qed.

Lemma subrects8 bp x y : 0 <= bp -> forall subs fuel, Forall (sub8_ok bp) subs -> (List.length subs <= fuel)%nat ->
  subrects fuel (fmt_rfb_RFBClient_handleDecodeCORRERectangles_0 bp) (bp + 4) (concat (map wire_sub8 subs)) x y =
  Some (map (sub_fill x y) subs).
Proof.
  intros Hbp. induction subs as [|q subs IH]; intros fuel Hok Hf.
  - destruct fuel; reflexivity.
  - destruct fuel as [|fuel]; [cbn [List.length] in Hf; lia|].
    pose proof (Forall_inv Hok) as H1. pose proof (Forall_inv_tail Hok) as H2.
    cbn [map concat subrects]. pose proof (wire_sub8_len bp q H1) as L.
    rewrite nonempty_match by (rewrite len_app; pose proof (len_nonneg (concat (map wire_sub8 subs))); lia).
    rewrite <- L, take_app_exact.
    destruct q as [[[[c sx] sy] sw] sh]. rewrite (unpack_sub8 bp c sx sy sw sh Hbp H1).
    rewrite L. rewrite (IH fuel H2) by (cbn [List.length] in Hf; lia). reflexivity.
Qed.

Lemma concat_sub8_len bp subs : Forall (sub8_ok bp) subs -> len (concat (map wire_sub8 subs)) = (bp + 4) * len subs.
Proof.
  induction subs as [|q subs IH]; intros H; cbn [map concat]; [unfold len; cbn [List.length Z.of_nat]; lia|].
  rewrite len_app, len_cons, (wire_sub8_len bp q (Forall_inv H)), (IH (Forall_inv_tail H)). lia.
Qed.

Definition wire_corre (x y w h : Z) (bg : bytes) (subs : list sub) : bytes :=
  rect_hdr x y w h [0; 0; 0; 4] ++ be_enc 4 (len subs) ++ bg ++ concat (map wire_sub8 subs).

Theorem corre_roundtrip s x y w h bg subs tail s2 p2 es2 es r n :
  u16ok x -> u16ok y -> u16ok w -> u16ok h ->
  rects s <> 0 -> 0 <= bypp s ->
  let s1 := enter_rect s x y w h in
  len bg = bypp s -> len subs < 4294967296 -> Forall (sub8_ok (bypp s)) subs ->
  fill_ok s1 (x, y, w, h, bg) -> Forall (fill_ok s1) (map (sub_fill x y) subs) ->
  do_connection s1 = Ok s2 (Some p2) es2 ->
  Drain s2 p2 tail es r n ->
  Drain s PRect (wire_corre x y w h bg subs ++ tail)
        ([EFill x y w h bg] ++ map fill_ev (map (sub_fill x y) subs) ++ es2 ++ es) r
        (match subs with [] => 2 | _ => 3 end + n).
Proof.
  intros Hx Hy Hw Hh Hr Hbp s1 Hbg Hn Hsubs Hf0 Hfs Hd HD.
  assert (B1 : bypp s1 = bypp s) by reflexivity.
  unfold wire_corre. rewrite <- !app_assoc.
  destruct (rect_hdr_unpack x y w h [0; 0; 0; 4] (be_enc 4 (len subs) ++ bg ++ concat (map wire_sub8 subs) ++ tail) Hx Hy Hw Hh eq_refl) as [Ht Hun].
  assert (Hstep1 : step s PRect (rect_hdr x y w h [0; 0; 0; 4]) = Ok s1 (Some (PCoRRE (4 + bypp s1) x y w h)) []).
  { cbn [step]. rewrite Hun. change (to_s32 (be_dec [0; 0; 0; 4])) with 4.
    change (4 =? ENC_PSEUDO_LAST_RECT) with false. cbv iota.
    destruct (Z.eqb_spec (rects s) 0) as [E|_]; [contradiction|].
    change (4 =? ENC_COPY_RECTANGLE) with false. change (4 =? ENC_RAW) with false.
    change (4 =? ENC_HEXTILE) with false. change (4 =? ENC_CORRE) with true.
    cbv iota. reflexivity. }
  assert (Ln : len (be_enc 4 (len subs) ++ bg) = 4 + bypp s1).
  { rewrite len_app, Hbg, B1. unfold len at 1. rewrite be_enc_length. lia. }
  assert (Hun4 : unpackZ fmt_rfb_RFBClient_handleDecodeCORRE_0 (be_enc 4 (len subs)) = Some [len subs]).
  { pose proof (be_dec_enc 4 (len subs)) as D. pose proof (len_nonneg subs).
    assert (D' : be_dec (be_enc 4 (len subs)) = len subs) by (apply D; change (256 ^ Z.of_nat 4) with 4294967296; lia).
    unfold unpackZ, fmt_rfb_RFBClient_handleDecodeCORRE_0. cbn [unpack fsize].
    change 4 with (len (be_enc 4 (len subs))) at 1.
    rewrite <- (app_nil_r (be_enc 4 (len subs))) at 2. rewrite take_app_exact. cbn [unpack unpack1 map]. rewrite D'. reflexivity. }
  assert (T4 : take 4 (be_enc 4 (len subs) ++ bg) = Some (be_enc 4 (len subs), bg)).
  { change 4 with (len (be_enc 4 (len subs))) at 1. apply take_app_exact. }
  destruct subs as [|q subs'].
  - cbn [map concat app]. cbn [len List.length Z.of_nat] in *.
    match goal with |- Drain _ _ _ ?E _ _ => change E with ([] ++ ([EFill x y w h bg] ++ es2) ++ es) end.
    replace (2 + n)%nat with (S (S n)) by lia.
    eapply D_step; [exact Ht|exact Hstep1|]. cbn [next_pend].
    eapply D_step.
    + cbn [need]. rewrite <- Ln. rewrite app_assoc. apply take_app_exact.
    + cbn [step]. rewrite T4, Hun4. change (0 =? 0) with true. cbv iota.
      unfold fill. cbv beta iota delta [fill_ok] in Hf0.
      destruct ((0 <? w) && (0 <? h) && upd_raises s1 w h (len bg * Z.max 0 w * Z.max 0 h)); [discriminate|].
      rewrite Hd. cbn [prepend]. reflexivity.
    + cbn [next_pend]. exact HD.
  - set (subs := q :: subs') in *.
    assert (Hpos : len subs <> 0) by (unfold subs; rewrite len_cons; pose proof (len_nonneg subs'); lia).
    match goal with |- Drain _ _ _ ?E _ _ =>
      change E with ([] ++ [EFill x y w h bg] ++ (map fill_ev (map (sub_fill x y) subs) ++ es2 ++ es)) end.
    replace (3 + n)%nat with (S (S (S n))) by lia.
    eapply D_step; [exact Ht|exact Hstep1|]. cbn [next_pend].
    eapply D_step.
    + cbn [need]. rewrite <- Ln. rewrite app_assoc. apply take_app_exact.
    + cbn [step]. rewrite T4, Hun4. destruct (Z.eqb_spec (len subs) 0) as [E|_]; [contradiction|].
      unfold fill. cbv beta iota delta [fill_ok] in Hf0.
      destruct ((0 <? w) && (0 <? h) && upd_raises s1 w h (len bg * Z.max 0 w * Z.max 0 h)); [discriminate|].
      cbn [prepend ok app]. reflexivity.
    + cbn [next_pend]. rewrite (app_assoc (map fill_ev (map (sub_fill x y) subs)) es2 es).
      eapply D_step.
      * cbn [need]. rewrite B1. replace ((4 + bypp s) * len subs) with (len (concat (map wire_sub8 subs)))
          by (rewrite (concat_sub8_len (bypp s) subs Hsubs); lia). apply take_app_exact.
      * cbn [step]. rewrite B1.
        rewrite (subrects8 (bypp s) x y Hbp subs _ Hsubs).
        -- rewrite (fills_ok s1 _ _ Hfs), Hd. cbn [prepend]. reflexivity.
        -- pose proof (concat_sub8_len (bypp s) subs Hsubs) as L. unfold len in L. nia.
      * cbn [next_pend]. exact HD.
Qed.
