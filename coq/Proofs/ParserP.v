(** The vnclog viewer-side parser (loggingproxy.RFBServer) is a faithful framer: appended data never
    changes what was already decided (C16, C17). *)
From Coq Require Import ZArith List Bool Lia.
From VD Require Import Base.Bytes Base.BytesP Base.Struct Base.PixFmt Base.Text Gen.Tables Gen.Formats.
From VD Require Import Model.ClientMsgs Model.Shlex Model.Recorder.
Import ListNotations.
Open Scope Z_scope.

Definition ext (s : rstate) (x : bytes) : rstate :=
  mk_rstate (r_buf s ++ x) (r_handler s) (r_need s) (r_pwreq s) (r_mouse s) (r_last s).

(* the pending handler has all the bytes its decision depends on *)
Definition ready (s : rstate) : Prop :=
  match r_handler s with
  | HProtocol => match r_buf s with [] => False | t :: _ => type_len t <= len (r_buf s) end
  | HVersion => 12 <= len (r_buf s)
  | HSecurity => 1 <= len (r_buf s)
  | HAuthResp => 16 <= len (r_buf s)
  | HClientInit => 1 <= len (r_buf s)
  | HQemu => 10 <= len (r_buf s)
  | HEncList n => 4 * n <= len (r_buf s)
  | HCutText n => n <= len (r_buf s)
  end.

Definition lift (x : bytes) (r : hres) : hres :=
  match r with HOk es s' => HOk es (ext s' x) | HRaise => HRaise end.

Lemma firstn_app_le {A} (n : nat) (a b : list A) : (n <= length a)%nat -> firstn n (a ++ b) = firstn n a.
Proof. intros H. rewrite firstn_app. replace (n - length a)%nat with 0%nat by lia. cbn. apply app_nil_r. Qed.

Lemma skipn_app_le {A} (n : nat) (a b : list A) : (n <= length a)%nat -> skipn n (a ++ b) = skipn n a ++ b.
Proof. intros H. rewrite skipn_app. replace (n - length a)%nat with 0%nat by lia. reflexivity. Qed.

Lemma len_ge_nat {A} (l : list A) (n : nat) : Z.of_nat n <= len l -> (n <= length l)%nat.
Proof. unfold len. lia. Qed.

Lemma record_key_ext s now key down x :
  record_key (ext s x) now key down =
  match record_key s now key down with Some (l, s') => Some (l, ext s' x) | None => None end.
Proof. unfold record_key. destruct (key_name key); reflexivity. Qed.

Lemma record_pointer_ext s now px py mask x :
  record_pointer (ext s x) now px py mask = let '(l, s') := record_pointer s now px py mask in (l, ext s' x).
Proof. unfold record_pointer. cbn [r_mouse ext r_last r_buf r_handler r_need r_pwreq]. reflexivity. Qed.

Lemma type_len_nonneg t : 0 <= type_len t.
Proof.
  unfold type_len, TYPE_LEN. cbn [assoc_Z].
  repeat match goal with |- context [?a =? ?b] => destruct (a =? b) end; lia.
Qed.

(** locality: a handler that has its bytes decides the same whatever follows them *)
Lemma handle_ext s now x : ready s -> handle (ext s x) now = lift x (handle s now).
Proof.
  destruct s as [buf h need pw mouse last]. unfold ready. cbn [r_handler r_buf].
  destruct h; intros R; unfold handle, ext; cbn [r_buf r_handler r_need r_pwreq r_mouse r_last].
  - (* HVersion *)
    apply (len_ge_nat buf 12) in R.
    rewrite (firstn_app_le 12 buf x R), (skipn_app_le 12 buf x R).
    set (msg := firstn 12 buf).
    match goal with |- context [if (text_eqb ?v ?a || text_eqb ?v ?b) then _ else _] => destruct (text_eqb v a || text_eqb v b) end.
    + destruct pw; reflexivity.
    + match goal with |- context [if (text_eqb ?v ?a || text_eqb ?v ?b) then _ else _] => destruct (text_eqb v a || text_eqb v b) end; reflexivity.
  - (* HSecurity *)
    destruct buf as [|b0 buf]; [rewrite len_nil in R; lia|]. cbn [app hd skipn].
    destruct (b0 =? AUTH_VNC_AUTHENTICATION); reflexivity.
  - (* HAuthResp *)
    apply (len_ge_nat buf 16) in R. rewrite (skipn_app_le 16 buf x R). reflexivity.
  - (* HClientInit *)
    apply (len_ge_nat buf 1) in R. rewrite (skipn_app_le 1 buf x R). reflexivity.
  - (* HProtocol *)
    destruct buf as [|t r]; [contradiction|]. cbn [app].
    set (nb := type_len t) in *. pose proof (type_len_nonneg t) as Hnb. fold nb in Hnb.
    assert (L1 : len (t :: r) <? nb = false) by (apply Z.ltb_ge; exact R).
    assert (L2 : len (t :: r ++ x) <? nb = false).
    { apply Z.ltb_ge. change (t :: r ++ x) with ((t :: r) ++ x). rewrite len_app. pose proof (len_nonneg x). lia. }
    rewrite L1, L2.
    assert (Rn : (Z.to_nat nb <= List.length (t :: r))%nat) by (unfold len in R; lia).
    change (t :: r ++ x) with ((t :: r) ++ x).
    rewrite (firstn_app_le _ (t :: r) x Rn), (skipn_app_le _ (t :: r) x Rn).
    set (block := skipn 1 (firstn (Z.to_nat nb) (t :: r))). set (rest := skipn (Z.to_nat nb) (t :: r)).
    unfold with_buf. cbn [r_pwreq r_mouse r_last r_buf r_handler r_need].
    destruct (t =? C2S_SET_PIXEL_FORMAT).
    { destruct (unpack _ block) as [[|[z|pb] [|? ?]]|]; try reflexivity. destruct (pf_from_bytes pb); reflexivity. }
    destruct (t =? C2S_SET_ENCODING).
    { destruct (unpackZs _ block) as [[|n [|? ?]]|]; reflexivity. }
    destruct (t =? C2S_FRAMEBUFFER_UPDATE_REQUEST).
    { destruct (unpackZs _ block) as [[|? [|? [|? [|? [|? [|? ?]]]]]]|]; reflexivity. }
    destruct (t =? C2S_KEY_EVENT).
    { destruct (unpackZs _ block) as [[|down [|key [|? ?]]]|]; try reflexivity.
      all: change (mk_rstate (rest ++ x) HProtocol 1 pw mouse last) with (ext (mk_rstate rest HProtocol 1 pw mouse last) x).
      all: rewrite record_key_ext; destruct (record_key _ now key down) as [[l s2]|]; reflexivity. }
    destruct (t =? C2S_POINTER_EVENT).
    { destruct (unpackZs _ block) as [[|mask [|px [|py [|? ?]]]]|]; try reflexivity.
      all: change (mk_rstate (rest ++ x) HProtocol 1 pw mouse last) with (ext (mk_rstate rest HProtocol 1 pw mouse last) x).
      all: rewrite record_pointer_ext; destruct (record_pointer _ now px py mask) as [l s2]; reflexivity. }
    destruct (t =? C2S_CLIENT_CUT_TEXT).
    { destruct (unpackZs _ block) as [[|n [|? ?]]|]; reflexivity. }
    destruct (t =? C2S_QEMU_CLIENT_MESSAGE).
    { destruct (unpackZs _ block) as [[|sub [|? ?]]|]; try reflexivity. destruct (sub =? QEMU_EXTENDED_KEY_EVENT); reflexivity. }
    reflexivity.
  - (* HQemu *)
    apply (len_ge_nat buf 10) in R. rewrite (firstn_app_le 10 buf x R), (skipn_app_le 10 buf x R).
    destruct (unpackZs _ (firstn 10 buf)) as [[|down [|keysym [|keycode [|? ?]]]]|]; try reflexivity.
    unfold with_buf. cbn [r_pwreq r_mouse r_last].
    all: change (mk_rstate (skipn 10 buf ++ x) HProtocol 1 pw mouse last) with (ext (mk_rstate (skipn 10 buf) HProtocol 1 pw mouse last) x).
    all: rewrite record_key_ext; destruct (record_key _ now keysym down) as [[l s2]|]; reflexivity.
  - (* HEncList *)
    destruct (take_ge (4 * n) buf R) as (eb & rest & E). rewrite E, (take_app _ _ x _ _ E).
    destruct (unpackZs _ eb); reflexivity.
  - (* HCutText *)
    destruct (take_ge n buf R) as (eb & rest & E). rewrite E, (take_app _ _ x _ _ E). reflexivity.
Qed.

(** *** the loop *)

Definition set_need (s : rstate) (n : Z) : rstate :=
  mk_rstate (r_buf s) (r_handler s) n (r_pwreq s) (r_mouse s) (r_last s).

Lemma handle_need_indep s n now : handle (set_need s n) now = handle s now.
Proof. destruct s as [buf h need pw mouse last]. unfold set_need, handle. cbn [r_buf r_handler r_need r_pwreq r_mouse r_last]. destruct h; reflexivity. Qed.

(* the byte count the loop waits for is the pending handler's *)
Definition need_ok (s : rstate) : Prop :=
  match r_handler s with
  | HVersion => r_need s = 12 | HSecurity => r_need s = 1 | HAuthResp => r_need s = 16 | HClientInit => r_need s = 1
  | HQemu => r_need s = 10 | HEncList n => r_need s = 4 * n | HCutText n => r_need s = n
  | HProtocol => r_need s = 1 \/ (exists t r, r_buf s = t :: r /\ r_need s = type_len t)
  end.

(* big-step semantics of dataReceived's while loop (no fuel) *)
Inductive Run (now : Z) : rstate -> list revent -> rres -> Prop :=
| Run_wait s acc : len (r_buf s) < r_need s -> Run now s acc (ROk acc s)
| Run_step s acc es s' r : r_need s <= len (r_buf s) -> handle s now = HOk es s' -> Run now s' (acc ++ es) r -> Run now s acc r
| Run_raise s acc : r_need s <= len (r_buf s) -> handle s now = HRaise -> Run now s acc (RRaise acc).

Lemma rloop_Run now : forall fuel s acc r,
  rloop fuel s now acc = r -> (forall es, r <> RSpin es) -> Run now s acc r.
Proof.
  induction fuel as [|f IH]; intros s acc r H NS; cbn [rloop] in H.
  - destruct (Z.ltb_spec (len (r_buf s)) (r_need s)); [subst; apply Run_wait; assumption|]. subst. exfalso. eapply NS. reflexivity.
  - destruct (Z.ltb_spec (len (r_buf s)) (r_need s)); [subst; apply Run_wait; assumption|].
    destruct (handle s now) as [es s'|] eqn:E.
    + eapply Run_step; [assumption|exact E|]. apply IH; assumption.
    + subst. apply Run_raise; assumption.
Qed.

Lemma Run_det now s acc r1 : Run now s acc r1 -> forall r2, Run now s acc r2 -> r1 = r2.
Proof.
  induction 1 as [s acc Hl|s acc es s' r Hl E HR IH|s acc Hl E]; intros r2 H2; inversion H2; subst; try lia; try congruence.
  - rewrite E in H0. inversion H0; subst. apply IH. assumption.
Qed.

Lemma Run_rloop now s acc r : Run now s acc r -> exists f0, forall f, (f0 <= f)%nat -> rloop f s now acc = r.
Proof.
  induction 1 as [s acc Hl|s acc es s' r Hl E HR [f0 IH]|s acc Hl E].
  - exists 0%nat. intros f _. destruct f; cbn [rloop]; apply Z.ltb_lt in Hl; rewrite Hl; reflexivity.
  - exists (S f0). intros f Hf. destruct f as [|f]; [lia|]. cbn [rloop].
    apply Z.ltb_ge in Hl. rewrite Hl, E. apply IH. lia.
  - exists 1%nat. intros f Hf. destruct f as [|f]; [lia|]. cbn [rloop]. apply Z.ltb_ge in Hl. rewrite Hl, E. reflexivity.
Qed.

Lemma handle_need_ok s now es s' : handle s now = HOk es s' -> need_ok s'.
Proof.
  destruct s as [buf h need pw mouse last]. unfold handle. cbn [r_buf r_handler r_need r_pwreq r_mouse r_last].
  destruct h.
  - match goal with |- context [if (text_eqb ?v ?a || text_eqb ?v ?b) then _ else _] => destruct (text_eqb v a || text_eqb v b) end.
    + destruct pw; intros H; inversion H; subst; reflexivity.
    + match goal with |- context [if (text_eqb ?v ?a || text_eqb ?v ?b) then _ else _] => destruct (text_eqb v a || text_eqb v b) end;
        intros H; inversion H; subst; reflexivity.
  - destruct (hd 0 buf =? AUTH_VNC_AUTHENTICATION); intros H; inversion H; subst; reflexivity.
  - intros H; inversion H; subst; reflexivity.
  - intros H; inversion H; subst. left. reflexivity.
  - destruct buf as [|t r]; [discriminate|].
    destruct (Z.ltb_spec (len (t :: r)) (type_len t)) as [Hlt|Hge].
    + intros H'; inversion H'; subst. right. exists t, r. split; reflexivity.
    + unfold with_buf. cbn [r_pwreq r_mouse r_last r_buf r_handler r_need].
      set (block := skipn 1 (firstn (Z.to_nat (type_len t)) (t :: r))). set (rest := skipn (Z.to_nat (type_len t)) (t :: r)).
      destruct (t =? C2S_SET_PIXEL_FORMAT).
      { destruct (unpack _ block) as [[|[z|pb] [|? ?]]|]; try discriminate. destruct (pf_from_bytes pb); [|discriminate].
        intros H'; inversion H'; subst. left; reflexivity. }
      destruct (t =? C2S_SET_ENCODING).
      { destruct (unpackZs _ block) as [[|n [|? ?]]|]; try discriminate. intros H'; inversion H'; subst. reflexivity. }
      destruct (t =? C2S_FRAMEBUFFER_UPDATE_REQUEST).
      { destruct (unpackZs _ block) as [[|? [|? [|? [|? [|? [|? ?]]]]]]|]; try discriminate. intros H'; inversion H'; subst. left; reflexivity. }
      destruct (t =? C2S_KEY_EVENT).
      { destruct (unpackZs _ block) as [[|down [|key [|? ?]]]|]; try discriminate.
        unfold record_key. destruct (key_name key); [|discriminate]. intros H'; inversion H'; subst. left; reflexivity. }
      destruct (t =? C2S_POINTER_EVENT).
      { destruct (unpackZs _ block) as [[|mask [|px [|py [|? ?]]]]|]; try discriminate.
        unfold record_pointer. intros H'; inversion H'; subst. left; reflexivity. }
      destruct (t =? C2S_CLIENT_CUT_TEXT).
      { destruct (unpackZs _ block) as [[|n [|? ?]]|]; try discriminate. intros H'; inversion H'; subst. reflexivity. }
      destruct (t =? C2S_QEMU_CLIENT_MESSAGE).
      { destruct (unpackZs _ block) as [[|sub [|? ?]]|]; try discriminate. destruct (sub =? QEMU_EXTENDED_KEY_EVENT); [|discriminate].
        intros H'; inversion H'; subst. reflexivity. }
      discriminate.
  - destruct (unpackZs _ (firstn 10 buf)) as [[|down [|keysym [|keycode [|? ?]]]]|]; try discriminate.
    unfold record_key, with_buf. cbn [r_pwreq r_mouse r_last r_buf r_handler r_need].
    destruct (key_name keysym); [|discriminate]. intros H'; inversion H'; subst. left; reflexivity.
  - destruct (take (4 * n) buf) as [[eb rest]|]; [|discriminate]. destruct (unpackZs _ eb); [|discriminate].
    intros H'; inversion H'; subst. left; reflexivity.
  - destruct (take n buf) as [[eb rest]|]; [|discriminate]. intros H'; inversion H'; subst. left; reflexivity.
Qed.

Lemma ext_len s x : len (r_buf s) <= len (r_buf (ext s x)).
Proof. unfold ext. cbn [r_buf]. rewrite len_app. pose proof (len_nonneg x). lia. Qed.

(* an enabled handler is ready, except the message parser facing an incomplete message *)
Lemma enabled_ready s : need_ok s -> r_need s <= len (r_buf s) ->
  ready s \/ (r_handler s = HProtocol /\ r_need s = 1 /\ exists t r, r_buf s = t :: r /\ len (r_buf s) < type_len t).
Proof.
  destruct s as [buf h need pw mouse last]. unfold need_ok, ready. cbn [r_handler r_need r_buf].
  destruct h; intros N L; try (left; lia).
  destruct N as [->|(t & r & E & Hn)]; [|left; subst; exact L].
  destruct buf as [|t r]; [rewrite len_nil in L; lia|].
  destruct (Z.le_gt_cases (type_len t) (len (t :: r))); [left; assumption|right]. repeat split. exists t, r. split; [reflexivity|lia].
Qed.

(* waiting for the whole message or for its first byte is the same thing once the buffer is non-empty *)
Lemma Run_need1 now t r0 pw mouse last acc r :
  Run now (mk_rstate (t :: r0) HProtocol (type_len t) pw mouse last) acc r ->
  Run now (mk_rstate (t :: r0) HProtocol 1 pw mouse last) acc r.
Proof.
  intros H.
  assert (L1 : r_need (mk_rstate (t :: r0) HProtocol 1 pw mouse last) <= len (r_buf (mk_rstate (t :: r0) HProtocol 1 pw mouse last))).
  { cbn [r_need r_buf]. rewrite len_cons. pose proof (len_nonneg r0). lia. }
  inversion H as [s0 acc0 Hw|s0 acc0 es0 s0' r1 Hge Eh Hrest|s0 acc0 Hge Eh]; subst.
  - cbn [r_buf r_need] in Hw. eapply Run_step; [exact L1| |].
    + unfold handle. cbn [r_buf r_handler]. apply Z.ltb_lt in Hw. rewrite Hw. reflexivity.
    + rewrite app_nil_r. apply Run_wait. cbn [r_buf r_need]. exact Hw.
  - change (mk_rstate (t :: r0) HProtocol (type_len t) pw mouse last)
      with (set_need (mk_rstate (t :: r0) HProtocol 1 pw mouse last) (type_len t)) in Eh.
    rewrite handle_need_indep in Eh. eapply Run_step; [exact L1|exact Eh|exact Hrest].
  - change (mk_rstate (t :: r0) HProtocol (type_len t) pw mouse last)
      with (set_need (mk_rstate (t :: r0) HProtocol 1 pw mouse last) (type_len t)) in Eh.
    rewrite handle_need_indep in Eh. apply Run_raise; [exact L1|exact Eh].
Qed.

(** the heart of chunk invariance: running on [buffer ++ x] is running on [buffer] to quiescence and then
    going on with [x] appended - for every state, every data, raising runs included *)
Theorem Run_ext now x : forall s acc es s1,
  Run now s acc (ROk es s1) -> need_ok s ->
  forall r, Run now (ext s1 x) es r -> Run now (ext s x) acc r.
Proof.
  intros s acc es s1 H. remember (ROk es s1) as res eqn:Eres. revert es s1 Eres.
  induction H as [s acc Hl|s acc es' s' r0 Hl E HR IH|s acc Hl E]; intros es s1 Eres N r Hr; try discriminate.
  - inversion Eres; subst. exact Hr.
  - subst r0. destruct (enabled_ready s N Hl) as [Rd|(Hh & Hn & t & rr & Eb & Hlt)].
    + eapply Run_step.
      * pose proof (ext_len s x). unfold ext in *. cbn [r_need r_buf] in *. lia.
      * rewrite (handle_ext s now x Rd), E. reflexivity.
      * eapply IH; [reflexivity|eapply handle_need_ok; exact E|exact Hr].
    + (* the message parser saw an incomplete message: it only raised the byte count it waits for *)
      destruct s as [buf h need pw mouse last]. cbn [r_handler r_need r_buf] in *. subst h need buf.
      assert (E' : handle (mk_rstate (t :: rr) HProtocol 1 pw mouse last) now =
                   HOk [] (mk_rstate (t :: rr) HProtocol (type_len t) pw mouse last)).
      { unfold handle. cbn [r_buf r_handler]. apply Z.ltb_lt in Hlt. rewrite Hlt. reflexivity. }
      rewrite E' in E. inversion E; subst es' s'. clear E.
      (* the run on the shorter buffer stops right there *)
      assert (Hstop : ROk es s1 = ROk (acc ++ []) (mk_rstate (t :: rr) HProtocol (type_len t) pw mouse last)).
      { eapply Run_det; [exact HR|]. apply Run_wait. cbn [r_buf r_need]. exact Hlt. }
      inversion Hstop; subst es s1. clear Hstop. rewrite app_nil_r in Hr.
      unfold ext in *. cbn [r_buf r_handler r_need r_pwreq r_mouse r_last app] in *.
      apply Run_need1. exact Hr.
Qed.

(** *** termination: a potential that every handler invocation lowers *)

Definition weight (s : rstate) : Z :=
  match r_handler s with
  | HProtocol => if r_need s =? 1 then 1 else 0
  | HEncList _ | HCutText _ | HQemu => 2
  | _ => 0
  end.
Definition mu (s : rstate) : Z := 2 * len (r_buf s) + weight s.

Lemma mu_nonneg s : 0 <= mu s.
Proof.
  unfold mu, weight. pose proof (len_nonneg (r_buf s)). destruct (r_handler s); try lia. destruct (r_need s =? 1); lia.
Qed.

Lemma len_skipn {A} (n : nat) (l : list A) : (n <= List.length l)%nat -> len (skipn n l) = len l - Z.of_nat n.
Proof. intros H. unfold len. rewrite skipn_length. lia. Qed.

Lemma take_rest_len {A} n (l a b : list A) : take n l = Some (a, b) -> len b <= len l.
Proof. intros H. apply take_some_app in H. subst. rewrite len_app. pose proof (len_nonneg a). lia. Qed.

Lemma type_len_known t : type_len t = 0 \/ 2 <= type_len t.
Proof.
  unfold type_len, TYPE_LEN. cbn [assoc_Z].
  repeat match goal with |- context [?a =? ?b] => destruct (a =? b) end; lia.
Qed.

Lemma handle_decreases s now es s' :
  need_ok s -> r_need s <= len (r_buf s) -> handle s now = HOk es s' -> mu s' < mu s.
Proof.
  destruct s as [buf h need pw mouse last]. unfold need_ok, mu, weight, handle, with_buf.
  cbn [r_buf r_handler r_need r_pwreq r_mouse r_last].
  destruct h; intros N L.
  - subst need. apply (len_ge_nat buf 12) in L.
    match goal with |- context [if (text_eqb ?v ?a || text_eqb ?v ?b) then _ else _] => destruct (text_eqb v a || text_eqb v b) end.
    + destruct pw; intros H; injection H as _ <-; cbn [r_buf r_handler r_need]; pose proof (len_skipn 12 buf L) as Q; cbn [skipn] in Q; cbn [skipn]; rewrite Q; lia.
    + match goal with |- context [if (text_eqb ?v ?a || text_eqb ?v ?b) then _ else _] => destruct (text_eqb v a || text_eqb v b) end;
        intros H; injection H as _ <-; cbn [r_buf r_handler r_need]; pose proof (len_skipn 12 buf L) as Q; cbn [skipn] in Q; cbn [skipn]; rewrite Q; lia.
  - subst need. apply (len_ge_nat buf 1) in L.
    destruct (hd 0 buf =? AUTH_VNC_AUTHENTICATION); intros H; injection H as _ <-; cbn [r_buf r_handler r_need];
      pose proof (len_skipn 1 buf L) as Q; cbn [skipn] in Q; cbn [skipn]; rewrite Q; lia.
  - subst need. apply (len_ge_nat buf 16) in L. intros H; injection H as _ <-; cbn [r_buf r_handler r_need]. pose proof (len_skipn 16 buf L) as Q; cbn [skipn] in Q; cbn [skipn]; rewrite Q. lia.
  - subst need. apply (len_ge_nat buf 1) in L. intros H; injection H as _ <-; cbn [r_buf r_handler r_need]. pose proof (len_skipn 1 buf L) as Q; cbn [skipn] in Q; cbn [skipn]; rewrite Q.
    change (if 1 =? 1 then 1 else 0) with 1. lia.
  - destruct buf as [|t r]; [discriminate|].
    destruct (Z.ltb_spec (len (t :: r)) (type_len t)) as [Hlt|Hge].
    + (* incomplete: only possible while waiting for the first byte *)
      intros H'; injection H' as _ <-; cbn [r_buf r_handler r_need].
      destruct N as [->|(t0 & r0 & E0 & ->)]; [|inversion E0; subst; lia].
      change (if 1 =? 1 then 1 else 0) with 1.
      destruct (Z.eqb_spec (type_len t) 1) as [E1|_]; [rewrite len_cons in Hlt; pose proof (len_nonneg r); lia|lia].
    + unfold with_buf. cbn [r_pwreq r_mouse r_last r_buf r_handler r_need].
      set (nb := type_len t) in *.
      set (block := skipn 1 (firstn (Z.to_nat nb) (t :: r))). set (rest := skipn (Z.to_nat nb) (t :: r)).
      assert (Hrest : 2 <= nb -> 2 * len rest + 2 < 2 * len (t :: r)).
      { intros H2. unfold rest. rewrite len_skipn by (unfold len in Hge; lia). lia. }
      assert (W : (if need =? 1 then 1 else 0) >= 0) by (destruct (need =? 1); lia).
      destruct (type_len_known t) as [Z0|G2]; [fold nb in Z0|fold nb in G2].
      { (* unknown type: the parser raises *)
        assert (U : forall c, In c [C2S_SET_PIXEL_FORMAT; C2S_SET_ENCODING; C2S_FRAMEBUFFER_UPDATE_REQUEST; C2S_KEY_EVENT;
                                    C2S_POINTER_EVENT; C2S_CLIENT_CUT_TEXT; C2S_QEMU_CLIENT_MESSAGE] -> (t =? c) = false).
        { intros c Hc. destruct (Z.eqb_spec t c) as [->|]; [|reflexivity]. exfalso. unfold nb in Z0.
          cbn [In] in Hc. repeat destruct Hc as [<-|Hc]; try contradiction; vm_compute in Z0; discriminate. }
        rewrite !U by (cbn [In]; tauto). discriminate. }
      specialize (Hrest G2).
      destruct (t =? C2S_SET_PIXEL_FORMAT).
      { destruct (unpack _ block) as [[|[z|pb] [|? ?]]|]; try discriminate. destruct (pf_from_bytes pb); [|discriminate].
        intros H'; injection H' as _ <-; cbn [r_buf r_handler r_need]. change (if 1 =? 1 then 1 else 0) with 1. lia. }
      destruct (t =? C2S_SET_ENCODING).
      { destruct (unpackZs _ block) as [[|n [|? ?]]|]; try discriminate. intros H'; injection H' as _ <-; cbn [r_buf r_handler r_need]. lia. }
      destruct (t =? C2S_FRAMEBUFFER_UPDATE_REQUEST).
      { destruct (unpackZs _ block) as [[|? [|? [|? [|? [|? [|? ?]]]]]]|]; try discriminate.
        intros H'; injection H' as _ <-; cbn [r_buf r_handler r_need]. change (if 1 =? 1 then 1 else 0) with 1. lia. }
      destruct (t =? C2S_KEY_EVENT).
      { destruct (unpackZs _ block) as [[|down [|key [|? ?]]]|]; try discriminate.
        unfold record_key. destruct (key_name key); [|discriminate]. intros H'; injection H' as _ <-; cbn [r_buf r_handler r_need].
        change (if 1 =? 1 then 1 else 0) with 1. lia. }
      destruct (t =? C2S_POINTER_EVENT).
      { destruct (unpackZs _ block) as [[|mask [|px [|py [|? ?]]]]|]; try discriminate.
        unfold record_pointer. intros H'; injection H' as _ <-; cbn [r_buf r_handler r_need]. change (if 1 =? 1 then 1 else 0) with 1. lia. }
      destruct (t =? C2S_CLIENT_CUT_TEXT).
      { destruct (unpackZs _ block) as [[|n [|? ?]]|]; try discriminate. intros H'; injection H' as _ <-; cbn [r_buf r_handler r_need]. lia. }
      destruct (t =? C2S_QEMU_CLIENT_MESSAGE).
      { destruct (unpackZs _ block) as [[|sub [|? ?]]|]; try discriminate. destruct (sub =? QEMU_EXTENDED_KEY_EVENT); [|discriminate].
        intros H'; injection H' as _ <-; cbn [r_buf r_handler r_need]. lia. }
      discriminate.
  - subst need. apply (len_ge_nat buf 10) in L.
    destruct (unpackZs _ (firstn 10 buf)) as [[|down [|keysym [|keycode [|? ?]]]]|]; try discriminate.
    unfold record_key, with_buf. cbn [r_pwreq r_mouse r_last r_buf r_handler r_need].
    destruct (key_name keysym); [|discriminate]. intros H'; injection H' as _ <-; cbn [r_buf r_handler r_need].
    pose proof (len_skipn 10 buf L) as Q; cbn [skipn] in Q; cbn [skipn]; rewrite Q. change (if 1 =? 1 then 1 else 0) with 1. lia.
  - destruct (take (4 * n) buf) as [[eb rest]|] eqn:ET; [|discriminate]. destruct (unpackZs _ eb); [|discriminate].
    intros H'; injection H' as _ <-; cbn [r_buf r_handler r_need]. pose proof (take_rest_len _ _ _ _ ET). change (if 1 =? 1 then 1 else 0) with 1. lia.
  - destruct (take n buf) as [[eb rest]|] eqn:ET; [|discriminate].
    intros H'; injection H' as _ <-; cbn [r_buf r_handler r_need]. pose proof (take_rest_len _ _ _ _ ET). change (if 1 =? 1 then 1 else 0) with 1. lia.
Qed.

(** the executable loop never runs out of fuel: no input makes the parser spin *)
Lemma rloop_enough now : forall fuel s acc,
  need_ok s -> (Z.to_nat (mu s) < fuel)%nat -> forall es, rloop fuel s now acc <> RSpin es.
Proof.
  induction fuel as [|f IH]; intros s acc N Hf es; [lia|]. cbn [rloop].
  destruct (Z.ltb_spec (len (r_buf s)) (r_need s)); [discriminate|].
  destruct (handle s now) as [es' s'|] eqn:E; [|discriminate].
  apply IH; [eapply handle_need_ok; exact E|].
  pose proof (handle_decreases s now es' s' N H E). pose proof (mu_nonneg s'). lia.
Qed.

Lemma need_ok_ext s x : need_ok s -> need_ok (ext s x).
Proof.
  destruct s as [buf h need pw mouse last]. unfold need_ok, ext. cbn [r_handler r_need r_buf].
  destruct h; try (intros H; exact H). intros [H|(t & r & E & H)]; [left; exact H|right]. subst buf. exists t, (r ++ x). split; [reflexivity|exact H].
Qed.

Lemma mu_bound s : mu s <= 2 * len (r_buf s) + 2.
Proof. unfold mu, weight. destruct (r_handler s); try lia. destruct (r_need s =? 1); lia. Qed.

(** dataReceived as a function: it always returns (or raises); it never spins *)
Theorem rfeed_total s now d : need_ok s -> forall es, rfeed s now d <> RSpin es.
Proof.
  intros N es. unfold rfeed. apply rloop_enough.
  - apply (need_ok_ext s d N).
  - set (s' := with_buf s (r_buf s ++ d) (r_handler s) (r_need s)).
    pose proof (mu_bound s'). pose proof (mu_nonneg s'). unfold len in *. lia.
Qed.

Lemma rfeed_Run s now d : need_ok s -> Run now (ext s d) [] (rfeed s now d).
Proof.
  intros N. apply (rloop_Run now (2 * List.length (r_buf (ext s d)) + 4) (ext s d) []); [reflexivity|].
  intros es. apply (rfeed_total s now d N es).
Qed.

Definition prepend (acc : list revent) (r : rres) : rres :=
  match r with ROk es s => ROk (acc ++ es) s | RRaise es => RRaise (acc ++ es) | RSpin es => RSpin (acc ++ es) end.

Lemma Run_acc now s r : Run now s [] r -> forall acc, Run now s acc (prepend acc r).
Proof.
  intros H. remember [] as a0 eqn:Ea. revert Ea. 
  assert (G : forall a r, Run now s a r -> forall acc, Run now s (acc ++ a) (prepend acc r)).
  { clear. intros a r H. induction H as [s a Hl|s a es s' r Hl E HR IH|s a Hl E]; intros acc.
    - cbn [prepend]. apply Run_wait. exact Hl.
    - eapply Run_step; [exact Hl|exact E|]. rewrite <- app_assoc. apply IH.
    - cbn [prepend]. apply Run_raise; assumption. }
  intros ->. intros acc. specialize (G [] r H acc). rewrite app_nil_r in G. exact G.
Qed.

Lemma ext_ext s a b : ext (ext s a) b = ext s (a ++ b).
Proof. unfold ext. cbn [r_buf r_handler r_need r_pwreq r_mouse r_last]. rewrite app_assoc. reflexivity. Qed.

Lemma Run_need_ok now s acc es s1 : Run now s acc (ROk es s1) -> need_ok s -> need_ok s1.
Proof.
  intros H. remember (ROk es s1) as r eqn:E. revert es s1 E.
  induction H as [s acc Hl|s acc es' s' r0 Hl E HR IH|s acc Hl E]; intros es s1 Er N; try discriminate.
  - inversion Er; subst. exact N.
  - eapply IH; [exact Er|eapply handle_need_ok; exact E].
Qed.

(** chunk invariance of the viewer-side parser: feeding [a] then [b] is feeding [a ++ b] - same
    events in the same order, same final parser state, same failure if any *)
Theorem rfeed_app s now a b es s1 :
  need_ok s -> rfeed s now a = ROk es s1 ->
  rfeed s now (a ++ b) = prepend es (rfeed s1 now b).
Proof.
  intros N Ha.
  pose proof (rfeed_Run s now a N) as R1. rewrite Ha in R1.
  assert (N1 : need_ok s1) by (eapply Run_need_ok; [exact R1|apply need_ok_ext; exact N]).
  pose proof (rfeed_Run s1 now b N1) as R2.
  pose proof (Run_acc now _ _ R2 es) as R2'.
  pose proof (Run_ext now b _ _ _ _ R1 (need_ok_ext s a N) _ R2') as R. rewrite ext_ext in R.
  eapply Run_det; [apply rfeed_Run; exact N|exact R].
Qed.

(** a run that makes a handler raise does so at the same point whatever data follows *)
Theorem Run_ext_raise now x : forall s acc es,
  Run now s acc (RRaise es) -> need_ok s -> Run now (ext s x) acc (RRaise es).
Proof.
  intros s acc es H. remember (RRaise es) as res eqn:Eres. revert es Eres.
  induction H as [s acc Hl|s acc es' s' r0 Hl E HR IH|s acc Hl E]; intros es Eres N; try discriminate.
  - subst r0. destruct (enabled_ready s N Hl) as [Rd|(Hh & Hn & t & rr & Eb & Hlt)].
    + eapply Run_step.
      * pose proof (ext_len s x). unfold ext in *. cbn [r_need r_buf] in *. lia.
      * rewrite (handle_ext s now x Rd), E. reflexivity.
      * eapply IH; [reflexivity|eapply handle_need_ok; exact E].
    + (* an incomplete message only makes the parser wait: such a run cannot end in a raise *)
      exfalso. destruct s as [buf h need pw mouse last]. cbn [r_handler r_need r_buf] in *. subst h need buf.
      assert (E' : handle (mk_rstate (t :: rr) HProtocol 1 pw mouse last) now =
                   HOk [] (mk_rstate (t :: rr) HProtocol (type_len t) pw mouse last)).
      { unfold handle. cbn [r_buf r_handler]. apply Z.ltb_lt in Hlt. rewrite Hlt. reflexivity. }
      rewrite E' in E. inversion E; subst es' s'. clear E.
      assert (Hstop : RRaise es = ROk (acc ++ []) (mk_rstate (t :: rr) HProtocol (type_len t) pw mouse last)).
      { eapply Run_det; [exact HR|]. apply Run_wait. cbn [r_buf r_need]. exact Hlt. }
      discriminate.
  - inversion Eres; subst. destruct (enabled_ready s N Hl) as [Rd|(Hh & Hn & t & rr & Eb & Hlt)].
    + apply Run_raise.
      * pose proof (ext_len s x). unfold ext in *. cbn [r_need r_buf] in *. lia.
      * rewrite (handle_ext s now x Rd), E. reflexivity.
    + exfalso. destruct s as [buf h need pw mouse last]. cbn [r_handler r_need r_buf] in *. subst h need buf.
      unfold handle in E. cbn [r_buf r_handler] in E. apply Z.ltb_lt in Hlt. rewrite Hlt in E. discriminate.
Qed.

(** *** any chunking *)

Definition quiescent (s : rstate) : Prop := len (r_buf s) < r_need s.

Lemma Run_quiescent now s acc es s1 : Run now s acc (ROk es s1) -> quiescent s1.
Proof.
  intros H. remember (ROk es s1) as r eqn:E. revert es s1 E.
  induction H as [s acc Hl|s acc es' s' r0 Hl E HR IH|s acc Hl E]; intros es s1 Er; try discriminate.
  - inversion Er; subst. exact Hl.
  - eapply IH. exact Er.
Qed.

Lemma rfeed_nil s now : need_ok s -> quiescent s -> rfeed s now [] = ROk [] s.
Proof.
  intros N Q. eapply Run_det; [apply rfeed_Run; exact N|].
  unfold ext. rewrite app_nil_r. destruct s as [buf h need pw mouse last]. cbn [r_buf r_handler r_need r_pwreq r_mouse r_last].
  apply Run_wait. exact Q.
Qed.

(* feed the chunks one after the other (one dataReceived call each), stopping at the first failure *)
Fixpoint rfeed_chunks (s : rstate) (now : Z) (chunks : list bytes) : rres :=
  match chunks with
  | [] => ROk [] s
  | c :: rest => match rfeed s now c with
                 | ROk es s1 => prepend es (rfeed_chunks s1 now rest)
                 | r => r
                 end
  end.

Lemma prepend_nil r : prepend [] r = r.
Proof. destruct r; reflexivity. Qed.

Lemma prepend_prepend a b r : prepend a (prepend b r) = prepend (a ++ b) r.
Proof. destruct r; cbn [prepend]; rewrite app_assoc; reflexivity. Qed.

(** the script-relevant behaviour is the same however the viewer's byte stream is split into chunks *)
Theorem chunking_invariance now : forall chunks s,
  need_ok s -> quiescent s -> rfeed_chunks s now chunks = rfeed s now (concat chunks).
Proof.
  induction chunks as [|c rest IH]; intros s N Q; cbn [rfeed_chunks concat].
  - symmetry. apply rfeed_nil; assumption.
  - destruct (rfeed s now c) as [es s1|es|es] eqn:E.
    + pose proof (rfeed_Run s now c N) as R. rewrite E in R.
      assert (N1 : need_ok s1) by (eapply Run_need_ok; [exact R|apply need_ok_ext; exact N]).
      assert (Q1 : quiescent s1) by (eapply Run_quiescent; exact R).
      rewrite (rfeed_app s now c (concat rest) es s1 N E), IH by assumption. reflexivity.
    + (* the first chunk already makes a handler raise: so does the whole stream, at the same point *)
      pose proof (rfeed_Run s now c N) as R. rewrite E in R.
      symmetry. eapply Run_det; [apply rfeed_Run; exact N|]. rewrite <- ext_ext.
      apply Run_ext_raise; [exact R|apply need_ok_ext; exact N].
    + exfalso. eapply rfeed_total; eassumption.
Qed.
