(** The tile and sub-rectangle geometry of Hextile and ZRLE as regenerated from rfb.py ([Gen/ExprsTiles.v]) are the model's and the specifications'. *)
From Coq Require Import ZArith QArith List Bool Lia.
From VD Require Import Base.Bytes Gen.ExprsTiles Model.Rfb Proofs.HextileP Proofs.ZrleP.
Import ListNotations.
Open Scope Z_scope.

(** ** Hextile *)
Lemma hextile_tile_size_tie x y w h tx ty : gen_hextile_tile_size x y w h tx ty = (tile_w x w tx, tile_h y h ty).
Proof. reflexivity. Qed.

Lemma hextile_next_tie x y w h tx ty :
  next_pos x y w h tx ty =
  let '(a, b) := gen_hextile_next x y w h tx ty in if gen_hextile_done x y w h a b then None else Some (a, b).
Proof. unfold next_pos, gen_hextile_next, gen_hextile_done. cbv zeta. destruct (tx + 16 >=? x + w); reflexivity. Qed.

Theorem hex_next_is_source s bg fg x y w h tx ty :
  hex_next s bg fg x y w h tx ty =
  let '(a, b) := gen_hextile_next x y w h tx ty in
  if gen_hextile_done x y w h a b then do_connection s else ok s (PHextile bg fg x y w h a b) [].
Proof.
  rewrite hex_next_eq, hextile_next_tie. destruct (gen_hextile_next x y w h tx ty) as [a b].
  destruct (gen_hextile_done x y w h a b); reflexivity.
Qed.

Theorem hex_first_is_source s x y w h :
  hex_first s x y w h =
  let '(a, b) := gen_hextile_first x y w h 0 0 in
  if gen_hextile_done x y w h a b then do_connection s else ok s (PHextile None None x y w h a b) [].
Proof. reflexivity. Qed.

Theorem hex_subrects_fg_is_source xy wh r tx ty :
  hex_subrects_fg (xy :: wh :: r) tx ty = option_map (cons (gen_hextile_sub_fg tx ty xy wh)) (hex_subrects_fg r tx ty).
Proof. cbn [hex_subrects_fg]. destruct (hex_subrects_fg r tx ty); reflexivity. Qed.

(* one sub-rectangle record of the coloured kind: [bypp] colour bytes, then xy, then wh *)
Theorem hex_subrects_col_is_source f b bp tx ty last color xy wh r2 :
  b <> [] -> take bp b = Some (color, xy :: wh :: r2) ->
  hex_subrects_col (S f) b bp tx ty last =
  match hex_subrects_col f r2 bp tx ty (Some color) with
  | Some (l, lst) => Some ((gen_hextile_sub_col tx ty xy wh, color) :: l, lst)
  | None => None
  end.
Proof. intros Hb Ht. cbn [hex_subrects_col]. destruct b; [contradiction|]. rewrite Ht. reflexivity. Qed.

Lemma hextile_record_layout pos bp :
  gen_hextile_sub_col_offsets pos bp = (pos + bp, pos + bp + 1) /\ gen_hextile_sub_col_stride pos bp = pos + (bp + 2) /\
  gen_hextile_sub_fg_offsets pos bp = (pos, pos + 1) /\ gen_hextile_sub_fg_stride pos bp = pos + 2.
Proof. repeat split. Qed.

(** ** ZRLE *)
Lemma zrle_tile_size_tie x y w h tx ty : gen_zrle_tile_size x y w h tx ty = (ztw x w tx, zth y h ty).
Proof. reflexivity. Qed.

Lemma zrle_next_tie x y w h tx ty : gen_zrle_next x y w h tx ty = znext x w tx ty.
Proof. unfold gen_zrle_next, znext. destruct (tx + 64 >=? x + w); reflexivity. Qed.

Lemma zrle_first_tie x y : gen_zrle_first x y = (x, y).
Proof. reflexivity. Qed.

(** ** the statements the property files quote *)
Theorem tile_geometry_is_source x y w h tx ty :
  gen_hextile_tile_size x y w h tx ty = (tile_w x w tx, tile_h y h ty) /\
  next_pos x y w h tx ty =
    (let '(a, b) := gen_hextile_next x y w h tx ty in if gen_hextile_done x y w h a b then None else Some (a, b)) /\
  gen_zrle_tile_size x y w h tx ty = (ztw x w tx, zth y h ty) /\
  gen_zrle_next x y w h tx ty = znext x w tx ty /\
  gen_zrle_first x y = (x, y).
Proof.
  split; [apply hextile_tile_size_tie|]. split; [apply hextile_next_tie|]. split; [apply zrle_tile_size_tie|].
  split; [apply zrle_next_tie|apply zrle_first_tie].
Qed.

Theorem subrect_geometry_is_source tx ty xy wh :
  gen_hextile_sub_fg tx ty xy wh = (tx + Z.shiftr xy 4, ty + Z.land xy 15, Z.shiftr wh 4 + 1, Z.land wh 15 + 1) /\
  gen_hextile_sub_col tx ty xy wh = (tx + Z.shiftr xy 4, ty + Z.land xy 15, Z.shiftr wh 4 + 1, Z.land wh 15 + 1).
Proof. split; reflexivity. Qed.

(* RFC 6143 7.7.4: x-and-y-position / width-and-height bytes: high nibble, low nibble (+1 for sizes) *)
Theorem subrect_geometry_is_rfc tx ty xy wh : 0 <= xy < 256 -> 0 <= wh < 256 ->
  gen_hextile_sub_fg tx ty xy wh = (tx + xy / 16, ty + xy mod 16, wh / 16 + 1, wh mod 16 + 1).
Proof.
  intros Hx Hw. unfold gen_hextile_sub_fg. rewrite !Z.shiftr_div_pow2 by lia.
  change 15 with (Z.ones 4). rewrite !Z.land_ones by lia. reflexivity.
Qed.
