(** VNCDoToolClient.updateRectangle / updateDesktopSize as regenerated from the source text ([Gen/ScreenOps.v],
    gen/screen.py: symbolic execution of the two methods over Image.new / paste / size) are the model's
    [update_rect] / [resize] - for every screen, geometry and update. *)
From Coq Require Import ZArith List Bool.
From VD Require Import Base.Bytes Gen.Tables Gen.ScreenOps Model.Image Model.Screen.
Import ListNotations.
Open Scope Z_scope.

Theorem update_rect_is_source l x y w h data u :
  data <> [] -> frombytes (l_mode l) w h data = Some u ->
  update_rect l x y w h data =
  Some (draw_cursor (with_screen l (Some (match screen l with
                                          | None => gen_update_first x y w h u
                                          | Some s => gen_update_later s x y w h u
                                          end)))).
Proof.
  intros Hd Hf. unfold update_rect. destruct data as [|d0 dr]; [contradiction|]. rewrite Hf.
  destruct (screen l) as [s|]; reflexivity.
Qed.

Theorem update_rect_empty_is_ignored l x y w h : update_rect l x y w h [] = Some l.
Proof. reflexivity. Qed.

Theorem resize_is_source l w h :
  resize l w h =
  if gen_resize_ok w h
  then Some (with_screen l (Some (match screen l with Some s => gen_resize_later s w h | None => gen_resize_first w h end)))
  else None.
Proof.
  unfold resize, gen_resize_ok. change MAX_DESKTOP_SIZE with 65536. rewrite <- !andb_assoc.
  destruct ((0 <=? w) && ((w <? 65536) && ((0 <=? h) && (h <? 65536)))); [|reflexivity].
  destruct (screen l); reflexivity.
Qed.
