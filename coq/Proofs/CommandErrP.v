(** C10: an error anywhere in a script - after any number of well-formed commands - makes the
    whole compilation an error, never a shorter list of operations. *)
From Coq Require Import ZArith List Bool Lia String.
From VD Require Import Base.Bytes Base.Text Model.Server Proofs.ServerP Model.Shlex Model.Command Proofs.CommandP.
Import ListNotations.
Open Scope Z_scope.

Lemma compile_prefix f cmds : Forall wf_scmd cmds ->
  forall tail acc fuel fuel', (fuel = List.length cmds + fuel')%nat ->
    compile fuel f false (flat_map render cmds ++ tail) acc =
    compile fuel' f false tail (acc ++ flat_map denote cmds).
Proof.
  induction 1 as [|c cmds Hc _ IH]; intros tail acc fuel fuel' Hf.
  - cbn [flat_map app List.length] in *. rewrite app_nil_r. subst; reflexivity.
  - cbn [List.length] in Hf. destruct fuel as [|fuel]; [lia|].
    cbn [flat_map]. rewrite <- app_assoc. rewrite compile_one by assumption.
    rewrite (IH tail (acc ++ denote c) fuel fuel') by lia. rewrite <- app_assoc. reflexivity.
Qed.

Theorem unknown_word_after_prefix : forall cmds f fuel bad rest,
  Forall wf_scmd cmds -> (List.length cmds < fuel)%nat ->
  is_command bad = false -> f bad = None ->
  compile fuel f false (flat_map render cmds ++ bad :: rest) [] = CErr (EUnknown bad) (flat_map denote cmds).
Proof.
  intros cmds f fuel bad rest W Hf Hc Hn.
  rewrite (compile_prefix f cmds W (bad :: rest) [] fuel (fuel - List.length cmds)) by lia.
  destruct (fuel - List.length cmds)%nat as [|k] eqn:E; [lia|].
  rewrite reject_unknown by assumption. reflexivity.
Qed.

Theorem bad_capture_after_prefix : forall cmds f fuel file rest,
  Forall wf_scmd cmds -> (List.length cmds < fuel)%nat ->
  supported_format (extension file) = false ->
  compile fuel f false (flat_map render cmds ++ w "capture" :: file :: rest) [] =
    CErr (EFormat (extension file)) (flat_map denote cmds).
Proof.
  intros cmds f fuel file rest W Hf Hs.
  rewrite (compile_prefix f cmds W (w "capture" :: file :: rest) [] fuel (fuel - List.length cmds)) by lia.
  destruct (fuel - List.length cmds)%nat as [|k] eqn:E; [lia|].
  rewrite reject_capture_format by assumption. reflexivity.
Qed.

(** so neither script compiles to operations: there is nothing to execute *)
Corollary error_scripts_yield_no_operations : forall cmds f fuel bad file rest ops,
  Forall wf_scmd cmds -> (List.length cmds < fuel)%nat ->
  (is_command bad = false /\ f bad = None ->
     compile fuel f false (flat_map render cmds ++ bad :: rest) [] <> COk ops) /\
  (supported_format (extension file) = false ->
     compile fuel f false (flat_map render cmds ++ w "capture" :: file :: rest) [] <> COk ops).
Proof.
  intros cmds f fuel bad file rest ops W Hf. split.
  - intros [Hc Hn]. rewrite unknown_word_after_prefix by assumption. discriminate.
  - intros Hs. rewrite bad_capture_after_prefix by assumption. discriminate.
Qed.
