(** Per-encoding round trips in continuation form (C02): a rectangle written as RFC 6143 says is
    consumed exactly and produces exactly its callbacks, after which the client goes on with what
    follows as if the rectangle's bytes had never been there. *)
From Coq Require Import ZArith List Bool Lia.
From RecordUpdate Require Import RecordSet.
Import RecordSetNotations.
From VD Require Import Base.Bytes Base.BytesP Base.Struct Gen.Tables Gen.Formats.
From VD Require Import Model.Engine Model.ClientMsgs Model.Auth Model.Rfb Spec.C2S Proofs.C2SP.
Import ListNotations.
Open Scope Z_scope.

Notation Drain := (Drain st pend ev need step).

(** RFC 6143 §7.6.1: rectangle header = x, y, width, height (U16 each), encoding-type (S32) *)
Definition rect_hdr (x y w h : Z) (e4 : bytes) : bytes := be_enc 2 x ++ be_enc 2 y ++ be_enc 2 w ++ be_enc 2 h ++ e4.

Definition u16ok (v : Z) : Prop := 0 <= v < 65536.

Lemma be_dec2 a b : be_dec [a; b] = u16 a b.
Proof. unfold be_dec, u16. cbn [be_dec_acc]. lia. Qed.

Lemma rect_hdr_unpack x y w h e4 rest : u16ok x -> u16ok y -> u16ok w -> u16ok h -> List.length e4 = 4%nat ->
  take 12 (rect_hdr x y w h e4 ++ rest) = Some (rect_hdr x y w h e4, rest) /\
  unpackZ fmt_rfb_RFBClient_handleRectangle_0 (rect_hdr x y w h e4) = Some [x; y; w; h; to_s32 (be_dec e4)].
Proof.
  intros Hx Hy Hw Hh He. split.
  - assert (L : len (rect_hdr x y w h e4) = 12) by (unfold rect_hdr, len; rewrite !app_length, !be_enc_length, He; reflexivity).
    rewrite <- L. apply take_app_exact.
  - destruct (u16_enc x Hx) as [Ex Ux]. destruct (u16_enc y Hy) as [Ey Uy].
    destruct (u16_enc w Hw) as [Ew Uw]. destruct (u16_enc h Hh) as [Eh Uh].
    do 4 (destruct e4 as [|? e4]; [discriminate|]). destruct e4; [|discriminate].
    unfold rect_hdr. rewrite Ex, Ey, Ew, Eh. cbn [app].
    unfold unpackZ, fmt_rfb_RFBClient_handleRectangle_0.
    cbn [unpack fsize take Z.leb Z.compare Z.sub Z.add Z.opp Z.pos_sub Pos.compare Pos.compare_cont Pos.pred_double unpack1 map].
    rewrite !be_dec2, Ux, Uy, Uw, Uh. reflexivity.
Qed.

(* the bookkeeping _handleRectangle does for a real rectangle *)
Definition enter_rect (s : st) (x y w h : Z) : st :=
  s <| rects := rects s - 1 |> <| rectpos := rectpos s ++ [(x, y, w, h)] |>.

(** Raw (§7.7.1): w*h pixels follow; exactly those bytes are handed to updateRectangle at (x, y) *)
Theorem raw_roundtrip s x y w h px tail s2 p2 es2 es r n :
  u16ok x -> u16ok y -> u16ok w -> u16ok h ->
  rects s <> 0 ->
  let s1 := enter_rect s x y w h in
  len px = w * h * bypp s1 ->
  upd_raises s1 w h (len px) = false ->
  do_connection s1 = Ok s2 (Some p2) es2 ->
  Drain s2 p2 tail es r n ->
  Drain s PRect (rect_hdr x y w h [0; 0; 0; 0] ++ px ++ tail) ([EUpd x y w h px] ++ es2 ++ es) r (S (S n)).
Proof.
  intros Hx Hy Hw Hh Hr s1 Hl Hu Hd HD. subst s1. unfold enter_rect in *.
  destruct (rect_hdr_unpack x y w h [0; 0; 0; 0] (px ++ tail) Hx Hy Hw Hh eq_refl) as [Ht Hun].
  change ([EUpd x y w h px] ++ es2 ++ es) with ([] ++ ([EUpd x y w h px] ++ es2) ++ es).
  eapply D_step; [exact Ht| |].
  - cbn [step]. rewrite Hun. change (to_s32 (be_dec [0; 0; 0; 0])) with 0.
    change (0 =? ENC_PSEUDO_LAST_RECT) with false. cbv iota.
    destruct (Z.eqb_spec (rects s) 0) as [E|_]; [contradiction|].
    change (0 =? ENC_COPY_RECTANGLE) with false. change (0 =? ENC_RAW) with true. cbv iota. reflexivity.
  - cbn [next_pend].
    eapply D_step.
    + cbn [need]. match goal with |- take ?k _ = _ => replace k with (len px) by (symmetry; exact Hl) end. apply take_app_exact.
    + cbn [step]. unfold upd. rewrite Hu, Hd. cbn [prepend]. reflexivity.
    + cbn [next_pend]. exact HD.
Qed.

(** CopyRect (§7.7.2): source position; exactly one copyRectangle(srcx, srcy, x, y, w, h) *)
Theorem copyrect_roundtrip s x y w h sx sy tail s2 p2 es2 es r n :
  u16ok x -> u16ok y -> u16ok w -> u16ok h -> u16ok sx -> u16ok sy ->
  rects s <> 0 ->
  let s1 := enter_rect s x y w h in
  do_connection s1 = Ok s2 (Some p2) es2 ->
  Drain s2 p2 tail es r n ->
  Drain s PRect (rect_hdr x y w h [0; 0; 0; 1] ++ (be_enc 2 sx ++ be_enc 2 sy) ++ tail)
        ([ECopy sx sy x y w h] ++ es2 ++ es) r (S (S n)).
Proof.
  intros Hx Hy Hw Hh Hsx Hsy Hr s1 Hd HD. subst s1. unfold enter_rect in *.
  destruct (rect_hdr_unpack x y w h [0; 0; 0; 1] ((be_enc 2 sx ++ be_enc 2 sy) ++ tail) Hx Hy Hw Hh eq_refl) as [Ht Hun].
  change ([ECopy sx sy x y w h] ++ es2 ++ es) with ([] ++ ([ECopy sx sy x y w h] ++ es2) ++ es).
  eapply D_step; [exact Ht| |].
  - cbn [step]. rewrite Hun. change (to_s32 (be_dec [0; 0; 0; 1])) with 1.
    change (1 =? ENC_PSEUDO_LAST_RECT) with false. cbv iota.
    destruct (Z.eqb_spec (rects s) 0) as [E|_]; [contradiction|].
    change (1 =? ENC_COPY_RECTANGLE) with true. cbv iota. reflexivity.
  - cbn [next_pend].
    destruct (u16_enc sx Hsx) as [Ex Ux]. destruct (u16_enc sy Hsy) as [Ey Uy].
    eapply D_step.
    + cbn [need].
      assert (L : len (be_enc 2 sx ++ be_enc 2 sy) = 4) by (unfold len; rewrite app_length, !be_enc_length; reflexivity).
      rewrite <- L. apply take_app_exact.
    + cbn [step]. unfold unpackZ, fmt_rfb_RFBClient_handleDecodeCopyrect_0.
      rewrite Ex, Ey. cbn [app].
      cbn [unpack fsize take Z.leb Z.compare Z.sub Z.add Z.opp Z.pos_sub Pos.compare Pos.compare_cont Pos.pred_double unpack1 map].
      rewrite !be_dec2, Ux, Uy, Hd. cbn [prepend]. reflexivity.
    + cbn [next_pend]. exact HD.
Qed.

(** *** a whole FramebufferUpdate of Raw / CopyRect rectangles *)

Inductive rspec :=
| RRaw (x y w h : Z) (px : bytes)
| RCopy (x y w h sx sy : Z).

Definition wire_rect (q : rspec) : bytes :=
  match q with
  | RRaw x y w h px => rect_hdr x y w h [0; 0; 0; 0] ++ px
  | RCopy x y w h sx sy => rect_hdr x y w h [0; 0; 0; 1] ++ be_enc 2 sx ++ be_enc 2 sy
  end.

Definition rect_event (q : rspec) : ev :=
  match q with
  | RRaw x y w h px => EUpd x y w h px
  | RCopy x y w h sx sy => ECopy sx sy x y w h
  end.

Definition rect_pos (q : rspec) : rect :=
  match q with RRaw x y w h _ | RCopy x y w h _ _ => (x, y, w, h) end.

Definition rect_ok (s : st) (q : rspec) : Prop :=
  match q with
  | RRaw x y w h px => u16ok x /\ u16ok y /\ u16ok w /\ u16ok h /\ len px = w * h * bypp s /\ upd_raises s w h (len px) = false
  | RCopy x y w h sx sy => u16ok x /\ u16ok y /\ u16ok w /\ u16ok h /\ u16ok sx /\ u16ok sy
  end.

Lemma bypp_enter s x y w h : bypp (enter_rect s x y w h) = bypp s.
Proof. reflexivity. Qed.
Lemma upd_raises_enter s x y w h a b c : upd_raises (enter_rect s x y w h) a b c = upd_raises s a b c.
Proof. reflexivity. Qed.
Lemma rect_ok_enter s x y w h q : rect_ok (enter_rect s x y w h) q <-> rect_ok s q.
Proof. destruct q; cbn [rect_ok]; rewrite ?bypp_enter, ?upd_raises_enter; reflexivity. Qed.

(* state after the rectangles: count exhausted, positions appended *)
Definition after_rects (s : st) (rs : list rspec) : st :=
  s <| rects := rects s - len rs |> <| rectpos := rectpos s ++ map rect_pos rs |>.

Lemma enter_after s q rs x y w h : rect_pos q = (x, y, w, h) ->
  after_rects (enter_rect s x y w h) rs = after_rects s (q :: rs).
Proof.
  intros Ep. unfold after_rects, enter_rect. cbn [map]. rewrite Ep, len_cons.
  unfold set. cbn [rects rectpos cf password username ver ver_server pf imode width height qemu_neg dh_gen dh_keylen dh_mod
                   challenge ztape waiter].
  replace (rects s - 1 - len rs) with (rects s - (1 + len rs)) by lia. rewrite <- app_assoc. reflexivity.
Qed.

Lemma after_rects_nil s : after_rects s [] = s.
Proof.
  destruct s as [a1 a2 a3 a4 a5 a6 a7 a8 a9 a10 a11 a12 a13 a14 a15 a16 a17 a18].
  unfold after_rects, set. cbn [map Rfb.rects Rfb.rectpos]. rewrite len_nil, Z.sub_0_r, app_nil_r. reflexivity.
Qed.

(** every rectangle is consumed exactly, produces exactly its callback, in order; the last one is
    followed by exactly one commit carrying the list of rectangles; then the client reads what follows
    as the next message *)
Theorem rects_roundtrip : forall rs s tail es r n,
  rs <> [] -> rects s = len rs -> Forall (rect_ok s) rs ->
  let sf := after_rects s rs in
  let '(sc, ces) := commit sf in
  Drain sc PConnection tail es r n ->
  Drain s PRect (concat (map wire_rect rs) ++ tail) (map rect_event rs ++ ces ++ es) r (2 * List.length rs + n).
Proof.
  induction rs as [|q rs IH]; intros s tail es r n Hne Hc Hok; [congruence|].
  inversion Hok as [|? ? Hq Hrs]; subst.
  cbv zeta. destruct (commit (after_rects s (q :: rs))) as [sc ces] eqn:Ecommit. intros HD.
  assert (Hr : rects s <> 0) by (rewrite Hc, len_cons; pose proof (len_nonneg rs); lia).
  cbn [map concat]. rewrite <- app_assoc.
  replace (2 * List.length (q :: rs) + n)%nat with (S (S (2 * List.length rs + n))) by (cbn [List.length]; lia).
  destruct rs as [|q2 rs'].
  - (* the last rectangle: commit *)
    cbn [map concat app List.length Nat.mul Nat.add].
    assert (Edo : forall x y w h, rect_pos q = (x, y, w, h) -> do_connection (enter_rect s x y w h) = Ok sc (Some PConnection) ces).
    { intros x y w h Ep.
      assert (Es : enter_rect s x y w h = after_rects s [q]).
      { rewrite <- (enter_after s q [] x y w h Ep). symmetry. apply after_rects_nil. }
      rewrite Es. unfold do_connection.
      assert (R0 : rects (after_rects s [q]) = 0).
      { unfold after_rects, set. cbn [rects]. rewrite Hc. lia. }
      rewrite R0. cbn [Z.eqb negb].
      assert (Rp : rectpos (after_rects s [q]) <> []).
      { unfold after_rects, set. cbn [rectpos map]. destruct (rectpos s); discriminate. }
      destruct (rectpos (after_rects s [q])); [congruence|]. rewrite Ecommit. reflexivity. }
    destruct q as [x y w h px|x y w h sx sy]; cbn [wire_rect rect_event rect_ok] in *.
    + destruct Hq as (Hx & Hy & Hw & Hh & Hl & Hu). rewrite <- app_assoc.
      apply (raw_roundtrip s x y w h px tail sc PConnection ces es r n Hx Hy Hw Hh Hr); try assumption.
      apply Edo. reflexivity.
    + destruct Hq as (Hx & Hy & Hw & Hh & Hsx & Hsy). rewrite <- app_assoc.
      apply (copyrect_roundtrip s x y w h sx sy tail sc PConnection ces es r n Hx Hy Hw Hh Hsx Hsy Hr); try assumption.
      apply Edo. reflexivity.
  - (* more rectangles follow *)
    set (rs := q2 :: rs') in *.
    assert (Edo : forall x y w h, do_connection (enter_rect s x y w h) = Ok (enter_rect s x y w h) (Some PRect) []).
    { intros x y w h. unfold do_connection. unfold enter_rect at 1. unfold set. cbn [rects].
      rewrite Hc. unfold rs. rewrite !len_cons. pose proof (len_nonneg rs').
      destruct (Z.eqb_spec (1 + (1 + len rs') - 1) 0); [lia|]. reflexivity. }
    assert (Hnext : forall x y w h, rect_pos q = (x, y, w, h) ->
              Drain (enter_rect s x y w h) PRect (concat (map wire_rect rs) ++ tail) (map rect_event rs ++ ces ++ es) r (2 * List.length rs + n)).
    { intros x y w h Ep. specialize (IH (enter_rect s x y w h) tail es r n ltac:(discriminate)).
      assert (Hc' : rects (enter_rect s x y w h) = len rs) by (unfold enter_rect, set; cbn [rects]; rewrite Hc, len_cons; lia).
      assert (Hok' : Forall (rect_ok (enter_rect s x y w h)) rs).
      { eapply Forall_impl; [|exact Hrs]. intros a Ha. apply rect_ok_enter. exact Ha. }
      specialize (IH Hc' Hok'). cbv zeta in IH.
      assert (Es : after_rects (enter_rect s x y w h) rs = after_rects s (q :: rs)).
      { apply enter_after. exact Ep. }
      rewrite Es, Ecommit in IH. apply IH. exact HD. }
    destruct q as [x y w h px|x y w h sx sy]; cbn [wire_rect rect_event rect_ok map] in *.
    + destruct Hq as (Hx & Hy & Hw & Hh & Hl & Hu). rewrite <- app_assoc.
      change (EUpd x y w h px :: map rect_event rs ++ ces ++ es) with ([EUpd x y w h px] ++ [] ++ (map rect_event rs ++ ces ++ es)).
      apply (raw_roundtrip s x y w h px _ (enter_rect s x y w h) PRect [] _ r _ Hx Hy Hw Hh Hr); try assumption.
      * apply Edo.
      * apply Hnext. reflexivity.
    + destruct Hq as (Hx & Hy & Hw & Hh & Hsx & Hsy). rewrite <- app_assoc.
      change (ECopy sx sy x y w h :: map rect_event rs ++ ces ++ es) with ([ECopy sx sy x y w h] ++ [] ++ (map rect_event rs ++ ces ++ es)).
      apply (copyrect_roundtrip s x y w h sx sy _ (enter_rect s x y w h) PRect [] _ r _ Hx Hy Hw Hh Hsx Hsy Hr); try assumption.
      * apply Edo.
      * apply Hnext. reflexivity.
Qed.

(** *** the FramebufferUpdate message (§7.6.1) and what follows it *)

Definition start_update (s : st) (n : Z) : st := s <| rects := n |> <| rectpos := [] |>.

Lemma rect_ok_start s n q : rect_ok (start_update s n) q <-> rect_ok s q.
Proof. destruct q; cbn [rect_ok]; reflexivity. Qed.

Theorem update_roundtrip s pad rs tail es r n :
  rs <> [] -> len rs < 65536 -> Forall (rect_ok s) rs ->
  let sf := after_rects (start_update s (len rs)) rs in
  let '(sc, ces) := commit sf in
  Drain sc PConnection tail es r n ->
  Drain s PConnection ([0; pad] ++ be_enc 2 (len rs) ++ concat (map wire_rect rs) ++ tail)
        ([EBegin] ++ map rect_event rs ++ ces ++ es) r (2 + 2 * List.length rs + n).
Proof.
  intros Hne Hlt Hok. cbv zeta.
  destruct (commit (after_rects (start_update s (len rs)) rs)) as [sc ces] eqn:Ec. intros HD.
  assert (Hn : u16ok (len rs)) by (split; [apply len_nonneg|exact Hlt]).
  destruct (u16_enc (len rs) Hn) as [En Un].
  assert (Hpos : len rs <> 0) by (destruct rs; [congruence|rewrite len_cons; pose proof (len_nonneg rs); lia]).
  change ([EBegin] ++ map rect_event rs ++ ces ++ es) with ([] ++ [EBegin] ++ (map rect_event rs ++ ces ++ es)).
  replace (2 + 2 * List.length rs + n)%nat with (S (S (2 * List.length rs + n))) by lia.
  eapply D_step.
  - cbn [need]. change ([0; pad] ++ be_enc 2 (len rs) ++ concat (map wire_rect rs) ++ tail)
      with ([0] ++ ([pad] ++ be_enc 2 (len rs) ++ concat (map wire_rect rs) ++ tail)).
    change 1 with (len [0]). apply take_app_exact.
  - cbn [step]. unfold unpackZ, fmt_rfb_RFBClient_handleConnection_0.
    cbn [unpack fsize take Z.leb Z.compare Z.sub Z.add Z.opp Z.pos_sub Pos.compare Pos.compare_cont Pos.pred_double unpack1 map].
    change (be_dec [0]) with 0. change (0 =? S2C_FRAMEBUFFER_UPDATE) with true. cbv iota. reflexivity.
  - cbn [next_pend]. eapply D_step.
    + cbn [need]. rewrite En.
      change ([pad] ++ [len rs / 256; len rs mod 256] ++ concat (map wire_rect rs) ++ tail)
        with ([pad; len rs / 256; len rs mod 256] ++ (concat (map wire_rect rs) ++ tail)).
      change 3 with (len [pad; len rs / 256; len rs mod 256]). apply take_app_exact.
    + cbn [step]. unfold unpackZ, fmt_rfb_RFBClient_handleFramebufferUpdate_0.
      cbn [unpack fsize take Z.leb Z.compare Z.sub Z.add Z.opp Z.pos_sub Pos.compare Pos.compare_cont Pos.pred_double unpack1 map].
      rewrite be_dec2, Un. fold (start_update s (len rs)).
      unfold do_connection. replace (rects (start_update s (len rs)) =? 0) with false
        by (symmetry; apply Z.eqb_neq; unfold start_update, set; cbn [rects]; exact Hpos).
      cbn [negb prepend ok]. reflexivity.
    + cbn [next_pend app].
      pose proof (rects_roundtrip rs (start_update s (len rs)) tail es r n Hne) as RT.
      cbv zeta in RT. rewrite Ec in RT. apply RT; [reflexivity| |exact HD].
      eapply Forall_impl; [|exact Hok]. intros a Ha. apply rect_ok_start. exact Ha.
Qed.

(** a Bell after the update is seen exactly once, after the commit: the update consumed exactly its bytes *)
Theorem bell_step s tail es r n :
  Drain s PConnection tail es r n ->
  Drain s PConnection ([2] ++ tail) ([EBell] ++ es) r (S n).
Proof.
  intros HD. eapply D_step.
  - cbn [need]. change 1 with (len [2]). apply take_app_exact.
  - cbn [step]. unfold unpackZ, fmt_rfb_RFBClient_handleConnection_0.
    cbn [unpack fsize take Z.leb Z.compare Z.sub Z.add Z.opp Z.pos_sub Pos.compare Pos.compare_cont Pos.pred_double unpack1 map].
    change (be_dec [2]) with 2. change (2 =? S2C_FRAMEBUFFER_UPDATE) with false. change (2 =? S2C_SET_COLOUR_MAP_ENTRIES) with false.
    change (2 =? S2C_BELL) with true. cbv iota. reflexivity.
  - cbn [next_pend]. exact HD.
Qed.
