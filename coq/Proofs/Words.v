(** the fixed words of the recorder's script syntax, as code-point lists *)
From Coq Require Import ZArith List String.
From VD Require Import Base.Text Model.Recorder.
Local Open Scope string_scope.

Definition W_pause : text := w "pause".
Definition W_keydown : text := w "keydown".
Definition W_keyup : text := w "keyup".
Definition W_move : text := w "move".
Definition W_click : text := w "click".
Definition W_move_sp : text := w "move ".
Definition W_click_sp : text := w "click ".
