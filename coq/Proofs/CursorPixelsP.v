(** C12, the cursor drawn into the screen: every pixel afterwards is the pixel that was there or a
    pixel of the cursor image - the masked paste invents no colour. *)
From Coq Require Import ZArith List Bool Lia.
From VD Require Import Base.Bytes Base.PixFmt Gen.Tables Model.Image Model.Screen Proofs.ScreenP Proofs.CursorSizeP.
Import ListNotations.
Open Scope Z_scope.

Definition old_or (src : list rgb) (p q : rgb) : Prop := q = p \/ In q src.

Lemma Forall2_refl_old src : forall l, Forall2 (old_or src) l l.
Proof. induction l; constructor; [left; reflexivity|assumption]. Qed.

Lemma old_or_mono src src' p q : (forall x, In x src -> In x src') -> old_or src p q -> old_or src' p q.
Proof. intros H [E|I]; [left; exact E|right; apply H; exact I]. Qed.

Lemma Forall2_old_mono src src' : (forall x, In x src -> In x src') ->
  forall a b, Forall2 (old_or src) a b -> Forall2 (old_or src') a b.
Proof. intros H a b F. induction F; constructor; [eapply old_or_mono; eassumption|assumption]. Qed.

Lemma paste_row_old_or : forall dst src m ox, Forall2 (old_or src) dst (paste_row dst src m ox).
Proof.
  induction dst as [|p dr IH]; intros src m ox; cbn [paste_row]; [constructor|].
  destruct (0 <? ox); [constructor; [left; reflexivity|apply IH]|].
  destruct src as [|q sr]; [apply Forall2_refl_old|].
  assert (T : forall mr, Forall2 (old_or (q :: sr)) dr (paste_row dr sr mr 0)).
  { intros mr. apply (Forall2_old_mono sr); [intros x Hx; right; exact Hx|apply IH]. }
  destruct m as [[|b mr]|].
  - constructor; [left; reflexivity|apply T].
  - constructor; [destruct b; [right; left; reflexivity|left; reflexivity]|apply T].
  - constructor; [right; left; reflexivity|apply T].
Qed.

Lemma clip_neg_sub {A} (src : list A) o x : In x (fst (clip_neg src o)) -> In x src.
Proof.
  unfold clip_neg. destruct (o <? 0); cbn [fst]; [|auto].
  revert src; induction (Z.to_nat (- o)) as [|n IH]; intros src H; [exact H|].
  destruct src; [destruct H|]. right; apply IH; exact H.
Qed.

Lemma paste_row_clip_old_or dst src m ox : Forall2 (old_or src) dst (paste_row_clip dst src m ox).
Proof.
  unfold paste_row_clip. destruct (clip_neg src ox) as [src' ox'] eqn:E.
  apply (Forall2_old_mono src'); [|apply paste_row_old_or].
  intros x Hx. apply (clip_neg_sub src ox). rewrite E. exact Hx.
Qed.

(* rows: every result row is pointwise old-or-(a pixel of some source row) *)
Definition row_rel (src : list (list rgb)) (r r' : list rgb) : Prop :=
  Forall2 (old_or (concat src)) r r'.

Lemma row_rel_refl src r : row_rel src r r.
Proof. apply Forall2_refl_old. Qed.

Lemma paste_rows_old_or : forall dst src m ox oy, Forall2 (row_rel src) dst (paste_rows dst src m ox oy).
Proof.
  induction dst as [|r dr IH]; intros src m ox oy; cbn [paste_rows]; [constructor|].
  destruct (0 <? oy); [constructor; [apply row_rel_refl|apply IH]|].
  destruct src as [|s sr].
  { clear IH. induction (r :: dr); constructor; [apply row_rel_refl|assumption]. }
  assert (T : forall mr, Forall2 (row_rel (s :: sr)) dr (paste_rows dr sr mr ox 0)).
  { intros mr. specialize (IH sr mr ox 0). revert IH. generalize (paste_rows dr sr mr ox 0). intros l F.
    induction F; constructor; [|assumption].
    unfold row_rel in *. eapply Forall2_old_mono; [|eassumption]. intros px0 Hpx0. cbn [concat]. apply in_or_app; right; exact Hpx0. }
  assert (R : forall mrow, row_rel (s :: sr) r (paste_row_clip r s mrow ox)).
  { intros mrow. unfold row_rel. apply (Forall2_old_mono s); [|apply paste_row_clip_old_or].
    intros px0 Hpx0. cbn [concat]. apply in_or_app; left; exact Hpx0. }
  destruct m as [[|mrow mr]|]; (constructor; [apply R|apply T]).
Qed.

Lemma Forall2_nth {A} (R : A -> A -> Prop) d : R d d -> forall a b i, Forall2 R a b -> R (nth i a d) (nth i b d).
Proof.
  intros Hd a b i F; revert i. induction F; intros [|i]; cbn [nth]; auto.
Qed.

(** drawCursor, pixelwise: after the cursor has been drawn, every pixel of the screen is the pixel
    that was there, or one of the pixels of the cursor image *)
Theorem paste_masked_old_or dst src m ox oy x y :
  get (paste_masked dst src m ox oy) x y = get dst x y \/
  In (get (paste_masked dst src m ox oy) x y) (concat (rows src)).
Proof.
  unfold get, paste_masked, paste_rows_clip. cbn [rows].
  destruct ((x <? 0) || (y <? 0)); [left; reflexivity|].
  destruct (clip_neg (rows src) oy) as [src' oy'] eqn:E.
  pose proof (paste_rows_old_or (rows dst) src' (Some (fst (clip_neg m oy))) ox oy') as F.
  pose proof (Forall2_nth (row_rel src') [] (row_rel_refl _ _) _ _ (Z.to_nat y) F) as Fr.
  pose proof (Forall2_nth (old_or (concat src')) black (or_introl eq_refl) _ _ (Z.to_nat x) Fr) as [P|P].
  - left; exact P.
  - right. revert P. generalize (nth (Z.to_nat x) (nth (Z.to_nat y) (paste_rows (rows dst) src' (Some (fst (clip_neg m oy))) ox oy') []) black).
    intros q Hq. apply in_concat in Hq as (row & Hrow & Hin). apply in_concat. exists row. split; [|exact Hin].
    apply (clip_neg_sub (rows src) oy). rewrite E. exact Hrow.
Qed.

Theorem draw_cursor_pixels l s c x y :
  screen l = Some s -> cur l = Some c ->
  exists s', screen (draw_cursor l) = Some s' /\ iw s' = iw s /\ ih s' = ih s /\
    (get s' x y = get s x y \/ In (get s' x y) (concat (rows (c_img c)))).
Proof.
  intros Es Ec. unfold draw_cursor. rewrite Ec, Es. cbn [with_screen screen].
  eexists. split; [reflexivity|]. split; [reflexivity|]. split; [reflexivity|]. apply paste_masked_old_or.
Qed.
