(** The box expectRegion / expectScreen hand to the comparison as regenerated ([Gen/ExprsExpectBox.v]) is the model's. *)
From Coq Require Import ZArith QArith List Bool Lia.
From VD Require Import Base.Bytes Gen.ExprsExpectBox Model.Expect.
Import ListNotations.
Open Scope Z_scope.

Theorem expect_box_is_source x y w h : gen_expect_box x y w h = region_box x y w h.
Proof. reflexivity. Qed.
