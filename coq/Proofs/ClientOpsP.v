(** Every in-range library operation writes exactly the RFC 6143 messages it stands for. *)
From Coq Require Import ZArith List Bool Lia.
From VD Require Import Base.Bytes Base.BytesP Base.Struct Base.StructP Base.PixFmt Gen.Formats.
From VD Require Import Model.ClientMsgs Model.Keys Model.Pointer Model.ClientOps Spec.C2S.
From VD Require Import Proofs.C2SP Proofs.KeysP Proofs.PointerP.
Import ListNotations.
Open Scope Z_scope.

Lemma pad_to_exact b : pad_to (length b) b = b.
Proof. induction b as [|x b IH]; cbn; [reflexivity|f_equal; exact IH]. Qed.

Definition pf_ok (p : pixfmt) : Prop :=
  rng 0 255 (pf_bpp p) /\ rng 0 255 (pf_depth p) /\
  rng 0 65535 (pf_rmax p) /\ rng 0 65535 (pf_gmax p) /\ rng 0 65535 (pf_bmax p) /\
  rng 0 255 (pf_rshift p) /\ rng 0 255 (pf_gshift p) /\ rng 0 255 (pf_bshift p).

Lemma setPixelFormat_parses p :
  pf_ok p -> exists pb w, pf_to_bytes p = Some pb /\ length pb = 16%nat /\
                          setPixelFormat p = Some w /\ Parses w [MSetPixelFormat pb].
Proof.
  intros (H1 & H2 & H3 & H4 & H5 & H6 & H7 & H8).
  assert (exists pb, pf_to_bytes p = Some pb) as [pb E].
  { unfold pf_to_bytes, pf_vals, fmt_rfb_PixelFormat_STRUCT. cbn [pack pack1].
    rewrite !in_range_true by assumption. eexists; reflexivity. }
  assert (L : length pb = 16%nat).
  { apply pack_len in E. unfold len in E. change (size fmt_rfb_PixelFormat_STRUCT) with 16 in E. lia. }
  exists pb. unfold setPixelFormat. rewrite E.
  unfold fmt_rfb_RFBClient_setPixelFormat_0. cbn [pack pack1 in_range Z.leb Z.compare andb].
  change (Z.to_nat 16) with 16%nat. rewrite <- L, pad_to_exact, app_nil_r.
  eexists; repeat split; try reflexivity.
  econstructor; [|constructor]. cbn [app].
  change (parse1 (0 :: 0 :: 0 :: 0 :: pb)) with
    (match take 16 pb with Some (pf, rest) => Some (MSetPixelFormat pf, rest) | None => None end).
  pose proof (take_app_exact pb []) as T. rewrite app_nil_r in T.
  unfold len in T. rewrite L in T. change (Z.of_nat 16) with 16 in T. rewrite T. reflexivity.
Qed.

(** the messages an operation stands for, read off the client's own attributes *)
Definition pt_msgs (mask : Z) (pts : list (Z * Z)) : list c2s :=
  map (fun pt => MPointerEvent mask (fst pt) (snd pt)) pts.

Inductive op_spec (s : cstate) : op -> cstate -> list c2s -> Prop :=
| S_keyPress u k keys :
    decode_key (cs_force_caps s) u k = Some keys -> Forall u32ok keys ->
    op_spec s (OKeyPress u k) s (map (MKeyEvent 1) keys ++ map (MKeyEvent 0) (rev keys))
| S_keyDown u k keys :
    decode_key (cs_force_caps s) u k = Some keys -> Forall u32ok keys ->
    op_spec s (OKeyDown u k) s (map (MKeyEvent 1) keys)
| S_keyUp u k keys :
    decode_key (cs_force_caps s) u k = Some keys -> Forall u32ok keys ->
    op_spec s (OKeyUp u k) s (map (MKeyEvent 0) keys)
| S_move ss x y :
    Rel (cs_ptr s) ss -> 0 <= x <= 65535 -> 0 <= y <= 65535 ->
    op_spec s (OMove x y) (with_ptr s (mk_ptr x y (pbuttons (cs_ptr s))))
            [MPointerEvent (mask_of (s_held ss)) x y]
| S_down ss b :
    Rel (cs_ptr s) ss -> 1 <= b <= 8 ->
    let h' := set_held (s_held ss) b true in
    op_spec s (ODown b) (with_ptr s (mk_ptr (s_x ss) (s_y ss) (mask_of h')))
            [MPointerEvent (mask_of h') (s_x ss) (s_y ss)]
| S_up ss b :
    Rel (cs_ptr s) ss -> 1 <= b <= 8 ->
    let h' := set_held (s_held ss) b false in
    op_spec s (OUp b) (with_ptr s (mk_ptr (s_x ss) (s_y ss) (mask_of h')))
            [MPointerEvent (mask_of h') (s_x ss) (s_y ss)]
| S_press ss b :
    Rel (cs_ptr s) ss -> 1 <= b <= 8 ->
    let h1 := set_held (s_held ss) b true in
    let h2 := set_held h1 b false in
    op_spec s (OPress b) (with_ptr s (mk_ptr (s_x ss) (s_y ss) (mask_of h2)))
            [MPointerEvent (mask_of h1) (s_x ss) (s_y ss); MPointerEvent (mask_of h2) (s_x ss) (s_y ss)]
| S_drag ss x y step :
    Rel (cs_ptr s) ss -> 0 <= x <= 65535 -> 0 <= y <= 65535 -> 1 <= step ->
    op_spec s (ODrag x y step) (with_ptr s (mk_ptr x y (mask_of (s_held ss))))
            (pt_msgs (mask_of (s_held ss)) (drag_points (s_x ss) (s_y ss) x y step))
| S_paste t :
    Forall (fun c => 0 <= c < 256) t -> len t < 4294967296 ->
    op_spec s (OPaste t) s [MClientCutText t]
| S_refresh inc :
    rng 0 255 inc -> rng 0 65535 (cs_width s) -> rng 0 65535 (cs_height s) ->
    op_spec s (ORefresh inc) s [MFbUpdateRequest inc 0 0 (cs_width s) (cs_height s)]
| S_expect :
    rng 0 65535 (cs_width s) -> rng 0 65535 (cs_height s) ->
    op_spec s OExpect s [MFbUpdateRequest (if cs_has_screen s then 1 else 0) 0 0 (cs_width s) (cs_height s)]
| S_fbur x y w h inc :
    let w' := match w with Some v => v | None => cs_width s - x end in
    let h' := match h with Some v => v | None => cs_height s - y end in
    rng 0 255 inc -> rng 0 65535 x -> rng 0 65535 y -> rng 0 65535 w' -> rng 0 65535 h' ->
    op_spec s (OFbur x y w h inc) s [MFbUpdateRequest inc x y w' h']
| S_setpf p pb :
    pf_ok p -> pf_to_bytes p = Some pb ->
    op_spec s (OSetPF p) s [MSetPixelFormat pb]
| S_setenc l :
    Forall (rng (-2147483648) 2147483647) l -> len l < 65536 ->
    op_spec s (OSetEnc l) s [MSetEncodings l].

Lemma Rel_ptr_eq p ss : Rel p ss -> p = mk_ptr (s_x ss) (s_y ss) (mask_of (s_held ss)).
Proof. intros (A & B & C & _). destruct p; cbn in *; subst; reflexivity. Qed.

Theorem run_op_spec s o s' ms :
  op_spec s o s' ms -> exists w, run_op s o = (s', Some w) /\ Parses w ms.
Proof.
  intros H; destruct H; cbn [run_op].
  - destruct (keyPress_parses _ _ _ _ H H0) as (w & E & P). exists w; rewrite E; auto.
  - destruct (keyDown_parses _ _ _ _ H H0) as (w & E & P). exists w; rewrite E; auto.
  - destruct (keyUp_parses _ _ _ _ H H0) as (w & E & P). exists w; rewrite E; auto.
  - destruct (move_ok _ _ x y H) as (p' & w & E & R & P); try lia.
    rewrite E. exists w. split; [|exact P]. apply Rel_ptr_eq in R. cbn in R. rewrite R.
    destruct H as (_ & _ & Hb & _). rewrite Hb. reflexivity.
  - destruct (down_ok _ _ b H H0) as (p' & w & E & R & P). rewrite E. exists w. split; [|exact P].
    apply Rel_ptr_eq in R. cbn in R. rewrite R. reflexivity.
  - destruct (up_ok _ _ b H H0) as (p' & w & E & R & P). rewrite E. exists w. split; [|exact P].
    apply Rel_ptr_eq in R. cbn in R. rewrite R. reflexivity.
  - destruct (press_ok _ _ b H H0) as (p' & w & E & R & P). rewrite E. exists w. split; [|exact P].
    apply Rel_ptr_eq in R. cbn in R. rewrite R. reflexivity.
  - unfold mouseDrag. destruct (Z.eqb_spec step 0); [lia|].
    pose proof H as (Hx & Hy & Hb & Rx & Ry).
    destruct (moves_ok (drag_points (px (cs_ptr s)) (py (cs_ptr s)) x y step) _ _ H) as (p' & ws & E & R & P).
    { apply Forall_forall. intros pt Hin. rewrite Hx, Hy in Hin.
      apply (drag_points_in_range (s_x ss) (s_y ss) x y step pt); assumption. }
    rewrite E. exists (concat ws). split.
    + apply Rel_ptr_eq in R. cbn [s_x s_y s_held] in R.
      unfold drag_points in R. rewrite last_last in R. cbn [fst snd] in R. rewrite R. reflexivity.
    + rewrite Hx, Hy in P. exact P.
  - destruct (cutText_parses t H H0) as (w & E & P). exists w; rewrite E; auto.
  - unfold fbur. destruct (fbur_parses inc 0 0 (cs_width s) (cs_height s)) as (w & E & P);
      try assumption; try (unfold rng; lia).
    rewrite !Z.sub_0_r. exists w; rewrite E; auto.
  - unfold fbur. destruct (fbur_parses (if cs_has_screen s then 1 else 0) 0 0 (cs_width s) (cs_height s)) as (w & E & P);
      try assumption; try (unfold rng; destruct (cs_has_screen s); lia).
    rewrite !Z.sub_0_r. exists w; rewrite E; auto.
  - unfold fbur. destruct (fbur_parses inc x y w' h') as (w0 & E & P); try assumption.
    exists w0. subst w' h'. rewrite E; auto.
  - destruct (setPixelFormat_parses p H) as (pb' & w & E1 & L & E2 & P).
    rewrite H0 in E1; inversion E1; subst. exists w; rewrite E2; auto.
  - destruct (setEncodings_parses l H H0) as (w & E & P). exists w; rewrite E; auto.
Qed.

(** lifted to operation lists *)
Inductive ops_spec : cstate -> list op -> cstate -> list c2s -> Prop :=
| OS_nil s : ops_spec s [] s []
| OS_cons s o s1 ms r s2 ms2 :
    op_spec s o s1 ms -> ops_spec s1 r s2 ms2 -> ops_spec s (o :: r) s2 (ms ++ ms2).

Fixpoint cat_some (l : list (option bytes)) : option bytes :=
  match l with
  | [] => Some []
  | Some w :: r => match cat_some r with Some b => Some (w ++ b) | None => None end
  | None :: _ => None
  end.

Theorem run_ops_spec s ops s' ms :
  ops_spec s ops s' ms ->
  exists ws b, run_ops s ops = (s', ws) /\ cat_some ws = Some b /\ Parses b ms.
Proof.
  induction 1 as [s|s o s1 ms r s2 ms2 H1 H2 IH].
  - exists [], []. repeat split. constructor.
  - destruct (run_op_spec _ _ _ _ H1) as (w & E & P). destruct IH as (ws & b & E2 & C & P2).
    cbn [run_ops]. rewrite E, E2. exists (Some w :: ws), (w ++ b). cbn [cat_some]. rewrite C.
    repeat split. apply Parses_app; assumption.
Qed.

Lemma layouts_fixed : forall key down x y mask,
  0 <= down <= 255 -> 0 <= key <= 4294967295 -> 0 <= mask <= 255 -> 0 <= x <= 65535 -> 0 <= y <= 65535 ->
  keyEvent key down = Some ([4; down; 0; 0] ++ be_enc 4 key) /\
  pointerEvent x y mask = Some ([5; mask] ++ be_enc 2 x ++ be_enc 2 y).
Proof.
  intros key down x y mask Hd Hk Hm Hx Hy.
  unfold keyEvent, pointerEvent, fmt_rfb_RFBClient_keyEvent_0, fmt_rfb_RFBClient_pointerEvent_0.
  cbn [pack pack1]. rewrite !in_range_true by (unfold rng; lia).
  cbn [app]. rewrite !app_nil_r. split; reflexivity.
Qed.

Lemma type_text_spec s text :
  cs_force_caps s = false -> Forall (fun c => 0 <= c <= 1114111) text ->
  ops_spec s (map (fun c => OKeyPress false [c]) text) s
           (flat_map (fun c => [MKeyEvent 1 c; MKeyEvent 0 c]) text).
Proof.
  intros Hfc. induction 1 as [|c text Hc _ IH]; [constructor|].
  cbn [map flat_map].
  apply (OS_cons s (OKeyPress false [c]) s (map (MKeyEvent 1) [c] ++ map (MKeyEvent 0) (rev [c]))
                 _ s _); [|exact IH].
  apply S_keyPress; [rewrite Hfc; apply decode_char_nocaps|].
  constructor; [unfold u32ok, rng; lia|constructor].
Qed.

Theorem type_text : forall s text,
  cs_force_caps s = false -> Forall (fun c => 0 <= c <= 1114111) text ->
  exists ws b,
    run_ops s (map (fun c => OKeyPress false [c]) text) = (s, ws) /\ cat_some ws = Some b /\
    parse_c2s b = Some (flat_map (fun c => [MKeyEvent 1 c; MKeyEvent 0 c]) text).
Proof.
  intros s text Hfc Ht. destruct (run_ops_spec _ _ _ _ (type_text_spec s text Hfc Ht)) as (ws & b & E & C & P).
  exists ws, b. split; [exact E|split; [exact C|apply Parses_sound; exact P]].
Qed.
