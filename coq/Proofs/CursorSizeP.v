(** C12 with a cursor shape drawn into the screen (pseudocursor, no --nocursor): what can be said
    without a pixel-level specification of the masked paste - the screen stays a well-formed
    image and has exactly the reference size after every accepted history. *)
From Coq Require Import ZArith List Bool Lia.
From VD Require Import Base.Bytes Base.PixFmt Gen.Tables Model.Image Model.Screen Proofs.ScreenP.
Import ListNotations.
Open Scope Z_scope.

Lemma paste_rows_widths_m n ox : forall dst src m oy,
  Forall (fun r : list rgb => List.length r = n) dst ->
  Forall (fun r : list rgb => List.length r = n) (paste_rows dst src m ox oy).
Proof.
  induction dst as [|r dr IH]; intros src m oy H; cbn [paste_rows]; [constructor|].
  pose proof (Forall_inv H) as Hr. pose proof (Forall_inv_tail H) as Hdr. destruct (0 <? oy).
  - constructor; [exact Hr|apply IH; exact Hdr].
  - destruct src as [|s sr]; [constructor; assumption|].
    destruct m as [[|mrow mr]|]; (constructor; [|apply IH; exact Hdr]);
      unfold paste_row_clip; destruct (clip_neg s ox); rewrite paste_row_length; exact Hr.
Qed.

Lemma wf_paste_masked dst src m ox oy : wf_image dst -> wf_image (paste_masked dst src m ox oy).
Proof.
  intros (Dw & Dh & DLr & DLc). unfold wf_image, paste_masked, paste_rows_clip. cbn [iw ih rows].
  destruct (clip_neg (rows src) oy) as [src' oy'].
  repeat split; try assumption; [rewrite paste_rows_length; exact DLr|apply paste_rows_widths_m; exact DLc].
Qed.

(** drawCursor: whatever the cursor, its mask, its hot spot and the pointer position are, the
    screen keeps its size and stays well formed; nothing else of the client changes *)
Lemma draw_cursor_frame l :
  wf_opt (screen l) ->
  wf_opt (screen (draw_cursor l)) /\ size_opt (screen (draw_cursor l)) = size_opt (screen l) /\
  l_mode (draw_cursor l) = l_mode l /\ l_nocursor (draw_cursor l) = l_nocursor l /\ cur (draw_cursor l) = cur l.
Proof.
  intros W. unfold draw_cursor. destruct (cur l) as [c|] eqn:Ec; [|repeat split; assumption].
  destruct (screen l) as [s|] eqn:Es; [|rewrite Es; repeat split; assumption].
  cbn [with_screen screen l_mode l_nocursor cur wf_opt size_opt paste_masked iw ih].
  split; [apply wf_paste_masked; exact W|]. repeat split; reflexivity || exact Ec.
Qed.

Lemma update_rect_placed_cursor l x y w h data u :
  data <> [] -> frombytes (l_mode l) w h data = Some u ->
  update_rect l x y w h data = Some (draw_cursor (with_screen l (Some (placed (screen l) x y u)))).
Proof.
  intros Hd Hf. destruct (frombytes_wf _ _ _ _ _ Hf) as (_ & Ew & Eh).
  unfold update_rect. destruct data; [congruence|]. rewrite Hf. unfold placed. rewrite Ew, Eh. reflexivity.
Qed.

Definition lop_geom (o : lop) : Prop :=
  match o with LUpdate x y _ _ _ => 0 <= x /\ 0 <= y | _ => True end.

Lemma lstep_size l o l' :
  wf_opt (screen l) -> lop_geom o -> lstep l o = Some l' ->
  l_mode l' = l_mode l /\ l_nocursor l' = l_nocursor l /\ wf_opt (screen l') /\
  size_opt (screen l') = fold_left ref_size (sop_of (l_mode l) o) (size_opt (screen l)).
Proof.
  intros W Hg H. destruct o as [x y w h data|w h|x y w h img msk]; cbn [lstep lop_geom] in *.
  - destruct data as [|b data].
    + cbn [update_rect] in H. assert (l' = l) by congruence. subst l'. cbn [sop_of fold_left].
      split; [reflexivity|]. split; [reflexivity|]. split; [exact W|reflexivity].
    + destruct (frombytes (l_mode l) w h (b :: data)) as [u|] eqn:Ef.
      * rewrite (update_rect_placed_cursor l x y w h (b :: data) u ltac:(discriminate) Ef) in H.
        injection H as <-. destruct (frombytes_wf _ _ _ _ _ Ef) as (Wu & _ & _).
        destruct Hg as [Hx Hy]. destruct (placed_spec (screen l) x y u W Wu Hx Hy) as (WR & EW & EH & _).
        set (l1 := with_screen l (Some (placed (screen l) x y u))).
        destruct (draw_cursor_frame l1 WR) as (W2 & S2 & M2 & N2 & _).
        rewrite M2, N2, S2. cbn [sop_of]. rewrite Ef. cbn [fold_left ref_size l1 with_screen l_mode l_nocursor screen size_opt].
        split; [reflexivity|]. split; [reflexivity|]. split; [exact W2|]. rewrite EW, EH. destruct (screen l); reflexivity.
      * cbn [update_rect] in H. rewrite Ef in H. discriminate.
  - unfold resize in H.
    destruct ((0 <=? w) && (w <? MAX_DESKTOP_SIZE) && (0 <=? h) && (h <? MAX_DESKTOP_SIZE)) eqn:G; [|discriminate].
    assert (E : l' = with_screen l (Some (resized (screen l) w h))) by (unfold resized; congruence). subst l'.
    apply andb_true_iff in G as [G G4]. apply andb_true_iff in G as [G G3]. apply andb_true_iff in G as [G1 G2].
    apply Z.leb_le in G1, G3. destruct (resized_spec (screen l) w h W G1 G3) as (WR & EW & EH & _).
    cbn [sop_of fold_left ref_size with_screen l_mode l_nocursor screen size_opt wf_opt].
    split; [reflexivity|]. split; [reflexivity|]. split; [exact WR|]. rewrite EW, EH. reflexivity.
  - unfold update_cursor in H. cbn [sop_of fold_left].
    destruct (l_nocursor l) eqn:En.
    { injection H as <-. split; [reflexivity|]. split; [exact En|]. split; [exact W|reflexivity]. }
    destruct (frombytes (l_mode l) w h img) as [ci|]; [|discriminate].
    destruct (len msk <? (w + 7) / 8 * h); [discriminate|]. injection H as <-.
    match goal with |- context [draw_cursor ?t] => set (l1 := t) end.
    destruct (draw_cursor_frame l1 W) as (W2 & S2 & M2 & N2 & _).
    rewrite M2, N2, S2. cbn [l1 l_mode l_nocursor screen]. split; [reflexivity|]. split; [reflexivity|]. split; [exact W2|reflexivity].
Qed.

Lemma lrun_size : forall ops l l',
  wf_opt (screen l) -> Forall lop_geom ops -> lrun l ops = Some l' ->
  wf_opt (screen l') /\
  size_opt (screen l') = fold_left ref_size (sops_of (l_mode l) ops) (size_opt (screen l)).
Proof.
  induction ops as [|o ops IH]; intros l l' W Hg H; cbn [lrun sops_of] in *.
  - injection H as <-. split; [exact W|reflexivity].
  - destruct (lstep l o) as [l1|] eqn:E1; [|discriminate].
    destruct (lstep_size l o l1 W (Forall_inv Hg) E1) as (M1 & _ & W1 & S1).
    destruct (IH l1 l' W1 (Forall_inv_tail Hg) H) as (W2 & S2). rewrite M1 in S2.
    split; [exact W2|]. rewrite fold_left_app, <- S1. exact S2.
Qed.

(** every accepted history - cursor-shape updates included, with or without --nocursor, the
    pointer anywhere - leaves a well-formed screen of exactly the reference size *)
Theorem client_size_with_cursor nocursor ops l :
  Forall lop_geom ops -> lrun (lib0 nocursor) ops = Some l ->
  wf_opt (screen l) /\ size_opt (screen l) = fold_left ref_size (sops_of DEFAULT_IMAGE_MODE ops) None.
Proof.
  intros Hg H. exact (lrun_size ops (lib0 nocursor) l I Hg H).
Qed.
