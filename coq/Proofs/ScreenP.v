(** The client's screen is the exact composition of what the server sent (C12): pointwise
    characterisation of paste, and of updateRectangle / updateDesktopSize on top of it. *)
From Coq Require Import ZArith List Bool Lia.
From VD Require Import Base.Bytes Base.BytesP Base.PixFmt Gen.Tables Model.Image Model.Screen.
Import ListNotations.
Open Scope Z_scope.

(** *** rows *)

Lemma paste_row_length : forall dst src m ox, List.length (paste_row dst src m ox) = List.length dst.
Proof.
  induction dst as [|p dr IH]; intros src m ox; cbn [paste_row]; [reflexivity|].
  destruct (0 <? ox); cbn [List.length]; [rewrite IH; reflexivity|].
  destruct src as [|q sr]; [reflexivity|].
  destruct m as [[|b mr]|]; cbn [List.length]; rewrite IH; reflexivity.
Qed.

(* the pixel at column i after pasting src at column ox (no mask, ox >= 0) *)
Lemma nth_paste_row : forall dst src ox i d, 0 <= ox ->
  nth i (paste_row dst src None ox) d =
  if (Z.to_nat ox <=? i)%nat && (i <? Z.to_nat ox + List.length src)%nat && (i <? List.length dst)%nat
  then nth (i - Z.to_nat ox) src d else nth i dst d.
Proof.
  induction dst as [|p dr IH]; intros src ox i d Hox; cbn [paste_row List.length].
  - rewrite andb_false_r. reflexivity.
  - destruct (Z.ltb_spec 0 ox) as [Hpos|Hz].
    + destruct i as [|i']; cbn [nth].
      * replace (Z.to_nat ox <=? 0)%nat with false by (symmetry; apply Nat.leb_gt; lia). reflexivity.
      * rewrite IH by lia. replace (Z.to_nat (ox - 1)) with (Z.to_nat ox - 1)%nat by lia.
        assert (E1 : (Z.to_nat ox - 1 <=? i')%nat = (Z.to_nat ox <=? S i')%nat).
        { destruct (Nat.leb_spec (Z.to_nat ox - 1) i'), (Nat.leb_spec (Z.to_nat ox) (S i')); try reflexivity; lia. }
        assert (E2 : (i' <? Z.to_nat ox - 1 + List.length src)%nat = (S i' <? Z.to_nat ox + List.length src)%nat).
        { destruct (Nat.ltb_spec i' (Z.to_nat ox - 1 + List.length src)), (Nat.ltb_spec (S i') (Z.to_nat ox + List.length src)); try reflexivity; lia. }
        rewrite E1, E2. change (S i' <? S (List.length dr))%nat with (i' <? List.length dr)%nat.
        destruct (Z.to_nat ox <=? S i')%nat eqn:L; [|reflexivity]. apply Nat.leb_le in L.
        replace (S i' - Z.to_nat ox)%nat with (i' - (Z.to_nat ox - 1))%nat by lia. reflexivity.
    + assert (ox = 0) by lia. subst ox. cbn [Z.to_nat].
      destruct src as [|q sr].
      * cbn [List.length]. rewrite Nat.add_0_r. replace (0 <=? i)%nat with true by reflexivity.
        replace (i <? 0)%nat with false by (symmetry; apply Nat.ltb_ge; lia). reflexivity.
      * destruct i as [|i']; cbn [nth List.length]; [reflexivity|].
        rewrite IH by lia. cbn [Z.to_nat]. change (0 <=? i')%nat with true. change (0 <=? S i')%nat with true.
        change (S i' <? 0 + S (List.length sr))%nat with (i' <? 0 + List.length sr)%nat.
        change (S i' <? S (List.length dr))%nat with (i' <? List.length dr)%nat.
        rewrite !Nat.sub_0_r. reflexivity.
Qed.

Lemma paste_rows_length : forall dst src m ox oy, List.length (paste_rows dst src m ox oy) = List.length dst.
Proof.
  induction dst as [|r dr IH]; intros src m ox oy; cbn [paste_rows]; [reflexivity|].
  destruct (0 <? oy); cbn [List.length]; [rewrite IH; reflexivity|].
  destruct src as [|s sr]; [reflexivity|].
  destruct m as [[|b mr]|]; cbn [List.length]; rewrite IH; reflexivity.
Qed.

(* the row at line j after pasting the rows of src at line oy (no mask, offsets >= 0) *)
Lemma nth_paste_rows : forall dst src ox oy j d, 0 <= oy -> 0 <= ox ->
  nth j (paste_rows dst src None ox oy) d =
  if (Z.to_nat oy <=? j)%nat && (j <? Z.to_nat oy + List.length src)%nat && (j <? List.length dst)%nat
  then paste_row (nth j dst d) (nth (j - Z.to_nat oy) src []) None ox else nth j dst d.
Proof.
  induction dst as [|r dr IH]; intros src ox oy j d Hoy Hox; cbn [paste_rows List.length].
  - rewrite andb_false_r. reflexivity.
  - destruct (Z.ltb_spec 0 oy) as [Hpos|Hz].
    + destruct j as [|j']; cbn [nth].
      * replace (Z.to_nat oy <=? 0)%nat with false by (symmetry; apply Nat.leb_gt; lia). reflexivity.
      * rewrite IH by lia. replace (Z.to_nat (oy - 1)) with (Z.to_nat oy - 1)%nat by lia.
        assert (E1 : (Z.to_nat oy - 1 <=? j')%nat = (Z.to_nat oy <=? S j')%nat).
        { destruct (Nat.leb_spec (Z.to_nat oy - 1) j'), (Nat.leb_spec (Z.to_nat oy) (S j')); try reflexivity; lia. }
        assert (E2 : (j' <? Z.to_nat oy - 1 + List.length src)%nat = (S j' <? Z.to_nat oy + List.length src)%nat).
        { destruct (Nat.ltb_spec j' (Z.to_nat oy - 1 + List.length src)), (Nat.ltb_spec (S j') (Z.to_nat oy + List.length src)); try reflexivity; lia. }
        rewrite E1, E2. change (S j' <? S (List.length dr))%nat with (j' <? List.length dr)%nat.
        destruct (Z.to_nat oy <=? S j')%nat eqn:L; [|reflexivity]. apply Nat.leb_le in L.
        replace (S j' - Z.to_nat oy)%nat with (j' - (Z.to_nat oy - 1))%nat by lia. reflexivity.
    + assert (oy = 0) by lia. subst oy. cbn [Z.to_nat].
      destruct src as [|s sr].
      * cbn [List.length]. rewrite Nat.add_0_r. replace (0 <=? j)%nat with true by reflexivity.
        replace (j <? 0)%nat with false by (symmetry; apply Nat.ltb_ge; lia). reflexivity.
      * unfold paste_row_clip, clip_neg. destruct (Z.ltb_spec ox 0); [lia|].
        destruct j as [|j']; cbn [nth List.length]; [reflexivity|].
        rewrite IH by lia. cbn [Z.to_nat]. change (0 <=? j')%nat with true. change (0 <=? S j')%nat with true.
        change (S j' <? 0 + S (List.length sr))%nat with (j' <? 0 + List.length sr)%nat.
        change (S j' <? S (List.length dr))%nat with (j' <? List.length dr)%nat.
        rewrite !Nat.sub_0_r. reflexivity.
Qed.

(** *** images *)

Definition wf_image (im : image) : Prop :=
  0 <= iw im /\ 0 <= ih im /\ List.length (rows im) = Z.to_nat (ih im) /\
  Forall (fun r => List.length r = Z.to_nat (iw im)) (rows im).

Definition inside (im : image) (x y : Z) : bool := (0 <=? x) && (x <? iw im) && (0 <=? y) && (y <? ih im).

(* pixels outside a well-formed image read as black *)
Lemma get_outside im x y : wf_image im -> inside im x y = false -> get im x y = black.
Proof.
  intros (Hw & Hh & Lr & Lc) H. unfold get, inside in *.
  destruct (Z.ltb_spec x 0); [reflexivity|]. destruct (Z.ltb_spec y 0); [reflexivity|]. cbn [orb].
  destruct (Z.leb_spec 0 x); [|lia]. destruct (Z.leb_spec 0 y); [|lia]. cbn [andb] in H.
  destruct (Z.ltb_spec y (ih im)) as [Hy|Hy].
  - rewrite andb_true_r in H. destruct (Z.ltb_spec x (iw im)); [discriminate|].
    assert (In (nth (Z.to_nat y) (rows im) []) (rows im)) as Hin by (apply nth_In; lia).
    rewrite Forall_forall in Lc. specialize (Lc _ Hin). apply nth_overflow. lia.
  - rewrite (nth_overflow (rows im)) by lia. destruct (Z.to_nat x); reflexivity.
Qed.

Lemma wf_new_black w h : 0 <= w -> 0 <= h -> wf_image (new_black w h).
Proof.
  intros Hw Hh. unfold wf_image, new_black. cbn [iw ih rows].
  assert (L : forall {A} (x : A) n, List.length (repeatZ x n) = n) by (intros A x n; induction n; cbn; auto).
  repeat split; try assumption; [apply L|].
  induction (Z.to_nat h); cbn; constructor; [apply L|assumption].
Qed.

Lemma get_new_black w h x y : get (new_black w h) x y = black.
Proof.
  unfold get, new_black. cbn [rows]. destruct ((x <? 0) || (y <? 0)); [reflexivity|].
  assert (R : forall n i, nth i (repeatZ black n) black = black) by (induction n; destruct i; cbn; auto).
  assert (RR : forall m n j, nth j (repeatZ (repeatZ black n) m) [] = repeatZ black n \/ nth j (repeatZ (repeatZ black n) m) [] = []).
  { induction m; destruct j; cbn; auto. }
  destruct (RR (Z.to_nat h) (Z.to_nat w) (Z.to_nat y)) as [E|E]; rewrite E; [apply R|destruct (Z.to_nat x); reflexivity].
Qed.

(** paste src into dst at (ox, oy), offsets non-negative: inside the pasted box (clipped to dst) the
    pixel is src's, elsewhere dst's; the size is dst's *)
Theorem get_paste dst src ox oy x y :
  wf_image dst -> wf_image src -> 0 <= ox -> 0 <= oy -> 0 <= x -> 0 <= y ->
  get (paste dst src ox oy) x y =
  if inside dst x y && inside src (x - ox) (y - oy) then get src (x - ox) (y - oy) else get dst x y.
Proof.
  intros (Dw & Dh & DLr & DLc) (Sw & Sh & SLr & SLc) Hox Hoy Hx Hy.
  unfold get at 1, paste, paste_rows_clip, clip_neg. cbn [rows].
  destruct (Z.ltb_spec oy 0); [lia|]. destruct (Z.ltb_spec x 0); [lia|]. destruct (Z.ltb_spec y 0); [lia|]. cbn [orb].
  rewrite (nth_paste_rows (rows dst) (rows src) ox oy (Z.to_nat y) [] Hoy Hox).
  unfold inside. rewrite DLr, SLr.
  destruct (Z.leb_spec 0 x); [|lia]. destruct (Z.leb_spec 0 y); [|lia]. cbn [andb].
  destruct (Nat.leb_spec (Z.to_nat oy) (Z.to_nat y)) as [Ly|Ly]; cbn [andb].
  2:{ destruct (Z.leb_spec 0 (y - oy)); [lia|]. rewrite !andb_false_r. unfold get.
      destruct (Z.ltb_spec x 0); [lia|]. destruct (Z.ltb_spec y 0); [lia|]. reflexivity. }
  destruct (Nat.ltb_spec (Z.to_nat y) (Z.to_nat oy + Z.to_nat (ih src))) as [Ly2|Ly2]; cbn [andb].
  2:{ destruct (Z.ltb_spec (y - oy) (ih src)); [lia|]. rewrite !andb_false_r. unfold get.
      destruct (Z.ltb_spec x 0); [lia|]. destruct (Z.ltb_spec y 0); [lia|]. reflexivity. }
  destruct (Nat.ltb_spec (Z.to_nat y) (Z.to_nat (ih dst))) as [Ly3|Ly3]; cbn [andb].
  2:{ destruct (Z.ltb_spec y (ih dst)); [lia|]. rewrite !andb_false_r. cbn [andb]. unfold get.
      destruct (Z.ltb_spec x 0); [lia|]. destruct (Z.ltb_spec y 0); [lia|]. reflexivity. }
  (* the line is inside both: look at the column *)
  set (drow := nth (Z.to_nat y) (rows dst) []). set (srow := nth (Z.to_nat y - Z.to_nat oy) (rows src) []).
  assert (Ld : List.length drow = Z.to_nat (iw dst)).
  { rewrite Forall_forall in DLc. apply DLc. apply nth_In. lia. }
  assert (Ls : List.length srow = Z.to_nat (iw src)).
  { rewrite Forall_forall in SLc. apply SLc. apply nth_In. lia. }
  rewrite (nth_paste_row drow srow ox (Z.to_nat x) black Hox). rewrite Ld, Ls.
  destruct (Z.ltb_spec y (ih dst)); [|lia]. destruct (Z.leb_spec 0 (y - oy)); [|lia]. destruct (Z.ltb_spec (y - oy) (ih src)); [|lia].
  rewrite !andb_true_r.
  destruct (Nat.leb_spec (Z.to_nat ox) (Z.to_nat x)) as [Lx|Lx]; cbn [andb].
  2:{ destruct (Z.leb_spec 0 (x - ox)); [lia|]. rewrite !andb_false_r. unfold get.
      destruct (Z.ltb_spec x 0); [lia|]. destruct (Z.ltb_spec y 0); [lia|]. reflexivity. }
  destruct (Nat.ltb_spec (Z.to_nat x) (Z.to_nat ox + Z.to_nat (iw src))) as [Lx2|Lx2]; cbn [andb].
  2:{ destruct (Z.ltb_spec (x - ox) (iw src)); [lia|]. rewrite !andb_false_r. unfold get.
      destruct (Z.ltb_spec x 0); [lia|]. destruct (Z.ltb_spec y 0); [lia|]. reflexivity. }
  destruct (Nat.ltb_spec (Z.to_nat x) (Z.to_nat (iw dst))) as [Lx3|Lx3]; cbn [andb].
  2:{ destruct (Z.ltb_spec x (iw dst)); [lia|]. cbn [andb]. unfold get.
      destruct (Z.ltb_spec x 0); [lia|]. destruct (Z.ltb_spec y 0); [lia|]. reflexivity. }
  destruct (Z.ltb_spec x (iw dst)); [|lia]. destruct (Z.leb_spec 0 (x - ox)); [|lia]. destruct (Z.ltb_spec (x - ox) (iw src)); [|lia].
  cbn [andb]. unfold get. destruct (Z.ltb_spec (x - ox) 0); [lia|]. destruct (Z.ltb_spec (y - oy) 0); [lia|]. cbn [orb].
  unfold srow. replace (Z.to_nat (y - oy)) with (Z.to_nat y - Z.to_nat oy)%nat by lia.
  replace (Z.to_nat (x - ox)) with (Z.to_nat x - Z.to_nat ox)%nat by lia. reflexivity.
Qed.

Lemma paste_rows_widths n ox : forall dst src oy,
  Forall (fun r : list rgb => List.length r = n) dst ->
  Forall (fun r : list rgb => List.length r = n) (paste_rows dst src None ox oy).
Proof.
  induction dst as [|r dr IH]; intros src oy H; cbn [paste_rows]; [constructor|].
  pose proof (Forall_inv H) as Hr. pose proof (Forall_inv_tail H) as Hdr. destruct (0 <? oy).
  - constructor; [exact Hr|apply IH; exact Hdr].
  - destruct src as [|s sr]; [constructor; assumption|].
    constructor; [|apply IH; exact Hdr]. unfold paste_row_clip. destruct (clip_neg s ox). rewrite paste_row_length. exact Hr.
Qed.

Lemma wf_paste dst src ox oy : wf_image dst -> wf_image (paste dst src ox oy).
Proof.
  intros (Dw & Dh & DLr & DLc). unfold wf_image, paste, paste_rows_clip. cbn [iw ih rows].
  destruct (clip_neg (rows src) oy) as [src' oy'].
  repeat split; try assumption; [rewrite paste_rows_length; exact DLr|apply paste_rows_widths; exact DLc].
Qed.

(** *** frombytes gives a well-formed image of the announced size *)

Lemma decode_pixels_length m : forall n d, Z.of_nat n * mode_bpp m <= len d -> List.length (decode_pixels m n d) = n.
Proof.
  induction n as [|n IH]; intros d H; [reflexivity|].
  assert (Hn : Z.of_nat n * mode_bpp m + mode_bpp m <= len d) by lia.
  destruct m; cbn [mode_bpp] in *; cbn [decode_pixels];
    repeat (destruct d as [|? d]; [rewrite ?len_cons, ?len_nil in Hn; pose proof (Z.le_0_sub); lia|]);
    cbn [List.length]; f_equal; apply IH; rewrite !len_cons in Hn; cbn [mode_bpp]; lia.
Qed.

Lemma rows_of_wf {A} (w : Z) : 0 <= w -> forall h (l : list A), Z.of_nat h * w <= len l ->
  List.length (rows_of h w l) = h /\ Forall (fun r => List.length r = Z.to_nat w) (rows_of h w l).
Proof.
  intros Hw. induction h as [|h IH]; intros l H; cbn [rows_of]; [split; [reflexivity|constructor]|].
  assert (Hl : w <= len l) by lia.
  destruct (take_ge w l Hl) as (r & rest & E). rewrite E.
  pose proof (take_some_len w l r rest Hw E) as Lr. pose proof (take_some_app w l r rest E) as El.
  assert (Hrest : Z.of_nat h * w <= len rest) by (rewrite El, len_app in H; lia).
  destruct (IH rest Hrest) as [LA LB]. split; [cbn [List.length]; rewrite LA; reflexivity|].
  constructor; [unfold len in Lr; lia|exact LB].
Qed.

Lemma frombytes_wf m w h d u : frombytes m w h d = Some u -> wf_image u /\ iw u = w /\ ih u = h.
Proof.
  unfold frombytes. destruct (Z.ltb_spec w 0); [discriminate|]. destruct (Z.ltb_spec h 0); [discriminate|]. cbn [orb].
  destruct (Z.ltb_spec (len d) (w * h * mode_bpp m)); [discriminate|]. intros E. inversion E; subst u; clear E.
  cbn [iw ih rows]. split; [|split; reflexivity]. unfold wf_image. cbn [iw ih rows].
  assert (Lp : List.length (decode_pixels m (Z.to_nat (w * h)) d) = Z.to_nat (w * h)).
  { apply decode_pixels_length. rewrite Z2Nat.id by nia. lia. }
  destruct (rows_of_wf w H (Z.to_nat h) (decode_pixels m (Z.to_nat (w * h)) d)) as [A B].
  { unfold len. rewrite Lp. rewrite !Z2Nat.id by nia. lia. }
  repeat split; assumption.
Qed.

(** *** updateRectangle *)

(* the image the client holds after updateRectangle(x, y, ...) with decoded data [u] (before any cursor is drawn) *)
Definition placed (scr : option image) (x y : Z) (u : image) : image :=
  match scr with
  | None => if negb (x =? 0) || negb (y =? 0) then paste (new_black (x + iw u) (y + ih u)) u x y else u
  | Some s =>
      if (iw s <? x + iw u) || (ih s <? y + ih u)
      then paste (paste (new_black (Z.max (x + iw u) (iw s)) (Z.max (y + ih u) (ih s))) s 0 0) u x y
      else paste s u x y
  end.

Lemma update_rect_placed l x y w h data u :
  data <> [] -> frombytes (l_mode l) w h data = Some u -> cur l = None ->
  update_rect l x y w h data = Some (with_screen l (Some (placed (screen l) x y u))).
Proof.
  intros Hd Hf Hc. destruct (frombytes_wf _ _ _ _ _ Hf) as (_ & Ew & Eh).
  unfold update_rect. destruct data; [congruence|]. rewrite Hf. unfold placed. rewrite Ew, Eh.
  unfold draw_cursor. cbn [cur with_screen]. rewrite Hc. reflexivity.
Qed.

Definition in_box (x y w h px py : Z) : bool := (x <=? px) && (px <? x + w) && (y <=? py) && (py <? y + h).

Lemma inside_iff im x y : inside im x y = true <-> 0 <= x < iw im /\ 0 <= y < ih im.
Proof.
  unfold inside. rewrite !andb_true_iff, !Z.leb_le, !Z.ltb_lt. lia.
Qed.

Ltac bool_cases :=
  repeat match goal with
         | |- context [inside ?i ?a ?b] => let E := fresh "E" in destruct (inside i a b) eqn:E;
             [apply inside_iff in E|assert (~ (0 <= a < iw i /\ 0 <= b < ih i)) by (rewrite <- inside_iff; congruence); clear E]
         end.

(** the composition step: after an update at (x, y) with image u the screen shows u inside the
    rectangle and exactly what it showed before elsewhere (black where nothing was ever sent); it is as
    large as before, grown - never shrunk - to contain the rectangle *)
Theorem placed_spec scr x y u :
  match scr with Some s => wf_image s | None => True end -> wf_image u -> 0 <= x -> 0 <= y ->
  let R := placed scr x y u in
  wf_image R /\
  iw R = match scr with None => x + iw u | Some s => Z.max (x + iw u) (iw s) end /\
  ih R = match scr with None => y + ih u | Some s => Z.max (y + ih u) (ih s) end /\
  forall px py, 0 <= px -> 0 <= py ->
    get R px py = if in_box x y (iw u) (ih u) px py then get u (px - x) (py - y)
                  else match scr with Some s => get s px py | None => black end.
Proof.
  intros Ws Wu Hx Hy. cbv zeta.
  assert (Uw : 0 <= iw u) by apply Wu. assert (Uh : 0 <= ih u) by (destruct Wu as (_ & H & _); exact H).
  assert (BOX : forall px py, in_box x y (iw u) (ih u) px py = inside u (px - x) (py - y)).
  { intros px py. unfold in_box, inside.
    destruct (Z.leb_spec x px), (Z.leb_spec 0 (px - x)), (Z.ltb_spec px (x + iw u)), (Z.ltb_spec (px - x) (iw u)),
             (Z.leb_spec y py), (Z.leb_spec 0 (py - y)), (Z.ltb_spec py (y + ih u)), (Z.ltb_spec (py - y) (ih u)); try reflexivity; lia. }
  unfold placed. destruct scr as [s|].
  - assert (Sw : 0 <= iw s) by apply Ws. assert (Sh : 0 <= ih s) by (destruct Ws as (_ & H & _); exact H).
    destruct ((iw s <? x + iw u) || (ih s <? y + ih u)) eqn:G.
    + (* the canvas grows *)
      set (W := Z.max (x + iw u) (iw s)). set (H := Z.max (y + ih u) (ih s)).
      assert (WB : wf_image (new_black W H)) by (apply wf_new_black; unfold W, H; lia).
      assert (W1 : wf_image (paste (new_black W H) s 0 0)) by (apply wf_paste; exact WB).
      split; [apply wf_paste; exact W1|]. split; [reflexivity|]. split; [reflexivity|].
      intros px py Hpx Hpy. rewrite (get_paste _ u x y px py W1 Wu Hx Hy Hpx Hpy). rewrite BOX.
      rewrite (get_paste (new_black W H) s 0 0 px py WB Ws ltac:(lia) ltac:(lia) Hpx Hpy). rewrite !Z.sub_0_r, get_new_black.
      assert (IA : inside u (px - x) (py - y) = true -> inside (paste (new_black W H) s 0 0) px py = true).
      { intros E. apply inside_iff in E. apply inside_iff. cbn [iw ih paste new_black]. unfold W, H. lia. }
      assert (IB : inside s px py = true -> inside (new_black W H) px py = true).
      { intros E. apply inside_iff in E. apply inside_iff. cbn [iw ih new_black]. unfold W, H. lia. }
      destruct (inside u (px - x) (py - y)) eqn:E1; [rewrite IA by reflexivity; reflexivity|rewrite andb_false_r].
      destruct (inside s px py) eqn:E2; [rewrite IB by reflexivity; reflexivity|rewrite andb_false_r].
      symmetry. apply get_outside; assumption.
    + (* the rectangle lies inside the canvas *)
      apply orb_false_iff in G as [G1 G2]. apply Z.ltb_ge in G1, G2.
      split; [apply wf_paste; exact Ws|]. cbn [iw ih paste]. split; [lia|]. split; [lia|].
      intros px py Hpx Hpy. rewrite (get_paste s u x y px py Ws Wu Hx Hy Hpx Hpy). rewrite BOX.
      bool_cases; cbn [andb]; try reflexivity. exfalso. lia.
  - destruct (negb (x =? 0) || negb (y =? 0)) eqn:G.
    + assert (WB : wf_image (new_black (x + iw u) (y + ih u))) by (apply wf_new_black; lia).
      split; [apply wf_paste; exact WB|]. split; [reflexivity|]. split; [reflexivity|].
      intros px py Hpx Hpy. rewrite (get_paste _ u x y px py WB Wu Hx Hy Hpx Hpy). rewrite BOX, get_new_black.
      destruct (inside u (px - x) (py - y)) eqn:E; [|rewrite andb_false_r; reflexivity].
      apply inside_iff in E. replace (inside (new_black (x + iw u) (y + ih u)) px py) with true; [reflexivity|].
      symmetry. apply inside_iff. cbn [iw ih new_black]. lia.
    + apply orb_false_iff in G as [G1 G2]. apply negb_false_iff in G1, G2. apply Z.eqb_eq in G1, G2. subst x y.
      split; [exact Wu|]. split; [lia|]. split; [lia|].
      intros px py Hpx Hpy. rewrite BOX, !Z.sub_0_r. destruct (inside u px py) eqn:E; [reflexivity|apply get_outside; assumption].
Qed.

(** *** updateDesktopSize *)

Definition resized (scr : option image) (w h : Z) : image :=
  match scr with Some s => paste (new_black w h) s 0 0 | None => new_black w h end.

Definition get_opt (scr : option image) (px py : Z) : rgb :=
  match scr with Some s => get s px py | None => black end.

Theorem resized_spec scr w h :
  match scr with Some s => wf_image s | None => True end -> 0 <= w -> 0 <= h ->
  let R := resized scr w h in
  wf_image R /\ iw R = w /\ ih R = h /\
  forall px py, 0 <= px -> 0 <= py ->
    get R px py = if (px <? w) && (py <? h) then get_opt scr px py else black.
Proof.
  intros Ws Hw Hh. cbv zeta. assert (WB : wf_image (new_black w h)) by (apply wf_new_black; assumption).
  unfold resized. destruct scr as [s|].
  - split; [apply wf_paste; exact WB|]. split; [reflexivity|]. split; [reflexivity|].
    intros px py Hpx Hpy. rewrite (get_paste _ s 0 0 px py WB Ws ltac:(lia) ltac:(lia) Hpx Hpy).
    rewrite !Z.sub_0_r, get_new_black. cbn [get_opt].
    assert (IN : inside (new_black w h) px py = (px <? w) && (py <? h)).
    { unfold inside. cbn [iw ih new_black]. destruct (Z.leb_spec 0 px), (Z.leb_spec 0 py); try lia;
      cbn [andb]; rewrite andb_true_r; reflexivity. }
    rewrite IN. destruct ((px <? w) && (py <? h)); cbn [andb]; [|reflexivity].
    destruct (inside s px py) eqn:E; [reflexivity|symmetry; apply get_outside; assumption].
  - split; [exact WB|]. split; [reflexivity|]. split; [reflexivity|].
    intros px py _ _. rewrite get_new_black. cbn [get_opt]. destruct (_ && _); reflexivity.
Qed.

(** *** histories *)

(* what the server sent, after decoding: an image placed at (x, y), or a new desktop size *)
Inductive sop := SUpdate (x y : Z) (u : image) | SResize (w h : Z).

Definition wf_sop (o : sop) : Prop :=
  match o with
  | SUpdate x y u => 0 <= x /\ 0 <= y /\ wf_image u
  | SResize w h => 0 <= w /\ 0 <= h
  end.

Definition mstep (scr : option image) (o : sop) : option image :=
  match o with
  | SUpdate x y u => Some (placed scr x y u)
  | SResize w h => Some (resized scr w h)
  end.

(** the reference canvas: the colour most recently sent for a pixel (content that does not fit a new
    desktop size is gone), black if none; and the size the image must have *)
Definition ref_step (f : Z -> Z -> rgb) (o : sop) : Z -> Z -> rgb :=
  fun px py =>
    match o with
    | SUpdate x y u => if in_box x y (iw u) (ih u) px py then get u (px - x) (py - y) else f px py
    | SResize w h => if (px <? w) && (py <? h) then f px py else black
    end.

Definition ref_size (sz : option (Z * Z)) (o : sop) : option (Z * Z) :=
  match o, sz with
  | SUpdate x y u, None => Some (x + iw u, y + ih u)
  | SUpdate x y u, Some (W, H) => Some (Z.max (x + iw u) W, Z.max (y + ih u) H)
  | SResize w h, _ => Some (w, h)
  end.

Definition size_opt (scr : option image) : option (Z * Z) :=
  match scr with Some s => Some (iw s, ih s) | None => None end.

Definition wf_opt (scr : option image) : Prop := match scr with Some s => wf_image s | None => True end.

Lemma mstep_ref scr f sz o :
  wf_opt scr -> wf_sop o ->
  (forall px py, 0 <= px -> 0 <= py -> get_opt scr px py = f px py) -> size_opt scr = sz ->
  wf_opt (mstep scr o) /\
  (forall px py, 0 <= px -> 0 <= py -> get_opt (mstep scr o) px py = ref_step f o px py) /\
  size_opt (mstep scr o) = ref_size sz o.
Proof.
  intros Ws Wo Hf Hsz. destruct o as [x y u|w h]; cbn [wf_sop] in Wo; cbn [mstep wf_opt get_opt size_opt ref_step ref_size].
  - destruct Wo as (Hx & Hy & Wu). destruct (placed_spec scr x y u Ws Wu Hx Hy) as (WR & EW & EH & PX).
    split; [exact WR|]. split.
    + intros px py Hpx Hpy. rewrite (PX px py Hpx Hpy). destruct (in_box _ _ _ _ _ _); [reflexivity|].
      rewrite <- (Hf px py Hpx Hpy). destruct scr; reflexivity.
    + rewrite EW, EH. subst sz. destruct scr; reflexivity.
  - destruct Wo as (Hw & Hh). destruct (resized_spec scr w h Ws Hw Hh) as (WR & EW & EH & PX).
    split; [exact WR|]. split.
    + intros px py Hpx Hpy. rewrite (PX px py Hpx Hpy). rewrite (Hf px py Hpx Hpy). reflexivity.
    + rewrite EW, EH. reflexivity.
Qed.

Theorem history_ref : forall ops scr f sz,
  wf_opt scr -> Forall wf_sop ops ->
  (forall px py, 0 <= px -> 0 <= py -> get_opt scr px py = f px py) -> size_opt scr = sz ->
  let R := fold_left mstep ops scr in
  wf_opt R /\
  (forall px py, 0 <= px -> 0 <= py -> get_opt R px py = fold_left ref_step ops f px py) /\
  size_opt R = fold_left ref_size ops sz.
Proof.
  induction ops as [|o ops IH]; intros scr f sz Ws Wo Hf Hsz; cbn [fold_left].
  - repeat split; assumption.
  - pose proof (Forall_inv Wo) as Wo1. pose proof (Forall_inv_tail Wo) as Wo2.
    destruct (mstep_ref scr f sz o Ws Wo1 Hf Hsz) as (W1 & F1 & S1).
    exact (IH (mstep scr o) (ref_step f o) (ref_size sz o) W1 Wo2 F1 S1).
Qed.

(** *** the client: updateRectangle / updateDesktopSize / updateCursor over a whole connection *)

Inductive lop :=
| LUpdate (x y w h : Z) (data : bytes)
| LResize (w h : Z)
| LCursor (x y w h : Z) (img msk : bytes).

Definition lstep (l : lib) (o : lop) : option lib :=
  match o with
  | LUpdate x y w h data => update_rect l x y w h data
  | LResize w h => resize l w h
  | LCursor x y w h img msk => update_cursor l x y w h img msk
  end.

Fixpoint lrun (l : lib) (ops : list lop) : option lib :=
  match ops with
  | [] => Some l
  | o :: r => match lstep l o with Some l' => lrun l' r | None => None end
  end.

(* what an operation means for the canvas: its decoded form, if it carries pixels or a size *)
Definition sop_of (m : immode) (o : lop) : list sop :=
  match o with
  | LUpdate x y w h [] => []
  | LUpdate x y w h data => match frombytes m w h data with Some u => [SUpdate x y u] | None => [] end
  | LResize w h => [SResize w h]
  | LCursor _ _ _ _ _ _ => []
  end.

Definition lop_ok (nocursor : bool) (o : lop) : Prop :=
  match o with
  | LUpdate x y _ _ _ => 0 <= x /\ 0 <= y
  | LResize _ _ => True
  | LCursor _ _ _ _ _ _ => nocursor = true
  end.

Lemma lstep_mstep l o l' :
  cur l = None -> lop_ok (l_nocursor l) o -> lstep l o = Some l' ->
  cur l' = None /\ l_mode l' = l_mode l /\ l_nocursor l' = l_nocursor l /\
  Forall wf_sop (sop_of (l_mode l) o) /\
  screen l' = fold_left mstep (sop_of (l_mode l) o) (screen l).
Proof.
  intros Hc Hok H. destruct o as [x y w h data|w h|x y w h img msk]; cbn [lstep lop_ok] in *.
  - destruct data as [|b data].
    + cbn [update_rect] in H. assert (l' = l) by congruence. subst l'. cbn [sop_of fold_left]. repeat split; try assumption. constructor.
    + destruct (frombytes (l_mode l) w h (b :: data)) as [u|] eqn:Ef.
      * rewrite (update_rect_placed l x y w h (b :: data) u ltac:(discriminate) Ef Hc) in H.
        assert (E : l' = with_screen l (Some (placed (screen l) x y u))) by congruence. subst l'.
        cbn [sop_of]. rewrite Ef. cbn [fold_left mstep with_screen cur l_mode l_nocursor screen].
        destruct (frombytes_wf _ _ _ _ _ Ef) as (Wu & _ & _).
        repeat split; try assumption; try reflexivity. constructor; [cbn [wf_sop]; tauto|constructor].
      * cbn [update_rect] in H. rewrite Ef in H. discriminate.
  - unfold resize in H.
    destruct ((0 <=? w) && (w <? MAX_DESKTOP_SIZE) && (0 <=? h) && (h <? MAX_DESKTOP_SIZE)) eqn:G; [|discriminate].
    assert (E : l' = with_screen l (Some (resized (screen l) w h))) by (unfold resized; congruence). subst l'.
    cbn [sop_of fold_left mstep with_screen cur l_mode l_nocursor screen].
    apply andb_true_iff in G as [G G4]. apply andb_true_iff in G as [G G3]. apply andb_true_iff in G as [G1 G2].
    apply Z.leb_le in G1, G3.
    repeat split; try assumption; try reflexivity. constructor; [cbn [wf_sop]; lia|constructor].
  - unfold update_cursor in H. rewrite Hok in H. assert (l' = l) by congruence. subst l'.
    cbn [sop_of fold_left]. repeat split; try assumption. constructor.
Qed.

Fixpoint sops_of (m : immode) (ops : list lop) : list sop :=
  match ops with [] => [] | o :: r => sop_of m o ++ sops_of m r end.

Lemma lrun_mrun : forall ops l l',
  cur l = None -> Forall (lop_ok (l_nocursor l)) ops -> lrun l ops = Some l' ->
  Forall wf_sop (sops_of (l_mode l) ops) /\
  screen l' = fold_left mstep (sops_of (l_mode l) ops) (screen l) /\ cur l' = None.
Proof.
  induction ops as [|o ops IH]; intros l l' Hc Hok H; cbn [lrun sops_of] in *.
  - assert (l' = l) by congruence. subst l'. cbn [fold_left]. repeat split; [constructor|assumption].
  - destruct (lstep l o) as [l1|] eqn:E1; [|discriminate].
    destruct (lstep_mstep l o l1 Hc (Forall_inv Hok) E1) as (C1 & M1 & N1 & W1 & S1).
    assert (Hok1 : Forall (lop_ok (l_nocursor l1)) ops) by (rewrite N1; exact (Forall_inv_tail Hok)).
    destruct (IH l1 l' C1 Hok1 H) as (W2 & S2 & C2). rewrite M1 in W2, S2.
    split; [apply Forall_app; split; assumption|]. split; [|exact C2].
    rewrite fold_left_app, <- S1. exact S2.
Qed.

(** C12: starting from an empty client, after any sequence of rectangle updates, desktop-size changes
    and (with --nocursor) cursor-shape updates that the client accepts, the screen is pixel for pixel
    the reference canvas of the decoded history, and has the reference size *)
Theorem client_composition nocursor ops l :
  Forall (lop_ok nocursor) ops -> lrun (lib0 nocursor) ops = Some l ->
  let h := sops_of DEFAULT_IMAGE_MODE ops in
  wf_opt (screen l) /\
  (forall px py, 0 <= px -> 0 <= py ->
     get_opt (screen l) px py = fold_left ref_step h (fun _ _ => black) px py) /\
  size_opt (screen l) = fold_left ref_size h None.
Proof.
  intros Hok H. cbv zeta.
  destruct (lrun_mrun ops (lib0 nocursor) l eq_refl Hok H) as (W & S & _).
  cbn [lib0 l_mode screen] in W, S. rewrite S.
  apply history_ref; [exact I|exact W|reflexivity|reflexivity].
Qed.
