(** VNCDoToolClient._expectCompare as regenerated from the source text ([Gen/ExpectOps.v], gen/expect.py) is the model's
    decision [expect_matches], and the request it writes on a miss is incremental exactly when a screen exists - for every
    screen, box, expected histogram and tolerance. *)
From Coq Require Import ZArith List Bool PrimFloat.
From VD Require Import Base.Bytes Model.Image Model.Expect Gen.ExpectOps.
Import ListNotations.
Open Scope Z_scope.

Lemma sumsq_fold : forall h e,
  fold_right Z.add 0 (map (fun p : Z * Z => let '(a, b) := p in (a - b) * (a - b)) (combine h e)) = sumsq h e.
Proof.
  induction h as [|x h IH]; intros [|y e]; cbn [combine map fold_right sumsq]; try reflexivity.
  rewrite IH. reflexivity.
Qed.

Theorem expect_compare_is_source screen x0 y0 x1 y1 expected maxrms :
  let has := match screen with Some _ => true | None => false end in
  let hist := match screen with Some im => histogram (crop_rows im x0 y0 x1 y1) | None => [] end in
  gen_expect_compare has hist expected maxrms =
  if expect_matches screen (x0, y0, x1, y1) expected maxrms then (true, false) else (false, has).
Proof.
  destruct screen as [im|]; cbv zeta; [|reflexivity].
  unfold gen_expect_compare, expect_matches, rms_le, rms. cbv zeta.
  destruct (len (histogram (crop_rows im x0 y0 x1 y1)) =? len expected); cbn [andb]; [|reflexivity].
  rewrite sumsq_fold. destruct (PrimFloat.leb _ maxrms); reflexivity.
Qed.

(* what the polling loop of the model does at the call is this decision *)
Theorem poll_start_is_source screen x0 y0 x1 y1 expected maxrms :
  poll_start image (fun s => expect_matches s (x0, y0, x1, y1) expected maxrms) screen =
  let has := match screen with Some _ => true | None => false end in
  let hist := match screen with Some im => histogram (crop_rows im x0 y0 x1 y1) | None => [] end in
  let '(done_, inc) := gen_expect_compare has hist expected maxrms in
  if done_ then ([PDone], false) else ([PReq inc], true).
Proof.
  cbv zeta. rewrite expect_compare_is_source. unfold poll_start.
  destruct (expect_matches screen (x0, y0, x1, y1) expected maxrms); [reflexivity|]. destruct screen; reflexivity.
Qed.
