(** vncdo's exit status tells the truth (C09). *)
From Coq Require Import ZArith List Bool Lia.
From VD Require Import Model.Exit.
Import ListNotations.
Open Scope Z_scope.

(* invariant: status 0 only after a clean loss delivered while completed *)
Definition inv (s : xstate) : Prop := x_status s = 0 -> x_completed s = true.

Lemma xstep_inv s e : inv s -> inv (xstep s e).
Proof.
  unfold inv, xstep. intros H. destruct (x_stopped s); [exact H|].
  destruct e; cbn; try discriminate; try exact H.
  - intros _. reflexivity.
  - destruct (x_completed s) eqn:E; cbn; [intros _; exact E|discriminate].
  - destruct (x_stopping s); cbn; exact H.
Qed.

Lemma xrun_inv evs : forall s, inv s -> inv (fold_left xstep evs s).
Proof. induction evs as [|e r IH]; intros s H; cbn; [exact H|]. apply IH, xstep_inv, H. Qed.

Lemma completed_needs_event evs : forall s,
  x_completed (fold_left xstep evs s) = true -> x_completed s = true \/ In XCompleted evs.
Proof.
  induction evs as [|e r IH]; intros s H; cbn in *; [left; exact H|].
  destruct (IH _ H) as [C|C]; [|right; right; exact C].
  unfold xstep in C. destruct (x_stopped s); [left; exact C|].
  destruct e; cbn in C; try (left; exact C); try (right; left; reflexivity).
  - destruct (x_completed s) eqn:E; cbn in C; left; congruence.
  - destruct (x_stopping s); cbn in C; left; exact C.
Qed.

(** exit status 0 only if the script completed (every command ran and vncdo closed the connection) *)
Theorem zero_only_if_complete evs : exit_status evs = 0 -> In XCompleted evs.
Proof.
  intros H. unfold exit_status, xrun in H.
  assert (I0 : inv x0) by (unfold inv; cbn; discriminate).
  pose proof (xrun_inv evs x0 I0 H) as C. destruct (completed_needs_event evs x0 C) as [C0|C0]; [discriminate|exact C0].
Qed.

(** ... and only if, after completing, the connection ended in an orderly way *)
Lemma status_zero_last s e : x_status (xstep s e) = 0 -> x_status s = 0 \/ (e = XLostClean /\ x_completed s = true).
Proof.
  unfold xstep. destruct (x_stopped s); [left; assumption|].
  destruct e; cbn; try discriminate; try (left; assumption).
  - destruct (x_completed s); cbn; [right; split; reflexivity|discriminate].
  - destruct (x_stopping s); cbn; left; assumption.
Qed.

Lemma status_zero_trace : forall evs s,
  x_status (fold_left xstep evs s) = 0 -> x_status s = 0 \/ In XLostClean evs.
Proof.
  induction evs as [|e r IH]; intros s H; cbn in *; [left; exact H|].
  destruct (IH _ H) as [Z|I]; [|right; right; exact I].
  destruct (status_zero_last _ _ Z) as [Z'|[-> _]]; [left; exact Z'|right; left; reflexivity].
Qed.

Theorem zero_needs_clean_close evs : exit_status evs = 0 -> In XLostClean evs.
Proof.
  intros H. destruct (status_zero_trace evs x0 H) as [Z|I]; [discriminate|exact I].
Qed.

(** before the script is complete, any end of the connection - failure to connect, the server closing
    or resetting, the client aborting (all arrive as a lost connection) - or the timeout gives a
    non-zero status, and nothing that follows before the reactor stops can turn it into 0 without
    the script completing *)
Theorem fault_before_completion_nonzero evs :
  ~ In XCompleted evs -> exit_status evs <> 0.
Proof. intros N Z. apply N, zero_only_if_complete, Z. Qed.

(** the timeout: once it has fired the status is non-zero unless the script completes and the
    connection then closes cleanly before the reactor stops; and a stop is scheduled (0.1 s later) *)
Theorem timeout_nonzero pre post :
  ~ In XCompleted (pre ++ XTimeout :: post) -> exit_status (pre ++ XTimeout :: post) <> 0.
Proof. apply fault_before_completion_nonzero. Qed.

Lemma stopping_monotone evs : forall s, x_stopping s = true -> x_stopping (fold_left xstep evs s) = true.
Proof.
  induction evs as [|e r IH]; intros s H; cbn; [exact H|]. apply IH.
  unfold xstep. destruct (x_stopped s); [exact H|]. destruct e; cbn; try exact H; try reflexivity.
  - destruct (x_completed s); reflexivity.
  - rewrite H. reflexivity.
Qed.

Theorem timeout_schedules_stop pre post :
  x_stopped (xrun pre) = false -> x_stopping (xrun (pre ++ XTimeout :: post)) = true.
Proof.
  intros H. unfold xrun in *. rewrite fold_left_app. cbn [fold_left]. apply stopping_monotone.
  set (s := fold_left xstep pre x0) in *. unfold xstep. rewrite H. reflexivity.
Qed.

(** the good case: connected, every command ran, vncdo closed, the connection ended cleanly: 0 *)
Theorem complete_clean_zero : exit_status [XCompleted; XLostClean; XStop] = 0.
Proof. reflexivity. Qed.
