(** Capture: request geometry and where the image is saved (C06). *)
From Coq Require Import ZArith List Bool Lia.
From RecordUpdate Require Import RecordSet.
From VD Require Import Base.Bytes Base.Struct Base.PixFmt Gen.Tables Gen.Formats.
From VD Require Import Model.Engine Model.ClientMsgs Model.Rfb.
Import ListNotations.
Open Scope Z_scope.

Definition set_waiter (s : st) (b : bool) : st := set waiter (fun _ => b) s.

Theorem capture_request : forall s p buf inc,
  0 <= width s ->
  op_capture (CRun (Idle s p buf)) inc =
    match framebufferUpdateRequest inc 0 0 (width s) (height s) with
    | Some b => ([EWrite b], CRun (Idle (set_waiter s true) p buf))
    | None => ([], CRun Crashed)
    end.
Proof.
  intros s p buf inc H. unfold op_capture. destruct (Z.ltb_spec (width s) 0); [lia|]. reflexivity.
Qed.

Lemma do_connection_size s : exists s' p' es, do_connection s = Ok s' p' es /\ width s' = width s /\ height s' = height s.
Proof.
  unfold do_connection. destruct (negb _); [eexists _, _, _; repeat split|].
  destruct (rectpos s); [eexists _, _, _; repeat split|].
  unfold commit. destruct (_ && _); eexists _, _, _; repeat split.
Qed.

Theorem desktopsize_geometry : forall s b x y w h,
  unpackZ fmt_rfb_RFBClient_handleRectangle_0 b = Some [x; y; w; h; ENC_PSEUDO_DESKTOP_SIZE] ->
  rects s <> 0 ->
  exists s' p' es, step s PRect b = Ok s' p' (EDesktopSize w h :: es) /\ width s' = w /\ height s' = h.
Proof.
  intros s b x y w h E Hr. cbn [step]. rewrite E.
  change (ENC_PSEUDO_DESKTOP_SIZE =? ENC_PSEUDO_LAST_RECT) with false. cbv iota.
  destruct (Z.eqb_spec (rects s) 0); [contradiction|].
  change (ENC_PSEUDO_DESKTOP_SIZE =? ENC_COPY_RECTANGLE) with false.
  change (ENC_PSEUDO_DESKTOP_SIZE =? ENC_RAW) with false.
  change (ENC_PSEUDO_DESKTOP_SIZE =? ENC_HEXTILE) with false.
  change (ENC_PSEUDO_DESKTOP_SIZE =? ENC_CORRE) with false.
  change (ENC_PSEUDO_DESKTOP_SIZE =? ENC_RRE) with false.
  change (ENC_PSEUDO_DESKTOP_SIZE =? ENC_ZRLE) with false.
  change (ENC_PSEUDO_DESKTOP_SIZE =? ENC_PSEUDO_CURSOR) with false.
  change (ENC_PSEUDO_DESKTOP_SIZE =? ENC_PSEUDO_DESKTOP_SIZE) with true. cbv iota.
  match goal with |- context [do_connection ?s2] => destruct (do_connection_size s2) as (s' & p' & es & Ed & Hw & Hh); rewrite Ed end.
  cbn [prepend app]. exists s', p', es. split; [reflexivity|]. rewrite Hw, Hh. split; reflexivity.
Qed.
