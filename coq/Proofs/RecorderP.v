(** The vnclog parser / recorder (C17, C18). *)
From Coq Require Import ZArith List Bool Lia String.
From VD Require Import Base.Bytes Base.BytesP Base.Struct Base.Text Proofs.TextP Gen.Tables Gen.Formats.
From VD Require Import Model.Shlex Model.Recorder Spec.C2S Proofs.C2SP.
Import ListNotations.
Open Scope Z_scope.

(** RFC 6143 §7.5.4 KeyEvent *)
Definition key_event_bytes (down key : Z) : bytes := [4; down; 0; 0] ++ be_enc 4 key.

Lemma be_dec4 a b c d : be_dec [a; b; c; d] = u32 a b c d.
Proof. unfold be_dec, u32. cbn [be_dec_acc]. lia. Qed.

Theorem key_entry : forall s now down key rest name,
  r_handler s = HProtocol -> r_need s = 1 ->
  0 <= down <= 255 -> 0 <= key <= 4294967295 -> key_name key = Some name ->
  r_buf s = key_event_bytes down key ++ rest ->
  handle s now =
    HOk [RRecord (join_sp [w "pause"; fmt4 (now - r_last s); (if negb (down =? 0) then w "keydown" else w "keyup");
                           quote name; [10]])]
        (mk_rstate rest HProtocol 1 (r_pwreq s) (r_mouse s) now).
Proof.
  intros s now down key rest name Hh Hn Hd Hk Hname Hb.
  destruct (u32_enc key ltac:(lia)) as (a & b & c & d & E & U).
  unfold handle. rewrite Hh, Hb. unfold key_event_bytes. rewrite E. cbn [app].
  change (type_len 4) with 8.
  assert (Hl : len (4 :: down :: 0 :: 0 :: a :: b :: c :: d :: rest) <? 8 = false).
  { apply Z.ltb_ge. rewrite !len_cons. pose proof (len_nonneg rest). lia. }
  rewrite Hl. change (Z.to_nat 8) with 8%nat. cbn [firstn skipn].
  change (4 =? C2S_SET_PIXEL_FORMAT) with false. change (4 =? C2S_SET_ENCODING) with false.
  change (4 =? C2S_FRAMEBUFFER_UPDATE_REQUEST) with false. change (4 =? C2S_KEY_EVENT) with true. cbv iota.
  unfold unpackZs, fmt_loggingproxy_RFBServer_handle_protocol_4.
  cbn [unpack fsize take Z.leb Z.compare Z.sub Z.add Z.opp Z.pos_sub Pos.compare Pos.compare_cont Pos.pred_double unpack1 map].
  rewrite be_dec4, U.
  assert (Hd1 : be_dec [down] = down) by (unfold be_dec; cbn; lia). rewrite Hd1.
  unfold record_key, with_buf. cbn [r_buf r_handler r_need r_pwreq r_mouse r_last]. rewrite Hname, ?Hh, ?Hn. reflexivity.
Qed.

(** the text of a ClientCutText message is skipped exactly, whatever its length and content *)
Theorem cuttext_skipped : forall s now n text rest,
  r_handler s = HCutText n -> len text = n -> r_buf s = text ++ rest ->
  handle s now = HOk [RCutText] (mk_rstate rest HProtocol 1 (r_pwreq s) (r_mouse s) (r_last s)).
Proof.
  intros s now n text rest Hh Hl Hb. unfold handle. subst n. rewrite Hh, Hb, take_app_exact. reflexivity.
Qed.
