(** C18 - a recorded script replays to the same input events (statements grow). *)
From Coq Require Import ZArith List Bool String.
From VD Require Import Base.Bytes Base.Text Gen.Tables Model.Recorder Model.Keys Model.Replay Proofs.ReplayP.
Import ListNotations.
Open Scope Z_scope.

(** Whatever name the recorder writes for a keysym - the reverse-map name or the raw character -
    the script reader's key decoding gives back exactly that keysym (all keysyms chr() accepts). *)
Theorem C18_key_name_decodes : forall key name,
  key_name key = Some name -> decode_key false false name = Some [key].
Proof. exact key_name_decodes. Qed.
Print Assumptions C18_key_name_decodes.

Example C18_key_name_decodes_nonvacuous :
  key_name 65293 = Some (text_of_ascii "enter") /\ key_name 35 = Some [35] /\ key_name 1114112 = None.
Proof. vm_compute. repeat split. Qed.
