(** C18 - a recorded script replays to the same input events. *)
From Coq Require Import ZArith List Bool Lia.
From VD Require Import Base.Bytes Base.Text Gen.Tables Model.Shlex Model.Command Model.Recorder Model.Keys Model.Replay.
From VD Require Import Proofs.CommandP Proofs.ReplayP Proofs.LexP Proofs.RoundtripP.
Import ListNotations.
Open Scope Z_scope.

(** Whatever name the recorder writes for a keysym - the reverse-map name or the raw character -
    the script reader's key decoding gives back exactly that keysym (all keysyms chr() accepts). *)
Theorem C18_key_name_decodes : forall key name,
  key_name key = Some name -> decode_key false false name = Some [key].
Proof. exact key_name_decodes. Qed.
Print Assumptions C18_key_name_decodes.

(** shlex (posix, whitespace split, '#' comments, quotes, backslash escapes) reads back exactly the
    text that shlex.quote wrote - for EVERY text: quotes, backslash, hash, blanks, newlines included. *)
Theorem C18_quote_reads_back : forall s rest acc,
  lex (quote s ++ 32 :: rest) LSpace [] false acc = lex rest LSpace [] false (acc ++ [s]).
Proof. exact lex_quote. Qed.
Print Assumptions C18_quote_reads_back.

(** The pause the recorder prints ("%.4f" of a non-negative gap) is a number Python's float() accepts. *)
Theorem C18_pause_is_a_number : forall t, 0 <= t -> py_float_ok (fmt4 t) = true.
Proof. exact fmt4_is_float. Qed.
Print Assumptions C18_pause_is_a_number.

(** A whole recorded session is tokenised into exactly the words of its commands. *)
Theorem C18_script_tokens : forall evs mouse last script rest acc,
  wf_session last evs -> record_all mouse last evs = Some script ->
  lex (script ++ rest) LSpace [] false acc = lex rest LSpace [] false (acc ++ flat_map render (script_cmds mouse last evs)).
Proof. exact script_tokens. Qed.
Print Assumptions C18_script_tokens.

(** The loop closes: for every session of key events over keysyms the recorder can name and pointer
    events over any positions and masks, with non-decreasing times - what vnclog wrote, tokenised by
    shlex, compiled by build_command_list and run through the key decoding, is the original sequence:
    the same key presses and releases (same keysyms, same order), the same pointer moves, one click per
    held button, and pauses carrying exactly the recorded gaps (divided by warp by the compiler, C10/C08). *)
Theorem C18_roundtrip : forall evs, wf_session 0 evs -> Replay.roundtrip evs = Some (expected None 0 evs).
Proof. exact roundtrip_ok. Qed.
Print Assumptions C18_roundtrip.

Example C18_key_name_decodes_nonvacuous :
  key_name 65293 = Some [101; 110; 116; 101; 114] /\ key_name 35 = Some [35] /\ key_name 1114112 = None.
Proof. vm_compute. repeat split. Qed.

Example C18_roundtrip_nonvacuous :
  wf_session 0 [IKey 5 1 35; IKey 9 0 39; IPtr 20 5 3 4; IKey 20 1 65293] /\
  Replay.roundtrip [IKey 5 1 35; IKey 9 0 39; IPtr 20 5 3 4; IKey 20 1 65293] =
  Some [RPause (fmt4 5); RKey true 35; RPause (fmt4 4); RKey false 39; RPause (fmt4 11); RMove 3 4; RClick 1; RClick 3;
        RPause (fmt4 0); RKey true 65293].
Proof. split; [cbn [wf_session]; repeat split; try lia; try discriminate|vm_compute; reflexivity]. Qed.
