(** C04 - Key commands put exactly the intended press/release events on the wire. *)
From Coq Require Import ZArith List Bool Lia String.
From VD Require Import Base.Bytes Base.Text Gen.Tables Model.ClientMsgs Model.Keys Model.ClientOps Spec.C2S Spec.X11.
From VD Require Import Proofs.C2SP Proofs.KeysP Proofs.ClientOpsP Gen.ExprsKeys Proofs.TieKeys Gen.DecodeKey Proofs.DecodeKeyTie.
Import ListNotations.
Open Scope Z_scope.

(** Typing a text (forced caps off): for each character in order a press then a release of
    that character's code point - for every text over all Unicode code points. *)
Theorem C04_type : forall s text,
  cs_force_caps s = false -> Forall (fun c => 0 <= c <= 1114111) text ->
  exists ws b,
    run_ops s (map (fun c => OKeyPress false [c]) text) = (s, ws) /\ cat_some ws = Some b /\
    parse_c2s b = Some (flat_map (fun c => [MKeyEvent 1 c; MKeyEvent 0 c]) text).
Proof. exact type_text. Qed.
Print Assumptions C04_type.

(** A chord "t1-t2-...-tn" of documented tokens (names of the key table, or single characters
    other than '-') presses the keys left to right and releases them in reverse order; keydown
    sends only the presses, keyup only the releases, in order. *)
Theorem C04_chord : forall u toks vals,
  toks <> [] -> Forall2 token toks vals -> Forall (fun v => 0 <= v <= 4294967295) vals ->
  let chord := join_with [DASH] toks in
  (exists w, keyPress false u chord = Some w /\
             parse_c2s w = Some (map (MKeyEvent 1) vals ++ map (MKeyEvent 0) (rev vals))) /\
  (exists w, keyDown false u chord = Some w /\ parse_c2s w = Some (map (MKeyEvent 1) vals)) /\
  (exists w, keyUp false u chord = Some w /\ parse_c2s w = Some (map (MKeyEvent 0) vals)).
Proof. exact chord_events. Qed.
Print Assumptions C04_chord.

(** The key table, as the running code sees it, binds every documented name to its X11 keysym
    and contains every documented name (finite: the whole table is enumerated). *)
Theorem C04_keymap_x11 : same_bindings KEYMAP_names DOCUMENTED = true.
Proof. vm_compute. reflexivity. Qed.
Print Assumptions C04_keymap_x11.

(** the two renderings of the table (names as strings / as code points) are the same table *)
Theorem C04_keymap_renderings :
  map (fun kv => (text_of_ascii (fst kv), snd kv)) KEYMAP_names = KEYMAP.
Proof. vm_compute. reflexivity. Qed.
Print Assumptions C04_keymap_renderings.

(** Forced caps wraps a single character in a ShiftLeft press/release exactly when it is
    upper case ([u] is str.isupper of it) or one of the shifted US symbols. *)
Theorem C04_force_caps : forall u c,
  c <> DASH -> 0 <= c <= 1114111 ->
  decode_key true u [c] = Some (if u || mem_Z c SPECIAL_KEYS_US then [XK_Shift_L; c] else [c]) /\
  exists w, keyPress true u [c] = Some w /\
    parse_c2s w = Some (if u || mem_Z c SPECIAL_KEYS_US
                        then [MKeyEvent 1 XK_Shift_L; MKeyEvent 1 c; MKeyEvent 0 c; MKeyEvent 0 XK_Shift_L]
                        else [MKeyEvent 1 c; MKeyEvent 0 c]).
Proof. exact force_caps_events. Qed.
Print Assumptions C04_force_caps.

(** Every key event is the 8 bytes 04 dd 00 00 kk kk kk kk. *)
Theorem C04_wellformed : forall key down,
  0 <= down <= 1 -> 0 <= key <= 4294967295 ->
  keyEvent key down = Some ([4; down; 0; 0] ++ be_enc 4 key) /\ List.length (be_enc 4 key) = 4%nat.
Proof.
  intros key down Hd Hk. split; [|apply Base.BytesP.be_enc_length].
  apply (layouts_fixed key down 0 0 0); lia.
Qed.
Print Assumptions C04_wellformed.

Example C04_nonvacuous :
  Forall2 token [text_of_ascii "ctrl"; text_of_ascii "alt"; text_of_ascii "del"]
          [KEY_ControlLeft; KEY_AltLeft; KEY_Delete].
Proof. repeat constructor; apply T_name; vm_compute; reflexivity. Qed.

(** The order of presses and releases of the model is the source's own ([Gen/Exprs*.v]): keyPress walks the decoded keys
    forwards with down=True and then backwards with down=False, keyDown / keyUp walk them once - as read from the loops
    of client.py on every run. *)
Theorem C04_key_passes_are_source : forall fc up key,
  keyPress fc up key = (match decode_key fc up key with None => None | Some keys => run_passes gen_keyPress_passes keys end) /\
  keyDown fc up key = (match decode_key fc up key with None => None | Some keys => run_passes gen_keyDown_passes keys end) /\
  keyUp fc up key = (match decode_key fc up key with None => None | Some keys => run_passes gen_keyUp_passes keys end).
Proof. exact key_passes_are_source. Qed.
Print Assumptions C04_key_passes_are_source.

(** The key decoding of the model is the source's own: [gen_decode_key] is regenerated from the text of
    VNCDoToolClient._decodeKey on every run (gen/server.py: the forced-caps wrap with its `"shift-%c" % key`, the
    single-character test, the split at '-', `KEYMAP.get(k) or ord(k)` per name) and equals the model for every key. *)
Theorem C04_decode_key_is_source : forall fc up key, gen_decode_key fc up key = decode_key fc up key.
Proof. exact decode_key_is_source. Qed.
Print Assumptions C04_decode_key_is_source.
