(** C10 - Command-line scripts compile to exactly the operations written, or to nothing. *)
From Coq Require Import ZArith List Bool Lia String.
From VD Require Import Base.Bytes Base.Text Model.Server Proofs.ServerP Model.Shlex Model.Command Proofs.CommandP Proofs.CommandErrP.
Import ListNotations.
Open Scope Z_scope.

(** Every well-formed sequence of commands - any alias of each word, any key/text/file
    arguments, any non-negative integers, any float tokens Python accepts, capture files with a
    supported extension - compiles to exactly the corresponding operations, in order. *)
Theorem C10_roundtrip : forall cmds fuel f,
  Forall wf_scmd cmds -> (List.length cmds < fuel)%nat ->
  compile fuel f false (flat_map render cmds) [] = COk (flat_map denote cmds).
Proof. exact roundtrip. Qed.
Print Assumptions C10_roundtrip.

(** Naming a script file is equivalent to writing its shell-style tokenised contents in its
    place (nested files by repeated application; the fuel bounds the nesting). *)
Theorem C10_file_splice : forall fuel f name content toks rest acc,
  is_command name = false -> f name = Some content -> shlex_split content = inr toks ->
  compile (S fuel) f false (name :: rest) acc = compile fuel f false (toks ++ rest) acc.
Proof. exact file_splice. Qed.
Print Assumptions C10_file_splice.

(** A word that is neither a command nor an existing file is rejected - whatever follows it. *)
Theorem C10_reject_unknown : forall fuel f delay cmd rest acc,
  is_command cmd = false -> f cmd = None ->
  compile (S fuel) f delay (cmd :: rest) acc = CErr (EUnknown cmd) acc.
Proof. exact reject_unknown. Qed.
Print Assumptions C10_reject_unknown.

(** A capture file with an unsupported extension is rejected. *)
Theorem C10_reject_format : forall fuel f delay file rest acc,
  supported_format (extension file) = false ->
  compile (S fuel) f delay (w "capture" :: file :: rest) acc = CErr (EFormat (extension file)) acc.
Proof. exact reject_capture_format. Qed.
Print Assumptions C10_reject_format.

(** "A script containing such an error executes nothing": after ANY number of well-formed
    commands, an unknown word (or a capture file with an unsupported extension), whatever
    follows it, makes the whole compilation an error - never the operations of the prefix.
    ([CErr]'s second field is what had been registered when the error was met; the caller
    gets the error, not a list.) *)
Theorem C10_unknown_word_anywhere : forall cmds f fuel bad rest,
  Forall wf_scmd cmds -> (List.length cmds < fuel)%nat ->
  is_command bad = false -> f bad = None ->
  compile fuel f false (flat_map render cmds ++ bad :: rest) [] = CErr (EUnknown bad) (flat_map denote cmds).
Proof. exact unknown_word_after_prefix. Qed.
Print Assumptions C10_unknown_word_anywhere.

Theorem C10_bad_capture_anywhere : forall cmds f fuel file rest,
  Forall wf_scmd cmds -> (List.length cmds < fuel)%nat ->
  supported_format (extension file) = false ->
  compile fuel f false (flat_map render cmds ++ w "capture" :: file :: rest) [] =
    CErr (EFormat (extension file)) (flat_map denote cmds).
Proof. exact bad_capture_after_prefix. Qed.
Print Assumptions C10_bad_capture_anywhere.

Theorem C10_error_scripts_yield_no_operations : forall cmds f fuel bad file rest ops,
  Forall wf_scmd cmds -> (List.length cmds < fuel)%nat ->
  (is_command bad = false /\ f bad = None ->
     compile fuel f false (flat_map render cmds ++ bad :: rest) [] <> COk ops) /\
  (supported_format (extension file) = false ->
     compile fuel f false (flat_map render cmds ++ w "capture" :: file :: rest) [] <> COk ops).
Proof. exact error_scripts_yield_no_operations. Qed.
Print Assumptions C10_error_scripts_yield_no_operations.

(** the near misses of the repaired defect (fix c0c8a41): substrings of "drag" are not commands *)
Example C10_drag_substrings :
  forallb (fun s => negb (is_command (w s))) [""; "d"; "r"; "a"; "g"; "dr"; "ra"; "ag"; "dra"; "rag"]%string = true /\
  is_command (w "drag") = true.
Proof. split; vm_compute; reflexivity. Qed.

Example C10_nonvacuous :
  Forall wf_scmd [SKey 0 (w "ctrl-c"); SMove 1 (w "10") (w "20"); SCapture (w "shot.png"); SPause 0 (w "1.5"); SType (w "hi")].
Proof. repeat constructor; try (vm_compute; reflexivity); vm_compute; intuition discriminate. Qed.
