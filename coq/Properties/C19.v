(** C19 - Everything the client sends is a well-formed RFB client message.
    Only statements; the proofs live in Proofs/. *)
From Coq Require Import ZArith List Bool Lia.
From VD Require Import Base.Bytes Base.PixFmt Model.ClientMsgs Model.Pointer Model.ClientOps Spec.C2S.
From VD Require Import Proofs.C2SP Proofs.PointerP Proofs.ClientOpsP Proofs.FramingP.
Import ListNotations.
Open Scope Z_scope.

(** For every finite sequence of library operations whose arguments are in range
    ([ops_spec], Proofs/ClientOpsP.v: coordinates/sizes 0..65535, keysyms < 2^32, buttons 1..8,
    Latin-1 text, any list of 32-bit encodings, any pixel format with in-range fields), no
    operation raises, and the concatenation of everything written parses, by the RFC 6143 §7.5
    parser, into exactly the messages the operations stand for, in order. *)
Theorem C19_stream_parses : forall s ops s' ms,
  ops_spec s ops s' ms ->
  exists ws b, run_ops s ops = (s', ws) /\ cat_some ws = Some b /\ parse_c2s b = Some ms.
Proof.
  intros s ops s' ms H. destruct (run_ops_spec s ops s' ms H) as (ws & b & E & C & P).
  exists ws, b. repeat split; try assumption. apply Parses_sound; exact P.
Qed.
Print Assumptions C19_stream_parses.

(** Pasted text arrives as its Latin-1 bytes behind the exact 32-bit length. *)
Theorem C19_paste_latin1 : forall t,
  Forall (fun c => 0 <= c < 256) t -> len t < 4294967296 ->
  exists w, clientCutText t = Some w /\ parse_c2s w = Some [MClientCutText t].
Proof.
  intros t H L. destruct (cutText_parses t H L) as (w & E & P).
  exists w; split; [exact E|apply Parses_sound; exact P].
Qed.
Print Assumptions C19_paste_latin1.

(** Key and pointer events are exactly 8 and 6 bytes with the RFC layout. *)
Theorem C19_fixed_layouts : forall key down x y mask,
  0 <= down <= 255 -> 0 <= key <= 4294967295 -> 0 <= mask <= 255 -> 0 <= x <= 65535 -> 0 <= y <= 65535 ->
  keyEvent key down = Some ([4; down; 0; 0] ++ be_enc 4 key) /\
  pointerEvent x y mask = Some ([5; mask] ++ be_enc 2 x ++ be_enc 2 y).
Proof. exact layouts_fixed. Qed.
Print Assumptions C19_fixed_layouts.

(** "The server's parser can never lose message framing": however a run of in-range operations
    is cut into the operations so far and the rest, the bytes written so far are whole messages
    (exactly those of the operations so far), the rest likewise, and the stream is their
    concatenation - at no operation boundary is a reader left inside a message. *)
Theorem C19_framing_at_every_boundary : forall s o1 o2 s' ms,
  ops_spec s (o1 ++ o2) s' ms ->
  exists sm m1 m2 ws1 b1 ws2 b2,
    run_ops s o1 = (sm, ws1) /\ cat_some ws1 = Some b1 /\ parse_c2s b1 = Some m1 /\
    run_ops sm o2 = (s', ws2) /\ cat_some ws2 = Some b2 /\ parse_c2s b2 = Some m2 /\
    ms = m1 ++ m2 /\
    run_ops s (o1 ++ o2) = (s', ws1 ++ ws2) /\ cat_some (ws1 ++ ws2) = Some (b1 ++ b2) /\
    parse_c2s (b1 ++ b2) = Some (m1 ++ m2).
Proof. exact framing_at_every_boundary. Qed.
Print Assumptions C19_framing_at_every_boundary.

(** The reading is the only one: the executable parser finds exactly the readings the RFC grammar
    (the relation [Parses]: one message, then the rest) admits, so whatever message list an RFC
    reader finds in the stream of an in-range run is the list the operations stand for. *)
Theorem C19_parser_is_the_grammar : forall b ms, parse_c2s b = Some ms <-> Parses b ms.
Proof. intros b ms; split; [apply Parses_complete|apply Parses_sound]. Qed.
Print Assumptions C19_parser_is_the_grammar.

Theorem C19_reading_unique : forall s ops s' ms,
  ops_spec s ops s' ms ->
  forall ws b ms', run_ops s ops = (s', ws) -> cat_some ws = Some b -> Parses b ms' -> ms' = ms.
Proof. exact run_reading_unique. Qed.
Print Assumptions C19_reading_unique.

(** A stream that parses can be cut into two readable halves only at a message boundary: if a
    prefix reads as [ma], the whole reads as [ma] followed by a reading of the remainder. *)
Theorem C19_cut_only_at_boundaries : forall a ma b ms,
  Parses a ma -> Parses (a ++ b) ms -> exists mb, Parses b mb /\ ms = ma ++ mb.
Proof. intros a ma b ms; apply Parses_prefix. Qed.
Print Assumptions C19_cut_only_at_boundaries.

(** non-vacuity: a concrete mixed history meets the hypotheses *)
Example C19_nonvacuous :
  let s := mk_cstate ptr0 640 480 false false in
  exists s' ms, ops_spec s [OPaste [104; 105; 233]; OMove 3 4; ODown 1; ORefresh 0; OSetEnc [0; -239]] s' ms.
Proof.
  cbv zeta. do 2 eexists.
  econstructor; [apply S_paste; [repeat constructor; lia|cbn; lia]|].
  econstructor; [apply (S_move _ ss0); [apply Rel0|lia|lia]|].
  econstructor; [apply (S_down _ (mk_ss 3 4 none_held)); [unfold Rel; cbn; repeat split; lia|lia]|].
  econstructor; [apply S_refresh; unfold rng; cbn; lia|].
  econstructor; [apply S_setenc; [repeat constructor; unfold rng; lia|cbn; lia]|].
  constructor.
Qed.
