(** C19 - everything the client sends is a well-formed RFB client message (placeholder, grows) *)
From Coq Require Import ZArith List Bool.
From VD Require Import Base.Bytes Model.ClientMsgs Spec.C2S Proofs.C2SP.
Import ListNotations.
Open Scope Z_scope.

Theorem C19_keyEvent : forall key down,
  0 <= down <= 255 -> 0 <= key <= 4294967295 ->
  exists w, keyEvent key down = Some w /\ parse_c2s w = Some [MKeyEvent down key].
Proof.
  intros key down Hd Hk. destruct (keyEvent_parses key down Hd Hk) as (w & E & P).
  exists w. split; [exact E|apply Parses_sound; exact P].
Qed.
Print Assumptions C19_keyEvent.
