(** C11 - the synchronous API runs calls in order and gives each call its own outcome. *)
From Coq Require Import ZArith List Bool.
From VD Require Import Model.Api Proofs.ApiP.
Import ListNotations.
Open Scope Z_scope.

(** For every operation table (fast, slow, failing operations in any mix), every number of calls and
    EVERY schedule of the application thread, the reactor thread, the connection attempt and the
    operations' completions: the calls return in the order they were made, and call #i returns or
    raises exactly the outcome of operation #i - or the connection failure if the connection could
    not be established.  In particular a failing call changes nothing for later calls. *)
Theorem C11_own_outcome_in_order : forall ops ncalls evs,
  let s := arun ops ncalls evs in
  map fst (a_delivered s) = seq 0 (a_next s) /\
  forall i r, In (i, r) (a_delivered s) -> r = expected ops (a_conn s) i.
Proof. exact own_outcome_in_order. Qed.
Print Assumptions C11_own_outcome_in_order.

(** Calls execute one at a time: an operation runs only while its own caller is blocked on it, and the
    hand-over queue never holds more than that caller's result (two proxies are two such machines
    sharing nothing, so they cannot exchange results). *)
Theorem C11_one_at_a_time : forall ops ncalls evs,
  let s := arun ops ncalls evs in
  (length (a_queue s) <= 1)%nat /\ (forall i, a_running s = Some i -> i = a_next s /\ a_waiting s = true).
Proof. exact one_at_a_time. Qed.
Print Assumptions C11_one_at_a_time.

(** If the connection could not be established a call is answered with the failure as soon as it
    reaches the reactor: it raises instead of blocking. *)
Theorem C11_connect_failure_raises : forall ops ncalls nx dl,
  a_queue (astep ops ncalls (mk_a CFailed [] None [nx] [] nx true dl) ReactorThunk) = [NOT_CONNECTED].
Proof. exact connect_failure_answers. Qed.
Print Assumptions C11_connect_failure_raises.

(** non-vacuity: a failing call between two good ones, the connection coming up late *)
Example C11_example :
  let ops := fun i => match i with 0%nat => Sync 7 | 1%nat => Async (-8) | _ => Sync 9 end in
  a_delivered (arun ops 3 [AppIssue; ReactorThunk; ConnUp; AppTake; AppIssue; ReactorThunk; OpComplete; AppTake;
                           AppIssue; ReactorThunk; AppTake])
  = [(0%nat, 7); (1%nat, -8); (2%nat, 9)].
Proof. reflexivity. Qed.
