(** C06 - A screen capture is a complete, current, whole-desktop snapshot. *)
From Coq Require Import ZArith List Bool Lia.
From VD Require Import Base.Bytes Model.Engine Model.ClientMsgs Model.Rfb Proofs.CaptureP.
Import ListNotations.
Open Scope Z_scope.

(** The request of a capture names the whole desktop as last announced: after ServerInit the
    size is ServerInit's, after a DesktopSize rectangle it is that rectangle's (fix 2c2a6ec). *)
Theorem C06_request_geometry : forall s p buf inc,
  0 <= width s ->
  op_capture (CRun (Idle s p buf)) inc =
    match framebufferUpdateRequest inc 0 0 (width s) (height s) with
    | Some b => ([EWrite b], CRun (Idle (set_waiter s true) p buf))
    | None => ([], CRun Crashed)
    end.
Proof. exact capture_request. Qed.
Print Assumptions C06_request_geometry.

Theorem C06_desktopsize_updates_geometry : forall s b x y w h,
  unpackZ Gen.Formats.fmt_rfb_RFBClient_handleRectangle_0 b = Some [x; y; w; h; Gen.Tables.ENC_PSEUDO_DESKTOP_SIZE] ->
  rects s <> 0 ->
  exists s' p' es, step s PRect b = Ok s' p' (EDesktopSize w h :: es) /\ width s' = w /\ height s' = h.
Proof. exact desktopsize_geometry. Qed.
Print Assumptions C06_desktopsize_updates_geometry.


(** For every run of the client's expect loop, on any bytes from any state (all encodings, all
    chunkings by C01): an image is saved only immediately after a commit - hence only when an update has
    been applied in full, never between beginUpdate and commitUpdate and never on a Bell / cut text /
    colour map -, at most one image per waiting capture, none if no capture waits, and the waiter is
    cleared exactly when it was served. *)
From VD Require Import Proofs.SaveP.

Theorem C06_save_only_at_commit : forall s p buf es r n,
  Drain s p buf es r n ->
  saves_at_commits false es = true /\
  (count_save es <= (if waiter s then 1 else 0))%nat /\
  match r with
  | Idle s' _ _ => waiter s' = (waiter s && Nat.eqb (count_save es) 0)
  | Crashed => True
  end.
Proof. exact drain_saves. Qed.
Print Assumptions C06_save_only_at_commit.

(** every single handler: a save, if any, is the last event and follows a commit *)
Theorem C06_handler_saves : forall s p b, sres (waiter s) (step s p b).
Proof. exact step_saves. Qed.
Print Assumptions C06_handler_saves.
