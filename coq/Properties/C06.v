(** C06 - A screen capture is a complete, current, whole-desktop snapshot. *)
From Coq Require Import ZArith List Bool Lia.
From VD Require Import Base.Bytes Model.Engine Model.ClientMsgs Model.Rfb Proofs.CaptureP.
Import ListNotations.
Open Scope Z_scope.

(** The request of a capture names the whole desktop as last announced: after ServerInit the
    size is ServerInit's, after a DesktopSize rectangle it is that rectangle's (fix 2c2a6ec). *)
Theorem C06_request_geometry : forall s p buf inc,
  0 <= width s ->
  op_capture (CRun (Idle s p buf)) inc =
    match framebufferUpdateRequest inc 0 0 (width s) (height s) with
    | Some b => ([EWrite b], CRun (Idle (set_waiter s true) p buf))
    | None => ([], CRun Crashed)
    end.
Proof. exact capture_request. Qed.
Print Assumptions C06_request_geometry.

Theorem C06_desktopsize_updates_geometry : forall s b x y w h,
  unpackZ Gen.Formats.fmt_rfb_RFBClient_handleRectangle_0 b = Some [x; y; w; h; Gen.Tables.ENC_PSEUDO_DESKTOP_SIZE] ->
  rects s <> 0 ->
  exists s' p' es, step s PRect b = Ok s' p' (EDesktopSize w h :: es) /\ width s' = w /\ height s' = h.
Proof. exact desktopsize_geometry. Qed.
Print Assumptions C06_desktopsize_updates_geometry.

