(** C13 - Client and server always agree on pixel format and encodings. *)
From Coq Require Import ZArith List Bool Lia.
From VD Require Import Base.Bytes Base.PixFmt Base.Text Gen.Tables Model.Engine Model.ClientMsgs Model.Rfb Model.Image.
From VD Require Import Gen.ExprsEncodings Proofs.TieEncodings.
From VD Require Import Proofs.FormatP.
Import ListNotations.
Open Scope Z_scope.

(** Format in force after the session is established (library / CLI / VMware clients), for every
    pixel format the server can announce and every server version: the format and the image
    mode are an entry of PF2IM; it is the native format with nothing written if that is
    renderable, otherwise exactly one SetPixelFormat of RGB32 - BGR16 for Apple's 3.889 - is
    written before SetEncodings. *)
Theorem C13_format_in_force : forall s,
  c_variant (cf s) <> 0 -> In (c_encoding (cf s)) SUPPORTED_ENCODINGS ->
  exists s' es, connection_made s = (s', Some es) /\
    In (pf s', imode s') PF2IM /\
    ((lookup_mode (pf s) <> None /\ pf s' = pf s /\
      exists enc, setEncodings (encodings_of (cf s)) = Some enc /\
                  es = [EMade; EMode (imode s'); EWrite enc; EConnected]) \/
     (lookup_mode (pf s) = None /\
      pf s' = (if (fst (ver_server s) =? 3) && (snd (ver_server s) =? 889) then BGR16 else RGB32) /\
      exists spf enc, setPixelFormat (pf s') = Some spf /\ setEncodings (encodings_of (cf s)) = Some enc /\
                      es = [EMade; EWrite spf; EMode (imode s'); EWrite enc; EConnected])).
Proof. exact format_in_force. Qed.
Print Assumptions C13_format_in_force.

(** Encodings advertised: the preferred real encoding first, then the cursor, desktop-size,
    last-rect and extended-key pseudo-encodings exactly as the options say; all of them
    decodable when the preferred one is. *)
Theorem C13_encodings : forall c,
  encodings_of c =
    [c_encoding c]
    ++ (if c_pseudocursor c || c_nocursor c then [ENC_PSEUDO_CURSOR] else [])
    ++ (if c_pseudodesktop c then [ENC_PSEUDO_DESKTOP_SIZE] else [])
    ++ (if c_last_rect c then [ENC_PSEUDO_LAST_RECT] else [])
    ++ (if c_qemu c then [ENC_PSEUDO_QEMU_EXTENDED_KEY_EVENT] else []) /\
  (In (c_encoding c) SUPPORTED_ENCODINGS -> forall e, In e (encodings_of c) -> In e SUPPORTED_ENCODINGS).
Proof. exact encodings_advertised. Qed.
Print Assumptions C13_encodings.

(** Channels: for every accepted format of PF2IM and EVERY pixel value of that format, decoding
    the pixel's wire bytes in the associated image mode yields the red, green and blue fields the
    format defines ((v >> shift) & max, scaled to 0..255 by floor(c*255/max)). *)
Theorem C13_channels : forall p m v,
  In (p, m) PF2IM -> 0 <= v < 2 ^ pf_bpp p ->
  decode_pixels m 1 (le_enc (Z.to_nat (pf_bypp p)) v) =
    [(chan v (pf_rshift p) (pf_rmax p), chan v (pf_gshift p) (pf_gmax p), chan v (pf_bshift p) (pf_bmax p))].
Proof. exact channels. Qed.
Print Assumptions C13_channels.

(** The list of the model is the source's own: [gen_encodings] is regenerated from vncConnectionMade on every run
    (gen/exprs.py: the preferred encoding first, then one conditional append per option, in the source's order). *)
Theorem C13_encodings_are_source : forall c,
  encodings_of c = gen_encodings (c_encoding c) (c_pseudocursor c) (c_nocursor c) (c_pseudodesktop c) (c_last_rect c) (c_qemu c).
Proof. exact encodings_are_source. Qed.
Print Assumptions C13_encodings_are_source.
