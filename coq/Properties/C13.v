(** C13 - Client and server always agree on pixel format and encodings. *)
From Coq Require Import ZArith List Bool Lia.
From VD Require Import Base.Bytes Base.PixFmt Base.Text Gen.Tables Model.Engine Model.ClientMsgs Model.Rfb Model.Image.
From VD Require Import Gen.ExprsEncodings Proofs.TieEncodings.
From VD Require Import Proofs.FormatP Proofs.ClientOpsP Proofs.PixFmtWireP Spec.C2S.
Import ListNotations.
Open Scope Z_scope.

(** Format in force after the session is established (library / CLI / VMware clients), for every
    pixel format the server can announce and every server version: the format and the image
    mode are an entry of PF2IM; it is the native format with nothing written if that is
    renderable, otherwise exactly one SetPixelFormat of RGB32 - BGR16 for Apple's 3.889 - is
    written before SetEncodings. *)
Theorem C13_format_in_force : forall s,
  c_variant (cf s) <> 0 -> In (c_encoding (cf s)) SUPPORTED_ENCODINGS ->
  exists s' es, connection_made s = (s', Some es) /\
    In (pf s', imode s') PF2IM /\
    ((lookup_mode (pf s) <> None /\ pf s' = pf s /\
      exists enc, setEncodings (encodings_of (cf s)) = Some enc /\
                  es = [EMade; EMode (imode s'); EWrite enc; EConnected]) \/
     (lookup_mode (pf s) = None /\
      pf s' = (if (fst (ver_server s) =? 3) && (snd (ver_server s) =? 889) then BGR16 else RGB32) /\
      exists spf enc, setPixelFormat (pf s') = Some spf /\ setEncodings (encodings_of (cf s)) = Some enc /\
                      es = [EMade; EWrite spf; EMode (imode s'); EWrite enc; EConnected])).
Proof. exact format_in_force. Qed.
Print Assumptions C13_format_in_force.

(** Encodings advertised: the preferred real encoding first, then the cursor, desktop-size,
    last-rect and extended-key pseudo-encodings exactly as the options say; all of them
    decodable when the preferred one is. *)
Theorem C13_encodings : forall c,
  encodings_of c =
    [c_encoding c]
    ++ (if c_pseudocursor c || c_nocursor c then [ENC_PSEUDO_CURSOR] else [])
    ++ (if c_pseudodesktop c then [ENC_PSEUDO_DESKTOP_SIZE] else [])
    ++ (if c_last_rect c then [ENC_PSEUDO_LAST_RECT] else [])
    ++ (if c_qemu c then [ENC_PSEUDO_QEMU_EXTENDED_KEY_EVENT] else []) /\
  (In (c_encoding c) SUPPORTED_ENCODINGS -> forall e, In e (encodings_of c) -> In e SUPPORTED_ENCODINGS).
Proof. exact encodings_advertised. Qed.
Print Assumptions C13_encodings.

(** Channels: for every accepted format of PF2IM and EVERY pixel value of that format, decoding
    the pixel's wire bytes in the associated image mode yields the red, green and blue fields the
    format defines ((v >> shift) & max, scaled to 0..255 by floor(c*255/max)). *)
Theorem C13_channels : forall p m v,
  In (p, m) PF2IM -> 0 <= v < 2 ^ pf_bpp p ->
  decode_pixels m 1 (le_enc (Z.to_nat (pf_bypp p)) v) =
    [(chan v (pf_rshift p) (pf_rmax p), chan v (pf_gshift p) (pf_gmax p), chan v (pf_bshift p) (pf_bmax p))].
Proof. exact channels. Qed.
Print Assumptions C13_channels.

(** The list of the model is the source's own: [gen_encodings] is regenerated from vncConnectionMade on every run
    (gen/exprs.py: the preferred encoding first, then one conditional append per option, in the source's order). *)
Theorem C13_encodings_are_source : forall c,
  encodings_of c = gen_encodings (c_encoding c) (c_pseudocursor c) (c_nocursor c) (c_pseudodesktop c) (c_last_rect c) (c_qemu c).
Proof. exact encodings_are_source. Qed.
Print Assumptions C13_encodings_are_source.

(** The 16-byte block on the wire ('!BB??HHHBBBxxx'): EVERY block of sixteen bytes a server can
    announce is read as a format with in-range fields and 0/1 flags; a string of any other length
    is not read at all; and a format written by to_bytes is read back by from_bytes exactly - in
    particular the block inside the SetPixelFormat the client writes reads back as the format
    the client then interprets pixel data in. *)
Theorem C13_every_announced_block_is_read : forall a b c d e1 e0 f1 f0 g1 g0 h i j x y z,
  Forall (fun v => 0 <= v <= 255) [a; b; c; d; e1; e0; f1; f0; g1; g0; h; i; j; x; y; z] ->
  exists p, pf_from_bytes [a; b; c; d; e1; e0; f1; f0; g1; g0; h; i; j; x; y; z] = Some p /\
            pf_ok p /\ flag (pf_bigendian p) /\ flag (pf_truecolor p).
Proof. exact pf_every_block_parses. Qed.
Print Assumptions C13_every_announced_block_is_read.

Theorem C13_block_length : forall b, List.length b <> 16%nat -> pf_from_bytes b = None.
Proof. exact pf_wrong_length_rejected. Qed.
Print Assumptions C13_block_length.

Theorem C13_wire_roundtrip : forall p,
  pf_ok p -> flag (pf_bigendian p) -> flag (pf_truecolor p) ->
  exists pb, pf_to_bytes p = Some pb /\ List.length pb = 16%nat /\ pf_from_bytes pb = Some p.
Proof. exact pf_wire_roundtrip. Qed.
Print Assumptions C13_wire_roundtrip.

Theorem C13_setPixelFormat_reads_back : forall p,
  pf_ok p -> flag (pf_bigendian p) -> flag (pf_truecolor p) ->
  exists w pb, setPixelFormat p = Some w /\ parse_c2s w = Some [MSetPixelFormat pb] /\
               pf_from_bytes pb = Some p.
Proof. exact setPixelFormat_reads_back. Qed.
Print Assumptions C13_setPixelFormat_reads_back.

(** non-vacuity: the two formats the client ever announces meet the hypotheses *)
Example C13_announced_formats_ok :
  pf_ok RGB32 /\ flag (pf_bigendian RGB32) /\ flag (pf_truecolor RGB32) /\
  pf_ok BGR16 /\ flag (pf_bigendian BGR16) /\ flag (pf_truecolor BGR16).
Proof. unfold pf_ok, C2SP.rng, flag; cbn; repeat split; try lia; auto. Qed.
