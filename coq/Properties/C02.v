(** C02 - every supported encoding reproduces the server framebuffer exactly: theorems for Raw and
    CopyRect rectangles and for the framing of whole updates (the other encodings are decided by the
    independent-encoder campaign; see DESIGN.md 9.2). *)
From Coq Require Import ZArith List Bool.
From RecordUpdate Require Import RecordSet.
Import RecordSetNotations.
From VD Require Import Base.Bytes Model.Engine Model.Rfb Proofs.DecodeP.
Import ListNotations.
Open Scope Z_scope.

Theorem C02_raw_step : forall s n x y w h b,
  upd_raises s w h (len b) = false ->
  step s (PRaw n x y w h) b = prepend [EUpd x y w h b] (do_connection s).
Proof. intros. cbn [step]. unfold upd. rewrite H. reflexivity. Qed.
Print Assumptions C02_raw_step.

(** Raw (RFC 6143 7.7.1), continuation form: header + w*h pixels are consumed exactly, exactly those
    bytes reach updateRectangle at (x, y), and the client goes on with the tail as the next
    rectangle / message - for every position, size, pixel content and every tail. *)
Theorem C02_raw_roundtrip : forall s x y w h px tail s2 p2 es2 es r n,
  u16ok x -> u16ok y -> u16ok w -> u16ok h -> rects s <> 0 ->
  let s1 := enter_rect s x y w h in
  len px = w * h * bypp s1 -> upd_raises s1 w h (len px) = false ->
  do_connection s1 = Ok s2 (Some p2) es2 ->
  Drain s2 p2 tail es r n ->
  Drain s PRect (rect_hdr x y w h [0; 0; 0; 0] ++ px ++ tail) ([EUpd x y w h px] ++ es2 ++ es) r (S (S n)).
Proof. exact raw_roundtrip. Qed.
Print Assumptions C02_raw_roundtrip.

(** CopyRect (7.7.2): exactly one copyRectangle(srcx, srcy, x, y, w, h). *)
Theorem C02_copyrect_roundtrip : forall s x y w h sx sy tail s2 p2 es2 es r n,
  u16ok x -> u16ok y -> u16ok w -> u16ok h -> u16ok sx -> u16ok sy -> rects s <> 0 ->
  let s1 := enter_rect s x y w h in
  do_connection s1 = Ok s2 (Some p2) es2 ->
  Drain s2 p2 tail es r n ->
  Drain s PRect (rect_hdr x y w h [0; 0; 0; 1] ++ (be_enc 2 sx ++ be_enc 2 sy) ++ tail)
        ([ECopy sx sy x y w h] ++ es2 ++ es) r (S (S n)).
Proof. exact copyrect_roundtrip. Qed.
Print Assumptions C02_copyrect_roundtrip.

(** A whole FramebufferUpdate of any number (1..65535) of such rectangles: beginUpdate, every
    rectangle's callback once and in order, exactly one commit listing the rectangles, and then the
    tail is read as the next message - i.e. exactly the update's bytes were consumed. *)
Theorem C02_update_framing : forall s pad rs tail es r n,
  rs <> [] -> len rs < 65536 -> Forall (rect_ok s) rs ->
  let sf := after_rects (start_update s (len rs)) rs in
  let '(sc, ces) := commit sf in
  Drain sc PConnection tail es r n ->
  Drain s PConnection ([0; pad] ++ be_enc 2 (len rs) ++ concat (map wire_rect rs) ++ tail)
        ([EBegin] ++ map rect_event rs ++ ces ++ es) r (2 + 2 * List.length rs + n).
Proof. exact update_roundtrip. Qed.
Print Assumptions C02_update_framing.

(** ... so a Bell that follows is seen exactly once, after the commit. *)
Theorem C02_bell_after : forall s tail es r n,
  Drain s PConnection tail es r n -> Drain s PConnection ([2] ++ tail) ([EBell] ++ es) r (S n).
Proof. exact bell_step. Qed.
Print Assumptions C02_bell_after.

From VD Require Import Base.PixFmt Gen.Tables Proofs.RreP Proofs.UpdateP.

(** RRE (7.7.3): the subrectangle count, the background pixel and (pixel, x, y, w, h) per subrectangle
    are consumed exactly; the client fills the rectangle with the background and then every
    subrectangle, in order, at the rectangle's offset - for every count (0 included), every position,
    size and colour, and every tail. *)
Theorem C02_rre_roundtrip : forall s x y w h bg subs tail s2 p2 es2 es r n,
  u16ok x -> u16ok y -> u16ok w -> u16ok h -> rects s <> 0 -> 0 <= bypp s ->
  let s1 := enter_rect s x y w h in
  len bg = bypp s -> len subs < 4294967296 -> Forall (sub16_ok (bypp s)) subs ->
  fill_ok s1 (x, y, w, h, bg) -> Forall (fill_ok s1) (map (sub_fill x y) subs) ->
  do_connection s1 = Ok s2 (Some p2) es2 ->
  Drain s2 p2 tail es r n ->
  Drain s PRect (wire_rre x y w h bg subs ++ tail)
        ([EFill x y w h bg] ++ map fill_ev (map (sub_fill x y) subs) ++ es2 ++ es) r
        (match subs with [] => 2 | _ => 3 end + n).
Proof. exact rre_roundtrip. Qed.
Print Assumptions C02_rre_roundtrip.

(** CoRRE: the same with one-byte subrectangle coordinates. *)
Theorem C02_corre_roundtrip : forall s x y w h bg subs tail s2 p2 es2 es r n,
  u16ok x -> u16ok y -> u16ok w -> u16ok h -> rects s <> 0 -> 0 <= bypp s ->
  let s1 := enter_rect s x y w h in
  len bg = bypp s -> len subs < 4294967296 -> Forall (sub8_ok (bypp s)) subs ->
  fill_ok s1 (x, y, w, h, bg) -> Forall (fill_ok s1) (map (sub_fill x y) subs) ->
  do_connection s1 = Ok s2 (Some p2) es2 ->
  Drain s2 p2 tail es r n ->
  Drain s PRect (wire_corre x y w h bg subs ++ tail)
        ([EFill x y w h bg] ++ map fill_ev (map (sub_fill x y) subs) ++ es2 ++ es) r
        (match subs with [] => 2 | _ => 3 end + n).
Proof. exact corre_roundtrip. Qed.
Print Assumptions C02_corre_roundtrip.

(** A whole FramebufferUpdate mixing Raw, CopyRect, RRE and CoRRE rectangles in any order. *)
Theorem C02_update_four_encodings : forall s pad rs tail es r n,
  rs <> [] -> len rs < 65536 -> 0 <= bypp s -> Forall (qok s) rs ->
  let sf := after_qrects (start_update s (len rs)) rs in
  let '(sc, ces) := commit sf in
  Drain sc PConnection tail es r n ->
  Drain s PConnection ([0; pad] ++ be_enc 2 (len rs) ++ concat (map qwire rs) ++ tail)
        ([EBegin] ++ concat (map qevents rs) ++ ces ++ es) r (2 + sum_steps rs + n).
Proof. exact qupdate_roundtrip. Qed.
Print Assumptions C02_update_four_encodings.

(** The premises are met: a library client on an RGB32 server, one update with an RRE rectangle of two
    subrectangles, a CoRRE rectangle without any, a Raw and a CopyRect rectangle. *)
Example C02_four_encodings_nonvacuous :
  let c := mk_cfg 1 1 None [] [] false false false false false 0 [] in
  let s := mk_st c None None (3, 8) (3, 8) 0 [] RGB32 MRGBX 8 8 false 0 0 [] [] [] false in
  let rs := [ QRre 1 1 4 4 [9; 9; 9; 0] [([1; 2; 3; 0], 0, 0, 2, 1); ([4; 5; 6; 0], 1, 2, 1, 1)];
              QCorre 0 0 2 2 [7; 7; 7; 0] [];
              QRaw 0 0 1 1 [1; 1; 1; 0];
              QCopy 2 2 1 1 0 0 ] in
  0 <= bypp s /\ Forall (qok s) rs /\ rs <> [] /\ len rs < 65536.
Proof.
  cbv zeta. split; [vm_compute; discriminate|]. split.
  - repeat constructor; vm_compute; try reflexivity; try (split; discriminate || reflexivity); intuition discriminate.
  - split; [discriminate|reflexivity].
Qed.
