(** C02 - placeholder statements (grow): consumption and event shape of the simplest encodings. *)
From Coq Require Import ZArith List Bool.
From VD Require Import Base.Bytes Model.Engine Model.Rfb.
Import ListNotations.
Open Scope Z_scope.

(** A Raw rectangle hands exactly its w*h*bypp bytes to updateRectangle at the position named,
    and continues with the next rectangle / message (library client: unless the data is too short
    for the image mode, which cannot happen for the formats it selects). *)
Theorem C02_raw_step : forall s n x y w h b,
  upd_raises s w h (len b) = false ->
  step s (PRaw n x y w h) b = prepend [EUpd x y w h b] (do_connection s).
Proof. intros. cbn [step]. unfold upd. rewrite H. reflexivity. Qed.
Print Assumptions C02_raw_step.
