(** C02 - every supported encoding reproduces the server framebuffer exactly: continuation-form round
    trips for Raw, CopyRect, RRE, CoRRE, Hextile and cursor-shape rectangles and for whole updates mixing
    them, and for ZRLE rectangles over the inflated tile stream. *)
From Coq Require Import ZArith List Bool.
From RecordUpdate Require Import RecordSet.
Import RecordSetNotations.
From VD Require Import Base.Bytes Model.Engine Model.Rfb Proofs.DecodeP Gen.ExprsTiles Proofs.HextileP Proofs.ZrleP Proofs.TieTiles.
Import ListNotations.
Open Scope Z_scope.

Theorem C02_raw_step : forall s n x y w h b,
  upd_raises s w h (len b) = false ->
  step s (PRaw n x y w h) b = prepend [EUpd x y w h b] (do_connection s).
Proof. intros. cbn [step]. unfold upd. rewrite H. reflexivity. Qed.
Print Assumptions C02_raw_step.

(** Raw (RFC 6143 7.7.1), continuation form: header + w*h pixels are consumed exactly, exactly those
    bytes reach updateRectangle at (x, y), and the client goes on with the tail as the next
    rectangle / message - for every position, size, pixel content and every tail. *)
Theorem C02_raw_roundtrip : forall s x y w h px tail s2 p2 es2 es r n,
  u16ok x -> u16ok y -> u16ok w -> u16ok h -> rects s <> 0 ->
  let s1 := enter_rect s x y w h in
  len px = w * h * bypp s1 -> upd_raises s1 w h (len px) = false ->
  do_connection s1 = Ok s2 (Some p2) es2 ->
  Drain s2 p2 tail es r n ->
  Drain s PRect (rect_hdr x y w h [0; 0; 0; 0] ++ px ++ tail) ([EUpd x y w h px] ++ es2 ++ es) r (S (S n)).
Proof. exact raw_roundtrip. Qed.
Print Assumptions C02_raw_roundtrip.

(** CopyRect (7.7.2): exactly one copyRectangle(srcx, srcy, x, y, w, h). *)
Theorem C02_copyrect_roundtrip : forall s x y w h sx sy tail s2 p2 es2 es r n,
  u16ok x -> u16ok y -> u16ok w -> u16ok h -> u16ok sx -> u16ok sy -> rects s <> 0 ->
  let s1 := enter_rect s x y w h in
  do_connection s1 = Ok s2 (Some p2) es2 ->
  Drain s2 p2 tail es r n ->
  Drain s PRect (rect_hdr x y w h [0; 0; 0; 1] ++ (be_enc 2 sx ++ be_enc 2 sy) ++ tail)
        ([ECopy sx sy x y w h] ++ es2 ++ es) r (S (S n)).
Proof. exact copyrect_roundtrip. Qed.
Print Assumptions C02_copyrect_roundtrip.

(** A whole FramebufferUpdate of any number (1..65535) of such rectangles: beginUpdate, every
    rectangle's callback once and in order, exactly one commit listing the rectangles, and then the
    tail is read as the next message - i.e. exactly the update's bytes were consumed. *)
Theorem C02_update_framing : forall s pad rs tail es r n,
  rs <> [] -> len rs < 65536 -> Forall (rect_ok s) rs ->
  let sf := after_rects (start_update s (len rs)) rs in
  let '(sc, ces) := commit sf in
  Drain sc PConnection tail es r n ->
  Drain s PConnection ([0; pad] ++ be_enc 2 (len rs) ++ concat (map wire_rect rs) ++ tail)
        ([EBegin] ++ map rect_event rs ++ ces ++ es) r (2 + 2 * List.length rs + n).
Proof. exact update_roundtrip. Qed.
Print Assumptions C02_update_framing.

(** ... so a Bell that follows is seen exactly once, after the commit. *)
Theorem C02_bell_after : forall s tail es r n,
  Drain s PConnection tail es r n -> Drain s PConnection ([2] ++ tail) ([EBell] ++ es) r (S n).
Proof. exact bell_step. Qed.
Print Assumptions C02_bell_after.

From VD Require Import Base.PixFmt Gen.Tables Proofs.RreP Proofs.HextileP Proofs.ZrleP Proofs.UpdateP.

(** RRE (7.7.3): the subrectangle count, the background pixel and (pixel, x, y, w, h) per subrectangle
    are consumed exactly; the client fills the rectangle with the background and then every
    subrectangle, in order, at the rectangle's offset - for every count (0 included), every position,
    size and colour, and every tail. *)
Theorem C02_rre_roundtrip : forall s x y w h bg subs tail s2 p2 es2 es r n,
  u16ok x -> u16ok y -> u16ok w -> u16ok h -> rects s <> 0 -> 0 <= bypp s ->
  let s1 := enter_rect s x y w h in
  len bg = bypp s -> len subs < 4294967296 -> Forall (sub16_ok (bypp s)) subs ->
  fill_ok s1 (x, y, w, h, bg) -> Forall (fill_ok s1) (map (sub_fill x y) subs) ->
  do_connection s1 = Ok s2 (Some p2) es2 ->
  Drain s2 p2 tail es r n ->
  Drain s PRect (wire_rre x y w h bg subs ++ tail)
        ([EFill x y w h bg] ++ map fill_ev (map (sub_fill x y) subs) ++ es2 ++ es) r
        (match subs with [] => 2 | _ => 3 end + n).
Proof. exact rre_roundtrip. Qed.
Print Assumptions C02_rre_roundtrip.

(** CoRRE: the same with one-byte subrectangle coordinates. *)
Theorem C02_corre_roundtrip : forall s x y w h bg subs tail s2 p2 es2 es r n,
  u16ok x -> u16ok y -> u16ok w -> u16ok h -> rects s <> 0 -> 0 <= bypp s ->
  let s1 := enter_rect s x y w h in
  len bg = bypp s -> len subs < 4294967296 -> Forall (sub8_ok (bypp s)) subs ->
  fill_ok s1 (x, y, w, h, bg) -> Forall (fill_ok s1) (map (sub_fill x y) subs) ->
  do_connection s1 = Ok s2 (Some p2) es2 ->
  Drain s2 p2 tail es r n ->
  Drain s PRect (wire_corre x y w h bg subs ++ tail)
        ([EFill x y w h bg] ++ map fill_ev (map (sub_fill x y) subs) ++ es2 ++ es) r
        (match subs with [] => 2 | _ => 3 end + n).
Proof. exact corre_roundtrip. Qed.
Print Assumptions C02_corre_roundtrip.

(** Hextile (7.7.4): the rectangle is cut into 16x16 tiles in row-major order ([covers]); a tile is raw
    pixels, or an optional background, optional foreground and subrectangles (in the foreground colour
    or each with its own), colours being carried over from earlier tiles as the RFC says, also across raw
    tiles (after coloured subrectangles the foreground is not relied upon).  Every tile is
    consumed exactly and gives one update (raw) or one background fill plus one fill per subrectangle,
    in order, at the tile's offset - for every rectangle size, every tile sequence that respects the
    carry-over rule ([tiles_ok]), every count (0 included) and every tail. *)
Theorem C02_hextile_roundtrip : forall s x y w h ts tail s2 p2 es2 es r n,
  u16ok x -> u16ok y -> u16ok w -> u16ok h -> 0 < w -> 0 < h -> rects s <> 0 -> 0 < bypp s ->
  let s1 := enter_rect s x y w h in
  covers x y w h ts x y -> tiles_ok s1 x y w h ts x y None None ->
  do_connection s1 = Ok s2 (Some p2) es2 ->
  Drain s2 p2 tail es r n ->
  Drain s PRect (wire_hextile x y w h ts ++ tail)
        (tiles_events x y w h ts x y None None ++ es2 ++ es) r (S (tiles_steps ts + n)).
Proof. exact hextile_roundtrip. Qed.
Print Assumptions C02_hextile_roundtrip.

(** ZRLE (7.7.6), 32-bit true-colour formats (3-byte CPIXELs).  zlib is an oracle: [ztape] is what the
    inflater returns for the rectangle's compressed bytes, whatever those are.  If that is the
    concatenation of the tiles of the rectangle - raw, solid, plain RLE, palette RLE (2..127 colours) and
    packed palette (2..16 colours) tiles, run lengths of any size - then the client makes exactly one
    update (fill for a solid tile) per 64x64 tile, in order, carrying exactly the tile's pixels.  Packed
    tiles are covered when their rows need no padding; for padded rows the statement is false of the code
    (next theorem). *)
Theorem C02_zrle_roundtrip : forall s x y w h comp ts tape' tail s2 p2 es2 es r n,
  u16ok x -> u16ok y -> u16ok w -> u16ok h -> rects s <> 0 -> len comp < 4294967296 ->
  ztape s = Some (concat (map wire_ztile ts)) :: tape' ->
  let s' := set ztape (fun _ => tape') (enter_rect s x y w h) in
  zcovers x y w h ts x y -> ztiles_ok s' x y w h ts x y ->
  do_connection s' = Ok s2 (Some p2) es2 ->
  Drain s2 p2 tail es r n ->
  Drain s PRect (rect_hdr x y w h [0; 0; 0; 16] ++ be_enc 4 (len comp) ++ comp ++ tail)
        (zevents x y w h ts x y ++ es2 ++ es) r (S (S (S n))).
Proof. exact zrle_roundtrip. Qed.
Print Assumptions C02_zrle_roundtrip.

(** The recorded finding zrle-packed-rows as a theorem about the model of the code as it is: a 3x2 tile
    with a two-colour palette written as the RFC says (each row padded to a byte) is decoded with wrong
    pixels in the second row and the client then raises. *)
Theorem C02_zrle_packed_padded_rows_refuted :
  let c := mk_cfg 1 1 None [] [] false false false false false 0 [] in
  let s := mk_st c None None (3, 8) (3, 8) 0 [] RGB32 MRGBX 8 8 false 0 0 [] [] [] false in
  let rows := [[1; 0; 1]; [0; 1; 1]] in
  let data := [2] ++ [10; 20; 30] ++ [40; 50; 60] ++ rfc_pack_rows1 rows in
  let meant := colours [(10, 20, 30); (40, 50, 60)] (concat rows) in
  rfc_pack_rows1 rows = [160; 96] /\
  (exists got, zrle_tiles 10 s data 0 0 3 2 0 0 = Raise [EUpd 0 0 3 2 got] /\ got <> meant).
Proof. exact zrle_packed_padded_rows_refuted. Qed.
Print Assumptions C02_zrle_packed_padded_rows_refuted.

(** Cursor pseudo-encoding (7.8.1): exactly one updateCursor with the image and the mask split where the
    RFC says. *)
Theorem C02_cursor_roundtrip : forall s x y w h img mask tail s2 p2 es2 es r n,
  u16ok x -> u16ok y -> u16ok w -> u16ok h -> rects s <> 0 ->
  let s1 := enter_rect s x y w h in
  len img = w * h * bypp s1 -> len mask = (w + 7) / 8 * h ->
  do_connection s1 = Ok s2 (Some p2) es2 ->
  Drain s2 p2 tail es r n ->
  Drain s PRect (rect_hdr x y w h CURSOR_ENC ++ (img ++ mask) ++ tail) ([ECursor x y w h img mask] ++ es2 ++ es) r (S (S n)).
Proof. exact cursor_roundtrip. Qed.
Print Assumptions C02_cursor_roundtrip.

(** A whole FramebufferUpdate mixing Raw, CopyRect, RRE, CoRRE, Hextile and cursor-shape rectangles in any
    order (every encoding the client supports except ZRLE, whose two known defects are recorded findings). *)
Theorem C02_update_mixed_encodings : forall s pad rs tail es r n,
  rs <> [] -> len rs < 65536 -> 0 <= bypp s -> Forall (qok s) rs ->
  let sf := after_qrects (start_update s (len rs)) rs in
  let '(sc, ces) := commit sf in
  Drain sc PConnection tail es r n ->
  Drain s PConnection ([0; pad] ++ be_enc 2 (len rs) ++ concat (map qwire rs) ++ tail)
        ([EBegin] ++ concat (map qevents rs) ++ ces ++ es) r (2 + sum_steps rs + n).
Proof. exact qupdate_roundtrip. Qed.
Print Assumptions C02_update_mixed_encodings.

(** The premises are met: a library client on an RGB32 server, one update with an RRE rectangle of two
    subrectangles, a CoRRE rectangle without any, a Raw and a CopyRect rectangle (Hextile: next example). *)
Example C02_mixed_encodings_nonvacuous :
  let c := mk_cfg 1 1 None [] [] false false false false false 0 [] in
  let s := mk_st c None None (3, 8) (3, 8) 0 [] RGB32 MRGBX 8 8 false 0 0 [] [] [] false in
  let rs := [ QRre 1 1 4 4 [9; 9; 9; 0] [([1; 2; 3; 0], 0, 0, 2, 1); ([4; 5; 6; 0], 1, 2, 1, 1)];
              QCorre 0 0 2 2 [7; 7; 7; 0] [];
              QRaw 0 0 1 1 [1; 1; 1; 0];
              QCopy 2 2 1 1 0 0 ] in
  0 <= bypp s /\ Forall (qok s) rs /\ rs <> [] /\ len rs < 65536.
Proof.
  cbv zeta. split; [vm_compute; discriminate|]. split.
  - repeat constructor; vm_compute; try reflexivity; try (split; discriminate || reflexivity); intuition discriminate.
  - split; [discriminate|reflexivity].
Qed.

(** A 17x2 Hextile rectangle: a 16-wide tile with background, foreground and one foreground
    subrectangle, then a 1-wide tile that reuses the background and brings one coloured subrectangle. *)
Example C02_hextile_nonvacuous :
  let c := mk_cfg 1 1 None [] [] false false false false false 0 [] in
  let s := mk_st c None None (3, 8) (3, 8) 0 [] RGB32 MRGBX 8 8 false 0 0 [] [] [] false in
  let ts := [ HSub (Some [5; 5; 5; 0]) (Some [6; 6; 6; 0]) (HFg [(1, 0, 2, 1)]);
              HSub None None (HCol [([9; 9; 9; 0], (0, 0, 1, 2))]) ] in
  covers 0 0 17 2 ts 0 0 /\ tiles_ok s 0 0 17 2 ts 0 0 None None /\
  tiles_events 0 0 17 2 ts 0 0 None None =
    [EFill 0 0 16 2 [5; 5; 5; 0]; EFill 1 0 2 1 [6; 6; 6; 0]; EFill 16 0 1 2 [5; 5; 5; 0]; EFill 16 0 1 2 [9; 9; 9; 0]].
Proof.
  cbv zeta. split; [vm_compute; reflexivity|]. split; [|vm_compute; reflexivity].
  cbn. repeat (first [split | eexists | constructor | intro]); try reflexivity; try (vm_compute; reflexivity); try discriminate.
Qed.

From VD Require Import Model.Image Model.Screen Model.Apply Proofs.ScreenP Proofs.FramebufferP.

(** From callbacks to the framebuffer.  The screen the client builds by applying the decoder's
    callbacks (updateRectangle, fillRectangle = an update whose pixels all have the fill colour,
    updateDesktopSize, and - with --nocursor - updateCursor) of ANY history whose screen operations are
    accepted is, pixel for pixel and in size, the reference canvas of what those callbacks carry
    (composition theorem of C12).  Together with the round trips above: the bytes of an update determine
    the callbacks, the callbacks determine the canvas. *)
Theorem C02_callbacks_give_reference_canvas : forall nocursor es l,
  Forall no_mode es ->
  Forall (lop_ok nocursor) (concat (map op_of_ev es)) ->
  lrun (lib0 nocursor) (concat (map op_of_ev es)) = Some l ->
  let h := sops_of DEFAULT_IMAGE_MODE (concat (map op_of_ev es)) in
  fold_left apply_ev es (lib0 nocursor) = l /\
  wf_opt (screen l) /\
  (forall px py, 0 <= px -> 0 <= py ->
     get_opt (screen l) px py = fold_left ref_step h (fun _ _ => black) px py) /\
  size_opt (screen l) = fold_left ref_size h None.
Proof. exact callbacks_give_reference_canvas. Qed.
Print Assumptions C02_callbacks_give_reference_canvas.

(** The state-changing pseudo-rectangles, one handler invocation each: DesktopSize makes exactly one
    updateDesktopSize(w, h) and changes the geometry later captures ask for (C06); LastRect ends the
    update whatever count was announced and is not listed among its rectangles; the QEMU extended-key
    marker switches the negotiated flag and is not listed either. *)
Theorem C02_desktopsize_roundtrip : forall s x y w h tail s2 p2 es2 es r n,
  u16ok x -> u16ok y -> u16ok w -> u16ok h -> rects s <> 0 ->
  let s1 := set height (fun _ => h) (set width (fun _ => w) (enter_rect s x y w h)) in
  do_connection s1 = Ok s2 (Some p2) es2 ->
  Drain s2 p2 tail es r n ->
  Drain s PRect (rect_hdr x y w h DESKTOPSIZE_ENC ++ tail) ([EDesktopSize w h] ++ es2 ++ es) r (S n).
Proof. exact desktopsize_roundtrip. Qed.
Print Assumptions C02_desktopsize_roundtrip.

Theorem C02_lastrect_roundtrip : forall s x y w h tail s2 p2 es2 es r n,
  u16ok x -> u16ok y -> u16ok w -> u16ok h ->
  do_connection (set rects (fun _ => 0) s) = Ok s2 (Some p2) es2 ->
  Drain s2 p2 tail es r n ->
  Drain s PRect (rect_hdr x y w h LASTRECT_ENC ++ tail) (es2 ++ es) r (S n).
Proof. exact lastrect_roundtrip. Qed.
Print Assumptions C02_lastrect_roundtrip.

Theorem C02_qemu_key_marker_roundtrip : forall s x y w h tail s2 p2 es2 es r n,
  u16ok x -> u16ok y -> u16ok w -> u16ok h -> rects s <> 0 ->
  let s1 := enter_rect s x y w h in
  do_connection (set rectpos (fun _ => removelast (rectpos s1)) (set qemu_neg (fun _ => true) s1)) = Ok s2 (Some p2) es2 ->
  Drain s2 p2 tail es r n ->
  Drain s PRect (rect_hdr x y w h QEMU_KEY_ENC ++ tail) (es2 ++ es) r (S n).
Proof. exact qemu_key_roundtrip. Qed.
Print Assumptions C02_qemu_key_marker_roundtrip.

(** The tile geometry of Hextile and ZRLE used in the theorems above (tile size, next tile, end of the rectangle) and the
    sub-rectangle geometry of Hextile are the source's own expressions: [Gen/Exprs*.v] is regenerated from rfb.py on every run
    (gen/exprs.py) and these equalities are proved against whatever it says now - for all integers. *)
Theorem C02_tile_geometry_is_source : forall x y w h tx ty,
  gen_hextile_tile_size x y w h tx ty = (tile_w x w tx, tile_h y h ty) /\
  next_pos x y w h tx ty =
    (let '(a, b) := gen_hextile_next x y w h tx ty in if gen_hextile_done x y w h a b then None else Some (a, b)) /\
  gen_zrle_tile_size x y w h tx ty = (ztw x w tx, zth y h ty) /\
  gen_zrle_next x y w h tx ty = znext x w tx ty /\
  gen_zrle_first x y = (x, y).
Proof. exact tile_geometry_is_source. Qed.
Print Assumptions C02_tile_geometry_is_source.

Theorem C02_hextile_walk_is_source : forall s bg fg x y w h tx ty,
  hex_next s bg fg x y w h tx ty =
  let '(a, b) := gen_hextile_next x y w h tx ty in
  if gen_hextile_done x y w h a b then do_connection s else ok s (PHextile bg fg x y w h a b) [].
Proof. exact hex_next_is_source. Qed.
Print Assumptions C02_hextile_walk_is_source.

Theorem C02_subrect_geometry_is_rfc : forall tx ty xy wh, (0 <= xy < 256)%Z -> (0 <= wh < 256)%Z ->
  gen_hextile_sub_fg tx ty xy wh = (tx + xy / 16, ty + xy mod 16, wh / 16 + 1, wh mod 16 + 1)%Z.
Proof. exact subrect_geometry_is_rfc. Qed.
Print Assumptions C02_subrect_geometry_is_rfc.

Theorem C02_subrects_use_source_geometry : forall xy wh r tx ty,
  hex_subrects_fg (xy :: wh :: r) tx ty = option_map (cons (gen_hextile_sub_fg tx ty xy wh)) (hex_subrects_fg r tx ty).
Proof. exact hex_subrects_fg_is_source. Qed.
Print Assumptions C02_subrects_use_source_geometry.
