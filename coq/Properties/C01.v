(** C01 - Server stream segmentation never changes client behaviour. Statements only. *)
From Coq Require Import ZArith List Bool.
From VD Require Import Base.Bytes Model.Engine Model.Rfb Proofs.EngineP.
Import ListNotations.
Open Scope Z_scope.

Notation RunRfb := (Run st pend ev need step).
Notation FeedRfb := (Feed st pend ev need step).

(** Past the banner, for EVERY byte stream (valid or not) and every state the client can be left
    in by earlier data ([quiescent]: it is idle because it lacks bytes, or it has crashed):
    delivering the stream in any chunks yields exactly the events (callbacks with arguments,
    writes, close), the end state (persistent state, pending expectation, residual buffer - or
    the crash) and the number of handler invocations of delivering it whole. *)
Theorem C01_chunking_invariance : forall o chunks es r n,
  quiescent st pend need o ->
  (RunRfb o chunks es r n <-> FeedRfb o (concat chunks) es r n).
Proof. intros; apply Run_concat; assumption. Qed.
Print Assumptions C01_chunking_invariance.

(** Consequently any two chunkings of one stream are indistinguishable. *)
Theorem C01_any_two_chunkings : forall o c1 c2 es r n,
  quiescent st pend need o -> concat c1 = concat c2 ->
  (RunRfb o c1 es r n <-> RunRfb o c2 es r n).
Proof. intros; apply chunking_invariance; assumption. Qed.
Print Assumptions C01_any_two_chunkings.

(** The relation is deterministic: a chunking cannot have two different behaviours. *)
Theorem C01_deterministic : forall s p buf es r n es' r' n',
  Drain st pend ev need step s p buf es r n -> Drain st pend ev need step s p buf es' r' n' ->
  es = es' /\ r = r' /\ n = n'.
Proof. intros; eapply Drain_det; eassumption. Qed.
Print Assumptions C01_deterministic.

(** The executable model the harness runs is this relation. *)
Theorem C01_executable_is_relation : forall fuel s p buf es r n,
  drain_fuel st pend ev need step fuel s p buf = Some (es, r, n) ->
  Drain st pend ev need step s p buf es r n.
Proof. intros; eapply drain_fuel_sound; eassumption. Qed.
Print Assumptions C01_executable_is_relation.

From VD Require Import Proofs.BannerP.

(** The whole client, banner phase included.  [CFeed] is one dataReceived call that is not rejected
    (the client calls loseConnection on every delivery of a stream that cannot become a banner; Twisted
    then stops delivering - that case has no derivation).  From a fresh client, or from any state an
    earlier delivery left, delivering a stream in any chunks yields exactly the events, the end state
    (banner buffer or engine state) and the handler count of delivering it whole - wherever the cuts
    fall: inside the twelve banner bytes, between banner and handshake, inside any later message. *)
Theorem C01_whole_client_chunking : forall chunks c es c2 n,
  cquiescent c -> (CRuns c chunks es c2 n <-> CFeed c (concat chunks) es c2 n).
Proof. exact CRuns_concat. Qed.
Print Assumptions C01_whole_client_chunking.

Theorem C01_whole_client_any_two : forall c c1 c2 es cf n,
  cquiescent c -> concat c1 = concat c2 -> (CRuns c c1 es cf n <-> CRuns c c2 es cf n).
Proof. exact client_chunking_invariance. Qed.
Print Assumptions C01_whole_client_any_two.

(** Rejection is final, so cutting a stream never turns a rejected one into an accepted one or back. *)
Theorem C01_rejection_is_stable : forall s x y,
  handle_initial s x = ILose -> handle_initial s (x ++ y) = ILose.
Proof. exact handle_initial_lose. Qed.
Print Assumptions C01_rejection_is_stable.

(** The executable client the harness compares with the implementation is this relation. *)
Theorem C01_executable_client_is_relation : forall fuel c d es c' n,
  feed_plain fuel c d = Some (es, c', n) ->
  (forall s buf, c = CInitial s buf -> handle_initial s (buf ++ d) <> ILose) ->
  CFeed c d es c' n.
Proof. exact feed_plain_sound. Qed.
Print Assumptions C01_executable_client_is_relation.

(** A fresh client is quiescent, and a banner cut in three is accepted: the premises are met. *)
Example C01_banner_nonvacuous :
  let c := mk_cfg 1 1 None [] [] false false false false false 0 [] in
  let s := mk_st c None None (0, 0) (0, 0) 0 [] Gen.Tables.RGB32 Base.PixFmt.MRGBX (-1) (-1) false 0 0 [] [] [] false in
  cquiescent (CInitial s []) /\
  handle_initial s [82; 70; 66] = IWait /\
  handle_initial s ([82; 70; 66] ++ [32; 48; 48; 51; 46; 48]) = IWait /\
  exists s' es, handle_initial s ([82; 70; 66] ++ [32; 48; 48; 51; 46; 48] ++ [48; 56; 10; 1]) = IGo s' PNumSec [1] es.
Proof.
  cbv zeta. split; [reflexivity|]. split; [vm_compute; reflexivity|]. split; [vm_compute; reflexivity|].
  eexists. eexists. vm_compute. reflexivity.
Qed.
