(** C01 - Server stream segmentation never changes client behaviour. Statements only. *)
From Coq Require Import ZArith List Bool.
From VD Require Import Base.Bytes Model.Engine Model.Rfb Proofs.EngineP.
Import ListNotations.
Open Scope Z_scope.

Notation RunRfb := (Run st pend ev need step).
Notation FeedRfb := (Feed st pend ev need step).

(** Past the banner, for EVERY byte stream (valid or not) and every state the client can be left
    in by earlier data ([quiescent]: it is idle because it lacks bytes, or it has crashed):
    delivering the stream in any chunks yields exactly the events (callbacks with arguments,
    writes, close), the end state (persistent state, pending expectation, residual buffer - or
    the crash) and the number of handler invocations of delivering it whole. *)
Theorem C01_chunking_invariance : forall o chunks es r n,
  quiescent st pend need o ->
  (RunRfb o chunks es r n <-> FeedRfb o (concat chunks) es r n).
Proof. intros; apply Run_concat; assumption. Qed.
Print Assumptions C01_chunking_invariance.

(** Consequently any two chunkings of one stream are indistinguishable. *)
Theorem C01_any_two_chunkings : forall o c1 c2 es r n,
  quiescent st pend need o -> concat c1 = concat c2 ->
  (RunRfb o c1 es r n <-> RunRfb o c2 es r n).
Proof. intros; apply chunking_invariance; assumption. Qed.
Print Assumptions C01_any_two_chunkings.

(** The relation is deterministic: a chunking cannot have two different behaviours. *)
Theorem C01_deterministic : forall s p buf es r n es' r' n',
  Drain st pend ev need step s p buf es r n -> Drain st pend ev need step s p buf es' r' n' ->
  es = es' /\ r = r' /\ n = n'.
Proof. intros; eapply Drain_det; eassumption. Qed.
Print Assumptions C01_deterministic.

(** The executable model the harness runs is this relation. *)
Theorem C01_executable_is_relation : forall fuel s p buf es r n,
  drain_fuel st pend ev need step fuel s p buf = Some (es, r, n) ->
  Drain st pend ev need step s p buf es r n.
Proof. intros; eapply drain_fuel_sound; eassumption. Qed.
Print Assumptions C01_executable_is_relation.
