(** C16 - the logging proxy is a transparent relay: the viewer-side parser, which runs before each
    chunk is forwarded, neither spins nor depends on chunking (statements grow). *)
From Coq Require Import ZArith List Bool Lia.
From VD Require Import Base.Bytes Base.Text Model.Recorder Proofs.RecorderP Proofs.ParserP Proofs.SessionAllP.
Import ListNotations.
Open Scope Z_scope.

(** dataReceived always returns or raises - for every parser state reachable from a connection, every
    time and EVERY byte string, no input makes the while loop spin (the relayed session cannot freeze
    in the parser). *)
Theorem C16_parser_never_spins : forall s now d, need_ok s -> forall es, rfeed s now d <> RSpin es.
Proof. exact rfeed_total. Qed.
Print Assumptions C16_parser_never_spins.

(** every handler invocation lowers a potential bounded by twice the buffered bytes plus two *)
Theorem C16_handler_progress : forall s now es s',
  need_ok s -> r_need s <= len (r_buf s) -> handle s now = HOk es s' -> mu s' < mu s.
Proof. exact handle_decreases. Qed.
Print Assumptions C16_handler_progress.

(** what the parser does with the bytes it has does not depend on the bytes that follow them *)
Theorem C16_handler_locality : forall s now x, ready s -> handle (ext s x) now = lift x (handle s now).
Proof. exact handle_ext. Qed.
Print Assumptions C16_handler_locality.

(** a raise happens at the same point of the stream whatever follows, so whether a chunk is forwarded
    does not depend on how the stream was cut before it *)
Theorem C16_raise_is_chunk_independent : forall now x s acc es,
  Run now s acc (RRaise es) -> need_ok s -> Run now (ext s x) acc (RRaise es).
Proof. exact Run_ext_raise. Qed.
Print Assumptions C16_raise_is_chunk_independent.

(** Once the 8-byte ClientCutText header is parsed, exactly the announced number of text bytes is
    skipped, nothing is raised, and the parser is back at a message boundary. *)
Theorem C16_cuttext_skipped : forall s now n text rest,
  r_handler s = HCutText n -> len text = n -> r_buf s = text ++ rest ->
  handle s now = HOk [RCutText] (mk_rstate rest HProtocol 1 (r_pwreq s) (r_mouse s) (r_last s)).
Proof. exact cuttext_skipped. Qed.
Print Assumptions C16_cuttext_skipped.

(** A viewer session made of the seven message kinds the recorder understands - SetPixelFormat,
    SetEncodings, FramebufferUpdateRequest, KeyEvent, PointerEvent, ClientCutText, QEMU extended key
    event - with ANY field values (any pixel-format bytes, any number of any encodings, any cut text,
    any pointer mask; keysyms the recorder can name), of any length and under EVERY chunking: the
    parser never raises, consumes exactly the session's bytes and ends at a message boundary - so every
    chunk is forwarded. *)
Theorem C16_session_never_raises : forall now pw msgs mouse last chunks,
  Forall vwf msgs -> concat chunks = concat (map vwire msgs) ->
  exists es mouse' last', rfeed_chunks (boundary [] pw mouse last) now chunks = ROk es (boundary [] pw mouse' last').
Proof. exact session_never_raises_any_chunking. Qed.
Print Assumptions C16_session_never_raises.

Example C16_vwf_nonvacuous :
  vwf (VSetEnc 7 [[0; 0; 0; 5]; [255; 255; 255; 17]]) /\ vwf (VCut [1; 2; 3] [104; 105]) /\ vwf (VPtr 255 65535 0).
Proof. cbn. repeat split; try lia; repeat constructor. Qed.
