(** C16 - the logging proxy is a transparent relay: the viewer-side parser, which runs before each
    chunk is forwarded, neither spins nor depends on chunking (statements grow). *)
From Coq Require Import ZArith List Bool Lia.
From VD Require Import Base.Bytes Base.Text Model.Recorder Proofs.RecorderP Proofs.ParserP Proofs.SessionAllP.
Import ListNotations.
Open Scope Z_scope.

(** dataReceived always returns or raises - for every parser state reachable from a connection, every
    time and EVERY byte string, no input makes the while loop spin (the relayed session cannot freeze
    in the parser). *)
Theorem C16_parser_never_spins : forall s now d, need_ok s -> forall es, rfeed s now d <> RSpin es.
Proof. exact rfeed_total. Qed.
Print Assumptions C16_parser_never_spins.

(** every handler invocation lowers a potential bounded by twice the buffered bytes plus two *)
Theorem C16_handler_progress : forall s now es s',
  need_ok s -> r_need s <= len (r_buf s) -> handle s now = HOk es s' -> mu s' < mu s.
Proof. exact handle_decreases. Qed.
Print Assumptions C16_handler_progress.

(** what the parser does with the bytes it has does not depend on the bytes that follow them *)
Theorem C16_handler_locality : forall s now x, ready s -> handle (ext s x) now = lift x (handle s now).
Proof. exact handle_ext. Qed.
Print Assumptions C16_handler_locality.

(** a raise happens at the same point of the stream whatever follows, so whether a chunk is forwarded
    does not depend on how the stream was cut before it *)
Theorem C16_raise_is_chunk_independent : forall now x s acc es,
  Run now s acc (RRaise es) -> need_ok s -> Run now (ext s x) acc (RRaise es).
Proof. exact Run_ext_raise. Qed.
Print Assumptions C16_raise_is_chunk_independent.

(** Once the 8-byte ClientCutText header is parsed, exactly the announced number of text bytes is
    skipped, nothing is raised, and the parser is back at a message boundary. *)
Theorem C16_cuttext_skipped : forall s now n text rest,
  r_handler s = HCutText n -> len text = n -> r_buf s = text ++ rest ->
  handle s now = HOk [RCutText] (mk_rstate rest HProtocol 1 (r_pwreq s) (r_mouse s) (r_last s)).
Proof. exact cuttext_skipped. Qed.
Print Assumptions C16_cuttext_skipped.

(** A viewer session made of the seven message kinds the recorder understands - SetPixelFormat,
    SetEncodings, FramebufferUpdateRequest, KeyEvent, PointerEvent, ClientCutText, QEMU extended key
    event - with ANY field values (any pixel-format bytes, any number of any encodings, any cut text,
    any pointer mask; keysyms the recorder can name), of any length and under EVERY chunking: the
    parser never raises, consumes exactly the session's bytes and ends at a message boundary - so every
    chunk is forwarded. *)
Theorem C16_session_never_raises : forall now pw msgs mouse last chunks,
  Forall vwf msgs -> concat chunks = concat (map vwire msgs) ->
  exists es mouse' last', rfeed_chunks (boundary [] pw mouse last) now chunks = ROk es (boundary [] pw mouse' last').
Proof. exact session_never_raises_any_chunking. Qed.
Print Assumptions C16_session_never_raises.

Example C16_vwf_nonvacuous :
  vwf (VSetEnc 7 [[0; 0; 0; 5]; [255; 255; 255; 17]]) /\ vwf (VCut [1; 2; 3] [104; 105]) /\ vwf (VPtr 255 65535 0).
Proof. cbn. repeat split; try lia; repeat constructor. Qed.

From VD Require Import Model.Engine Model.Rfb Proofs.RelayP Proofs.DecodeP Proofs.UpdateP Proofs.ServerLegP.

(** Whether a chunk is forwarded never depends on when it arrives: two runs of dataReceived on states
    that differ only in the recorder's clock end in the same parser state, or both raise. *)
Theorem C16_forwarding_is_time_independent : forall s s' now now' d,
  erase s = erase s' -> shape (rfeed s now d) = shape (rfeed s' now' d).
Proof. exact rfeed_shape. Qed.
Print Assumptions C16_forwarding_is_time_independent.

(** The viewer -> server leg as the property states it.  [relay] is VNCLoggingServerProxy.dataReceived
    iterated over (arrival time, chunk) pairs: parse, then forward the chunk; an exception skips the
    forward and aborts.  For a session of the seven kinds, under EVERY chunking and EVERY arrival times,
    the bytes forwarded to the server are exactly the viewer's bytes, once and in order, and the
    connection is not aborted. *)
Theorem C16_viewer_bytes_relayed : forall pw msgs mouse last calls,
  Forall vwf msgs -> concat (map snd calls) = concat (map vwire msgs) ->
  relay (boundary [] pw mouse last) calls = (concat (map vwire msgs), false).
Proof. exact viewer_bytes_relayed. Qed.
Print Assumptions C16_viewer_bytes_relayed.

(** The server -> viewer leg: VNCLoggingClientProxy.dataReceived forwards the chunk and then hands it to
    the logging client (an RFB client on a null transport); an exception there would abort the relayed
    session.  On a server session of FramebufferUpdates (Raw / CopyRect / RRE / CoRRE / Hextile rectangles
    in the format in force, any mix and number), Bells and ServerCutTexts of any length the logging client
    never raises: it consumes the session exactly and is idle at a message boundary.  (ZRLE /
    cursor rectangles: decided by the campaign; a viewer-selected format the logging client does not
    follow is the open finding c16-pixel-format.) *)
Theorem C16_server_session_never_raises : forall msgs s,
  0 <= bypp s -> Forall (sok s) msgs ->
  exists es s' n, same_fmt s s' /\
    Engine.Drain st pend ev need step s PConnection (concat (map swire msgs)) es (Idle s' PConnection []) n.
Proof. exact server_session_never_raises. Qed.
Print Assumptions C16_server_session_never_raises.
