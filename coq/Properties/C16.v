(** C16 - the logging proxy is a transparent relay (statements grow). *)
From Coq Require Import ZArith List Bool String.
From VD Require Import Base.Bytes Base.Text Model.Recorder Proofs.RecorderP.
Import ListNotations.
Open Scope Z_scope.

(** Once the 8-byte ClientCutText header is parsed, exactly the announced number of text bytes is
    skipped, nothing is raised, and the parser is back at a message boundary. *)
Theorem C16_cuttext_skipped : forall s now n text rest,
  r_handler s = HCutText n -> len text = n -> r_buf s = text ++ rest ->
  handle s now = HOk [RCutText] (mk_rstate rest HProtocol 1 (r_pwreq s) (r_mouse s) (r_last s)).
Proof. exact cuttext_skipped. Qed.
Print Assumptions C16_cuttext_skipped.
