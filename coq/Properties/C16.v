(** C16 - the logging proxy is a transparent relay: the viewer-side parser, which runs before each
    chunk is forwarded, neither spins nor depends on chunking (statements grow). *)
From Coq Require Import ZArith List Bool.
From VD Require Import Base.Bytes Base.Text Model.Recorder Proofs.RecorderP Proofs.ParserP.
Import ListNotations.
Open Scope Z_scope.

(** dataReceived always returns or raises - for every parser state reachable from a connection, every
    time and EVERY byte string, no input makes the while loop spin (the relayed session cannot freeze
    in the parser). *)
Theorem C16_parser_never_spins : forall s now d, need_ok s -> forall es, rfeed s now d <> RSpin es.
Proof. exact rfeed_total. Qed.
Print Assumptions C16_parser_never_spins.

(** every handler invocation lowers a potential bounded by twice the buffered bytes plus two *)
Theorem C16_handler_progress : forall s now es s',
  need_ok s -> r_need s <= len (r_buf s) -> handle s now = HOk es s' -> mu s' < mu s.
Proof. exact handle_decreases. Qed.
Print Assumptions C16_handler_progress.

(** what the parser does with the bytes it has does not depend on the bytes that follow them *)
Theorem C16_handler_locality : forall s now x, ready s -> handle (ext s x) now = lift x (handle s now).
Proof. exact handle_ext. Qed.
Print Assumptions C16_handler_locality.

(** a raise happens at the same point of the stream whatever follows, so whether a chunk is forwarded
    does not depend on how the stream was cut before it *)
Theorem C16_raise_is_chunk_independent : forall now x s acc es,
  Run now s acc (RRaise es) -> need_ok s -> Run now (ext s x) acc (RRaise es).
Proof. exact Run_ext_raise. Qed.
Print Assumptions C16_raise_is_chunk_independent.

(** Once the 8-byte ClientCutText header is parsed, exactly the announced number of text bytes is
    skipped, nothing is raised, and the parser is back at a message boundary. *)
Theorem C16_cuttext_skipped : forall s now n text rest,
  r_handler s = HCutText n -> len text = n -> r_buf s = text ++ rest ->
  handle s now = HOk [RCutText] (mk_rstate rest HProtocol 1 (r_pwreq s) (r_mouse s) (r_last s)).
Proof. exact cuttext_skipped. Qed.
Print Assumptions C16_cuttext_skipped.
