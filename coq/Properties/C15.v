(** C15 - No server input can make the client spin. Statements only. *)
From Coq Require Import ZArith List Bool Lia.
From VD Require Import Base.Bytes Model.Engine Model.Rfb Proofs.EngineP Proofs.RfbTermP.
Import ListNotations.
Open Scope Z_scope.

(** For every persistent state, every pending expectation the client can have registered
    ([wf_pend]: the few expectations that are only ever registered with a positive length have
    one) and every finite buffer of bytes 0..255, the expect loop terminates - idle or with a
    handler raising - after at most 3*len + 3 handler invocations. *)
Theorem C15_terminates_linear : forall s p buf,
  wf_pend p -> bytes_ok buf = true ->
  exists es r n, Drain st pend ev need step s p buf es r n /\ (n <= 3 * length buf + 3)%nat.
Proof. exact rfb_terminates_linear. Qed.
Print Assumptions C15_terminates_linear.

(** The generic measure argument behind it, for any handler family: if zero-length steps lower a
    rank bounded by R, then n <= (R+1)*len + rank + 1. *)
Theorem C15_generic_bound :
  forall (st pend ev : Type) (need : st -> pend -> Z) (step : st -> pend -> bytes -> Engine.res st pend ev)
         (Inv : st -> pend -> Prop) (rank : st -> pend -> nat) (R : nat),
    (forall s p, (rank s p <= R)%nat) ->
    (forall s p blk s' p' es, Inv s p -> bytes_ok blk = true -> step s p blk = Ok s' p' es ->
        Inv s' (next_pend pend p p') /\ (need s p <= 0 -> (rank s' (next_pend pend p p') < rank s p)%nat)) ->
    forall s p buf, Inv s p -> bytes_ok buf = true ->
      exists es r n, Drain st pend ev need step s p buf es r n /\ (n <= (R + 1) * length buf + rank s p + 1)%nat.
Proof. exact terminates_linear_inv. Qed.
Print Assumptions C15_generic_bound.

(** The shape of the defect that was repaired (fix c548ee1): a zero-length expectation whose
    handler registers nothing has NO terminating run - which is why the repaired handlers never
    register one. *)
Theorem C15_spin_shape :
  forall (st pend ev : Type) (need : st -> pend -> Z) (step : st -> pend -> bytes -> Engine.res st pend ev) s p buf,
    need s p = 0 -> (forall blk, exists es, step s p blk = Ok s None es) ->
    forall es r n, ~ Drain st pend ev need step s p buf es r n.
Proof. intros; eapply spin_no_derivation; eassumption. Qed.
Print Assumptions C15_spin_shape.

(** the registered expectations of every handler satisfy [wf_pend] (so the hypothesis of the
    first theorem is met in every reachable state) *)
Theorem C15_wf_preserved : forall s p blk s' p' es,
  wf_pend p -> bytes_ok blk = true -> step s p blk = Ok s' p' es -> wf_pend (next_pend pend p p').
Proof. exact step_wf. Qed.
Print Assumptions C15_wf_preserved.
