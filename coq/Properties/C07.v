(** C07 - expect completes exactly when the screen matches, and keeps polling until then. *)
From Coq Require Import ZArith List Bool PrimFloat.
From VD Require Import Base.Bytes Model.Image Model.Expect Proofs.ExpectP Gen.ExpectOps Proofs.ExpectTie Gen.ExprsExpectBox Proofs.TieExpectBox.
Import ListNotations.
Open Scope Z_scope.

(** The comparison: completes iff a screen exists, the awaited histogram has 768 bins, and the RMS
    (binary64 sqrt of the exact sum of squares over 768) of the difference between the histogram of
    the crop at the box and the awaited histogram is within the tolerance. *)
Theorem C07_match_iff : forall scr box expected maxrms,
  expect_matches scr box expected maxrms = true <->
  exists im, scr = Some im /\ len expected = 768 /\
    let '(x0, y0, x1, y1) := box in
    rms_le (sumsq (histogram (crop_rows im x0 y0 x1 y1)) expected) 768 maxrms = true.
Proof. exact matches_iff. Qed.
Print Assumptions C07_match_iff.

(** A region pixel-identical to the awaited image matches at tolerance 0 and at every larger one. *)
Theorem C07_identical_matches : forall im x0 y0 x1 y1 awaited maxrms,
  crop_rows im x0 y0 x1 y1 = awaited -> PrimFloat.leb zero maxrms = true ->
  expect_matches (Some im) (x0, y0, x1, y1) (histogram awaited) maxrms = true.
Proof. exact identical_matches. Qed.
Print Assumptions C07_identical_matches.

(** At tolerance 0 a match means equal histograms - given that the binary64 RMS of a positive sum is
    positive (an IEEE-754 fact taken as a hypothesis, not an axiom). *)
Theorem C07_zero_tolerance_exact :
  (forall s, 0 < s -> rms_le s 768 zero = false) ->
  forall im box awaited,
  expect_matches (Some im) box (histogram awaited) zero = true ->
  let '(x0, y0, x1, y1) := box in histogram (crop_rows im x0 y0 x1 y1) = histogram awaited.
Proof. exact match_at_zero_means_equal_histograms. Qed.
Print Assumptions C07_zero_tolerance_exact.

(** A region wait compares the box at the given offset having the awaited image's size. *)
Theorem C07_box : forall x y w h, region_box x y w h = (x, y, x + w, y + h).
Proof. reflexivity. Qed.
Print Assumptions C07_box.

(** Polling, for every sequence of committed screens of any length: the call completes at once iff
    the current screen matches, else sends exactly one request (incremental iff a screen exists). *)
Theorem C07_call : forall (S : Type) (matches : option S -> bool) scr,
  poll_start S matches scr =
    if matches scr then ([PDone], false)
    else ([PReq (match scr with Some _ => true | None => false end)], true).
Proof. exact poll_start_spec. Qed.
Print Assumptions C07_call.

(** While no committed screen matches, every commit triggers exactly one further (incremental)
    request and the wait does not complete. *)
Theorem C07_one_request_per_miss : forall (S : Type) (matches : option S -> bool) screens,
  (forall s, In s screens -> matches (Some s) = false) ->
  poll_commits S matches true screens = map (fun _ => [PReq true]) screens.
Proof. exact poll_all_miss. Qed.
Print Assumptions C07_one_request_per_miss.

(** The wait completes at the first matching commit - not earlier, not later - and nothing is
    requested afterwards. *)
Theorem C07_completes_at_first_match : forall (S : Type) (matches : option S -> bool) pre s post,
  (forall s', In s' pre -> matches (Some s') = false) -> matches (Some s) = true ->
  poll_commits S matches true (pre ++ s :: post) =
    map (fun _ => [PReq true]) pre ++ [PDone] :: map (fun _ => []) post.
Proof. exact poll_first_match. Qed.
Print Assumptions C07_completes_at_first_match.

(** non-vacuity: a 2x1 screen, its own crop matches at 0; one changed pixel does not *)
Example C07_example :
  let im := mk_image 2 1 [[(1, 2, 3); (4, 5, 6)]] in
  expect_matches (Some im) (region_box 1 0 1 1) (histogram [[(4, 5, 6)]]) zero = true /\
  expect_matches (Some im) (region_box 0 0 1 1) (histogram [[(4, 5, 6)]]) zero = false.
Proof. vm_compute. split; reflexivity. Qed.

(** The decision of the model is the source's own: [gen_expect_compare] is regenerated from the text of _expectCompare on
    every run (gen/expect.py: the test on the screen, the length guard, the sum of squared bin differences, the binary64
    `math.sqrt(sum_ / len(hist)) <= maxrms`, the early return, the incremental flag of the request written otherwise;
    the tail - a fresh Deferred on itself, exactly one update request - is pinned).  Crop and histogram are Pillow's. *)
Theorem C07_compare_is_source : forall screen x0 y0 x1 y1 expected maxrms,
  let has := match screen with Some _ => true | None => false end in
  let hist := match screen with Some im => histogram (crop_rows im x0 y0 x1 y1) | None => [] end in
  gen_expect_compare has hist expected maxrms =
  if expect_matches screen (x0, y0, x1, y1) expected maxrms then (true, false) else (false, has).
Proof. exact expect_compare_is_source. Qed.
Print Assumptions C07_compare_is_source.

(** The box handed to the comparison by expectRegion / expectScreen is the source's own (the file's size at the offset;
    expectScreen is the offset (0, 0)): regenerated from _expectFramebuffer on every run (gen/exprs.py). *)
Theorem C07_box_is_source : forall x y w h, gen_expect_box x y w h = region_box x y w h.
Proof. exact expect_box_is_source. Qed.
Print Assumptions C07_box_is_source.
