(** C17 - vnclog records every input event once, in order (statements grow). *)
From Coq Require Import ZArith List Bool String.
Local Open Scope string_scope.
From VD Require Import Base.Bytes Base.Text Model.Shlex Model.Recorder Proofs.RecorderP.
Import ListNotations.
Local Open Scope list_scope.
Open Scope Z_scope.

(** A complete KeyEvent at the front of the buffer, parser at a message boundary: exactly one
    entry is written, "pause <gap> keydown|keyup <quoted name> \n", the gap being the time since
    the previous recorded event, and exactly the 8 bytes of the message are consumed. *)
Theorem C17_key_entry : forall s now down key rest name,
  r_handler s = HProtocol -> r_need s = 1 ->
  0 <= down <= 255 -> 0 <= key <= 4294967295 -> key_name key = Some name ->
  r_buf s = key_event_bytes down key ++ rest ->
  handle s now =
    HOk [RRecord (join_sp [w "pause"; fmt4 (now - r_last s); (if negb (down =? 0) then w "keydown" else w "keyup");
                           quote name; [10]])]
        (mk_rstate rest HProtocol 1 (r_pwreq s) (r_mouse s) now).
Proof. exact key_entry. Qed.
Print Assumptions C17_key_entry.
