(** C17 - vnclog records every input event once, in order, regardless of chunking. *)
From Coq Require Import ZArith List Bool String.
Local Open Scope string_scope.
From VD Require Import Base.Bytes Base.Text Model.Shlex Model.Recorder Model.Replay.
From VD Require Import Proofs.RecorderP Proofs.ParserP Proofs.SessionP Gen.RecorderOps Proofs.RecorderTie.
Import ListNotations.
Local Open Scope list_scope.
Open Scope Z_scope.

(** A complete KeyEvent at the front of the buffer, parser at a message boundary: exactly one
    entry is written, "pause <gap> keydown|keyup <quoted name> \n", the gap being the time since
    the previous recorded event, and exactly the 8 bytes of the message are consumed. *)
Theorem C17_key_entry : forall s now down key rest name,
  r_handler s = HProtocol -> r_need s = 1 ->
  0 <= down <= 255 -> 0 <= key <= 4294967295 -> key_name key = Some name ->
  r_buf s = key_event_bytes down key ++ rest ->
  handle s now =
    HOk [RRecord (join_sp [w "pause"; fmt4 (now - r_last s); (if negb (down =? 0) then w "keydown" else w "keyup");
                           quote name; [10]])]
        (mk_rstate rest HProtocol 1 (r_pwreq s) (r_mouse s) now).
Proof. exact key_entry. Qed.
Print Assumptions C17_key_entry.

(** Likewise a PointerEvent: one entry (pause, move if the position changed, a click per set button). *)
Theorem C17_pointer_entry : forall s now mask x y rest,
  r_handler s = HProtocol ->
  0 <= mask <= 255 -> 0 <= x < 65536 -> 0 <= y < 65536 ->
  r_buf s = pointer_event_bytes mask x y ++ rest ->
  handle s now =
    let '(line, s2) := record_pointer (mk_rstate rest HProtocol 1 (r_pwreq s) (r_mouse s) (r_last s)) now x y mask in
    HOk [RRecord line] s2.
Proof. exact pointer_entry. Qed.
Print Assumptions C17_pointer_entry.

(** Chunk invariance of the viewer-side parser, for EVERY parser state, EVERY byte stream (valid or
    not) and every split: feeding [a] then [b] is feeding [a ++ b] - same recorder writes in the same
    order, same final state, same failure if a handler raises. *)
Theorem C17_split_invariance : forall s now a b es s1,
  need_ok s -> rfeed s now a = ROk es s1 ->
  rfeed s now (a ++ b) = prepend es (rfeed s1 now b).
Proof. exact rfeed_app. Qed.
Print Assumptions C17_split_invariance.

(** ... hence for every list of chunks, i.e. all 2^(n-1) ways of cutting an n-byte stream. *)
Theorem C17_chunking_invariance : forall now chunks s,
  need_ok s -> quiescent s -> rfeed_chunks s now chunks = rfeed s now (List.concat chunks).
Proof. exact chunking_invariance. Qed.
Print Assumptions C17_chunking_invariance.

(** A session of key presses, key releases and pointer events, of any length: exactly one entry per
    event, in the order sent, nothing else, under every chunking of its bytes; the parser ends at a
    message boundary with an empty buffer. *)
Theorem C17_one_entry_per_event : forall now pw mouse last evs chunks,
  Forall wf_ev evs -> List.concat chunks = List.concat (map wire evs) ->
  let '(es, m', l') := entries now pw mouse last evs in
  rfeed_chunks (mk_rstate [] HProtocol 1 pw mouse last) now chunks = ROk es (mk_rstate [] HProtocol 1 pw m' l').
Proof. exact session_recorded_any_chunking. Qed.
Print Assumptions C17_one_entry_per_event.

(** non-vacuity: the initial state of a connection satisfies the hypotheses *)
Example C17_initial_state_ok : need_ok (rstate0 false 0) /\ quiescent (rstate0 false 0).
Proof. split; [reflexivity|unfold quiescent; cbn; reflexivity]. Qed.

(** The entries of the model are the source's own: [Gen/RecorderOps.v] is regenerated from the text of handle_keyEvent /
    handle_pointerEvent on every run (gen/recorder.py: the word list, its formats, the down-flag test, the move test
    against the remembered position, the loop over the eight buttons, the update of last_event and of the position) and
    equals [record_key] / [record_pointer] for every state and event. *)
Theorem C17_key_entry_is_source : forall s now key down,
  record_key s now key down =
  match gen_record_key (r_last s) now key down with
  | None => None
  | Some (line, last') => Some (line, mk_rstate (r_buf s) (r_handler s) (r_need s) (r_pwreq s) (r_mouse s) last')
  end.
Proof. exact record_key_is_source. Qed.
Print Assumptions C17_key_entry_is_source.

Theorem C17_pointer_entry_is_source : forall s now x y mask,
  record_pointer s now x y mask =
  let '(line, mouse', last') := gen_record_pointer (r_mouse s) (r_last s) now x y mask in
  (line, mk_rstate (r_buf s) (r_handler s) (r_need s) (r_pwreq s) mouse' last').
Proof. exact record_pointer_is_source. Qed.
Print Assumptions C17_pointer_entry_is_source.
