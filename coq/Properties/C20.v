(** C20 - Server addresses parse according to the documented grammar. Statements only. *)
From Coq Require Import ZArith List Bool Lia.
From Coq Require Import String.
From VD Require Import Base.Bytes Base.Text Model.Server Proofs.ServerP Gen.ParseServer Proofs.ServerTie Proofs.ServerConvP.
Import ListNotations.
Open Scope Z_scope.

(** [ex] stands for os.path.exists and [v6] for "ipaddress.IPv6Address accepts"; both are
    arbitrary.  [host_ok h]: no ':' in h and h does not start with '['.  [digits n]: a
    non-empty string of ASCII digits, [dec_val n] its value. *)

Theorem C20_grammar : forall ex v6 h n,
  host_ok h -> digits n ->
  parse_server ex v6 h = Some (fam_of ex h, eff_host h, 5900) /\
  parse_server ex v6 (h ++ COLON :: n) = Some (fam_of ex h, eff_host h, 5900 + dec_val n) /\
  parse_server ex v6 (h ++ COLON :: COLON :: n) = Some (fam_of ex h, eff_host h, dec_val n).
Proof.
  intros ex v6 h n Hh Hn. split; [apply grammar_host; exact Hh|].
  split; [apply grammar_display|apply grammar_port]; assumption.
Qed.
Print Assumptions C20_grammar.

(** the host is returned exactly as written, an empty host meaning 127.0.0.1; the family is
    UNIX for an existing path, else IPv4 for a dotted quad, else unspecified *)
Theorem C20_family : forall ex h,
  eff_host h = (match h with [] => localhost | _ => h end) /\
  fam_of ex h = (if ex (eff_host h) then AF_UNIX else if is_ipv4 (eff_host h) then AF_INET else AF_UNSPEC).
Proof. intros; split; reflexivity. Qed.
Print Assumptions C20_family.

Theorem C20_ipv6 : forall ex v6 a n,
  ~ In RBRACK a -> v6 a = true -> digits n ->
  parse_server ex v6 (LBRACK :: a ++ [RBRACK]) = Some (AF_INET6, a, 5900) /\
  parse_server ex v6 (LBRACK :: a ++ RBRACK :: COLON :: n) = Some (AF_INET6, a, 5900 + dec_val n) /\
  parse_server ex v6 (LBRACK :: a ++ RBRACK :: COLON :: COLON :: n) = Some (AF_INET6, a, dec_val n).
Proof.
  intros ex v6 a n Ha Hv Hn. repeat split; apply grammar_ipv6; try assumption.
  - left; split; reflexivity.
  - right; left; exists n; split; [assumption|split; reflexivity].
  - right; right; exists n; split; [assumption|split; reflexivity].
Qed.
Print Assumptions C20_ipv6.

(** rejection: unterminated bracket, an address IPv6Address rejects, more than two colons,
    an empty or non-numeric number *)
Theorem C20_reject : forall ex v6,
  (forall a, ~ In RBRACK a -> parse_server ex v6 (LBRACK :: a) = None) /\
  (forall a rest, ~ In RBRACK a -> v6 a = false -> parse_server ex v6 (LBRACK :: a ++ RBRACK :: rest) = None) /\
  (forall s, starts_with [LBRACK] s = false -> (3 <= List.length (filter (Z.eqb COLON) s))%nat ->
             parse_server ex v6 s = None) /\
  (forall h n, host_ok h -> ~ In COLON n -> py_int n = None ->
               parse_server ex v6 (h ++ COLON :: n) = None /\
               parse_server ex v6 (h ++ COLON :: COLON :: n) = None) /\
  py_int [] = None /\
  (forall n c, In c n -> is_digit c = false -> c <> USCORE -> c <> 43 -> c <> 45 -> is_space c = false ->
               py_int n = None).
Proof.
  intros ex v6. split; [apply reject_unterminated|]. split; [apply reject_bad_ipv6|].
  split; [apply reject_many_colons|]. split; [apply reject_bad_number|].
  split; [reflexivity|]. apply py_int_nonnumeric.
Qed.
Print Assumptions C20_reject.

(** decimal value of the number *)
Theorem C20_number : forall n, digits n -> py_int n = Some (dec_val n).
Proof. exact py_int_digits. Qed.
Print Assumptions C20_number.

(** "... instead of yielding a guessed address": the converse of [C20_grammar].  Whenever an
    unbracketed string yields an address at all, the string has one of three shapes - [h],
    [h:n], or [h:m:n] with [n] a number Python's int() accepts ([m] is ignored; for the empty
    [m] this is the documented [h::n]; a non-empty [m] is the observation of DESIGN 5) - and
    host, family and port are the ones that shape names.  No other string yields an address. *)
Theorem C20_accepts_only : forall ex v6 s fam host port,
  starts_with [LBRACK] s = false ->
  parse_server ex v6 s = Some (fam, host, port) ->
  exists h, ~ In COLON h /\ host = eff_host h /\ fam = fam_of ex h /\
    ((s = h /\ port = 5900) \/
     (exists n v, ~ In COLON n /\ s = h ++ COLON :: n /\ py_int n = Some v /\ port = v + 5900) \/
     (exists m n, ~ In COLON m /\ ~ In COLON n /\ s = h ++ COLON :: m ++ COLON :: n /\ py_int n = Some port)).
Proof. exact unbracketed_accepts_only. Qed.
Print Assumptions C20_accepts_only.

(** and a bracketed string yields an address only as "[" a "]" rest with [a] accepted by
    IPv6Address; family IPv6, host exactly [a], port from [rest] *)
Theorem C20_bracketed_accepts_only : forall ex v6 s fam host port,
  starts_with [LBRACK] s = true ->
  parse_server ex v6 s = Some (fam, host, port) ->
  fam = AF_INET6 /\ v6 host = true /\ ~ In RBRACK host /\
  exists rest, s = LBRACK :: host ++ RBRACK :: rest /\ port_of (split_on COLON rest) = Some port.
Proof. exact bracketed_accepts_only. Qed.
Print Assumptions C20_bracketed_accepts_only.

Example C20_nonvacuous :
  host_ok (text_of_ascii "example.org"%string) /\ digits (text_of_ascii "42"%string) /\
  dec_val (text_of_ascii "42"%string) = 42 /\ is_ipv4 (text_of_ascii "10.0.0.255"%string) = true /\
  is_ipv4 (text_of_ascii "10.0.0.256"%string) = false /\ is_ipv4 (text_of_ascii "10.0.0.01"%string) = false.
Proof.
  repeat split; try (vm_compute; reflexivity); try (vm_compute; intuition discriminate).
  repeat constructor.
Qed.

(** The function the theorems above speak of is the source's own: [gen_parse_server] is regenerated from the text of
    command.parse_server on every run (gen/server.py: startswith, partition, split, indexing, len, int(), raise,
    try/except around IPv4Address, os.path.exists and IPv6Address as parameters) and equals the model for every string. *)
Theorem C20_parse_server_is_source : forall ex v6 s, gen_parse_server ex v6 s = parse_server ex v6 s.
Proof. exact parse_server_is_source. Qed.
Print Assumptions C20_parse_server_is_source.
