(** C09 - vncdo's exit status tells the truth and --timeout bounds the run (the status machine;
    the wall-clock bound is measured on real processes by the campaign). *)
From Coq Require Import ZArith List Bool.
From Coq Require Import QArith.
From VD Require Import Model.Exit Proofs.ExitP Gen.ExprsExit Proofs.TieExit.
Import ListNotations.
Open Scope Z_scope.

(** For every sequence of reactor events: exit status 0 only if the chain's last callback ran - every
    command was carried out and vncdo closed the connection itself ... *)
Theorem C09_zero_only_if_complete : forall evs, exit_status evs = 0 -> In XCompleted evs.
Proof. exact zero_only_if_complete. Qed.
Print Assumptions C09_zero_only_if_complete.

(** ... and the connection then ended in an orderly way. *)
Theorem C09_zero_needs_clean_close : forall evs, exit_status evs = 0 -> In XLostClean evs.
Proof. exact zero_needs_clean_close. Qed.
Print Assumptions C09_zero_needs_clean_close.

(** Connection failure, server close or reset, client abort - whatever happens before the script is
    complete, in any order and any number - leaves a non-zero status. *)
Theorem C09_fault_before_completion_nonzero : forall evs, ~ In XCompleted evs -> exit_status evs <> 0.
Proof. exact fault_before_completion_nonzero. Qed.
Print Assumptions C09_fault_before_completion_nonzero.

(** The timeout: non-zero unless the script completes; and when it fires the reactor stop is scheduled. *)
Theorem C09_timeout_nonzero : forall pre post,
  ~ In XCompleted (pre ++ XTimeout :: post) -> exit_status (pre ++ XTimeout :: post) <> 0.
Proof. exact timeout_nonzero. Qed.
Print Assumptions C09_timeout_nonzero.

Theorem C09_timeout_schedules_stop : forall pre post,
  x_stopped (xrun pre) = false -> x_stopping (xrun (pre ++ XTimeout :: post)) = true.
Proof. exact timeout_schedules_stop. Qed.
Print Assumptions C09_timeout_schedules_stop.

Example C09_good_run : exit_status [XCompleted; XLostClean; XStop] = 0.
Proof. reflexivity. Qed.
Example C09_server_closes_mid_script : exit_status [XLostClean; XStop] = 10.
Proof. reflexivity. Qed.

(** The --timeout timer is armed with the option's value itself - wall-clock seconds, whatever --warp says: the first
    argument of the one reactor.callLater in vncdo() as regenerated from command.py (gen/exprs.py, [Gen/Exprs*.v]). *)
Theorem C09_timeout_is_wall_clock : forall t w, (gen_timeout_delay t w == t)%Q.
Proof. exact timeout_is_wall_clock. Qed.
Print Assumptions C09_timeout_is_wall_clock.

(** The status each reactor event leaves behind is the source's own decision: [gen_status_lost], [gen_status_failed],
    [gen_status_error] and [gen_status_initial] are regenerated from VNCDoCLIFactory and build_tool on every run
    (gen/exprs.py) - 0 only for an orderly end of a completed script, one fixed non-zero status otherwise. *)
Theorem C09_exit_status_is_source : forall s e,
  x_status x0 = gen_status_initial /\
  xstep s e =
  if x_stopped s then s
  else match e with
       | XConnFailed => done s gen_status_failed
       | XCompleted => mk_x (x_status s) true (x_stopping s) (x_stopped s)
       | XLostClean => done s (gen_status_lost true (x_completed s))
       | XLostError => done s (gen_status_lost false (x_completed s))
       | XTimeout => done s gen_status_error
       | XStop => if x_stopping s then mk_x (x_status s) (x_completed s) true true else s
       end.
Proof. exact exit_status_is_source. Qed.
Print Assumptions C09_exit_status_is_source.
