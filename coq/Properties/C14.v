(** C14 - authentication responses are exactly what a conforming server verifies. *)
From Coq Require Import ZArith List Bool.
From RecordUpdate Require Import RecordSet.
Import RecordSetNotations.
From VD Require Import Base.Bytes Base.Text Model.Auth Model.Engine Model.Rfb Spec.DES Proofs.DESP Proofs.AuthP Gen.ExprsAuth Proofs.TieAuth.
Import ListNotations.
Open Scope Z_scope.

(** The DES key of VNC authentication: the first eight password characters, NUL padded, each byte
    bit-reversed ([rev8] reverses the bit list); for every ASCII password of any length. *)
Theorem C14_key : forall pw, Forall (fun c => 0 <= c < 128) pw ->
  vnc_key pw = Some (map rev8 (firstn 8 (pw ++ repeat 0 8))) /\
  length (map rev8 (firstn 8 (pw ++ repeat 0 8))) = 8%nat.
Proof. exact vnc_key_spec. Qed.
Print Assumptions C14_key.

(** The client model, handed a 16-byte challenge, writes DES-ECB(key)(challenge) and awaits the result. *)
Theorem C14_response_written : forall s pw chal,
  password s = Some pw -> Forall (fun c => 0 <= c < 128) pw ->
  step s PVNCAuth chal =
    Ok (s <| challenge := chal |>) (Some PAuthResult)
       [EWriteDES (map rev8 (firstn 8 (pw ++ repeat 0 8))) chal].
Proof. exact vnc_auth_step. Qed.
Print Assumptions C14_response_written.

(** DES-ECB of a 16-byte challenge is the two 8-byte halves encrypted independently: 16 bytes. *)
Theorem C14_response : forall key c1 c2, length c1 = 8%nat -> length c2 = 8%nat ->
  des_ecb_encrypt key (c1 ++ c2) = des_encrypt_bytes key c1 ++ des_encrypt_bytes key c2 /\
  length (des_ecb_encrypt key (c1 ++ c2)) = 16%nat.
Proof. exact response_spec. Qed.
Print Assumptions C14_response.

(** FIPS 46-3 DES is invertible for every key and block, so a conforming server, decrypting the
    response with the same key, recovers its challenge. *)
Theorem C14_des_invertible : forall key block, length block = 64%nat ->
  des_decrypt key (des_encrypt key block) = block.
Proof. exact des_decrypt_encrypt. Qed.
Print Assumptions C14_des_invertible.

Theorem C14_server_verifies : forall key c1 c2,
  length c1 = 8%nat -> length c2 = 8%nat ->
  Forall (fun b => 0 <= b < 256) c1 -> Forall (fun b => 0 <= b < 256) c2 ->
  des_ecb_decrypt key (des_ecb_encrypt key (c1 ++ c2)) = c1 ++ c2.
Proof. exact server_verifies. Qed.
Print Assumptions C14_server_verifies.

(** Apple Remote Desktop: the reply is 128 bytes of ciphertext followed by a public key of exactly
    keyLen bytes, whatever the leading bytes of the public or shared value; the plaintext is the
    UTF-8 user name and password, each NUL-padded to 64 bytes. MD5/AES are parameters. *)
Theorem C14_ard_lengths : forall (md5 : bytes -> bytes) (aes_enc : bytes -> bytes -> bytes),
  (forall k x, length (aes_enc k x) = length x) ->
  forall user pw ub pb rnd g keylen modulus serverkey plain shared key,
  utf8 user = Some ub -> utf8 pw = Some pb -> (length ub <= 64)%nat -> (length pb <= 64)%nat -> 0 <= keylen ->
  ard_parts user pw rnd g keylen modulus serverkey = Some (plain, shared, key) ->
  plain = pad64 ub ++ pad64 pb /\ length plain = 128%nat /\
  len key = keylen /\ len shared = keylen /\
  len (ard_reply md5 aes_enc (plain, shared, key)) = 128 + keylen.
Proof. intros md5 aes_enc Hlen. exact (ard_lengths md5 aes_enc Hlen). Qed.
Print Assumptions C14_ard_lengths.

(** A server holding the private exponent [a] matching the public key it sent recovers the NUL-padded
    user name and password, for every generator, modulus, client secret and key length. *)
Theorem C14_ard_server_recovers : forall (md5 : bytes -> bytes) (aes_enc aes_dec : bytes -> bytes -> bytes),
  (forall k x, aes_dec k (aes_enc k x) = x) -> (forall k x, length (aes_enc k x) = length x) ->
  forall user pw ub pb rnd g keylen modulus a,
  utf8 user = Some ub -> utf8 pw = Some pb -> (length ub <= 64)%nat -> (length pb <= 64)%nat ->
  0 <= keylen -> 0 <= a -> bytes_ok rnd = true -> bytes_ok modulus = true ->
  len modulus = keylen -> 0 < be_dec modulus ->
  let serverkey := be_enc (Z.to_nat keylen) (powmod g a (be_dec modulus)) in
  exists parts, ard_parts user pw rnd g keylen modulus serverkey = Some parts /\
                ard_server md5 aes_dec a keylen modulus (ard_reply md5 aes_enc parts) = pad64 ub ++ pad64 pb.
Proof. intros md5 e d Hinv Hlen. exact (ard_server_recovers md5 e d Hinv Hlen). Qed.
Print Assumptions C14_ard_server_recovers.

(** non-vacuity: the classic worked example of DES, and a DH exchange with a leading zero byte *)
Example C14_des_example :
  des_encrypt_bytes [0x13;0x34;0x57;0x79;0x9B;0xBC;0xDF;0xF1] [0x01;0x23;0x45;0x67;0x89;0xAB;0xCD;0xEF]
  = [0x85;0xE8;0x13;0x54;0x0F;0x0A;0xB4;0x05].
Proof. vm_compute. reflexivity. Qed.

Example C14_ard_leading_zero :
  match ard_parts [117] [112] [1] 2 2 [255; 241] (be_enc 2 (powmod 2 5 65521)) with
  | Some (_, shared, key) => key = [0; 2] /\ length shared = 2%nat
  | None => False
  end.
Proof. vm_compute. split; reflexivity. Qed.

(** The key of the model is the source's own: padding (fill character, width, precision of the format specification) and the
    per-byte bit reversal are regenerated from rfb._vnc_des on every run (gen/exprs.py, [Gen/Exprs*.v]). *)
Theorem C14_key_is_source : forall pw,
  vnc_key pw =
  let p := firstn gen_key_precision pw in
  let p8 := p ++ repeat gen_key_fill (gen_key_width - List.length p) in
  if forallb (fun c => (0 <=? c) && (c <? 128)) p8 then Some (map gen_key_byte p8) else None.
Proof. exact vnc_key_is_source. Qed.
Print Assumptions C14_key_is_source.
