(** C12 - placeholder statements (grow). *)
From Coq Require Import ZArith List Bool.
From VD Require Import Base.Bytes Model.Image Model.Screen.
Import ListNotations.
Open Scope Z_scope.

(** With the no-cursor option cursor-shape updates never alter the client state. *)
Theorem C12_nocursor : forall l x y w h img msk,
  l_nocursor l = true -> update_cursor l x y w h img msk = Some l.
Proof. intros. unfold update_cursor. rewrite H. reflexivity. Qed.
Print Assumptions C12_nocursor.

(** Right after a desktop-size change the image has exactly the announced size. *)
Theorem C12_size_after_resize : forall l w h l',
  resize l w h = Some l' -> exists im, screen l' = Some im /\ iw im = w /\ ih im = h.
Proof.
  intros l w h l' H. unfold resize in H. destruct (_ && _); [|discriminate]. inversion H; subst.
  cbn. destruct (screen l); eexists; split; reflexivity || (split; reflexivity).
Qed.
Print Assumptions C12_size_after_resize.
