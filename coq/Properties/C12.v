(** C12 - the client's screen is the exact composition of everything the server sent. *)
From Coq Require Import ZArith List Bool Lia.
From VD Require Import Base.Bytes Model.Image Model.Screen Gen.ScreenOps Proofs.ScreenTie.
Import ListNotations.
Open Scope Z_scope.

(** With the no-cursor option cursor-shape updates never alter the client state. *)
Theorem C12_nocursor : forall l x y w h img msk,
  l_nocursor l = true -> update_cursor l x y w h img msk = Some l.
Proof. intros. unfold update_cursor. rewrite H. reflexivity. Qed.
Print Assumptions C12_nocursor.

(** Right after a desktop-size change the image has exactly the announced size. *)
Theorem C12_size_after_resize : forall l w h l',
  resize l w h = Some l' -> exists im, screen l' = Some im /\ iw im = w /\ ih im = h.
Proof.
  intros l w h l' H. unfold resize in H. destruct (_ && _); [|discriminate]. inversion H; subst.
  cbn. destruct (screen l); eexists; split; reflexivity || (split; reflexivity).
Qed.
Print Assumptions C12_size_after_resize.

From VD Require Import Base.PixFmt Gen.Tables Proofs.ScreenP.

(** The composition theorem.  Starting from a fresh client, after ANY sequence of rectangle updates
    (any position, any size, any payload the client accepts), desktop-size changes and - with
    --nocursor - cursor-shape updates, every pixel of the screen equals the reference canvas of the
    history: the colour most recently sent for it (content cut off by a smaller desktop size is gone),
    black if none; and the image has the reference size (exactly the announced size after a size change,
    grown - never shrunk - by later rectangles). *)
Theorem C12_composition : forall nocursor ops l,
  Forall (lop_ok nocursor) ops -> lrun (lib0 nocursor) ops = Some l ->
  let h := sops_of DEFAULT_IMAGE_MODE ops in
  wf_opt (screen l) /\
  (forall px py, 0 <= px -> 0 <= py ->
     get_opt (screen l) px py = fold_left ref_step h (fun _ _ => black) px py) /\
  size_opt (screen l) = fold_left ref_size h None.
Proof. exact client_composition. Qed.
Print Assumptions C12_composition.

(** With a cursor shape drawn into the screen (pseudocursor, no --nocursor) - **partial**: for ANY
    accepted history, cursor-shape updates of any size, mask and hot spot included, wherever the
    pointer is, the screen stays a well-formed image of exactly the reference size (drawing the
    cursor never resizes, truncates or mis-shapes the screen).  Missing for the full statement: which
    pixels the masked paste changes (campaign). *)
From VD Require Import Proofs.CursorSizeP.
Theorem C12_size_with_cursor_partial : forall nocursor ops l,
  Forall lop_geom ops -> lrun (lib0 nocursor) ops = Some l ->
  wf_opt (screen l) /\ size_opt (screen l) = fold_left ref_size (sops_of DEFAULT_IMAGE_MODE ops) None.
Proof. exact client_size_with_cursor. Qed.
Print Assumptions C12_size_with_cursor_partial.

(** ... and pixelwise - **partial**: drawing the cursor (any shape, mask, hot spot, pointer position,
    negative offsets included) leaves at every coordinate either the pixel that was there or one of
    the pixels of the cursor image; size unchanged.  Missing: WHICH of the two, per mask bit. *)
From VD Require Import Proofs.CursorPixelsP.
Theorem C12_cursor_pixels_partial : forall l s c x y,
  screen l = Some s -> cur l = Some c ->
  exists s', screen (draw_cursor l) = Some s' /\ iw s' = iw s /\ ih s' = ih s /\
    (get s' x y = get s x y \/ In (get s' x y) (concat (rows (c_img c)))).
Proof. exact draw_cursor_pixels. Qed.
Print Assumptions C12_cursor_pixels_partial.

(** ... and exactly, when the pointer is at or beyond the cursor's hot spot on both axes (no clipping at
    the top/left edge) - **partial**: after drawCursor the screen shows the cursor's pixel exactly where
    the cursor image, placed with its hot spot on the pointer, lies on the screen and its mask bit is
    set, and the screen's own pixel everywhere else.  Missing: a hot spot beyond the pointer
    (negative paste offset; covered only by [C12_cursor_pixels_partial] and the campaign). *)
From VD Require Import Proofs.MaskedPasteP.
Theorem C12_cursor_overlay_partial : forall l s c x y,
  screen l = Some s -> cur l = Some c -> wf_image s -> wf_image (c_img c) ->
  c_fx c <= l_x l -> c_fy c <= l_y l -> 0 <= x -> 0 <= y ->
  let ox := l_x l - c_fx c in let oy := l_y l - c_fy c in
  exists s', screen (draw_cursor l) = Some s' /\ iw s' = iw s /\ ih s' = ih s /\
    get s' x y = if inside s x y && inside (c_img c) (x - ox) (y - oy) && mask_at (c_mask c) (x - ox) (y - oy)
                 then get (c_img c) (x - ox) (y - oy) else get s x y.
Proof. exact draw_cursor_overlay. Qed.
Print Assumptions C12_cursor_overlay_partial.

(** The cursor overlay in full: ANY pointer position and hot spot (a hot spot beyond the pointer
    clips the cursor at the top/left edge), any shape and mask.  After drawCursor the screen shows the
    cursor's pixel exactly where the cursor image, placed with its hot spot on the pointer, lies on
    the screen and its mask bit is set; the screen's own pixel everywhere else; same size. *)
From VD Require Import Proofs.MaskedPasteNegP.
Theorem C12_cursor_overlay : forall l s c x y,
  screen l = Some s -> cur l = Some c -> wf_image s -> wf_image (c_img c) -> 0 <= x -> 0 <= y ->
  exists s', screen (draw_cursor l) = Some s' /\ iw s' = iw s /\ ih s' = ih s /\
    get s' x y = overlay s c (l_x l) (l_y l) x y.
Proof. exact draw_cursor_overlay_any. Qed.
Print Assumptions C12_cursor_overlay.

(** One update while a cursor is set: the screen afterwards is the reference composition of the update
    (new data inside the rectangle, the old screen elsewhere, black where there was none; grown, never
    shrunk) with the cursor overlaid at the pointer.  **Partial** with respect to whole histories: the
    overlay is drawn INTO the screen, so the next update composes over a screen that already carries
    cursor pixels (that is what the code does; the campaign compares it with PIL). *)
Theorem C12_update_with_cursor_partial : forall l x y w h data u c l',
  data <> [] -> frombytes (l_mode l) w h data = Some u -> cur l = Some c ->
  wf_opt (screen l) -> wf_image (c_img c) -> 0 <= x -> 0 <= y ->
  update_rect l x y w h data = Some l' ->
  exists s', screen l' = Some s' /\
    iw s' = (match screen l with None => x + iw u | Some s => Z.max (x + iw u) (iw s) end) /\
    ih s' = (match screen l with None => y + ih u | Some s => Z.max (y + ih u) (ih s) end) /\
    forall px py, 0 <= px -> 0 <= py ->
      get s' px py = overlay (placed (screen l) x y u) c (l_x l) (l_y l) px py /\
      get (placed (screen l) x y u) px py =
        (if in_box x y (iw u) (ih u) px py then get u (px - x) (py - y) else get_opt (screen l) px py).
Proof. exact update_rect_with_cursor. Qed.
Print Assumptions C12_update_with_cursor_partial.

(** every cursor the client ever holds meets the hypotheses above: updateCursor installs a well-formed
    image of the announced size, with the announced hot spot and the mask rows of the message *)
Theorem C12_cursor_installed : forall l x y w h img msk l',
  l_nocursor l = false -> update_cursor l x y w h img msk = Some l' ->
  exists c, cur l' = Some c /\ wf_image (c_img c) /\ iw (c_img c) = w /\ ih (c_img c) = h /\
            c_fx c = x /\ c_fy c = y /\ c_mask c = mask_rows (Z.to_nat h) w msk.
Proof. exact update_cursor_installs. Qed.
Print Assumptions C12_cursor_installed.

(** The composition theorem WITH the cursor.  From a fresh client (no screen, no cursor; the pointer
    wherever it is, any image mode, with or without --nocursor), after ANY accepted history of
    rectangle updates, desktop-size changes and cursor-shape updates, every pixel of the screen equals
    the reference canvas [rf R] - a function of the history alone ([ref_lstep], Proofs/CursorHistoryP.v):
    the colour most recently sent for the pixel (content cut off by a smaller size is gone, black if
    none), with the current cursor stamped over it, hot spot on the pointer, through its mask, clipped
    to the screen, after every rectangle update and every cursor change (that is when the client
    draws it) - and the screen has the reference size. *)
From VD Require Import Proofs.CursorHistoryP.
Theorem C12_composition_with_cursor : forall l ops l',
  screen l = None -> cur l = None -> Forall lop_geom ops -> lrun l ops = Some l' ->
  let R := fold_left (ref_lstep (l_mode l) (l_nocursor l) (l_x l) (l_y l)) ops r0 in
  wf_opt (screen l') /\
  (forall x y, 0 <= x -> 0 <= y -> get_opt (screen l') x y = rf R x y) /\
  size_opt (screen l') = rsz R /\ cur l' = rcur R.
Proof. exact fresh_client_composition_with_cursor. Qed.
Print Assumptions C12_composition_with_cursor.

(** The reference canvas with the cursor is an extension of the cursor-free one: under --nocursor (no
    cursor is ever set) it IS the reference canvas and the reference size of [C12_composition]. *)
From VD Require Import Proofs.CursorHistoryNoCursorP.
Theorem C12_reference_with_cursor_extends : forall m px py ops,
  let R := fold_left (ref_lstep m true px py) ops r0 in
  rf R = fold_left ref_step (sops_of m ops) (fun _ _ => black) /\
  rsz R = fold_left ref_size (sops_of m ops) None.
Proof. exact ref_with_cursor_extends_cursor_free. Qed.
Print Assumptions C12_reference_with_cursor_extends.

Example C12_cursor_history_nonvacuous :
  let px (r g b : Z) := [r; g; b; 0] in
  let ops := [ LUpdate 1 1 1 1 (px 10 20 30);
               LCursor 1 1 2 2 (px 9 9 9 ++ px 8 8 8 ++ px 7 7 7 ++ px 6 6 6) [192; 64];
               LUpdate 0 0 3 1 (px 1 1 1 ++ px 2 2 2 ++ px 3 3 3);
               LResize 2 2 ] in
  Forall lop_geom ops /\
  exists l, lrun (lib0 false) ops = Some l /\ cur l <> None /\ size_opt (screen l) = Some (2, 2).
Proof.
  cbv zeta. split.
  - repeat constructor; cbn; lia.
  - eexists. split; [vm_compute; reflexivity|]. split; [discriminate|vm_compute; reflexivity].
Qed.

(** One update: inside the rectangle the new data, everywhere else exactly the old screen (black where
    there was none); the canvas afterwards contains both the old canvas and the rectangle. *)
Theorem C12_update_outside_unchanged : forall scr x y u,
  wf_opt scr -> wf_image u -> 0 <= x -> 0 <= y ->
  let R := placed scr x y u in
  wf_image R /\
  iw R = match scr with None => x + iw u | Some s => Z.max (x + iw u) (iw s) end /\
  ih R = match scr with None => y + ih u | Some s => Z.max (y + ih u) (ih s) end /\
  forall px py, 0 <= px -> 0 <= py ->
    get R px py = if in_box x y (iw u) (ih u) px py then get u (px - x) (py - y)
                  else match scr with Some s => get s px py | None => black end.
Proof. exact placed_spec. Qed.
Print Assumptions C12_update_outside_unchanged.

(** [placed] is what updateRectangle computes (no cursor shape held). *)
Theorem C12_update_is_placed : forall l x y w h data u,
  data <> [] -> frombytes (l_mode l) w h data = Some u -> cur l = None ->
  update_rect l x y w h data = Some (with_screen l (Some (placed (screen l) x y u))).
Proof. exact update_rect_placed. Qed.
Print Assumptions C12_update_is_placed.

(** A desktop-size change keeps every earlier pixel that still fits and blanks the rest. *)
Theorem C12_resize_preserves : forall scr w h,
  wf_opt scr -> 0 <= w -> 0 <= h ->
  let R := resized scr w h in
  wf_image R /\ iw R = w /\ ih R = h /\
  forall px py, 0 <= px -> 0 <= py ->
    get R px py = if (px <? w) && (py <? h) then get_opt scr px py else black.
Proof. exact resized_spec. Qed.
Print Assumptions C12_resize_preserves.

(** The hypotheses are met by a real history: first rectangle off the origin, growth, overlap, shrink. *)
Example C12_history_nonvacuous :
  let px (r g b : Z) := [r; g; b; 0] in
  let ops := [ LUpdate 1 1 1 1 (px 10 20 30);
               LUpdate 0 0 3 1 (px 1 1 1 ++ px 2 2 2 ++ px 3 3 3);
               LCursor 0 0 1 1 (px 9 9 9) [128];
               LResize 2 2;
               LUpdate 1 0 2 2 (px 4 4 4 ++ px 5 5 5 ++ px 6 6 6 ++ px 7 7 7) ] in
  Forall (lop_ok true) ops /\
  exists l, lrun (lib0 true) ops = Some l /\
    size_opt (screen l) = Some (3, 2) /\
    map (fun y => map (fun x => get_opt (screen l) x y) [0; 1; 2]) [0; 1] =
      [[(1, 1, 1); (4, 4, 4); (5, 5, 5)]; [(0, 0, 0); (6, 6, 6); (7, 7, 7)]].
Proof.
  cbv zeta. split.
  - repeat constructor; cbn; lia.
  - eexists. split; [vm_compute; reflexivity|]. split; vm_compute; reflexivity.
Qed.

(** The model's updateRectangle and updateDesktopSize are the source's own: [Gen/ScreenOps.v] is regenerated on every run
    by symbolic execution of the two methods of client.py (gen/screen.py: Image.new / paste / size, with and without an
    existing screen), and the composition theorems above are about exactly these terms. *)
Theorem C12_update_is_source : forall l x y w h data u,
  data <> [] -> frombytes (l_mode l) w h data = Some u ->
  update_rect l x y w h data =
  Some (draw_cursor (with_screen l (Some (match screen l with
                                          | None => gen_update_first x y w h u
                                          | Some s => gen_update_later s x y w h u
                                          end)))).
Proof. exact update_rect_is_source. Qed.
Print Assumptions C12_update_is_source.

Theorem C12_resize_is_source : forall l w h,
  resize l w h =
  if gen_resize_ok w h
  then Some (with_screen l (Some (match screen l with Some s => gen_resize_later s w h | None => gen_resize_first w h end)))
  else None.
Proof. exact resize_is_source. Qed.
Print Assumptions C12_resize_is_source.
