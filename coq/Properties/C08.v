(** C08 - script commands run strictly one after another with the requested timing. *)
From Coq Require Import ZArith QArith List Bool Sorted.
From VD Require Import Base.Bytes Model.ClientOps Model.Script Proofs.ScriptP Gen.ExprsTime Proofs.TieTime.
Import ListNotations.

(** Every operation - including the asynchronous ones: pause, drag, capture, expect - writes all its
    bytes, in time order, between its own start and its completion; the chain resumes at the
    completion time (timer expiry for pause/drag, the satisfying commit for capture/expect). For all
    operations, all client states, all time-ordered sequences of server commits. *)
Theorem C08_operation_interval : forall r o tr r',
  wf_rs r -> nonneg_op o -> run_sop r o = SOk tr r' ->
  seg (rs_time r) (rs_time r') tr /\ (rs_time r <= rs_time r')%Q /\ wf_rs r'.
Proof. exact op_interval. Qed.
Print Assumptions C08_operation_interval.

(** Hence for every script the timed trace is in order: no byte of a later command is sent before
    the earlier command has finished. *)
Theorem C08_sequential : forall ops r tr out,
  wf_rs r -> Forall nonneg_op ops -> run_script r ops = (tr, out) ->
  StronglySorted tle tr /\ Forall (fun e => (rs_time r <= fst e)%Q) tr.
Proof. exact script_ordered. Qed.
Print Assumptions C08_sequential.

(** A pause writes nothing and lasts exactly the requested time (the compiler has already divided by
    the warp factor; an inserted delay is a pause of delay/1000). *)
Theorem C08_pause : forall r d,
  exists r', run_sop r (SPause d) = SOk [] r' /\ (rs_time r' == rs_time r + d)%Q /\ rs_client r' = rs_client r.
Proof. exact pause_exact. Qed.
Print Assumptions C08_pause.

(** When the last command has finished the connection is closed: exactly once, as the last event;
    a script that is stuck or has failed does not close it. *)
Theorem C08_closes_at_end : forall ops r tr out,
  run_script r ops = (tr, out) ->
  match out with
  | Done t => exists tr0, tr = tr0 ++ [(t, TLose)] /\ forallb (fun e => negb (is_lose e)) tr0 = true
  | Stuck | Failed => forallb (fun e => negb (is_lose e)) tr = true
  end.
Proof. exact closes_at_end. Qed.
Print Assumptions C08_closes_at_end.

(** With the source's own arithmetic ([Gen/Exprs*.v], regenerated from build_command_list on every run): `pause a` under
    --warp w lasts a / w, and the delay between commands is delay / 1000 seconds. *)
Theorem C08_pause_is_requested_over_warp : forall r a w,
  exists r', run_sop r (SPause (gen_pause_duration a w)) = SOk [] r' /\ (rs_time r' == rs_time r + a / w)%Q /\ rs_client r' = rs_client r.
Proof. exact pause_lasts_requested_over_warp. Qed.
Print Assumptions C08_pause_is_requested_over_warp.

Theorem C08_delay_is_milliseconds : forall d, (gen_delay_seconds d == d / 1000)%Q.
Proof. exact delay_seconds_tie. Qed.
Print Assumptions C08_delay_is_milliseconds.
